(* Hand-written continuation of Std_Rules_Imp.v: the rules for imports, for the operators that the
   second-round helpers use (-, comparisons, &&, ||, ==, in, ranges, fail, casts, `a.b(..)`, `a.b{..}`,
   `a.(e)`, reduce over strings, expression statements) and judgements for FAILING evaluations. *)
From Ucg Require Import base.Bytes_Lemmas sem.Sem std.Std_Fuel std.Sem_Import std.Sem_Import_Lemmas std.Std_Rules_Imp.

Lemma le_res_err {A} (r r' : res A) : le_res r r' -> r = Err -> r' = Err.
Proof. intros H E. rewrite H; [exact E|]. rewrite E; discriminate. Qed.

Section Rules2.
  Variable fo : float_ops.
  Variable imports : bytes -> option prog.
  Variable stk : list bytes.
  Notation value := (value fo).
  Notation scope := (scope fo).
  Notation ctx := (ctx fo).
  Notation eval := (eval_imp fo imports).
  Notation copy_into := (copy_imp fo imports).
  Notation exec_list := (exec_imp fo imports).
  Notation veq := (veq fo).
  Notation render := (render fo).
  Notation lookup := (lookup fo).
  Notation VInt := (VInt fo).
  Notation VStr := (VStr fo).
  Notation VBool := (VBool fo).
  Notation VNull := (VNull fo).
  Notation VList := (VList fo).
  Notation VTuple := (VTuple fo).
  Notation VFunc := (VFunc fo).
  Notation VModule := (VModule fo).
  Notation evals := (evals fo imports stk).
  Notation evals_list := (evals_list fo imports stk).
  Notation evals_fields := (evals_fields fo imports stk).
  Notation calls := (calls fo imports stk).
  Notation copies := (copies fo imports stk).
  Notation execs := (execs fo imports stk).
  Notation call_v := (call_v fo imports stk).
  Notation fields_v := (fields_v fo imports stk).
  Notation reduce_v := (reduce_v fo imports stk).

  Ltac up H F := first
    [ apply (fun h => eval_imp_fuel_mono fo imports _ F stk _ _ _ h) in H; [|lia]
    | apply (fun h => mapM_eval_mono fo imports stk _ F _ _ _ h) in H; [|lia]
    | apply (fun h => fields_v_mono fo imports stk _ F _ _ _ _ h) in H; [|lia]
    | apply (fun h => call_v_mono fo imports stk _ F _ _ _ _ h) in H; [|lia]
    | apply (fun h => copy_imp_fuel_mono fo imports _ F stk _ _ _ _ h) in H; [|lia]
    | apply (fun h => exec_imp_fuel_mono fo imports _ F stk _ _ _ h) in H; [|lia]
    | apply (fun h => render_fuel_mono fo _ F _ _ h) in H; [|lia]
    | apply (fun h => veq_fuel_mono fo _ _ F _ _ _ h) in H; [|lia] ].

  (* ---------------- equations ---------------- *)
  Lemma eval_S_sub f c l r :
    eval (S f) stk c (EBin Sub l r) = do rv <- eval f stk c r; do lv <- eval f stk c l; arith' fo Sub lv rv.
  Proof. reflexivity. Qed.
  Definition is_cmp (o : op) : bool := match o with GT | LT | GTEqual | LTEqual => true | _ => false end.
  Lemma eval_S_cmp f c o l r : is_cmp o = true ->
    eval (S f) stk c (EBin o l r) = do rv <- eval f stk c r; do lv <- eval f stk c l; compare_num fo o lv rv.
  Proof. destruct o; try discriminate; reflexivity. Qed.
  Lemma eval_S_and f c l r :
    eval (S f) stk c (EBin AND l r) =
    do lv <- eval f stk c l;
    match lv with Sem.VBool _ false => Ok (VBool false) | Sem.VBool _ true => eval f stk c r | _ => Err end.
  Proof. reflexivity. Qed.
  Lemma eval_S_or f c l r :
    eval (S f) stk c (EBin OR l r) =
    do lv <- eval f stk c l;
    match lv with Sem.VBool _ true => Ok (VBool true) | Sem.VBool _ false => eval f stk c r | _ => Err end.
  Proof. reflexivity. Qed.
  Lemma eval_S_dot_call f c l k args :
    eval (S f) stk c (EBin DOT l (ECall (ESym k) args)) =
    do avs <- mapM (eval f stk c) args; do lv <- eval f stk c l; do fv <- index fo c lv (VStr k); call_v f c fv avs.
  Proof. reflexivity. Qed.
  Lemma eval_S_dot_copy f c l k fs :
    eval (S f) stk c (EBin DOT l (ECopy (ESym k) fs)) =
    do lv <- eval f stk c l; do tv <- index fo c lv (VStr k); copy_into f stk c tv fs.
  Proof. reflexivity. Qed.
  Lemma eval_S_dot_group f c l e :
    eval (S f) stk c (EBin DOT l (EGroup e)) =
    do lv <- eval f stk c l; do kv <- eval f stk c (EGroup e); index fo c lv kv.
  Proof. reflexivity. Qed.
  Lemma eval_S_range f c st en :
    eval (S f) stk c (ERange st None en) =
    do env_ <- eval f stk c en; do sv <- eval f stk c st;
    match sv, env_ with
    | Sem.VInt _ a, Sem.VInt _ z =>
      if Z.ltb range_limit (range_len a 1 z) then Unsup else Ok (VList (range_from fo (Z.to_nat (range_len a 1 z)) a 1 z))
    | _, _ => Err
    end.
  Proof.
    simpl. destruct (eval f stk c en) as [env_| | |]; reflexivity.
  Qed.
  Lemma eval_S_fail f c e : eval (S f) stk c (EFail e) = do _ <- eval f stk c e; Err.
  Proof. reflexivity. Qed.
  Lemma eval_S_cast f c ct e : eval (S f) stk c (ECast ct e) = do v <- eval f stk c e; cast fo ct v.
  Proof. reflexivity. Qed.

  Definition in_go (ord : bool) (f : nat) (needle : value) : list value -> res value :=
    fix go (items : list value) : res value :=
      match items with
      | [] => Ok (VBool false)
      | v :: rest => do r <- veq ord f v needle; if r then Ok (VBool true) else go rest
      end.
  Lemma eval_S_in_list f c l r items needle :
    eval f stk c r = Ok (VList items) -> eval f stk c l = Ok needle ->
    eval (S f) stk c (EBin IN l r) = in_go (eq_ordered fo c) f needle items.
  Proof.
    intros H1 H2. simpl. rewrite H1. cbn [bind]. destruct l; rewrite H2; reflexivity.
  Qed.
  (* `x in tuple`: a bare name on the left is the field name *)
  Lemma eval_S_in_tuple_sym f c x r fs :
    eval f stk c r = Ok (VTuple fs) ->
    eval (S f) stk c (EBin IN (ESym x) r) = Ok (VBool (match lookup x fs with Some _ => true | None => false end)).
  Proof. intros H1. simpl. rewrite H1. reflexivity. Qed.
  Lemma eval_S_in_tuple_group f c e r fs k :
    eval f stk c r = Ok (VTuple fs) -> eval f stk c (EGroup e) = Ok (VStr k) ->
    eval (S f) stk c (EBin IN (EGroup e) r) = Ok (VBool (match lookup k fs with Some _ => true | None => false end)).
  Proof. intros H1 H2. simpl in *. rewrite H1. cbn [bind]. rewrite H2. reflexivity. Qed.

  Lemma exec_list_S_expr f c e ss :
    exec_list (S f) stk c (SExpr e :: ss) =
    do s1 <- (do _ <- eval f stk c e; Ok (sc fo c)); exec_list f stk (with_scope fo c s1) ss.
  Proof. reflexivity. Qed.

  Theorem eval_reduce_str_eq f c fe ae te p1 p2 body clo acc s :
    eval f stk c fe = Ok (VFunc [p1; p2] body clo) -> eval f stk c ae = Ok acc -> eval f stk c te = Ok (VStr s) ->
    eval (S f) stk c (EReduce fe ae te) =
    fold_left (fun a ch => do a' <- a; call_v f c (VFunc [p1; p2] body clo) [a'; VStr ch]) (utf8_chars s) (Ok acc).
  Proof. intros H1 H2 H3. rewrite eval_S_reduce, H1, H2, H3. reflexivity. Qed.

  (* ---------------- rules ---------------- *)
  Lemma ev_sub c l r lv rv v :
    evals c l lv -> evals c r rv -> arith' fo Sub lv rv = Ok v -> evals c (EBin Sub l r) v.
  Proof.
    intros [f1 H1] [f2 H2] Ha. exists (S (Nat.max f1 f2)). up H1 (Nat.max f1 f2). up H2 (Nat.max f1 f2).
    rewrite eval_S_sub, H2. cbn [bind]. rewrite H1. exact Ha.
  Qed.
  Lemma ev_cmp c o l r lv rv v :
    is_cmp o = true -> evals c l lv -> evals c r rv -> compare_num fo o lv rv = Ok v -> evals c (EBin o l r) v.
  Proof.
    intros Ho [f1 H1] [f2 H2] Ha. exists (S (Nat.max f1 f2)). up H1 (Nat.max f1 f2). up H2 (Nat.max f1 f2).
    rewrite (eval_S_cmp _ _ _ _ _ Ho), H2. cbn [bind]. rewrite H1. exact Ha.
  Qed.
  Lemma ev_eq c l r lv rv q :
    evals c l lv -> evals c r rv -> compatible fo lv rv = true ->
    (exists f, veq (eq_ordered fo c) f lv rv = Ok q) ->
    evals c (EBin Equal l r) (VBool q).
  Proof.
    intros [f1 H1] [f2 H2] Hc [f3 H3]. set (F := Nat.max f1 (Nat.max f2 f3)).
    exists (S F). up H1 F. up H2 F. up H3 F.
    rewrite eval_S_eq, H2. cbn [bind]. rewrite H1. cbn [bind]. rewrite Hc, H3. reflexivity.
  Qed.
  Lemma ev_and_false c l r : evals c l (VBool false) -> evals c (EBin AND l r) (VBool false).
  Proof. intros [f H]. exists (S f). rewrite eval_S_and, H. reflexivity. Qed.
  Lemma ev_and_true c l r v : evals c l (VBool true) -> evals c r v -> evals c (EBin AND l r) v.
  Proof.
    intros [f1 H1] [f2 H2]. exists (S (Nat.max f1 f2)). up H1 (Nat.max f1 f2). up H2 (Nat.max f1 f2).
    rewrite eval_S_and, H1. exact H2.
  Qed.
  Lemma ev_or_true c l r : evals c l (VBool true) -> evals c (EBin OR l r) (VBool true).
  Proof. intros [f H]. exists (S f). rewrite eval_S_or, H. reflexivity. Qed.
  Lemma ev_or_false c l r v : evals c l (VBool false) -> evals c r v -> evals c (EBin OR l r) v.
  Proof.
    intros [f1 H1] [f2 H2]. exists (S (Nat.max f1 f2)). up H1 (Nat.max f1 f2). up H2 (Nat.max f1 f2).
    rewrite eval_S_or, H1. exact H2.
  Qed.
  Lemma ev_dot_call c l k args avs lv fv v :
    evals_list c args avs -> evals c l lv -> index fo c lv (VStr k) = Ok fv -> calls c fv avs v ->
    evals c (EBin DOT l (ECall (ESym k) args)) v.
  Proof.
    intros [f1 H1] [f2 H2] Hi [f3 H3]. set (F := Nat.max f1 (Nat.max f2 f3)).
    exists (S F). up H1 F. up H2 F. up H3 F.
    rewrite eval_S_dot_call, H1. cbn [bind]. rewrite H2. cbn [bind]. rewrite Hi. exact H3.
  Qed.
  Lemma ev_dot_copy c l k fs lv tv v :
    evals c l lv -> index fo c lv (VStr k) = Ok tv -> copies c tv fs v ->
    evals c (EBin DOT l (ECopy (ESym k) fs)) v.
  Proof.
    intros [f1 H1] Hi [f2 H2]. exists (S (Nat.max f1 f2)). up H1 (Nat.max f1 f2). up H2 (Nat.max f1 f2).
    rewrite eval_S_dot_copy, H1. cbn [bind]. rewrite Hi. exact H2.
  Qed.
  Lemma ev_dot_group c l e lv kv v :
    evals c l lv -> evals c e kv -> index fo c lv kv = Ok v -> evals c (EBin DOT l (EGroup e)) v.
  Proof.
    intros [f1 H1] [f2 H2] Hi. set (F := Nat.max f1 (S f2)). exists (S F).
    assert (H2' : eval (S f2) stk c (EGroup e) = Ok kv) by (rewrite eval_S_group; exact H2).
    up H1 F. up H2' F. rewrite eval_S_dot_group, H1. cbn [bind]. rewrite H2'. exact Hi.
  Qed.
  Lemma ev_range c st en a z :
    evals c st (VInt a) -> evals c en (VInt z) -> Z.ltb range_limit (range_len a 1 z) = false ->
    evals c (ERange st None en) (VList (range_from fo (Z.to_nat (range_len a 1 z)) a 1 z)).
  Proof.
    intros [f1 H1] [f2 H2] Hl. exists (S (Nat.max f1 f2)). up H1 (Nat.max f1 f2). up H2 (Nat.max f1 f2).
    rewrite eval_S_range, H2. cbn [bind]. rewrite H1. cbn [bind]. rewrite Hl. reflexivity.
  Qed.
  Lemma ev_cast c ct e v w : evals c e v -> cast fo ct v = Ok w -> evals c (ECast ct e) w.
  Proof. intros [f H] Hc. exists (S f). rewrite eval_S_cast, H. exact Hc. Qed.
  Lemma ev_in_list c l r items needle res_ :
    evals c r (VList items) -> evals c l needle ->
    (exists f, in_go (eq_ordered fo c) f needle items = Ok res_) ->
    evals c (EBin IN l r) res_.
  Proof.
    intros [f1 H1] [f2 H2] [f3 H3]. set (F := Nat.max f1 (Nat.max f2 f3)). exists (S F).
    up H1 F. up H2 F. rewrite (eval_S_in_list _ _ _ _ _ _ H1 H2).
    refine (le_res_ok _ _ _ _ H3). clear. induction items as [|v rest IH]; [apply le_res_refl|].
    cbn. apply le_res_bind; [apply veq_le; lia|]. intros [|]; [apply le_res_refl|exact IH].
  Qed.
  Lemma ev_in_tuple_group c e r fs k :
    evals c r (VTuple fs) -> evals c e (VStr k) ->
    evals c (EBin IN (EGroup e) r) (VBool (match lookup k fs with Some _ => true | None => false end)).
  Proof.
    intros [f1 H1] [f2 H2]. set (F := Nat.max f1 (S f2)). exists (S F).
    assert (H2' : eval (S f2) stk c (EGroup e) = Ok (VStr k)) by (rewrite eval_S_group; exact H2).
    up H1 F. up H2' F. exact (eval_S_in_tuple_group _ _ _ _ _ _ H1 H2').
  Qed.

  Lemma eval_S_module f c ps out body :
    eval (S f) stk c (EModule ps out body) = do pv <- fields_v f c ps (Ok []); Ok (VModule pv out body).
  Proof. reflexivity. Qed.
  Lemma ev_module_lit c ps out body pv :
    evals_fields c ps [] pv -> evals c (EModule ps out body) (VModule pv out body).
  Proof. intros [f H]. exists (S f). rewrite eval_S_module, H. reflexivity. Qed.

  Lemma execs_expr c e ss v s :
    evals c e v -> execs (with_scope fo c (sc fo c)) ss s -> execs c (SExpr e :: ss) s.
  Proof.
    intros [f1 H1] [f2 H2]. exists (S (Nat.max f1 f2)). up H1 (Nat.max f1 f2). up H2 (Nat.max f1 f2).
    rewrite exec_list_S_expr, H1. exact H2.
  Qed.

  (* reduce over a string: the closure sees the characters (UTF-8 sequences) one by one *)
  Theorem reduce_str_inv c fe ae te p1 p2 body clo acc s (I : list bytes -> value -> Prop) :
    evals c fe (VFunc [p1; p2] body clo) -> evals c ae acc -> evals c te (VStr s) ->
    I [] acc ->
    (forall pre ch post a, utf8_chars s = pre ++ ch :: post -> I pre a ->
        exists a', calls c (VFunc [p1; p2] body clo) [a; VStr ch] a' /\ I (pre ++ [ch]) a') ->
    exists r, evals c (EReduce fe ae te) r /\ I (utf8_chars s) r.
  Proof.
    intros [f1 H1] [f2 H2] [f3 H3] H0 Hstep.
    destruct (fold_calls_inv fo imports stk c (VFunc [p1; p2] body clo) (fun a ch => [a; VStr ch]) I (utf8_chars s) Hstep
                             (utf8_chars s) [] acc eq_refl H0) as (r & f4 & Hf & Hr).
    exists r. split; [|exact Hr].
    set (F := Nat.max (Nat.max f1 f2) (Nat.max f3 f4)). exists (S F).
    up H1 F. up H2 F. up H3 F.
    rewrite (eval_reduce_str_eq _ _ _ _ _ _ _ _ _ _ _ H1 H2 H3).
    refine (le_res_ok _ _ _ _ Hf). apply le_res_fold; [|apply le_res_refl].
    intros y y' z Hy. apply le_res_bind; [exact Hy|]. intros; apply call_v_le; lia.
  Qed.

  (* functional forms with an invariant indexed by the processed prefix *)
  Theorem reduce_list_is_fold_pre c fe ae te p1 p2 body clo acc l
          (I : list value -> value -> Prop) (step : value -> value -> value) :
    evals c fe (VFunc [p1; p2] body clo) -> evals c ae acc -> evals c te (VList l) ->
    I [] acc ->
    (forall pre v post a, l = pre ++ v :: post -> I pre a ->
        calls c (VFunc [p1; p2] body clo) [a; v] (step a v) /\ I (pre ++ [v]) (step a v)) ->
    evals c (EReduce fe ae te) (fold_left step l acc) /\ I l (fold_left step l acc).
  Proof.
    intros H1 H2 H3 H0 Hstep.
    destruct (reduce_list_inv fo imports stk c fe ae te p1 p2 body clo acc l
                (fun pre a => a = fold_left step pre acc /\ I pre a) H1 H2 H3) as (r & Hr & -> & HI).
    - split; [reflexivity|exact H0].
    - intros pre v post a El [-> Ha]. destruct (Hstep pre v post _ El Ha) as [Hc Hi].
      eexists. split; [exact Hc|]. split; [|exact Hi]. rewrite fold_left_app. reflexivity.
    - split; assumption.
  Qed.
  Theorem reduce_str_is_fold_pre c fe ae te p1 p2 body clo acc s
          (I : list bytes -> value -> Prop) (step : value -> bytes -> value) :
    evals c fe (VFunc [p1; p2] body clo) -> evals c ae acc -> evals c te (VStr s) ->
    I [] acc ->
    (forall pre ch post a, utf8_chars s = pre ++ ch :: post -> I pre a ->
        calls c (VFunc [p1; p2] body clo) [a; VStr ch] (step a ch) /\ I (pre ++ [ch]) (step a ch)) ->
    evals c (EReduce fe ae te) (fold_left step (utf8_chars s) acc) /\ I (utf8_chars s) (fold_left step (utf8_chars s) acc).
  Proof.
    intros H1 H2 H3 H0 Hstep.
    destruct (reduce_str_inv c fe ae te p1 p2 body clo acc s
                (fun pre a => a = fold_left step pre acc /\ I pre a) H1 H2 H3) as (r & Hr & -> & HI).
    - split; [reflexivity|exact H0].
    - intros pre v post a El [-> Ha]. destruct (Hstep pre v post _ El Ha) as [Hc Hi].
      eexists. split; [exact Hc|]. split; [|exact Hi]. rewrite fold_left_app. reflexivity.
    - split; assumption.
  Qed.

  (* ---------------- failing evaluations ---------------- *)
  Definition fails (c : ctx) (e : expr) : Prop := exists f, eval f stk c e = Err.
  Definition exec_fails (c : ctx) (ss : list stmt) : Prop := exists f, exec_list f stk c ss = Err.
  Definition copy_fails (c : ctx) (tv : value) (fs : list (bytes * expr)) : Prop :=
    exists f, copy_into f stk c tv fs = Err.

  Ltac upe H F := first
    [ apply (fun h => eval_imp_fuel_mono_err fo imports _ F stk _ _ h) in H; [|lia]
    | apply (fun h => copy_imp_fuel_mono_err fo imports _ F stk _ _ _ h) in H; [|lia]
    | apply (fun h => exec_imp_fuel_mono_err fo imports _ F stk _ _ h) in H; [|lia] ].

  Lemma fails_fail c e v : evals c e v -> fails c (EFail e).
  Proof. intros [f H]. exists (S f). rewrite eval_S_fail, H. reflexivity. Qed.
  Lemma fails_or c l r : evals c l (VBool false) -> fails c r -> fails c (EBin OR l r).
  Proof.
    intros [f1 H1] [f2 H2]. exists (S (Nat.max f1 f2)). up H1 (Nat.max f1 f2). upe H2 (Nat.max f1 f2).
    rewrite eval_S_or, H1. exact H2.
  Qed.
  Lemma fails_group c e : fails c e -> fails c (EGroup e).
  Proof. intros [f H]. exists (S f). rewrite eval_S_group. exact H. Qed.
  Lemma xf_expr_here c e ss : fails c e -> exec_fails c (SExpr e :: ss).
  Proof. intros [f H]. exists (S f). rewrite exec_list_S_expr, H. reflexivity. Qed.
  Lemma xf_expr_skip c e ss v :
    evals c e v -> exec_fails (with_scope fo c (sc fo c)) ss -> exec_fails c (SExpr e :: ss).
  Proof.
    intros [f1 H1] [f2 H2]. exists (S (Nat.max f1 f2)). up H1 (Nat.max f1 f2). upe H2 (Nat.max f1 f2).
    rewrite exec_list_S_expr, H1. exact H2.
  Qed.
  Lemma xf_let_here c x e ss : fails c e -> exec_fails c (SLet x e :: ss).
  Proof. intros [f H]. exists (S f). rewrite exec_list_S_let, H. reflexivity. Qed.
  Lemma xf_let_skip c x e ss v :
    evals c e v -> is_reserved x = false -> lookup x (sc fo c) = None ->
    exec_fails (with_scope fo c ((x, v) :: sc fo c)) ss -> exec_fails c (SLet x e :: ss).
  Proof.
    intros [f1 H1] Hr Hl [f2 H2]. exists (S (Nat.max f1 f2)). up H1 (Nat.max f1 f2). upe H2 (Nat.max f1 f2).
    rewrite exec_list_S_let, H1. cbn [bind]. rewrite Hr, Hl. cbn [bind]. exact H2.
  Qed.
  Lemma copy_fails_module c ps out body fs ovs fl fl' :
    let tv := VModule ps out body in
    evals_fields (with_self fo c (Some tv)) fs [] ovs ->
    merge_fields fo ps ovs = Ok fl -> merge_field fo fl (b "this") tv = Ok fl' ->
    exec_fails (mctx fo c tv fl') body ->
    copy_fails c tv fs.
  Proof.
    intros tv [f1 H1] Hm1 Hm2 [f2 H2]. exists (S (Nat.max f1 f2)). up H1 (Nat.max f1 f2). upe H2 (Nat.max f1 f2).
    unfold tv. rewrite copy_into_S_module. cbv zeta. fold tv. rewrite H1. cbn [bind]. rewrite Hm1. cbn [bind].
    rewrite Hm2. cbn [bind]. rewrite H2. reflexivity.
  Qed.
  Lemma fails_dot_copy c l k fs lv tv :
    evals c l lv -> index fo c lv (VStr k) = Ok tv -> copy_fails c tv fs ->
    fails c (EBin DOT l (ECopy (ESym k) fs)).
  Proof.
    intros [f1 H1] Hi [f2 H2]. exists (S (Nat.max f1 f2)). up H1 (Nat.max f1 f2). upe H2 (Nat.max f1 f2).
    rewrite eval_S_dot_copy, H1. cbn [bind]. rewrite Hi. exact H2.
  Qed.
  (* a failing evaluation never succeeds, whatever the fuel *)
  Lemma fails_not_ok c e : fails c e -> forall f v, eval f stk c e <> Ok v.
  Proof.
    intros [f0 H0] f v H. destruct (Nat.le_ge_cases f f0) as [Hle|Hge].
    - rewrite (eval_imp_fuel_mono fo imports _ _ _ _ _ _ H Hle) in H0. discriminate.
    - rewrite (eval_imp_fuel_mono_err fo imports _ _ _ _ _ H0 Hge) in H. discriminate.
  Qed.
End Rules2.

(* ---------------- import ---------------- *)
Section ImportRule.
  Variable fo : float_ops.
  Variable imports : bytes -> option prog.

  Lemma eval_S_import f stk c p :
    eval_imp fo imports (S f) stk c (EImport p) =
    if existsb (bytes_eqb p) stk then Err
    else match imports p with
         | None => Err
         | Some pr =>
           do s <- exec_imp fo imports f (p :: stk)
                     {| sc := []; self_v := None; envt := envt fo c; strict := strict fo c; eq_ordered := eq_ordered fo c |} pr;
           Ok (VTuple fo (export_scope fo s false))
         end.
  Proof. reflexivity. Qed.

  Lemma ev_import stk c p pr s :
    existsb (bytes_eqb p) stk = false -> imports p = Some pr ->
    execs fo imports (p :: stk)
          {| sc := []; self_v := None; envt := envt fo c; strict := strict fo c; eq_ordered := eq_ordered fo c |} pr s ->
    evals fo imports stk c (EImport p) (VTuple fo (export_scope fo s false)).
  Proof.
    intros Hs Hi [f H]. exists (S f). rewrite eval_S_import, Hs, Hi, H. reflexivity.
  Qed.
End ImportRule.
