(* std/strings.ucg through `import`: split_on (the recursive module `recurse` behind
   wrap(s).split_on{on = sep}).  Reference: [split_go] of StdSpec_Imp.v on the UTF-8 character list;
   [split_go_join]: for a non-empty separator, joining the pieces with the separator gives the string back. *)
From Ucg Require Import base.Bytes_Lemmas sem.Sem std.Std_Fuel std.Sem_Import std.Sem_Import_Lemmas
     std.Std_Rules_Imp std.Std_Rules_Imp2 std.StdSpec std.StdSpec_Imp std.Imp_Base std.Imp_Lists std.Imp_Strings.

(* ---------------- pure facts about characters, pick and split_go ---------------- *)
Lemma utf8_fuel_indep : forall f f' s, (List.length s <= f)%nat -> (List.length s <= f')%nat ->
    utf8_chars_fuel f s = utf8_chars_fuel f' s.
Proof.
  induction f as [|f IH]; intros f' s H1 H2.
  - destruct s; [destruct f'; reflexivity|cbn in H1; lia].
  - destruct s as [|c r]; [destruct f'; reflexivity|].
    destruct f' as [|f']; [cbn in H2; lia|]. cbn [utf8_chars_fuel]. f_equal.
    pose proof (utf8_len_pos c) as Hp.
    apply IH; rewrite skipn_length; cbn [List.length] in *; lia.
Qed.
Lemma chars_cons c r :
  utf8_chars (c :: r) = firstn (utf8_len c) (c :: r) :: utf8_chars (skipn (utf8_len c) (c :: r)).
Proof.
  unfold utf8_chars at 1. cbn [List.length utf8_chars_fuel]. f_equal.
  apply utf8_fuel_indep; [|lia]. rewrite skipn_length. pose proof (utf8_len_pos c). cbn [List.length]. lia.
Qed.
Lemma rechunk_skipn : forall k s, utf8_chars (concat (skipn k (utf8_chars s))) = skipn k (utf8_chars s).
Proof.
  induction k as [|k IH]; intros s.
  - cbn [skipn]. rewrite utf8_concat. reflexivity.
  - destruct s as [|c r]; [reflexivity|]. rewrite chars_cons. cbn [skipn]. apply IH.
Qed.
Lemma chars_nonempty : forall s c, In c (utf8_chars s) -> c <> [].
Proof.
  intros s. remember (List.length s) as n eqn:Hn. revert s Hn.
  induction n as [n IH] using lt_wf_ind. intros s Hn c Hin.
  destruct s as [|a r]; [destruct Hin|]. rewrite chars_cons in Hin. destruct Hin as [<-|Hin].
  - pose proof (utf8_len_pos a). destruct (utf8_len a); [lia|]. discriminate.
  - eapply (IH (List.length (skipn (utf8_len a) (a :: r)))); [|reflexivity|exact Hin].
    rewrite skipn_length. pose proof (utf8_len_pos a). subst n. cbn [List.length]. lia.
Qed.
Lemma concat_nil_chunks (cs : list bytes) : (forall c, In c cs -> c <> []) -> concat cs = [] -> cs = [].
Proof.
  destruct cs as [|c cs]; [reflexivity|]. intros H Hc. cbn in Hc. apply app_eq_nil in Hc. destruct Hc as [Hc _].
  exfalso. apply (H c); [left; reflexivity|exact Hc].
Qed.
Lemma pick_firstn : forall cs a b' j, (a <= j)%Z -> pick a b' j cs = concat (firstn (Z.to_nat (b' - j + 1)) cs).
Proof.
  induction cs as [|c cs IH]; intros a b' j Ha; cbn [pick].
  - rewrite firstn_nil. reflexivity.
  - replace (a <=? j)%Z with true by (symmetry; apply Z.leb_le; exact Ha). cbn [andb].
    rewrite IH by lia. destruct (Z.leb_spec j b').
    + replace (Z.to_nat (b' - j + 1)) with (S (Z.to_nat (b' - (j + 1) + 1))) by lia. reflexivity.
    + replace (Z.to_nat (b' - j + 1)) with 0%nat by lia. replace (Z.to_nat (b' - (j + 1) + 1)) with 0%nat by lia. reflexivity.
Qed.
Lemma pick_skipn : forall cs a b' j, (j + Z.of_nat (List.length cs) - 1 <= b')%Z ->
    pick a b' j cs = concat (skipn (Z.to_nat (a - j)) cs).
Proof.
  induction cs as [|c cs IH]; intros a b' j Hb; cbn [pick].
  - rewrite skipn_nil. reflexivity.
  - cbn [List.length] in Hb. replace (j <=? b')%Z with true by (symmetry; apply Z.leb_le; lia). rewrite andb_true_r.
    rewrite IH by lia. destruct (Z.leb_spec a j).
    + replace (Z.to_nat (a - j)) with 0%nat by lia. replace (Z.to_nat (a - (j + 1))) with 0%nat by lia. reflexivity.
    + replace (Z.to_nat (a - j)) with (S (Z.to_nat (a - (j + 1)))) by lia. reflexivity.
Qed.

(* accumulated pieces come first *)
Lemma split_go_acc : forall f sep L buf acc cs,
    split_go f sep L buf acc cs = acc ++ split_go f sep L buf [] cs.
Proof.
  induction f as [|f IH]; intros sep L buf acc cs; cbn [split_go]; [reflexivity|].
  destruct (firstn L cs) eqn:E; [reflexivity|].
  destruct (bytes_eqb _ sep).
  - rewrite IH, (IH sep L [] ([] ++ [buf])). rewrite app_assoc. reflexivity.
  - destruct cs; [reflexivity|]. apply IH.
Qed.
Lemma split_go_nonempty f sep L buf acc cs : split_go f sep L buf acc cs <> [].
Proof.
  revert buf acc cs. induction f as [|f IH]; intros buf acc cs; cbn [split_go].
  - destruct acc; discriminate.
  - destruct (firstn L cs); [destruct acc; discriminate|].
    destruct (bytes_eqb _ sep); [apply IH|]. destruct cs; [destruct acc; discriminate|apply IH].
Qed.
Lemma join_cons_nonempty sep t ts : ts <> [] -> join sep (t :: ts) = t ++ sep ++ join sep ts.
Proof. destruct ts; [congruence|reflexivity]. Qed.
(* joining the pieces with the separator gives the text back (non-empty separator, enough fuel) *)
Theorem split_go_join : forall f sep L buf cs,
    (0 < L)%nat -> (List.length cs < f)%nat ->
    join sep (split_go f sep L buf [] cs) = buf ++ concat cs.
Proof.
  induction f as [|f IH]; intros sep L buf cs HL Hf; [lia|]. cbn [split_go].
  destruct (firstn L cs) as [|x xs] eqn:E.
  - destruct cs; [cbn; rewrite app_nil_r; reflexivity|]. destruct L; [lia|discriminate].
  - destruct cs as [|c cs']; [rewrite firstn_nil in E; discriminate|].
    destruct (bytes_eqb (concat (x :: xs)) sep) eqn:Hs.
    + apply bytes_eqb_spec in Hs. rewrite split_go_acc. cbn [app].
      rewrite join_cons_nonempty by apply split_go_nonempty.
      rewrite IH; [|exact HL|rewrite skipn_length; cbn [List.length] in *; lia].
      cbn [app]. rewrite <- Hs, <- E, <- concat_app, firstn_skipn. reflexivity.
    + rewrite IH; [|exact HL|cbn [List.length] in *; lia]. cbn [concat]. rewrite <- app_assoc. reflexivity.
Qed.

Section SplitOn.
  Variable fo : float_ops.
  Notation value := (value fo).
  Notation VInt := (VInt fo).
  Notation VStr := (VStr fo).
  Notation VBool := (VBool fo).
  Notation VNull := (VNull fo).
  Notation VList := (VList fo).
  Notation VTuple := (VTuple fo).
  Notation VFunc := (VFunc fo).
  Notation VModule := (VModule fo).
  Notation evals := (evals fo std_imports []).
  Notation calls := (calls fo std_imports []).
  Notation copies := (copies fo std_imports []).
  Notation evals_fields := (evals_fields fo std_imports []).
  Notation ops_tuple := (ops_tuple fo).
  Notation fits_chk := (fits_chk fo).

  Definition rec_e : expr := Eval vm_compute in stmt_expr 0 split_on_body.
  Definition rec_out : option expr := Eval vm_compute in e_mod_out rec_e.
  Definition rec_body : list stmt := Eval vm_compute in e_mod_body rec_e.

  Lemma N_zero_iff (x : bytes) : N x = 0%Z <-> x = [].
  Proof.
    unfold N, chars. split; [|intros ->; reflexivity]. destruct x as [|c r]; [reflexivity|].
    rewrite chars_cons. cbn [List.length]. lia.
  Qed.
  Lemma bytes_le_fits (x y : bytes) : (List.length x <= List.length y)%nat -> fits (Z.of_nat (List.length y)) -> fits (Z.of_nat (List.length x)).
  Proof. intros Hl Hf. apply (fits_between _ 0 (Z.of_nat (List.length y))); [apply fits_0|exact Hf|lia]. Qed.
  Lemma fits_N (x : bytes) : fits (Z.of_nat (List.length x)) -> fits (N x).
  Proof. intros Hf. pose proof (N_le_bytes x). apply (fits_between _ 0 (Z.of_nat (List.length x))); [apply fits_0|exact Hf|unfold N in *; lia]. Qed.
  Lemma concat_sub_length (cs : list bytes) k :
    (List.length (concat (skipn k cs)) <= List.length (concat cs))%nat /\ (List.length (concat (firstn k cs)) <= List.length (concat cs))%nat.
  Proof.
    rewrite <- (firstn_skipn k cs) at 2 4. rewrite concat_app, app_length. lia.
  Qed.

  Section Rec.
    Variables (sep : bytes) (s0 : bytes) (clo : scope fo).
    Definition RM : value :=
      VModule [(b "buf", VStr []); (b "acc", VList []); (b "str", VStr s0); (b "sep", VNull); (b "pkg", pkgf fo clo)] rec_out rec_body.
    Definition rflds (buf : bytes) (acc : list bytes) (str : bytes) : list (bytes * value) :=
      [(b "buf", VStr buf); (b "acc", VList (map VStr acc)); (b "str", VStr str); (b "sep", VStr sep); (b "pkg", pkgf fo clo)].
    Let L := List.length (utf8_chars sep).
    Hypothesis Hsep : fits (Z.of_nat (List.length sep)).

    Definition rec_spec (m : nat) : Prop :=
      forall str buf acc c fs ovs,
        (List.length (utf8_chars str) <= m)%nat -> fits (Z.of_nat (List.length str)) ->
        evals_fields (with_self fo c (Some RM)) fs [] ovs ->
        merge_fields fo (mod_params fo RM) ovs = Ok (rflds buf acc str) ->
        copies c RM fs (VList (map VStr (split_go (S m) sep L buf acc (utf8_chars str)))).

    (* statements 0..6 of the body of `recurse` *)
    Ltac rec_prefix Hstr :=
      unfold rec_body;
      eapply execs_expr';
      [ eapply ev_or_true; eapply evals_eq; [iv1; eapply ev_neq; [dotsym|iv1|reflexivity|exists 1; reflexivity]|reflexivity] | ];
      eapply execs_let'; [eapply ev_dot_call; [iv1|iv1|reflexivity|]; unfold pkgf;
                          eapply calls_intro; [reflexivity|reflexivity|]; apply ev_import_std, in_strings
                         |reflexivity|reflexivity|];
      eapply execs_let'; [dotsym|reflexivity|reflexivity|];
      eapply execs_let'; [eapply ev_dot_copy; [iv1|apply strings_index_ops|]; rewrite ops_v_eq;
                          apply ops_copies; [apply fits_N, Hstr|dotsym]
                         |reflexivity|reflexivity|];
      eapply execs_let'; [eapply ev_dot_copy; [iv1|apply strings_index_ops|]; rewrite ops_v_eq;
                          apply ops_copies; [apply fits_N, Hsep|dotsym]
                         |reflexivity|reflexivity|].

    Lemma rec_strong m : (forall m', (m' < m)%nat -> rec_spec m') -> rec_spec m.
    Proof.
      intros IH str buf acc c fs ovs Hm Hstr Hfs Hmerge. destruct c as [sc0 slf E st ord]. unfold RM in *.
      set (cs := utf8_chars str) in *.
      assert (HNsep : N sep = Z.of_nat L) by reflexivity.
      assert (HNstr : N str = Z.of_nat (List.length cs)) by reflexivity.
      (* the prefix and the suffix computed by the two substr instantiations *)
      assert (Hpx : pick 0 (N sep - 1) 0 (chars str) = concat (firstn L cs)).
      { rewrite pick_firstn by lia. unfold chars. fold cs. rewrite HNsep. f_equal. f_equal. lia. }
      assert (Hsx : pick (N sep) (N str) 0 (chars str) = concat (skipn L cs)).
      { rewrite pick_skipn by (unfold chars; fold cs; rewrite HNstr; lia). unfold chars. fold cs. rewrite HNsep. f_equal. f_equal. lia. }
      assert (Hsub : forall k, fits (Z.of_nat (List.length (concat (skipn k cs))))).
      { intros k. eapply bytes_le_fits; [|exact Hstr]. pose proof (proj1 (concat_sub_length cs k)) as Hl.
        unfold cs in Hl at 2. rewrite utf8_concat in Hl. exact Hl. }
      assert (Hpxfit : fits (Z.of_nat (List.length (concat (firstn L cs))))).
      { eapply bytes_le_fits; [|exact Hstr]. pose proof (proj2 (concat_sub_length cs L)) as Hl.
        unfold cs in Hl at 2. rewrite utf8_concat in Hl. exact Hl. }
      assert (HfL : fits (N sep - 1)).
      { pose proof (fits_N sep Hsep) as HfN. apply (fits_between _ (-1) (N sep)); [reflexivity|exact HfN|rewrite HNsep; lia]. }
      cbn [split_go].
      destruct (firstn L cs) as [|x xs] eqn:Efst.
      - (* nothing left (or an empty separator): the pieces so far and the buffer *)
        rewrite map_app. cbn [map].
        eapply copies_module'; [exact Hfs|exact Hmerge|reflexivity| |].
        + rec_prefix Hstr.
          eapply execs_let'; [|reflexivity|reflexivity|].
          { eapply ev_dot_copy; [iv1|reflexivity|].
            eapply substr_copies_gen with (ovs := [(b "end", VInt (N sep - 1))]) (a := 0%Z) (b' := (N sep - 1)%Z); [exact Hstr| |reflexivity].
            eapply evf_cons; [|reflexivity|iv1].
            eapply ev_sub; [dotsym|iv1|]. cbn [arith' arith]. apply fits_chk, HfL. }
          rewrite Hpx. cbn [concat].
          eapply execs_let'; [|reflexivity|reflexivity|].
          { eapply ev_dot_copy; [iv1|reflexivity|].
            eapply substr_copies_gen with (ovs := [(b "start", VInt (N sep))]) (a := N sep) (b' := N str); [exact Hstr| |reflexivity].
            eapply evf_cons; [dotsym|reflexivity|iv1]. }
          eapply execs_let'; [|reflexivity|reflexivity|apply execs_nil'].
          eapply ev_select.
          * eapply ev_eq; [dotsym|iv1|reflexivity|exists 1; reflexivity].
          * reflexivity.
          * eapply ev_add; [dotsym|ivs; reflexivity|reflexivity].
        + unfold rec_out. iv1.
      - (* a non-empty prefix of L characters *)
        assert (Hcs : cs <> []) by (intros Hc; rewrite Hc, firstn_nil in Efst; discriminate).
        destruct cs as [|ch cs'] eqn:Ecs; [congruence|].
        assert (Hm1 : exists m', m = S m') by (destruct m; [cbn [List.length] in Hm; lia|eexists; reflexivity]).
        destruct Hm1 as [m' ->].
        assert (Hpne : (N (concat (x :: xs)) =? 0)%Z = false).
        { apply Z.eqb_neq. intros Hz. apply N_zero_iff in Hz. apply concat_nil_chunks in Hz; [discriminate|].
          intros c0 Hin. apply (chars_nonempty str). fold cs. rewrite Ecs, <- (firstn_skipn L (ch :: cs')), Efst.
          apply in_or_app. left. exact Hin. }
        destruct (bytes_eqb (concat (x :: xs)) sep) eqn:Hmatch.
        + (* the prefix is the separator: close the piece, continue after it *)
          assert (HL : (0 < L)%nat) by (destruct L; [discriminate|lia]).
          eapply evals_copies_eq.
          * eapply copies_module'; [exact Hfs|exact Hmerge|reflexivity| |].
            -- rec_prefix Hstr.
               eapply execs_let'; [|reflexivity|reflexivity|].
               { eapply ev_dot_copy; [iv1|reflexivity|].
                 eapply substr_copies_gen with (ovs := [(b "end", VInt (N sep - 1))]) (a := 0%Z) (b' := (N sep - 1)%Z); [exact Hstr| |reflexivity].
                 eapply evf_cons; [|reflexivity|iv1].
                 eapply ev_sub; [dotsym|iv1|]. cbn [arith' arith]. apply fits_chk, HfL. }
               rewrite Hpx.
               eapply execs_let'; [|reflexivity|reflexivity|].
               { eapply ev_dot_copy; [iv1|reflexivity|].
                 eapply substr_copies_gen with (ovs := [(b "start", VInt (N sep))]) (a := N sep) (b' := N str); [exact Hstr| |reflexivity].
                 eapply evf_cons; [dotsym|reflexivity|iv1]. }
               rewrite Hsx.
               eapply execs_let'; [|reflexivity|reflexivity|apply execs_nil'].
               eapply ev_select.
               ++ eapply ev_eq; [dotsym|iv1|reflexivity|exists 1; reflexivity].
               ++ cbn [veq]. rewrite Hpne. reflexivity.
               ++ eapply ev_select.
                  ** eapply ev_eq; [dotsym|dotsym|reflexivity|exists 1; reflexivity].
                  ** cbn [veq]. rewrite Hmatch. reflexivity.
                  ** eapply ev_copy; [iv1|].
                     eapply (IH m' (Nat.lt_succ_diag_r m') (concat (skipn L (ch :: cs'))) [] (acc ++ [buf]))
                       with (ovs := [(b "str", VStr (concat (skipn L (ch :: cs')))); (b "sep", VStr sep);
                                     (b "acc", VList (map VStr acc ++ [VStr buf]))]).
                     --- rewrite <- Ecs. unfold cs. rewrite rechunk_skipn. fold cs. rewrite Ecs, skipn_length.
                         cbn [List.length] in *. lia.
                     --- apply Hsub.
                     --- eapply evf_cons; [dotsym|reflexivity|]. eapply evf_cons; [dotsym|reflexivity|].
                         eapply evf_cons; [|reflexivity|iv1].
                         eapply ev_add; [dotsym|ivs; reflexivity|reflexivity].
                     --- unfold rflds. rewrite map_app. reflexivity.
            -- unfold rec_out. iv1.
          * rewrite <- Ecs. unfold cs. rewrite rechunk_skipn. reflexivity.
        + (* no match: move one character to the buffer *)
          eapply evals_copies_eq.
          * eapply copies_module'; [exact Hfs|exact Hmerge|reflexivity| |].
            -- rec_prefix Hstr.
               eapply execs_let'; [|reflexivity|reflexivity|].
               { eapply ev_dot_copy; [iv1|reflexivity|].
                 eapply substr_copies_gen with (ovs := [(b "end", VInt (N sep - 1))]) (a := 0%Z) (b' := (N sep - 1)%Z); [exact Hstr| |reflexivity].
                 eapply evf_cons; [|reflexivity|iv1].
                 eapply ev_sub; [dotsym|iv1|]. cbn [arith' arith]. apply fits_chk, HfL. }
               rewrite Hpx.
               eapply execs_let'; [|reflexivity|reflexivity|].
               { eapply ev_dot_copy; [iv1|reflexivity|].
                 eapply substr_copies_gen with (ovs := [(b "start", VInt (N sep))]) (a := N sep) (b' := N str); [exact Hstr| |reflexivity].
                 eapply evf_cons; [dotsym|reflexivity|iv1]. }
               eapply execs_let'; [|reflexivity|reflexivity|apply execs_nil'].
               eapply ev_select.
               ++ eapply ev_eq; [dotsym|iv1|reflexivity|exists 1; reflexivity].
               ++ cbn [veq]. rewrite Hpne. reflexivity.
               ++ eapply ev_select.
                  ** eapply ev_eq; [dotsym|dotsym|reflexivity|exists 1; reflexivity].
                  ** cbn [veq]. rewrite Hmatch. reflexivity.
                  ** eapply ev_copy; [iv1|].
                     eapply (IH m' (Nat.lt_succ_diag_r m') (concat (skipn 1 (ch :: cs'))) (buf ++ ch) acc)
                       with (ovs := [(b "buf", VStr (buf ++ ch)); (b "str", VStr (concat (skipn 1 (ch :: cs'))));
                                     (b "sep", VStr sep); (b "acc", VList (map VStr acc))]).
                     --- rewrite <- Ecs. unfold cs. rewrite rechunk_skipn. fold cs. rewrite Ecs. cbn [skipn List.length] in *. lia.
                     --- apply Hsub.
                     --- eapply evf_cons; [|reflexivity|].
                         { eapply ev_add; [dotsym| |].
                           { eapply ev_dot_int; [dotsym|]. unfold chars. fold cs. rewrite Ecs. reflexivity. }
                           reflexivity. }
                         eapply evf_cons; [|reflexivity|].
                         { eapply ev_dot_sym.
                           - eapply ev_dot_copy; [iv1|reflexivity|].
                             eapply evals_copies_eq.
                             + eapply substr_copies_gen with (ovs := [(b "start", VInt 1)]) (a := 1%Z) (b' := N str); [exact Hstr| |reflexivity].
                               eapply evf_cons; [iv1|reflexivity|iv1].
                             + rewrite pick_skipn by (unfold chars; fold cs; rewrite HNstr, Ecs; cbn [List.length]; lia).
                               unfold chars. fold cs. rewrite Ecs. reflexivity.
                           - reflexivity. }
                         eapply evf_cons; [dotsym|reflexivity|]. eapply evf_cons; [dotsym|reflexivity|iv1].
                     --- reflexivity.
            -- unfold rec_out. iv1.
          * rewrite <- Ecs. unfold cs. rewrite rechunk_skipn. fold cs. rewrite Ecs. reflexivity.
    Qed.

    Lemma rec_all : forall m, rec_spec m.
    Proof. induction m as [m IH] using lt_wf_ind. apply rec_strong. exact IH. Qed.
  End Rec.

  (* ---- split_on{on = sep} of ops{str = s} ---- *)
  Definition so_flds (s sep : bytes) : list (bytes * value) :=
    [(b "on", VStr sep); (b "buf", VStr []); (b "out", VList []); (b "str", VStr s); (b "pkg", pkgf fo (T4 fo s));
     (b "this", Vsplit_on fo s)].

  Lemma split_on_copies c s sep e :
    fits (Z.of_nat (List.length s)) -> fits (Z.of_nat (List.length sep)) ->
    evals (with_self fo c (Some (Vsplit_on fo s))) e (VStr sep) ->
    copies c (Vsplit_on fo s) [(b "on", e)] (ref_split_on fo sep s).
  Proof.
    intros Hs Hsep He. destruct c as [sc0 slf E st ord]. unfold Vsplit_on in *. unfold ref_split_on.
    eapply copies_module'.
    - eapply evf_cons; [exact He|reflexivity|iv1].
    - reflexivity.
    - reflexivity.
    - unfold split_on_body.
      eapply execs_let'; [|reflexivity|reflexivity|].
      { eapply ev_module_lit. fld1. flds. fldd. fld1. fld1. iv1. }
      eapply execs_let'; [|reflexivity|reflexivity|apply execs_nil'].
      eapply ev_copy; [iv1|].
      eapply (rec_all sep s [(b "mod", VTuple (so_flds s sep))] Hsep (List.length s) s [] [])
        with (ovs := [(b "sep", VStr sep); (b "str", VStr s)]).
      + pose proof (N_le_bytes s). unfold N, chars in *. lia.
      + exact Hs.
      + eapply evf_cons; [dotsym|reflexivity|]. eapply evf_cons; [dotsym|reflexivity|iv1].
      + reflexivity.
    - unfold split_on_out. iv1.
  Qed.

  Definition split_on_call : expr := EBin DOT wrap_arg (ECopy (ESym (b "split_on")) [(b "on", ESym (b "arg2"))]).

  (* wrap(arg).split_on{on = arg2}: the pieces between the leftmost, non-overlapping occurrences of the
     separator (compared as strings against the next [#characters of sep] characters) *)
  Theorem std_strings_split_on : forall E st ord s sep,
      fits (Z.of_nat (List.length s)) -> fits (Z.of_nat (List.length sep)) ->
      exists f, eval_imp fo std_imports f [] (ctx_gen fo E st ord [(b "arg2", VStr sep); (b "arg", VStr s)]) split_on_call
                = Ok (ref_split_on fo sep s).
  Proof.
    intros E st ord s sep Hs Hsep. unfold ctx_gen, split_on_call.
    eapply ev_dot_copy; [eapply wrap_arg_evals; [apply fits_N, Hs|reflexivity]|reflexivity|].
    apply split_on_copies; [exact Hs|exact Hsep|iv1].
  Qed.

  (* for a non-empty separator, joining the result with the separator gives the string back *)
  Theorem std_split_on_join : forall (s sep : bytes),
      sep <> [] ->
      join sep (split_go (S (List.length s)) sep (List.length (utf8_chars sep)) [] [] (utf8_chars s)) = s.
  Proof.
    intros s sep Hne.
    rewrite split_go_join.
    - cbn [app]. apply utf8_concat.
    - destruct sep as [|c r]; [congruence|]. rewrite chars_cons. cbn [List.length]. lia.
    - pose proof (N_le_bytes s). unfold N, chars in *. lia.
  Qed.
  (* ... and no piece contains the separator as a character-aligned match is implied by the scan; an empty
     separator yields the single piece "" (split_go with L = 0) *)
  Lemma split_on_empty_sep s : ref_split_on fo [] s = VList [VStr []].
  Proof. reflexivity. Qed.
End SplitOn.
