(* std/lists.ucg: enumerate *)
From Ucg Require Import base.Bytes_Lemmas sem.Sem std.Std_Fuel std.Std_Rules std.StdSpec std.Std_Base.
From UcgGen Require Import StdLib.

Section Std.
  Variable fo : float_ops.
  Notation value := (value fo).
  Notation VInt := (VInt fo).
  Notation VStr := (VStr fo).
  Notation VBool := (VBool fo).
  Notation VNull := (VNull fo).
  Notation VList := (VList fo).
  Notation VTuple := (VTuple fo).
  Notation evals := (evals fo).
  Notation calls := (calls fo).
  Notation fits_chk := (fits_chk fo).

  (* ================= enumerate ================= *)
  Definition enum_acc (n : Z) (x : list value) (t : Z) : value :=
    VTuple [(b "count", VInt n); (b "list", VList x); (b "step", VInt t)].

  Lemma enum_from_app start step pre v :
    enum_from fo start step (pre ++ [v]) =
    enum_from fo start step pre ++ [VList [VInt (start + Z.of_nat (List.length pre) * step); v]].
  Proof.
    revert start. induction pre as [|x pre IH]; intros start; cbn [enum_from app List.length].
    - replace (start + Z.of_nat 0 * step)%Z with start by lia. reflexivity.
    - rewrite IH.
      replace (start + step + Z.of_nat (List.length pre) * step)%Z
        with (start + Z.of_nat (S (List.length pre)) * step)%Z by lia. reflexivity.
  Qed.

  Lemma ref_enumerate_eq start step l : ref_enumerate fo start step l = VList (enum_from fo start step l).
  Proof.
    unfold ref_enumerate. f_equal.
    assert (H : forall l k, map (fun p => VList [VInt (start + Z.of_nat (fst p) * step); snd p])
                               (combine (seq k (List.length l)) l)
                          = enum_from fo (start + Z.of_nat k * step) step l).
    { clear l. induction l as [|x l IH]; intros k; [reflexivity|].
      cbn [List.length seq combine map fst snd enum_from]. rewrite IH.
      replace (start + Z.of_nat (S k) * step)%Z with (start + Z.of_nat k * step + step)%Z by lia. reflexivity. }
    rewrite H. replace (start + Z.of_nat 0 * step)%Z with start by lia. reflexivity.
  Qed.

  Theorem std_enumerate : forall E st ord start step l,
      (forall i, (i <= List.length l)%nat -> fits (start + Z.of_nat i * step)) ->
      exists f, eval fo f (ctx_gen fo E st ord ((b "arg3", VList l) :: (b "arg2", VInt step) :: (b "arg1", VInt start)
                                                 :: lists_scope fo)) enumerate_call
                = Ok (ref_enumerate fo start step l).
  Proof.
    intros E st ord start step l Hfit. rewrite ref_enumerate_eq.
    let s := eval vm_compute in (lists_scope fo) in change (lists_scope fo) with s.
    edestruct (reduce_list_inv fo) with (l := l)
      (I := fun (pre : list value) (a : value) =>
              a = enum_acc (start + Z.of_nat (List.length pre) * step) (enum_from fo start step pre) step)
      as (r & Hr & HI); cycle 5.
    - subst r.
      eapply ev_copy; [ev1|].
      eapply copies_module.
      + eapply evf_cons; [ev1|reflexivity|]. eapply evf_cons; [ev1|reflexivity|].
        eapply evf_cons; [ev1|reflexivity|]. ev1.
      + reflexivity.
      + reflexivity.
      + eapply execs_let; [ev1|reflexivity|reflexivity|].
        eapply execs_let; [|reflexivity|reflexivity|apply execs_nil].
        eapply ev_dot_sym; [exact Hr|reflexivity].
      + ev1.
    - ev1.
    - ev1. eapply evf_cons; [eapply ev_dot_sym; [ev1|reflexivity]|reflexivity|].
      eapply evf_cons; [evs|reflexivity|].
      eapply evf_cons; [eapply ev_dot_sym; [ev1|reflexivity]|reflexivity|]. ev1.
    - ev1. eapply ev_dot_sym; [ev1|reflexivity].
    - cbn [List.length enum_from]. replace (start + Z.of_nat 0 * step)%Z with start by lia. reflexivity.
    - intros pre v post a El ->. eexists. split.
      + eapply calls_intro; [reflexivity|reflexivity|].
        eapply ev_copy; [ev1|]. eapply copies_tuple.
        * eapply evf_cons; [|reflexivity|].
          { eapply ev_add; [eapply ev_dot_sym; [ev1|reflexivity]|eapply ev_dot_sym; [ev1|reflexivity]|].
            cbn [arith' arith]. apply fits_chk.
            replace (start + Z.of_nat (List.length pre) * step + step)%Z
              with (start + Z.of_nat (S (List.length pre)) * step)%Z by lia.
            apply Hfit. subst l. rewrite app_length. cbn [List.length]. lia. }
          eapply evf_cons; [|reflexivity|ev1].
          eapply ev_add; [eapply ev_dot_sym; [ev1|reflexivity]| |].
          { ev1. eapply evl_cons; [|ev1]. ev1. eapply evl_cons; [eapply ev_dot_sym; [ev1|reflexivity]|].
            eapply evl_cons; [ev1|ev1]. }
          reflexivity.
        * reflexivity.
      + unfold enum_acc. rewrite enum_from_app, app_length. cbn [List.length].
        replace (start + Z.of_nat (List.length pre + 1) * step)%Z
          with (start + Z.of_nat (List.length pre) * step + step)%Z by lia. reflexivity.
  Qed.

  (* FINDING.  The reducer computes the NEXT count (acc.count + acc.step) also after the last item,
     so enumerate fails with an integer overflow although every index it has to produce fits:
     enumerate{start = i64::MAX, step = 1, list = [x]} should be [[i64::MAX, x]] and is a build error. *)
  Lemma std_enumerate_overflow_err : forall E st ord (x : value),
      eval fo 12 (ctx_gen fo E st ord ((b "arg3", VList [x]) :: (b "arg2", VInt 1) :: (b "arg1", VInt i64_max)
                                         :: lists_scope fo)) enumerate_call = Err.
  Proof. intros. vm_compute. reflexivity. Qed.

  Theorem std_enumerate_refuted : forall E st ord (x : value),
      (* all the indices of the reference result fit an i64 ... *)
      (forall i, (i < List.length [x])%nat -> fits (i64_max + Z.of_nat i * 1)) /\
      (* ... but no amount of fuel makes the helper return it (or anything else) *)
      forall f v, eval fo f (ctx_gen fo E st ord ((b "arg3", VList [x]) :: (b "arg2", VInt 1) :: (b "arg1", VInt i64_max)
                                                    :: lists_scope fo)) enumerate_call <> Ok v.
  Proof.
    intros E st ord x. split.
    - intros i Hi. cbn in Hi. assert (i = 0%nat) by lia. subst i. reflexivity.
    - intros f v H. pose proof (std_enumerate_overflow_err E st ord x) as He.
      destruct (Nat.le_ge_cases f 12) as [Hle|Hge].
      + rewrite (eval_fuel_mono fo _ _ _ _ _ H Hle) in He. discriminate.
      + rewrite (eval_fuel_mono_err fo _ _ _ _ He Hge) in H. discriminate.
  Qed.
End Std.
