(* std/*.ucg through `import`: schema.must, tuples.assert_tuple, and the `ops` wrappers of
   std/tuples.ucg and std/lists.ucg.  All statements are for ALL argument values.

   Parameter constraints (`m :: false`, `tpl :: {}`) are not part of the AST of gen/StdLib.v (EFunc carries
   only the parameter NAMES): the model ignores them for function parameters, so the theorems below say
   what the BODY does with an argument of any shape. *)
From Ucg Require Import base.Bytes_Lemmas sem.Sem std.Std_Fuel std.Sem_Import std.Sem_Import_Lemmas
     std.Std_Rules_Imp std.Std_Rules_Imp2 std.StdSpec std.StdSpec_Imp std.Imp_Base std.Imp_Tuples std.Imp_Lists.

Section Ops.
  Variable fo : float_ops.
  Notation value := (value fo).
  Notation VInt := (VInt fo).
  Notation VStr := (VStr fo).
  Notation VBool := (VBool fo).
  Notation VNull := (VNull fo).
  Notation VList := (VList fo).
  Notation VTuple := (VTuple fo).
  Notation VFunc := (VFunc fo).
  Notation VModule := (VModule fo).
  Notation eval := (eval_imp fo std_imports).
  Notation evals := (evals fo std_imports []).
  Notation evals_list := (evals_list fo std_imports []).
  Notation calls := (calls fo std_imports []).
  Notation copies := (copies fo std_imports []).
  Notation fails := (fails fo std_imports []).
  Notation call_v := (call_v fo std_imports []).
  Notation renders := (renders fo).

  (* ------------------------------------------------------------------ *)
  (* failing calls, and evaluations that can not succeed with any fuel   *)
  Definition call_fails (c : ctx fo) (fv : value) (avs : list value) : Prop := exists f, call_v f c fv avs = Err.
  Definition never_ok (c : ctx fo) (e : expr) : Prop := forall f v, eval f [] c e <> Ok v.
  Definition call_never_ok (c : ctx fo) (fv : value) (avs : list value) : Prop := forall f v, call_v f c fv avs <> Ok v.

  Lemma call_fails_intro c ps body clo avs s :
    List.length ps = List.length avs -> bind_params fo ps avs clo = Ok s -> fails (fctx fo c s) body ->
    call_fails c (VFunc ps body clo) avs.
  Proof. intros Hl Hb [f H]. exists f. cbn. rewrite Hl, Nat.eqb_refl. cbn. rewrite Hb. exact H. Qed.
  Lemma call_never_ok_intro c ps body clo avs s :
    List.length ps = List.length avs -> bind_params fo ps avs clo = Ok s -> never_ok (fctx fo c s) body ->
    call_never_ok c (VFunc ps body clo) avs.
  Proof. intros Hl Hb H f v. cbn. rewrite Hl, Nat.eqb_refl. cbn. rewrite Hb. apply H. Qed.

  Lemma fails_dot_call c l k args avs lv fv :
    evals_list c args avs -> evals c l lv -> index fo c lv (VStr k) = Ok fv -> call_fails c fv avs ->
    fails c (EBin DOT l (ECall (ESym k) args)).
  Proof.
    intros [f1 H1] [f2 H2] Hi [f3 H3]. set (F := Nat.max f1 (Nat.max f2 f3)). exists (S F).
    apply (fun h => mapM_eval_mono fo std_imports [] _ F _ _ _ h) in H1; [|lia].
    apply (fun h => eval_imp_fuel_mono fo std_imports _ F [] _ _ _ h) in H2; [|lia].
    apply (le_res_err _ _ (call_v_le fo std_imports [] f3 F c fv avs ltac:(lia))) in H3.
    rewrite eval_S_dot_call, H1. cbn [bind]. rewrite H2. cbn [bind]. rewrite Hi. exact H3.
  Qed.
  Lemma fails_select c ve dflt arms v e' :
    evals c ve v -> select_pick fo v dflt arms = Some e' -> fails c e' -> fails c (ESelect ve dflt arms).
  Proof.
    intros [f1 H1] Hp [f2 H2]. exists (S (Nat.max f1 f2)).
    apply (fun h => eval_imp_fuel_mono fo std_imports _ (Nat.max f1 f2) [] _ _ _ h) in H1; [|lia].
    apply (fun h => eval_imp_fuel_mono_err fo std_imports _ (Nat.max f1 f2) [] _ _ h) in H2; [|lia].
    rewrite eval_S_select, H1. cbn [bind]. rewrite Hp. exact H2.
  Qed.

  Lemma evals_det c e v f w : evals c e v -> eval f [] c e = Ok w -> w = v.
  Proof.
    intros [f0 H0] H.
    apply (fun h => eval_imp_fuel_mono fo std_imports _ (Nat.max f f0) [] _ _ _ h) in H0; [|lia].
    apply (fun h => eval_imp_fuel_mono fo std_imports _ (Nat.max f f0) [] _ _ _ h) in H; [|lia].
    congruence.
  Qed.
  Lemma evals_list_det c es vs f ws : evals_list c es vs -> mapM (eval f [] c) es = Ok ws -> ws = vs.
  Proof.
    intros [f0 H0] H.
    apply (fun h => mapM_eval_mono fo std_imports [] _ (Nat.max f f0) _ _ _ h) in H0; [|lia].
    apply (fun h => mapM_eval_mono fo std_imports [] _ (Nat.max f f0) _ _ _ h) in H; [|lia].
    congruence.
  Qed.

  Lemma never_ok_fail c e : never_ok c (EFail e).
  Proof.
    intros [|f] v; [discriminate|]. rewrite eval_S_fail. destruct (eval f [] c e); discriminate.
  Qed.
  Lemma never_ok_select c ve dflt arms v0 e' :
    evals c ve v0 -> select_pick fo v0 dflt arms = Some e' -> never_ok c e' -> never_ok c (ESelect ve dflt arms).
  Proof.
    intros H0 Hp Hn [|f] v; [discriminate|]. rewrite eval_S_select.
    destruct (eval f [] c ve) as [w| | |] eqn:Hv; cbn [bind]; try discriminate.
    rewrite (evals_det _ _ _ _ _ H0 Hv), Hp. apply Hn.
  Qed.
  Lemma never_ok_dot_call c l k args avs lv fv :
    evals_list c args avs -> evals c l lv -> index fo c lv (VStr k) = Ok fv -> call_never_ok c fv avs ->
    never_ok c (EBin DOT l (ECall (ESym k) args)).
  Proof.
    intros H1 H2 Hi H3 [|f] v; [discriminate|]. rewrite eval_S_dot_call.
    destruct (mapM (eval f [] c) args) as [ws| | |] eqn:Ha; cbn [bind]; try discriminate.
    rewrite (evals_list_det _ _ _ _ _ H1 Ha).
    destruct (eval f [] c l) as [w| | |] eqn:Hl; cbn [bind]; try discriminate.
    rewrite (evals_det _ _ _ _ _ H2 Hl), Hi. cbn [bind]. apply H3.
  Qed.

  (* ------------------------------------------------------------------ *)
  (* 1. schema.must                                                      *)
  Definition must_v : value := member fo schema_path "must".
  Definition must_clo := fn_clo fo must_v.
  Definition must_body : expr := Eval vm_compute in fn_body fo must_v.
  Lemma must_v_eq : must_v = VFunc [b "m"; b "msg"] must_body must_clo.
  Proof. vm_compute. reflexivity. Qed.
  Lemma schema_index_must c : index fo c (import_value fo schema_path) (VStr (b "must")) = Ok must_v.
  Proof. destruct c. vm_compute. reflexivity. Qed.

  (* the values `must` lets through: the boolean true -- and the STRING "true" (select keys are strings) *)
  Definition must_passes (m : value) : bool :=
    match m with
    | Sem.VBool _ x => x
    | Sem.VStr _ s => bytes_eqb s (b "true")
    | _ => false
    end.

  Lemma must_pick_pass m : must_passes m = true ->
    select_pick fo m (Some (EFail (ESym (b "msg")))) [(b "true", ESym (b "m"))] = Some (ESym (b "m")).
  Proof.
    destruct m as [|[|]| | |s| | | |]; cbn [must_passes]; try discriminate; intros H; try reflexivity.
    unfold select_pick. cbn [select_key find_arm]. rewrite H. reflexivity.
  Qed.
  Lemma must_pick_fail m : must_passes m = false ->
    select_pick fo m (Some (EFail (ESym (b "msg")))) [(b "true", ESym (b "m"))] = Some (EFail (ESym (b "msg"))).
  Proof.
    destruct m as [|[|]| | |s| | | |]; cbn [must_passes]; try discriminate; intros H; try reflexivity.
    unfold select_pick. cbn [select_key find_arm]. rewrite H. reflexivity.
  Qed.

  Lemma must_calls_pass c m msg : must_passes m = true -> calls c must_v [m; msg] m.
  Proof.
    intros Hm. rewrite must_v_eq. eapply calls_intro; [reflexivity|reflexivity|]. unfold must_body.
    eapply ev_select; [iv1|apply must_pick_pass, Hm|iv1].
  Qed.
  Lemma must_calls_fail c m msg : must_passes m = false -> call_fails c must_v [m; msg].
  Proof.
    intros Hm. rewrite must_v_eq. eapply call_fails_intro; [reflexivity|reflexivity|]. unfold must_body.
    eapply fails_select; [iv1|apply must_pick_fail, Hm|]. eapply fails_fail. iv1.
  Qed.

  (* (import "std/schema.ucg").must(arg1, arg2) *)
  Definition must_call : expr := imp_call schema_path "must" ["arg1"; "arg2"]%string.

  Theorem std_must_passes : forall E st ord m msg, must_passes m = true ->
      exists f, eval f [] (ctx_gen fo E st ord [(b "arg2", msg); (b "arg1", m)]) must_call = Ok m.
  Proof.
    intros E st ord m msg Hm. unfold must_call, imp_call, ctx_gen. cbn [map].
    eapply ev_dot_call; [ivs|apply ev_import_std, in_schema|apply schema_index_must|].
    apply must_calls_pass, Hm.
  Qed.
  Theorem std_must_rejects : forall E st ord m msg, must_passes m = false ->
      exists f, eval f [] (ctx_gen fo E st ord [(b "arg2", msg); (b "arg1", m)]) must_call = Err.
  Proof.
    intros E st ord m msg Hm. unfold must_call, imp_call, ctx_gen. cbn [map].
    eapply fails_dot_call; [ivs|apply ev_import_std, in_schema|apply schema_index_must|].
    apply must_calls_fail, Hm.
  Qed.
  (* the two documented cases, for every message value *)
  Corollary std_must_true : forall E st ord msg,
      exists f, eval f [] (ctx_gen fo E st ord [(b "arg2", msg); (b "arg1", VBool true)]) must_call = Ok (VBool true).
  Proof. intros. apply std_must_passes. reflexivity. Qed.
  Corollary std_must_false : forall E st ord msg,
      exists f, eval f [] (ctx_gen fo E st ord [(b "arg2", msg); (b "arg1", VBool false)]) must_call = Err.
  Proof. intros. apply std_must_rejects. reflexivity. Qed.
  (* ... and a rejected argument is rejected with every amount of fuel *)
  Corollary std_must_rejects_never_ok : forall E st ord m msg, must_passes m = false ->
      forall f v, eval f [] (ctx_gen fo E st ord [(b "arg2", msg); (b "arg1", m)]) must_call <> Ok v.
  Proof.
    intros E st ord m msg Hm. apply (fails_not_ok fo std_imports []). apply std_must_rejects, Hm.
  Qed.

  (* ------------------------------------------------------------------ *)
  (* 2. tuples.assert_tuple                                              *)
  Definition at_v : value := member fo tuples_path "assert_tuple".
  Definition at_clo := fn_clo fo at_v.
  Definition at_body : expr := Eval vm_compute in fn_body fo at_v.
  Lemma at_v_eq : at_v = VFunc [b "tpl"] at_body at_clo.
  Proof. vm_compute. reflexivity. Qed.
  Lemma tuples_index_at c : index fo c (import_value fo tuples_path) (VStr (b "assert_tuple")) = Ok at_v.
  Proof. destruct c. vm_compute. reflexivity. Qed.

  Lemma is_tuple_name v : bytes_eqb (is_name fo v) (b "tuple") = is_tuple_v fo v.
  Proof. destruct v; reflexivity. Qed.

  Definition assert_tuple_call : expr := imp_call tuples_path "assert_tuple" ["arg"]%string.

  Theorem std_assert_tuple_tuple : forall E st ord fs,
      exists f, eval f [] (ctx_gen fo E st ord [(b "arg", VTuple fs)]) assert_tuple_call = Ok VNull.
  Proof.
    intros E st ord fs. unfold assert_tuple_call, imp_call, ctx_gen. cbn [map].
    eapply ev_dot_call; [ivs|apply ev_import_std, in_tuples|apply tuples_index_at|].
    rewrite at_v_eq. eapply calls_intro; [reflexivity|reflexivity|]. unfold at_body.
    eapply ev_select; [eapply ev_is; [iv1|iv1]|reflexivity|iv1].
  Qed.

  (* a non-tuple whose text can be produced for the message: the failure *)
  Theorem std_assert_tuple_other : forall E st ord v t, is_tuple_v fo v = false -> renders v t ->
      exists f, eval f [] (ctx_gen fo E st ord [(b "arg", v)]) assert_tuple_call = Err.
  Proof.
    intros E st ord v t Hv Hr. unfold assert_tuple_call, imp_call, ctx_gen. cbn [map].
    eapply fails_dot_call; [ivs|apply ev_import_std, in_tuples|apply tuples_index_at|].
    rewrite at_v_eq. eapply call_fails_intro; [reflexivity|reflexivity|]. unfold at_body.
    eapply fails_select; [eapply ev_is; [iv1|iv1]|rewrite is_tuple_name, Hv; reflexivity|].
    eapply fails_fail. eapply ev_formatL with (ts := [t]); [reflexivity| |reflexivity].
    constructor; [|constructor]. exists v. split; [iv1|exact Hr].
  Qed.
  (* every non-tuple, whatever it is (a float the model has no text for makes the message, hence the
     whole call, "unsupported" rather than an error): never a value *)
  Theorem std_assert_tuple_other_never_ok : forall E st ord v, is_tuple_v fo v = false ->
      forall f w, eval f [] (ctx_gen fo E st ord [(b "arg", v)]) assert_tuple_call <> Ok w.
  Proof.
    intros E st ord v Hv. unfold assert_tuple_call, imp_call, ctx_gen. cbn [map].
    eapply never_ok_dot_call; [ivs|apply ev_import_std, in_tuples|apply tuples_index_at|].
    rewrite at_v_eq. eapply call_never_ok_intro; [reflexivity|reflexivity|]. unfold at_body.
    eapply never_ok_select; [eapply ev_is; [iv1|iv1]|rewrite is_tuple_name, Hv; reflexivity|].
    apply never_ok_fail.
  Qed.

  (* ------------------------------------------------------------------ *)
  (* 3. tuples.ops                                                       *)

  (* two evaluations of the same context that succeed, succeed together *)
  Lemma agree_intro c e1 e2 v :
    evals c e1 v -> evals c e2 v -> exists f, eval f [] c e1 = Ok v /\ eval f [] c e2 = Ok v.
  Proof.
    intros [f1 H1] [f2 H2]. exists (Nat.max f1 f2).
    apply (fun h => eval_imp_fuel_mono fo std_imports _ (Nat.max f1 f2) [] _ _ _ h) in H1; [|lia].
    apply (fun h => eval_imp_fuel_mono fo std_imports _ (Nat.max f1 f2) [] _ _ _ h) in H2; [|lia].
    split; assumption.
  Qed.

  (* values: the module of the linked library (fields and iter are in Imp_Tuples.v) *)
  Definition values_v : value := member fo tuples_path "values".
  Definition values_pkg_clo := pkg_clo fo values_v.
  Definition values_out : option expr := Eval vm_compute in mod_out fo values_v.
  Definition values_body : list stmt := Eval vm_compute in mod_body fo values_v.
  Lemma values_v_eq :
    values_v = VModule [(b "tpl", VTuple []); (b "pkg", VFunc [] (EImport tuples_path) values_pkg_clo)]
                       values_out values_body.
  Proof. vm_compute. reflexivity. Qed.
  Lemma tuples_index_values c : index fo c (import_value fo tuples_path) (VStr (b "values")) = Ok values_v.
  Proof. destruct c. vm_compute. reflexivity. Qed.
  Definition step_values (a : value) (k : bytes) (v : value) : value :=
    match a with Sem.VList _ x => VList (x ++ [v]) | _ => a end.
  Lemma values_copies c e fs :
    evals (with_self fo c (Some values_v)) e (VTuple fs) ->
    copies c values_v [(b "tpl", e)] (VList (map snd fs)).
  Proof.
    intros He. destruct c as [s0 slf E st ord]. rewrite values_v_eq in *.
    rewrite <- (app_nil_l (map _ fs)).
    rewrite <- (fold_step_list fo snd step_values (fun x k v => eq_refl) fs []).
    eapply copies_module'.
    - eapply evf_cons; [exact He|reflexivity|iv1].
    - reflexivity.
    - reflexivity.
    - unfold values_body.
      eapply execs_let'; [|reflexivity|reflexivity|apply execs_nil'].
      eapply (reduce_tuple_is_fold fo std_imports []) with (I := is_vlist fo) (step := step_values).
      + iv1.
      + ivs.
      + iv1. dotsym.
      + exists []. reflexivity.
      + intros a k v [x ->] _. split; [|eexists; reflexivity].
        eapply calls_intro; [reflexivity|reflexivity|].
        eapply ev_add; [iv1|ivs|reflexivity].
    - unfold values_out. iv1.
  Qed.

  (* the plain helpers, reached through the import: (import "std/tuples.ucg").<name>{tpl = arg} *)
  Definition tfields_call : expr := imp_inst tuples_path "fields" [("tpl", "arg")]%string.
  Definition tvalues_call : expr := imp_inst tuples_path "values" [("tpl", "arg")]%string.
  Definition titer_call : expr := imp_inst tuples_path "iter" [("tpl", "arg")]%string.

  Definition ref_fields (fs : list (bytes * value)) : value := VList (map (fun kv => VStr (fst kv)) fs).
  Definition ref_values (fs : list (bytes * value)) : value := VList (map snd fs).
  Definition ref_iter (fs : list (bytes * value)) : value := VList (map (fun kv => VList [VStr (fst kv); snd kv]) fs).

  Lemma tfields_evals E st ord fs :
    evals (ctx_gen fo E st ord [(b "arg", VTuple fs)]) tfields_call (ref_fields fs).
  Proof.
    unfold tfields_call, imp_inst, ctx_gen. cbn [map fst snd].
    eapply ev_dot_copy; [apply ev_import_std, in_tuples|apply tuples_index_fields|]. apply fields_copies. iv1.
  Qed.
  Lemma tvalues_evals E st ord fs :
    evals (ctx_gen fo E st ord [(b "arg", VTuple fs)]) tvalues_call (ref_values fs).
  Proof.
    unfold tvalues_call, imp_inst, ctx_gen. cbn [map fst snd].
    eapply ev_dot_copy; [apply ev_import_std, in_tuples|apply tuples_index_values|]. apply values_copies. iv1.
  Qed.
  Lemma titer_evals E st ord fs :
    evals (ctx_gen fo E st ord [(b "arg", VTuple fs)]) titer_call (ref_iter fs).
  Proof.
    unfold titer_call, imp_inst, ctx_gen. cbn [map fst snd].
    eapply ev_dot_copy; [apply ev_import_std, in_tuples|apply tuples_index_iter|]. apply iter_copies. iv1.
  Qed.

  (* the wrapper module *)
  Definition tops_v : value := member fo tuples_path "ops".
  Definition tops_pkg_clo := pkg_clo fo tops_v.
  Definition tops_out : option expr := Eval vm_compute in mod_out fo tops_v.
  Definition tops_body : list stmt := Eval vm_compute in mod_body fo tops_v.
  Definition tops_pkg : value := VFunc [] (EImport tuples_path) tops_pkg_clo.
  Definition tops_m : value := VModule [(b "tpl", VTuple []); (b "pkg", tops_pkg)] tops_out tops_body.
  Lemma tops_v_eq : tops_v = tops_m.
  Proof. vm_compute. reflexivity. Qed.
  Lemma tuples_index_ops c : index fo c (import_value fo tuples_path) (VStr (b "ops")) = Ok tops_v.
  Proof. destruct c. vm_compute. reflexivity. Qed.

  Definition tops_let_body (n : nat) : expr :=
    match nth n tops_body (SExpr ENull) with SLet _ (EFunc _ bd) => bd | _ => ENull end.
  Definition tops_fields_body : expr := Eval vm_compute in tops_let_body 1.
  Definition tops_values_body : expr := Eval vm_compute in tops_let_body 2.
  Definition tops_iter_body : expr := Eval vm_compute in tops_let_body 3.

  (* the value of ops{tpl = t}: three closures over the module's scope *)
  Definition tops_modt (t : value) : value := VTuple [(b "tpl", t); (b "pkg", tops_pkg); (b "this", tops_m)].
  Definition TS1 (t : value) : scope fo := [(b "pkg", import_value fo tuples_path); (b "mod", tops_modt t)].
  Definition Vtfields t : value := VFunc [] tops_fields_body (TS1 t).
  Definition TS2 t : scope fo := (b "fields", Vtfields t) :: TS1 t.
  Definition Vtvalues t : value := VFunc [] tops_values_body (TS2 t).
  Definition TS3 t : scope fo := (b "values", Vtvalues t) :: TS2 t.
  Definition Vtiter t : value := VFunc [] tops_iter_body (TS3 t).
  Definition tops_tuple (t : value) : value :=
    VTuple [(b "fields", Vtfields t); (b "values", Vtvalues t); (b "iter", Vtiter t)].

  Lemma tops_copies c e fs :
    evals (with_self fo c (Some tops_m)) e (VTuple fs) -> copies c tops_m [(b "tpl", e)] (tops_tuple (VTuple fs)).
  Proof.
    intros He. destruct c as [s0 slf E st ord]. unfold tops_m in *.
    eapply copies_module'.
    - eapply evf_cons; [exact He|reflexivity|iv1].
    - reflexivity.
    - reflexivity.
    - unfold tops_body.
      eapply execs_let'; [|reflexivity|reflexivity|].
      { eapply ev_dot_call; [iv1|iv1|reflexivity|]. apply Imp_Tuples.pkg_calls, in_tuples. }
      eapply execs_let'; [iv1|reflexivity|reflexivity|].
      eapply execs_let'; [iv1|reflexivity|reflexivity|].
      eapply execs_let'; [iv1|reflexivity|reflexivity|].
      apply execs_nil'.
    - unfold tops_out, tops_tuple. iv1. fld1. fld1. fld1. iv1.
  Qed.

  (* the three methods hand the wrapped tuple to the plain helpers *)
  Lemma tops_fields_calls c fs : calls c (Vtfields (VTuple fs)) [] (ref_fields fs).
  Proof.
    eapply calls_intro; [reflexivity|reflexivity|]. unfold tops_fields_body.
    eapply ev_dot_copy; [iv1|apply tuples_index_fields|]. apply fields_copies. dotsym.
  Qed.
  Lemma tops_values_calls c fs : calls c (Vtvalues (VTuple fs)) [] (ref_values fs).
  Proof.
    eapply calls_intro; [reflexivity|reflexivity|]. unfold tops_values_body.
    eapply ev_dot_copy; [iv1|apply tuples_index_values|]. apply values_copies. dotsym.
  Qed.
  Lemma tops_iter_calls c fs : calls c (Vtiter (VTuple fs)) [] (ref_iter fs).
  Proof.
    eapply calls_intro; [reflexivity|reflexivity|]. unfold tops_iter_body.
    eapply ev_dot_copy; [iv1|apply tuples_index_iter|]. apply iter_copies. dotsym.
  Qed.

  (* (import "std/tuples.ucg").ops{tpl = arg} *)
  Definition tops_of_arg : expr := imp_inst tuples_path "ops" [("tpl", "arg")]%string.
  Definition meth0 (m : expr) (name : string) : expr := EBin DOT m (ECall (ESym (b name)) []).

  Lemma tops_of_arg_evals E st ord fs :
    evals (ctx_gen fo E st ord [(b "arg", VTuple fs)]) tops_of_arg (tops_tuple (VTuple fs)).
  Proof.
    unfold tops_of_arg, imp_inst, ctx_gen. cbn [map fst snd].
    eapply ev_dot_copy; [apply ev_import_std, in_tuples|apply tuples_index_ops|].
    rewrite tops_v_eq. apply tops_copies. iv1.
  Qed.

  Lemma tops_fields_evals E st ord fs :
    evals (ctx_gen fo E st ord [(b "arg", VTuple fs)]) (meth0 tops_of_arg "fields") (ref_fields fs).
  Proof.
    eapply ev_dot_call; [iv1|apply tops_of_arg_evals|reflexivity|apply tops_fields_calls].
  Qed.
  Lemma tops_values_evals E st ord fs :
    evals (ctx_gen fo E st ord [(b "arg", VTuple fs)]) (meth0 tops_of_arg "values") (ref_values fs).
  Proof.
    eapply ev_dot_call; [iv1|apply tops_of_arg_evals|reflexivity|apply tops_values_calls].
  Qed.
  Lemma tops_iter_evals E st ord fs :
    evals (ctx_gen fo E st ord [(b "arg", VTuple fs)]) (meth0 tops_of_arg "iter") (ref_iter fs).
  Proof.
    eapply ev_dot_call; [iv1|apply tops_of_arg_evals|reflexivity|apply tops_iter_calls].
  Qed.

  (* the final values *)
  Theorem std_tuples_ops_fields : forall E st ord fs,
      exists f, eval f [] (ctx_gen fo E st ord [(b "arg", VTuple fs)]) (meth0 tops_of_arg "fields")
                = Ok (VList (map (fun kv => VStr (fst kv)) fs)).
  Proof. exact tops_fields_evals. Qed.
  Theorem std_tuples_ops_values : forall E st ord fs,
      exists f, eval f [] (ctx_gen fo E st ord [(b "arg", VTuple fs)]) (meth0 tops_of_arg "values")
                = Ok (VList (map snd fs)).
  Proof. exact tops_values_evals. Qed.
  Theorem std_tuples_ops_iter : forall E st ord fs,
      exists f, eval f [] (ctx_gen fo E st ord [(b "arg", VTuple fs)]) (meth0 tops_of_arg "iter")
                = Ok (VList (map (fun kv => VList [VStr (fst kv); snd kv]) fs)).
  Proof. exact tops_iter_evals. Qed.

  (* the plain helpers through the import (the first-round statements are about the unlinked scope) *)
  Theorem std_imp_fields : forall E st ord fs,
      exists f, eval f [] (ctx_gen fo E st ord [(b "arg", VTuple fs)]) tfields_call
                = Ok (VList (map (fun kv => VStr (fst kv)) fs)).
  Proof. exact tfields_evals. Qed.
  Theorem std_imp_values : forall E st ord fs,
      exists f, eval f [] (ctx_gen fo E st ord [(b "arg", VTuple fs)]) tvalues_call = Ok (VList (map snd fs)).
  Proof. exact tvalues_evals. Qed.
  Theorem std_imp_iter : forall E st ord fs,
      exists f, eval f [] (ctx_gen fo E st ord [(b "arg", VTuple fs)]) titer_call
                = Ok (VList (map (fun kv => VList [VStr (fst kv); snd kv]) fs)).
  Proof. exact titer_evals. Qed.

  (* wrapper and plain helper return the same value *)
  Theorem std_tuples_ops_fields_agrees : forall E st ord fs,
      exists f v, eval f [] (ctx_gen fo E st ord [(b "arg", VTuple fs)]) (meth0 tops_of_arg "fields") = Ok v /\
                  eval f [] (ctx_gen fo E st ord [(b "arg", VTuple fs)]) tfields_call = Ok v.
  Proof.
    intros. destruct (agree_intro _ _ _ _ (tops_fields_evals E st ord fs) (tfields_evals E st ord fs)) as [f H].
    exists f, (ref_fields fs). exact H.
  Qed.
  Theorem std_tuples_ops_values_agrees : forall E st ord fs,
      exists f v, eval f [] (ctx_gen fo E st ord [(b "arg", VTuple fs)]) (meth0 tops_of_arg "values") = Ok v /\
                  eval f [] (ctx_gen fo E st ord [(b "arg", VTuple fs)]) tvalues_call = Ok v.
  Proof.
    intros. destruct (agree_intro _ _ _ _ (tops_values_evals E st ord fs) (tvalues_evals E st ord fs)) as [f H].
    exists f, (ref_values fs). exact H.
  Qed.
  Theorem std_tuples_ops_iter_agrees : forall E st ord fs,
      exists f v, eval f [] (ctx_gen fo E st ord [(b "arg", VTuple fs)]) (meth0 tops_of_arg "iter") = Ok v /\
                  eval f [] (ctx_gen fo E st ord [(b "arg", VTuple fs)]) titer_call = Ok v.
  Proof.
    intros. destruct (agree_intro _ _ _ _ (tops_iter_evals E st ord fs) (titer_evals E st ord fs)) as [f H].
    exists f, (ref_iter fs). exact H.
  Qed.

  (* ------------------------------------------------------------------ *)
  (* 4. lists.ops                                                        *)
  Notation fits_chk := (fits_chk fo).

  (* head and reverse of the linked library (len and tail are in Imp_Lists.v) *)
  Definition head_v : value := member fo lists_path "head".
  Definition head_clo := fn_clo fo head_v.
  Definition head_body : expr := Eval vm_compute in fn_body fo head_v.
  Lemma head_v_eq : head_v = VFunc [b "list"] head_body head_clo.
  Proof. vm_compute. reflexivity. Qed.
  Lemma lists_index_head c : index fo c (import_value fo lists_path) (VStr (b "head")) = Ok head_v.
  Proof. destruct c. vm_compute. reflexivity. Qed.
  Lemma head_clo_len : lookup fo (b "len") head_clo = Some (len_v fo).
  Proof. vm_compute. reflexivity. Qed.

  Lemma head_calls c l :
    fits (Z.of_nat (List.length l)) -> calls c head_v [VList l] (ref_head fo l).
  Proof.
    intros Hfit. rewrite head_v_eq.
    eapply calls_intro; [reflexivity|reflexivity|]. unfold head_body.
    match goal with |- Std_Rules_Imp.evals _ _ _ ?cc (ESelect ?ve _ _) _ =>
      assert (Hc : evals cc ve (VBool (0 <? Z.of_nat (List.length l))%Z)) end.
    { eapply ev_cmp with (lv := ref_len fo l); [reflexivity| |iv1|reflexivity].
      eapply ev_call; [ivs|apply ev_sym; [reflexivity|exact head_clo_len]|]. apply len_calls, Hfit. }
    destruct l as [|x l].
    - eapply ev_select; [exact Hc|reflexivity|]. ivs.
    - eapply ev_select; [exact Hc|reflexivity|].
      iv1. eapply evl_cons; [eapply ev_dot_int; [iv1|reflexivity]|iv1].
  Qed.

  Definition reverse_v : value := member fo lists_path "reverse".
  Definition reverse_clo := fn_clo fo reverse_v.
  Definition reverse_body : expr := Eval vm_compute in fn_body fo reverse_v.
  Lemma reverse_v_eq : reverse_v = VFunc [b "list"] reverse_body reverse_clo.
  Proof. vm_compute. reflexivity. Qed.
  Lemma lists_index_reverse c : index fo c (import_value fo lists_path) (VStr (b "reverse")) = Ok reverse_v.
  Proof. destruct c. vm_compute. reflexivity. Qed.

  Lemma reverse_calls c l : calls c reverse_v [VList l] (ref_reverse fo l).
  Proof.
    rewrite reverse_v_eq.
    eapply calls_intro; [reflexivity|reflexivity|]. unfold reverse_body.
    edestruct (reduce_list_inv fo std_imports []) with (I := fun (pre : list value) (a : value) => a = VList (rev pre))
      as (r & Hr & HI); [ | | | | |subst r; exact Hr].
    - iv1.
    - ivs.
    - iv1.
    - reflexivity.
    - intros pre v post a El ->. eexists. split.
      + eapply calls_intro; [reflexivity|reflexivity|].
        eapply ev_add; [ivs|iv1|]. reflexivity.
      + rewrite rev_app_distr. reflexivity.
  Qed.

  (* the wrapper module *)
  Definition lops_v : value := member fo lists_path "ops".
  Definition lops_pkg_clo := pkg_clo fo lops_v.
  Definition lops_out : option expr := Eval vm_compute in mod_out fo lops_v.
  Definition lops_body : list stmt := Eval vm_compute in mod_body fo lops_v.
  Definition lops_pkg : value := VFunc [] (EImport lists_path) lops_pkg_clo.
  Definition lops_m : value := VModule [(b "list", VList []); (b "pkg", lops_pkg)] lops_out lops_body.
  Lemma lops_v_eq : lops_v = lops_m.
  Proof. vm_compute. reflexivity. Qed.
  Lemma lists_index_ops c : index fo c (import_value fo lists_path) (VStr (b "ops")) = Ok lops_v.
  Proof. destruct c. vm_compute. reflexivity. Qed.

  Definition lops_let_body (n : nat) : expr :=
    match nth n lops_body (SExpr ENull) with SLet _ (EFunc _ bd) => bd | _ => ENull end.
  Definition lops_sj_body : expr := Eval vm_compute in lops_let_body 3.
  Definition lops_slice_body : expr := Eval vm_compute in lops_let_body 4.
  Definition lops_enum_body : expr := Eval vm_compute in lops_let_body 5.
  Definition lops_tail_body : expr := Eval vm_compute in lops_let_body 6.
  Definition lops_head_body : expr := Eval vm_compute in lops_let_body 7.
  Definition lops_rev_body : expr := Eval vm_compute in lops_let_body 8.

  (* the value of ops{list = l} *)
  Definition lops_modt (l : list value) : value := VTuple [(b "list", VList l); (b "pkg", lops_pkg); (b "this", lops_m)].
  Definition LS3 (l : list value) : scope fo :=
    [(b "len", ref_len fo l); (b "list", VList l); (b "pkg", import_value fo lists_path); (b "mod", lops_modt l)].
  Definition Vlsj l : value := VFunc [b "sep"] lops_sj_body (LS3 l).
  Definition LS4 l : scope fo := (b "str_join", Vlsj l) :: LS3 l.
  Definition Vlslice l : value := VFunc [b "start"; b "end"] lops_slice_body (LS4 l).
  Definition LS5 l : scope fo := (b "slice", Vlslice l) :: LS4 l.
  Definition Vlenum l : value := VFunc [] lops_enum_body (LS5 l).
  Definition LS6 l : scope fo := (b "enumerate", Vlenum l) :: LS5 l.
  Definition Vltail l : value := VFunc [] lops_tail_body (LS6 l).
  Definition LS7 l : scope fo := (b "tail", Vltail l) :: LS6 l.
  Definition Vlhead l : value := VFunc [] lops_head_body (LS7 l).
  Definition LS8 l : scope fo := (b "head", Vlhead l) :: LS7 l.
  Definition Vlrev l : value := VFunc [] lops_rev_body (LS8 l).
  Definition lops_tuple (l : list value) : value :=
    VTuple [(b "len", ref_len fo l); (b "str_join", Vlsj l); (b "slice", Vlslice l); (b "enumerate", Vlenum l);
            (b "tail", Vltail l); (b "head", Vlhead l); (b "reverse", Vlrev l); (b "list", VList l)].

  Lemma lops_copies c e l :
    fits (Z.of_nat (List.length l)) ->
    evals (with_self fo c (Some lops_m)) e (VList l) -> copies c lops_m [(b "list", e)] (lops_tuple l).
  Proof.
    intros Hfit He. destruct c as [s0 slf E st ord]. unfold lops_m in *.
    eapply copies_module'.
    - eapply evf_cons; [exact He|reflexivity|iv1].
    - reflexivity.
    - reflexivity.
    - unfold lops_body.
      (* the values are given FOLDED: every closure contains the scope before it, so the unfolded
         scope doubles with each statement *)
      eapply execs_let' with (v := import_value fo lists_path); [|reflexivity|reflexivity|].
      { eapply ev_dot_call; [iv1|iv1|reflexivity|]. apply Imp_Lists.pkg_calls, in_lists. }
      eapply execs_let' with (v := VList l); [dotsym|reflexivity|reflexivity|].
      eapply execs_let' with (v := ref_len fo l); [|reflexivity|reflexivity|].
      { eapply ev_dot_call; [|iv1|apply lists_index_len|apply len_calls, Hfit].
        eapply evl_cons; [dotsym|iv1]. }
      eapply execs_let' with (v := Vlsj l); [apply ev_func|reflexivity|reflexivity|].
      eapply execs_let' with (v := Vlslice l); [apply ev_func|reflexivity|reflexivity|].
      eapply execs_let' with (v := Vlenum l); [apply ev_func|reflexivity|reflexivity|].
      eapply execs_let' with (v := Vltail l); [apply ev_func|reflexivity|reflexivity|].
      eapply execs_let' with (v := Vlhead l); [apply ev_func|reflexivity|reflexivity|].
      eapply execs_let' with (v := Vlrev l); [apply ev_func|reflexivity|reflexivity|].
      apply execs_nil'.
    - unfold lops_out, lops_tuple. iv1. fld1. fld1. fld1. fld1. fld1. fld1. fld1. fld1. iv1.
  Qed.

  (* head(): the plain head of the wrapped list *)
  Lemma lops_head_calls c l :
    fits (Z.of_nat (List.length l)) -> calls c (Vlhead l) [] (ref_head fo l).
  Proof.
    intros Hfit. eapply calls_intro; [reflexivity|reflexivity|]. unfold lops_head_body.
    eapply ev_dot_call; [|iv1|apply lists_index_head|apply head_calls, Hfit].
    eapply evl_cons; [dotsym|iv1].
  Qed.
  (* tail(): the wrapper of the plain tail *)
  Lemma lops_tail_calls c l :
    fits (Z.of_nat (List.length l)) -> calls c (Vltail l) [] (lops_tuple (tl l)).
  Proof.
    intros Hfit. eapply calls_intro; [reflexivity|reflexivity|]. unfold lops_tail_body.
    eapply ev_dot_copy; [iv1|apply lists_index_ops|]. rewrite lops_v_eq. apply lops_copies.
    - apply (fits_between _ 0 (Z.of_nat (List.length l))); [apply fits_0|exact Hfit|].
      destruct l; cbn [tl List.length]; lia.
    - eapply ev_dot_call; [|iv1|apply lists_index_tail|apply tail_calls, Hfit].
      eapply evl_cons; [dotsym|iv1].
  Qed.
  (* reverse(): the wrapper (mod.this) of the plain reverse *)
  Lemma lops_reverse_calls c l :
    fits (Z.of_nat (List.length l)) -> calls c (Vlrev l) [] (lops_tuple (rev l)).
  Proof.
    intros Hfit. eapply calls_intro; [reflexivity|reflexivity|]. unfold lops_rev_body.
    eapply ev_dot_copy; [iv1|reflexivity|]. apply lops_copies.
    - rewrite rev_length. exact Hfit.
    - eapply ev_dot_call; [|iv1|apply lists_index_reverse|apply reverse_calls].
      eapply evl_cons; [dotsym|iv1].
  Qed.

  (* (import "std/lists.ucg").ops{list = arg} *)
  Definition lops_of_arg : expr := imp_inst lists_path "ops" [("list", "arg")]%string.
  Definition fld (m : expr) (name : string) : expr := EBin DOT m (ESym (b name)).

  Lemma lops_of_arg_evals E st ord l :
    fits (Z.of_nat (List.length l)) ->
    evals (ctx_gen fo E st ord [(b "arg", VList l)]) lops_of_arg (lops_tuple l).
  Proof.
    intros Hfit. unfold lops_of_arg, imp_inst, ctx_gen. cbn [map fst snd].
    eapply ev_dot_copy; [apply ev_import_std, in_lists|apply lists_index_ops|].
    rewrite lops_v_eq. apply lops_copies; [exact Hfit|iv1].
  Qed.

  Lemma lops_len_evals E st ord l : fits (Z.of_nat (List.length l)) ->
    evals (ctx_gen fo E st ord [(b "arg", VList l)]) (fld lops_of_arg "len") (ref_len fo l).
  Proof. intros Hfit. eapply ev_dot_sym; [apply lops_of_arg_evals, Hfit|reflexivity]. Qed.
  Lemma lops_list_evals E st ord l : fits (Z.of_nat (List.length l)) ->
    evals (ctx_gen fo E st ord [(b "arg", VList l)]) (fld lops_of_arg "list") (VList l).
  Proof. intros Hfit. eapply ev_dot_sym; [apply lops_of_arg_evals, Hfit|reflexivity]. Qed.
  Lemma lops_head_evals E st ord l : fits (Z.of_nat (List.length l)) ->
    evals (ctx_gen fo E st ord [(b "arg", VList l)]) (meth0 lops_of_arg "head") (ref_head fo l).
  Proof.
    intros Hfit. eapply ev_dot_call; [iv1|apply lops_of_arg_evals, Hfit|reflexivity|apply lops_head_calls, Hfit].
  Qed.
  Lemma lops_tail_evals E st ord l : fits (Z.of_nat (List.length l)) ->
    evals (ctx_gen fo E st ord [(b "arg", VList l)]) (fld (meth0 lops_of_arg "tail") "list") (ref_tail fo l).
  Proof.
    intros Hfit. eapply ev_dot_sym with (lv := lops_tuple (tl l)); [|reflexivity].
    eapply ev_dot_call; [iv1|apply lops_of_arg_evals, Hfit|reflexivity|apply lops_tail_calls, Hfit].
  Qed.
  Lemma lops_reverse_evals E st ord l : fits (Z.of_nat (List.length l)) ->
    evals (ctx_gen fo E st ord [(b "arg", VList l)]) (fld (meth0 lops_of_arg "reverse") "list") (ref_reverse fo l).
  Proof.
    intros Hfit. eapply ev_dot_sym with (lv := lops_tuple (rev l)); [|reflexivity].
    eapply ev_dot_call; [iv1|apply lops_of_arg_evals, Hfit|reflexivity|apply lops_reverse_calls, Hfit].
  Qed.

  (* the plain helpers through the import: (import "std/lists.ucg").<name>(arg) *)
  Definition llen_call : expr := imp_call lists_path "len" ["arg"]%string.
  Definition lhead_call : expr := imp_call lists_path "head" ["arg"]%string.
  Definition ltail_call : expr := imp_call lists_path "tail" ["arg"]%string.
  Definition lreverse_call : expr := imp_call lists_path "reverse" ["arg"]%string.
  Lemma llen_evals E st ord l : fits (Z.of_nat (List.length l)) ->
    evals (ctx_gen fo E st ord [(b "arg", VList l)]) llen_call (ref_len fo l).
  Proof.
    intros Hfit. unfold llen_call, imp_call, ctx_gen. cbn [map].
    eapply ev_dot_call; [ivs|apply ev_import_std, in_lists|apply lists_index_len|apply len_calls, Hfit].
  Qed.
  Lemma lhead_evals E st ord l : fits (Z.of_nat (List.length l)) ->
    evals (ctx_gen fo E st ord [(b "arg", VList l)]) lhead_call (ref_head fo l).
  Proof.
    intros Hfit. unfold lhead_call, imp_call, ctx_gen. cbn [map].
    eapply ev_dot_call; [ivs|apply ev_import_std, in_lists|apply lists_index_head|apply head_calls, Hfit].
  Qed.
  Lemma ltail_evals E st ord l : fits (Z.of_nat (List.length l)) ->
    evals (ctx_gen fo E st ord [(b "arg", VList l)]) ltail_call (ref_tail fo l).
  Proof.
    intros Hfit. unfold ltail_call, imp_call, ctx_gen. cbn [map].
    eapply ev_dot_call; [ivs|apply ev_import_std, in_lists|apply lists_index_tail|apply tail_calls, Hfit].
  Qed.
  Lemma lreverse_evals E st ord l :
    evals (ctx_gen fo E st ord [(b "arg", VList l)]) lreverse_call (ref_reverse fo l).
  Proof.
    unfold lreverse_call, imp_call, ctx_gen. cbn [map].
    eapply ev_dot_call; [ivs|apply ev_import_std, in_lists|apply lists_index_reverse|apply reverse_calls].
  Qed.

  (* the final values *)
  Theorem std_lists_ops_len : forall E st ord l, fits (Z.of_nat (List.length l)) ->
      exists f, eval f [] (ctx_gen fo E st ord [(b "arg", VList l)]) (fld lops_of_arg "len")
                = Ok (VInt (Z.of_nat (List.length l))).
  Proof. exact lops_len_evals. Qed.
  Theorem std_lists_ops_list : forall E st ord l, fits (Z.of_nat (List.length l)) ->
      exists f, eval f [] (ctx_gen fo E st ord [(b "arg", VList l)]) (fld lops_of_arg "list") = Ok (VList l).
  Proof. exact lops_list_evals. Qed.
  Theorem std_lists_ops_head : forall E st ord l, fits (Z.of_nat (List.length l)) ->
      exists f, eval f [] (ctx_gen fo E st ord [(b "arg", VList l)]) (meth0 lops_of_arg "head")
                = Ok (VList (match l with [] => [] | x :: _ => [x] end)).
  Proof. exact lops_head_evals. Qed.
  Theorem std_lists_ops_tail_list : forall E st ord l, fits (Z.of_nat (List.length l)) ->
      exists f, eval f [] (ctx_gen fo E st ord [(b "arg", VList l)]) (fld (meth0 lops_of_arg "tail") "list")
                = Ok (VList (tl l)).
  Proof. exact lops_tail_evals. Qed.
  Theorem std_lists_ops_reverse_list : forall E st ord l, fits (Z.of_nat (List.length l)) ->
      exists f, eval f [] (ctx_gen fo E st ord [(b "arg", VList l)]) (fld (meth0 lops_of_arg "reverse") "list")
                = Ok (VList (rev l)).
  Proof. exact lops_reverse_evals. Qed.

  (* the plain helpers through the import *)
  Theorem std_imp_len : forall E st ord l, fits (Z.of_nat (List.length l)) ->
      exists f, eval f [] (ctx_gen fo E st ord [(b "arg", VList l)]) llen_call = Ok (VInt (Z.of_nat (List.length l))).
  Proof. exact llen_evals. Qed.
  Theorem std_imp_head : forall E st ord l, fits (Z.of_nat (List.length l)) ->
      exists f, eval f [] (ctx_gen fo E st ord [(b "arg", VList l)]) lhead_call
                = Ok (VList (match l with [] => [] | x :: _ => [x] end)).
  Proof. exact lhead_evals. Qed.
  Theorem std_imp_tail : forall E st ord l, fits (Z.of_nat (List.length l)) ->
      exists f, eval f [] (ctx_gen fo E st ord [(b "arg", VList l)]) ltail_call = Ok (VList (tl l)).
  Proof. exact ltail_evals. Qed.
  Theorem std_imp_reverse : forall E st ord l,
      exists f, eval f [] (ctx_gen fo E st ord [(b "arg", VList l)]) lreverse_call = Ok (VList (rev l)).
  Proof. exact lreverse_evals. Qed.

  (* wrapper and plain helper return the same value *)
  Theorem std_lists_ops_len_agrees : forall E st ord l, fits (Z.of_nat (List.length l)) ->
      exists f v, eval f [] (ctx_gen fo E st ord [(b "arg", VList l)]) (fld lops_of_arg "len") = Ok v /\
                  eval f [] (ctx_gen fo E st ord [(b "arg", VList l)]) llen_call = Ok v.
  Proof.
    intros E st ord l H. destruct (agree_intro _ _ _ _ (lops_len_evals E st ord l H) (llen_evals E st ord l H)) as [f Hf].
    exists f, (ref_len fo l). exact Hf.
  Qed.
  Theorem std_lists_ops_head_agrees : forall E st ord l, fits (Z.of_nat (List.length l)) ->
      exists f v, eval f [] (ctx_gen fo E st ord [(b "arg", VList l)]) (meth0 lops_of_arg "head") = Ok v /\
                  eval f [] (ctx_gen fo E st ord [(b "arg", VList l)]) lhead_call = Ok v.
  Proof.
    intros E st ord l H. destruct (agree_intro _ _ _ _ (lops_head_evals E st ord l H) (lhead_evals E st ord l H)) as [f Hf].
    exists f, (ref_head fo l). exact Hf.
  Qed.
  Theorem std_lists_ops_tail_agrees : forall E st ord l, fits (Z.of_nat (List.length l)) ->
      exists f v, eval f [] (ctx_gen fo E st ord [(b "arg", VList l)]) (fld (meth0 lops_of_arg "tail") "list") = Ok v /\
                  eval f [] (ctx_gen fo E st ord [(b "arg", VList l)]) ltail_call = Ok v.
  Proof.
    intros E st ord l H. destruct (agree_intro _ _ _ _ (lops_tail_evals E st ord l H) (ltail_evals E st ord l H)) as [f Hf].
    exists f, (ref_tail fo l). exact Hf.
  Qed.
  Theorem std_lists_ops_reverse_agrees : forall E st ord l, fits (Z.of_nat (List.length l)) ->
      exists f v, eval f [] (ctx_gen fo E st ord [(b "arg", VList l)]) (fld (meth0 lops_of_arg "reverse") "list") = Ok v /\
                  eval f [] (ctx_gen fo E st ord [(b "arg", VList l)]) lreverse_call = Ok v.
  Proof.
    intros E st ord l H. destruct (agree_intro _ _ _ _ (lops_reverse_evals E st ord l H) (lreverse_evals E st ord l)) as [f Hf].
    exists f, (ref_reverse fo l). exact Hf.
  Qed.
End Ops.

(* expected for each: Closed under the global context *)
