(* std/lists.ucg: len, reverse, head, tail *)
From Ucg Require Import base.Bytes_Lemmas sem.Sem std.Std_Fuel std.Std_Rules std.StdSpec std.Std_Base.
From UcgGen Require Import StdLib.

Section Std.
  Variable fo : float_ops.
  Notation value := (value fo).
  Notation VInt := (VInt fo).
  Notation VStr := (VStr fo).
  Notation VBool := (VBool fo).
  Notation VNull := (VNull fo).
  Notation VList := (VList fo).
  Notation VTuple := (VTuple fo).
  Notation evals := (evals fo).
  Notation calls := (calls fo).
  Notation fits_chk := (fits_chk fo).

  (* ================= len ================= *)
  Definition len_value : value := get fo "len" (lists_scope fo).

  Lemma len_calls c l :
    fits (Z.of_nat (List.length l)) -> calls c len_value [VList l] (ref_len fo l).
  Proof.
    intros Hfit.
    let v := eval vm_compute in len_value in change len_value with v.
    eapply calls_intro; [reflexivity|reflexivity|].
    edestruct (reduce_list_inv fo) with (I := fun (pre : list value) (a : value) => a = VInt (Z.of_nat (List.length pre)))
      as (r & Hr & HI); [ | | | | |subst r; exact Hr].
    - ev1.
    - ev1.
    - ev1.
    - reflexivity.
    - intros pre v post a El ->. eexists. split.
      + eapply calls_intro; [reflexivity|reflexivity|].
        eapply ev_add; [ev1|ev1|]. cbn. apply fits_chk.
        apply (fits_between _ 0 (Z.of_nat (List.length l))); [apply fits_0|exact Hfit|].
        subst l. rewrite app_length. cbn [List.length]. lia.
      + rewrite app_length. cbn [List.length]. f_equal. lia.
  Qed.

  Theorem std_len : forall E st ord l,
      fits (Z.of_nat (List.length l)) ->
      exists f, eval fo f (ctx_gen fo E st ord ((b "arg", VList l) :: lists_scope fo)) (call1 "len")
                = Ok (VInt (Z.of_nat (List.length l))).
  Proof.
    intros E st ord l Hfit. eapply ev_call; [evs|ev1|apply len_calls, Hfit].
  Qed.

  (* ================= reverse ================= *)
  Definition reverse_value : value := get fo "reverse" (lists_scope fo).

  Lemma reverse_calls c l : calls c reverse_value [VList l] (ref_reverse fo l).
  Proof.
    let v := eval vm_compute in reverse_value in change reverse_value with v.
    eapply calls_intro; [reflexivity|reflexivity|].
    edestruct (reduce_list_inv fo) with (I := fun (pre : list value) (a : value) => a = VList (rev pre))
      as (r & Hr & HI); [ | | | | |subst r; exact Hr].
    - ev1.
    - evs.
    - ev1.
    - reflexivity.
    - intros pre v post a El ->. eexists. split.
      + eapply calls_intro; [reflexivity|reflexivity|].
        eapply ev_add; [evs|ev1|]. reflexivity.
      + rewrite rev_app_distr. reflexivity.
  Qed.

  Theorem std_reverse : forall E st ord l,
      exists f, eval fo f (ctx_gen fo E st ord ((b "arg", VList l) :: lists_scope fo)) (call1 "reverse")
                = Ok (VList (rev l)).
  Proof.
    intros E st ord l. eapply ev_call; [evs|ev1|apply reverse_calls].
  Qed.

  (* ================= head ================= *)
  Definition head_value : value := get fo "head" (lists_scope fo).

  Lemma head_calls c l :
    fits (Z.of_nat (List.length l)) -> calls c head_value [VList l] (ref_head fo l).
  Proof.
    intros Hfit.
    let v := eval vm_compute in head_value in change head_value with v.
    eapply calls_intro; [reflexivity|reflexivity|].
    match goal with |- Std_Rules.evals _ ?cc (ESelect ?ve _ _) _ =>
      assert (Hc : evals cc ve (VBool (0 <? Z.of_nat (List.length l))%Z)) end.
    { eapply ev_gt.
      + eapply ev_call; [evs|ev1|]. apply len_calls, Hfit.
      + ev1.
      + reflexivity. }
    destruct l as [|x l].
    - eapply ev_select; [exact Hc|reflexivity|]. evs.
    - eapply ev_select; [exact Hc|reflexivity|]. evs. reflexivity.
  Qed.

  Theorem std_head : forall E st ord l,
      fits (Z.of_nat (List.length l)) ->
      exists f, eval fo f (ctx_gen fo E st ord ((b "arg", VList l) :: lists_scope fo)) (call1 "head")
                = Ok (VList (match l with [] => [] | x :: _ => [x] end)).
  Proof.
    intros E st ord l Hfit. eapply ev_call; [evs|ev1|apply head_calls, Hfit].
  Qed.

  (* ================= tail ================= *)
  Definition tail_value : value := get fo "tail" (lists_scope fo).

  Definition tail_acc (pre : list value) : value :=
    VTuple [(b "count", VInt (Z.of_nat (List.length pre))); (b "tail", VList (tl pre))].

  Lemma tail_calls c l :
    fits (Z.of_nat (List.length l)) -> calls c tail_value [VList l] (ref_tail fo l).
  Proof.
    intros Hfit.
    let v := eval vm_compute in tail_value in change tail_value with v.
    eapply calls_intro; [reflexivity|reflexivity|].
    edestruct (reduce_list_inv fo) with (I := fun (pre : list value) (a : value) => a = tail_acc pre)
      as (r & Hr & HI); [ | | | | |subst r; eapply ev_dot_sym; [exact Hr|reflexivity]].
    - ev1.
    - evs. eapply evf_cons; [ev1|reflexivity|]. eapply evf_cons; [evs|reflexivity|]. ev1.
    - ev1.
    - reflexivity.
    - intros pre v post a El ->.
      assert (Hlen : (Z.of_nat (List.length pre) + 1 <= Z.of_nat (List.length l))%Z).
      { subst l. rewrite app_length. cbn [List.length]. lia. }
      destruct pre as [|x pre].
      + eexists. split.
        * eapply calls_intro; [reflexivity|reflexivity|].
          eapply ev_select.
          -- eapply ev_gt; [eapply ev_dot_sym; [ev1|reflexivity]|ev1|reflexivity].
          -- reflexivity.
          -- eapply ev_copy; [ev1|]. eapply copies_tuple.
             ++ eapply evf_cons; [ev1|reflexivity|]. eapply evf_cons; [evs|reflexivity|]. ev1.
             ++ reflexivity.
        * reflexivity.
      + eexists. split.
        * eapply calls_intro; [reflexivity|reflexivity|].
          eapply ev_select.
          -- eapply ev_gt; [eapply ev_dot_sym; [ev1|reflexivity]|ev1|reflexivity].
          -- reflexivity.
          -- eapply ev_copy; [ev1|]. eapply copies_tuple.
             ++ eapply evf_cons; [|reflexivity|].
                { eapply ev_add; [eapply ev_dot_sym; [ev1|reflexivity]|ev1|].
                  cbn [arith' arith]. apply fits_chk.
                  apply (fits_between _ 0 (Z.of_nat (List.length l))); [apply fits_0|exact Hfit|]. lia. }
                eapply evf_cons; [|reflexivity|].
                { eapply ev_add; [eapply ev_dot_sym; [ev1|reflexivity]|evs|]. reflexivity. }
                ev1.
             ++ reflexivity.
        * unfold tail_acc. rewrite app_length. cbn [List.length tl app]. repeat f_equal. lia.
  Qed.

  Theorem std_tail : forall E st ord l,
      fits (Z.of_nat (List.length l)) ->
      exists f, eval fo f (ctx_gen fo E st ord ((b "arg", VList l) :: lists_scope fo)) (call1 "tail")
                = Ok (VList (tl l)).
  Proof.
    intros E st ord l Hfit. eapply ev_call; [evs|ev1|apply tail_calls, Hfit].
  Qed.

End Std.
