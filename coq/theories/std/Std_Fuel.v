(* Fuel monotonicity of the definitional semantics (sem/Sem.v).
   [le_res r r'] : if [r] is a definite answer (anything but [Fuel]) then [r'] is the same answer.
   Main results: [eval_le], [copy_into_le], [exec_list_le] (all three mutually), and the
   corollaries [eval_fuel_mono], [eval_fuel_mono_err], [copy_into_fuel_mono], [exec_list_fuel_mono]. *)
From Ucg Require Import base.Bytes_Lemmas sem.Sem.

Definition le_res {A} (r r' : res A) : Prop := r <> Fuel -> r' = r.

Lemma le_res_refl {A} (r : res A) : le_res r r.
Proof. intros _; reflexivity. Qed.

Lemma le_res_fuel {A} (r' : res A) : le_res Fuel r'.
Proof. intros H; congruence. Qed.

Lemma le_res_bind {A B} (r r' : res A) (k k' : A -> res B) :
  le_res r r' -> (forall a, le_res (k a) (k' a)) -> le_res (bind r k) (bind r' k').
Proof.
  intros H1 H2 Hn. destruct r as [a| | |]; cbn in *.
  - rewrite H1 by discriminate. cbn. apply H2, Hn.
  - rewrite H1 by discriminate. reflexivity.
  - rewrite H1 by discriminate. reflexivity.
  - congruence.
Qed.

Lemma le_res_mapM {A B} (g g' : A -> res B) (l : list A) :
  (forall a, le_res (g a) (g' a)) -> le_res (mapM g l) (mapM g' l).
Proof.
  intros H. induction l as [|a l IH]; cbn.
  - apply le_res_refl.
  - apply le_res_bind; [apply H|]. intros x. apply le_res_bind; [exact IH|]. intros; apply le_res_refl.
Qed.

Lemma le_res_fold {A B} (g g' : res A -> B -> res A) (l : list B) :
  (forall a a' x, le_res a a' -> le_res (g a x) (g' a' x)) ->
  forall a a', le_res a a' -> le_res (fold_left g l a) (fold_left g' l a').
Proof.
  intros H. induction l as [|x l IH]; intros a a' Ha; cbn.
  - exact Ha.
  - apply IH, H, Ha.
Qed.

Lemma le_res_ok {A} (r r' : res A) a : le_res r r' -> r = Ok a -> r' = Ok a.
Proof. intros H E. rewrite H; [exact E|]. rewrite E; discriminate. Qed.

Ltac le_step IH :=
  first
  [ apply le_res_refl
  | apply IH
  | apply le_res_bind; [ | intros ? ]
  | apply le_res_mapM; intros ?
  | match goal with |- le_res (match ?x with _ => _ end) (match ?x with _ => _ end) => destruct x end
  | match goal with |- le_res (if ?x then _ else _) (if ?x then _ else _) => destruct x end
  ].

Section Fuel.
  Variable fo : float_ops.
  Notation value := (value fo).
  Notation ctx := (ctx fo).
  Notation eval := (eval fo).
  Notation copy_into := (copy_into fo).
  Notation exec_list := (exec_list fo).
  Notation veq := (veq fo).
  Notation render := (render fo).

  Lemma veq_le o : forall f f' a b', f <= f' -> le_res (veq o f a b') (veq o f' a b').
  Proof.
    induction f as [|f IH]; intros f' a b' Hle; [apply le_res_fuel|].
    destruct f' as [|f']; [lia|]. assert (Hf : f <= f') by lia.
    assert (IH' : forall a b', le_res (veq o f a b') (veq o f' a b')) by (intros; apply IH; exact Hf).
    clear IH Hle Hf.
    destruct a, b'; simpl; try apply le_res_refl.
    - (* lists *)
      revert l0. induction l as [|v x IHx]; intros [|w y]; try apply le_res_refl.
      apply le_res_bind; [apply IH'|]. intros [|]; [apply IHx|apply le_res_refl].
    - (* tuples *)
      destruct (negb (length fs =? length fs0)); [apply le_res_refl|].
      destruct o.
      + revert fs0. induction fs as [|[k v] x IHx]; intros [|[k' w] y]; try apply le_res_refl.
        destruct (bytes_eqb k k'); [|apply le_res_refl].
        apply le_res_bind; [apply IH'|]. intros [|]; [apply IHx|apply le_res_refl].
      + induction fs as [|[k v] x IHx]; [apply le_res_refl|].
        apply le_res_bind.
        * clear IHx.
          match goal with |- le_res (?F fs0 false) (?G fs0 false) =>
            assert (Hfd : forall fd, le_res (F fs0 fd) (G fs0 fd)); [|apply Hfd] end.
          induction fs0 as [|[k' w] y IHy]; intros found; [apply le_res_refl|].
          destruct (bytes_eqb k k'); [|apply IHy].
          apply le_res_bind; [apply IH'|]. intros [|]; [apply IHy|apply le_res_refl].
        * intros [|]; [apply IHx|apply le_res_refl].
  Qed.

  Lemma render_le : forall f f' v, f <= f' -> le_res (render f v) (render f' v).
  Proof.
    induction f as [|f IH]; intros f' v Hle; [apply le_res_fuel|].
    destruct f' as [|f']; [lia|]. assert (Hf : f <= f') by lia.
    assert (IH' : forall v, le_res (render f v) (render f' v)) by (intros; apply IH; exact Hf).
    clear IH Hle Hf.
    destruct v; simpl; try apply le_res_refl.
    - apply le_res_bind; [|intros; apply le_res_refl].
      induction l as [|v l IHl]; [apply le_res_refl|].
      apply le_res_bind; [apply IH'|]. intros t. apply le_res_bind; [apply IHl|]. intros; apply le_res_refl.
    - apply le_res_bind; [|intros; apply le_res_refl].
      induction fs as [|[k v] l IHl]; [apply le_res_refl|].
      apply le_res_bind; [apply IH'|]. intros t. apply le_res_bind; [apply IHl|]. intros; apply le_res_refl.
  Qed.

  Definition mono_at (f : nat) : Prop :=
    (forall f' c e, f <= f' -> le_res (eval f c e) (eval f' c e)) /\
    (forall f' c tv fs, f <= f' -> le_res (copy_into f c tv fs) (copy_into f' c tv fs)) /\
    (forall f' c ss, f <= f' -> le_res (exec_list f c ss) (exec_list f' c ss)).

  (* the tuple-literal / override-field loop *)
  Lemma fields_le f f' :
    (forall c e, le_res (eval f c e) (eval f' c e)) ->
    forall c fs a a', le_res a a' ->
    le_res (fold_left (fun acc '(k, e) => do a <- acc; do v <- eval f c e; merge_field fo a k v) fs a)
           (fold_left (fun acc '(k, e) => do a <- acc; do v <- eval f' c e; merge_field fo a k v) fs a').
  Proof.
    intros IH c fs. apply le_res_fold. intros a a' [k e] Ha.
    apply le_res_bind; [exact Ha|]. intros x. apply le_res_bind; [apply IH|]. intros; apply le_res_refl.
  Qed.

  Lemma call_le f f' (c : ctx) :
    (forall c e, le_res (eval f c e) (eval f' c e)) ->
    forall (fv : value) (args : list value),
    le_res (match fv with
            | VFunc _ ps body clo =>
              if negb (Nat.eqb (List.length ps) (List.length args)) then Err
              else do s <- bind_params fo ps args clo;
                   eval f {| sc := s; self_v := None; envt := envt fo c; strict := strict fo c; eq_ordered := eq_ordered fo c |} body
            | _ => Err end)
           (match fv with
            | VFunc _ ps body clo =>
              if negb (Nat.eqb (List.length ps) (List.length args)) then Err
              else do s <- bind_params fo ps args clo;
                   eval f' {| sc := s; self_v := None; envt := envt fo c; strict := strict fo c; eq_ordered := eq_ordered fo c |} body
            | _ => Err end).
  Proof.
    intros IH fv args. destruct fv; try apply le_res_refl.
    destruct (negb _); [apply le_res_refl|]. apply le_res_bind; [apply le_res_refl|]. intros; apply IH.
  Qed.

  Lemma mono_all : forall f, mono_at f.
  Proof.
    induction f as [|f IH].
    { repeat split; intros; apply le_res_fuel. }
    destruct IH as (IHe & IHc & IHx).
    assert (Step : forall f', f <= f' ->
              (forall c e, le_res (eval (S f) c e) (eval (S f') c e)) /\
              (forall c tv fs, le_res (copy_into (S f) c tv fs) (copy_into (S f') c tv fs)) /\
              (forall c ss, le_res (exec_list (S f) c ss) (exec_list (S f') c ss))).
    { intros f' Hf.
      assert (He : forall c e, le_res (eval f c e) (eval f' c e)) by (intros; apply IHe; exact Hf).
      assert (Hc : forall c tv fs, le_res (copy_into f c tv fs) (copy_into f' c tv fs)) by (intros; apply IHc; exact Hf).
      assert (Hx : forall c ss, le_res (exec_list f c ss) (exec_list f' c ss)) by (intros; apply IHx; exact Hf).
      assert (Hv : forall o a b', le_res (veq o f a b') (veq o f' a b')) by (intros; apply veq_le; exact Hf).
      assert (Hr : forall v, le_res (render f v) (render f' v)) by (intros; apply render_le; exact Hf).
      assert (Hfl := fields_le f f' He).
      assert (Hcall := fun c => call_le f f' c He).
      clear IHe IHc IHx Hf.
      split; [|split].
      - (* eval *)
        intros c e. destruct e.
        all: simpl.
        all: repeat first [ apply Hv | apply Hr | apply Hc | apply Hx | apply Hcall | (apply Hfl; apply le_res_refl) | le_step He ].
        + (* IN over a list *)
          induction l as [|v rest IHl]; [apply le_res_refl|].
          apply le_res_bind; [apply Hv|]. intros [|]; [apply le_res_refl|apply IHl].
        + (* EFormatL *)
          revert args. induction parts as [|p ps IHp]; intros args; [apply le_res_refl|].
          destruct p as [s0| |pe]; [| |apply le_res_refl].
          * apply le_res_bind; [apply IHp|]. intros; apply le_res_refl.
          * destruct args as [|a es']; [apply le_res_refl|].
            apply le_res_bind; [apply IHp|]. intros r.
            apply le_res_bind; [apply He|]. intros v.
            apply le_res_bind; [apply Hr|]. intros; apply le_res_refl.
        + (* EFormatS *)
          induction parts as [|p ps IHp]; [apply le_res_refl|].
          destruct p as [s0| |pe]; [|apply le_res_refl|].
          * apply le_res_bind; [apply IHp|]. intros; apply le_res_refl.
          * apply le_res_bind; [apply IHp|]. intros r.
            apply le_res_bind; [apply He|]. intros v.
            apply le_res_bind; [apply Hr|]. intros; apply le_res_refl.
        + (* EMap over a tuple *)
          induction fs as [|[k v] fs' IHfs]; [apply le_res_refl|].
          apply le_res_bind.
          * apply le_res_bind; [apply le_res_refl|]. intros; apply He.
          * intros out. destruct out; try apply IHfs.
            destruct l as [|x1 l]; [apply le_res_refl|].
            destruct x1; try apply le_res_refl.
            destruct l as [|x2 l]; [apply le_res_refl|].
            destruct l as [|x3 l]; [|apply le_res_refl].
            apply le_res_bind; [apply IHfs|]. intros; apply le_res_refl.
        + apply le_res_fold; [|apply le_res_refl]. intros a1 a1' x Ha.
          apply le_res_bind; [exact Ha|]. intros a'. apply le_res_bind; [apply le_res_refl|]. intros; apply He.
        + apply le_res_fold; [|apply le_res_refl]. intros a1 a1' x Ha.
          apply le_res_bind; [exact Ha|]. intros a'. apply le_res_bind; [apply le_res_refl|]. intros; apply He.
        + apply le_res_fold; [|apply le_res_refl]. intros a1 a1' [k v] Ha.
          apply le_res_bind; [exact Ha|]. intros a'. apply le_res_bind; [apply le_res_refl|]. intros; apply He.
      - (* copy_into *)
        intros c tv fs. simpl.
        apply le_res_bind; [apply Hfl; apply le_res_refl|]. intros ovs.
        repeat first [ apply Hx | le_step He ].
      - (* exec_list *)
        intros c ss. simpl.
        repeat first [ apply Hx | le_step He ].
    }
    repeat split; intros f' *; intros Hle; (destruct f' as [|f']; [lia|]); apply Step; lia.
  Qed.

  Theorem eval_le f f' c e : f <= f' -> le_res (eval f c e) (eval f' c e).
  Proof. apply (mono_all f). Qed.
  Theorem copy_into_le f f' c tv fs : f <= f' -> le_res (copy_into f c tv fs) (copy_into f' c tv fs).
  Proof. apply (mono_all f). Qed.
  Theorem exec_list_le f f' c ss : f <= f' -> le_res (exec_list f c ss) (exec_list f' c ss).
  Proof. apply (mono_all f). Qed.

  (* the form asked for: a successful evaluation stays the same with more fuel *)
  Theorem eval_fuel_mono f f' c e v : eval f c e = Ok v -> f <= f' -> eval f' c e = Ok v.
  Proof. intros H Hle. exact (le_res_ok _ _ _ (eval_le f f' c e Hle) H). Qed.

  (* ... and so does a failed one (build error) and an out-of-fragment one *)
  Theorem eval_fuel_mono_err f f' c e : eval f c e = Err -> f <= f' -> eval f' c e = Err.
  Proof. intros H Hle. rewrite (eval_le f f' c e Hle); [exact H|]. rewrite H; discriminate. Qed.
  Theorem eval_fuel_mono_unsup f f' c e : eval f c e = Unsup -> f <= f' -> eval f' c e = Unsup.
  Proof. intros H Hle. rewrite (eval_le f f' c e Hle); [exact H|]. rewrite H; discriminate. Qed.

  Theorem copy_into_fuel_mono f f' c tv fs v : copy_into f c tv fs = Ok v -> f <= f' -> copy_into f' c tv fs = Ok v.
  Proof. intros H Hle. exact (le_res_ok _ _ _ (copy_into_le f f' c tv fs Hle) H). Qed.
  Theorem exec_list_fuel_mono f f' c ss s : exec_list f c ss = Ok s -> f <= f' -> exec_list f' c ss = Ok s.
  Proof. intros H Hle. exact (le_res_ok _ _ _ (exec_list_le f f' c ss Hle) H). Qed.

  Theorem render_fuel_mono f f' v t : render f v = Ok t -> f <= f' -> render f' v = Ok t.
  Proof. intros H Hle. exact (le_res_ok _ _ _ (render_le f f' v Hle) H). Qed.
  Theorem veq_fuel_mono o f f' a b' r : veq o f a b' = Ok r -> f <= f' -> veq o f' a b' = Ok r.
  Proof. intros H Hle. exact (le_res_ok _ _ _ (veq_le o f f' a b' Hle) H). Qed.
End Fuel.
