(* The std-library helpers compute their reference definitions (StdSpec.v), for all argument
   values, under the definitional semantics sem/Sem.v.  Every statement is about the GENERATED
   library terms of gen/StdLib.v (the scopes [lists_scope], [tuples_scope], [schema_scope] are what
   running those programs leaves bound).

   Layout:  Std_Fuel.v      eval_fuel_mono (+ Err/Unsup forms, copy_into, exec_list, render, veq)
            Std_Rules.v     big-step rules, reduce_list_is_fold, reduce_tuple_is_fold, filter, format
            Std_Base.v      tactics, the library programs run
            Std_Lists.v     len reverse head tail
            Std_Enumerate.v enumerate (+ the overflow finding)
            Std_Join.v      str_join
            Std_Tuples.v    fields values iter strip_nulls
            Std_Schema.v    base_type_of
   This file: corollaries about compositions, and the list of headline theorems. *)
From Ucg Require Import base.Bytes_Lemmas sem.Sem.
From Ucg Require Export std.Std_Fuel std.Std_Rules std.StdSpec std.Std_Base
     std.Std_Lists std.Std_Enumerate std.Std_Join std.Std_Tuples std.Std_Schema.
From UcgGen Require Import StdLib.

Section Cor.
  Variable fo : float_ops.
  Notation value := (value fo).
  Notation VInt := (VInt fo).
  Notation VList := (VList fo).

  Lemma evals_eq c e (v v' : value) : evals fo c e v -> v = v' -> evals fo c e v'.
  Proof. intros H <-. exact H. Qed.

  (* reverse(reverse(arg)) == arg *)
  Corollary std_reverse_involutive : forall E st ord (l : list value),
      exists f, eval fo f (ctx_gen fo E st ord ((b "arg", VList l) :: lists_scope fo))
                     (ECall (ESym (b "reverse")) [call1 "reverse"])
                = Ok (VList l).
  Proof.
    intros E st ord l. eapply evals_eq.
    - eapply ev_call; [|ev1|apply reverse_calls].
      eapply evl_cons; [|ev1].
      eapply ev_call; [evs|ev1|apply reverse_calls].
    - unfold ref_reverse. rewrite rev_involutive. reflexivity.
  Qed.

  (* len(reverse(arg)) == len(arg) *)
  Corollary std_reverse_length : forall E st ord (l : list value),
      fits (Z.of_nat (List.length l)) ->
      exists f, eval fo f (ctx_gen fo E st ord ((b "arg", VList l) :: lists_scope fo))
                     (ECall (ESym (b "len")) [call1 "reverse"])
                = Ok (VInt (Z.of_nat (List.length l))).
  Proof.
    intros E st ord l Hfit. eapply evals_eq.
    - eapply ev_call; [|ev1|apply len_calls; rewrite rev_length; exact Hfit].
      eapply evl_cons; [|ev1].
      eapply ev_call; [evs|ev1|apply reverse_calls].
    - unfold ref_len. rewrite rev_length. reflexivity.
  Qed.

  (* head(arg) + tail(arg) == arg *)
  Corollary std_head_tail : forall E st ord (l : list value),
      fits (Z.of_nat (List.length l)) ->
      exists f, eval fo f (ctx_gen fo E st ord ((b "arg", VList l) :: lists_scope fo))
                     (EBin Add (call1 "head") (call1 "tail"))
                = Ok (VList l).
  Proof.
    intros E st ord l Hfit.
    eapply ev_add.
    - eapply ev_call; [evs|ev1|apply head_calls, Hfit].
    - eapply ev_call; [evs|ev1|apply tail_calls, Hfit].
    - destruct l; reflexivity.
  Qed.
End Cor.
