(* GENERATED from Std_Rules.v by validate/mk_rules_imp.py (same statements and proofs, the evaluator is
   [eval_imp fo imports] at an arbitrary import stack [stk]); the rules specific to imports and the
   extra operators needed by the second-round helpers are in Std_Rules_Imp2.v.
   Big-step introduction rules for the fuel-indexed evaluator of std/Sem_Import.v, derived from its
   unfolding equations and fuel monotonicity (Std_Fuel.v).  [evals c e v] = "there is fuel with
   which e evaluates to v".  Key lemma: [reduce_list_is_fold]. *)
From Ucg Require Import base.Bytes_Lemmas sem.Sem std.Std_Fuel std.Sem_Import std.Sem_Import_Lemmas.

Section Rules.
  Variable fo : float_ops.
  Variable imports : bytes -> option prog.
  Variable stk : list bytes.
  Notation value := (value fo).
  Notation scope := (scope fo).
  Notation ctx := (ctx fo).
  Notation eval := (eval_imp fo imports).
  Notation copy_into := (copy_imp fo imports).
  Notation exec_list := (exec_imp fo imports).
  Notation veq := (veq fo).
  Notation render := (render fo).
  Notation lookup := (lookup fo).
  Notation VInt := (VInt fo).
  Notation VStr := (VStr fo).
  Notation VBool := (VBool fo).
  Notation VNull := (VNull fo).
  Notation VList := (VList fo).
  Notation VTuple := (VTuple fo).
  Notation VFunc := (VFunc fo).
  Notation VModule := (VModule fo).

  (* ------------------------------------------------------------------ *)
  (* standalone copies of the local helpers of [eval]                    *)

  (* the context a function body runs in *)
  Definition fctx (c : ctx) (s : scope) : ctx :=
    {| sc := s; self_v := None; envt := envt fo c; strict := strict fo c; eq_ordered := eq_ordered fo c |}.

  (* the semantic call: [call] of Sem.eval *)
  Definition call_v (f : nat) (c : ctx) (fv : value) (args : list value) : res value :=
    match fv with
    | Sem.VFunc _ ps body clo =>
      if negb (Nat.eqb (List.length ps) (List.length args)) then Err
      else do s <- bind_params fo ps args clo; eval f stk (fctx c s) body
    | _ => Err
    end.

  (* tuple literal / override fields loop *)
  Definition fields_v (f : nat) (c : ctx) (fs : list (bytes * expr)) (a : res (list (bytes * value)))
    : res (list (bytes * value)) :=
    fold_left (fun acc '(k, e) => do a <- acc; do v <- eval f stk c e; merge_field fo a k v) fs a.

  Definition reduce_v (f : nat) (c : ctx) (fv acc tv : value) : res value :=
    match fv with
    | Sem.VFunc _ ps _ _ =>
      match tv with
      | Sem.VList _ l => if negb (Nat.eqb (List.length ps) 2) then Err
                   else fold_left (fun a v => do a' <- a; call_v f c fv [a'; v]) l (Ok acc)
      | Sem.VTuple _ fs => if negb (Nat.eqb (List.length ps) 3) then Err
                     else fold_left (fun a '(k, v) => do a' <- a; call_v f c fv [a'; VStr k; v]) fs (Ok acc)
      | Sem.VStr _ s => if negb (Nat.eqb (List.length ps) 2) then Err
                  else fold_left (fun a ch => do a' <- a; call_v f c fv [a'; VStr ch]) (utf8_chars s) (Ok acc)
      | _ => Err
      end
    | _ => Err
    end.

  Definition keep_v (o : value) : bool := match o with Sem.VNull _ | Sem.VBool _ false => false | _ => true end.

  Definition select_key (v : value) : option bytes :=
    match v with
    | Sem.VStr _ s => Some s
    | Sem.VBool _ true => Some (b "true")
    | Sem.VBool _ false => Some (b "false")
    | _ => None
    end.
  Fixpoint find_arm (k : bytes) (arms : list (bytes * expr)) : option expr :=
    match arms with
    | [] => None
    | (k', ae) :: arms' => if bytes_eqb k k' then Some ae else find_arm k arms'
    end.
  (* the expression a select evaluates: the arm that matches, else the default *)
  Definition select_pick (v : value) (dflt : option expr) (arms : list (bytes * expr)) : option expr :=
    match (match select_key v with Some k => find_arm k arms | None => None end) with
    | Some ae => Some ae
    | None => dflt
    end.

  (* the context of a module body *)
  Definition mctx (c : ctx) (tv : value) (flds : list (bytes * value)) : ctx :=
    {| sc := [(b "mod", VTuple flds)]; self_v := Some tv; envt := envt fo c;
       strict := strict fo c; eq_ordered := eq_ordered fo c |}.

  (* ------------------------------------------------------------------ *)
  (* unfolding equations (all by computation)                            *)

  Lemma eval_S_sym f c x :
    eval (S f) stk c (ESym x) =
    if bytes_eqb x (b "self") then match self_v fo c with Some v => Ok v | None => Err end
    else match lookup x (sc fo c) with
         | Some v => Ok v
         | None => if bytes_eqb x (b "env") then Ok (env_tuple fo c) else Err
         end.
  Proof. reflexivity. Qed.

  Lemma eval_S_tuple f c fs : eval (S f) stk c (ETuple fs) = do r <- fields_v f c fs (Ok []); Ok (VTuple r).
  Proof. reflexivity. Qed.
  Lemma eval_S_list f c es : eval (S f) stk c (EList es) = do r <- mapM (eval f stk c) es; Ok (VList r).
  Proof. reflexivity. Qed.
  Lemma eval_S_group f c e : eval (S f) stk c (EGroup e) = eval f stk c e.
  Proof. reflexivity. Qed.
  Lemma eval_S_add f c l r :
    eval (S f) stk c (EBin Add l r) = do rv <- eval f stk c r; do lv <- eval f stk c l; arith' fo Add lv rv.
  Proof. reflexivity. Qed.
  Lemma eval_S_gt f c l r :
    eval (S f) stk c (EBin GT l r) = do rv <- eval f stk c r; do lv <- eval f stk c l; compare_num fo GT lv rv.
  Proof. reflexivity. Qed.
  Lemma eval_S_dot_sym f c l k :
    eval (S f) stk c (EBin DOT l (ESym k)) = do lv <- eval f stk c l; index fo c lv (VStr k).
  Proof. reflexivity. Qed.
  Lemma eval_S_dot_int f c l k :
    eval (S f) stk c (EBin DOT l (EInt k)) = do lv <- eval f stk c l; do kv <- eval f stk c (EInt k); index fo c lv kv.
  Proof. reflexivity. Qed.
  Lemma eval_S_is f c l r :
    eval (S f) stk c (EBin IS l r) =
    do tv <- eval f stk c r; do lv <- eval f stk c l;
    match tv with
    | Sem.VStr _ t => Ok (VBool (bytes_eqb (is_name fo lv) t))
    | Sem.VNull _ => Ok (VBool false)
    | _ => Err
    end.
  Proof. reflexivity. Qed.
  Lemma eval_S_neq f c l r :
    eval (S f) stk c (EBin NotEqual l r) =
    do rv <- eval f stk c r; do lv <- eval f stk c l;
    if compatible fo lv rv then do q <- veq (eq_ordered fo c) f lv rv; Ok (VBool (negb q)) else Err.
  Proof. reflexivity. Qed.
  Lemma eval_S_eq f c l r :
    eval (S f) stk c (EBin Equal l r) =
    do rv <- eval f stk c r; do lv <- eval f stk c l;
    if compatible fo lv rv then do q <- veq (eq_ordered fo c) f lv rv; Ok (VBool q) else Err.
  Proof. reflexivity. Qed.
  Lemma eval_S_call f c fe args :
    eval (S f) stk c (ECall fe args) = do avs <- mapM (eval f stk c) args; do fv <- eval f stk c fe; call_v f c fv avs.
  Proof. reflexivity. Qed.
  Lemma eval_S_copy f c t fs : eval (S f) stk c (ECopy t fs) = do tv <- eval f stk c t; copy_into f stk c tv fs.
  Proof. reflexivity. Qed.
  Lemma eval_S_func f c ps body : eval (S f) stk c (EFunc ps body) = Ok (VFunc ps body (sc fo c)).
  Proof. reflexivity. Qed.
  Lemma eval_S_select f c ve dflt arms :
    eval (S f) stk c (ESelect ve dflt arms) =
    do v <- eval f stk c ve; match select_pick v dflt arms with Some e' => eval f stk c e' | None => Err end.
  Proof.
    simpl. destruct (eval f stk c ve) as [v| | |]; try reflexivity. cbn [bind].
    unfold select_pick.
    assert (E : forall k, (fix find (arms : list (bytes * expr)) : option expr :=
                   match arms with
                   | [] => None
                   | (k', ae) :: arms' => if bytes_eqb k k' then Some ae else find arms'
                   end) arms = find_arm k arms).
    { intros k. induction arms as [|[k' ae] arms IH]; [reflexivity|]. cbn. rewrite IH. reflexivity. }
    destruct v; cbn; try (destruct v); rewrite ?E;
      repeat match goal with |- context[match ?x with _ => _ end] => destruct x end; reflexivity.
  Qed.
  Lemma eval_S_reduce f c fe ae te :
    eval (S f) stk c (EReduce fe ae te) =
    do fv <- eval f stk c fe; do acc <- eval f stk c ae; do tv <- eval f stk c te; reduce_v f c fv acc tv.
  Proof. reflexivity. Qed.
  Lemma eval_S_filter_tuple f c fe te ps body clo fs :
    eval f stk c fe = Ok (VFunc ps body clo) -> eval f stk c te = Ok (VTuple fs) -> List.length ps = 2 ->
    eval (S f) stk c (EFilter fe te) =
    do r <- mapM (fun '(k, v) => do o <- call_v f c (VFunc ps body clo) [VStr k; v]; Ok (keep_v o, (k, v))) fs;
    Ok (VTuple (map snd (filter fst r))).
  Proof.
    intros H1 H2 H3. simpl. rewrite H1, H2. cbn [bind]. rewrite H3. reflexivity.
  Qed.

  Lemma copy_into_S_tuple f c base fs :
    copy_into (S f) stk c (VTuple base) fs =
    do ovs <- fields_v f (with_self fo c (Some (VTuple base))) fs (Ok []);
    do r <- merge_fields fo base ovs; Ok (VTuple r).
  Proof. reflexivity. Qed.
  Lemma copy_into_S_module f c ps out body fs :
    copy_into (S f) stk c (VModule ps out body) fs =
    let tv := VModule ps out body in
    do ovs <- fields_v f (with_self fo c (Some tv)) fs (Ok []);
    do flds <- merge_fields fo ps ovs;
    do flds <- merge_field fo flds (b "this") tv;
    do s <- exec_list f stk (mctx c tv flds) body;
    match out with
    | Some oe => eval f stk (with_scope fo (mctx c tv flds) s) oe
    | None => Ok (VTuple (export_scope fo s true))
    end.
  Proof. reflexivity. Qed.

  Lemma exec_list_S_nil f c : exec_list (S f) stk c [] = Ok (sc fo c).
  Proof. reflexivity. Qed.
  Lemma exec_list_S_let f c x e ss :
    exec_list (S f) stk c (SLet x e :: ss) =
    do s1 <- (do v <- eval f stk c e;
              if is_reserved x then Err
              else match lookup x (sc fo c) with Some _ => Err | None => Ok ((x, v) :: sc fo c) end);
    exec_list f stk (with_scope fo c s1) ss.
  Proof. reflexivity. Qed.

  (* ------------------------------------------------------------------ *)
  (* monotonicity of the helpers                                         *)

  Lemma call_v_le f f' c fv args : f <= f' -> le_res (call_v f c fv args) (call_v f' c fv args).
  Proof.
    intros Hle. destruct fv; try apply le_res_refl. cbn.
    destruct (negb _); [apply le_res_refl|]. apply le_res_bind; [apply le_res_refl|].
    intros s. apply eval_imp_le, Hle.
  Qed.
  Lemma call_v_mono f f' c fv args v : call_v f c fv args = Ok v -> f <= f' -> call_v f' c fv args = Ok v.
  Proof. intros H Hle. exact (le_res_ok _ _ _ (call_v_le f f' c fv args Hle) H). Qed.

  Lemma fields_v_le f f' c fs a : f <= f' -> le_res (fields_v f c fs a) (fields_v f' c fs a).
  Proof.
    intros Hle. unfold fields_v. apply le_res_fold; [|apply le_res_refl].
    intros x x' [k e] Hx. apply le_res_bind; [exact Hx|]. intros y.
    apply le_res_bind; [apply eval_imp_le, Hle|]. intros; apply le_res_refl.
  Qed.
  Lemma fields_v_mono f f' c fs a r : fields_v f c fs a = Ok r -> f <= f' -> fields_v f' c fs a = Ok r.
  Proof. intros H Hle. exact (le_res_ok _ _ _ (fields_v_le f f' c fs a Hle) H). Qed.

  Lemma mapM_eval_mono f f' c es vs : mapM (eval f stk c) es = Ok vs -> f <= f' -> mapM (eval f' stk c) es = Ok vs.
  Proof.
    intros H Hle. refine (le_res_ok _ _ _ _ H). apply le_res_mapM. intros; apply eval_imp_le, Hle.
  Qed.

  (* ------------------------------------------------------------------ *)
  (* the big-step judgements                                             *)

  Definition evals (c : ctx) (e : expr) (v : value) : Prop := exists f, eval f stk c e = Ok v.
  Definition evals_list (c : ctx) (es : list expr) (vs : list value) : Prop :=
    exists f, mapM (eval f stk c) es = Ok vs.
  Definition evals_fields (c : ctx) (fs : list (bytes * expr)) (a r : list (bytes * value)) : Prop :=
    exists f, fields_v f c fs (Ok a) = Ok r.
  Definition calls (c : ctx) (fv : value) (args : list value) (v : value) : Prop :=
    exists f, call_v f c fv args = Ok v.
  Definition copies (c : ctx) (tv : value) (fs : list (bytes * expr)) (v : value) : Prop :=
    exists f, copy_into f stk c tv fs = Ok v.
  Definition execs (c : ctx) (ss : list stmt) (s : scope) : Prop := exists f, exec_list f stk c ss = Ok s.
  Definition renders (v : value) (t : bytes) : Prop := exists f, render f v = Ok t.

  Ltac up H F := first
    [ apply (fun h => eval_imp_fuel_mono fo imports _ F stk _ _ _ h) in H; [|lia]
    | apply (fun h => mapM_eval_mono _ F _ _ _ h) in H; [|lia]
    | apply (fun h => fields_v_mono _ F _ _ _ _ h) in H; [|lia]
    | apply (fun h => call_v_mono _ F _ _ _ _ h) in H; [|lia]
    | apply (fun h => copy_imp_fuel_mono fo imports _ F stk _ _ _ _ h) in H; [|lia]
    | apply (fun h => exec_imp_fuel_mono fo imports _ F stk _ _ _ h) in H; [|lia]
    | apply (fun h => render_fuel_mono fo _ F _ _ h) in H; [|lia]
    | apply (fun h => veq_fuel_mono fo _ _ F _ _ _ h) in H; [|lia] ].

  Lemma ev_null c : evals c ENull VNull. Proof. exists 1; reflexivity. Qed.
  Lemma ev_bool c v : evals c (EBool v) (VBool v). Proof. exists 1; reflexivity. Qed.
  Lemma ev_int c z : evals c (EInt z) (VInt z). Proof. exists 1; reflexivity. Qed.
  Lemma ev_str c s : evals c (EStr s) (VStr s). Proof. exists 1; reflexivity. Qed.
  Lemma ev_func c ps body : evals c (EFunc ps body) (VFunc ps body (sc fo c)).
  Proof. exists 1; reflexivity. Qed.

  Lemma ev_sym c x v :
    bytes_eqb x (b "self") = false -> lookup x (sc fo c) = Some v -> evals c (ESym x) v.
  Proof. intros H1 H2. exists 1. rewrite eval_S_sym, H1, H2. reflexivity. Qed.

  Lemma ev_group c e v : evals c e v -> evals c (EGroup e) v.
  Proof. intros [f H]. exists (S f). rewrite eval_S_group. exact H. Qed.

  Lemma evl_nil c : evals_list c [] []. Proof. exists 0; reflexivity. Qed.
  Lemma evl_cons c e es v vs : evals c e v -> evals_list c es vs -> evals_list c (e :: es) (v :: vs).
  Proof.
    intros [f1 H1] [f2 H2]. exists (Nat.max f1 f2). up H1 (Nat.max f1 f2). up H2 (Nat.max f1 f2).
    cbn. rewrite H1. cbn. rewrite H2. reflexivity.
  Qed.
  Lemma ev_list c es vs : evals_list c es vs -> evals c (EList es) (VList vs).
  Proof. intros [f H]. exists (S f). rewrite eval_S_list, H. reflexivity. Qed.

  Lemma evf_nil c a : evals_fields c [] a a. Proof. exists 0; reflexivity. Qed.
  Lemma fields_v_cons f c k e fs a :
    fields_v f c ((k, e) :: fs) (Ok a) = fields_v f c fs (do v <- eval f stk c e; merge_field fo a k v).
  Proof. reflexivity. Qed.
  Lemma evf_cons c k e fs a v a1 r :
    evals c e v -> merge_field fo a k v = Ok a1 -> evals_fields c fs a1 r ->
    evals_fields c ((k, e) :: fs) a r.
  Proof.
    intros [f1 H1] Hm [f2 H2]. exists (Nat.max f1 f2). up H1 (Nat.max f1 f2). up H2 (Nat.max f1 f2).
    rewrite fields_v_cons, H1. cbn [bind]. rewrite Hm. exact H2.
  Qed.
  Lemma ev_tuple c fs r : evals_fields c fs [] r -> evals c (ETuple fs) (VTuple r).
  Proof. intros [f H]. exists (S f). rewrite eval_S_tuple, H. reflexivity. Qed.

  Lemma ev_add c l r lv rv v :
    evals c l lv -> evals c r rv -> arith' fo Add lv rv = Ok v -> evals c (EBin Add l r) v.
  Proof.
    intros [f1 H1] [f2 H2] Ha. exists (S (Nat.max f1 f2)). up H1 (Nat.max f1 f2). up H2 (Nat.max f1 f2).
    rewrite eval_S_add, H2. cbn [bind]. rewrite H1. exact Ha.
  Qed.
  Lemma ev_gt c l r lv rv v :
    evals c l lv -> evals c r rv -> compare_num fo GT lv rv = Ok v -> evals c (EBin GT l r) v.
  Proof.
    intros [f1 H1] [f2 H2] Ha. exists (S (Nat.max f1 f2)). up H1 (Nat.max f1 f2). up H2 (Nat.max f1 f2).
    rewrite eval_S_gt, H2. cbn [bind]. rewrite H1. exact Ha.
  Qed.
  Lemma ev_dot_sym c l k lv v :
    evals c l lv -> index fo c lv (VStr k) = Ok v -> evals c (EBin DOT l (ESym k)) v.
  Proof. intros [f H] Hi. exists (S f). rewrite eval_S_dot_sym, H. exact Hi. Qed.
  Lemma ev_dot_int c l k lv v :
    evals c l lv -> index fo c lv (VInt k) = Ok v -> evals c (EBin DOT l (EInt k)) v.
  Proof.
    intros [f H] Hi. exists (S (S f)). up H (S f). rewrite eval_S_dot_int, H. exact Hi.
  Qed.
  Lemma ev_is c l r lv t :
    evals c l lv -> evals c r (VStr t) -> evals c (EBin IS l r) (VBool (bytes_eqb (is_name fo lv) t)).
  Proof.
    intros [f1 H1] [f2 H2]. exists (S (Nat.max f1 f2)). up H1 (Nat.max f1 f2). up H2 (Nat.max f1 f2).
    rewrite eval_S_is, H2. cbn [bind]. rewrite H1. reflexivity.
  Qed.
  Lemma ev_neq c l r lv rv q :
    evals c l lv -> evals c r rv -> compatible fo lv rv = true ->
    (exists f, veq (eq_ordered fo c) f lv rv = Ok q) ->
    evals c (EBin NotEqual l r) (VBool (negb q)).
  Proof.
    intros [f1 H1] [f2 H2] Hc [f3 H3]. set (F := Nat.max f1 (Nat.max f2 f3)).
    exists (S F). up H1 F. up H2 F. up H3 F.
    rewrite eval_S_neq, H2. cbn [bind]. rewrite H1. cbn [bind]. rewrite Hc, H3. reflexivity.
  Qed.

  Lemma calls_intro c ps body clo avs s v :
    List.length ps = List.length avs -> bind_params fo ps avs clo = Ok s -> evals (fctx c s) body v ->
    calls c (VFunc ps body clo) avs v.
  Proof.
    intros Hl Hb [f H]. exists f. cbn. rewrite Hl, Nat.eqb_refl. cbn. rewrite Hb. exact H.
  Qed.
  Lemma ev_call c fe args avs fv v :
    evals_list c args avs -> evals c fe fv -> calls c fv avs v -> evals c (ECall fe args) v.
  Proof.
    intros [f1 H1] [f2 H2] [f3 H3]. set (F := Nat.max f1 (Nat.max f2 f3)).
    exists (S F). up H1 F. up H2 F. up H3 F.
    rewrite eval_S_call, H1. cbn [bind]. rewrite H2. exact H3.
  Qed.
  (* calls do not look at the caller's scope or self *)
  Lemma calls_ctx c c' fv avs v :
    envt fo c = envt fo c' -> strict fo c = strict fo c' -> eq_ordered fo c = eq_ordered fo c' ->
    calls c fv avs v -> calls c' fv avs v.
  Proof.
    intros E1 E2 E3 [f H]. exists f. destruct fv; try exact H. cbn in *. unfold fctx in *.
    rewrite <- E1, <- E2, <- E3. exact H.
  Qed.

  Lemma ev_select c ve dflt arms v e' r :
    evals c ve v -> select_pick v dflt arms = Some e' -> evals c e' r -> evals c (ESelect ve dflt arms) r.
  Proof.
    intros [f1 H1] Hp [f2 H2]. exists (S (Nat.max f1 f2)). up H1 (Nat.max f1 f2). up H2 (Nat.max f1 f2).
    rewrite eval_S_select, H1. cbn [bind]. rewrite Hp. exact H2.
  Qed.

  Lemma ev_copy c t fs tv v : evals c t tv -> copies c tv fs v -> evals c (ECopy t fs) v.
  Proof.
    intros [f1 H1] [f2 H2]. exists (S (Nat.max f1 f2)). up H1 (Nat.max f1 f2). up H2 (Nat.max f1 f2).
    rewrite eval_S_copy, H1. exact H2.
  Qed.
  Lemma copies_tuple c base fs ovs r :
    evals_fields (with_self fo c (Some (VTuple base))) fs [] ovs -> merge_fields fo base ovs = Ok r ->
    copies c (VTuple base) fs (VTuple r).
  Proof.
    intros [f H] Hm. exists (S f). rewrite copy_into_S_tuple, H. cbn [bind]. rewrite Hm. reflexivity.
  Qed.
  Lemma copies_module c ps oe body fs ovs fl fl' s v :
    let tv := VModule ps (Some oe) body in
    evals_fields (with_self fo c (Some tv)) fs [] ovs ->
    merge_fields fo ps ovs = Ok fl -> merge_field fo fl (b "this") tv = Ok fl' ->
    execs (mctx c tv fl') body s ->
    evals (with_scope fo (mctx c tv fl') s) oe v ->
    copies c tv fs v.
  Proof.
    intros tv [f1 H1] Hm1 Hm2 [f2 H2] [f3 H3]. set (F := Nat.max f1 (Nat.max f2 f3)).
    exists (S F). up H1 F. up H2 F. up H3 F. unfold tv.
    rewrite copy_into_S_module. cbv zeta. fold tv. rewrite H1. cbn [bind]. rewrite Hm1. cbn [bind].
    rewrite Hm2. cbn [bind]. rewrite H2. cbn [bind]. exact H3.
  Qed.

  Lemma execs_nil c : execs c [] (sc fo c). Proof. exists 1; reflexivity. Qed.
  Lemma execs_let c x e ss v s :
    evals c e v -> is_reserved x = false -> lookup x (sc fo c) = None ->
    execs (with_scope fo c ((x, v) :: sc fo c)) ss s ->
    execs c (SLet x e :: ss) s.
  Proof.
    intros [f1 H1] Hr Hl [f2 H2]. exists (S (Nat.max f1 f2)). up H1 (Nat.max f1 f2). up H2 (Nat.max f1 f2).
    rewrite exec_list_S_let, H1. cbn [bind]. rewrite Hr, Hl. cbn [bind]. exact H2.
  Qed.

  (* ------------------------------------------------------------------ *)
  (* reduce                                                              *)

  (* the exact, fuel-indexed equation: a reduce over a list IS the fold_left of the semantic call,
     threaded through the result monad *)
  Theorem eval_reduce_list_eq f c fe ae te p1 p2 body clo acc l :
    eval f stk c fe = Ok (VFunc [p1; p2] body clo) -> eval f stk c ae = Ok acc -> eval f stk c te = Ok (VList l) ->
    eval (S f) stk c (EReduce fe ae te) =
    fold_left (fun a v => do a' <- a; call_v f c (VFunc [p1; p2] body clo) [a'; v]) l (Ok acc).
  Proof. intros H1 H2 H3. rewrite eval_S_reduce, H1, H2, H3. reflexivity. Qed.

  Theorem eval_reduce_tuple_eq f c fe ae te p1 p2 p3 body clo acc fs :
    eval f stk c fe = Ok (VFunc [p1; p2; p3] body clo) -> eval f stk c ae = Ok acc -> eval f stk c te = Ok (VTuple fs) ->
    eval (S f) stk c (EReduce fe ae te) =
    fold_left (fun a '(k, v) => do a' <- a; call_v f c (VFunc [p1; p2; p3] body clo) [a'; VStr k; v]) fs (Ok acc).
  Proof. intros H1 H2 H3. rewrite eval_S_reduce, H1, H2, H3. reflexivity. Qed.

  (* generic fold with an invariant over the processed prefix *)
  Lemma fold_calls_inv {X} (c : ctx) (fv : value) (mk : value -> X -> list value)
        (I : list X -> value -> Prop) (l : list X) :
    (forall pre x post a, l = pre ++ x :: post -> I pre a ->
                          exists a', calls c fv (mk a x) a' /\ I (pre ++ [x]) a') ->
    forall post pre a, l = pre ++ post -> I pre a ->
    exists r f, fold_left (fun a x => do a' <- a; call_v f c fv (mk a' x)) post (Ok a) = Ok r /\ I l r.
  Proof.
    intros Hstep. induction post as [|x post IH]; intros pre a El Ha.
    - exists a, 0. rewrite app_nil_r in El. subst l. split; [reflexivity|exact Ha].
    - destruct (Hstep pre x post a El Ha) as (a' & [f1 Hc] & Ha').
      destruct (IH (pre ++ [x]) a') as (r & f2 & Hf & Hr).
      { rewrite <- app_assoc. exact El. }
      { exact Ha'. }
      exists r, (Nat.max f1 f2). split; [|exact Hr].
      cbn [fold_left bind]. up Hc (Nat.max f1 f2). rewrite Hc.
      refine (le_res_ok _ _ _ _ Hf). apply le_res_fold; [|apply le_res_refl].
      intros y y' z Hy. apply le_res_bind; [exact Hy|]. intros; apply call_v_le; lia.
  Qed.

  (* reduce over a list, invariant form *)
  Theorem reduce_list_inv c fe ae te p1 p2 body clo acc l (I : list value -> value -> Prop) :
    evals c fe (VFunc [p1; p2] body clo) -> evals c ae acc -> evals c te (VList l) ->
    I [] acc ->
    (forall pre v post a, l = pre ++ v :: post -> I pre a ->
        exists a', calls c (VFunc [p1; p2] body clo) [a; v] a' /\ I (pre ++ [v]) a') ->
    exists r, evals c (EReduce fe ae te) r /\ I l r.
  Proof.
    intros [f1 H1] [f2 H2] [f3 H3] H0 Hstep.
    destruct (fold_calls_inv c (VFunc [p1; p2] body clo) (fun a v => [a; v]) I l Hstep l [] acc eq_refl H0)
      as (r & f4 & Hf & Hr).
    exists r. split; [|exact Hr].
    set (F := Nat.max (Nat.max f1 f2) (Nat.max f3 f4)). exists (S F).
    up H1 F. up H2 F. up H3 F.
    rewrite (eval_reduce_list_eq _ _ _ _ _ _ _ _ _ _ _ H1 H2 H3).
    refine (le_res_ok _ _ _ _ Hf). apply le_res_fold; [|apply le_res_refl].
    intros y y' z Hy. apply le_res_bind; [exact Hy|]. intros; apply call_v_le; lia.
  Qed.

  (* KEY LEMMA.  If the 2-parameter closure computes [step] on every accumulator satisfying an
     invariant [I] that [step] preserves, then reduce over the list is [fold_left step]. *)
  Theorem reduce_list_is_fold c fe ae te p1 p2 body clo acc l
          (I : value -> Prop) (step : value -> value -> value) :
    evals c fe (VFunc [p1; p2] body clo) -> evals c ae acc -> evals c te (VList l) ->
    I acc ->
    (forall a v, I a -> In v l -> calls c (VFunc [p1; p2] body clo) [a; v] (step a v) /\ I (step a v)) ->
    evals c (EReduce fe ae te) (fold_left step l acc) /\ I (fold_left step l acc).
  Proof.
    intros H1 H2 H3 H0 Hstep.
    destruct (reduce_list_inv c fe ae te p1 p2 body clo acc l
                (fun pre a => a = fold_left step pre acc /\ I a) H1 H2 H3) as (r & Hr & -> & HI).
    - split; [reflexivity|exact H0].
    - intros pre v post a El [-> Ha].
      destruct (Hstep _ v Ha) as [Hc Hi]. { rewrite El. apply in_or_app. right. left. reflexivity. }
      eexists. split; [exact Hc|]. split; [|exact Hi]. rewrite fold_left_app. reflexivity.
    - split; assumption.
  Qed.

  (* reduce over a tuple (3-parameter closure), invariant form *)
  Theorem reduce_tuple_inv c fe ae te p1 p2 p3 body clo acc fs
          (I : list (bytes * value) -> value -> Prop) :
    evals c fe (VFunc [p1; p2; p3] body clo) -> evals c ae acc -> evals c te (VTuple fs) ->
    I [] acc ->
    (forall pre k v post a, fs = pre ++ (k, v) :: post -> I pre a ->
        exists a', calls c (VFunc [p1; p2; p3] body clo) [a; VStr k; v] a' /\ I (pre ++ [(k, v)]) a') ->
    exists r, evals c (EReduce fe ae te) r /\ I fs r.
  Proof.
    intros [f1 H1] [f2 H2] [f3 H3] H0 Hstep.
    destruct (fold_calls_inv c (VFunc [p1; p2; p3] body clo) (fun a (x : bytes * value) => [a; VStr (fst x); snd x])
                             I fs) with (post := fs) (pre := @nil (bytes * value)) (a := acc)
      as (r & f4 & Hf & Hr); [|reflexivity|exact H0|].
    { intros pre [k v] post a El Ha. exact (Hstep pre k v post a El Ha). }
    exists r. split; [|exact Hr].
    set (F := Nat.max (Nat.max f1 f2) (Nat.max f3 f4)). exists (S F).
    up H1 F. up H2 F. up H3 F.
    rewrite (eval_reduce_tuple_eq _ _ _ _ _ _ _ _ _ _ _ _ H1 H2 H3).
    refine (le_res_ok _ _ _ _ Hf).
    apply le_res_fold; [|apply le_res_refl].
    intros y y' [k v] Hy. apply le_res_bind; [exact Hy|]. intros; apply call_v_le; lia.
  Qed.

  (* functional form for tuples: the 3-parameter closure computes [step] under the invariant *)
  Theorem reduce_tuple_is_fold c fe ae te p1 p2 p3 body clo acc fs
          (I : value -> Prop) (step : value -> bytes -> value -> value) :
    evals c fe (VFunc [p1; p2; p3] body clo) -> evals c ae acc -> evals c te (VTuple fs) ->
    I acc ->
    (forall a k v, I a -> In (k, v) fs ->
                   calls c (VFunc [p1; p2; p3] body clo) [a; VStr k; v] (step a k v) /\ I (step a k v)) ->
    evals c (EReduce fe ae te) (fold_left (fun a kv => step a (fst kv) (snd kv)) fs acc).
  Proof.
    intros H1 H2 H3 H0 Hstep.
    destruct (reduce_tuple_inv c fe ae te p1 p2 p3 body clo acc fs
                (fun pre a => a = fold_left (fun a kv => step a (fst kv) (snd kv)) pre acc /\ I a) H1 H2 H3)
      as (r & Hr & -> & HI).
    - split; [reflexivity|exact H0].
    - intros pre k v post a El [-> Ha].
      destruct (Hstep _ k v Ha) as [Hc Hi]. { rewrite El. apply in_or_app. right. left. reflexivity. }
      eexists. split; [exact Hc|]. split; [|exact Hi]. rewrite fold_left_app. reflexivity.
    - exact Hr.
  Qed.

  (* the evals-only half of [reduce_list_is_fold], convenient with eapply *)
  Corollary reduce_list_is_fold_ev c fe ae te p1 p2 body clo acc l
          (I : value -> Prop) (step : value -> value -> value) :
    evals c fe (VFunc [p1; p2] body clo) -> evals c ae acc -> evals c te (VList l) ->
    I acc ->
    (forall a v, I a -> In v l -> calls c (VFunc [p1; p2] body clo) [a; v] (step a v) /\ I (step a v)) ->
    evals c (EReduce fe ae te) (fold_left step l acc).
  Proof. intros H1 H2 H3 H0 Hs. exact (proj1 (reduce_list_is_fold c fe ae te p1 p2 body clo acc l I step H1 H2 H3 H0 Hs)). Qed.

  (* ------------------------------------------------------------------ *)
  (* filter over a tuple                                                 *)
  Lemma ev_filter_tuple c fe te p1 p2 body clo fs (keepf : bytes -> value -> bool) :
    evals c fe (VFunc [p1; p2] body clo) -> evals c te (VTuple fs) ->
    (forall k v, In (k, v) fs ->
                 exists o, calls c (VFunc [p1; p2] body clo) [VStr k; v] o /\ keep_v o = keepf k v) ->
    evals c (EFilter fe te) (VTuple (filter (fun kv => keepf (fst kv) (snd kv)) fs)).
  Proof.
    intros [f1 H1] [f2 H2] Hk.
    assert (Hm : exists F r,
               mapM (fun '(k, v) => do o <- call_v F c (VFunc [p1; p2] body clo) [VStr k; v]; Ok (keep_v o, (k, v))) fs = Ok r
               /\ map snd (filter fst r) = filter (fun kv => keepf (fst kv) (snd kv)) fs).
    { clear H1 H2. induction fs as [|[k v] fs IH].
      - exists 0, []. split; reflexivity.
      - destruct IH as (F1 & r & Hr & Hf). { intros k' v' Hin. apply Hk. right. exact Hin. }
        destruct (Hk k v) as (o & [F2 Ho] & Hko). { left. reflexivity. }
        exists (Nat.max F1 F2), ((keep_v o, (k, v)) :: r). split.
        + cbn [mapM]. up Ho (Nat.max F1 F2). rewrite Ho. cbn [bind].
          assert (Hr' : mapM (fun '(k, v) => do o <- call_v (Nat.max F1 F2) c (VFunc [p1; p2] body clo) [VStr k; v]; Ok (keep_v o, (k, v))) fs = Ok r).
          { refine (le_res_ok _ _ _ _ Hr). apply le_res_mapM. intros [k' v'].
            apply le_res_bind; [apply call_v_le; lia|]. intros; apply le_res_refl. }
          rewrite Hr'. reflexivity.
        + cbn [filter fst snd]. rewrite Hko. destruct (keepf k v); cbn [map snd]; rewrite Hf; reflexivity. }
    destruct Hm as (F & r & Hr & Hf).
    set (G := Nat.max F (Nat.max f1 f2)). exists (S G). up H1 G. up H2 G.
    rewrite (eval_S_filter_tuple _ _ _ _ _ _ _ _ H1 H2 eq_refl).
    assert (Hr' : mapM (fun '(k, v) => do o <- call_v G c (VFunc [p1; p2] body clo) [VStr k; v]; Ok (keep_v o, (k, v))) fs = Ok r).
    { refine (le_res_ok _ _ _ _ Hr). apply le_res_mapM. intros [k' v'].
      apply le_res_bind; [apply call_v_le; lia|]. intros; apply le_res_refl. }
    rewrite Hr'. cbn [bind]. rewrite Hf. reflexivity.
  Qed.

  (* ------------------------------------------------------------------ *)
  (* list-form format strings                                            *)
  Definition fmt_go (f : nat) (c : ctx) : list tpart -> list expr -> res value :=
    fix go (ps : list tpart) (es : list expr) : res value :=
    match ps with
    | [] => Ok (VStr [])
    | PStr s :: ps' => do r <- go ps' es; match r with Sem.VStr _ t => Ok (VStr (s ++ t)) | _ => Err end
    | PHole :: ps' =>
      match es with
      | a :: es' => do r <- go ps' es'; do v <- eval f stk c a; do t <- render f v;
                    match r with Sem.VStr _ t' => Ok (VStr (t ++ t')) | _ => Err end
      | [] => Err
      end
    | PExpr _ :: _ => Err
    end.
  Definition is_hole (p : tpart) : bool := match p with PHole => true | _ => false end.

  Lemma eval_S_formatL f c parts args :
    eval (S f) stk c (EFormatL parts args) =
    if negb (Nat.eqb (List.length (filter is_hole parts)) (List.length args)) then Err
    else fmt_go f c parts args.
  Proof. reflexivity. Qed.

  (* the text a template produces from the rendered arguments *)
  Fixpoint fmt (ps : list tpart) (ts : list bytes) : option bytes :=
    match ps with
    | [] => Some []
    | PStr s :: ps' => option_map (app s) (fmt ps' ts)
    | PHole :: ps' => match ts with t :: ts' => option_map (app t) (fmt ps' ts') | [] => None end
    | PExpr _ :: _ => None
    end.

  Lemma ev_formatL c parts args ts out :
    List.length (filter is_hole parts) = List.length args ->
    Forall2 (fun a t => exists v, evals c a v /\ renders v t) args ts ->
    fmt parts ts = Some out ->
    evals c (EFormatL parts args) (VStr out).
  Proof.
    intros Hl Hargs Hfmt.
    assert (HF : exists F, Forall2 (fun a t => exists v, eval F stk c a = Ok v /\ render F v = Ok t) args ts).
    { clear Hl Hfmt. induction Hargs as [|a t args ts (v & [f1 Hv] & [f2 Ht]) _ (F & IH)].
      - exists 0. constructor.
      - set (G := Nat.max F (Nat.max f1 f2)). exists G. constructor.
        + exists v. up Hv G. up Ht G. split; assumption.
        + clear -IH. induction IH as [|a' t' args ts (v' & Hv' & Ht') _ IH']; constructor; [|exact IH'].
          exists v'. up Hv' G. up Ht' G. split; assumption. }
    destruct HF as (F & HF). exists (S F). rewrite eval_S_formatL, Hl, Nat.eqb_refl. cbn [negb].
    clear Hl Hargs. revert args ts out HF Hfmt.
    induction parts as [|p ps IH]; intros args ts out HF Hfmt.
    - cbn in *. inversion Hfmt. reflexivity.
    - destruct p as [s| |pe]; cbn [fmt fmt_go] in *.
      + destruct (fmt ps ts) as [o|] eqn:Eo; [|discriminate]. cbn in Hfmt. inversion Hfmt; subst out.
        rewrite (IH _ _ _ HF Eo). reflexivity.
      + destruct HF as [|a t args ts (v & Hv & Ht) HF]; [discriminate|].
        destruct (fmt ps ts) as [o|] eqn:Eo; [|discriminate]. cbn in Hfmt. inversion Hfmt; subst out.
        rewrite (IH _ _ _ HF Eo). cbn [bind]. rewrite Hv. cbn [bind]. rewrite Ht. reflexivity.
      + discriminate.
  Qed.
End Rules.
