(* Second round: reference definitions and call forms for the helpers that go through `import` /
   `mod.pkg()`.  Definitions only.  The helpers are reached the way a user file reaches them:
       (import "std/lists.ucg").zip{list1 = arg1, list2 = arg2}
   evaluated by [eval_imp fo std_imports] with an empty import stack, the argument VALUES bound to
   fresh names in the scope. *)
From Ucg Require Import sem.Sem std.Sem_Import std.StdSpec.

Definition lists_path : bytes := b "std/lists.ucg".
Definition tuples_path : bytes := b "std/tuples.ucg".
Definition strings_path : bytes := b "std/strings.ucg".
Definition functional_path : bytes := b "std/functional.ucg".
Definition schema_path : bytes := b "std/schema.ucg".

(* (import "<path>").name{field = argN, ...} *)
Definition imp_inst (path : bytes) (name : string) (fields : list (string * string)) : expr :=
  EBin DOT (EImport path) (ECopy (ESym (b name)) (map (fun fa => (b (fst fa), ESym (b (snd fa)))) fields)).
(* (import "<path>").name(argN, ...) *)
Definition imp_call (path : bytes) (name : string) (args : list string) : expr :=
  EBin DOT (EImport path) (ECall (ESym (b name)) (map (fun a => ESym (b a)) args)).

Section Spec.
  Variable fo : float_ops.
  Notation value := (value fo).

  (* the value of `import "<path>"` (computed; [import_*_ok] in Imp_Base.v) *)
  Definition import_value (path : bytes) : value :=
    match eval_imp fo std_imports 40 [] (ctx0 fo) (EImport path) with Ok v => v | _ => VNull fo end.
  Definition member (path : bytes) (name : string) : value :=
    match import_value path with
    | VTuple _ fs => get fo name fs
    | _ => VNull fo
    end.

  (* parts of closure / module values *)
  Definition mod_params (v : value) : list (bytes * value) := match v with VModule _ ps _ _ => ps | _ => [] end.
  Definition mod_out (v : value) : option expr := match v with VModule _ _ o _ => o | _ => None end.
  Definition mod_body (v : value) : list stmt := match v with VModule _ _ _ bd => bd | _ => [] end.
  Definition fn_params (v : value) : list bytes := match v with VFunc _ ps _ _ => ps | _ => [] end.
  Definition fn_body (v : value) : expr := match v with VFunc _ _ bd _ => bd | _ => ENull end.
  Definition fn_clo (v : value) : list (bytes * value) := match v with VFunc _ _ _ clo => clo | _ => [] end.
  (* the scope captured by the `pkg` function of a module value *)
  Definition pkg_clo (v : value) : list (bytes * value) := fn_clo (get fo "pkg" (mod_params v)).

  (* ---- lists ---- *)
  (* zip: pairs in order, truncated to the shorter list *)
  Definition ref_zip (l1 l2 : list value) : value :=
    VList fo (map (fun p => VList fo [fst p; snd p]) (combine l1 l2)).
  (* slice: the items with start <= index <= end *)
  Definition ref_slice (start stop : Z) (l : list value) : value :=
    VList fo (firstn (Z.to_nat (stop - start + 1)) (skipn (Z.to_nat start) l)).

  (* ---- strings ---- *)
  (* the characters whose index i (counted from j) satisfies a <= i <= b, concatenated *)
  Fixpoint pick (a b j : Z) (cs : list bytes) : bytes :=
    match cs with
    | [] => []
    | c :: cs' => (if Z.leb a j && Z.leb j b then c else []) ++ pick a b (j + 1) cs'
    end.

  (* split_on: scan the characters; a prefix of (number of characters of sep) characters equal to sep
     closes the current piece.  An empty separator, or an empty input, yields the single piece "". *)
  Fixpoint split_go (fuel : nat) (sep : bytes) (L : nat) (buf : bytes) (acc : list bytes) (cs : list bytes)
    : list bytes :=
    match fuel with
    | O => acc ++ [buf]
    | S f =>
      match firstn L cs with
      | [] => acc ++ [buf]
      | _ => if bytes_eqb (concat (firstn L cs)) sep then split_go f sep L [] (acc ++ [buf]) (skipn L cs)
             else match cs with
                  | c :: cs' => split_go f sep L (buf ++ c) acc cs'
                  | [] => acc ++ [buf]
                  end
      end
    end.
  Definition ref_split_on (sep s : bytes) : value :=
    VList fo (map (VStr fo) (split_go (S (List.length s)) sep (List.length (utf8_chars sep)) [] [] (utf8_chars s))).

  (* parse_int: the leading ASCII digits *)
  Definition is_digit_char (c : bytes) : bool :=
    match c with [d] => let n := N_of_ascii d in N.leb 48 n && N.leb n 57 | _ => false end.
  Fixpoint leading_digits (cs : list bytes) : bytes :=
    match cs with
    | c :: cs' => if is_digit_char c then c ++ leading_digits cs' else []
    | [] => []
    end.

  (* schema.shaped (n bounds the nesting depth): base types must agree; tuples: every field of the shape
     is present in the value with a matching shape, and every field of the value either matches the
     shape's field or -- when absent from the shape -- is allowed exactly when partial; this applies at
     every depth.  Lists: every element matches `any` of the shape list's entries (the library calls
     schema.any with ITS default partial = false there), an empty shape list accepts any list. *)
  Definition is_tuple_v (v : value) : bool := match v with VTuple _ _ => true | _ => false end.
  Definition is_list_v (v : value) : bool := match v with VList _ _ => true | _ => false end.
  Fixpoint ref_shaped (n : nat) (partial : bool) (val shape : value) : bool :=
    match n with
    | O => false
    | S n' =>
      match val with
      | VTuple _ vfs =>
        match shape with
        | VTuple _ sfs =>
          forallb (fun ks => match lookup fo (fst ks) vfs with
                             | Some vv => ref_shaped n' partial vv (snd ks)
                             | None => false end) sfs
          && forallb (fun kv => match lookup fo (fst kv) sfs with
                                | Some sv => ref_shaped n' partial (snd kv) sv
                                | None => partial end) vfs
        | _ => false
        end
      | VList _ l =>
        match shape with
        | VList _ [] => true
        | VList _ ts => forallb (fun v => existsb (fun t => ref_shaped n' false v t) ts) l
        | _ => false
        end
      | _ => bytes_eqb (is_name fo val) (is_name fo shape)
      end
    end.
  Definition ref_any (n : nat) (partial : bool) (val : value) (types : list value) : bool :=
    existsb (fun t => ref_shaped n partial val t) types.
  Definition ref_all (n : nat) (val : value) (types : list value) : bool :=
    forallb (fun t => ref_shaped n true val t) types.

  (* ---- tuples ---- *)
  Definition has_key (fs : list (bytes * value)) (v : value) : bool :=
    match v with VStr _ k => existsb (fun kv => bytes_eqb (fst kv) k) fs | _ => false end.
  Definition ref_has_fields (fs : list (bytes * value)) (fields : list value) : value :=
    VBool fo (forallb (has_key fs) fields).
  (* field_type: the field exists and its value has the named base type *)
  Definition ref_field_type (fs : list (bytes * value)) (field typ : bytes) : bool :=
    match lookup fo field fs with
    | Some v => bytes_eqb (is_name fo v) typ
    | None => false
    end.
End Spec.
