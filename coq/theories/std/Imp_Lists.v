(* std/lists.ucg through `import`: len (on lists and strings), zip, slice.
   Closure scopes are kept FOLDED (constants [*_clo]) and accessed through lookup lemmas proved by
   vm_compute: the normal forms of the linked library's closures are too large for the tactic engine. *)
From Ucg Require Import base.Bytes_Lemmas sem.Sem std.Std_Fuel std.Sem_Import std.Sem_Import_Lemmas
     std.Std_Rules_Imp std.Std_Rules_Imp2 std.StdSpec std.StdSpec_Imp std.Imp_Base.

Section Lists.
  Variable fo : float_ops.
  Notation value := (value fo).
  Notation VInt := (VInt fo).
  Notation VStr := (VStr fo).
  Notation VBool := (VBool fo).
  Notation VNull := (VNull fo).
  Notation VList := (VList fo).
  Notation VTuple := (VTuple fo).
  Notation VFunc := (VFunc fo).
  Notation VModule := (VModule fo).
  Notation evals := (evals fo std_imports []).
  Notation calls := (calls fo std_imports []).
  Notation fits_chk := (fits_chk fo).

  (* ---------------- pure facts ---------------- *)
  Definition idx_list (n : nat) : list value := map (fun i => VInt (Z.of_nat i)) (seq 0 n).

  Lemma range_from_seq : forall n a,
      (i64_min <= a)%Z -> (a + Z.of_nat n <= i64_max)%Z ->
      range_from fo n a 1 (a + Z.of_nat n - 1) = map (fun i => VInt (a + Z.of_nat i)) (seq 0 n).
  Proof.
    induction n as [|n IH]; intros a Hlo Hhi; [reflexivity|].
    cbn [range_from seq map].
    replace (a + Z.of_nat (S n) - 1 <? a)%Z with false by (symmetry; apply Z.ltb_ge; lia).
    replace (a + Z.of_nat 0)%Z with a by lia. f_equal.
    replace (in_i64 (a + 1)) with true.
    2:{ symmetry. apply (proj2 (fits_iff (a + 1))). lia. }
    replace (a + Z.of_nat (S n) - 1)%Z with ((a + 1) + Z.of_nat n - 1)%Z by lia.
    rewrite IH by lia. rewrite <- seq_shift, map_map. apply map_ext. intros i. f_equal. lia.
  Qed.
  Lemma range_len_0 n : range_len 0 1 (Z.of_nat n - 1) = Z.of_nat n.
  Proof. unfold range_len. destruct (Z.ltb_spec (Z.of_nat n - 1) 0); [lia|]. rewrite Z.div_1_r. lia. Qed.
  Lemma range_0 n : (Z.of_nat n <= i64_max)%Z ->
    range_from fo (Z.to_nat (range_len 0 1 (Z.of_nat n - 1))) 0 1 (Z.of_nat n - 1) = idx_list n.
  Proof.
    intros Hn. rewrite range_len_0, Nat2Z.id. replace (Z.of_nat n - 1)%Z with (0 + Z.of_nat n - 1)%Z by lia.
    rewrite (range_from_seq n 0); [reflexivity|unfold i64_min; lia|lia].
  Qed.

  Lemma seq_split {A} (g : nat -> A) : forall pre n a v post,
      map g (seq a n) = pre ++ v :: post -> v = g (a + List.length pre)%nat /\ (List.length pre < n)%nat.
  Proof.
    induction pre as [|x pre IH]; intros n a v post H.
    - destruct n as [|n]; [discriminate|]. cbn in H. inversion H. split; [f_equal; cbn; lia|cbn; lia].
    - destruct n as [|n]; [discriminate|]. cbn in H. inversion H as [[Hx Ht]].
      destruct (IH _ _ _ _ Ht) as [-> Hl]. split; [f_equal; cbn; lia|cbn; lia].
  Qed.

  Lemma index_list_nth c l k : (k < List.length l)%nat ->
    index fo c (VList l) (VInt (Z.of_nat k)) = Ok (nth k l VNull).
  Proof.
    intros Hk. unfold index. replace (0 <=? Z.of_nat k)%Z with true by (symmetry; apply Z.leb_le; lia).
    rewrite Nat2Z.id, (nth_error_nth' l VNull Hk). reflexivity.
  Qed.

  Lemma zip_ref_eq : forall (l1 l2 : list value),
      map (fun i => VList [nth i l1 VNull; nth i l2 VNull]) (seq 0 (Nat.min (List.length l1) (List.length l2)))
      = map (fun p => VList [fst p; snd p]) (combine l1 l2).
  Proof.
    induction l1 as [|x l1 IH]; intros [|y l2]; try reflexivity.
    cbn [List.length Nat.min seq map combine fst snd nth]. f_equal.
    rewrite <- seq_shift, map_map. cbn [nth]. apply IH.
  Qed.

  (* ---------------- the members of the imported library, folded ---------------- *)

  (* the `pkg` function of a module defined in a library file, whatever scope it captured *)
  Lemma pkg_calls c clo path :
    In path [lists_path; tuples_path; strings_path; functional_path; schema_path] ->
    calls c (VFunc [] (EImport path) clo) [] (import_value fo path).
  Proof.
    intros Hin. eapply calls_intro; [reflexivity|reflexivity|]. apply ev_import_std, Hin.
  Qed.

  Definition len_v : value := member fo lists_path "len".
  Definition len_clo := fn_clo fo len_v.
  Definition len_body : expr := Eval vm_compute in fn_body fo len_v.
  Lemma len_v_eq : len_v = VFunc [b "list"] len_body len_clo.
  Proof. vm_compute. reflexivity. Qed.
  Lemma lists_index_len c : index fo c (import_value fo lists_path) (VStr (b "len")) = Ok len_v.
  Proof. destruct c. vm_compute. reflexivity. Qed.

  Lemma len_calls c l :
    fits (Z.of_nat (List.length l)) -> calls c len_v [VList l] (ref_len fo l).
  Proof.
    intros Hfit. rewrite len_v_eq.
    eapply calls_intro; [reflexivity|reflexivity|]. unfold len_body.
    edestruct (reduce_list_inv fo std_imports []) with (I := fun (pre : list value) (a : value) => a = VInt (Z.of_nat (List.length pre)))
      as (r & Hr & HI); [ | | | | |subst r; exact Hr].
    - iv1.
    - iv1.
    - iv1.
    - reflexivity.
    - intros pre v post a El ->. eexists. split.
      + eapply calls_intro; [reflexivity|reflexivity|].
        eapply ev_add; [iv1|iv1|]. cbn [arith' arith]. apply fits_chk.
        apply (fits_between _ 0 (Z.of_nat (List.length l))); [apply fits_0|exact Hfit|].
        subst l. rewrite app_length. cbn [List.length]. lia.
      + rewrite app_length. cbn [List.length]. f_equal. lia.
  Qed.

  (* on a string the same function counts characters (UTF-8 sequences) *)
  Lemma len_calls_str c s :
    fits (Z.of_nat (List.length (utf8_chars s))) ->
    calls c len_v [VStr s] (VInt (Z.of_nat (List.length (utf8_chars s)))).
  Proof.
    intros Hfit. rewrite len_v_eq.
    eapply calls_intro; [reflexivity|reflexivity|]. unfold len_body.
    edestruct (reduce_str_inv fo std_imports []) with (I := fun (pre : list bytes) (a : value) => a = VInt (Z.of_nat (List.length pre)))
      as (r & Hr & HI); [ | | | | |subst r; exact Hr].
    - iv1.
    - iv1.
    - iv1.
    - reflexivity.
    - intros pre v post a El ->. eexists. split.
      + eapply calls_intro; [reflexivity|reflexivity|].
        eapply ev_add; [iv1|iv1|]. cbn [arith' arith]. apply fits_chk.
        apply (fits_between _ 0 (Z.of_nat (List.length (utf8_chars s)))); [apply fits_0|exact Hfit|].
        rewrite El, app_length. cbn [List.length]. lia.
      + rewrite app_length. cbn [List.length]. f_equal. lia.
  Qed.

  (* ---------------- tail (the closure of the linked library) ---------------- *)
  Definition tail_v : value := member fo lists_path "tail".
  Definition tail_clo := fn_clo fo tail_v.
  Definition tail_body : expr := Eval vm_compute in fn_body fo tail_v.
  Lemma tail_v_eq : tail_v = VFunc [b "list"] tail_body tail_clo.
  Proof. vm_compute. reflexivity. Qed.
  Lemma lists_index_tail c : index fo c (import_value fo lists_path) (VStr (b "tail")) = Ok tail_v.
  Proof. destruct c. vm_compute. reflexivity. Qed.

  Definition tail_acc (n : Z) (x : list value) : value := VTuple [(b "count", VInt n); (b "tail", VList x)].
  Definition tail_reducer_body : expr :=
    Eval vm_compute in match tail_body with EBin DOT (EReduce (EFunc _ bd) _ _) _ => bd | _ => ENull end.
  Lemma tail_step c clo n x v :
    (0 <= n)%Z -> fits (n + 1) ->
    calls c (VFunc [b "acc"; b "item"] tail_reducer_body clo) [tail_acc n x; v]
          (tail_acc (n + 1) (if (0 <? n)%Z then x ++ [v] else [])).
  Proof.
    intros Hn Hfit. eapply calls_intro; [reflexivity|reflexivity|]. unfold tail_reducer_body.
    destruct (0 <? n)%Z eqn:Hpos.
    - eapply evals_eq.
      + eapply ev_select.
        * eapply ev_cmp; [reflexivity|dotsym|iv1|reflexivity].
        * cbn [compare_num]. rewrite Hpos. reflexivity.
        * eapply ev_copy; [iv1|]. eapply copies_tuple.
          { eapply evf_cons; [|reflexivity|].
            { eapply ev_add; [dotsym|iv1|]. cbn [arith' arith]. apply fits_chk, Hfit. }
            eapply evf_cons; [|reflexivity|iv1].
            eapply ev_add; [dotsym|ivs|reflexivity]. }
          reflexivity.
      + reflexivity.
    - assert (n = 0)%Z by (apply Z.ltb_ge in Hpos; lia). subst n.
      eapply evals_eq.
      + eapply ev_select.
        * eapply ev_cmp; [reflexivity|dotsym|iv1|reflexivity].
        * reflexivity.
        * eapply ev_copy; [iv1|]. eapply copies_tuple.
          { eapply evf_cons; [iv1|reflexivity|]. eapply evf_cons; [ivs|reflexivity|iv1]. }
          reflexivity.
      + reflexivity.
  Qed.
  Definition tail_step_fn (a v : value) : value :=
    match a with
    | Sem.VTuple _ [(_, Sem.VInt _ n); (_, Sem.VList _ x)] => tail_acc (n + 1) (if (0 <? n)%Z then x ++ [v] else [])
    | _ => a
    end.

  Lemma tail_calls c l :
    fits (Z.of_nat (List.length l)) -> calls c tail_v [VList l] (VList (tl l)).
  Proof.
    intros Hfit. rewrite tail_v_eq.
    eapply calls_intro; [reflexivity|reflexivity|]. unfold tail_body.
    destruct (reduce_list_is_fold_pre fo std_imports []
                (fctx fo c ((b "list", VList l) :: tail_clo))
                (EFunc [b "acc"; b "item"] tail_reducer_body)
                (ETuple [(b "count", EInt 0); (b "tail", EList [])]) (ESym (b "list"))
                (b "acc") (b "item") tail_reducer_body ((b "list", VList l) :: tail_clo)
                (tail_acc 0 []) l
                (fun pre a => a = tail_acc (Z.of_nat (List.length pre)) (tl pre)) tail_step_fn) as [Hev HI].
    - apply ev_func.
    - iv1. fld1. flds. iv1.
    - iv1.
    - reflexivity.
    - intros pre v post a El ->. cbn [tail_step_fn tail_acc].
      assert (Hlen : (Z.of_nat (List.length pre) + 1 <= Z.of_nat (List.length l))%Z).
      { rewrite El, app_length. cbn [List.length]. lia. }
      split.
      + apply tail_step; [lia|].
        apply (fits_between _ 0 (Z.of_nat (List.length l))); [apply fits_0|exact Hfit|lia].
      + rewrite app_length. cbn [List.length].
        replace (Z.of_nat (List.length pre + 1)) with (Z.of_nat (List.length pre) + 1)%Z by lia.
        destruct pre as [|p pre]; [reflexivity|].
        replace (0 <? Z.of_nat (List.length (p :: pre)))%Z with true by (symmetry; apply Z.ltb_lt; cbn [List.length]; lia).
        reflexivity.
    - rewrite HI in Hev. eapply ev_dot_sym; [exact Hev|reflexivity].
  Qed.

  (* ---------------- zip ---------------- *)
  Definition zip_v : value := member fo lists_path "zip".
  Definition zip_pkg_clo := pkg_clo fo zip_v.
  Definition zip_out : option expr := Eval vm_compute in mod_out fo zip_v.
  Definition zip_body : list stmt := Eval vm_compute in mod_body fo zip_v.
  Lemma zip_v_eq :
    zip_v = VModule [(b "list1", VList []); (b "list2", VList []); (b "pkg", VFunc [] (EImport lists_path) zip_pkg_clo)]
                    zip_out zip_body.
  Proof. vm_compute. reflexivity. Qed.
  Lemma lists_index_zip c : index fo c (import_value fo lists_path) (VStr (b "zip")) = Ok zip_v.
  Proof. destruct c. vm_compute. reflexivity. Qed.

  Definition zip_acc (l1 l2 : list value) (k : nat) : value :=
    VTuple [(b "list1", VList l1); (b "list2", VList l2);
            (b "result", VList (map (fun i => VList [nth i l1 VNull; nth i l2 VNull]) (seq 0 k)));
            (b "idxs", VList (idx_list k))].

  (* the reducer of zip, whatever scope it captured *)
  Definition zip_reducer_body : expr :=
    Eval vm_compute in match nth 4 zip_body (SExpr ENull) with SLet _ (EFunc _ bd) => bd | _ => ENull end.
  Lemma zip_step c clo l1 l2 k :
    (k < List.length l1)%nat -> (k < List.length l2)%nat ->
    calls c (VFunc [b "acc"; b "item"] zip_reducer_body clo) [zip_acc l1 l2 k; VInt (Z.of_nat k)] (zip_acc l1 l2 (S k)).
  Proof.
    intros Hk1 Hk2.
    eapply calls_intro; [reflexivity|reflexivity|]. unfold zip_reducer_body.
    eapply evals_eq.
    - eapply ev_copy; [iv1|]. eapply copies_tuple'.
      + eapply evf_cons; [|reflexivity|].
        { eapply ev_add; [dotsym| |].
          { iv1. eapply evl_cons; [|iv1]. iv1.
            eapply evl_cons; [eapply ev_dot_group; [dotsym|iv1|apply index_list_nth, Hk1]|].
            eapply evl_cons; [eapply ev_dot_group; [dotsym|iv1|apply index_list_nth, Hk2]|]. iv1. }
          reflexivity. }
        eapply evf_cons; [|reflexivity|iv1].
        eapply ev_add; [dotsym|ivs|reflexivity].
      + reflexivity.
    - unfold zip_acc, idx_list. rewrite !seq_S, !map_app. reflexivity.
  Qed.

  Definition zip_call : expr := imp_inst lists_path "zip" [("list1", "arg1"); ("list2", "arg2")]%string.

  Theorem std_zip : forall E st ord l1 l2,
      fits (Z.of_nat (List.length l1)) -> fits (Z.of_nat (List.length l2)) ->
      (Z.of_nat (Nat.min (List.length l1) (List.length l2)) <= range_limit)%Z ->
      exists f, eval_imp fo std_imports f [] (ctx_gen fo E st ord [(b "arg2", VList l2); (b "arg1", VList l1)]) zip_call
                = Ok (ref_zip fo l1 l2).
  Proof.
    intros E st ord l1 l2 Hf1 Hf2 Hlim.
    set (n := Nat.min (List.length l1) (List.length l2)) in *.
    unfold ref_zip. rewrite <- zip_ref_eq. fold n.
    unfold zip_call, imp_inst, ctx_gen. cbn [map fst snd].
    edestruct (reduce_list_inv fo std_imports []) with (l := idx_list n)
      (I := fun (pre : list value) (a : value) => a = zip_acc l1 l2 (List.length pre))
      as (r & Hr & HI); cycle 5.
    - subst r. unfold idx_list in Hr. rewrite map_length, seq_length in Hr.
      eapply ev_dot_copy; [apply ev_import_std, in_lists|apply lists_index_zip|].
      rewrite zip_v_eq.
      eapply copies_module'.
      + fld1. fld1. iv1.
      + reflexivity.
      + reflexivity.
      + unfold zip_body.
        (* let len = mod.pkg().len *)
        eapply execs_let'; [|reflexivity|reflexivity|].
        { eapply ev_dot_sym; [|apply lists_index_len].
          eapply ev_dot_call; [iv1|iv1|reflexivity|]. apply pkg_calls, in_lists. }
        eapply execs_let'; [|reflexivity|reflexivity|].
        { eapply ev_call; [ivs; reflexivity|iv1|apply len_calls, Hf1]. }
        eapply execs_let'; [|reflexivity|reflexivity|].
        { eapply ev_call; [ivs; reflexivity|iv1|apply len_calls, Hf2]. }
        eapply execs_let'; [|reflexivity|reflexivity|].
        { (* the index range *)
          match goal with |- Std_Rules_Imp.evals _ _ _ ?cc ?e _ =>
            assert (Hrng : evals cc e (VList (idx_list n))); [|exact Hrng] end.
          destruct (Nat.leb_spec (List.length l2) (List.length l1)) as [Hle|Hgt].
          - assert (Hn : n = List.length l2) by (unfold n; lia).
            eapply ev_select.
            + iv1. eapply ev_cmp; [reflexivity|iv1|iv1|reflexivity].
            + cbn [compare_num]. replace (Z.of_nat (List.length l2) <=? Z.of_nat (List.length l1))%Z with true
                by (symmetry; apply Z.leb_le; lia). reflexivity.
            + rewrite <- (range_0 n) by (rewrite Hn; apply fits_iff, Hf2). rewrite Hn.
              eapply ev_range; [iv1| |].
              * iv1. eapply ev_sub; [iv1|iv1|]. cbn [arith' arith]. apply fits_chk.
                apply (fits_between _ (-1) (Z.of_nat (List.length l2))); [reflexivity|exact Hf2|lia].
              * rewrite range_len_0. apply Z.ltb_ge. rewrite <- Hn. exact Hlim.
          - assert (Hn : n = List.length l1) by (unfold n; lia).
            eapply ev_select.
            + iv1. eapply ev_cmp; [reflexivity|iv1|iv1|reflexivity].
            + cbn [compare_num]. replace (Z.of_nat (List.length l2) <=? Z.of_nat (List.length l1))%Z with false
                by (symmetry; apply Z.leb_gt; lia). reflexivity.
            + rewrite <- (range_0 n) by (rewrite Hn; apply fits_iff, Hf1). rewrite Hn.
              eapply ev_range; [iv1| |].
              * iv1. eapply ev_sub; [iv1|iv1|]. cbn [arith' arith]. apply fits_chk.
                apply (fits_between _ (-1) (Z.of_nat (List.length l1))); [reflexivity|exact Hf1|lia].
              * rewrite range_len_0. apply Z.ltb_ge. rewrite <- Hn. exact Hlim. }
        eapply execs_let'; [iv1|reflexivity|reflexivity|].
        eapply execs_let'; [|reflexivity|reflexivity|].
        { iv1. fldd. fldd. flds. flds. iv1. }
        eapply execs_let'; [|reflexivity|reflexivity|apply execs_nil'].
        eapply ev_dot_sym; [exact Hr|reflexivity].
      + unfold zip_out. iv1.
    - iv1.
    - iv1.
    - iv1.
    - reflexivity.
    - intros pre v post a El ->.
      destruct (seq_split _ _ _ _ _ _ El) as [-> Hlt]. cbn [Nat.add] in *.
      assert (Hk1 : (List.length pre < List.length l1)%nat) by (unfold n in Hlt; lia).
      assert (Hk2 : (List.length pre < List.length l2)%nat) by (unfold n in Hlt; lia).
      exists (zip_acc l1 l2 (S (List.length pre))). split.
      + apply zip_step; assumption.
      + rewrite app_length, Nat.add_1_r. reflexivity.
  Qed.

End Lists.
