(* std/tuples.ucg through `import`: fields / iter as modules of the linked library, has_fields. *)
From Ucg Require Import base.Bytes_Lemmas sem.Sem std.Std_Fuel std.Sem_Import std.Sem_Import_Lemmas
     std.Std_Rules_Imp std.Std_Rules_Imp2 std.StdSpec std.StdSpec_Imp std.Imp_Base.

Section Tuples.
  Variable fo : float_ops.
  Notation value := (value fo).
  Notation VInt := (VInt fo).
  Notation VStr := (VStr fo).
  Notation VBool := (VBool fo).
  Notation VNull := (VNull fo).
  Notation VList := (VList fo).
  Notation VTuple := (VTuple fo).
  Notation VFunc := (VFunc fo).
  Notation VModule := (VModule fo).
  Notation evals := (evals fo std_imports []).
  Notation calls := (calls fo std_imports []).
  Notation copies := (copies fo std_imports []).

  Lemma pkg_calls c clo path :
    In path [lists_path; tuples_path; strings_path; functional_path; schema_path] ->
    calls c (VFunc [] (EImport path) clo) [] (import_value fo path).
  Proof.
    intros Hin. eapply calls_intro; [reflexivity|reflexivity|]. apply ev_import_std, Hin.
  Qed.

  (* ---------------- fields ---------------- *)
  Definition fields_v : value := member fo tuples_path "fields".
  Definition fields_pkg_clo := pkg_clo fo fields_v.
  Definition fields_out : option expr := Eval vm_compute in mod_out fo fields_v.
  Definition fields_body : list stmt := Eval vm_compute in mod_body fo fields_v.
  Lemma fields_v_eq :
    fields_v = VModule [(b "tpl", VTuple []); (b "pkg", VFunc [] (EImport tuples_path) fields_pkg_clo)]
                       fields_out fields_body.
  Proof. vm_compute. reflexivity. Qed.
  Lemma tuples_index_fields c : index fo c (import_value fo tuples_path) (VStr (b "fields")) = Ok fields_v.
  Proof. destruct c. vm_compute. reflexivity. Qed.

  Definition step_fields (a : value) (k : bytes) (v : value) : value :=
    match a with Sem.VList _ x => VList (x ++ [VStr k]) | _ => a end.
  Definition is_vlist (a : value) : Prop := exists x, a = VList x.
  Lemma fold_step_list (g : bytes * value -> value) (step : value -> bytes -> value -> value) :
    (forall x k v, step (VList x) k v = VList (x ++ [g (k, v)])) ->
    forall fs x, fold_left (fun a kv => step a (fst kv) (snd kv)) fs (VList x) = VList (x ++ map g fs).
  Proof.
    intros Hs. induction fs as [|[k v] fs IH]; intros x; cbn [fold_left map fst snd].
    - rewrite app_nil_r. reflexivity.
    - rewrite Hs, IH, <- app_assoc. reflexivity.
  Qed.

  (* instantiating `fields` with tpl = e, wherever e evaluates to a tuple *)
  Lemma fields_copies c e fs :
    evals (with_self fo c (Some fields_v)) e (VTuple fs) ->
    copies c fields_v [(b "tpl", e)] (VList (map (fun kv => VStr (fst kv)) fs)).
  Proof.
    intros He. destruct c as [s0 slf E st ord]. rewrite fields_v_eq in *.
    rewrite <- (app_nil_l (map _ fs)).
    rewrite <- (fold_step_list (fun kv => VStr (fst kv)) step_fields (fun x k v => eq_refl) fs []).
    eapply copies_module'.
    - eapply evf_cons; [exact He|reflexivity|iv1].
    - reflexivity.
    - reflexivity.
    - unfold fields_body.
      eapply execs_let'; [|reflexivity|reflexivity|apply execs_nil'].
      eapply (reduce_tuple_is_fold fo std_imports []) with (I := is_vlist) (step := step_fields).
      + iv1.
      + ivs.
      + iv1. dotsym.
      + exists []. reflexivity.
      + intros a k v [x ->] _. split; [|eexists; reflexivity].
        eapply calls_intro; [reflexivity|reflexivity|].
        eapply ev_add; [iv1|ivs|reflexivity].
    - unfold fields_out. iv1.
  Qed.

  (* ---------------- has_fields ---------------- *)
  Definition hf_v : value := member fo tuples_path "has_fields".
  Definition hf_pkg_clo := pkg_clo fo hf_v.
  Definition hf_out : option expr := Eval vm_compute in mod_out fo hf_v.
  Definition hf_body : list stmt := Eval vm_compute in mod_body fo hf_v.
  Lemma hf_v_eq :
    hf_v = VModule [(b "tpl", VTuple []); (b "fields", VList []);
                    (b "pkg", VFunc [] (EImport tuples_path) hf_pkg_clo)] hf_out hf_body.
  Proof. vm_compute. reflexivity. Qed.
  Lemma tuples_index_hf c : index fo c (import_value fo tuples_path) (VStr (b "has_fields")) = Ok hf_v.
  Proof. destruct c. vm_compute. reflexivity. Qed.

  Definition key_in (keys : list bytes) (v : value) : bool :=
    match v with Sem.VStr _ k => existsb (fun x => bytes_eqb x k) keys | _ => false end.
  Lemma has_key_keys fs v : has_key fo fs v = key_in (map fst fs) v.
  Proof.
    destruct v; try reflexivity. cbn. induction fs as [|[k w] fs IH]; [reflexivity|]. cbn. rewrite IH. reflexivity.
  Qed.

  Lemma in_go_keys ord keys v :
    is_closure fo v = false ->
    in_go fo ord 1 v (map VStr keys) = Ok (VBool (key_in keys v)).
  Proof.
    intros Hv. induction keys as [|x keys IH]; cbn [map in_go].
    - destruct v; reflexivity.
    - cbn [in_go] in IH. destruct v; cbn in *; try discriminate; try exact IH.
      destruct (bytes_eqb x s); [reflexivity|exact IH].
  Qed.

  Definition hf_reducer_body : expr :=
    Eval vm_compute in match nth 2 hf_body (SExpr ENull) with SLet _ (EReduce (EFunc _ bd) _ _) => bd | _ => ENull end.
  Lemma hf_step c clo keys (a : bool) v :
    lookup fo (b "fs") clo = Some (VList (map VStr keys)) -> is_closure fo v = false ->
    calls c (VFunc [b "acc"; b "f"] hf_reducer_body clo) [VBool a; v] (VBool (a && key_in keys v)).
  Proof.
    intros Hfs Hv. eapply calls_intro; [reflexivity|reflexivity|]. unfold hf_reducer_body.
    destruct a.
    - eapply ev_and_true; [iv1|]. iv1.
      eapply ev_in_list; [apply ev_sym; [reflexivity|exact Hfs]|iv1|].
      exists 1. apply in_go_keys, Hv.
    - apply ev_and_false. iv1.
  Qed.

  Definition hf_step_fn (keys : list bytes) (a v : value) : value :=
    match a with Sem.VBool _ x => VBool (x && key_in keys v) | _ => a end.
  Lemma hf_fold keys fields x :
    fold_left (hf_step_fn keys) fields (VBool x) = VBool (x && forallb (key_in keys) fields).
  Proof.
    revert x. induction fields as [|v fields IH]; intros x; cbn.
    - rewrite andb_true_r. reflexivity.
    - rewrite IH, andb_assoc. reflexivity.
  Qed.

  Lemma forallb_ext' {A} (g h : A -> bool) l : (forall x, g x = h x) -> forallb g l = forallb h l.
  Proof. intros H. induction l as [|a l IH]; cbn; [reflexivity|]. rewrite H, IH. reflexivity. Qed.

  Definition hf_m : value :=
    VModule [(b "tpl", VTuple []); (b "fields", VList []); (b "pkg", VFunc [] (EImport tuples_path) hf_pkg_clo)] hf_out hf_body.

  (* instantiating has_fields with tpl = e1, fields = e2 *)
  Lemma has_fields_copies c e1 e2 fs fields :
    Forall (fun v => is_closure fo v = false) fields ->
    evals (with_self fo c (Some hf_m)) e1 (VTuple fs) ->
    evals (with_self fo c (Some hf_m)) e2 (VList fields) ->
    copies c hf_m [(b "tpl", e1); (b "fields", e2)] (ref_has_fields fo fs fields).
  Proof.
    intros Hcl H1 H2. rewrite Forall_forall in Hcl. destruct c as [s0 slf E st ord]. unfold hf_m in *.
    unfold ref_has_fields. rewrite (forallb_ext' _ _ fields (has_key_keys fs)).
    change (VBool (forallb (key_in (map fst fs)) fields)) with (VBool (true && forallb (key_in (map fst fs)) fields)).
    rewrite <- hf_fold.
    eapply copies_module'.
    - eapply evf_cons; [exact H1|reflexivity|]. eapply evf_cons; [exact H2|reflexivity|iv1].
    - reflexivity.
    - reflexivity.
    - unfold hf_body.
      eapply execs_let'; [|reflexivity|reflexivity|].
      { eapply ev_dot_call; [iv1|iv1|reflexivity|]. apply pkg_calls, in_tuples. }
      eapply execs_let'; [|reflexivity|reflexivity|].
      { eapply ev_dot_copy; [iv1|apply tuples_index_fields|]. apply fields_copies. dotsym. }
      eapply execs_let'; [|reflexivity|reflexivity|apply execs_nil'].
      eapply (reduce_list_is_fold_ev fo std_imports []) with (I := fun a => exists x, a = VBool x) (step := hf_step_fn (map fst fs)).
      + iv1.
      + iv1.
      + dotsym.
      + exists true. reflexivity.
      + intros a v [x ->] Hin. split; [|eexists; reflexivity].
        cbn [hf_step_fn]. apply hf_step; [rewrite map_map; reflexivity|apply Hcl, Hin].
    - unfold hf_out. iv1.
  Qed.

  Definition has_fields_call : expr := imp_inst tuples_path "has_fields" [("tpl", "arg1"); ("fields", "arg2")]%string.

  Theorem std_has_fields : forall E st ord fs fields,
      Forall (fun v => is_closure fo v = false) fields ->
      exists f, eval_imp fo std_imports f []
                  (ctx_gen fo E st ord [(b "arg2", VList fields); (b "arg1", VTuple fs)]) has_fields_call
                = Ok (ref_has_fields fo fs fields).
  Proof.
    intros E st ord fs fields Hcl.
    unfold has_fields_call, imp_inst, ctx_gen. cbn [map fst snd].
    eapply ev_dot_copy; [apply ev_import_std, in_tuples|apply tuples_index_hf|].
    rewrite hf_v_eq. apply has_fields_copies; [exact Hcl|iv1|iv1].
  Qed.

  (* ---------------- iter ---------------- *)
  Definition iter_v : value := member fo tuples_path "iter".
  Definition iter_pkg_clo := pkg_clo fo iter_v.
  Definition iter_out : option expr := Eval vm_compute in mod_out fo iter_v.
  Definition iter_body : list stmt := Eval vm_compute in mod_body fo iter_v.
  Lemma iter_v_eq :
    iter_v = VModule [(b "tpl", VTuple []); (b "pkg", VFunc [] (EImport tuples_path) iter_pkg_clo)] iter_out iter_body.
  Proof. vm_compute. reflexivity. Qed.
  Lemma tuples_index_iter c : index fo c (import_value fo tuples_path) (VStr (b "iter")) = Ok iter_v.
  Proof. destruct c. vm_compute. reflexivity. Qed.
  Definition step_iter (a : value) (k : bytes) (v : value) : value :=
    match a with Sem.VList _ x => VList (x ++ [VList [VStr k; v]]) | _ => a end.
  Lemma iter_copies c e fs :
    evals (with_self fo c (Some iter_v)) e (VTuple fs) ->
    copies c iter_v [(b "tpl", e)] (VList (map (fun kv => VList [VStr (fst kv); snd kv]) fs)).
  Proof.
    intros He. destruct c as [s0 slf E st ord]. rewrite iter_v_eq in *.
    rewrite <- (app_nil_l (map _ fs)).
    rewrite <- (fold_step_list (fun kv => VList [VStr (fst kv); snd kv]) step_iter (fun x k v => eq_refl) fs []).
    eapply copies_module'.
    - eapply evf_cons; [exact He|reflexivity|iv1].
    - reflexivity.
    - reflexivity.
    - unfold iter_body.
      eapply execs_let'; [|reflexivity|reflexivity|apply execs_nil'].
      eapply (reduce_tuple_is_fold fo std_imports []) with (I := is_vlist) (step := step_iter).
      + iv1.
      + ivs.
      + iv1. dotsym.
      + exists []. reflexivity.
      + intros a k v [x ->] _. split; [|eexists; reflexivity].
        eapply calls_intro; [reflexivity|reflexivity|].
        eapply ev_add; [iv1|ivs|reflexivity].
    - unfold iter_out. iv1.
  Qed.

  (* ---------------- field_type ---------------- *)
  Definition ft_v : value := member fo tuples_path "field_type".
  Definition ft_pkg_clo := pkg_clo fo ft_v.
  Definition ft_out : option expr := Eval vm_compute in mod_out fo ft_v.
  Definition ft_body : list stmt := Eval vm_compute in mod_body fo ft_v.
  Lemma ft_v_eq :
    ft_v = VModule [(b "tpl", VTuple []); (b "field", VStr []); (b "type", VStr []);
                    (b "pkg", VFunc [] (EImport tuples_path) ft_pkg_clo)] ft_out ft_body.
  Proof. vm_compute. reflexivity. Qed.
  Lemma tuples_index_ft c : index fo c (import_value fo tuples_path) (VStr (b "field_type")) = Ok ft_v.
  Proof. destruct c. vm_compute. reflexivity. Qed.

  Definition ft_reducer_body : expr :=
    Eval vm_compute in match nth 2 ft_body (SExpr ENull) with SLet _ (EFunc _ bd) => bd | _ => ENull end.
  Definition ft_ok (field typ : bytes) (k : bytes) (v : value) : bool :=
    if bytes_eqb k field then bytes_eqb (is_name fo v) typ else true.

  Lemma index_tuple_lookup c fs k v : lookup fo k fs = Some v -> index fo c (VTuple fs) (VStr k) = Ok v.
  Proof. intros H. unfold index. rewrite H. reflexivity. Qed.

  Lemma ft_step c clo flds field typ (a : bool) k v :
    lookup fo (b "mod") clo = Some (VTuple flds) ->
    lookup fo (b "field") flds = Some (VStr field) -> lookup fo (b "type") flds = Some (VStr typ) ->
    calls c (VFunc [b "acc"; b "l"] ft_reducer_body clo) [VBool a; VList [VStr k; v]] (VBool (a && ft_ok field typ k v)).
  Proof.
    intros Hmod Hf Ht. eapply calls_intro; [reflexivity|reflexivity|]. unfold ft_reducer_body.
    destruct a; [|apply ev_and_false; iv1].
    eapply ev_and_true; [iv1|]. cbn [andb]. unfold ft_ok.
    assert (Heq : forall cc, lookup fo (b "l") (sc fo cc) = Some (VList [VStr k; v]) ->
                            lookup fo (b "mod") (sc fo cc) = Some (VTuple flds) ->
              Std_Rules_Imp.evals fo std_imports [] cc
                (EBin Equal (EBin DOT (ESym (b "l")) (EInt 0)) (EBin DOT (ESym (b "mod")) (ESym (b "field"))))
                (VBool (bytes_eqb k field))).
    { intros cc H1 H2. eapply ev_eq.
      - eapply ev_dot_int; [apply ev_sym; [reflexivity|exact H1]|reflexivity].
      - eapply ev_dot_sym; [apply ev_sym; [reflexivity|exact H2]|apply index_tuple_lookup, Hf].
      - reflexivity.
      - exists 1. reflexivity. }
    iv1. destruct (bytes_eqb k field) eqn:Hk.
    - eapply ev_select; [apply Heq; [reflexivity|exact Hmod]|reflexivity|].
      eapply ev_is.
      + eapply ev_dot_int; [iv1|reflexivity].
      + eapply ev_dot_sym; [apply ev_sym; [reflexivity|exact Hmod]|apply index_tuple_lookup, Ht].
    - eapply ev_select; [apply Heq; [reflexivity|exact Hmod]|reflexivity|]. iv1.
  Qed.

  Definition ft_step_fn (field typ : bytes) (a x : value) : value :=
    match a, x with
    | Sem.VBool _ y, Sem.VList _ [Sem.VStr _ k; v] => VBool (y && ft_ok field typ k v)
    | _, _ => a
    end.
  Lemma ft_fold field typ fs y :
    fold_left (ft_step_fn field typ) (map (fun kv => VList [VStr (fst kv); snd kv]) fs) (VBool y)
    = VBool (y && forallb (fun kv => ft_ok field typ (fst kv) (snd kv)) fs).
  Proof.
    revert y. induction fs as [|[k v] fs IH]; intros y; cbn [map fold_left ft_step_fn forallb fst snd].
    - rewrite andb_true_r. reflexivity.
    - rewrite IH, andb_assoc. reflexivity.
  Qed.

  Definition field_type_call : expr :=
    imp_inst tuples_path "field_type" [("tpl", "arg1"); ("field", "arg2"); ("type", "arg3")]%string.

  (* the field must exist, and EVERY binding of that name must have the type (tuple values built by
     the language have one binding per name: see the corollary) *)
  Theorem std_field_type : forall E st ord fs field typ,
      exists f, eval_imp fo std_imports f []
                  (ctx_gen fo E st ord [(b "arg3", VStr typ); (b "arg2", VStr field); (b "arg1", VTuple fs)]) field_type_call
                = Ok (VBool (has_key fo fs (VStr field)
                             && forallb (fun kv => ft_ok field typ (fst kv) (snd kv)) fs)).
  Proof.
    intros E st ord fs field typ.
    unfold field_type_call, imp_inst, ctx_gen. cbn [map fst snd].
    assert (Hhf : ref_has_fields fo fs [VStr field] = VBool (has_key fo fs (VStr field))).
    { unfold ref_has_fields. cbn [forallb]. rewrite andb_true_r. reflexivity. }
    set (flds := [(b "tpl", VTuple fs); (b "field", VStr field); (b "type", VStr typ);
                  (b "pkg", VFunc [] (EImport tuples_path) ft_pkg_clo);
                  (b "this", VModule [(b "tpl", VTuple []); (b "field", VStr []); (b "type", VStr []);
                                      (b "pkg", VFunc [] (EImport tuples_path) ft_pkg_clo)] ft_out ft_body)]).
    (* the has_fields conjunct, in the scope of the last statement *)
    assert (Hl : forall sc0 slf,
               lookup fo (b "pkg") sc0 = Some (import_value fo tuples_path) ->
               lookup fo (b "mod") sc0 = Some (VTuple flds) ->
               evals (Build_ctx fo sc0 slf E st ord)
                     (EBin DOT (ESym (b "pkg")) (ECopy (ESym (b "has_fields"))
                        [(b "tpl", EBin DOT (ESym (b "mod")) (ESym (b "tpl")));
                         (b "fields", EList [EBin DOT (ESym (b "mod")) (ESym (b "field"))])]))
                     (VBool (has_key fo fs (VStr field)))).
    { intros sc0 slf Hp Hm. rewrite <- Hhf.
      eapply ev_dot_copy; [apply ev_sym; [reflexivity|exact Hp]|apply tuples_index_hf|]. rewrite hf_v_eq.
      apply has_fields_copies.
      - constructor; [reflexivity|constructor].
      - eapply ev_dot_sym; [apply ev_sym; [reflexivity|exact Hm]|reflexivity].
      - iv1. eapply evl_cons; [|iv1]. eapply ev_dot_sym; [apply ev_sym; [reflexivity|exact Hm]|reflexivity]. }
    destruct (has_key fo fs (VStr field)) eqn:Hk.
    - cbn [andb].
      replace (forallb (fun kv => ft_ok field typ (fst kv) (snd kv)) fs)
        with (true && forallb (fun kv => ft_ok field typ (fst kv) (snd kv)) fs) by reflexivity.
      rewrite <- ft_fold.
      eapply ev_dot_copy; [apply ev_import_std, in_tuples|apply tuples_index_ft|].
      rewrite ft_v_eq.
      eapply copies_module'.
      + fld1. fld1. fld1. iv1.
      + reflexivity.
      + reflexivity.
      + unfold ft_body.
        eapply execs_let'; [|reflexivity|reflexivity|].
        { eapply ev_dot_call; [iv1|iv1|reflexivity|]. apply pkg_calls, in_tuples. }
        eapply execs_let'; [|reflexivity|reflexivity|].
        { eapply ev_dot_copy; [iv1|apply tuples_index_iter|]. apply iter_copies. dotsym. }
        eapply execs_let'; [iv1|reflexivity|reflexivity|].
        eapply execs_let'; [|reflexivity|reflexivity|apply execs_nil'].
        eapply ev_and_true; [apply Hl; reflexivity|].
        eapply (reduce_list_is_fold_ev fo std_imports [])
          with (I := fun a => exists y, a = VBool y) (step := ft_step_fn field typ).
        * iv1.
        * iv1.
        * iv1.
        * exists true. reflexivity.
        * intros a x [y ->] Hin. apply in_map_iff in Hin. destruct Hin as ([k v] & <- & _).
          cbn [ft_step_fn fst snd]. split; [|eexists; reflexivity].
          apply ft_step with (flds := flds); reflexivity.
      + unfold ft_out. iv1.
    - cbn [andb].
      eapply ev_dot_copy; [apply ev_import_std, in_tuples|apply tuples_index_ft|].
      rewrite ft_v_eq.
      eapply copies_module'.
      + fld1. fld1. fld1. iv1.
      + reflexivity.
      + reflexivity.
      + unfold ft_body.
        eapply execs_let'; [|reflexivity|reflexivity|].
        { eapply ev_dot_call; [iv1|iv1|reflexivity|]. apply pkg_calls, in_tuples. }
        eapply execs_let'; [|reflexivity|reflexivity|].
        { eapply ev_dot_copy; [iv1|apply tuples_index_iter|]. apply iter_copies. dotsym. }
        eapply execs_let'; [iv1|reflexivity|reflexivity|].
        eapply execs_let'; [|reflexivity|reflexivity|apply execs_nil'].
        apply ev_and_false. apply Hl; reflexivity.
      + unfold ft_out. iv1.
  Qed.

  (* with one binding per field name this is: the field exists and has the named base type *)
  Lemma lookup_nodup_forall field typ : forall fs,
      NoDup (map fst fs) ->
      has_key fo fs (VStr field) && forallb (fun kv => ft_ok field typ (fst kv) (snd kv)) fs
      = ref_field_type fo fs field typ.
  Proof.
    unfold ref_field_type, ft_ok. cbn [has_key].
    induction fs as [|[k v] fs IH]; intros Hnd; [reflexivity|].
    inversion Hnd as [|? ? Hnotin Hnd']; subst. cbn [existsb forallb lookup fst snd].
    destruct (bytes_eqb k field) eqn:Hk.
    - apply bytes_eqb_spec in Hk. subst k.
      rewrite (proj2 (bytes_eqb_spec field field) eq_refl). cbn [orb andb].
      assert (Hrest : forallb (fun kv => if bytes_eqb (fst kv) field then bytes_eqb (is_name fo (snd kv)) typ else true) fs = true).
      { apply forallb_forall. intros [k' v'] Hin. cbn [fst snd].
        destruct (bytes_eqb k' field) eqn:Hk'; [|reflexivity].
        apply bytes_eqb_spec in Hk'. subst k'. exfalso. apply Hnotin. apply in_map_iff. exists (field, v'). split; [reflexivity|exact Hin]. }
      rewrite Hrest, andb_true_r. reflexivity.
    - assert (Hfk : bytes_eqb field k = false).
      { destruct (bytes_eqb field k) eqn:E'; [|reflexivity]. apply bytes_eqb_spec in E'. subst k.
        rewrite (proj2 (bytes_eqb_spec field field) eq_refl) in Hk. discriminate. }
      rewrite Hfk. cbn [orb andb]. apply IH, Hnd'.
  Qed.
  Corollary std_field_type_nodup : forall E st ord fs field typ,
      NoDup (map fst fs) ->
      exists f, eval_imp fo std_imports f []
                  (ctx_gen fo E st ord [(b "arg3", VStr typ); (b "arg2", VStr field); (b "arg1", VTuple fs)]) field_type_call
                = Ok (VBool (ref_field_type fo fs field typ)).
  Proof.
    intros E st ord fs field typ Hnd. rewrite <- (lookup_nodup_forall field typ fs Hnd). apply std_field_type.
  Qed.
End Tuples.
