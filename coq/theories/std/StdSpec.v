(* Reference definitions of the std-library helpers (std/*.ucg) and the scopes the generated
   library programs (gen/StdLib.v) produce.  Definitions only; proofs are in Std_Lemmas.v. *)
From Ucg Require Import sem.Sem.
From UcgGen Require Import StdLib.


(* ---- how the helpers are invoked on arbitrary argument VALUES: the values are bound to fresh
   names (arg, arg1, ...) on top of the library scope and the call mentions those names ---- *)
Definition call1 (name : string) : expr := ECall (ESym (b name)) [ESym (b "arg")].
(* instantiate a library module with one field *)
Definition inst1 (name field : string) : expr := ECopy (ESym (b name)) [(b field, ESym (b "arg"))].
(* enumerate{start = arg1, step = arg2, list = arg3} *)
Definition enumerate_call : expr :=
  ECopy (ESym (b "enumerate")) [(b "start", ESym (b "arg1")); (b "step", ESym (b "arg2")); (b "list", ESym (b "arg3"))].
(* str_join{sep = arg1, list = arg2} *)
Definition str_join_call : expr :=
  ECopy (ESym (b "str_join")) [(b "sep", ESym (b "arg1")); (b "list", ESym (b "arg2"))].

Section Spec.
  Variable fo : float_ops.
  Notation value := (value fo).
  Notation scope := (scope fo).

  (* ---- contexts ---- *)
  Definition ctx_gen (envv : list (bytes * bytes)) (strict_ ordered : bool) (s : scope) : ctx fo :=
    {| sc := s; self_v := None; envt := envv; strict := strict_; eq_ordered := ordered |}.
  Definition ctx_of (s : scope) : ctx fo := ctx_gen [] false true s.
  Definition ctx0 : ctx fo := ctx_of [].

  (* ---- the library scopes: what running the statements of a std file leaves bound ---- *)
  Definition std_fuel : nat := 20.
  Definition scope_of (p : prog) : scope :=
    match exec_list fo std_fuel ctx0 p with Ok s => s | _ => [] end.
  Definition lists_scope : scope := scope_of std_lists.
  Definition tuples_scope : scope := scope_of std_tuples.
  Definition schema_scope : scope := scope_of std_schema.

  (* the value a library scope binds to a name *)
  Definition get (x : string) (s : scope) : value :=
    match lookup fo (b x) s with Some v => v | None => VNull fo end.

  (* ---- reference functions ---- *)
  Definition ref_len (l : list value) : value := VInt fo (Z.of_nat (List.length l)).
  Definition ref_reverse (l : list value) : value := VList fo (rev l).
  Definition ref_head (l : list value) : value := VList fo (match l with [] => [] | x :: _ => [x] end).
  Definition ref_tail (l : list value) : value := VList fo (tl l).

  (* [[start + i*step, x_i]] *)
  Definition ref_enumerate (start step : Z) (l : list value) : value :=
    VList fo (map (fun p => VList fo [VInt fo (start + Z.of_nat (fst p) * step); snd p])
                  (combine (seq 0 (List.length l)) l)).
  (* the same, by recursion on the list *)
  Fixpoint enum_from (start step : Z) (l : list value) : list value :=
    match l with
    | [] => []
    | x :: l' => VList fo [VInt fo start; x] :: enum_from (start + step) step l'
    end.

  (* texts with [sep] between them *)
  Fixpoint join (sep : bytes) (ts : list bytes) : bytes :=
    match ts with
    | [] => []
    | [t] => t
    | t :: ts' => t ++ sep ++ join sep ts'
    end.

  Definition ref_fields (fs : list (bytes * value)) : value := VList fo (map (fun kv => VStr fo (fst kv)) fs).
  Definition ref_values (fs : list (bytes * value)) : value := VList fo (map snd fs).
  Definition ref_iter (fs : list (bytes * value)) : value :=
    VList fo (map (fun kv => VList fo [VStr fo (fst kv); snd kv]) fs).
  Definition is_null (v : value) : bool := match v with VNull _ => true | _ => false end.
  Definition ref_strip_nulls (fs : list (bytes * value)) : value :=
    VTuple fo (filter (fun kv => negb (is_null (snd kv))) fs).
  Definition ref_base_type_of (v : value) : value := VStr fo (is_name fo v).

  (* side conditions *)
  Definition fits (z : Z) : Prop := in_i64 z = true.
  Definition is_closure (v : value) : bool :=
    match v with VFunc _ _ _ _ | VModule _ _ _ _ => true | _ => false end.
End Spec.
