(* std/strings.ucg through `import`: the value of ops{str = s} (= wrap(s)) and its len / str / chars /
   split_at / substr.  Strings are BYTE strings in the semantics; the helpers work on "characters" =
   the UTF-8 sequences [utf8_chars s] (1-4 bytes by the leading byte; a truncated last sequence is one
   character), exactly as the implementation's reduce-over-a-string does. *)
From Ucg Require Import base.Bytes_Lemmas sem.Sem std.Std_Fuel std.Sem_Import std.Sem_Import_Lemmas
     std.Std_Rules_Imp std.Std_Rules_Imp2 std.StdSpec std.StdSpec_Imp std.Imp_Base std.Imp_Lists.

Section Strings.
  Variable fo : float_ops.
  Notation value := (value fo).
  Notation VInt := (VInt fo).
  Notation VStr := (VStr fo).
  Notation VBool := (VBool fo).
  Notation VNull := (VNull fo).
  Notation VList := (VList fo).
  Notation VTuple := (VTuple fo).
  Notation VFunc := (VFunc fo).
  Notation VModule := (VModule fo).
  Notation evals := (evals fo std_imports []).
  Notation calls := (calls fo std_imports []).
  Notation copies := (copies fo std_imports []).
  Notation fits_chk := (fits_chk fo).

  Definition chars (s : bytes) : list bytes := utf8_chars s.
  Definition N (s : bytes) : Z := Z.of_nat (List.length (chars s)).

  (* ---- the module `ops` of the linked strings library and its parts ---- *)
  Definition ops_v : value := member fo strings_path "ops".
  Definition ops_pkg_clo := pkg_clo fo ops_v.
  Definition ops_out : option expr := Eval vm_compute in mod_out fo ops_v.
  Definition ops_body : list stmt := Eval vm_compute in mod_body fo ops_v.
  Definition ops_pkg : value := VFunc [] (EImport strings_path) ops_pkg_clo.
  Definition ops_m : value := VModule [(b "str", VStr []); (b "pkg", ops_pkg)] ops_out ops_body.
  Lemma ops_v_eq : ops_v = ops_m.
  Proof. vm_compute. reflexivity. Qed.
  Lemma strings_index_ops c : index fo c (import_value fo strings_path) (VStr (b "ops")) = Ok ops_v.
  Proof. destruct c. vm_compute. reflexivity. Qed.

  Definition stmt_expr (n : nat) (body : list stmt) : expr :=
    match nth n body (SExpr ENull) with SLet _ e => e | _ => ENull end.
  Definition e_mod_out (e : expr) : option expr := match e with EModule _ o _ => o | _ => None end.
  Definition e_mod_body (e : expr) : list stmt := match e with EModule _ _ bd => bd | _ => [] end.
  Definition e_fn_body (e : expr) : expr := match e with EFunc _ bd => bd | _ => ENull end.

  Definition split_on_out := Eval vm_compute in e_mod_out (stmt_expr 4 ops_body).
  Definition split_on_body := Eval vm_compute in e_mod_body (stmt_expr 4 ops_body).
  Definition split_at_body := Eval vm_compute in e_fn_body (stmt_expr 5 ops_body).
  Definition pi_out := Eval vm_compute in e_mod_out (stmt_expr 6 ops_body).
  Definition pi_body := Eval vm_compute in e_mod_body (stmt_expr 6 ops_body).
  Definition pif_body := Eval vm_compute in e_fn_body (stmt_expr 7 ops_body).
  Definition substr_out := Eval vm_compute in e_mod_out (stmt_expr 8 ops_body).
  Definition substr_body := Eval vm_compute in e_mod_body (stmt_expr 8 ops_body).

  Definition pkgf (clo : scope fo) : value := VFunc [] (EImport strings_path) clo.

  (* ---- the value of ops{str = s} ---- *)
  Definition Mt (s : bytes) : value := VTuple [(b "str", VStr s); (b "pkg", ops_pkg); (b "this", ops_m)].
  Definition T0 s : scope fo := [(b "mod", Mt s)].
  Definition T1 s : scope fo := (b "lists", import_value fo lists_path) :: T0 s.
  Definition T2 s : scope fo := (b "len", VInt (N s)) :: T1 s.
  Definition T3 s : scope fo := (b "str", VStr s) :: T2 s.
  Definition T4 s : scope fo := (b "chars", VList (map VStr (chars s))) :: T3 s.
  Definition Vsplit_on s : value :=
    VModule [(b "on", VStr (b " ")); (b "buf", VStr []); (b "out", VList []); (b "str", VStr s); (b "pkg", pkgf (T4 s))]
            split_on_out split_on_body.
  Definition T5 s : scope fo := (b "split_on", Vsplit_on s) :: T4 s.
  Definition Vsplit_at s : value := VFunc [b "idx"] split_at_body (T5 s).
  Definition T6 s : scope fo := (b "split_at", Vsplit_at s) :: T5 s.
  Definition Vparse_int s : value :=
    VModule [(b "chars", VList []); (b "acc", VStr []); (b "pkg", pkgf (T6 s))] pi_out pi_body.
  Definition T7 s : scope fo := (b "parse_int", Vparse_int s) :: T6 s.
  Definition Vpif s : value := VFunc [] pif_body (T7 s).
  Definition T8 s : scope fo := (b "parse_int_func", Vpif s) :: T7 s.
  Definition Vsubstr s : value :=
    VModule [(b "str", VStr s); (b "start", VInt 0); (b "end", VInt (N s)); (b "pkg", pkgf (T8 s))] substr_out substr_body.
  Definition T9 s : scope fo := (b "substr", Vsubstr s) :: T8 s.
  Definition ops_tuple (s : bytes) : value :=
    VTuple [(b "len", VInt (N s)); (b "str", VStr s); (b "chars", VList (map VStr (chars s)));
            (b "split_on", Vsplit_on s); (b "split_at", Vsplit_at s); (b "substr", Vsubstr s);
            (b "parse_int", Vpif s)].

  Definition step_chars (a : value) (ch : bytes) : value :=
    match a with Sem.VList _ x => VList (x ++ [VStr ch]) | _ => a end.
  Lemma fold_step_chars cs x : fold_left step_chars cs (VList x) = VList (x ++ map VStr cs).
  Proof.
    revert x. induction cs as [|c cs IH]; intros x; cbn [fold_left map step_chars].
    - rewrite app_nil_r. reflexivity.
    - rewrite IH, <- app_assoc. reflexivity.
  Qed.

  (* keep the scope folded: the closures created below capture it, and their normal forms nest *)
  Ltac nxt T :=
    lazymatch goal with
    | |- Std_Rules_Imp.execs _ _ _ (Build_ctx _ ?sc0 ?slf ?E ?st ?ord) ?ss ?r =>
      change (Std_Rules_Imp.execs fo std_imports [] (Build_ctx fo T slf E st ord) ss r)
    end.

  Lemma index_tuple_lookup' c fs k v : lookup fo k fs = Some v -> index fo c (VTuple fs) (VStr k) = Ok v.
  Proof. intros H. unfold index. rewrite H. reflexivity. Qed.

  Lemma ops_copies c e s :
    fits (N s) ->
    evals (with_self fo c (Some ops_m)) e (VStr s) -> copies c ops_m [(b "str", e)] (ops_tuple s).
  Proof.
    intros Hfit He. destruct c as [s0 slf E st ord]. unfold ops_m in *.
    eapply copies_module'.
    - eapply evf_cons; [exact He|reflexivity|iv1].
    - reflexivity.
    - reflexivity.
    - unfold ops_body. nxt (T0 s).
      eapply execs_let'; [apply ev_import_std, in_lists|reflexivity|reflexivity|]. nxt (T1 s).
      eapply execs_let'; [|reflexivity|reflexivity|].
      { eapply ev_dot_call; [ivs; reflexivity|iv1|apply lists_index_len|apply len_calls_str, Hfit]. }
      nxt (T2 s).
      eapply execs_let'; [dotsym|reflexivity|reflexivity|]. nxt (T3 s).
      eapply execs_let'; [|reflexivity|reflexivity|].
      { eapply evals_eq.
        - eapply (reduce_str_is_fold_pre fo std_imports []) with (I := fun _ a => exists x, a = VList x) (step := step_chars).
          + iv1.
          + ivs.
          + dotsym.
          + exists []. reflexivity.
          + intros pre ch post a _ [x ->]. split; [|eexists; reflexivity].
            eapply calls_intro; [reflexivity|reflexivity|]. eapply ev_add; [iv1|ivs|reflexivity].
        - apply (fold_step_chars (utf8_chars s) []). }
      nxt (T4 s).
      eapply execs_let'; [|reflexivity|reflexivity|].
      { eapply ev_module_lit. fld1. fld1. flds. fldd. fld1. iv1. }
      nxt (T5 s).
      eapply execs_let'; [iv1|reflexivity|reflexivity|]. nxt (T6 s).
      eapply execs_let'; [|reflexivity|reflexivity|].
      { eapply ev_module_lit. flds. fld1. fld1. iv1. }
      nxt (T7 s).
      eapply execs_let'; [iv1|reflexivity|reflexivity|]. nxt (T8 s).
      eapply execs_let'; [|reflexivity|reflexivity|].
      { eapply ev_module_lit. fldd. fld1. fld1. fld1. iv1. }
      nxt (T9 s).
      apply execs_nil'.
    - unfold ops_out, ops_tuple, T9, T8, T7, T6, T5. iv1. fld1. fld1. fld1. fld1. fld1. fld1. fld1. iv1.
  Qed.

  (* ---- wrap ---- *)
  Definition wrap_v : value := member fo strings_path "wrap".
  Definition wrap_clo := fn_clo fo wrap_v.
  Definition wrap_body : expr := Eval vm_compute in fn_body fo wrap_v.
  Lemma wrap_v_eq : wrap_v = VFunc [b "str"] wrap_body wrap_clo.
  Proof. vm_compute. reflexivity. Qed.
  Lemma wrap_clo_ops : lookup fo (b "ops") wrap_clo = Some ops_m.
  Proof. vm_compute. reflexivity. Qed.
  Lemma strings_index_wrap c : index fo c (import_value fo strings_path) (VStr (b "wrap")) = Ok wrap_v.
  Proof. destruct c. vm_compute. reflexivity. Qed.

  Lemma wrap_calls c s : fits (N s) -> calls c wrap_v [VStr s] (ops_tuple s).
  Proof.
    intros Hfit. rewrite wrap_v_eq. eapply calls_intro; [reflexivity|reflexivity|]. unfold wrap_body.
    eapply ev_copy; [apply ev_sym; [reflexivity|exact wrap_clo_ops]|].
    apply ops_copies; [exact Hfit|]. iv1.
  Qed.

  (* (import "std/strings.ucg").wrap(arg) *)
  Definition wrap_arg : expr := imp_call strings_path "wrap" ["arg"%string].
  Lemma wrap_arg_evals E st ord sc0 s :
    fits (N s) -> lookup fo (b "arg") sc0 = Some (VStr s) ->
    evals (Build_ctx fo sc0 None E st ord) wrap_arg (ops_tuple s).
  Proof.
    intros Hfit Hl. unfold wrap_arg, imp_call. cbn [map].
    eapply ev_dot_call; [|apply ev_import_std, in_strings|apply strings_index_wrap|apply wrap_calls, Hfit].
    eapply evl_cons; [apply ev_sym; [reflexivity|exact Hl]|iv1].
  Qed.

  (* len counts characters, str is the string, chars are the characters *)
  Theorem std_strings_len : forall E st ord s, fits (N s) ->
      exists f, eval_imp fo std_imports f [] (ctx_gen fo E st ord [(b "arg", VStr s)]) (EBin DOT wrap_arg (ESym (b "len")))
                = Ok (VInt (Z.of_nat (List.length (utf8_chars s)))).
  Proof. intros. unfold ctx_gen. eapply ev_dot_sym; [eapply wrap_arg_evals; [eassumption|reflexivity]|reflexivity]. Qed.
  Theorem std_strings_str : forall E st ord s, fits (N s) ->
      exists f, eval_imp fo std_imports f [] (ctx_gen fo E st ord [(b "arg", VStr s)]) (EBin DOT wrap_arg (ESym (b "str")))
                = Ok (VStr s).
  Proof. intros. unfold ctx_gen. eapply ev_dot_sym; [eapply wrap_arg_evals; [eassumption|reflexivity]|reflexivity]. Qed.
  Theorem std_strings_chars : forall E st ord s, fits (N s) ->
      exists f, eval_imp fo std_imports f [] (ctx_gen fo E st ord [(b "arg", VStr s)]) (EBin DOT wrap_arg (ESym (b "chars")))
                = Ok (VList (map VStr (utf8_chars s))).
  Proof. intros. unfold ctx_gen. eapply ev_dot_sym; [eapply wrap_arg_evals; [eassumption|reflexivity]|reflexivity]. Qed.

  (* ---- split_at ---- *)
  Definition sa_acc (j : Z) (L R : bytes) : value :=
    VTuple [(b "counter", VInt j); (b "left", VStr L); (b "right", VStr R)].
  Definition sa_reducer_body : expr :=
    Eval vm_compute in match split_at_body with EFilter _ (EReduce (EFunc _ bd) _ _) => bd | _ => ENull end.

  Lemma sa_step c clo idx j L R ch :
    lookup fo (b "idx") clo = Some (VInt idx) -> fits (j + 1) ->
    calls c (VFunc [b "acc"; b "char"] sa_reducer_body clo) [sa_acc j L R; VStr ch]
          (sa_acc (j + 1) (if (j <? idx)%Z then L ++ ch else L) (if (j <? idx)%Z then R else R ++ ch)).
  Proof.
    intros Hidx Hfit. eapply calls_intro; [reflexivity|reflexivity|]. unfold sa_reducer_body.
    assert (Hge : (idx <=? j)%Z = negb (j <? idx)%Z) by apply Z.leb_antisym.
    destruct (j <? idx)%Z eqn:Hlt; cbn [negb] in Hge.
    - eapply ev_copy; [iv1|]. eapply copies_tuple.
      { eapply evf_cons; [|reflexivity|].
        { eapply ev_add; [dotsym|iv1|]. cbn [arith' arith]. apply fits_chk, Hfit. }
        eapply evf_cons; [|reflexivity|].
        { eapply ev_select.
          - eapply ev_cmp; [reflexivity|dotsym|apply ev_sym; [reflexivity|exact Hidx]|reflexivity].
          - cbn [compare_num]. rewrite Hlt. reflexivity.
          - eapply ev_add; [dotsym|iv1|reflexivity]. }
        eapply evf_cons; [|reflexivity|iv1].
        eapply ev_select.
        + eapply ev_cmp; [reflexivity|dotsym|apply ev_sym; [reflexivity|exact Hidx]|reflexivity].
        + cbn [compare_num]. rewrite Hge. reflexivity.
        + dotsym. }
      reflexivity.
    - eapply ev_copy; [iv1|]. eapply copies_tuple.
      { eapply evf_cons; [|reflexivity|].
        { eapply ev_add; [dotsym|iv1|]. cbn [arith' arith]. apply fits_chk, Hfit. }
        eapply evf_cons; [|reflexivity|].
        { eapply ev_select.
          - eapply ev_cmp; [reflexivity|dotsym|apply ev_sym; [reflexivity|exact Hidx]|reflexivity].
          - cbn [compare_num]. rewrite Hlt. reflexivity.
          - dotsym. }
        eapply evf_cons; [|reflexivity|iv1].
        eapply ev_select.
        + eapply ev_cmp; [reflexivity|dotsym|apply ev_sym; [reflexivity|exact Hidx]|reflexivity].
        + cbn [compare_num]. rewrite Hge. reflexivity.
        + eapply ev_add; [dotsym|iv1|reflexivity]. }
      reflexivity.
  Qed.

  Definition sa_step_fn (idx : Z) (a : value) (ch : bytes) : value :=
    match a with
    | Sem.VTuple _ [(_, Sem.VInt _ j); (_, Sem.VStr _ L); (_, Sem.VStr _ R)] =>
      sa_acc (j + 1) (if (j <? idx)%Z then L ++ ch else L) (if (j <? idx)%Z then R else R ++ ch)
    | _ => a
    end.

  Lemma concat_snoc {A} (l : list (list A)) x : concat (l ++ [x]) = concat l ++ x.
  Proof. rewrite concat_app. cbn. rewrite app_nil_r. reflexivity. Qed.
  Lemma firstn_snoc {A} k (pre : list A) x :
    firstn k (pre ++ [x]) = if (List.length pre <? k)%nat then firstn k pre ++ [x] else firstn k pre.
  Proof.
    rewrite firstn_app. destruct (Nat.ltb_spec (List.length pre) k) as [H|H].
    - destruct (k - List.length pre)%nat eqn:E; [lia|]. cbn. rewrite firstn_nil. reflexivity.
    - replace (k - List.length pre)%nat with 0%nat by lia. cbn. apply app_nil_r.
  Qed.
  Lemma skipn_snoc {A} k (pre : list A) x :
    skipn k (pre ++ [x]) = if (List.length pre <? k)%nat then skipn k pre else skipn k pre ++ [x].
  Proof.
    rewrite skipn_app. destruct (Nat.ltb_spec (List.length pre) k) as [H|H].
    - destruct (k - List.length pre)%nat eqn:E; [lia|]. cbn. rewrite skipn_nil. apply app_nil_r.
    - replace (k - List.length pre)%nat with 0%nat by lia. reflexivity.
  Qed.

  (* split_at(idx): the characters before index idx, and the rest *)
  Lemma split_at_calls c s idx :
    fits (N s) ->
    calls c (Vsplit_at s) [VInt idx]
          (VTuple [(b "left", VStr (concat (firstn (Z.to_nat idx) (chars s))));
                   (b "right", VStr (concat (skipn (Z.to_nat idx) (chars s))))]).
  Proof.
    intros Hfit. set (k := Z.to_nat idx).
    eapply calls_intro; [reflexivity|reflexivity|]. unfold split_at_body.
    destruct (reduce_str_is_fold_pre fo std_imports []
                (fctx fo c ((b "idx", VInt idx) :: T5 s))
                (EFunc [b "acc"; b "char"] sa_reducer_body)
                (ETuple [(b "counter", EInt 0); (b "left", EStr []); (b "right", EStr [])])
                (EBin DOT (ESym (b "mod")) (ESym (b "str")))
                (b "acc") (b "char") sa_reducer_body ((b "idx", VInt idx) :: T5 s)
                (sa_acc 0 [] []) s
                (fun pre a => a = sa_acc (Z.of_nat (List.length pre)) (concat (firstn k pre)) (concat (skipn k pre)))
                (sa_step_fn idx)) as [Hev HI].
    - apply ev_func.
    - iv1. fld1. fld1. fld1. iv1.
    - dotsym.
    - unfold sa_acc. rewrite firstn_nil, skipn_nil. reflexivity.
    - intros pre ch post a El ->. cbn [sa_step_fn sa_acc].
      assert (Hj : (Z.of_nat (List.length pre) + 1 <= N s)%Z).
      { unfold N, chars. rewrite El, app_length. cbn [List.length]. lia. }
      split.
      + apply sa_step; [reflexivity|].
        apply (fits_between _ 0 (N s)); [apply fits_0|exact Hfit|lia].
      + rewrite app_length, firstn_snoc, skipn_snoc. cbn [List.length].
        replace (Z.of_nat (List.length pre + 1)) with (Z.of_nat (List.length pre) + 1)%Z by lia.
        assert (Hb : (Z.of_nat (List.length pre) <? idx)%Z = (List.length pre <? k)%nat).
        { unfold k. destruct (Z.ltb_spec (Z.of_nat (List.length pre)) idx), (Nat.ltb_spec (List.length pre) (Z.to_nat idx)); try reflexivity; lia. }
        rewrite Hb. destruct (List.length pre <? k)%nat.
        * pose proof (@concat_snoc ascii (firstn k pre) ch) as Hc. change (list ascii) with bytes in Hc. rewrite Hc. reflexivity.
        * pose proof (@concat_snoc ascii (skipn k pre) ch) as Hc. change (list ascii) with bytes in Hc. rewrite Hc. reflexivity.
    - rewrite HI in Hev.
      eapply evals_eq.
      + eapply (ev_filter_tuple fo std_imports []) with (keepf := fun k' _ => negb (bytes_eqb k' (b "counter"))).
        * apply ev_func.
        * exact Hev.
        * intros k' v _. exists (VBool (negb (bytes_eqb k' (b "counter")))). split.
          -- eapply calls_intro; [reflexivity|reflexivity|].
             eapply ev_neq; [iv1|iv1|reflexivity|]. exists 1. reflexivity.
          -- destruct (bytes_eqb k' (b "counter")); reflexivity.
      + reflexivity.
  Qed.

  Theorem std_strings_split_at : forall E st ord s idx, fits (N s) ->
      exists f, eval_imp fo std_imports f [] (ctx_gen fo E st ord [(b "arg2", VInt idx); (b "arg", VStr s)])
                         (EBin DOT wrap_arg (ECall (ESym (b "split_at")) [ESym (b "arg2")]))
                = Ok (VTuple [(b "left", VStr (concat (firstn (Z.to_nat idx) (utf8_chars s))));
                              (b "right", VStr (concat (skipn (Z.to_nat idx) (utf8_chars s))))]).
  Proof.
    intros E st ord s idx Hfit. unfold ctx_gen.
    eapply ev_dot_call; [ivs|eapply wrap_arg_evals; [eassumption|reflexivity]|reflexivity|apply split_at_calls, Hfit].
  Qed.

  (* ---- substr ---- *)
  Lemma utf8_len_pos c : (1 <= utf8_len c)%nat.
  Proof. unfold utf8_len. repeat destruct (N.ltb _ _); lia. Qed.
  Lemma utf8_fuel_concat : forall f s, (List.length s <= f)%nat -> concat (utf8_chars_fuel f s) = s.
  Proof.
    induction f as [|f IH]; intros s Hl.
    - destruct s; [reflexivity|cbn in Hl; lia].
    - destruct s as [|c s']; [reflexivity|]. cbn [utf8_chars_fuel concat].
      rewrite IH; [apply firstn_skipn|].
      rewrite skipn_length. pose proof (utf8_len_pos c). cbn [List.length] in *. lia.
  Qed.
  Lemma utf8_concat s : concat (utf8_chars s) = s.
  Proof. apply utf8_fuel_concat. lia. Qed.
  Lemma utf8_fuel_count : forall f s, (List.length (utf8_chars_fuel f s) <= List.length s)%nat.
  Proof.
    induction f as [|f IH]; intros s; [cbn; lia|].
    destruct s as [|c s']; [cbn; lia|]. cbn [utf8_chars_fuel List.length].
    specialize (IH (skipn (utf8_len c) (c :: s'))). rewrite skipn_length in IH.
    pose proof (utf8_len_pos c). cbn [List.length] in *. lia.
  Qed.
  Lemma N_le_bytes s : (N s <= Z.of_nat (List.length s))%Z.
  Proof. unfold N, chars, utf8_chars. pose proof (utf8_fuel_count (List.length s) s). lia. Qed.

  Lemma pick_snoc a b' : forall pre j ch,
      pick a b' j (pre ++ [ch]) =
      pick a b' j pre ++ (if Z.leb a (j + Z.of_nat (List.length pre)) && Z.leb (j + Z.of_nat (List.length pre)) b' then ch else []).
  Proof.
    induction pre as [|c pre IH]; intros j ch; cbn [pick app List.length].
    - rewrite Z.add_0_r, app_nil_r. reflexivity.
    - rewrite IH, app_assoc. replace (j + 1 + Z.of_nat (List.length pre))%Z with (j + Z.of_nat (S (List.length pre)))%Z by lia.
      reflexivity.
  Qed.
  Lemma pick_length a b' : forall cs j, (List.length (pick a b' j cs) <= List.length (concat cs))%nat.
  Proof.
    induction cs as [|c cs IH]; intros j; cbn [pick concat]; [lia|].
    rewrite !app_length. specialize (IH (j + 1)%Z). destruct (_ && _); cbn [List.length]; lia.
  Qed.

  Definition sub_acc (j : Z) (S' : bytes) : value := VTuple [(b "counter", VInt j); (b "str", VStr S')].
  Definition sub_reducer_body : expr :=
    Eval vm_compute in e_fn_body (stmt_expr 1 substr_body).

  Lemma sub_step c clo flds a b' j S' ch :
    lookup fo (b "mod") clo = Some (VTuple flds) ->
    lookup fo (b "start") flds = Some (VInt a) -> lookup fo (b "end") flds = Some (VInt b') ->
    fits (j + 1) ->
    calls c (VFunc [b "acc"; b "char"] sub_reducer_body clo) [sub_acc j S'; VStr ch]
          (sub_acc (j + 1) (if Z.leb a j && Z.leb j b' then S' ++ ch else S')).
  Proof.
    intros Hmod Hst Hen Hfit. eapply calls_intro; [reflexivity|reflexivity|]. unfold sub_reducer_body.
    assert (Hcond : forall cc, lookup fo (b "mod") (sc fo cc) = Some (VTuple flds) ->
                              lookup fo (b "acc") (sc fo cc) = Some (sub_acc j S') ->
              Std_Rules_Imp.evals fo std_imports [] cc
                (EBin AND (EGroup (EBin GTEqual (EBin DOT (ESym (b "acc")) (ESym (b "counter"))) (EBin DOT (ESym (b "mod")) (ESym (b "start")))))
                          (EGroup (EBin LTEqual (EBin DOT (ESym (b "acc")) (ESym (b "counter"))) (EBin DOT (ESym (b "mod")) (ESym (b "end"))))))
                (VBool (Z.leb a j && Z.leb j b'))).
    { intros cc H1 H2.
      assert (Hc1 : Std_Rules_Imp.evals fo std_imports [] cc (EGroup (EBin GTEqual (EBin DOT (ESym (b "acc")) (ESym (b "counter"))) (EBin DOT (ESym (b "mod")) (ESym (b "start"))))) (VBool (Z.leb a j))).
      { iv1. eapply ev_cmp.
        - reflexivity.
        - eapply ev_dot_sym; [apply ev_sym; [reflexivity|exact H2]|reflexivity].
        - eapply ev_dot_sym; [apply ev_sym; [reflexivity|exact H1]|apply index_tuple_lookup', Hst].
        - reflexivity. }
      destruct (Z.leb a j).
      - eapply ev_and_true; [exact Hc1|]. iv1. eapply ev_cmp.
        + reflexivity.
        + eapply ev_dot_sym; [apply ev_sym; [reflexivity|exact H2]|reflexivity].
        + eapply ev_dot_sym; [apply ev_sym; [reflexivity|exact H1]|apply index_tuple_lookup', Hen].
        + reflexivity.
      - apply ev_and_false. exact Hc1. }
    destruct (Z.leb a j && Z.leb j b') eqn:Hb.
    - eapply ev_copy; [iv1|]. eapply copies_tuple.
      { eapply evf_cons; [|reflexivity|].
        { eapply ev_add; [dotsym|iv1|]. cbn [arith' arith]. apply fits_chk, Hfit. }
        eapply evf_cons; [|reflexivity|iv1].
        eapply ev_select.
        - apply Hcond; [exact Hmod|reflexivity].
        - reflexivity.
        - eapply ev_add; [dotsym|iv1|reflexivity]. }
      reflexivity.
    - eapply ev_copy; [iv1|]. eapply copies_tuple.
      { eapply evf_cons; [|reflexivity|].
        { eapply ev_add; [dotsym|iv1|]. cbn [arith' arith]. apply fits_chk, Hfit. }
        eapply evf_cons; [|reflexivity|iv1].
        eapply ev_select.
        - apply Hcond; [exact Hmod|reflexivity].
        - reflexivity.
        - dotsym. }
      reflexivity.
  Qed.

  Definition sub_step_fn (a b' : Z) (x : value) (ch : bytes) : value :=
    match x with
    | Sem.VTuple _ [(_, Sem.VInt _ j); (_, Sem.VStr _ S')] =>
      sub_acc (j + 1) (if Z.leb a j && Z.leb j b' then S' ++ ch else S')
    | _ => x
    end.

  (* instantiating the `substr` member of ops{str = s} with start = a, end = b:
     the result is the ops-wrapped substring *)
  Definition subflds (s : bytes) (a b' : Z) : list (bytes * value) :=
    [(b "str", VStr s); (b "start", VInt a); (b "end", VInt b'); (b "pkg", pkgf (T8 s))].
  (* generic in the override list: whatever fields are given, as long as the merged parameters are
     str = s, start = a, end = b *)
  Lemma substr_copies_gen c s fs ovs a b' :
    fits (Z.of_nat (List.length s)) ->
    Std_Rules_Imp.evals_fields fo std_imports [] (with_self fo c (Some (Vsubstr s))) fs [] ovs ->
    merge_fields fo (mod_params fo (Vsubstr s)) ovs = Ok (subflds s a b') ->
    copies c (Vsubstr s) fs (ops_tuple (pick a b' 0 (chars s))).
  Proof.
    intros Hfit Hfs Hmerge. destruct c as [s0 slf E st ord]. unfold Vsubstr in *.
    pose proof (N_le_bytes s) as HN.
    assert (HfN : fits (N s)).
    { apply (fits_between _ 0 (Z.of_nat (List.length s))); [apply fits_0|exact Hfit|unfold N in *; lia]. }
    set (flds := [(b "str", VStr s); (b "start", VInt a); (b "end", VInt b'); (b "pkg", pkgf (T8 s));
                  (b "this", VModule [(b "str", VStr s); (b "start", VInt 0); (b "end", VInt (N s)); (b "pkg", pkgf (T8 s))] substr_out substr_body)]).
    eapply copies_module'.
    - exact Hfs.
    - exact Hmerge.
    - reflexivity.
    - unfold substr_body.
      eapply execs_let'; [|reflexivity|reflexivity|].
      { eapply ev_dot_call; [iv1|iv1|reflexivity|]. unfold pkgf.
        eapply calls_intro; [reflexivity|reflexivity|]. apply ev_import_std, in_strings. }
      eapply execs_let'; [iv1|reflexivity|reflexivity|].
      eapply execs_let'; [|reflexivity|reflexivity|apply execs_nil'].
      eapply ev_dot_copy; [iv1|apply strings_index_ops|]. rewrite ops_v_eq.
      apply (ops_copies _ _ (pick a b' 0 (chars s))).
      + apply (fits_between _ 0 (Z.of_nat (List.length s))); [apply fits_0|exact Hfit|].
        pose proof (N_le_bytes (pick a b' 0 (chars s))) as Hp1. pose proof (pick_length a b' (chars s) 0%Z) as Hp2.
        unfold chars in Hp1, Hp2 |- *. rewrite utf8_concat in Hp2. split; [unfold N; lia|]. lia.
      + match goal with |- Std_Rules_Imp.evals _ _ _ ?cc (EBin DOT (EReduce ?fe ?ae ?te) _) _ =>
          destruct (reduce_str_is_fold_pre fo std_imports [] cc fe ae te (b "acc") (b "char") sub_reducer_body
                      ((b "pkg", import_value fo strings_path) :: [(b "mod", VTuple flds)])
                      (sub_acc 0 []) s
                      (fun pre x => x = sub_acc (Z.of_nat (List.length pre)) (pick a b' 0 pre))
                      (sub_step_fn a b')) as [Hev HI]
        end.
        * iv1.
        * iv1. fld1. fld1. iv1.
        * dotsym.
        * reflexivity.
        * intros pre ch post x El ->. cbn [sub_step_fn sub_acc].
          assert (Hj : (Z.of_nat (List.length pre) + 1 <= N s)%Z).
          { unfold N, chars. rewrite El, app_length. cbn [List.length]. lia. }
          split.
          -- eapply sub_step; [reflexivity|reflexivity|reflexivity|].
             apply (fits_between _ 0 (N s)); [apply fits_0|exact HfN|lia].
          -- rewrite app_length, pick_snoc. cbn [List.length]. rewrite Z.add_0_l.
             replace (Z.of_nat (List.length pre + 1)) with (Z.of_nat (List.length pre) + 1)%Z by lia.
             destruct (_ && _); [reflexivity|rewrite app_nil_r; reflexivity].
        * rewrite HI in Hev. eapply ev_dot_sym; [exact Hev|reflexivity].
    - unfold substr_out. iv1.
  Qed.

  Lemma substr_copies c s e1 e2 a b' :
    fits (Z.of_nat (List.length s)) ->
    evals (with_self fo c (Some (Vsubstr s))) e1 (VInt a) ->
    evals (with_self fo c (Some (Vsubstr s))) e2 (VInt b') ->
    copies c (Vsubstr s) [(b "start", e1); (b "end", e2)] (ops_tuple (pick a b' 0 (chars s))).
  Proof.
    intros Hfit H1 H2.
    eapply substr_copies_gen with (ovs := [(b "start", VInt a); (b "end", VInt b')]); [exact Hfit| |reflexivity].
    eapply evf_cons; [exact H1|reflexivity|]. eapply evf_cons; [exact H2|reflexivity|iv1].
  Qed.

  (* wrap(arg).substr{start = arg2, end = arg3}.str *)
  Theorem std_strings_substr : forall E st ord s a b',
      fits (Z.of_nat (List.length s)) ->
      exists f, eval_imp fo std_imports f []
                  (ctx_gen fo E st ord [(b "arg3", VInt b'); (b "arg2", VInt a); (b "arg", VStr s)])
                  (EBin DOT (EBin DOT wrap_arg (ECopy (ESym (b "substr")) [(b "start", ESym (b "arg2")); (b "end", ESym (b "arg3"))]))
                            (ESym (b "str")))
                = Ok (VStr (pick a b' 0 (utf8_chars s))).
  Proof.
    intros E st ord s a b' Hfit. unfold ctx_gen.
    assert (HfN : fits (N s)).
    { pose proof (N_le_bytes s). apply (fits_between _ 0 (Z.of_nat (List.length s))); [apply fits_0|exact Hfit|unfold N in *; lia]. }
    eapply ev_dot_sym.
    - eapply ev_dot_copy; [eapply wrap_arg_evals; [exact HfN|reflexivity]|reflexivity|].
      apply substr_copies; [exact Hfit|iv1|iv1].
    - reflexivity.
  Qed.
End Strings.
