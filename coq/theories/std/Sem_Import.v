(* DESIGN NOTE (no code): what it would take to prove the helpers that use `mod.pkg()` or
   `import "std/..."` -- lists.zip, lists.slice, lists.ops, tuples.has_fields, tuples.field_type,
   tuples.ops, the string helpers of std/strings.ucg, schema.{all,any,shaped}, functional.maybe.

   Why they are out of reach today.  sem/Sem.v answers [Unsup] for [EImport], and a module value
   [VModule params out body] carries no `pkg` field, so inside a module body `mod.pkg` is a missing
   field (NULL / error), and `mod.pkg()` is a call of a non-function: [Err].  Sem.v must stay as it is
   (it is the definitional semantics tied to the VM by C01), so the extension has to wrap it.

   1. Import table.  A parameter [imports : bytes -> option prog] (path -> parsed file; the
      generated terms of gen/StdLib.v give the five std entries, keyed "std/lists.ucg" ...).
      Evaluation of [EImport p] = run [imports p] in the EMPTY scope with the same env/strictness and
      return [VTuple (export_scope s false)] (the reference: "import evaluates the file and yields a
      tuple of its bindings").  Import cycles: the implementation detects them through an import
      stack and fails; model it with a visited list of paths in the context, [Err] on re-entry.
      Imports are memoised in the implementation; since evaluation is pure that is unobservable
      except through TRACE output, so the model can re-evaluate.

   2. `mod.pkg`.  In the implementation a module DEFINED in file P gets an extra field
      `pkg = func() => import "P"` in its `mod` tuple at definition time (ast/walk + vm: the
      module's "pkg_ptr").  So [VModule] needs the defining path: either a new value constructor
      [VModuleP (path) ps out body], or -- without touching [value] -- store the path as a reserved
      hidden parameter (e.g. key "\000pkg") that [copy_into] turns into
      [(b "pkg", VFunc [] (EImport path) [])] when it builds [mod].  The second keeps every existing
      theorem about [value] intact and needs only: (a) [EModule] evaluation takes the current file
      path from the context (new ctx field [file : option bytes]; top-level files set it; `import`
      sets it for the imported program); (b) [copy_into] adds the pkg field before `this`.

   3. Shape of the wrapper.  Because [eval]/[copy_into]/[exec_list] are closed mutual fixpoints,
      a wrapper cannot intercept [EImport] inside them.  Two options:
        (a) [Sem_Import.eval_i]: a copy of the three fixpoints with the two extra cases, plus a
            conservativity theorem  "no EImport/pkg reachable -> eval_i = eval"  proved by the same
            induction as [Std_Fuel.mono_all] (each case is [le_res]-style congruence).  All rules of
            Std_Rules.v are then re-derived for [eval_i] by replaying their (equation-based) proofs:
            only the [eval_S_*] equations mention the fixpoint.
        (b) Pre-linking: a syntactic pass [link : (bytes -> option prog) -> expr -> expr] that
            replaces [EImport p] by an expression that rebuilds the file's export tuple
            (a module-less encoding: `ECopy (EModule [] None prog_p) []` evaluates prog_p in a fresh
            scope and exports it -- exactly the import semantics, already inside Sem.v), and that
            adds the `pkg` parameter `pkg = func() => <linked import of P>` to every [EModule] of
            file P.  Recursion (lists.ops -> pkg.ops) is fine because `pkg` is a function: linking
            is lazy under the [EFunc].  But a literal unfolding is infinite (pkg of lists mentions
            every module of lists, each of which carries pkg ...), so [link] must be fuel-indexed
            or tie the knot through the scope: bind the import thunk ONCE per file as a closure
            value in the initial scope instead of as syntax.  Modules are hermetic (their bodies see
            only `mod`), so the thunk has to travel in the parameters: that is again 2.
      Recommendation: (a) with the hidden-parameter encoding of 2; est. 250 lines for the
      fixpoints + conservativity, after which zip/slice/has_fields follow the pattern of
      Std_Enumerate.v (reduce_list_inv over the index range, [range_from] characterised by
      [seq]), with the side conditions  len1,len2 <= range_limit (Sem answers Unsup above 10^6).

   4. Expected statements (for the record).
        zip{list1,list2}      = [[x_i, y_i]] for i < min(len1,len2);  note `0:(len-1)` with an empty
                                list is the range 0:-1 = [] -- fine -- but with strict=true nothing
                                changes; with NULL list arguments the module defaults apply.
        slice{start,end,list} = [list_i | start <= i <= end]; end defaults to len-1; the checks
                                are start >= 0, start <= len, end <= len, so end = len passes the
                                check and then indexes one past the end (NULL or error by
                                strictness): a candidate _refuted once imports are modelled.
        has_fields{tpl,fields}= forallb (fun f => f in keys tpl) fields.
*)
