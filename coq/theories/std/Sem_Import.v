(* M-SEM-IMPORT: the definitional evaluator of sem/Sem.v extended with `import` and `mod.pkg`.

   sem/Sem.v answers [Unsup] for [EImport] and has no `pkg`; it is left untouched (the compile-
   correctness proofs are about it).  This file defines

   * [link_prog path p] -- what the implementation does when a module is DEFINED in a file that has a
     path (src/build/opcode/vm.rs, op_module: `pkg_ptr` = the five-op function  func() => import "<path>";
     op_copy: the field `pkg` is merged into the module's `mod` tuple when the module is instantiated).
     We model it as a syntactic pass over the file: every module expression of the file (at any depth)
     gets one more parameter, LAST:   pkg = func() => import "<path>".
     Differences to the implementation, all invisible to programs that use `mod` only through
     `mod.<field>` and never pass a field called `pkg`:
       - position of `pkg` inside the `mod` tuple (implementation: after the override fields and `this`);
       - an explicit override `m{pkg = f}` wins here, is overwritten by the implementation;
       - the closure of the pkg function captures the defining scope here, is empty there
         (a closure is not observable: functions are neither comparable nor rendered).
   * [eval_imp imports] -- a copy of Sem.eval / copy_into / exec_list (generated from the text of
     Sem.v, lines 372-647) whose only change is the [EImport] case, parametrised by an import table
     [imports : bytes -> option prog] and threaded with the stack of files being imported:
       import p = cycle error                         if p is on the stack
                = error                               if the table has no p
                = VTuple (export_scope s false)       where s = the scope after running the file's
                                                      statements in the empty scope with p pushed
     (src/build/opcode/runtime.rs, Hook::Import: cache lookup, cycle check against import_stack, a fresh
     VM for the file, `symbols_to_tuple(true)` = all bindings in name order, functions and modules kept.
     The implementation caches the value of a finished import; evaluation is pure, so re-evaluating
     gives the same value -- the cache is not modelled.)
   * [std_imports] -- the table of the five generated library files, linked, keyed by the literal
     paths "std/<name>.ucg" under which the implementation registers its embedded library.
   Conservativity ([eval_imp_conservative] in Sem_Import_Lemmas.v): wherever Sem.eval gives a definite
   answer (Ok, Err, Fuel -- i.e. anything but Unsup) eval_imp gives the same answer. *)
From Ucg Require Export sem.Sem.
From UcgGen Require Import StdLib.

(* ------------------------------------------------------------------ *)
(* linking: the `pkg` parameter of the modules of a file                *)
Section Link.
  Variable path : bytes.
  Definition pkg_param : bytes * expr := (b "pkg", EFunc [] (EImport path)).

  Fixpoint link_expr (e : expr) : expr :=
    match e with
    | ENull | EBool _ | EInt _ | EFloat _ | EStr _ | ESym _ | EImport _ | EInclude _ _ => e
    | ETuple fs => ETuple (map (fun kv => (fst kv, link_expr (snd kv))) fs)
    | EList es => EList (map link_expr es)
    | EBin o l r => EBin o (link_expr l) (link_expr r)
    | ENot e1 => ENot (link_expr e1)
    | EGroup e1 => EGroup (link_expr e1)
    | ECopy t fs => ECopy (link_expr t) (map (fun kv => (fst kv, link_expr (snd kv))) fs)
    | ERange st stp en => ERange (link_expr st) (option_map link_expr stp) (link_expr en)
    | EFormatL parts args => EFormatL (map link_part parts) (map link_expr args)
    | EFormatS parts arg => EFormatS (map link_part parts) (link_expr arg)
    | ECall f args => ECall (link_expr f) (map link_expr args)
    | ECast c e1 => ECast c (link_expr e1)
    | EFunc ps body => EFunc ps (link_expr body)
    | ESelect v d arms => ESelect (link_expr v) (option_map link_expr d)
                                  (map (fun kv => (fst kv, link_expr (snd kv))) arms)
    | EMap f t => EMap (link_expr f) (link_expr t)
    | EFilter f t => EFilter (link_expr f) (link_expr t)
    | EReduce f a t => EReduce (link_expr f) (link_expr a) (link_expr t)
    | EModule ps out body =>
      EModule (map (fun kv => (fst kv, link_expr (snd kv))) ps ++ [pkg_param])
              (option_map link_expr out) (map link_stmt body)
    | EFail e1 => EFail (link_expr e1)
    | ETrace e1 => ETrace (link_expr e1)
    | EConvert t e1 => EConvert t (link_expr e1)
    end
  with link_part (p : tpart) : tpart :=
    match p with
    | PStr s => PStr s
    | PHole => PHole
    | PExpr e => PExpr (link_expr e)
    end
  with link_stmt (s : stmt) : stmt :=
    match s with
    | SLet x e => SLet x (link_expr e)
    | SExpr e => SExpr (link_expr e)
    | SAssert e => SAssert (link_expr e)
    | SOut t e => SOut t (link_expr e)
    end.
  Definition link_prog (p : prog) : prog := map link_stmt p.
End Link.

Local Arguments VNull {fo}. Local Arguments VBool {fo}. Local Arguments VInt {fo}. Local Arguments VFloat {fo}.
Local Arguments VStr {fo}. Local Arguments VList {fo}. Local Arguments VTuple {fo}. Local Arguments VFunc {fo}.
Local Arguments VModule {fo}.
Local Arguments lookup {fo}. Local Arguments veq {fo}. Local Arguments merge_field {fo}. Local Arguments merge_fields {fo}.
Local Arguments render {fo}. Local Arguments cast {fo}. Local Arguments arith' {fo}. Local Arguments compare_num {fo}.
Local Arguments range_from {fo}. Local Arguments export_scope {fo}. Local Arguments with_scope {fo}.
Local Arguments with_self {fo}. Local Arguments env_tuple {fo}. Local Arguments index {fo}. Local Arguments bind_params {fo}.
Local Arguments sc {fo}. Local Arguments self_v {fo}. Local Arguments envt {fo}. Local Arguments strict {fo}.
Local Arguments eq_ordered {fo}. Local Arguments Build_ctx {fo}. Local Arguments compatible {fo}.
Local Arguments is_name {fo}. Local Arguments type_of {fo}. Local Arguments chk {fo}.

Section SemImport.
  Variable fo : float_ops.
  Variable imports : bytes -> option prog.
  Notation value := (value fo).
  Notation scope := (scope fo).
  Notation ctx := (ctx fo).

  Fixpoint eval_imp (fuel : nat) (stk : list bytes) (c : ctx) (e : expr) {struct fuel} : res value :=
    match fuel with
    | O => Fuel
    | S f =>
      let ev := eval_imp f stk c in
      let call (fv : value) (args : list value) : res value :=
          match fv with
          | VFunc ps body clo =>
            if negb (Nat.eqb (List.length ps) (List.length args)) then Err
            else do s <- bind_params ps args clo;
                 eval_imp f stk {| sc := s; self_v := None; envt := envt c; strict := strict c; eq_ordered := eq_ordered c |} body
          | _ => Err
          end in
      let tuple_lit (c' : ctx) (fs : list (bytes * expr)) : res (list (bytes * value)) :=
          fold_left (fun acc '(k, e) => do a <- acc; do v <- eval_imp f stk c' e; merge_field a k v) fs (Ok []) in
      match e with
      | ENull => Ok VNull
      | EBool v => Ok (VBool v)
      | EInt z => Ok (VInt z)
      | EFloat bits => Ok (VFloat (f_of_bits fo bits))
      | EStr s => Ok (VStr s)
      | ESym x =>
        if bytes_eqb x (b "self") then match self_v c with Some v => Ok v | None => Err end
        else match lookup x (sc c) with
             | Some v => Ok v
             | None => if bytes_eqb x (b "env") then Ok (env_tuple c) else Err
             end
      | ETuple fs => do r <- tuple_lit c fs; Ok (VTuple r)
      | EList es => do r <- mapM ev es; Ok (VList r)
      | EGroup e1 => ev e1
      | ENot e1 => do v <- ev e1; match v with VBool x => Ok (VBool (negb x)) | _ => Err end
      | EBin AND l r =>
        do lv <- ev l;
        match lv with
        | VBool false => Ok (VBool false)
        | VBool true => ev r          (* the reference asks for booleans on both sides; the right one is
                                          returned as is by the implementation -- see finding C01-and-or-rhs *)
        | _ => Err
        end
      | EBin OR l r =>
        do lv <- ev l;
        match lv with
        | VBool true => Ok (VBool true)
        | VBool false => ev r
        | _ => Err
        end
      | EBin DOT l r =>
        match r with
        | ECopy (ESym k) fs | ECopy (EStr k) fs =>
          do lv <- ev l; do tv <- index c lv (VStr k); copy_imp f stk c tv fs
        | ECopy (EInt k) fs =>
          do lv <- ev l; do tv <- index c lv (VInt k); copy_imp f stk c tv fs
        | ECall (ESym k) args | ECall (EStr k) args =>
          do avs <- mapM ev args; do lv <- ev l; do fv <- index c lv (VStr k); call fv avs
        | ECall (EInt k) args =>
          do avs <- mapM ev args; do lv <- ev l; do fv <- index c lv (VInt k); call fv avs
        | ESym k => do lv <- ev l; index c lv (VStr k)
        | _ => do lv <- ev l; do kv <- ev r; index c lv kv
        end
      | EBin IN l r =>
        do hay <- ev r;
        do needle <- match l with
                     | ESym x => match hay with VTuple _ => Ok (VStr x) | _ => ev l end
                     | _ => ev l
                     end;
        match hay with
        | VTuple fs => match needle with
                       | VStr k => Ok (VBool (match lookup k fs with Some _ => true | None => false end))
                       | _ => Err end
        | VList items =>
          (fix go (items : list value) : res value :=
             match items with
             | [] => Ok (VBool false)
             | v :: rest => do r <- veq (eq_ordered c) f v needle; if r then Ok (VBool true) else go rest
             end) items
        | VStr s => match needle with VStr part => Ok (VBool (contains_sub s part)) | _ => Ok (VBool false) end
        | _ => Err
        end
      | EBin IS l r =>
        do tv <- ev r; do lv <- ev l;
        match tv with
        | VStr t => Ok (VBool (bytes_eqb (is_name lv) t))
        | VNull => Ok (VBool false)
        | _ => Err
        end
      | EBin Equal l r | EBin NotEqual l r =>
        do rv <- ev r; do lv <- ev l;
        if compatible lv rv then
          do q <- veq (eq_ordered c) f lv rv;
          Ok (VBool (match e with EBin NotEqual _ _ => negb q | _ => q end))
        else Err
      | EBin REMatch l r | EBin NotREMatch l r =>
        do rv <- ev r; do lv <- ev l;
        match lv, rv with VStr _, VStr _ => Unsup | _, _ => Err end
      | EBin ((GT | LT | GTEqual | LTEqual) as o) l r => do rv <- ev r; do lv <- ev l; compare_num o lv rv
      | EBin o l r => do rv <- ev r; do lv <- ev l; arith' o lv rv
      | ECopy t fs => do tv <- ev t; copy_imp f stk c tv fs
      | ERange st stp en =>
        do env_ <- ev en;
        do stv <- match stp with Some s => ev s | None => Ok VNull end;
        do sv <- ev st;
        match sv, stv, env_ with
        | VInt a, VNull, VInt z =>
          if Z.ltb range_limit (range_len a 1 z) then Unsup else Ok (VList (range_from (Z.to_nat (range_len a 1 z)) a 1 z))
        | VInt a, VInt s, VInt z =>
          if Z.leb s 0 then Err
          else if Z.ltb range_limit (range_len a s z) then Unsup
          else Ok (VList (range_from (Z.to_nat (range_len a s z)) a s z))
        | _, _, _ => Err
        end
      | EFormatL parts args =>
        let holes := List.length (filter (fun p => match p with PHole => true | _ => false end) parts) in
        if negb (Nat.eqb holes (List.length args)) then Err
        else (* the reference gives no evaluation order for the arguments; the implementation evaluates
                (and renders) them right to left, which only shows in which of two failing arguments is reported *)
             (fix go (ps : list tpart) (es : list expr) : res value :=
                match ps with
                | [] => Ok (VStr [])
                | PStr s :: ps' => do r <- go ps' es; match r with VStr t => Ok (VStr (s ++ t)) | _ => Err end
                | PHole :: ps' =>
                  match es with
                  | a :: es' => do r <- go ps' es'; do v <- ev a; do t <- render f v;
                                match r with VStr t' => Ok (VStr (t ++ t')) | _ => Err end
                  | [] => Err
                  end
                | PExpr _ :: _ => Err
                end) parts args
      | EFormatS parts arg =>
        do item <- ev arg;
        let c' := with_scope c ((b "item", item) :: sc c) in
        (fix go (ps : list tpart) : res value :=
           match ps with
           | [] => Ok (VStr [])
           | PStr s :: ps' => do r <- go ps'; match r with VStr t => Ok (VStr (s ++ t)) | _ => Err end
           | PExpr pe :: ps' =>
             (* right to left, as the argument list above *)
             do r <- go ps'; do v <- eval_imp f stk c' pe; do t <- render f v;
             match r with VStr t' => Ok (VStr (t ++ t')) | _ => Err end
           | PHole :: _ => Err
           end) parts
      | ECall fe args => do avs <- mapM ev args; do fv <- ev fe; call fv avs
      | ECast ct e1 => do v <- ev e1; cast ct v
      | EFunc ps body => Ok (VFunc ps body (sc c))
      | ESelect ve dflt arms =>
        do v <- ev ve;
        let key := match v with
                   | VStr s => Some s
                   | VBool true => Some (b "true")
                   | VBool false => Some (b "false")
                   | _ => None end in
        let hit := match key with
                   | Some k => (fix find (arms : list (bytes * expr)) : option expr :=
                                  match arms with
                                  | [] => None
                                  | (k', ae) :: arms' => if bytes_eqb k k' then Some ae else find arms'
                                  end) arms
                   | None => None end in
        match hit with
        | Some ae => ev ae
        | None => match dflt with Some d => ev d | None => Err end
        end
      | EMap fe te =>
        do fv <- ev fe; do tv <- ev te;
        match fv with
        | VFunc ps _ _ =>
          match tv with
          | VList l => if negb (Nat.eqb (List.length ps) 1) then Err
                       else do r <- mapM (fun v => call fv [v]) l; Ok (VList r)
          | VTuple fs =>
            if negb (Nat.eqb (List.length ps) 2) then Err
            else do r <- (fix go (fs : list (bytes * value)) : res (list (bytes * value)) :=
                            match fs with
                            | [] => Ok []
                            | (k, v) :: fs' =>
                              do out <- call fv [VStr k; v];
                              match out with
                              | VList [VStr k'; v'] => do r <- go fs'; Ok ((k', v') :: r)
                              | VList _ => Err
                              | _ => go fs'        (* reference: "should produce a list of [field, value]";
                                                      anything else is dropped by the implementation *)
                              end
                            end) fs;
                 Ok (VTuple r)
          | VStr s => if negb (Nat.eqb (List.length ps) 1) then Err
                      else do r <- mapM (fun ch => do o <- call fv [VStr ch];
                                                    match o with VStr t => Ok t | _ => Err end) (utf8_chars s);
                           Ok (VStr (concat r))
          | _ => Err
          end
        | _ => Err
        end
      | EFilter fe te =>
        do fv <- ev fe; do tv <- ev te;
        let keep (o : value) : bool := match o with VNull | VBool false => false | _ => true end in
        match fv with
        | VFunc ps _ _ =>
          match tv with
          | VList l => if negb (Nat.eqb (List.length ps) 1) then Err
                       else do r <- mapM (fun v => do o <- call fv [v]; Ok (keep o, v)) l;
                            Ok (VList (map snd (filter fst r)))
          | VTuple fs => if negb (Nat.eqb (List.length ps) 2) then Err
                         else do r <- mapM (fun '(k, v) => do o <- call fv [VStr k; v]; Ok (keep o, (k, v))) fs;
                              Ok (VTuple (map snd (filter fst r)))
          | VStr s => if negb (Nat.eqb (List.length ps) 1) then Err
                      else do r <- mapM (fun ch => do o <- call fv [VStr ch]; Ok (keep o, ch)) (utf8_chars s);
                           Ok (VStr (concat (map snd (filter fst r))))
          | _ => Err
          end
        | _ => Err
        end
      | EReduce fe ae te =>
        do fv <- ev fe; do acc <- ev ae; do tv <- ev te;
        match fv with
        | VFunc ps _ _ =>
          match tv with
          | VList l => if negb (Nat.eqb (List.length ps) 2) then Err
                       else fold_left (fun a v => do a' <- a; call fv [a'; v]) l (Ok acc)
          | VTuple fs => if negb (Nat.eqb (List.length ps) 3) then Err
                         else fold_left (fun a '(k, v) => do a' <- a; call fv [a'; VStr k; v]) fs (Ok acc)
          | VStr s => if negb (Nat.eqb (List.length ps) 2) then Err
                      else fold_left (fun a ch => do a' <- a; call fv [a'; VStr ch]) (utf8_chars s) (Ok acc)
          | _ => Err
          end
        | _ => Err
        end
      | EModule ps out body => do pv <- tuple_lit c ps; Ok (VModule pv out body)
      | EFail e1 => do _ <- ev e1; Err
      | ETrace e1 => ev e1
      | EImport p =>
        (* the value of an import: the file's statements run in an empty scope (same env, strictness
           and equality reading), exported as the tuple of its bindings in name order; a file that is
           still being imported is an import cycle; an unknown path is an error *)
        if existsb (bytes_eqb p) stk then Err
        else match imports p with
             | None => Err
             | Some pr =>
               do s <- exec_imp f (p :: stk)
                         {| sc := []; self_v := None; envt := envt c; strict := strict c;
                            eq_ordered := eq_ordered c |} pr;
               Ok (VTuple (export_scope s false))
             end
      | EInclude _ _ | EConvert _ _ => Unsup
      end
    end
  with copy_imp (fuel : nat) (stk : list bytes) (c : ctx) (tv : value) (fs : list (bytes * expr)) {struct fuel} : res value :=
    match fuel with
    | O => Fuel
    | S f =>
      (* the override fields are evaluated with `self` = the value being copied *)
      let c' := with_self c (Some tv) in
      do ovs <- fold_left (fun acc '(k, e) => do a <- acc; do v <- eval_imp f stk c' e; merge_field a k v) fs (Ok []);
      match tv with
      | VTuple base => do r <- merge_fields base ovs; Ok (VTuple r)
      | VModule ps out body =>
        do flds <- merge_fields ps ovs;
        do flds <- merge_field flds (b "this") tv;
        (* the reference does not say what `self` is inside a module body; the implementation leaves the
           module being instantiated on the self stack, and so do we *)
        let c0 := {| sc := [(b "mod", VTuple flds)]; self_v := Some tv; envt := envt c;
                     strict := strict c; eq_ordered := eq_ordered c |} in
        do s <- exec_imp f stk c0 body;
        match out with
        | Some oe => eval_imp f stk (with_scope c0 s) oe
        | None => Ok (VTuple (export_scope s true))
        end
      | _ => Err
      end
    end
  with exec_imp (fuel : nat) (stk : list bytes) (c : ctx) (ss : list stmt) {struct fuel} : res scope :=
    match fuel with
    | O => Fuel
    | S f =>
      match ss with
      | [] => Ok (sc c)
      | s :: ss' =>
        do s1 <- match s with
                 | SLet x e =>
                   do v <- eval_imp f stk c e;
                   if is_reserved x then Err
                   else match lookup x (sc c) with
                        | Some _ => Err                       (* bindings are immutable *)
                        | None => Ok ((x, v) :: sc c)
                        end
                 | SExpr e => do _ <- eval_imp f stk c e; Ok (sc c)
                 | SAssert _ | SOut _ _ => Unsup
                 end;
        exec_imp f stk (with_scope c s1) ss'
      end
    end.

  (* a whole program (the file the build starts from; it has no import path on the stack) *)
  Definition sem_prog_imp (fuel : nat) (envv : list (bytes * bytes)) (strict_ : bool) (ordered : bool) (p : prog)
    : res (list (bytes * value)) :=
    do s <- exec_imp fuel [] {| sc := []; self_v := None; envt := envv; strict := strict_; eq_ordered := ordered |} p;
    Ok (export_scope s false).
End SemImport.

(* ------------------------------------------------------------------ *)
(* the embedded standard library                                        *)
Definition std_table : list (bytes * prog) :=
  map (fun np => (fst np, link_prog (fst np) (snd np)))
      [ (b "std/lists.ucg", std_lists); (b "std/tuples.ucg", std_tuples); (b "std/strings.ucg", std_strings);
        (b "std/functional.ucg", std_functional); (b "std/schema.ucg", std_schema) ].
Fixpoint assoc_bytes {A} (k : bytes) (l : list (bytes * A)) : option A :=
  match l with
  | [] => None
  | (k', a) :: l' => if bytes_eqb k k' then Some a else assoc_bytes k l'
  end.
Definition std_imports (p : bytes) : option prog := assoc_bytes p std_table.
