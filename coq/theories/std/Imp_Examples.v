(* Second round, concrete runs (vm_compute, floats = unit) of the import-based helpers, including the
   helpers that have no general theorem yet (split_on, parse_int, field_type, schema helpers): they are
   compared with the reference functions of StdSpec_Imp.v on grids of inputs.  Also the witnesses of
   the findings.  The same programs were run through the real binary by validate/validate.py. *)
From Ucg Require Import base.Bytes_Lemmas sem.Sem std.Sem_Import std.StdSpec std.StdSpec_Imp std.Std_Examples
     std.Imp_Strings std.Imp_Functional.

Notation fo := unit_floats.
Local Open Scope Z_scope.

Definition run (sc0 : scope fo) (e : expr) : res (value fo) := eval_imp fo std_imports 400 [] (ctx_gen fo [] true true sc0) e.
Definition run_lax (sc0 : scope fo) (e : expr) : res (value fo) := eval_imp fo std_imports 400 [] (ctx_gen fo [] false true sc0) e.
Definition B (x : bool) : value fo := VBool fo x.
Definition Nl : value fo := VNull fo.

(* ---- lists ---- *)
Example ex_zip :
  run [(b "arg2", L [S_ "a"; S_ "b"]); (b "arg1", L [I 1; I 2; I 3])] (imp_inst lists_path "zip" [("list1", "arg1"); ("list2", "arg2")]%string)
  = Ok (L [L [I 1; S_ "a"]; L [I 2; S_ "b"]]).
Proof. vm_compute. reflexivity. Qed.
Example ex_zip_empty :
  run [(b "arg2", L [S_ "a"]); (b "arg1", L [])] (imp_inst lists_path "zip" [("list1", "arg1"); ("list2", "arg2")]%string) = Ok (L []).
Proof. vm_compute. reflexivity. Qed.
Example ex_slice :
  run [(b "arg3", L [I 0; I 1; I 2; I 3]); (b "arg2", I 2); (b "arg1", I 1)]
      (imp_inst lists_path "slice" [("start", "arg1"); ("end", "arg2"); ("list", "arg3")]%string) = Ok (L [I 1; I 2]).
Proof. vm_compute. reflexivity. Qed.
Example ex_slice_ref : ref_slice fo 1 2 [I 0; I 1; I 2; I 3] = L [I 1; I 2].
Proof. vm_compute. reflexivity. Qed.
Example ex_slice_start_eq_len :
  run [(b "arg3", L [I 0; I 1]); (b "arg1", I 2)] (imp_inst lists_path "slice" [("start", "arg1"); ("list", "arg3")]%string) = Ok (L []).
Proof. vm_compute. reflexivity. Qed.
(* the `ops` wrapper of std/lists.ucg *)
Definition lists_ops : expr := imp_inst lists_path "ops" [("list", "arg")]%string.
Example ex_lists_ops :
  map (fun e => run [(b "arg", L [I 3; I 1; I 2])] e)
      [ EBin DOT lists_ops (ESym (b "len"));
        meth lists_ops "str_join" [EStr (b "-")];
        meth lists_ops "slice" [EInt 1; EInt 2];
        EBin DOT (meth lists_ops "enumerate" []) (ESym (b "list"));
        EBin DOT (meth lists_ops "tail" []) (ESym (b "list"));
        meth lists_ops "head" [];
        EBin DOT (meth lists_ops "reverse" []) (ESym (b "list")) ]
  = [ Ok (I 3); Ok (S_ "3-1-2"); Ok (L [I 1; I 2]); Ok (L [L [I 0; I 3]; L [I 1; I 1]; L [I 2; I 2]]);
      Ok (L [I 1; I 2]); Ok (L [I 3]); Ok (L [I 2; I 1; I 3]) ].
Proof. vm_compute. reflexivity. Qed.

(* ---- tuples ---- *)
Definition tp : value fo := T [(b "a", I 1); (b "b", S_ "x"); (b "c", Nl)].
Example ex_has_fields :
  map (fun fl => run [(b "arg2", L fl); (b "arg1", tp)] (imp_inst tuples_path "has_fields" [("tpl", "arg1"); ("fields", "arg2")]%string))
      [ [S_ "a"]; [S_ "a"; S_ "c"]; [S_ "a"; S_ "d"]; []; [I 1] ]
  = map (fun fl => Ok (ref_has_fields fo [(b "a", I 1); (b "b", S_ "x"); (b "c", Nl)] fl))
        [ [S_ "a"]; [S_ "a"; S_ "c"]; [S_ "a"; S_ "d"]; []; [I 1] ].
Proof. vm_compute. reflexivity. Qed.
Definition field_type_call : expr := imp_inst tuples_path "field_type" [("tpl", "arg1"); ("field", "arg2"); ("type", "arg3")]%string.
Example ex_field_type :
  map (fun ft => run [(b "arg3", S_ (snd ft)); (b "arg2", S_ (fst ft)); (b "arg1", tp)] field_type_call)
      [ ("a", "int"); ("a", "str"); ("b", "str"); ("c", "null"); ("d", "int"); ("c", "int") ]%string
  = map (fun ft => Ok (B (ref_field_type fo [(b "a", I 1); (b "b", S_ "x"); (b "c", Nl)] (b (fst ft)) (b (snd ft)))))
        [ ("a", "int"); ("a", "str"); ("b", "str"); ("c", "null"); ("d", "int"); ("c", "int") ]%string.
Proof. vm_compute. reflexivity. Qed.
Example ex_tuples_ops :
  map (fun n => run [(b "arg", tp)] (meth (imp_inst tuples_path "ops" [("tpl", "arg")]%string) n []))
      ["fields"; "values"; "iter"]%string
  = [ Ok (L [S_ "a"; S_ "b"; S_ "c"]); Ok (L [I 1; S_ "x"; Nl]);
      Ok (L [L [S_ "a"; I 1]; L [S_ "b"; S_ "x"]; L [S_ "c"; Nl]]) ].
Proof. vm_compute. reflexivity. Qed.

(* ---- strings ---- *)
Definition bytes_of (l : list Z) : bytes := map (fun z => ascii_of_nat (Z.to_nat z)) l.
Definition hello_utf8 : bytes := bytes_of [104; 195; 169; 108; 108; 111; 32; 119; 195; 182; 114; 108; 100].  (* "héllo wörld" *)
Definition o_uml : bytes := bytes_of [195; 182].
Definition split_on_call : expr := EBin DOT wrap_arg (ECopy (ESym (b "split_on")) [(b "on", ESym (b "arg2"))]).
Example ex_split_on :
  map (fun so => run [(b "arg2", VStr fo (snd so)); (b "arg", VStr fo (fst so))] split_on_call)
      [ (b "foo bar", b " "); (b "foo bar", b "o"); (b "foo bar", b "oo b"); (b "foo bar", b "xyz"); (b "", b " ");
        (b "a,b", b ""); (b "a,,b,", b ","); (hello_utf8, o_uml); (b "abab", b "ab") ]
  = map (fun so => Ok (ref_split_on fo (snd so) (fst so)))
      [ (b "foo bar", b " "); (b "foo bar", b "o"); (b "foo bar", b "oo b"); (b "foo bar", b "xyz"); (b "", b " ");
        (b "a,b", b ""); (b "a,,b,", b ","); (hello_utf8, o_uml); (b "abab", b "ab") ].
Proof. vm_compute. reflexivity. Qed.
Example ex_split_on_values :
  run [(b "arg2", S_ "o"); (b "arg", S_ "foo bar")] split_on_call = Ok (L [S_ "f"; S_ ""; S_ " bar"])
  /\ run [(b "arg2", S_ ""); (b "arg", S_ "a,b")] split_on_call = Ok (L [S_ ""]).        (* empty separator: one empty piece *)
Proof. split; vm_compute; reflexivity. Qed.
Example ex_strings_utf8 :
  run [(b "arg", VStr fo hello_utf8)] (EBin DOT wrap_arg (ESym (b "len"))) = Ok (I 11)     (* 13 bytes, 11 characters *)
  /\ run [(b "arg2", I 2); (b "arg", VStr fo hello_utf8)] (EBin DOT wrap_arg (ECall (ESym (b "split_at")) [ESym (b "arg2")]))
     = Ok (T [(b "left", VStr fo (bytes_of [104; 195; 169])); (b "right", VStr fo (bytes_of [108; 108; 111; 32; 119; 195; 182; 114; 108; 100]))]).
Proof. split; vm_compute; reflexivity. Qed.
Definition parse_int_call : expr := meth (meth wrap_arg "parse_int" []) "unwrap" [].
Example ex_parse_int :
  map (fun s => run [(b "arg", S_ s)] parse_int_call) ["123abc"; "7"; "0042x9"]%string = [Ok (I 123); Ok (I 7); Ok (I 42)]
  /\ map (fun s => leading_digits (utf8_chars (b s))) ["123abc"; "7"; "0042x9"; "abc"]%string = [b "123"; b "7"; b "0042"; b ""].
Proof. split; vm_compute; reflexivity. Qed.
(* FIXED in /repo 0cc7b92 (was a finding of round 2: `int("")` made the build fail): a string that does
   not start with a digit gives an empty maybe -- unwrap() is NULL and the cast is not attempted. *)
Example strings_parse_int_no_digits_is_null :
  map (fun s => run [(b "arg", S_ s)] parse_int_call) ["abc"; ""; "-5"]%string = [Ok Nl; Ok Nl; Ok Nl]
  /\ run [(b "arg", S_ "abc")] (meth (meth wrap_arg "parse_int" []) "is_null" []) = Ok (B true)
  /\ run [(b "arg", S_ "12x")] parse_int_call = Ok (I 12).
Proof. repeat split; vm_compute; reflexivity. Qed.

(* ---- functional ---- *)
Example ex_maybe :
  let inc := VFunc fo [b "x"] (EBin Add (ESym (b "x")) (EInt 1)) [] in
  run [(b "op", inc); (b "arg", I 41)] (meth (meth maybe_of_arg "do" [ESym (b "op")]) "unwrap" []) = Ok (I 42)
  /\ run [(b "op", inc); (b "arg", Nl)] (meth (meth maybe_of_arg "do" [ESym (b "op")]) "unwrap" []) = Ok Nl
  /\ run [(b "arg", Nl)] (meth maybe_of_arg "is_null" []) = Ok (B true)
  /\ run [(b "msg", S_ "boom"); (b "arg", Nl)] (meth maybe_of_arg "expect" [ESym (b "msg")]) = Err.
Proof. repeat split; vm_compute; reflexivity. Qed.

(* ---- schema ---- *)
Definition shaped_call : expr := imp_inst schema_path "shaped" [("val", "arg1"); ("shape", "arg2"); ("partial", "arg3")]%string.
Definition any_call : expr := imp_inst schema_path "any" [("val", "arg1"); ("types", "arg2"); ("partial", "arg3")]%string.
Definition all_call : expr := imp_inst schema_path "all" [("val", "arg1"); ("types", "arg2")]%string.
Definition vals : list (value fo) :=
  [ I 1; S_ "a"; B true; Nl; L []; L [I 1; I 2]; L [I 1; S_ "a"]; T []; T [(b "a", I 1)]; T [(b "a", I 1); (b "b", S_ "x")];
    T [(b "a", T [(b "b", I 1)])]; T [(b "a", T [(b "b", I 1); (b "c", I 2)])]; T [(b "a", L [I 1])];
    L [T [(b "a", I 1); (b "b", I 2)]]; L [T [(b "a", I 1)]; I 3] ].
Definition shapes : list (value fo) :=
  [ I 0; S_ ""; B false; Nl; L []; L [I 0]; L [I 0; S_ ""]; T []; T [(b "a", I 0)]; T [(b "a", I 0); (b "b", S_ "")];
    T [(b "a", T [(b "b", I 0)])]; T [(b "a", L [])]; T [(b "c", I 0)]; L [T [(b "a", I 0)]]; L [T [(b "a", I 0)]; I 0] ].
Definition grid {A C} (xs : list A) (ys : list C) : list (A * C) := flat_map (fun x => map (fun y => (x, y)) ys) xs.
(* 15 x 15 x 2 = 450 instantiations of schema.shaped agree with the reference *)
Example ex_shaped_grid :
  forallb (fun p =>
             forallb (fun vs => match run [(b "arg3", B p); (b "arg2", snd vs); (b "arg1", fst vs)] shaped_call with
                                | Ok (VBool _ r) => Bool.eqb r (ref_shaped fo 6 p (fst vs) (snd vs))
                                | _ => false end) (grid vals shapes)) [true; false] = true.
Proof. vm_compute. reflexivity. Qed.
Example ex_any_all_grid :
  forallb (fun v =>
             forallb (fun ts =>
                        match run [(b "arg3", B false); (b "arg2", L ts); (b "arg1", v)] any_call,
                              run [(b "arg2", L ts); (b "arg1", v)] all_call with
                        | Ok (VBool _ r1), Ok (VBool _ r2) =>
                          Bool.eqb r1 (ref_any fo 6 false v ts) && Bool.eqb r2 (ref_all fo 6 v ts)
                        | _, _ => false end)
                     [ []; [I 0]; [S_ ""; I 0]; [T [(b "a", I 0)]; T [(b "b", S_ "")]]; [L []; T []] ]) vals = true.
Proof. vm_compute. reflexivity. Qed.
(* FIXED in /repo 7b72e49 (was a finding of round 2: the shape's field was re-checked against the value's
   field with roles swapped and partial = false): partial matching now applies to nested tuples. *)
Example schema_shaped_nested_partial :
  run [(b "arg3", B true); (b "arg2", T [(b "a", T [(b "b", I 0)])]); (b "arg1", T [(b "a", T [(b "b", I 1); (b "c", I 2)])])] shaped_call
  = Ok (B true)
  /\ run [(b "arg3", B false); (b "arg2", T [(b "a", T [(b "b", I 0)])]); (b "arg1", T [(b "a", T [(b "b", I 1); (b "c", I 2)])])] shaped_call
  = Ok (B false)
  /\ run [(b "arg3", B true); (b "arg2", T [(b "b", I 0)]); (b "arg1", T [(b "b", I 1); (b "c", I 2)])] shaped_call
  = Ok (B true).
Proof. repeat split; vm_compute; reflexivity. Qed.
(* observation: inside LISTS the elements are matched by schema.any with its own default partial = false,
   so an extra field of a tuple that sits in a list is rejected even when shaped is partial *)
Example schema_shaped_list_elements_not_partial :
  run [(b "arg3", B true); (b "arg2", L [T [(b "a", I 0)]]); (b "arg1", L [T [(b "a", I 1); (b "b", I 2)]])] shaped_call = Ok (B false)
  /\ run [(b "arg3", B true); (b "arg2", L [T [(b "a", I 0)]]); (b "arg1", L [T [(b "a", I 1)]])] shaped_call = Ok (B true).
Proof. split; vm_compute; reflexivity. Qed.

(* ---- boundary of the model: an explicit `pkg` override (implementation: overwritten; here: it wins) ---- *)
Example model_pkg_override_differs :
  run [(b "arg3", Nl); (b "arg2", L [I 2]); (b "arg1", L [I 1])]
      (imp_inst lists_path "zip" [("list1", "arg1"); ("list2", "arg2"); ("pkg", "arg3")]%string) = Err.
Proof. vm_compute. reflexivity. Qed.
