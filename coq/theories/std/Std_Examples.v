(* Concrete runs of the std-library helpers under the definitional semantics, by vm_compute,
   with a trivial float instance (no floats are involved). *)
From Ucg Require Import base.Bytes_Lemmas sem.Sem std.StdSpec.
From UcgGen Require Import StdLib.

Definition unit_floats : float_ops := {|
  F := unit;
  f_of_bits := fun _ => tt; f_to_bits := fun _ => 0%Z;
  fadd := fun _ _ => tt; fsub := fun _ _ => tt; fmul := fun _ _ => tt; fdiv := fun _ _ => tt;
  feqb := fun _ _ => true; fltb := fun _ _ => false; fleb := fun _ _ => true;
  f_of_int := fun _ => tt; f_to_int := fun _ => None; f_text := fun _ => None
|}.

Notation fo := unit_floats.
Definition I (z : Z) : value fo := VInt fo z.
Definition S_ (s : string) : value fo := VStr fo (b s).
Definition L (l : list (value fo)) : value fo := VList fo l.
Definition T (fs : list (bytes * value fo)) : value fo := VTuple fo fs.

Definition run1 (s : scope fo) (arg : value fo) (e : expr) : res (value fo) :=
  eval fo 40 (ctx_of fo ((b "arg", arg) :: s)) e.

Local Open Scope Z_scope.

(* the library programs run *)
Example lists_runs : exists s, exec_list fo (std_fuel) (ctx0 fo) std_lists = Ok s /\ List.length s = 9%nat.
Proof. eexists. split; vm_compute; reflexivity. Qed.
Example tuples_runs : exists s, exec_list fo (std_fuel) (ctx0 fo) std_tuples = Ok s /\ List.length s = 8%nat.
Proof. eexists. split; vm_compute; reflexivity. Qed.
Example schema_runs : exists s, exec_list fo (std_fuel) (ctx0 fo) std_schema = Ok s /\ List.length s = 6%nat.
Proof. eexists. split; vm_compute; reflexivity. Qed.

(* ---- std/lists.ucg ---- *)
Example ex_len : run1 (lists_scope fo) (L [I 7; S_ "a"; L [I 1; I 2]; T [(b "x", I 1)]]) (call1 "len") = Ok (I 4).
Proof. vm_compute. reflexivity. Qed.
Example ex_len_nil : run1 (lists_scope fo) (L []) (call1 "len") = Ok (I 0).
Proof. vm_compute. reflexivity. Qed.
Example ex_reverse :
  run1 (lists_scope fo) (L [I 1; S_ "a"; L [I 2]]) (call1 "reverse") = Ok (L [L [I 2]; S_ "a"; I 1]).
Proof. vm_compute. reflexivity. Qed.
Example ex_head : run1 (lists_scope fo) (L [I 1; I 2; I 3]) (call1 "head") = Ok (L [I 1]).
Proof. vm_compute. reflexivity. Qed.
Example ex_head_nil : run1 (lists_scope fo) (L []) (call1 "head") = Ok (L []).
Proof. vm_compute. reflexivity. Qed.
Example ex_tail : run1 (lists_scope fo) (L [I 1; I 2; I 3]) (call1 "tail") = Ok (L [I 2; I 3]).
Proof. vm_compute. reflexivity. Qed.
Example ex_tail_nil : run1 (lists_scope fo) (L []) (call1 "tail") = Ok (L []).
Proof. vm_compute. reflexivity. Qed.
Example ex_tail_one : run1 (lists_scope fo) (L [S_ "only"]) (call1 "tail") = Ok (L []).
Proof. vm_compute. reflexivity. Qed.

Example ex_enumerate :
  eval fo 40 (ctx_of fo ((b "arg3", L [S_ "a"; S_ "b"; S_ "c"]) :: (b "arg2", I 2) :: (b "arg1", I 5) :: lists_scope fo))
       enumerate_call
  = Ok (L [L [I 5; S_ "a"]; L [I 7; S_ "b"]; L [I 9; S_ "c"]]).
Proof. vm_compute. reflexivity. Qed.
Example ex_enumerate_ref :
  ref_enumerate fo 5 2 [S_ "a"; S_ "b"; S_ "c"] = L [L [I 5; S_ "a"]; L [I 7; S_ "b"]; L [I 9; S_ "c"]].
Proof. vm_compute. reflexivity. Qed.
Example ex_enumerate_negative_step :
  eval fo 40 (ctx_of fo ((b "arg3", L [S_ "a"; S_ "b"]) :: (b "arg2", I (-3)) :: (b "arg1", I 1) :: lists_scope fo))
       enumerate_call
  = Ok (L [L [I 1; S_ "a"]; L [I (-2); S_ "b"]]).
Proof. vm_compute. reflexivity. Qed.
(* the finding: the unused next index overflows *)
Example ex_enumerate_overflow :
  eval fo 40 (ctx_of fo ((b "arg3", L [S_ "a"]) :: (b "arg2", I 1) :: (b "arg1", I i64_max) :: lists_scope fo))
       enumerate_call = Err
  /\ ref_enumerate fo i64_max 1 [S_ "a"] = L [L [I i64_max; S_ "a"]].
Proof. split; vm_compute; reflexivity. Qed.

Example ex_str_join_ints :
  eval fo 40 (ctx_of fo ((b "arg2", L [I 1; I (-20); I 300]) :: (b "arg1", S_ ", ") :: lists_scope fo)) str_join_call
  = Ok (S_ "1, -20, 300").
Proof. vm_compute. reflexivity. Qed.
Example ex_str_join_mixed :
  eval fo 40 (ctx_of fo ((b "arg2", L [S_ "a"; L [I 1; I 2]; T [(b "x", I 1)]; VNull fo; VBool fo true])
                           :: (b "arg1", S_ ",") :: lists_scope fo)) str_join_call
  = Ok (S_ "a,[1,2,],{x = 1,},NULL,true").          (* same text as the real binary prints *)
Proof. vm_compute. reflexivity. Qed.
Example ex_str_join_nil :
  eval fo 40 (ctx_of fo ((b "arg2", L []) :: (b "arg1", S_ ",") :: lists_scope fo)) str_join_call = Ok (S_ "").
Proof. vm_compute. reflexivity. Qed.
Example ex_join_ref : join (b "-") [b "x"; b "yy"; b ""] = b "x-yy-".
Proof. vm_compute. reflexivity. Qed.

(* ---- std/tuples.ucg ---- *)
Definition tpl1 : value fo := T [(b "a", I 1); (b "b", VNull fo); (b "c", VBool fo false); (b "d", L [])].
Example ex_fields : run1 (tuples_scope fo) tpl1 (inst1 "fields" "tpl") = Ok (L [S_ "a"; S_ "b"; S_ "c"; S_ "d"]).
Proof. vm_compute. reflexivity. Qed.
Example ex_values : run1 (tuples_scope fo) tpl1 (inst1 "values" "tpl") = Ok (L [I 1; VNull fo; VBool fo false; L []]).
Proof. vm_compute. reflexivity. Qed.
Example ex_iter :
  run1 (tuples_scope fo) tpl1 (inst1 "iter" "tpl")
  = Ok (L [L [S_ "a"; I 1]; L [S_ "b"; VNull fo]; L [S_ "c"; VBool fo false]; L [S_ "d"; L []]]).
Proof. vm_compute. reflexivity. Qed.
Example ex_strip_nulls :
  run1 (tuples_scope fo) tpl1 (inst1 "strip_nulls" "tpl")
  = Ok (T [(b "a", I 1); (b "c", VBool fo false); (b "d", L [])]).
Proof. vm_compute. reflexivity. Qed.
(* the semantics does not model comparing a function with NULL: outside the fragment *)
Example ex_strip_nulls_closure :
  run1 (tuples_scope fo) (T [(b "f", VFunc fo [b "x"] (ESym (b "x")) []); (b "n", VNull fo)]) (inst1 "strip_nulls" "tpl")
  = Unsup.
Proof. vm_compute. reflexivity. Qed.

(* ---- std/schema.ucg ---- *)
Example ex_base_type_of :
  map (fun v => run1 (schema_scope fo) v (call1 "base_type_of"))
      [I 1; VFloat fo tt; S_ "a"; VBool fo true; VNull fo; T []; L []; VFunc fo [] ENull []; VModule fo [] None []]
  = map (fun s => Ok (S_ s)) ["int"; "float"; "str"; "bool"; "null"; "tuple"; "list"; "func"; "module"]%string.
Proof. vm_compute. reflexivity. Qed.
