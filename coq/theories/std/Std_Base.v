(* Common tactics and facts for the std-library proofs.
   The std-library helpers compute their reference definitions (StdSpec.v), for all inputs,
   under the definitional semantics sem/Sem.v.  All statements are about the GENERATED library
   terms of gen/StdLib.v. *)
From Ucg Require Import base.Bytes_Lemmas sem.Sem std.Std_Fuel std.Std_Rules std.StdSpec.
From UcgGen Require Import StdLib.

Ltac ev1 :=
  lazymatch goal with
  | |- evals _ _ ENull _ => apply ev_null
  | |- evals _ _ (EBool _) _ => apply ev_bool
  | |- evals _ _ (EInt _) _ => apply ev_int
  | |- evals _ _ (EStr _) _ => apply ev_str
  | |- evals _ _ (EFunc _ _) _ => apply ev_func
  | |- evals _ _ (ESym _) _ => apply ev_sym; [reflexivity | reflexivity]
  | |- evals _ _ (EGroup _) _ => apply ev_group
  | |- evals _ _ (EList _) _ => apply ev_list
  | |- evals_list _ _ [] _ => apply evl_nil
  | |- evals_list _ _ (_ :: _) _ => eapply evl_cons
  | |- evals _ _ (ETuple _) _ => apply ev_tuple
  | |- evals_fields _ _ [] _ _ => apply evf_nil
  | |- evals _ _ (EBin DOT _ (ESym _)) _ => eapply ev_dot_sym
  | |- evals _ _ (EBin DOT _ (EInt _)) _ => eapply ev_dot_int
  end.
Ltac evs := repeat ev1.

Section Std.
  Variable fo : float_ops.
  Notation value := (value fo).
  Notation VInt := (VInt fo).
  Notation VStr := (VStr fo).
  Notation VBool := (VBool fo).
  Notation VNull := (VNull fo).
  Notation VList := (VList fo).
  Notation VTuple := (VTuple fo).
  Notation evals := (evals fo).
  Notation calls := (calls fo).

  (* ---- the library programs run, and their scopes do not depend on env / strictness ---- *)
  Lemma lists_scope_ok E st ord :
    exec_list fo (std_fuel) (ctx_gen fo E st ord []) std_lists = Ok (lists_scope fo).
  Proof. vm_compute. reflexivity. Qed.
  Lemma tuples_scope_ok E st ord :
    exec_list fo (std_fuel) (ctx_gen fo E st ord []) std_tuples = Ok (tuples_scope fo).
  Proof. vm_compute. reflexivity. Qed.
  Lemma schema_scope_ok E st ord :
    exec_list fo (std_fuel) (ctx_gen fo E st ord []) std_schema = Ok (schema_scope fo).
  Proof. vm_compute. reflexivity. Qed.

  Lemma fits_chk z : fits z -> chk fo z = Ok (VInt z).
  Proof. unfold fits, chk. intros ->. reflexivity. Qed.
  Lemma fits_iff z : fits z <-> (i64_min <= z <= i64_max)%Z.
  Proof.
    unfold fits, in_i64. rewrite andb_true_iff, !Z.leb_le. reflexivity.
  Qed.
  Lemma fits_between z lo hi : fits lo -> fits hi -> (lo <= z <= hi)%Z -> fits z.
  Proof. rewrite !fits_iff. lia. Qed.
  Lemma fits_0 : fits 0. Proof. reflexivity. Qed.
  Lemma fits_1 : fits 1. Proof. reflexivity. Qed.

End Std.
