(* std/lists.ucg through `import`: slice (inclusive bounds, guards, the end = len finding). *)
From Ucg Require Import base.Bytes_Lemmas sem.Sem std.Std_Fuel std.Sem_Import std.Sem_Import_Lemmas
     std.Std_Rules_Imp std.Std_Rules_Imp2 std.StdSpec std.StdSpec_Imp std.Imp_Base std.Imp_Lists.

Section Slice.
  Variable fo : float_ops.
  Notation value := (value fo).
  Notation VInt := (VInt fo).
  Notation VStr := (VStr fo).
  Notation VBool := (VBool fo).
  Notation VNull := (VNull fo).
  Notation VList := (VList fo).
  Notation VTuple := (VTuple fo).
  Notation VFunc := (VFunc fo).
  Notation VModule := (VModule fo).
  Notation evals := (evals fo std_imports []).
  Notation calls := (calls fo std_imports []).
  Notation fits_chk := (fits_chk fo).
  Notation len_v := (len_v fo).
  Notation len_calls := (len_calls fo).
  Notation lists_index_len := (lists_index_len fo).
  Notation pkg_calls := (pkg_calls fo).
  Notation range_from_seq := (range_from_seq fo).
  Notation index_list_nth := (index_list_nth fo).

  (* ---------------- slice ---------------- *)
  Definition slice_v : value := member fo lists_path "slice".
  Definition slice_pkg_clo := pkg_clo fo slice_v.
  Definition slice_out : option expr := Eval vm_compute in mod_out fo slice_v.
  Definition slice_body : list stmt := Eval vm_compute in mod_body fo slice_v.
  Lemma slice_v_eq :
    slice_v = VModule [(b "start", VInt 0); (b "end", VNull); (b "list", VList []);
                       (b "pkg", VFunc [] (EImport lists_path) slice_pkg_clo)] slice_out slice_body.
  Proof. vm_compute. reflexivity. Qed.
  Lemma lists_index_slice c : index fo c (import_value fo lists_path) (VStr (b "slice")) = Ok slice_v.
  Proof. destruct c. vm_compute. reflexivity. Qed.

  Lemma range_gen s e : (i64_min <= s)%Z -> (e + 1 <= i64_max)%Z ->
    range_from fo (Z.to_nat (range_len s 1 e)) s 1 e
    = map (fun i => VInt (s + Z.of_nat i)) (seq 0 (Z.to_nat (e - s + 1))).
  Proof.
    intros Hs He. unfold range_len. destruct (Z.ltb_spec e s) as [Hlt|Hge].
    - replace (Z.to_nat (e - s + 1)) with 0%nat by lia. reflexivity.
    - rewrite Z.div_1_r. set (m := Z.to_nat (e - s + 1)).
      pose proof (range_from_seq m s Hs ltac:(unfold m; lia)) as H.
      replace (s + Z.of_nat m - 1)%Z with e in H by (unfold m; lia). exact H.
  Qed.

  Lemma index_tuple_lookup c fs k v : lookup fo k fs = Some v -> index fo c (VTuple fs) (VStr k) = Ok v.
  Proof. intros H. unfold index. rewrite H. reflexivity. Qed.

  Lemma firstn_S_nth {A} (d : A) : forall k (x : list A), (k < List.length x)%nat ->
    firstn (S k) x = firstn k x ++ [nth k x d].
  Proof.
    induction k as [|k IH]; intros [|a x] Hk; cbn in *; try lia; [reflexivity|].
    f_equal. apply IH. lia.
  Qed.
  Lemma nth_skipn {A} (d : A) : forall s k (l : list A), nth k (skipn s l) d = nth (s + k) l d.
  Proof. induction s as [|s IH]; intros k [|a l]; cbn; try reflexivity; [destruct k; reflexivity|apply IH]. Qed.

  (* the reducer of slice: acc + [mod.list.(item)], for any captured scope that binds `mod` *)
  Definition slice_reducer_body : expr :=
    Eval vm_compute in match nth 7 slice_body (SExpr ENull) with SLet _ (EFunc _ bd) => bd | _ => ENull end.
  Lemma slice_step c clo flds l x i :
    lookup fo (b "mod") clo = Some (VTuple flds) -> lookup fo (b "list") flds = Some (VList l) ->
    (i < List.length l)%nat ->
    calls c (VFunc [b "acc"; b "item"] slice_reducer_body clo) [VList x; VInt (Z.of_nat i)]
          (VList (x ++ [nth i l VNull])).
  Proof.
    intros Hmod Hlist Hi.
    eapply calls_intro; [reflexivity|reflexivity|]. unfold slice_reducer_body.
    eapply ev_add; [iv1| |].
    { iv1. eapply evl_cons; [|iv1].
      eapply ev_dot_group; [|iv1|apply index_list_nth, Hi].
      eapply ev_dot_sym; [apply ev_sym; [reflexivity|exact Hmod]|apply index_tuple_lookup, Hlist]. }
    reflexivity.
  Qed.

  Definition slice_call : expr := imp_inst lists_path "slice" [("start", "arg1"); ("end", "arg2"); ("list", "arg3")]%string.
  Definition slice_call_default : expr := imp_inst lists_path "slice" [("start", "arg1"); ("list", "arg3")]%string.

  Lemma leb_true_intro a c' : (a <= c')%Z -> (a <=? c')%Z = true.
  Proof. apply Z.leb_le. Qed.

  (* statements 4..9 of the body, once `end` is bound to an integer *)
  Ltac slice_tail Hr s n e' :=
    eapply execs_let'; [dotsym|reflexivity|reflexivity|];
    eapply execs_expr';
    [ eapply ev_or_true; eapply evals_eq;
      [ iv1; eapply ev_cmp; [reflexivity|iv1|iv1|reflexivity]
      | cbn [compare_num]; f_equal; apply leb_true_intro; lia ] | ];
    eapply execs_expr';
    [ eapply ev_or_true; eapply evals_eq;
      [ iv1; eapply ev_cmp; [reflexivity|iv1|iv1|reflexivity]
      | cbn [compare_num]; f_equal; apply leb_true_intro; lia ] | ];
    eapply execs_expr';
    [ eapply ev_or_true; eapply evals_eq;
      [ iv1; eapply ev_cmp; [reflexivity|iv1|iv1|reflexivity]
      | cbn [compare_num]; f_equal; apply leb_true_intro; lia ] | ];
    eapply execs_let'; [iv1|reflexivity|reflexivity|];
    eapply execs_let'; [exact Hr|reflexivity|reflexivity|apply execs_nil'].

  Lemma slice_result (s e' : Z) (l : list value) :
    (0 <= s)%Z -> (e' < Z.of_nat (List.length l))%Z ->
    firstn (List.length (map (fun i => VInt (s + Z.of_nat i)) (seq 0 (Z.to_nat (e' - s + 1))))) (skipn (Z.to_nat s) l)
    = firstn (Z.to_nat (e' - s + 1)) (skipn (Z.to_nat s) l).
  Proof. intros. rewrite map_length, seq_length. reflexivity. Qed.

  Theorem std_slice : forall E st ord s e l,
      fits (Z.of_nat (List.length l)) ->
      (0 <= s <= Z.of_nat (List.length l))%Z -> (e < Z.of_nat (List.length l))%Z ->
      (e - s + 1 <= range_limit)%Z ->
      exists f, eval_imp fo std_imports f []
                  (ctx_gen fo E st ord [(b "arg3", VList l); (b "arg2", VInt e); (b "arg1", VInt s)]) slice_call
                = Ok (ref_slice fo s e l).
  Proof.
    intros E st ord s e l Hfit Hs He Hlim.
    set (n := Z.of_nat (List.length l)) in *.
    assert (Hn : (n <= i64_max)%Z) by (apply fits_iff in Hfit; lia).
    unfold ref_slice. rewrite <- (slice_result s e l) by lia.
    unfold slice_call, imp_inst, ctx_gen. cbn [map fst snd].
    edestruct (reduce_list_inv fo std_imports [])
      with (l := map (fun i => VInt (s + Z.of_nat i)) (seq 0 (Z.to_nat (e - s + 1))))
           (I := fun (pre : list value) (a : value) => a = VList (firstn (List.length pre) (skipn (Z.to_nat s) l)))
      as (r & Hr & HI); cycle 5.
    - subst r.
      eapply ev_dot_copy; [apply ev_import_std, in_lists|apply lists_index_slice|].
      rewrite slice_v_eq.
      eapply copies_module'.
      + fld1. fld1. fld1. iv1.
      + reflexivity.
      + reflexivity.
      + unfold slice_body.
        eapply execs_let'; [|reflexivity|reflexivity|].
        { eapply ev_dot_call; [iv1|iv1|reflexivity|]. apply pkg_calls, in_lists. }
        eapply execs_let'; [|reflexivity|reflexivity|].
        { eapply ev_dot_call; [ivs; reflexivity|iv1|apply lists_index_len|apply len_calls, Hfit]. }
        eapply execs_let'; [|reflexivity|reflexivity|].
        { eapply ev_select; [eapply ev_is; [dotsym|iv1]|reflexivity|dotsym]. }
        slice_tail Hr s n e.
      + unfold slice_out. iv1.
    - iv1.
    - ivs.
    - rewrite <- range_gen by (unfold i64_min; lia).
      eapply ev_range; [iv1|iv1|]. apply Z.ltb_ge. unfold range_len.
      destruct (Z.ltb_spec e s); [unfold range_limit; lia|]. rewrite Z.div_1_r. lia.
    - reflexivity.
    - intros pre v post a El ->.
      destruct (seq_split _ _ _ _ _ _ El) as [-> Hlt]. cbn [Nat.add] in *.
      set (k := List.length pre) in *.
      assert (Hi : (Z.to_nat s + k < List.length l)%nat) by lia.
      eexists. split.
      + replace (s + Z.of_nat k)%Z with (Z.of_nat (Z.to_nat s + k)) by lia.
        eapply slice_step; [reflexivity|reflexivity|exact Hi].
      + rewrite app_length. cbn [List.length]. rewrite Nat.add_1_r. fold k.
        rewrite (firstn_S_nth VNull k) by (rewrite skipn_length; lia).
        rewrite nth_skipn. reflexivity.
  Qed.

  (* end omitted: it defaults to len - 1 *)
  Theorem std_slice_default : forall E st ord s l,
      fits (Z.of_nat (List.length l)) ->
      (0 <= s <= Z.of_nat (List.length l))%Z ->
      (Z.of_nat (List.length l) - s <= range_limit)%Z ->
      exists f, eval_imp fo std_imports f []
                  (ctx_gen fo E st ord [(b "arg3", VList l); (b "arg1", VInt s)]) slice_call_default
                = Ok (ref_slice fo s (Z.of_nat (List.length l) - 1) l).
  Proof.
    intros E st ord s l Hfit Hs Hlim.
    set (n := Z.of_nat (List.length l)) in *. set (e := (n - 1)%Z).
    assert (Hn : (n <= i64_max)%Z) by (apply fits_iff in Hfit; lia).
    unfold ref_slice. rewrite <- (slice_result s e l) by (unfold e; lia).
    unfold slice_call_default, imp_inst, ctx_gen. cbn [map fst snd].
    edestruct (reduce_list_inv fo std_imports [])
      with (l := map (fun i => VInt (s + Z.of_nat i)) (seq 0 (Z.to_nat (e - s + 1))))
           (I := fun (pre : list value) (a : value) => a = VList (firstn (List.length pre) (skipn (Z.to_nat s) l)))
      as (r & Hr & HI); cycle 5.
    - subst r.
      eapply ev_dot_copy; [apply ev_import_std, in_lists|apply lists_index_slice|].
      rewrite slice_v_eq.
      eapply copies_module'.
      + fld1. fld1. iv1.
      + reflexivity.
      + reflexivity.
      + unfold slice_body.
        eapply execs_let'; [|reflexivity|reflexivity|].
        { eapply ev_dot_call; [iv1|iv1|reflexivity|]. apply pkg_calls, in_lists. }
        eapply execs_let'; [|reflexivity|reflexivity|].
        { eapply ev_dot_call; [ivs; reflexivity|iv1|apply lists_index_len|apply len_calls, Hfit]. }
        eapply execs_let'; [|reflexivity|reflexivity|].
        { eapply ev_select; [eapply ev_is; [dotsym|iv1]|reflexivity|].
          eapply ev_sub; [iv1|iv1|]. cbn [arith' arith]. apply fits_chk.
          apply (fits_between _ (-1) n); [reflexivity|exact Hfit|lia]. }
        fold n. fold e.
        slice_tail Hr s n e.
      + unfold slice_out. iv1.
    - iv1.
    - ivs.
    - rewrite <- range_gen by (unfold i64_min, e; lia).
      eapply ev_range; [iv1|iv1|]. apply Z.ltb_ge. unfold range_len.
      destruct (Z.ltb_spec e s); [unfold range_limit; lia|]. rewrite Z.div_1_r. unfold e. lia.
    - reflexivity.
    - intros pre v post a El ->.
      destruct (seq_split _ _ _ _ _ _ El) as [-> Hlt]. cbn [Nat.add] in *.
      set (k := List.length pre) in *.
      assert (Hi : (Z.to_nat s + k < List.length l)%nat) by (unfold e in Hlt; lia).
      eexists. split.
      + replace (s + Z.of_nat k)%Z with (Z.of_nat (Z.to_nat s + k)) by lia.
        eapply slice_step; [reflexivity|reflexivity|exact Hi].
      + rewrite app_length. cbn [List.length]. rewrite Nat.add_1_r. fold k.
        rewrite (firstn_S_nth VNull k) by (rewrite skipn_length; lia).
        rewrite nth_skipn. reflexivity.
  Qed.

  (* ---- when slice fails: the three guards ---- *)
  Lemma leb_false_intro a c' : (c' < a)%Z -> (a <=? c')%Z = false.
  Proof. apply Z.leb_gt. Qed.

  Theorem std_slice_guards_fail : forall E st ord s e l,
      fits (Z.of_nat (List.length l)) ->
      (s < 0 \/ Z.of_nat (List.length l) < s \/ Z.of_nat (List.length l) < e)%Z ->
      fails fo std_imports [] (ctx_gen fo E st ord [(b "arg3", VList l); (b "arg2", VInt e); (b "arg1", VInt s)]) slice_call.
  Proof.
    intros E st ord s e l Hfit Hbad.
    set (n := Z.of_nat (List.length l)) in *.
    unfold slice_call, imp_inst, ctx_gen. cbn [map fst snd].
    eapply fails_dot_copy; [apply ev_import_std, in_lists|apply lists_index_slice|].
    rewrite slice_v_eq.
    eapply copy_fails_module'.
    - fld1. fld1. fld1. iv1.
    - reflexivity.
    - reflexivity.
    - unfold slice_body.
      eapply xf_let_skip'; [|reflexivity|reflexivity|].
      { eapply ev_dot_call; [iv1|iv1|reflexivity|]. apply pkg_calls, in_lists. }
      eapply xf_let_skip'; [|reflexivity|reflexivity|].
      { eapply ev_dot_call; [ivs; reflexivity|iv1|apply lists_index_len|apply len_calls, Hfit]. }
      eapply xf_let_skip'; [|reflexivity|reflexivity|].
      { eapply ev_select; [eapply ev_is; [dotsym|iv1]|reflexivity|dotsym]. }
      eapply xf_let_skip'; [dotsym|reflexivity|reflexivity|].
      destruct (Z.ltb_spec s 0) as [Hneg|Hpos].
      { (* start < 0 *)
        apply xf_expr_here. eapply fails_or; [|eapply fails_fail; iv1].
        eapply evals_eq; [iv1; eapply ev_cmp; [reflexivity|iv1|iv1|reflexivity]|].
        cbn [compare_num]. f_equal. apply leb_false_intro. exact Hneg. }
      eapply xf_expr_skip'.
      { eapply ev_or_true. eapply evals_eq; [iv1; eapply ev_cmp; [reflexivity|iv1|iv1|reflexivity]|].
        cbn [compare_num]. f_equal. apply leb_true_intro. lia. }
      destruct (Z.ltb_spec n s) as [Hbig|Hok].
      { (* start > len *)
        apply xf_expr_here. eapply fails_or.
        - eapply evals_eq; [iv1; eapply ev_cmp; [reflexivity|iv1|iv1|reflexivity]|].
          cbn [compare_num]. f_equal. apply leb_false_intro. exact Hbig.
        - eapply fails_fail. eapply ev_formatL; [reflexivity| |].
          + constructor; [|constructor]. eexists. split; [iv1|]. exists 1. reflexivity.
          + reflexivity. }
      eapply xf_expr_skip'.
      { eapply ev_or_true. eapply evals_eq; [iv1; eapply ev_cmp; [reflexivity|iv1|iv1|reflexivity]|].
        cbn [compare_num]. f_equal. apply leb_true_intro. lia. }
      (* end > len *)
      assert (Hend : (n < e)%Z) by lia.
      apply xf_expr_here. eapply fails_or.
      + eapply evals_eq; [iv1; eapply ev_cmp; [reflexivity|iv1|iv1|reflexivity]|].
        cbn [compare_num]. f_equal. apply leb_false_intro. exact Hend.
      + eapply fails_fail. eapply ev_formatL; [reflexivity| |].
        * constructor; [|constructor]. eexists. split; [iv1|]. exists 1. reflexivity.
        * reflexivity.
  Qed.

  (* FINDING.  The third guard is `end <= list_len`, but valid indices stop at list_len - 1: end = len
     passes the library's own check and then the reducer indexes one past the end --
     a selector error when the build is strict, a trailing NULL when it is not. *)
  Theorem std_slice_end_is_len_refuted : forall E ord,
      let l := [VInt 0; VInt 1; VInt 2; VInt 3] in
      eval_imp fo std_imports 60 [] (ctx_gen fo E true ord [(b "arg3", VList l); (b "arg2", VInt 4); (b "arg1", VInt 0)]) slice_call
      = Err /\
      eval_imp fo std_imports 60 [] (ctx_gen fo E false ord [(b "arg3", VList l); (b "arg2", VInt 4); (b "arg1", VInt 0)]) slice_call
      = Ok (VList [VInt 0; VInt 1; VInt 2; VInt 3; VNull]).
  Proof. intros E ord l. split; vm_compute; reflexivity. Qed.
End Slice.
