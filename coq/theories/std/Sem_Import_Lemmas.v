(* Facts about the import-extended evaluator (Sem_Import.v):
   - fuel monotonicity: [eval_imp_le], [eval_imp_fuel_mono] (+ copy_imp, exec_imp);
   - conservativity: wherever Sem.eval gives a definite answer (anything but Unsup) eval_imp gives the
     same answer, for every import table and stack: [eval_imp_conservative] (+ copy/exec forms,
     [sem_prog_imp_conservative]).  In particular every round-1 theorem "exists f, eval f c e = Ok v"
     transfers verbatim to eval_imp ([eval_imp_of_eval]). *)
From Ucg Require Import base.Bytes_Lemmas sem.Sem std.Std_Fuel std.Sem_Import.

Inductive botk := BFuel | BUnsup.
Definition bot_of {A} (k : botk) : res A := match k with BFuel => Fuel | BUnsup => Unsup end.
Definition le_k {A} (k : botk) (r r' : res A) : Prop := r <> bot_of k -> r' = r.

Lemma le_k_refl {A} k (r : res A) : le_k k r r.
Proof. intros _; reflexivity. Qed.
Lemma le_k_bot {A} k (r' : res A) : le_k k (bot_of k) r'.
Proof. intros H; congruence. Qed.
Lemma le_k_bind {A B} k (r r' : res A) (g g' : A -> res B) :
  le_k k r r' -> (forall a, le_k k (g a) (g' a)) -> le_k k (bind r g) (bind r' g').
Proof.
  intros H1 H2 Hn. unfold le_k in *.
  destruct k, r as [a| | |]; cbn in *; try congruence;
    try (rewrite H1 by discriminate; cbn; try reflexivity; apply H2, Hn).
Qed.
Lemma le_k_mapM {A B} k (g g' : A -> res B) (l : list A) :
  (forall a, le_k k (g a) (g' a)) -> le_k k (mapM g l) (mapM g' l).
Proof.
  intros H. induction l as [|a l IH]; cbn.
  - apply le_k_refl.
  - apply le_k_bind; [apply H|]. intros x. apply le_k_bind; [exact IH|]. intros; apply le_k_refl.
Qed.
Lemma le_k_fold {A B} k (g g' : res A -> B -> res A) (l : list B) :
  (forall a a' x, le_k k a a' -> le_k k (g a x) (g' a' x)) ->
  forall a a', le_k k a a' -> le_k k (fold_left g l a) (fold_left g' l a').
Proof.
  intros H. induction l as [|x l IH]; intros a a' Ha; cbn.
  - exact Ha.
  - apply IH, H, Ha.
Qed.
Lemma le_k_ok {A} k (r r' : res A) a : le_k k r r' -> r = Ok a -> r' = Ok a.
Proof. intros H E. rewrite H; [exact E|]. rewrite E; destruct k; discriminate. Qed.
Lemma le_res_k {A} (r r' : res A) : le_res r r' -> le_k BFuel r r'.
Proof. intros H; exact H. Qed.

Ltac lek_step IH :=
  first
  [ apply le_k_refl
  | apply IH
  | apply le_k_bind; [ | intros ? ]
  | apply le_k_mapM; intros ?
  | match goal with |- le_k _ (match ?x with _ => _ end) (match ?x with _ => _ end) => destruct x end
  | match goal with |- le_k _ (if ?x then _ else _) (if ?x then _ else _) => destruct x end
  ].

Section Lemmas.
  Variable fo : float_ops.
  Variable imports : bytes -> option prog.
  Notation value := (value fo).
  Notation ctx := (ctx fo).
  Notation eval_imp := (eval_imp fo imports).
  Notation copy_imp := (copy_imp fo imports).
  Notation exec_imp := (exec_imp fo imports).
  Notation veq := (veq fo).
  Notation render := (render fo).

  (* ---------------- fuel monotonicity ---------------- *)
  Definition mono_imp_at (f : nat) : Prop :=
    (forall f' stk c e, f <= f' -> le_k BFuel (eval_imp f stk c e) (eval_imp f' stk c e)) /\
    (forall f' stk c tv fs, f <= f' -> le_k BFuel (copy_imp f stk c tv fs) (copy_imp f' stk c tv fs)) /\
    (forall f' stk c ss, f <= f' -> le_k BFuel (exec_imp f stk c ss) (exec_imp f' stk c ss)).

  Lemma mono_imp_all : forall f, mono_imp_at f.
  Proof.
    induction f as [|f IH].
    { repeat split; intros; apply (le_k_bot BFuel). }
    destruct IH as (IHe & IHc & IHx).
    assert (Step : forall f', f <= f' ->
              (forall stk c e, le_k BFuel (eval_imp (S f) stk c e) (eval_imp (S f') stk c e)) /\
              (forall stk c tv fs, le_k BFuel (copy_imp (S f) stk c tv fs) (copy_imp (S f') stk c tv fs)) /\
              (forall stk c ss, le_k BFuel (exec_imp (S f) stk c ss) (exec_imp (S f') stk c ss))).
    { intros f' Hf.
      assert (He : forall stk c e, le_k BFuel (eval_imp f stk c e) (eval_imp f' stk c e)) by (intros; apply IHe; exact Hf).
      assert (Hc : forall stk c tv fs, le_k BFuel (copy_imp f stk c tv fs) (copy_imp f' stk c tv fs)) by (intros; apply IHc; exact Hf).
      assert (Hx : forall stk c ss, le_k BFuel (exec_imp f stk c ss) (exec_imp f' stk c ss)) by (intros; apply IHx; exact Hf).
      assert (Hv : forall o a b', le_k BFuel (veq o f a b') (veq o f' a b')) by (intros; apply le_res_k, veq_le; exact Hf).
      assert (Hr : forall v, le_k BFuel (render f v) (render f' v)) by (intros; apply le_res_k, render_le; exact Hf).
      assert (Hfl : forall stk c fs a a', le_k BFuel a a' ->
                le_k BFuel (fold_left (fun acc '(k, e) => do a <- acc; do v <- eval_imp f stk c e; merge_field fo a k v) fs a)
                           (fold_left (fun acc '(k, e) => do a <- acc; do v <- eval_imp f' stk c e; merge_field fo a k v) fs a')).
      { intros stk c fs. apply le_k_fold. intros a a' [k e] Ha.
        apply le_k_bind; [exact Ha|]. intros x. apply le_k_bind; [apply He|]. intros; apply le_k_refl. }
      clear IHe IHc IHx Hf.
      split; [|split].
      - intros stk c e. destruct e.
        all: simpl.
        all: repeat first [ apply Hv | apply Hr | apply Hc | apply Hx | (apply Hfl; apply le_k_refl) | lek_step He ].
        + induction l as [|v rest IHl]; [apply le_k_refl|].
          apply le_k_bind; [apply Hv|]. intros [|]; [apply le_k_refl|apply IHl].
        + revert args. induction parts as [|p ps IHp]; intros args; [apply le_k_refl|].
          destruct p as [s0| |pe]; [| |apply le_k_refl].
          * apply le_k_bind; [apply IHp|]. intros; apply le_k_refl.
          * destruct args as [|a es']; [apply le_k_refl|].
            apply le_k_bind; [apply IHp|]. intros r.
            apply le_k_bind; [apply He|]. intros v.
            apply le_k_bind; [apply Hr|]. intros; apply le_k_refl.
        + induction parts as [|p ps IHp]; [apply le_k_refl|].
          destruct p as [s0| |pe]; [|apply le_k_refl|].
          * apply le_k_bind; [apply IHp|]. intros; apply le_k_refl.
          * apply le_k_bind; [apply IHp|]. intros r.
            apply le_k_bind; [apply He|]. intros v.
            apply le_k_bind; [apply Hr|]. intros; apply le_k_refl.
        + induction fs as [|[k v] fs' IHfs]; [apply le_k_refl|].
          apply le_k_bind.
          * apply le_k_bind; [apply le_k_refl|]. intros; apply He.
          * intros out. destruct out; try apply IHfs.
            destruct l as [|x1 l]; [apply le_k_refl|].
            destruct x1; try apply le_k_refl.
            destruct l as [|x2 l]; [apply le_k_refl|].
            destruct l as [|x3 l]; [|apply le_k_refl].
            apply le_k_bind; [apply IHfs|]. intros; apply le_k_refl.
        + apply le_k_fold; [|apply le_k_refl]. intros a1 a1' x Ha.
          apply le_k_bind; [exact Ha|]. intros a'. apply le_k_bind; [apply le_k_refl|]. intros; apply He.
        + apply le_k_fold; [|apply le_k_refl]. intros a1 a1' x Ha.
          apply le_k_bind; [exact Ha|]. intros a'. apply le_k_bind; [apply le_k_refl|]. intros; apply He.
        + apply le_k_fold; [|apply le_k_refl]. intros a1 a1' [k v] Ha.
          apply le_k_bind; [exact Ha|]. intros a'. apply le_k_bind; [apply le_k_refl|]. intros; apply He.
      - intros stk c tv fs. simpl.
        apply le_k_bind; [apply Hfl; apply le_k_refl|]. intros ovs.
        repeat first [ apply Hx | lek_step He ].
      - intros stk c ss. simpl.
        repeat first [ apply Hx | lek_step He ].
    }
    repeat split; intros f' *; intros Hle; (destruct f' as [|f']; [lia|]); apply Step; lia.
  Qed.

  Theorem eval_imp_le f f' stk c e : f <= f' -> le_res (eval_imp f stk c e) (eval_imp f' stk c e).
  Proof. apply (mono_imp_all f). Qed.
  Theorem copy_imp_le f f' stk c tv fs : f <= f' -> le_res (copy_imp f stk c tv fs) (copy_imp f' stk c tv fs).
  Proof. apply (mono_imp_all f). Qed.
  Theorem exec_imp_le f f' stk c ss : f <= f' -> le_res (exec_imp f stk c ss) (exec_imp f' stk c ss).
  Proof. apply (mono_imp_all f). Qed.

  Theorem eval_imp_fuel_mono f f' stk c e v : eval_imp f stk c e = Ok v -> f <= f' -> eval_imp f' stk c e = Ok v.
  Proof. intros H Hle. exact (le_res_ok _ _ _ (eval_imp_le f f' stk c e Hle) H). Qed.
  Theorem eval_imp_fuel_mono_err f f' stk c e : eval_imp f stk c e = Err -> f <= f' -> eval_imp f' stk c e = Err.
  Proof. intros H Hle. rewrite (eval_imp_le f f' stk c e Hle); [exact H|]. rewrite H; discriminate. Qed.
  Theorem copy_imp_fuel_mono f f' stk c tv fs v : copy_imp f stk c tv fs = Ok v -> f <= f' -> copy_imp f' stk c tv fs = Ok v.
  Proof. intros H Hle. exact (le_res_ok _ _ _ (copy_imp_le f f' stk c tv fs Hle) H). Qed.
  Theorem exec_imp_fuel_mono f f' stk c ss s : exec_imp f stk c ss = Ok s -> f <= f' -> exec_imp f' stk c ss = Ok s.
  Proof. intros H Hle. exact (le_res_ok _ _ _ (exec_imp_le f f' stk c ss Hle) H). Qed.

  Theorem copy_imp_fuel_mono_err f f' stk c tv fs : copy_imp f stk c tv fs = Err -> f <= f' -> copy_imp f' stk c tv fs = Err.
  Proof. intros H Hle. rewrite (copy_imp_le f f' stk c tv fs Hle); [exact H|]. rewrite H; discriminate. Qed.
  Theorem exec_imp_fuel_mono_err f f' stk c ss : exec_imp f stk c ss = Err -> f <= f' -> exec_imp f' stk c ss = Err.
  Proof. intros H Hle. rewrite (exec_imp_le f f' stk c ss Hle); [exact H|]. rewrite H; discriminate. Qed.

  (* ---------------- conservativity ---------------- *)
  Lemma conservative_all : forall f,
    (forall stk c e, le_k BUnsup (eval fo f c e) (eval_imp f stk c e)) /\
    (forall stk c tv fs, le_k BUnsup (copy_into fo f c tv fs) (copy_imp f stk c tv fs)) /\
    (forall stk c ss, le_k BUnsup (exec_list fo f c ss) (exec_imp f stk c ss)).
  Proof.
    induction f as [|f IH].
    { repeat split; intros; apply le_k_refl. }
    destruct IH as (He & Hc & Hx).
    assert (Hfl : forall stk c fs a a', le_k BUnsup a a' ->
              le_k BUnsup (fold_left (fun acc '(k, e) => do a <- acc; do v <- eval fo f c e; merge_field fo a k v) fs a)
                          (fold_left (fun acc '(k, e) => do a <- acc; do v <- eval_imp f stk c e; merge_field fo a k v) fs a')).
    { intros stk c fs. apply le_k_fold. intros a a' [k e] Ha.
      apply le_k_bind; [exact Ha|]. intros x. apply le_k_bind; [apply He|]. intros; apply le_k_refl. }
    split; [|split].
    - intros stk c e. destruct e.
      all: simpl.
      all: repeat first [ apply Hc | apply Hx | (apply Hfl; apply le_k_refl) | lek_step He ].
      + revert args. induction parts as [|p ps IHp]; intros args; [apply le_k_refl|].
        destruct p as [s0| |pe]; [| |apply le_k_refl].
        * apply le_k_bind; [apply IHp|]. intros; apply le_k_refl.
        * destruct args as [|a es']; [apply le_k_refl|].
          apply le_k_bind; [apply IHp|]. intros r.
          apply le_k_bind; [apply He|]. intros v. apply le_k_refl.
      + induction parts as [|p ps IHp]; [apply le_k_refl|].
        destruct p as [s0| |pe]; [|apply le_k_refl|].
        * apply le_k_bind; [apply IHp|]. intros; apply le_k_refl.
        * apply le_k_bind; [apply IHp|]. intros r.
          apply le_k_bind; [apply He|]. intros v. apply le_k_refl.
      + induction fs as [|[k v] fs' IHfs]; [apply le_k_refl|].
        apply le_k_bind.
        * apply le_k_bind; [apply le_k_refl|]. intros; apply He.
        * intros out. destruct out; try apply IHfs.
          destruct l as [|x1 l]; [apply le_k_refl|].
          destruct x1; try apply le_k_refl.
          destruct l as [|x2 l]; [apply le_k_refl|].
          destruct l as [|x3 l]; [|apply le_k_refl].
          apply le_k_bind; [apply IHfs|]. intros; apply le_k_refl.
      + apply le_k_fold; [|apply le_k_refl]. intros a1 a1' x Ha.
        apply le_k_bind; [exact Ha|]. intros a'. apply le_k_bind; [apply le_k_refl|]. intros; apply He.
      + apply le_k_fold; [|apply le_k_refl]. intros a1 a1' x Ha.
        apply le_k_bind; [exact Ha|]. intros a'. apply le_k_bind; [apply le_k_refl|]. intros; apply He.
      + apply le_k_fold; [|apply le_k_refl]. intros a1 a1' [k v] Ha.
        apply le_k_bind; [exact Ha|]. intros a'. apply le_k_bind; [apply le_k_refl|]. intros; apply He.
      + (* EImport: Sem says Unsup *) apply (le_k_bot BUnsup).
    - intros stk c tv fs. simpl.
      apply le_k_bind; [apply Hfl; apply le_k_refl|]. intros ovs.
      repeat first [ apply Hx | lek_step He ].
    - intros stk c ss. simpl.
      repeat first [ apply Hx | lek_step He ].
  Qed.

  (* Wherever the definitional semantics gives a definite answer, the extension agrees. *)
  Theorem eval_imp_conservative f stk c e r :
    eval fo f c e = r -> r <> Unsup -> eval_imp f stk c e = r.
  Proof. intros <- Hn. exact (proj1 (conservative_all f) stk c e Hn). Qed.
  Theorem copy_imp_conservative f stk c tv fs r :
    copy_into fo f c tv fs = r -> r <> Unsup -> copy_imp f stk c tv fs = r.
  Proof. intros <- Hn. exact (proj1 (proj2 (conservative_all f)) stk c tv fs Hn). Qed.
  Theorem exec_imp_conservative f stk c ss r :
    exec_list fo f c ss = r -> r <> Unsup -> exec_imp f stk c ss = r.
  Proof. intros <- Hn. exact (proj2 (proj2 (conservative_all f)) stk c ss Hn). Qed.
  Theorem sem_prog_imp_conservative f E st ord p r :
    sem_prog fo f E st ord p = r -> r <> Unsup -> sem_prog_imp fo imports f E st ord p = r.
  Proof.
    unfold sem_prog, sem_prog_imp. intros <- Hn.
    destruct (exec_list fo f _ p) as [s| | |] eqn:E1; cbn in *; try congruence;
      rewrite (exec_imp_conservative f [] _ p _ E1) by discriminate; reflexivity.
  Qed.
  (* the form in which the round-1 theorems transfer *)
  Corollary eval_imp_of_eval stk c e v :
    (exists f, eval fo f c e = Ok v) -> exists f, eval_imp f stk c e = Ok v.
  Proof. intros [f H]. exists f. apply eval_imp_conservative; [exact H|discriminate]. Qed.
End Lemmas.
