(* Printer used only by the validation harness (validate/validate.py): a program's bindings as an
   s-expression with hex-encoded strings.  Not used by any theorem. *)
From Ucg Require Import std.Sem_Import.

Definition hexd (n : N) : ascii := ascii_of_N (if N.ltb n 10 then 48 + n else 87 + n).
Fixpoint hex (s : bytes) : bytes :=
  match s with
  | [] => []
  | c :: s' => let n := N_of_ascii c in hexd (N.div n 16) :: hexd (N.modulo n 16) :: hex s'
  end.

Section Show.
  Variable fo : float_ops.
  Fixpoint show (v : value fo) : bytes :=
    match v with
    | VNull _ => b "(null)"
    | VBool _ true => b "(bool 1)"
    | VBool _ false => b "(bool 0)"
    | VInt _ z => b "(int " ++ dec_Z z ++ b ")"
    | VFloat _ _ => b "(float)"
    | VStr _ s => b "(str x" ++ hex s ++ b ")"
    | VList _ l => b "(list" ++ (fix go (l : list (value fo)) : bytes :=
                                   match l with [] => [] | v :: l' => " "%char :: show v ++ go l' end) l ++ b ")"
    | VTuple _ fs => b "(tuple" ++ (fix go (fs : list (bytes * value fo)) : bytes :=
                                      match fs with
                                      | [] => []
                                      | (k, v) :: fs' => b " (x" ++ hex k ++ b " " ++ show v ++ b ")" ++ go fs'
                                      end) fs ++ b ")"
    | VFunc _ _ _ _ => b "(func)"
    | VModule _ _ _ _ => b "(module)"
    end.
  Definition show_res (r : res (list (bytes * value fo))) : string :=
    string_of_list_ascii
      match r with
      | Ok fs => b "ok" ++ (fix go (fs : list (bytes * value fo)) : bytes :=
                              match fs with
                              | [] => []
                              | (k, v) :: fs' => b " (x" ++ hex k ++ b " " ++ show v ++ b ")" ++ go fs'
                              end) fs
      | Err => b "err"
      | Unsup => b "unsup"
      | Fuel => b "fuel"
      end.
End Show.
