(* std/functional.ucg through `import`: maybe (do / or / is_null / unwrap / expect), identity. *)
From Ucg Require Import base.Bytes_Lemmas sem.Sem std.Std_Fuel std.Sem_Import std.Sem_Import_Lemmas
     std.Std_Rules_Imp std.Std_Rules_Imp2 std.StdSpec std.StdSpec_Imp std.Imp_Base.

Section Functional.
  Variable fo : float_ops.
  Notation value := (value fo).
  Notation VInt := (VInt fo).
  Notation VStr := (VStr fo).
  Notation VBool := (VBool fo).
  Notation VNull := (VNull fo).
  Notation VList := (VList fo).
  Notation VTuple := (VTuple fo).
  Notation VFunc := (VFunc fo).
  Notation VModule := (VModule fo).
  Notation evals := (evals fo std_imports []).
  Notation calls := (calls fo std_imports []).
  Notation copies := (copies fo std_imports []).
  Notation fails := (fails fo std_imports []).

  Definition maybe_v : value := member fo functional_path "maybe".
  Definition maybe_pkg_clo := pkg_clo fo maybe_v.
  Definition maybe_out : option expr := Eval vm_compute in mod_out fo maybe_v.
  Definition maybe_body : list stmt := Eval vm_compute in mod_body fo maybe_v.
  Definition maybe_pkg : value := VFunc [] (EImport functional_path) maybe_pkg_clo.
  Definition maybe_m : value := VModule [(b "val", VNull); (b "pkg", maybe_pkg)] maybe_out maybe_body.
  Lemma maybe_v_eq : maybe_v = maybe_m.
  Proof. vm_compute. reflexivity. Qed.
  Lemma functional_index_maybe c : index fo c (import_value fo functional_path) (VStr (b "maybe")) = Ok maybe_v.
  Proof. destruct c. vm_compute. reflexivity. Qed.

  Definition let_body (n : nat) : expr :=
    match nth n maybe_body (SExpr ENull) with SLet _ (EFunc _ bd) => bd | _ => ENull end.
  Definition do_body : expr := Eval vm_compute in let_body 1.
  Definition or_body : expr := Eval vm_compute in let_body 2.
  Definition null_body : expr := Eval vm_compute in let_body 3.
  Definition unwrap_body : expr := Eval vm_compute in let_body 4.
  Definition expect_body : expr := Eval vm_compute in let_body 5.

  (* the value of maybe{val = v}: five closures over the module's scope *)
  Definition modt (v : value) : value := VTuple [(b "val", v); (b "pkg", maybe_pkg); (b "this", maybe_m)].
  Definition S0 (v : value) : scope fo := [(b "this", maybe_m); (b "mod", modt v)].
  Definition Vdo v : value := VFunc [b "op"] do_body (S0 v).
  Definition S1 v : scope fo := (b "do", Vdo v) :: S0 v.
  Definition Vor v : value := VFunc [b "op"] or_body (S1 v).
  Definition S2 v : scope fo := (b "or", Vor v) :: S1 v.
  Definition Vnull v : value := VFunc [] null_body (S2 v).
  Definition S3 v : scope fo := (b "is_null", Vnull v) :: S2 v.
  Definition Vunwrap v : value := VFunc [] unwrap_body (S3 v).
  Definition S4 v : scope fo := (b "unwrap", Vunwrap v) :: S3 v.
  Definition Vexpect v : value := VFunc [b "msg"] expect_body (S4 v).
  Definition maybe_tuple (v : value) : value :=
    VTuple [(b "do", Vdo v); (b "is_null", Vnull v); (b "or", Vor v); (b "unwrap", Vunwrap v); (b "expect", Vexpect v)].

  Lemma maybe_copies c e v :
    evals (with_self fo c (Some maybe_m)) e v -> copies c maybe_m [(b "val", e)] (maybe_tuple v).
  Proof.
    intros He. destruct c as [s0 slf E st ord]. unfold maybe_m in *.
    eapply copies_module'.
    - eapply evf_cons; [exact He|reflexivity|iv1].
    - destruct v; reflexivity.
    - reflexivity.
    - unfold maybe_body.
      eapply execs_let'; [dotsym|reflexivity|reflexivity|].
      eapply execs_let'; [iv1|reflexivity|reflexivity|].
      eapply execs_let'; [iv1|reflexivity|reflexivity|].
      eapply execs_let'; [iv1|reflexivity|reflexivity|].
      eapply execs_let'; [iv1|reflexivity|reflexivity|].
      eapply execs_let'; [iv1|reflexivity|reflexivity|].
      apply execs_nil'.
    - unfold maybe_out, maybe_tuple. iv1. fld1. fld1. fld1. fld1. fld1. iv1.
  Qed.

  Lemma veq_null o v : is_closure fo v = false -> veq fo o 1 v VNull = Ok (is_null fo v).
  Proof. destruct v; cbn; intros H; try discriminate; reflexivity. Qed.
  Lemma compatible_null v : compatible fo v VNull = true.
  Proof. destruct v; reflexivity. Qed.

  Lemma unwrap_calls c v : calls c (Vunwrap v) [] v.
  Proof. eapply calls_intro; [reflexivity|reflexivity|]. unfold unwrap_body. dotsym. Qed.

  Lemma is_null_calls c v : is_closure fo v = false -> calls c (Vnull v) [] (VBool (is_null fo v)).
  Proof.
    intros Hv. eapply calls_intro; [reflexivity|reflexivity|]. unfold null_body.
    eapply ev_eq; [dotsym|iv1|apply compatible_null|]. exists 1. apply veq_null, Hv.
  Qed.

  (* do: NULL stays NULL, otherwise the operation is applied and the result wrapped again *)
  Lemma do_calls_null c opv : calls c (Vdo VNull) [opv] (maybe_tuple VNull).
  Proof.
    eapply calls_intro; [reflexivity|reflexivity|]. unfold do_body.
    eapply ev_select.
    - iv1. eapply ev_neq; [dotsym|iv1|reflexivity|]. exists 1. reflexivity.
    - reflexivity.
    - eapply ev_copy; [iv1|]. apply maybe_copies. iv1.
  Qed.
  Lemma do_calls c opv v w :
    is_closure fo v = false -> is_null fo v = false -> calls c opv [v] w ->
    calls c (Vdo v) [opv] (maybe_tuple w).
  Proof.
    intros Hc Hn Hop. eapply calls_intro; [reflexivity|reflexivity|]. unfold do_body.
    eapply ev_select.
    - iv1. eapply ev_neq; [dotsym|iv1|apply compatible_null|]. exists 1. apply veq_null, Hc.
    - rewrite Hn. reflexivity.
    - eapply ev_copy; [iv1|]. apply maybe_copies.
      eapply ev_call; [ivs; reflexivity|iv1|].
      eapply calls_ctx; [| | |exact Hop]; reflexivity.
  Qed.

  (* or: a non-NULL value is kept, NULL is replaced by the result of the operation *)
  Lemma or_calls c opv v :
    is_closure fo v = false -> is_null fo v = false -> calls c (Vor v) [opv] (maybe_tuple v).
  Proof.
    intros Hc Hn. eapply calls_intro; [reflexivity|reflexivity|]. unfold or_body.
    eapply ev_select.
    - iv1. eapply ev_eq; [dotsym|iv1|apply compatible_null|]. exists 1. apply veq_null, Hc.
    - rewrite Hn. reflexivity.
    - eapply ev_copy; [iv1|]. apply maybe_copies. dotsym.
  Qed.
  Lemma or_calls_null c opv w :
    calls c opv [] w -> calls c (Vor VNull) [opv] (maybe_tuple w).
  Proof.
    intros Hop. eapply calls_intro; [reflexivity|reflexivity|]. unfold or_body.
    eapply ev_select.
    - iv1. eapply ev_eq; [dotsym|iv1|reflexivity|]. exists 1. reflexivity.
    - reflexivity.
    - eapply ev_copy; [iv1|]. apply maybe_copies.
      eapply ev_call; [iv1|iv1|]. eapply calls_ctx; [| | |exact Hop]; reflexivity.
  Qed.

  Lemma expect_calls c msg v :
    is_closure fo v = false -> is_null fo v = false -> calls c (Vexpect v) [msg] v.
  Proof.
    intros Hc Hn. eapply calls_intro; [reflexivity|reflexivity|]. unfold expect_body.
    eapply ev_select.
    - eapply ev_neq; [dotsym|iv1|apply compatible_null|]. exists 1. apply veq_null, Hc.
    - rewrite Hn. reflexivity.
    - dotsym.
  Qed.

  (* ---- the statements on expressions ---- *)
  Definition maybe_of_arg : expr := imp_inst functional_path "maybe" [("val", "arg")]%string.
  Definition meth (m : expr) (name : string) (args : list expr) : expr := EBin DOT m (ECall (ESym (b name)) args).

  Lemma maybe_of_arg_evals E st ord sc0 v :
    lookup fo (b "arg") sc0 = Some v ->
    evals (Build_ctx fo sc0 None E st ord) maybe_of_arg (maybe_tuple v).
  Proof.
    intros Hl. unfold maybe_of_arg, imp_inst. cbn [map fst snd].
    eapply ev_dot_copy; [apply ev_import_std, in_functional|apply functional_index_maybe|].
    rewrite maybe_v_eq. apply maybe_copies. apply ev_sym; [reflexivity|exact Hl].
  Qed.

  Theorem std_maybe_unwrap : forall E st ord v,
      exists f, eval_imp fo std_imports f [] (ctx_gen fo E st ord [(b "arg", v)]) (meth maybe_of_arg "unwrap" []) = Ok v.
  Proof.
    intros. unfold ctx_gen, meth.
    eapply ev_dot_call; [iv1|apply maybe_of_arg_evals; reflexivity|reflexivity|apply unwrap_calls].
  Qed.

  Theorem std_maybe_is_null : forall E st ord v, is_closure fo v = false ->
      exists f, eval_imp fo std_imports f [] (ctx_gen fo E st ord [(b "arg", v)]) (meth maybe_of_arg "is_null" [])
                = Ok (VBool (is_null fo v)).
  Proof.
    intros. unfold ctx_gen, meth.
    eapply ev_dot_call; [iv1|apply maybe_of_arg_evals; reflexivity|reflexivity|apply is_null_calls; assumption].
  Qed.

  (* maybe{val=arg}.do(op).unwrap() *)
  Theorem std_maybe_do : forall E st ord v opv w,
      is_closure fo v = false -> is_null fo v = false ->
      calls (ctx_gen fo E st ord []) opv [v] w ->
      exists f, eval_imp fo std_imports f [] (ctx_gen fo E st ord [(b "op", opv); (b "arg", v)])
                         (meth (meth maybe_of_arg "do" [ESym (b "op")]) "unwrap" []) = Ok w.
  Proof.
    intros E st ord v opv w Hc Hn Hop. unfold ctx_gen, meth in *.
    eapply ev_dot_call.
    - iv1.
    - eapply ev_dot_call; [ivs|apply maybe_of_arg_evals; reflexivity|reflexivity|].
      apply do_calls; [assumption|assumption|]. eapply calls_ctx; [| | |exact Hop]; reflexivity.
    - reflexivity.
    - apply unwrap_calls.
  Qed.
  Theorem std_maybe_do_null : forall E st ord opv,
      exists f, eval_imp fo std_imports f [] (ctx_gen fo E st ord [(b "op", opv); (b "arg", VNull)])
                         (meth (meth maybe_of_arg "do" [ESym (b "op")]) "unwrap" []) = Ok VNull.
  Proof.
    intros E st ord opv. unfold ctx_gen, meth in *.
    eapply ev_dot_call.
    - iv1.
    - eapply ev_dot_call; [ivs|apply maybe_of_arg_evals; reflexivity|reflexivity|apply do_calls_null].
    - reflexivity.
    - apply unwrap_calls.
  Qed.

  (* maybe{val=arg}.or(op).unwrap() *)
  Theorem std_maybe_or : forall E st ord v opv,
      is_closure fo v = false -> is_null fo v = false ->
      exists f, eval_imp fo std_imports f [] (ctx_gen fo E st ord [(b "op", opv); (b "arg", v)])
                         (meth (meth maybe_of_arg "or" [ESym (b "op")]) "unwrap" []) = Ok v.
  Proof.
    intros E st ord v opv Hc Hn. unfold ctx_gen, meth in *.
    eapply ev_dot_call.
    - iv1.
    - eapply ev_dot_call; [ivs|apply maybe_of_arg_evals; reflexivity|reflexivity|apply or_calls; assumption].
    - reflexivity.
    - apply unwrap_calls.
  Qed.
  Theorem std_maybe_or_null : forall E st ord opv w,
      calls (ctx_gen fo E st ord []) opv [] w ->
      exists f, eval_imp fo std_imports f [] (ctx_gen fo E st ord [(b "op", opv); (b "arg", VNull)])
                         (meth (meth maybe_of_arg "or" [ESym (b "op")]) "unwrap" []) = Ok w.
  Proof.
    intros E st ord opv w Hop. unfold ctx_gen, meth in *.
    eapply ev_dot_call.
    - iv1.
    - eapply ev_dot_call; [ivs|apply maybe_of_arg_evals; reflexivity|reflexivity|].
      apply or_calls_null. eapply calls_ctx; [| | |exact Hop]; reflexivity.
    - reflexivity.
    - apply unwrap_calls.
  Qed.

  (* maybe{val=arg}.expect(msg) *)
  Theorem std_maybe_expect : forall E st ord v m,
      is_closure fo v = false -> is_null fo v = false ->
      exists f, eval_imp fo std_imports f [] (ctx_gen fo E st ord [(b "msg", m); (b "arg", v)])
                         (meth maybe_of_arg "expect" [ESym (b "msg")]) = Ok v.
  Proof.
    intros E st ord v m Hc Hn. unfold ctx_gen, meth in *.
    eapply ev_dot_call; [ivs|apply maybe_of_arg_evals; reflexivity|reflexivity|apply expect_calls; assumption].
  Qed.
  (* ... and on NULL it is a build failure (`fail msg`) *)
  Theorem std_maybe_expect_null_fails : forall E ord m,
      forall f v, eval_imp fo std_imports f [] (ctx_gen fo E true ord [(b "msg", VStr m); (b "arg", VNull)])
                           (meth maybe_of_arg "expect" [ESym (b "msg")]) <> Ok v.
  Proof.
    intros E ord m. apply fails_not_ok. exists 60. vm_compute. reflexivity.
  Qed.

  Theorem std_identity : forall E st ord v,
      exists f, eval_imp fo std_imports f [] (ctx_gen fo E st ord [(b "arg", v)]) (imp_call functional_path "identity" ["arg"%string])
                = Ok v.
  Proof. intros. exists 60. vm_compute. reflexivity. Qed.
End Functional.
