(* std/lists.ucg: str_join *)
From Ucg Require Import base.Bytes_Lemmas sem.Sem std.Std_Fuel std.Std_Rules std.StdSpec std.Std_Base.
From UcgGen Require Import StdLib.

Section Std.
  Variable fo : float_ops.
  Notation value := (value fo).
  Notation VInt := (VInt fo).
  Notation VStr := (VStr fo).
  Notation VBool := (VBool fo).
  Notation VNull := (VNull fo).
  Notation VList := (VList fo).
  Notation VTuple := (VTuple fo).
  Notation evals := (evals fo).
  Notation calls := (calls fo).
  Notation renders := (renders fo).

  Definition join_acc (sep out : bytes) (first : bool) : value :=
    VTuple [(b "sep", VStr sep); (b "out", VStr out); (b "first", VBool first)].
  Definition is_nil {A} (l : list A) : bool := match l with [] => true | _ => false end.

  Lemma join_snoc sep ts t : ts <> [] -> join sep (ts ++ [t]) = join sep ts ++ sep ++ t.
  Proof.
    induction ts as [|u ts IH]; intros Hne; [congruence|].
    destruct ts as [|u' ts].
    - reflexivity.
    - cbn [app join] in *. rewrite IH by discriminate. rewrite <- !app_assoc. reflexivity.
  Qed.

  Lemma renders_str s : renders (VStr s) s.
  Proof. exists 1. reflexivity. Qed.
  Lemma renders_int z : renders (VInt z) (dec_Z z).
  Proof. exists 1. reflexivity. Qed.

  Lemma firstn_len_app {A} (a c : list A) n : List.length a = n -> firstn n (a ++ c) = a.
  Proof.
    intros <-. rewrite firstn_app, firstn_all, Nat.sub_diag. cbn. apply app_nil_r.
  Qed.
  Lemma firstn_len_app1 {A} (a c : list A) t n :
    List.length a = n -> firstn (n + 1) (a ++ t :: c) = a ++ [t].
  Proof.
    intros <-. rewrite firstn_app. rewrite firstn_all2 by lia.
    replace (List.length a + 1 - List.length a)%nat with 1%nat by lia. reflexivity.
  Qed.

  Lemma Forall2_length {A B} (R : A -> B -> Prop) l1 l2 : Forall2 R l1 l2 -> List.length l1 = List.length l2.
  Proof. induction 1; cbn; congruence. Qed.

  (* General form: the items are rendered by the format semantics [render]; [ts] are their texts. *)
  Theorem std_str_join : forall E st ord sep l ts,
      Forall2 renders l ts ->
      exists f, eval fo f (ctx_gen fo E st ord ((b "arg2", VList l) :: (b "arg1", VStr sep) :: lists_scope fo))
                     str_join_call
                = Ok (VStr (join sep ts)).
  Proof.
    intros E st ord sep l ts Hts.
    let s := eval vm_compute in (lists_scope fo) in change (lists_scope fo) with s.
    edestruct (reduce_list_inv fo) with (l := l)
      (I := fun (pre : list value) (a : value) =>
              a = join_acc sep (join sep (firstn (List.length pre) ts)) (is_nil pre))
      as (r & Hr & HI); cycle 5.
    - subst r. rewrite (Forall2_length _ _ _ Hts), firstn_all in Hr.
      eapply ev_copy; [ev1|].
      eapply copies_module.
      + eapply evf_cons; [ev1|reflexivity|]. eapply evf_cons; [ev1|reflexivity|]. ev1.
      + reflexivity.
      + reflexivity.
      + eapply execs_let; [ev1|reflexivity|reflexivity|].
        eapply execs_let; [|reflexivity|reflexivity|apply execs_nil].
        eapply ev_dot_sym; [exact Hr|reflexivity].
      + ev1.
    - ev1.
    - ev1. eapply evf_cons; [eapply ev_dot_sym; [ev1|reflexivity]|reflexivity|].
      eapply evf_cons; [ev1|reflexivity|].
      eapply evf_cons; [ev1|reflexivity|]. ev1.
    - ev1. eapply ev_dot_sym; [ev1|reflexivity].
    - reflexivity.
    - intros pre v post a El ->.
      rewrite El in Hts. apply Forall2_app_inv_l in Hts. destruct Hts as (t1 & t2 & H1 & H2 & ->).
      inversion H2 as [|v' t l' t2' Hv H2' E1 E2]; subst. clear H2.
      pose proof (Forall2_length _ _ _ H1) as Hlen.
      rewrite app_length. cbn [List.length].
      rewrite (firstn_len_app t1 (t :: t2') _ (eq_sym Hlen)).
      rewrite (firstn_len_app1 t1 t2' t _ (eq_sym Hlen)).
      destruct pre as [|x pre]; destruct t1 as [|u t1]; try discriminate Hlen.
      + eexists. split.
        * eapply calls_intro; [reflexivity|reflexivity|].
          eapply ev_select; [eapply ev_dot_sym; [ev1|reflexivity]|reflexivity|].
          eapply ev_copy; [ev1|]. eapply copies_tuple.
          -- eapply evf_cons; [|reflexivity|].
             { eapply ev_formatL; [reflexivity| |].
               - constructor; [|constructor]. exists v. split; [ev1|exact Hv].
               - reflexivity. }
             eapply evf_cons; [ev1|reflexivity|]. ev1.
          -- reflexivity.
        * cbn [app join is_nil]. rewrite app_nil_r. reflexivity.
      + eexists. split.
        * eapply calls_intro; [reflexivity|reflexivity|].
          eapply ev_select; [eapply ev_dot_sym; [ev1|reflexivity]|reflexivity|].
          eapply ev_copy; [ev1|]. eapply copies_tuple.
          -- eapply evf_cons; [|reflexivity|].
             { eapply ev_formatL; [reflexivity| |].
               - constructor; [|constructor; [|constructor; [|constructor]]].
                 + eexists. split; [eapply ev_dot_sym; [ev1|reflexivity]|apply renders_str].
                 + eexists. split; [eapply ev_dot_sym; [ev1|reflexivity]|apply renders_str].
                 + exists v. split; [ev1|exact Hv].
               - reflexivity. }
             ev1.
          -- reflexivity.
        * rewrite join_snoc by discriminate. rewrite app_nil_r. reflexivity.
  Qed.

  (* the same with a text assignment [txt] that agrees with [render] on the items *)
  Corollary std_str_join_txt : forall E st ord sep l (txt : value -> bytes),
      (forall v, In v l -> renders v (txt v)) ->
      exists f, eval fo f (ctx_gen fo E st ord ((b "arg2", VList l) :: (b "arg1", VStr sep) :: lists_scope fo))
                     str_join_call
                = Ok (VStr (join sep (map txt l))).
  Proof.
    intros E st ord sep l txt Htxt. apply std_str_join.
    induction l as [|v l IH]; constructor.
    - apply Htxt. left. reflexivity.
    - apply IH. intros w Hw. apply Htxt. right. exact Hw.
  Qed.

  Corollary std_str_join_strings : forall E st ord sep (ss : list bytes),
      exists f, eval fo f (ctx_gen fo E st ord ((b "arg2", VList (map VStr ss)) :: (b "arg1", VStr sep) :: lists_scope fo))
                     str_join_call
                = Ok (VStr (join sep ss)).
  Proof.
    intros E st ord sep ss. apply std_str_join.
    induction ss as [|s ss IH]; constructor; [apply renders_str|exact IH].
  Qed.

  Corollary std_str_join_ints : forall E st ord sep (zs : list Z),
      exists f, eval fo f (ctx_gen fo E st ord ((b "arg2", VList (map VInt zs)) :: (b "arg1", VStr sep) :: lists_scope fo))
                     str_join_call
                = Ok (VStr (join sep (map dec_Z zs))).
  Proof.
    intros E st ord sep zs. apply std_str_join.
    induction zs as [|z zs IH]; constructor; [apply renders_int|exact IH].
  Qed.
End Std.
