From Ucg Require Import base.Bytes.

Lemma bytes_eqb_spec x y : bytes_eqb x y = true <-> x = y.
Proof.
  revert y; induction x as [|c x IH]; intros [|d y]; cbn.
  - split; reflexivity.
  - split; discriminate.
  - split; discriminate.
  - rewrite andb_true_iff, IH, Ascii.eqb_eq. split.
    + intros [-> ->]; reflexivity.
    + intros H; inversion H; auto.
Qed.

Lemma bytes_eqb_refl x : bytes_eqb x x = true.
Proof. apply bytes_eqb_spec; reflexivity. Qed.

Lemma strip_prefix_app p s : strip_prefix p (p ++ s) = Some s.
Proof. induction p as [|c p IH]; cbn; auto. rewrite Ascii.eqb_refl; exact IH. Qed.

Lemma strip_prefix_some p s r : strip_prefix p s = Some r -> s = p ++ r.
Proof.
  revert s; induction p as [|c p IH]; intros s; cbn.
  - intros H; inversion H; reflexivity.
  - destruct s as [|d s]; [discriminate|].
    destruct (Ascii.eqb c d) eqn:E; [|discriminate].
    apply Ascii.eqb_eq in E; subst d. intros H; rewrite (IH _ H); reflexivity.
Qed.
