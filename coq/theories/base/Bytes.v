(* Shared conventions: text is a list of bytes (Coq [ascii]).  Model files
   contain executable definitions only; proofs live in *_Lemmas.v files. *)
From Coq Require Export List Ascii String Bool Arith NArith ZArith Lia.
Export ListNotations.

Definition bytes := list ascii.

(* [b "abc"] : bytes literal *)
Definition b (s : string) : bytes := list_ascii_of_string s.

Definition byte_eqb (x y : ascii) : bool := Ascii.eqb x y.

Fixpoint bytes_eqb (x y : bytes) : bool :=
  match x, y with
  | [], [] => true
  | c :: x', d :: y' => Ascii.eqb c d && bytes_eqb x' y'
  | _, _ => false
  end.

Definition code (c : ascii) : N := N_of_ascii c.

(* is [p] a prefix of [s]?  returns the remainder *)
Fixpoint strip_prefix (p s : bytes) : option bytes :=
  match p, s with
  | [], _ => Some s
  | c :: p', d :: s' => if Ascii.eqb c d then strip_prefix p' s' else None
  | _ :: _, [] => None
  end.

Definition nl : ascii := Ascii.ascii_of_nat 10.
Definition cr : ascii := Ascii.ascii_of_nat 13.
Definition tab : ascii := Ascii.ascii_of_nat 9.
Definition sp : ascii := " "%char.
