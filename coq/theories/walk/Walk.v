(* M-WALK: a generic walker over rose trees driven by a per-variant child table (generated from
   src/ast/walk.rs and src/ast/mod.rs into gen/WalkTable.v).  Executable definitions only. *)
From Ucg Require Export base.Bytes.

(* an AST node seen as: variant name + children grouped by the field that holds them *)
Inductive rose := RNode (variant : string) (kids : list (string * list rose)).

Definition table := list (string * list string * list string).

Definition mem (s : string) (l : list string) : bool := existsb (String.eqb s) l.

Fixpoint lookup_row (tbl : table) (v : string) : option (list string * list string) :=
  match tbl with
  | [] => None
  | (n, ks, ws) :: tbl' => if String.eqb n v then Some (ks, ws) else lookup_row tbl' v
  end.

(* every field that can hold sub-expressions is descended into *)
Definition covers (tbl : table) : bool :=
  forallb (fun '(_, ks, ws) => forallb (fun k => mem k ws) ks) tbl.

(* all nodes of a tree, pre-order *)
Fixpoint nodes (t : rose) : list rose :=
  match t with
  | RNode v kids => t :: flat_map (fun '(_, cs) => flat_map nodes cs) kids
  end.

(* the nodes the walker visits: it descends only into the fields its table lists *)
Fixpoint visit (tbl : table) (t : rose) : list rose :=
  match t with
  | RNode v kids =>
    let ws := match lookup_row tbl v with Some (_, ws) => ws | None => [] end in
    t :: flat_map (fun '(f, cs) => if mem f ws then flat_map (visit tbl) cs else []) kids
  end.

(* a tree is an AST w.r.t. the inventory: each node's variant is known and its children sit in
   fields the inventory lists as expression-holding *)
Fixpoint wf_rose (tbl : table) (t : rose) : bool :=
  match t with
  | RNode v kids =>
    match lookup_row tbl v with
    | None => false
    | Some (ks, _) => forallb (fun '(f, cs) => mem f ks && forallb (wf_rose tbl) cs) kids
    end
  end.
