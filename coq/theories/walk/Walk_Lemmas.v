From Ucg Require Import walk.Walk.

Lemma mem_In s l : mem s l = true <-> In s l.
Proof.
  unfold mem. rewrite existsb_exists. split.
  - intros (x & Hin & E). apply String.eqb_eq in E. now subst.
  - intros H. exists s. split; [exact H|apply String.eqb_refl].
Qed.

Lemma covers_row tbl v ks ws :
  covers tbl = true -> lookup_row tbl v = Some (ks, ws) -> forall k, mem k ks = true -> mem k ws = true.
Proof.
  induction tbl as [|[[n ks'] ws'] tbl IH]; cbn; [discriminate|].
  intros Hc Hl k Hk. apply andb_true_iff in Hc as [H1 H2].
  destruct (String.eqb n v).
  - inversion Hl; subst. rewrite forallb_forall in H1. apply H1. now apply mem_In.
  - eauto.
Qed.

(* a stronger induction principle for rose trees *)
Fixpoint rose_size (t : rose) : nat :=
  match t with RNode _ kids => S (list_sum (map (fun '(_, cs) => list_sum (map rose_size cs)) kids)) end.

Lemma in_list_sum (l : list nat) x : In x l -> x <= list_sum l.
Proof.
  induction l as [|y l IH]; [intros []|]. change (list_sum (y :: l)) with (y + list_sum l).
  intros [->|H]; [lia|]. specialize (IH H). lia.
Qed.

Lemma child_smaller v kids f cs c : In (f, cs) kids -> In c cs -> rose_size c < rose_size (RNode v kids).
Proof.
  intros Hin Hc. cbn [rose_size].
  assert (H1 : rose_size c <= list_sum (map rose_size cs)) by (apply in_list_sum, in_map, Hc).
  assert (H2 : list_sum (map rose_size cs) <= list_sum (map (fun '(_, cs) => list_sum (map rose_size cs)) kids)).
  { apply in_list_sum. apply (in_map (fun '(_, cs) => list_sum (map rose_size cs))) in Hin. exact Hin. }
  lia.
Qed.

Lemma rose_ind' (P : rose -> Prop) :
  (forall v kids, (forall f cs c, In (f, cs) kids -> In c cs -> P c) -> P (RNode v kids)) ->
  forall t, P t.
Proof.
  intros H t. remember (rose_size t) as n eqn:Hn. revert t Hn.
  induction n as [n IH] using lt_wf_ind. intros [v kids] Hn. apply H.
  intros f cs c Hin Hc. eapply (IH (rose_size c)); [|reflexivity].
  subst n. eapply child_smaller; eauto.
Qed.

Theorem walk_visits_all_lemma tbl :
  covers tbl = true -> forall t, wf_rose tbl t = true -> visit tbl t = nodes t.
Proof.
  intros Hc. induction t as [v kids IH] using rose_ind'. cbn [wf_rose visit nodes].
  destruct (lookup_row tbl v) as [[ks ws]|] eqn:El; [|discriminate].
  intros Hwf. f_equal. rewrite forallb_forall in Hwf.
  induction kids as [|[f cs] kids IHk]; [reflexivity|]. cbn [flat_map].
  assert (Hk := Hwf (f, cs) (or_introl eq_refl)). cbn in Hk. apply andb_true_iff in Hk as [Hm Hcs].
  rewrite (covers_row _ _ _ _ Hc El f Hm).
  f_equal.
  - rewrite forallb_forall in Hcs. clear IHk.
    assert (IHc : forall c, In c cs -> visit tbl c = nodes c).
    { intros c Hin. eapply IH; [left; reflexivity|exact Hin|apply Hcs, Hin]. }
    clear Hcs IH Hwf. induction cs as [|c cs IHl]; [reflexivity|]. cbn [flat_map].
    rewrite (IHc c (or_introl eq_refl)). f_equal. apply IHl. intros; apply IHc; now right.
  - apply IHk.
    + intros f' cs' c Hin Hc'. eapply IH; [right; exact Hin|exact Hc'].
    + intros x Hx. apply Hwf. now right.
Qed.
