(* PROOFS about the printer model (Print.v), connected to the PROVED tokenizer
   model (lex/Lex.v, lex/Lex_Lemmas.v).  No axioms. *)
From Ucg Require Import base.Bytes base.Bytes_Lemmas prec.Climb sem.Ast
  lex.Lex_Types lex.Vocab lex.Lex lex.Lex_Lemmas lex.Lex_Shift lex.Lex_Comments lex.Lex_KwFlag print.Print.
From UcgGen Require Import LexVocab.
From Coq Require Import Sorting.Sorted.
Local Open Scope string_scope.
Local Open Scope list_scope.

(* ================================================================== *)
(** * 2a. string literals                                              *)
(* ================================================================== *)

Lemma esc_byte_min c : esc_byte c = encode_byte_min c.
Proof.
  unfold esc_byte, encode_byte_min.
  destruct (Ascii.eqb c dq) eqn:E1, (Ascii.eqb c bsl) eqn:E2; try reflexivity.
  apply Ascii.eqb_eq in E1, E2. subst. discriminate.
Qed.

Lemma escape_quotes_min s : escape_quotes s = encode_str_min s.
Proof.
  unfold escape_quotes, encode_str_min. induction s as [|c s IH]; [reflexivity|].
  cbn [flat_map]. now rewrite esc_byte_min, IH.
Qed.

Lemma escape_quotes_closed s :
  closed_body (escape_quotes s) = true /\ decode_doc (escape_quotes s) = s.
Proof. rewrite escape_quotes_min. apply encode_str_min_ok. Qed.

(* The text the printer writes for a string value (Value::Str, quoted field
   names, import / include paths, format templates) is ONE QUOTED token whose
   value is the original byte string -- for every byte string. *)
Theorem string_literal_roundtrip : forall s,
  lex (dq :: escape_quotes s ++ [dq]) =
  Some [ {| typ := QUOTED; frag := s; line := 1; col := 1; off := 0 |}
       ; mk_tok END [] (advance ps0 (dq :: escape_quotes s ++ [dq])) ].
Proof.
  intros s. destruct (escape_quotes_closed s) as [Hc Hd].
  rewrite (decode_spec _ Hc), Hd. reflexivity.
Qed.

(* the same inside any source text, at any position: one tokenizer step *)
Theorem string_literal_step : forall ps s rest,
  first_tok ps (quoted s ++ rest) =
  Some (mk_tok QUOTED s ps, rest, advance ps (quoted s)).
Proof.
  intros ps s rest. destruct (escape_quotes_closed s) as [Hc Hd].
  unfold quoted. cbn [app]. rewrite <- app_assoc. cbn [app].
  rewrite (decode_spec_step ps _ rest Hc), Hd. reflexivity.
Qed.

(* position-free, with an arbitrary continuation (a literal needs no separator) *)
Lemma strip_lex_quoted s x :
  strip_lex (quoted s ++ x) = option_map (cons (QUOTED, s)) (strip_lex x).
Proof.
  destruct (escape_quotes_closed s) as [Hc Hd].
  assert (Hne : quoted s ++ x <> []) by discriminate.
  assert (H : first_raw (quoted s ++ x) = RComplete QUOTED s (quoted s) x).
  { unfold quoted. cbn [app]. rewrite <- app_assoc. cbn [app].
    rewrite first_raw_str, (escq_closed _ x Hc), Hd. reflexivity. }
  rewrite (strip_lex_step _ _ _ _ _ Hne H). reflexivity.
Qed.

(* ================================================================== *)
(** * 2b. field names                                                  *)
(* ================================================================== *)

(* the only plain text tokens of the table that start with a letter are the
   three literals is_bareword knows about (re-checked against the generated
   table on every build) *)
Definition alpha_text_known (r : recogniser) : bool :=
  match r with
  | RText _ lit =>
      (negb (head_is is_alpha (b lit)) ||
       existsb (String.eqb lit) ["NULL"; "true"; "false"])%bool
  | _ => true
  end.

Lemma alpha_texts_known : forallb alpha_text_known recognisers = true.
Proof. vm_compute. reflexivity. Qed.

Lemma starts_with_is_prefix p s : starts_with p s = is_prefix p s.
Proof. reflexivity. Qed.

Lemma reserved_prefix_false w :
  starts_with (b "true") w = false -> starts_with (b "false") w = false ->
  starts_with (b "NULL") w = false -> reserved_prefix w = false.
Proof.
  intros Ht Hf Hn. destruct (reserved_prefix w) eqn:E; [exfalso|reflexivity].
  unfold reserved_prefix in E. apply existsb_exists in E as (r & Hin & Hr).
  pose proof alpha_texts_known as K. rewrite forallb_forall in K. specialize (K r Hin).
  destruct r as [ | ty lit | | | | | | ]; try discriminate.
  apply andb_true_iff in Hr as [Ha Hp]. cbn [alpha_text_known] in K. rewrite Ha in K.
  cbn [negb orb existsb] in K.
  repeat (apply orb_true_iff in K as [K|K]); try discriminate;
    apply String.eqb_eq in K; subst lit; rewrite <- starts_with_is_prefix in Hp; congruence.
Qed.

Lemma alpha_or_us_symbol c :
  (is_alpha c || Ascii.eqb c underscore)%bool = true -> is_symbol_char c = true.
Proof.
  intros H. unfold is_symbol_char. apply orb_true_iff in H as [H|H].
  - now rewrite H.
  - unfold underscore in H. rewrite H. now rewrite !orb_true_r.
Qed.

Lemma is_bareword_word k : is_bareword k = true -> is_word k = true.
Proof.
  unfold is_bareword, is_word. destruct k as [|c k]; [discriminate|].
  destruct (is_alpha c) eqn:Ec; cbn [negb]; [|discriminate].
  match goal with |- (if ?t then _ else _) = _ -> _ => destruct t end; [discriminate|].
  cbn [forallb]. intros H. apply andb_true_iff in H as [_ H]. cbn [andb].
  rewrite forallb_forall in *. intros x Hx. apply alpha_or_us_symbol. now apply H.
Qed.

Lemma is_bareword_cases k : is_bareword k = true ->
  k = b "true" \/ k = b "false" \/ reserved_prefix k = false.
Proof.
  unfold is_bareword. destruct k as [|c k]; [discriminate|].
  destruct (negb (is_alpha c)); [discriminate|].
  destruct (bytes_eqb (c :: k) (b "true")) eqn:E1.
  { apply bytes_eqb_spec in E1. auto. }
  destruct (bytes_eqb (c :: k) (b "false")) eqn:E2.
  { apply bytes_eqb_spec in E2. auto. }
  cbn [negb andb].
  destruct (starts_with (b "true") (c :: k)) eqn:S1; [discriminate|].
  destruct (starts_with (b "false") (c :: k)) eqn:S2; [discriminate|].
  destruct (starts_with (b "NULL") (c :: k)) eqn:S3; [discriminate|].
  intros _. right; right. now apply reserved_prefix_false.
Qed.

(* an unquoted field name is a well-formed name token whose source text is
   the name itself *)
Lemma name_tok_wf k : is_bareword k = true ->
  wf_tk (name_tok k) = true /\ src_of (name_tok k) = k /\ snd (name_tok k) = k /\
  (fst (name_tok k) = BAREWORD \/ (fst (name_tok k) = BOOLEAN /\ (k = b "true" \/ k = b "false"))).
Proof.
  intros H. unfold name_tok. rewrite H.
  destruct (bytes_eqb k (b "true")) eqn:E1.
  { apply bytes_eqb_spec in E1. subst. cbn. repeat split; auto. }
  destruct (bytes_eqb k (b "false")) eqn:E2.
  { apply bytes_eqb_spec in E2. subst. cbn. repeat split; auto. }
  cbn [orb]. repeat split; auto.
  unfold wf_tk. cbn [fst snd]. rewrite (is_bareword_word k H).
  destruct (is_bareword_cases k H) as [-> | [-> | ->]]; try reflexivity; discriminate.
Qed.

(* bareword_field_ok: the text [k] on its own is exactly one token with text k,
   of type BAREWORD (BOOLEAN for true / false), followed by END *)
Theorem bareword_field_ok : forall k, is_bareword k = true ->
  strip_lex k = Some [name_tok k; tk_end] /\ snd (name_tok k) = k /\
  (fst (name_tok k) = BAREWORD \/ fst (name_tok k) = BOOLEAN).
Proof.
  intros k H. destruct (name_tok_wf k H) as (Hwf & Hsrc & Hsnd & Hty).
  split; [|split; [exact Hsnd|tauto]].
  pose proof (strip_lex_token (name_tok k) [] Hwf eq_refl) as L.
  rewrite app_nil_r, Hsrc in L. exact L.
Qed.

Corollary bareword_field_lex : forall k, is_bareword k = true ->
  exists t e, lex k = Some [t; e] /\ frag t = k /\ (typ t = BAREWORD \/ typ t = BOOLEAN) /\ typ e = END.
Proof.
  intros k H. destruct (bareword_field_ok k H) as (L & Hs & Ht).
  unfold strip_lex in L. destruct (lex k) as [l|]; [|discriminate]. cbn in L.
  destruct l as [|t [|e [|? ?]]]; try discriminate. inversion L as [[H1 H2]].
  exists t, e. split; [reflexivity|]. unfold strip in H1, H2.
  rewrite <- H1 in Hs, Ht. cbn in Hs, Ht. unfold tk_end in H2. inversion H2. auto.
Qed.

(* in context: whatever the printer writes for a field name, followed by the
   blank of " = ", re-tokenizes as ONE name token carrying the field name *)
Theorem field_name_roundtrip : forall k x,
  strip_lex (field_name k ++ sp :: x) = option_map (cons (name_tok k)) (strip_lex (sp :: x)).
Proof.
  intros k x. unfold field_name. destruct (is_bareword k) eqn:H.
  - destruct (name_tok_wf k H) as (Hwf & Hsrc & _).
    rewrite <- Hsrc at 1. apply strip_lex_token; [exact Hwf|].
    cbn [follow_ok]. rewrite (blank_follows_any _ sp Hwf); [reflexivity|]. cbn; auto.
  - unfold name_tok. rewrite H. apply strip_lex_quoted.
Qed.

(* Converse direction.  A quoted name always round-trips (2a), so quoting is
   never wrong; but is_bareword is CONSERVATIVE: it quotes names that would be
   fine as barewords (digits, dashes).  The exact statement
     forall k, wf_tk (BAREWORD, k) = true -> is_bareword k = true
   is false: *)
Lemma is_bareword_complete_refuted :
  exists k, wf_tk (BAREWORD, k) = true /\ strip_lex k = Some [(BAREWORD, k); tk_end] /\ is_bareword k = false.
Proof. exists (b "k1-x"). vm_compute. auto. Qed.

(* what does hold: is_bareword characterises the letter/underscore words that
   are not cut by a reserved literal *)
Lemma is_bareword_converse k :
  wf_tk (BAREWORD, k) = true ->
  forallb (fun c => (is_alpha c || Ascii.eqb c underscore)%bool) k = true ->
  is_bareword k = true.
Proof.
  unfold wf_tk. cbn [fst snd]. intros H Hall. apply andb_true_iff in H as [Hw Hr].
  apply negb_true_iff in Hr. unfold is_bareword. destruct k as [|c k]; [discriminate|].
  cbn in Hw. apply andb_true_iff in Hw as [Hc _]. rewrite Hc. cbn [negb].
  assert (P : forall lit, In lit ["NULL"; "true"; "false"] -> starts_with (b lit) (c :: k) = false).
  { intros lit Hl. destruct (starts_with (b lit) (c :: k)) eqn:E; [exfalso|reflexivity].
    assert (reserved_prefix (c :: k) = true); [|congruence].
    unfold reserved_prefix. apply existsb_exists.
    cbn in Hl. destruct Hl as [<-|[<-|[<-|[]]]].
    - exists (RText EMPTY "NULL"). split; [vm_compute; tauto|]. now rewrite <- starts_with_is_prefix, E.
    - exists (RText BOOLEAN "true"). split; [vm_compute; tauto|]. now rewrite <- starts_with_is_prefix, E.
    - exists (RText BOOLEAN "false"). split; [vm_compute; tauto|]. now rewrite <- starts_with_is_prefix, E. }
  rewrite (P "true"), (P "false"), (P "NULL") by (cbn; auto).
  rewrite !andb_false_r. exact Hall.
Qed.

(* ================================================================== *)
(** * 2c. numbers                                                      *)
(* ================================================================== *)

Lemma digit_char_is_digit d : (d < 10)%N -> is_digit (digit_char d) = true.
Proof.
  intros H. destruct d as [|p]; [reflexivity|].
  destruct p as [[[[p|p|]|[p|p|]|]|[[p|p|]|[p|p|]|]|]|[[[p|p|]|[p|p|]|]|[[p|p|]|[p|p|]|]|]|];
    try reflexivity; exfalso; lia.
Qed.

Lemma dec_fuel_digits fuel : forall n acc,
  forallb is_digit acc = true -> forallb is_digit (dec_fuel fuel n acc) = true.
Proof.
  induction fuel as [|f IH]; intros n acc Ha; [exact Ha|]. cbn [dec_fuel].
  assert (Hd : forallb is_digit (digit_char (n mod 10) :: acc) = true).
  { cbn [forallb]. rewrite Ha, digit_char_is_digit; [reflexivity|]. apply N.mod_lt. discriminate. }
  destruct (N.eqb (n / 10) 0); [exact Hd|]. apply IH, Hd.
Qed.

Lemma dec_fuel_nonempty fuel : forall n acc, acc <> [] -> dec_fuel fuel n acc <> [].
Proof.
  induction fuel as [|f IH]; intros n acc Ha; [exact Ha|]. cbn [dec_fuel].
  destruct (N.eqb (n / 10) 0); [discriminate|]. apply IH. discriminate.
Qed.

Lemma dec_of_N_digits n : dec_of_N n <> [] /\ forallb is_digit (dec_of_N n) = true.
Proof.
  unfold dec_of_N. split.
  - cbn [dec_fuel]. destruct (N.eqb (n / 10) 0); [discriminate|]. apply dec_fuel_nonempty. discriminate.
  - now apply dec_fuel_digits.
Qed.

Lemma dec_of_Z_digits z : (0 <= z)%Z -> dec_of_Z z <> [] /\ forallb is_digit (dec_of_Z z) = true.
Proof.
  intros H. destruct z as [|p|p]; [split; [discriminate|reflexivity]|apply dec_of_N_digits|lia].
Qed.

Lemma digits_wf d : d <> [] -> forallb is_digit d = true -> wf_tk (DIGIT, d) = true.
Proof.
  intros Hne Hd. unfold wf_tk. cbn [fst snd]. rewrite Hd, andb_true_r.
  destruct d; [congruence|reflexivity].
Qed.

(* int_literal_ok: the text of a non-negative integer is one DIGIT token *)
Theorem int_literal_ok : forall z, (0 <= z)%Z ->
  strip_lex (dec_of_Z z) = Some [(DIGIT, dec_of_Z z); tk_end].
Proof.
  intros z Hz. destruct (dec_of_Z_digits z Hz) as [Hne Hd].
  pose proof (strip_lex_token (DIGIT, dec_of_Z z) [] (digits_wf _ Hne Hd) eq_refl) as L.
  cbn [src_of fst snd] in L. rewrite app_nil_r in L. exact L.
Qed.

(* a negative integer (not producible by the parser) would print as `-` DIGIT *)
Lemma int_literal_negative : forall p,
  strip_lex (dec_of_Z (Zneg p)) = Some [(PUNCT, b "-"); (DIGIT, dec_of_N (Npos p)); tk_end].
Proof.
  intros p. destruct (dec_of_N_digits (Npos p)) as [Hne Hd]. cbn [dec_of_Z].
  change ("-"%char :: dec_of_N (N.pos p)) with (src_of (PUNCT, b "-") ++ dec_of_N (N.pos p)).
  rewrite strip_lex_token.
  - pose proof (strip_lex_token (DIGIT, dec_of_N (Npos p)) [] (digits_wf _ Hne Hd) eq_refl) as L.
    cbn [src_of fst snd] in L. rewrite app_nil_r in L. rewrite L. reflexivity.
  - reflexivity.
  - destruct (dec_of_N (N.pos p)) as [|c r]; [congruence|]. cbn [forallb] in Hd.
    apply andb_true_iff in Hd as [Hc _]. cbn [follow_ok].
    revert Hc. generalize c. clear.
    intros c Hc.
    pose proof (forall_bytes (fun c => implb (is_digit c) (negb (needs_sep_byte (PUNCT, b "-") c))) eq_refl c) as H.
    cbn beta in H. rewrite Hc in H. exact H.
Qed.

Lemma dot_after_digits d c :
  is_digit c = true -> needs_sep_byte (PUNCT, b ".") c = false /\ needs_sep_byte (DIGIT, d) dot = false.
Proof.
  intros Hc. split; [|reflexivity].
  pose proof (forall_bytes (fun c => implb (is_digit c) (negb (needs_sep_byte (PUNCT, b ".") c))) eq_refl c) as H.
  cbn beta in H. rewrite Hc in H. now apply negb_true_iff in H.
Qed.

(* digits '.' digits  lexes as  DIGIT '.' DIGIT  (what the parser's `number`
   rule reads back as a float), whatever follows, provided it is not a digit *)
Theorem digits_dot_digits_ok : forall d1 d2 x,
  d1 <> [] -> forallb is_digit d1 = true -> d2 <> [] -> forallb is_digit d2 = true ->
  follow_ok (DIGIT, d2) x = true ->
  strip_lex (d1 ++ dot :: d2 ++ x) =
  option_map (fun r => (DIGIT, d1) :: (PUNCT, b ".") :: (DIGIT, d2) :: r) (strip_lex x).
Proof.
  intros d1 d2 x N1 D1 N2 D2 Hx.
  change (d1 ++ dot :: d2 ++ x) with (src_of (DIGIT, d1) ++ src_of (PUNCT, b ".") ++ src_of (DIGIT, d2) ++ x).
  rewrite strip_lex_token; [|now apply digits_wf|reflexivity].
  rewrite strip_lex_token; [|reflexivity|].
  2:{ cbn [src_of fst snd]. destruct d2 as [|c r]; [congruence|]. cbn [app follow_ok].
      cbn [forallb] in D2. apply andb_true_iff in D2 as [Hc _].
      now rewrite (proj1 (dot_after_digits [] c Hc)). }
  rewrite strip_lex_token; [|now apply digits_wf|exact Hx].
  destruct (strip_lex x); reflexivity.
Qed.

(* float_literal_ok, stated on the printed text of a float:
   (i) Display gives digits '.' digits -> printed as is;
   (ii) Display gives digits only       -> ".0" is appended. *)
Theorem float_literal_ok : forall bits d1 d2,
  d1 <> [] -> forallb is_digit d1 = true -> d2 <> [] -> forallb is_digit d2 = true ->
  f64_display bits = d1 ++ dot :: d2 ->
  float_text bits = d1 ++ dot :: d2 /\
  strip_lex (float_text bits) = Some [(DIGIT, d1); (PUNCT, b "."); (DIGIT, d2); tk_end].
Proof.
  intros bits d1 d2 N1 D1 N2 D2 E.
  assert (F : float_text bits = d1 ++ dot :: d2).
  { unfold float_text. rewrite E.
    replace (existsb (Ascii.eqb dot) (d1 ++ dot :: d2)) with true; [reflexivity|].
    symmetry. apply existsb_exists. exists dot. split; [apply in_or_app; right; left; reflexivity|].
    apply Ascii.eqb_refl. }
  split; [exact F|]. rewrite F.
  pose proof (digits_dot_digits_ok d1 d2 [] N1 D1 N2 D2 eq_refl) as L.
  rewrite app_nil_r in L. exact L.
Qed.

Lemma digits_no_dot d : forallb is_digit d = true -> existsb (Ascii.eqb dot) d = false.
Proof.
  induction d as [|c d IH]; [reflexivity|]. cbn [forallb existsb]. intros H. apply andb_true_iff in H as [Hc Hd].
  rewrite (IH Hd), orb_false_r.
  destruct (Ascii.eqb dot c) eqn:E; [|reflexivity]. apply Ascii.eqb_eq in E. subst c. discriminate.
Qed.

Theorem float_literal_whole_ok : forall bits d,
  d <> [] -> forallb is_digit d = true -> f64_display bits = d ->
  float_text bits = d ++ b ".0" /\
  strip_lex (float_text bits) = Some [(DIGIT, d); (PUNCT, b "."); (DIGIT, b "0"); tk_end].
Proof.
  intros bits d N D E.
  assert (F : float_text bits = d ++ b ".0").
  { unfold float_text. rewrite E, (digits_no_dot d D). reflexivity. }
  split; [exact F|]. rewrite F.
  pose proof (digits_dot_digits_ok d (b "0") [] N D ltac:(discriminate) eq_refl eq_refl) as L.
  cbn [app] in L. exact L.
Qed.

(* ---- every float the parser can produce ----
   Since commit e0bc790 triple_to_number rejects a literal whose value is not finite
   ("Float literal out of range!"), and digits '.' digits is never negative: the parser only
   produces bit patterns with [parser_float bits = true].  (That is a fact about the Rust code
   -- f64::from_str is not modelled -- and is re-checked by the differential tests; before the
   fix `1` followed by 400 zeros `.0` gave +infinity, printed `inf.0` = the selector inf . 0,
   which was float_literal_inf_refuted.)  For every such float the printed text is
   digits '.' digits and lexes as DIGIT '.' DIGIT. *)
Lemma zdigit_is_digit d : is_digit (zdigit d) = true.
Proof.
  unfold zdigit. apply digit_char_is_digit.
  pose proof (Z.mod_pos_bound d 10 ltac:(lia)). lia.
Qed.

Lemma zdigits_digits ds : forallb is_digit (map zdigit ds) = true.
Proof. induction ds; cbn; [reflexivity|]. now rewrite zdigit_is_digit. Qed.

Lemma zeros_digits n : forallb is_digit (zeros n) = true.
Proof. unfold zeros. induction (Z.to_nat n); cbn; auto. Qed.

Lemma forallb_firstn_skipn {A} (p : A -> bool) n l :
  forallb p l = true -> forallb p (firstn n l) = true /\ forallb p (skipn n l) = true.
Proof.
  intros H. rewrite <- (firstn_skipn n l), forallb_app in H. now apply andb_true_iff in H.
Qed.

Definition digit_string (d : bytes) : Prop := d <> [] /\ forallb is_digit d = true.

Lemma dec_str_shape ds k : ds <> [] ->
  digit_string (dec_str ds k) \/
  (exists d1 d2, digit_string d1 /\ digit_string d2 /\ dec_str ds k = d1 ++ dot :: d2).
Proof.
  intros Hne. unfold dec_str.
  assert (Ht : map zdigit ds <> []) by (destruct ds; [congruence|discriminate]).
  pose proof (zdigits_digits ds) as Hd.
  destruct (k <=? 0)%Z eqn:E1.
  - right. exists (b "0"), (zeros (- k) ++ map zdigit ds). repeat split.
    + discriminate.
    + destruct (zeros (- k)); [exact Ht|discriminate].
    + now rewrite forallb_app, zeros_digits, Hd.
  - destruct (k <? Z.of_nat (List.length ds))%Z eqn:E2.
    + right. apply Z.leb_gt in E1. apply Z.ltb_lt in E2.
      exists (firstn (Z.to_nat k) (map zdigit ds)), (skipn (Z.to_nat k) (map zdigit ds)).
      destruct (forallb_firstn_skipn is_digit (Z.to_nat k) _ Hd) as [F1 F2].
      repeat split; auto.
      * intros X. apply (f_equal (@List.length _)) in X. rewrite firstn_length, map_length in X.
        cbn in X. lia.
      * intros X. apply (f_equal (@List.length _)) in X. rewrite skipn_length, map_length in X.
        cbn in X. lia.
    + left. split.
      * destruct (map zdigit ds); [congruence|discriminate].
      * now rewrite forallb_app, Hd, zeros_digits.
Qed.

Lemma gen_digits_nonempty fuel : forall incl M Mi P Sc acc,
  (fuel <> 0 \/ acc <> []) -> fst (gen_digits fuel incl M Mi P Sc acc) <> [].
Proof.
  induction fuel as [|f IH]; intros incl M Mi P Sc acc H.
  - cbn. destruct H as [H|H]; [congruence|]. intros X. apply (f_equal (@rev _)) in X.
    rewrite rev_involutive in X. cbn in X. congruence.
  - cbn [gen_digits].
    match goal with |- context [if ?c then _ else _] => destruct c end.
    + cbn [fst]. intros X. apply (f_equal (@List.length _)) in X. rewrite rev_length in X. discriminate.
    + apply IH. right. discriminate.
Qed.

Lemma incr_rev_length ds : List.length (fst (incr_rev ds)) = List.length ds.
Proof.
  induction ds as [|d r IH]; [reflexivity|]. cbn [incr_rev].
  destruct (d =? 9)%Z; [|reflexivity]. destruct (incr_rev r). cbn in *. now rewrite IH.
Qed.

Lemma round_up_nonempty ds : ds <> [] -> fst (round_up ds) <> [].
Proof.
  intros H. unfold round_up. pose proof (incr_rev_length (rev ds)) as L.
  destruct (incr_rev (rev ds)) as [r c]. cbn [fst] in *. intros X.
  apply (f_equal (@List.length _)) in X. rewrite rev_length, L, rev_length in X.
  destruct ds; [congruence|discriminate].
Qed.

Lemma shortest_nonempty ebits frac : fst (shortest ebits frac) <> [].
Proof.
  unfold shortest.
  destruct (f64_decode ebits frac) as [[[[mant minus] plus] e] incl].
  destruct (if (e <? 0)%Z then _ else _) as [[[mant' minus'] plus'] scale].
  set (k := find_k 12 incl (mant' + plus')%Z scale (k_estimate (mant' + plus')%Z scale)).
  destruct (if (0 <=? k)%Z then _ else _) as [[[M Mi] P] Sc].
  assert (F : 20 <> 0) by discriminate.
  pose proof (gen_digits_nonempty 20 incl M Mi P Sc [] (or_introl F)) as G.
  remember (gen_digits 20 incl M Mi P Sc []) as gd eqn:Egd. clear Egd.
  destruct gd as [ds up]. cbn [fst] in G.
  destruct up; [|exact G].
  pose proof (round_up_nonempty ds G) as R. destruct (round_up ds) as [ds' carry]. cbn [fst] in R.
  destruct carry; [discriminate|exact R].
Qed.

Lemma finite_display_shape bits : parser_float bits = true ->
  digit_string (f64_display bits) \/
  (exists d1 d2, digit_string d1 /\ digit_string d2 /\ f64_display bits = d1 ++ dot :: d2).
Proof.
  unfold parser_float, f64_sign, f64_is_finite. intros H. apply andb_true_iff in H as [Hs Hf].
  apply negb_true_iff in Hs, Hf. unfold f64_display. rewrite Hs, Hf. cbn [app].
  destruct ((Z.land (Z.shiftr bits 52) 2047 =? 0)%Z && (Z.land bits (2 ^ 52 - 1) =? 0)%Z)%bool.
  - left. split; [discriminate|reflexivity].
  - pose proof (shortest_nonempty (Z.land (Z.shiftr bits 52) 2047) (Z.land bits (2 ^ 52 - 1))) as N.
    destruct (shortest _ _) as [ds k]. cbn [fst] in N. now apply dec_str_shape.
Qed.

(* finite_float_literal_ok (replaces float_literal_inf_refuted) *)
Theorem finite_float_literal_ok : forall bits, parser_float bits = true ->
  exists d1 d2, digit_string d1 /\ digit_string d2 /\
    float_text bits = d1 ++ dot :: d2 /\
    strip_lex (float_text bits) = Some [(DIGIT, d1); (PUNCT, b "."); (DIGIT, d2); tk_end].
Proof.
  intros bits H. destruct (finite_display_shape bits H) as [[N D]|(d1 & d2 & [N1 D1] & [N2 D2] & E)].
  - destruct (float_literal_whole_ok bits _ N D eq_refl) as [F L].
    exists (f64_display bits), (b "0"). repeat split; auto. discriminate.
  - destruct (float_literal_ok bits d1 d2 N1 D1 N2 D2 E) as [F L].
    exists d1, d2. repeat split; auto.
Qed.

(* the hypothesis is needed: +infinity (no longer producible by the parser) prints as `inf.0` *)
Definition f64_pos_inf : Z := 9218868437227405312%Z.   (* 0x7FF0000000000000 *)
Lemma float_infinity_not_a_literal :
  parser_float f64_pos_inf = false /\ float_text f64_pos_inf = b "inf.0" /\
  strip_lex (float_text f64_pos_inf) = Some [(BAREWORD, b "inf"); (PUNCT, b "."); (DIGIT, b "0"); tk_end].
Proof. vm_compute. auto. Qed.

(* ================================================================== *)
(** * 2d. keywords and operators                                       *)
(* ================================================================== *)

(* every fixed text the printer emits, with the recogniser that must own it *)
Definition printer_keywords : list string :=
  [ "let"; "assert"; "out"; "not"; "fail"; "TRACE"; "import"; "include"; "convert";
    "func"; "module"; "select"; "map"; "filter"; "reduce"; "in"; "is" ].
Definition printer_puncts : list string :=
  [ "&&"; "||"; "."; "=="; "!="; ">="; "<="; ">"; "<"; "+"; "-"; "*"; "/"; "%%"; "~"; "!~";
    "="; "=>"; "("; ")"; "{"; "}"; "["; "]"; ","; ";"; ":"; "%" ].

Definition rec_eqb (x y : recogniser) : bool :=
  match x, y with
  | RText t l, RText t' l' | RTextWS t l, RTextWS t' l' => (ttype_eqb t t' && String.eqb l l')%bool
  | _, _ => false
  end.
Definition in_table (r : recogniser) : bool := existsb (rec_eqb r) recognisers.

Theorem keywords_and_operators_ok :
  forallb (fun k => in_table (RTextWS BAREWORD k)) printer_keywords = true /\
  forallb (fun p => in_table (RText PUNCT p)) printer_puncts = true /\
  in_table (RText EMPTY "NULL") = true /\
  in_table (RText BOOLEAN "true") = true /\ in_table (RText BOOLEAN "false") = true /\
  (* the cast names are ordinary barewords *)
  forallb (fun c => wf_tk (BAREWORD, cast_text c)) [CInt; CFloat; CStr; CBool] = true /\
  (* every operator text of the Binary arm is its token, with at most one blank on each side *)
  forallb (fun o => (wf_tk (op_tok o) &&
                     (bytes_eqb (op_text o) (sp :: snd (op_tok o) ++ [sp]) || bytes_eqb (op_text o) (snd (op_tok o))))%bool)
          all_ops = true.
Proof. vm_compute. repeat split; reflexivity. Qed.

Lemma in_table_In r : in_table r = true -> In r recognisers.
Proof.
  unfold in_table. intros H. apply existsb_exists in H as (r' & Hin & He).
  destruct r, r'; cbn in He; try discriminate;
    apply andb_true_iff in He as [H1 H2]; apply ttype_eqb_eq in H1; apply String.eqb_eq in H2; subst; exact Hin.
Qed.

(* hence each printed keyword, followed by the blank the printer always writes
   after it, is the keyword token (the keyword recogniser eats the blank) *)
Corollary keyword_then_blank : forall k x, In k printer_keywords ->
  strip_lex (b k ++ sp :: x) = option_map (cons (BAREWORD, b k)) (strip_lex (sp :: x)).
Proof.
  intros k x Hk.
  assert (Hwf : wf_tk (BAREWORD, b k) = true).
  { cbn in Hk. repeat (destruct Hk as [<-|Hk]; [reflexivity|]). contradiction. }
  change (b k) with (src_of (BAREWORD, b k)) at 1.
  apply strip_lex_token; [exact Hwf|]. cbn [follow_ok].
  rewrite (blank_follows_any _ sp Hwf); [reflexivity|cbn; auto].
Qed.

(* ================================================================== *)
(** * 3. The comment scheduler                                         *)
(* ================================================================== *)

Lemma missed_split cur ln pend :
  forall out done rest, missed cur ln pend = (out, done, rest) -> pend = done ++ rest.
Proof.
  induction pend as [|[k g] pend IH]; intros out done rest H; cbn [missed] in H.
  - inversion H; reflexivity.
  - destruct (N.leb k ln).
    + destruct (missed cur ln pend) as [[o d] r] eqn:E. inversion H; subst.
      cbn [app]. f_equal. eapply IH; reflexivity.
    + inversion H; reflexivity.
Qed.

(* what is written: the groups taken, each followed by a blank line iff it ends
   more than one line above the requested line *)
Lemma missed_out cur ln pend :
  forall out done rest, missed cur ln pend = (out, done, rest) ->
  out = flat_map (fun kg => print_comment_group cur (snd kg) ++
                            (if N.ltb (fst kg) (ln - 1) then [nl] else [])) done
  /\ Forall (fun kg => (fst kg <= ln)%N) done
  /\ match rest with (k, _) :: _ => (ln < k)%N | [] => True end.
Proof.
  induction pend as [|[k g] pend IH]; intros out done rest H; cbn [missed] in H.
  - inversion H; subst. cbn. auto.
  - destruct (N.leb k ln) eqn:E.
    + destruct (missed cur ln pend) as [[o d] r] eqn:E'. inversion H; subst.
      destruct (IH _ _ _ eq_refl) as (Ho & Hd & Hr). cbn [flat_map fst snd]. rewrite <- Ho, <- app_assoc.
      split; [reflexivity|]. split; [|exact Hr]. constructor; [|exact Hd]. cbn. now apply N.leb_le.
    + inversion H; subst. cbn. repeat split; auto. now apply N.leb_gt.
Qed.

(* INVARIANT of every operation: groups are only moved from the front of the
   pending list to the end of the emitted log; nothing is dropped, duplicated or
   reordered -- for ANY line argument. *)
Definition conserved (m : comment_map) (st : sched) : Prop := emitted st ++ pending st = m.

Lemma step_conserved m st c : conserved m st -> conserved m (snd (step st c)).
Proof.
  unfold conserved. intros H.
  destruct c as [cur ln|cur ln|ln]; cbn [step];
    unfold render_comment_if_needed, render_missed_comments;
    try (destruct (missed cur ln (pending st)) as [[o d] r] eqn:E; cbn [snd pending emitted];
         rewrite (missed_split _ _ _ _ _ _ E) in H; rewrite <- app_assoc; exact H).
  exact H.
Qed.

Lemma run_calls_conserved m cs : forall st, conserved m st -> conserved m (snd (run_calls st cs)).
Proof.
  induction cs as [|c cs IH]; intros st H; [exact H|]. cbn [run_calls].
  pose proof (step_conserved m st c H) as H1. destruct (step st c) as [o st1]. cbn [snd] in H1.
  specialize (IH st1 H1). destruct (run_calls st1 cs) as [os st2]. exact IH.
Qed.

(* keys ascending (BTreeMap order); weakly is all the proof needs *)
Fixpoint ascending (m : comment_map) : Prop :=
  match m with
  | [] => True
  | (k, _) :: r => match r with [] => True | (k', _) :: _ => (k <= k')%N end /\ ascending r
  end.

Lemma ascending_app_r a c : ascending (a ++ c) -> ascending c.
Proof.
  induction a as [|[k g] a IH]; [auto|]. cbn [app ascending]. intros [_ H]. exact (IH H).
Qed.

Lemma ascending_le_last m : ascending m ->
  forall k0, last (map (fun kg => Some (fst kg)) m) None = Some k0 ->
  Forall (fun kg => (fst kg <= k0)%N) m.
Proof.
  induction m as [|[k g] m IH]; intros Ha k0 Hl; [constructor|].
  destruct m as [|[k' g'] m'].
  - cbn in Hl. inversion Hl; subst. constructor; [cbn; lia|constructor].
  - destruct Ha as [Hk Ha]. change (last (map (fun kg => Some (fst kg)) ((k', g') :: m')) None = Some k0) in Hl.
    specialize (IH Ha k0 Hl). constructor; [|exact IH].
    inversion IH; subst. cbn in *. lia.
Qed.

Lemma missed_all cur ln pend :
  Forall (fun kg => (fst kg <= ln)%N) pend ->
  exists out, missed cur ln pend = (out, pend, []).
Proof.
  induction pend as [|[k g] pend IH]; intros H; [eexists; reflexivity|].
  inversion H; subst. cbn [missed]. cbn in H2. apply N.leb_le in H2. rewrite H2.
  destruct (IH H3) as (o & ->). eexists; reflexivity.
Qed.

Lemma final_flush_empties st : ascending (pending st) ->
  pending (snd (final_flush st)) = [] /\
  emitted (snd (final_flush st)) = emitted st ++ pending st.
Proof.
  intros Ha. unfold final_flush.
  destruct (last (map (fun kg => Some (fst kg)) (pending st)) None) as [k0|] eqn:El.
  - pose proof (ascending_le_last _ Ha k0 El) as Hle.
    assert (Hle' : Forall (fun kg => (fst kg <= k0 + 1)%N) (pending st)).
    { eapply Forall_impl; [|exact Hle]. cbn. intros; lia. }
    unfold render_missed_comments. destruct (missed_all 0 (k0 + 1)%N _ Hle') as (o & ->). cbn. auto.
  - destruct (pending st) as [|kg p] eqn:Ep; [cbn; rewrite app_nil_r; auto|].
    exfalso. clear -El. revert kg El. induction p as [|a p IH]; intros kg El; [discriminate|].
    apply (IH a). exact El.
Qed.

(* schedule_emits_all_once.
   HYPOTHESIS on the call sequence: NONE.  Whatever lines the walk passes, in
   whatever order (also out of line order), and at whatever indentation, after
   the final flush of `render` the log of emitted groups IS the comment map:
   every group exactly once, in ascending order.  The only hypothesis is on the
   map (ascending keys: it is a BTreeMap), and it is needed only so that the
   final flush, which asks for everything up to (largest key + 1), reaches all
   that is left.  Without the final flush the groups above the largest line
   requested stay pending (see calls_alone_may_leave_pending). *)
Theorem schedule_emits_all_once : forall (m : comment_map) (cs : list call),
  ascending m ->
  let '(_, _, st) := run_render m cs in emitted st = m /\ pending st = [].
Proof.
  intros m cs Ha. unfold run_render.
  assert (C0 : conserved m (sched_init m)) by reflexivity.
  pose proof (run_calls_conserved m cs _ C0) as C.
  destruct (run_calls (sched_init m) cs) as [os st]. cbn [snd] in C.
  assert (Hp : ascending (pending st)).
  { unfold conserved in C. rewrite <- C in Ha. eapply ascending_app_r; eauto. }
  destruct (final_flush_empties st Hp) as [H1 H2].
  destruct (final_flush st) as [o st']. cbn [snd] in *. rewrite H2. auto.
Qed.

(* at every intermediate point: emitted is a prefix of the map, pending the rest *)
Theorem schedule_prefix : forall m cs,
  let st := snd (run_calls (sched_init m) cs) in emitted st ++ pending st = m.
Proof. intros m cs. apply (run_calls_conserved m cs (sched_init m)). reflexivity. Qed.

Lemma calls_alone_may_leave_pending :
  exists m cs, ascending m /\ pending (snd (run_calls (sched_init m) cs)) <> [].
Proof. exists [(5%N, [b " c"])], [CIfNeeded 0 1%N]. cbn. split; [auto|discriminate]. Qed.

(* out-of-order calls: a group is never skipped or repeated, but it is printed
   EARLY, in front of whatever the walk prints next *)
Lemma out_of_order_prints_early :
  let m := [(2%N, [b " a"]); (4%N, [b " b"])] in
  fst (run_calls (sched_init m) [CIfNeeded 0 5%N; CIfNeeded 0 1%N; CIfNeeded 0 3%N])
  = [ b "// a" ++ [nl; nl] ++ b "// b" ++ [nl]; []; [] ].
Proof. vm_compute. reflexivity. Qed.

(* has_comment is an observation *)
Lemma has_comment_spec st ln :
  has_comment st ln = true <-> exists k g r, pending st = (k, g) :: r /\ (k < ln)%N.
Proof.
  unfold has_comment. destruct (pending st) as [|[k g] r]; split.
  - discriminate.
  - intros (? & ? & ? & H & _). discriminate.
  - intros H. apply N.ltb_lt in H. eauto.
  - intros (k' & g' & r' & H & Hl). inversion H; subst. now apply N.ltb_lt.
Qed.

(* ---------- the text of one comment ---------- *)

(* what the tokenizer reads back as the fragment of a printed comment line:
   the bytes between "//" and the line end *)
Definition relex_body (frag : bytes) : bytes :=
  match trim_end frag with
  | [] => []
  | t => match frag with
         | c :: _ => if is_ascii_ws c then [] else [sp]
         | [] => [sp]
         end ++ t
  end.

Lemma comment_line_shape cur frag :
  comment_line cur frag = spaces cur ++ b "//" ++ relex_body frag ++ [nl].
Proof.
  unfold comment_line, relex_body. destruct (trim_end frag); [reflexivity|]. now rewrite <- !app_assoc.
Qed.

Lemma trim_end_nil_iff s : trim_end s = [] <-> forallb is_ascii_ws s = true.
Proof.
  induction s as [|c s IH]; [cbn; tauto|]. cbn [trim_end forallb].
  destruct (trim_end s) as [|d r] eqn:E.
  - destruct (is_ascii_ws c); cbn; [tauto|]. split; discriminate.
  - split; [discriminate|]. intros H. apply andb_true_iff in H as [_ H]. apply IH in H. discriminate.
Qed.

Lemma trim_end_cons c s :
  trim_end (c :: s) = match trim_end s with [] => if is_ascii_ws c then [] else [c] | r' => c :: r' end.
Proof. reflexivity. Qed.

Lemma trim_end_idem s : trim_end (trim_end s) = trim_end s.
Proof.
  induction s as [|c s IH]; [reflexivity|]. rewrite trim_end_cons.
  destruct (trim_end s) as [|d r] eqn:E.
  - destruct (is_ascii_ws c) eqn:Ec; [reflexivity|]. cbn. now rewrite Ec.
  - rewrite trim_end_cons, IH. reflexivity.
Qed.

Lemma trim_end_head c s d r : trim_end (c :: s) = d :: r -> d = c.
Proof.
  cbn [trim_end]. destruct (trim_end s).
  - destruct (is_ascii_ws c); [discriminate|]. intros H; inversion H; auto.
  - intros H; inversion H; auto.
Qed.

(* the three shapes of the normalised text *)
Lemma relex_body_cases frag :
  (trim_end frag = [] /\ relex_body frag = []) \/
  (exists c r, trim_end frag = c :: r /\ trim_end (c :: r) = c :: r /\
     ((is_ascii_ws c = true /\ relex_body frag = c :: r) \/
      (is_ascii_ws c = false /\ relex_body frag = sp :: c :: r))).
Proof.
  unfold relex_body. destruct (trim_end frag) as [|d r] eqn:E; [left; auto|right].
  destruct frag as [|c s]; [discriminate|]. pose proof (trim_end_head _ _ _ _ E); subst d.
  exists c, r. split; [reflexivity|]. split; [rewrite <- E; apply trim_end_idem|].
  destruct (is_ascii_ws c); [left|right]; auto.
Qed.

(* comment_text_fixed (replaces the former blank_comment_oscillates_refuted, which
   described the code before commit a7f1c11): for EVERY comment body -- empty,
   white space only, with or without a leading blank, with trailing blanks --
   the text the printer writes is read back as a body that is printed as the
   same text again: formatting a comment twice = formatting it once. *)
Theorem comment_text_fixed : forall frag, relex_body (relex_body frag) = relex_body frag.
Proof.
  intros frag. destruct (relex_body_cases frag) as [[_ ->]|(c & r & _ & T & [[Hc ->]|[Hc ->]])].
  - reflexivity.
  - unfold relex_body. rewrite T, Hc. reflexivity.
  - unfold relex_body. rewrite trim_end_cons, T. reflexivity.
Qed.

Corollary comment_line_fixed : forall cur frag,
  comment_line cur (relex_body frag) = comment_line cur frag.
Proof. intros. now rewrite !comment_line_shape, comment_text_fixed. Qed.

(* blank comments in particular: `//`, `// `, `//<tab> ` are all written `//` and stay `//` *)
Lemma blank_comment_line cur frag : trim_end frag = [] -> comment_line cur frag = spaces cur ++ b "//" ++ [nl].
Proof. intros H. unfold comment_line. now rewrite H. Qed.

(* a comment with visible text keeps it: only trailing white space is dropped and one blank is
   put in front if there was no white space there *)
Lemma relex_body_text frag : trim_end (relex_body frag) = relex_body frag.
Proof.
  destruct (relex_body_cases frag) as [[_ ->]|(c & r & _ & T & [[Hc ->]|[Hc ->]])];
    [reflexivity|exact T|]. rewrite trim_end_cons, T. reflexivity.
Qed.

(* ---------- a printed comment line is read back as that comment ---------- *)

Fixpoint last_sat (p : ascii -> bool) (s : bytes) : bool :=
  match s with
  | [] => false
  | c :: r => match r with [] => p c | _ => last_sat p r end
  end.

Definition is_cr (c : ascii) : bool := Ascii.eqb c cr.

Lemma trim_end_last p s :
  (forall c, p c = true -> is_ascii_ws c = true) -> last_sat p (trim_end s) = false.
Proof.
  intros Hp. induction s as [|c s IH]; [reflexivity|]. rewrite trim_end_cons.
  destruct (trim_end s) as [|d r].
  - destruct (is_ascii_ws c) eqn:Ec; [reflexivity|]. cbn.
    destruct (p c) eqn:E; [|reflexivity]. apply Hp in E. congruence.
  - exact IH.
Qed.

Lemma trim_end_no_nl s : no_nl s = true -> no_nl (trim_end s) = true.
Proof.
  induction s as [|c s IH]; [auto|]. unfold no_nl in *. cbn [forallb]. intros H.
  apply andb_true_iff in H as [Hc Hs]. rewrite trim_end_cons.
  destruct (trim_end s) as [|d r].
  - destruct (is_ascii_ws c); [reflexivity|]. cbn. now rewrite Hc.
  - cbn [forallb]. rewrite Hc. exact (IH Hs).
Qed.

Lemma until_eol_exact body : forall rest,
  no_nl body = true -> last_sat is_cr body = false ->
  until_eol (body ++ nl :: rest) = (body, nl :: rest).
Proof.
  induction body as [|c body IH]; intros rest Hn Hl.
  - cbn [app]. rewrite until_eol_cons, Ascii.eqb_refl. reflexivity.
  - unfold no_nl in Hn. cbn [forallb] in Hn. apply andb_true_iff in Hn as [Hc Hn]. unfold is_nl in Hc.
    apply negb_true_iff in Hc. cbn [app]. rewrite until_eol_cons, Hc. cbn [orb].
    assert (E : (Ascii.eqb c cr && starts_with_nl (body ++ nl :: rest))%bool = false).
    { destruct body as [|d body].
      - cbn in Hl. unfold is_cr in Hl. now rewrite Hl.
      - cbn [app starts_with_nl]. unfold no_nl in Hn. cbn [forallb] in Hn.
        apply andb_true_iff in Hn as [Hd _]. unfold is_nl in Hd. apply negb_true_iff in Hd.
        rewrite Hd. apply andb_false_r. }
    rewrite E. rewrite IH; [reflexivity|exact Hn|].
    destruct body; [reflexivity|exact Hl].
Qed.

Lemma relex_body_ok frag : no_nl frag = true ->
  no_nl (relex_body frag) = true /\ last_sat is_cr (relex_body frag) = false.
Proof.
  intros Hn. pose proof (trim_end_no_nl _ Hn) as Ht.
  assert (Hl : last_sat is_cr (trim_end frag) = false).
  { apply trim_end_last. intros c Hc. unfold is_cr in Hc. apply Ascii.eqb_eq in Hc. subst. reflexivity. }
  destruct (relex_body_cases frag) as [[_ ->]|(c & r & E & _ & [[Hc ->]|[Hc ->]])].
  - auto.
  - rewrite E in Ht, Hl. auto.
  - rewrite E in Ht, Hl. split; [exact Ht|exact Hl].
Qed.

(* comment_line_relex: whatever indentation the comment was printed at, the
   line  "//" body "\n"  is ONE comment token of the tokenizer model whose
   fragment is [relex_body frag]. *)
Theorem comment_line_relex : forall frag rest, no_nl frag = true ->
  first_raw (b "//" ++ relex_body frag ++ nl :: rest) =
  RComplete COMMENT (relex_body frag) (b "//" ++ relex_body frag ++ [nl]) rest.
Proof.
  intros frag rest Hn. destruct (relex_body_ok frag Hn) as [H1 H2].
  apply first_raw_comment. unfold comment_run. rewrite strip_prefix_app.
  rewrite (until_eol_exact _ rest H1 H2). cbn [eat_eol]. rewrite Ascii.eqb_refl. reflexivity.
Qed.

(* FIXED POINT FOR COMMENT TEXT, end to end on the models: print a comment, let the
   tokenizer model read the printed line back, print what it read: same line. *)
Theorem comment_print_lex_print : forall cur frag rest, no_nl frag = true ->
  exists f', first_raw (b "//" ++ relex_body frag ++ nl :: rest) =
             RComplete COMMENT f' (b "//" ++ relex_body frag ++ [nl]) rest /\
             comment_line cur f' = comment_line cur frag.
Proof.
  intros cur frag rest Hn. exists (relex_body frag). split; [now apply comment_line_relex|].
  apply comment_line_fixed.
Qed.

(* ================================================================== *)
(** * 4. Token round trip for an expression fragment                   *)
(* ================================================================== *)

(* white space in front of anything is invisible *)
Lemma strip_lex_ws_any w y : forallb is_ws w = true -> strip_lex (w ++ y) = strip_lex y.
Proof.
  intros Hw. destruct (span is_ws y) as [w2 y2] eqn:E.
  pose proof (span_app _ _ _ _ E) as ->. pose proof (span_all _ _ _ _ E) as H2.
  pose proof (span_stop _ _ _ _ E) as H3.
  assert (Hy : starts_nonws y2 = true) by (destruct y2; [reflexivity|cbn; now rewrite H3]).
  rewrite app_assoc, strip_lex_ws_block; [|now rewrite forallb_app, Hw, H2|exact Hy].
  now rewrite strip_lex_ws_block.
Qed.

Lemma spaces_ws n : forallb is_ws (spaces n) = true.
Proof. induction n; [reflexivity|exact IHn]. Qed.

(* the fragment: literals without floats, symbols, lists, tuples, groups,
   binary chains (all 18 operators) *)
Definition sym_ok (x : bytes) : bool := wf_tk (BAREWORD, x).

Fixpoint frag_ok (e : expr) : bool :=
  match e with
  | ENull | EBool _ | EStr _ => true
  | EInt z => (0 <=? z)%Z
  | ESym x => sym_ok x
  | EList es => forallb frag_ok es
  | ETuple fs => forallb (fun kv => frag_ok (snd kv)) fs
  | EGroup e1 => frag_ok e1
  | EBin _ l r => (frag_ok l && frag_ok r)%bool
  | _ => false
  end.

(* bytes that may follow a complete expression in the printer's output *)
Definition is_delim (c : ascii) : bool :=
  existsb (Ascii.eqb c) [sp; nl; ","%char; ";"%char; ")"%char; "]"%char; "}"%char; "."%char].
Definition delim_follow (x : bytes) : bool :=
  match x with [] => true | c :: _ => is_delim c end.

(* bytes an expression of the fragment can start with *)
Definition is_starter (c : ascii) : bool :=
  (is_alpha c || is_digit c || existsb (Ascii.eqb c) [dq; "["%char; "{"%char; "("%char])%bool.

Lemma delim_facts c : is_delim c = true ->
  is_symbol_char c = false /\ is_digit c = false /\
  needs_sep_byte (PUNCT, b "]") c = false /\ needs_sep_byte (PUNCT, b "}") c = false /\
  needs_sep_byte (PUNCT, b ")") c = false.
Proof.
  pose proof (forall_bytes (fun c => implb (is_delim c)
    (negb (is_symbol_char c) && negb (is_digit c) && negb (needs_sep_byte (PUNCT, b "]") c)
     && negb (needs_sep_byte (PUNCT, b "}") c) && negb (needs_sep_byte (PUNCT, b ")") c))) eq_refl c) as H.
  cbn beta in H. intros Hc. rewrite Hc in H. cbn [implb] in H.
  repeat (apply andb_true_iff in H as [H ?]).
  repeat match goal with X : negb _ = true |- _ => apply negb_true_iff in X end. auto.
Qed.

Lemma starter_facts c : is_starter c = true -> needs_sep_byte (PUNCT, b ".") c = false.
Proof.
  pose proof (forall_bytes (fun c => implb (is_starter c) (negb (needs_sep_byte (PUNCT, b ".") c))) eq_refl c) as H.
  cbn beta in H. intros Hc. rewrite Hc in H. now apply negb_true_iff in H.
Qed.

Lemma open_follows_any c :
  needs_sep_byte (PUNCT, b "(") c = false /\ needs_sep_byte (PUNCT, b "[") c = false /\
  needs_sep_byte (PUNCT, b "{") c = false.
Proof.
  pose proof (forall_bytes (fun c => (negb (needs_sep_byte (PUNCT, b "(") c) &&
     negb (needs_sep_byte (PUNCT, b "[") c) && negb (needs_sep_byte (PUNCT, b "{") c))%bool) eq_refl c) as H.
  cbn beta in H. repeat (apply andb_true_iff in H as [H ?]).
  repeat match goal with X : negb _ = true |- _ => apply negb_true_iff in X end. auto.
Qed.

(* tokens an expression of the fragment can END with *)
Definition end_tok (a : tk) : bool :=
  match fst a with
  | EMPTY | BOOLEAN | QUOTED | DIGIT | BAREWORD => true
  | PUNCT => existsb (bytes_eqb (snd a)) [b "]"; b "}"; b ")"]
  | _ => false
  end.

Lemma end_tok_follow a y : end_tok a = true -> delim_follow y = true -> follow_ok a y = true.
Proof.
  intros Ha Hy. destruct y as [|c y]; [reflexivity|]. cbn [delim_follow follow_ok] in *.
  destruct (delim_facts c Hy) as (F1 & F2 & F3 & F4 & F5).
  destruct a as [ty f]. unfold end_tok in Ha. cbn [fst snd] in Ha.
  destruct ty; try discriminate; unfold needs_sep_byte; cbn [fst snd]; try reflexivity.
  - now rewrite F2.
  - now rewrite F1.
  - cbn [existsb] in Ha. repeat (apply orb_true_iff in Ha as [Ha|Ha]); try discriminate;
      apply bytes_eqb_spec in Ha; subst f.
    + unfold needs_sep_byte in F3. cbn [fst snd] in F3. now rewrite F3.
    + unfold needs_sep_byte in F4. cbn [fst snd] in F4. now rewrite F4.
    + unfold needs_sep_byte in F5. cbn [fst snd] in F5. now rewrite F5.
Qed.

(* one token whose text is followed by something admissible *)
Lemma tok_then a y : wf_tk a = true -> follow_ok a y = true ->
  strip_lex (src_of a ++ y) = option_map (cons a) (strip_lex y).
Proof. apply strip_lex_token. Qed.

Lemma lex_spaced_op a y : wf_tk a = true ->
  strip_lex (sp :: src_of a ++ sp :: y) = option_map (cons a) (strip_lex y).
Proof.
  intros Hwf. change (sp :: src_of a ++ sp :: y) with ([sp] ++ src_of a ++ sp :: y).
  rewrite strip_lex_ws_any by reflexivity.
  rewrite tok_then; [|exact Hwf|].
  - change (sp :: y) with ([sp] ++ y). now rewrite strip_lex_ws_any by reflexivity.
  - cbn [follow_ok]. rewrite (blank_follows_any a sp Hwf); [reflexivity|cbn; auto].
Qed.

Lemma op_tok_wf o : wf_tk (op_tok o) = true.
Proof. destruct o; reflexivity. Qed.

Lemma op_text_spaced o : o <> DOT -> op_text o = sp :: src_of (op_tok o) ++ [sp].
Proof. destruct o; try reflexivity. congruence. Qed.

Definition item_spec (t : bytes) (ts : list tk) : Prop :=
  forall y, delim_follow y = true -> strip_lex (t ++ y) = option_map (app ts) (strip_lex y).

Lemma option_map_map {A B C} (f : A -> B) (g : B -> C) o :
  option_map g (option_map f o) = option_map (fun x => g (f x)) o.
Proof. destruct o; reflexivity. Qed.

Lemma option_map_ext {A B} (f g : A -> B) o : (forall x, f x = g x) -> option_map f o = option_map g o.
Proof. intros H. destruct o; cbn; [now rewrite H|reflexivity]. Qed.

Section Toks.
  Variable ind : nat.

  (* items of a list / tuple / multi-line call, one per line, each followed by ",\n" *)
  Lemma lex_block {A} n (f : A -> bytes) (g : A -> list tk) (l : list A) z :
    Forall (fun a => item_spec (f a) (g a)) l ->
    strip_lex (flat_map (fun i => spaces n ++ i ++ b "," ++ [nl]) (map f l) ++ z)
    = option_map (app (flat_map (fun a => g a ++ [(PUNCT, b ",")]) l)) (strip_lex z).
  Proof.
    induction l as [|a l IH]; intros HF.
    - cbn. destruct (strip_lex z); reflexivity.
    - inversion HF as [|? ? Ha Hl]; subst. cbn [map flat_map].
      rewrite <- !app_assoc. rewrite strip_lex_ws_any by apply spaces_ws.
      rewrite Ha by reflexivity.
      change (b "," ++ [nl] ++ flat_map (fun i => spaces n ++ i ++ b "," ++ [nl]) (map f l) ++ z)
        with (src_of (PUNCT, b ",") ++ [nl] ++ flat_map (fun i => spaces n ++ i ++ b "," ++ [nl]) (map f l) ++ z).
      rewrite tok_then by reflexivity.
      rewrite strip_lex_ws_any by reflexivity. rewrite (IH Hl).
      rewrite !option_map_map. apply option_map_ext. intros x. now rewrite <- !app_assoc.
  Qed.

  (* an opening bracket, the block, the closing bracket *)
  Lemma lex_bracket {A} (o c : bytes) cur (f : A -> bytes) (g : A -> list tk) (l : list A) y :
    wf_tk (PUNCT, o) = true -> wf_tk (PUNCT, c) = true ->
    (forall ch, needs_sep_byte (PUNCT, o) ch = false) ->
    end_tok (PUNCT, c) = true -> delim_follow y = true ->
    Forall (fun a => item_spec (f a) (g a)) l ->
    strip_lex (o ++ block ind cur (map f l) ++ c ++ y)
    = option_map (fun r => (PUNCT, o) :: flat_map (fun a => g a ++ [(PUNCT, b ",")]) l ++ (PUNCT, c) :: r)
                 (strip_lex y).
  Proof.
    intros Wo Wc Fo Ec Hy HF.
    assert (Fany : forall x, follow_ok (PUNCT, o) x = true).
    { intros [|ch x]; [reflexivity|]. cbn [follow_ok]. now rewrite Fo. }
    change o with (src_of (PUNCT, o)) at 1. rewrite tok_then by auto.
    assert (Close : forall w, forallb is_ws w = true ->
              strip_lex (w ++ c ++ y) = option_map (cons (PUNCT, c)) (strip_lex y)).
    { intros w Hw. rewrite strip_lex_ws_any by exact Hw.
      change c with (src_of (PUNCT, c)) at 1. apply tok_then; [exact Wc|].
      now apply end_tok_follow. }
    unfold block. destruct (map f l) as [|i0 items] eqn:El.
    - destruct l; [|discriminate]. cbn [app flat_map].
      pose proof (Close [] eq_refl) as Cl. cbn [app] in Cl. rewrite Cl.
      rewrite option_map_map. reflexivity.
    - rewrite <- El. rewrite <- !app_assoc. rewrite strip_lex_ws_any by reflexivity.
      rewrite (lex_block (cur + ind) f g l _ HF). rewrite (Close _ (spaces_ws cur)).
      rewrite !option_map_map. reflexivity.
  Qed.

  (* first byte of the text of a fragment expression *)
  Lemma pp_starts e : frag_ok e = true -> forall cur,
    exists c r, pp_expr ind cur e = c :: r /\ is_starter c = true.
  Proof.
    induction e; intros He cur; try discriminate He.
    - exists "N"%char, (b "ULL"). auto.
    - destruct v; eexists _, _; split; reflexivity.
    - cbn [frag_ok] in He. apply Z.leb_le in He. destruct (dec_of_Z_digits z He) as [Hn Hd].
      cbn [pp_expr]. destruct (dec_of_Z z) as [|c r]; [congruence|]. exists c, r. split; [reflexivity|].
      cbn [forallb] in Hd. apply andb_true_iff in Hd as [Hc _]. unfold is_starter. rewrite Hc.
      now rewrite orb_true_r.
    - exists dq, (escape_quotes s ++ [dq]). auto.
    - cbn [frag_ok] in He. unfold sym_ok, wf_tk in He. cbn [fst snd] in He.
      apply andb_true_iff in He as [Hw _]. cbn [pp_expr]. destruct x as [|c r]; [discriminate|].
      exists c, r. split; [reflexivity|]. cbn in Hw. apply andb_true_iff in Hw as [Hc _].
      unfold is_starter. now rewrite Hc.
    - eexists _, _. split; reflexivity.
    - eexists _, _. split; reflexivity.
    - cbn [frag_ok] in He. apply andb_true_iff in He as [Hl _].
      destruct (IHe1 Hl cur) as (c & r & E & Hc). cbn [pp_expr]. rewrite E.
      eexists _, _. split; [reflexivity|exact Hc].
    - eexists _, _. split; reflexivity.
  Qed.

  (* pp_tokens_roundtrip (general form): the text of a fragment expression,
     at any indentation, followed by anything that starts with a delimiter,
     lexes to [toks e] followed by the tokens of the rest *)
  Lemma pp_toks : forall e, frag_ok e = true -> forall cur, item_spec (pp_expr ind cur e) (toks e).
  Proof.
    fix IH 1. intros e He cur y Hy. destruct e; try discriminate He.
    - (* NULL *)
      change (pp_expr ind cur ENull) with (src_of (EMPTY, b "NULL")).
      rewrite tok_then; [destruct (strip_lex y); reflexivity|reflexivity|now apply end_tok_follow].
    - (* bool *)
      destruct v.
      + change (pp_expr ind cur (EBool true)) with (src_of (BOOLEAN, b "true")).
        rewrite tok_then; [destruct (strip_lex y); reflexivity|reflexivity|now apply end_tok_follow].
      + change (pp_expr ind cur (EBool false)) with (src_of (BOOLEAN, b "false")).
        rewrite tok_then; [destruct (strip_lex y); reflexivity|reflexivity|now apply end_tok_follow].
    - (* int *)
      cbn [frag_ok] in He. apply Z.leb_le in He. destruct (dec_of_Z_digits z He) as [Hn Hd].
      change (pp_expr ind cur (EInt z)) with (src_of (DIGIT, dec_of_Z z)).
      rewrite tok_then; [destruct (strip_lex y); reflexivity|now apply digits_wf|now apply end_tok_follow].
    - (* string *)
      change (pp_expr ind cur (EStr s)) with (quoted s). rewrite strip_lex_quoted.
      destruct (strip_lex y); reflexivity.
    - (* symbol *)
      change (pp_expr ind cur (ESym x)) with (src_of (BAREWORD, x)).
      rewrite tok_then; [destruct (strip_lex y); reflexivity|exact He|now apply end_tok_follow].
    - (* tuple *)
      cbn [frag_ok] in He. cbn [pp_expr toks]. rewrite <- !app_assoc.
      etransitivity.
      { apply (lex_bracket (b "{") (b "}") cur
                 (fun kv => field_name (fst kv) ++ b " = " ++ pp_expr ind (cur + ind) (snd kv))
                 (fun kv => name_tok (fst kv) :: (PUNCT, b "=") :: toks (snd kv)) fs y);
          try reflexivity; try exact Hy.
        clear - IH He. induction fs as [|[k v] fs IHfs]; constructor.
          + cbn [forallb snd] in He. apply andb_true_iff in He as [Hv _]. cbn [fst snd].
            intros y Hy. rewrite <- !app_assoc. change (b " = " ++ pp_expr ind (cur + ind) v ++ y)
              with (sp :: src_of (PUNCT, b "=") ++ sp :: pp_expr ind (cur + ind) v ++ y).
            rewrite field_name_roundtrip, lex_spaced_op by reflexivity.
            rewrite (IH v Hv (cur + ind) y Hy). rewrite !option_map_map. reflexivity.
          + cbn [forallb] in He. apply andb_true_iff in He as [_ Hr]. apply IHfs, Hr. }
      apply option_map_ext. intros r. cbn [app]. f_equal. rewrite <- app_assoc. reflexivity.
    - (* list *)
      cbn [frag_ok] in He. cbn [pp_expr toks]. rewrite <- !app_assoc.
      etransitivity.
      { apply (lex_bracket (b "[") (b "]") cur (pp_expr ind (cur + ind)) toks es y);
          try reflexivity; try exact Hy.
        clear - IH He. induction es as [|a es IHes]; constructor.
          + cbn [forallb] in He. apply andb_true_iff in He as [Ha _]. exact (IH a Ha (cur + ind)).
          + cbn [forallb] in He. apply andb_true_iff in He as [_ Hr]. apply IHes, Hr. }
      apply option_map_ext. intros r. cbn [app]. f_equal. now rewrite <- app_assoc.
    - (* binary *)
      cbn [frag_ok] in He. apply andb_true_iff in He as [Hl Hr]. cbn [pp_expr toks].
      rewrite <- !app_assoc.
      assert (D : o = DOT \/ o <> DOT) by (destruct o; auto; right; discriminate).
      destruct D as [->|Hno].
      + rewrite (IH e1 Hl cur) by reflexivity.
        change (op_text DOT ++ pp_expr ind cur e2 ++ y) with (src_of (PUNCT, b ".") ++ pp_expr ind cur e2 ++ y).
        rewrite tok_then; [|reflexivity|].
        * rewrite (IH e2 Hr cur y Hy). rewrite !option_map_map. apply option_map_ext.
          intros x. now rewrite <- app_assoc.
        * destruct (pp_starts e2 Hr cur) as (c & r & E & Hc). rewrite E. cbn [app follow_ok].
          now rewrite (starter_facts c Hc).
      + rewrite (op_text_spaced o Hno). rewrite (IH e1 Hl cur) by reflexivity.
        cbn [app]. rewrite <- app_assoc. cbn [app].
        rewrite (lex_spaced_op _ _ (op_tok_wf o)). rewrite (IH e2 Hr cur y Hy).
        rewrite !option_map_map. apply option_map_ext. intros x. now rewrite <- app_assoc.
    - (* group *)
      cbn [frag_ok] in He. cbn [pp_expr toks]. rewrite <- !app_assoc.
      change (b "(" ++ pp_expr ind cur e ++ b ")" ++ y) with (src_of (PUNCT, b "(") ++ pp_expr ind cur e ++ b ")" ++ y).
      rewrite tok_then; [|reflexivity|].
      2:{ destruct (pp_expr ind cur e ++ b ")" ++ y) as [|ch ?]; [reflexivity|]. cbn [follow_ok].
          now rewrite (proj1 (open_follows_any ch)). }
      rewrite (IH e He cur) by reflexivity.
      change (b ")" ++ y) with (src_of (PUNCT, b ")") ++ y).
      rewrite tok_then; [|reflexivity|now apply end_tok_follow].
      rewrite !option_map_map. apply option_map_ext. intros x. cbn [app]. now rewrite <- app_assoc.
  Qed.
End Toks.

(* pp_tokens_roundtrip: lexing the printed text of a fragment expression gives
   exactly the token list defined directly from the AST *)
Theorem pp_tokens_roundtrip : forall ind cur e, frag_ok e = true ->
  strip_lex (pp_expr ind cur e) = Some (toks e ++ [tk_end]).
Proof.
  intros ind cur e He. pose proof (pp_toks ind e He cur [] eq_refl) as H.
  rewrite app_nil_r in H. exact H.
Qed.

(* and as a statement: `let x = e;\n` *)
Lemma pp_stmts_let ind x e :
  pp_stmts ind [SLet x e] =
  b "let" ++ sp :: src_of (BAREWORD, x) ++ sp :: src_of (PUNCT, b "=") ++ sp :: pp_expr ind 0 e ++ b ";" ++ [nl].
Proof.
  unfold pp_stmts, pp_prog. cbn [map join_with flat_map]. rewrite app_nil_r.
  change (pp_stmt ind 0 (SLet x e)) with ((b "let " ++ x ++ b " = " ++ pp_expr ind 0 e) ++ b ";" ++ [nl]).
  cbn [src_of fst snd]. rewrite <- !app_assoc. reflexivity.
Qed.

Theorem let_stmt_tokens_roundtrip : forall ind x e, sym_ok x = true -> frag_ok e = true ->
  strip_lex (pp_stmts ind [SLet x e]) =
  Some ((BAREWORD, b "let") :: (BAREWORD, x) :: (PUNCT, b "=") :: toks e ++ [(PUNCT, b ";"); tk_end]).
Proof.
  intros ind x e Hx He. rewrite pp_stmts_let.
  rewrite (keyword_then_blank "let") by (cbn; auto).
  change (sp :: src_of (BAREWORD, x) ++ sp :: src_of (PUNCT, b "=") ++ sp :: pp_expr ind 0 e ++ b ";" ++ [nl])
    with ([sp] ++ src_of (BAREWORD, x) ++ sp :: src_of (PUNCT, b "=") ++ sp :: pp_expr ind 0 e ++ b ";" ++ [nl]).
  rewrite strip_lex_ws_any by reflexivity.
  rewrite tok_then; [|exact Hx|].
  2:{ cbn [follow_ok]. rewrite (blank_follows_any _ sp Hx); [reflexivity|cbn; auto]. }
  rewrite lex_spaced_op by reflexivity.
  rewrite (pp_toks ind e He 0) by reflexivity.
  change (b ";" ++ [nl]) with (src_of (PUNCT, b ";") ++ [nl]).
  rewrite tok_then by reflexivity.
  change [nl] with ([nl] ++ []). rewrite strip_lex_ws_any by reflexivity.
  cbn; try rewrite <- app_assoc; reflexivity.
Qed.

(* ================================================================== *)
(** * 5. The comment map built by the tokenizer                        *)
(* ================================================================== *)

Definition is_comment_tok (t : token) : bool := match typ t with COMMENT => true | _ => false end.

Lemma close_group_frags grp : flat_map snd (close_group grp) = map frag grp.
Proof.
  unfold close_group. destruct (rev grp) as [|t r] eqn:E.
  - apply (f_equal (@rev _)) in E. rewrite rev_involutive in E. subst. reflexivity.
  - cbn. now rewrite app_nil_r.
Qed.

(* comment_map_complete: the groups, concatenated, are exactly the fragments of
   the COMMENT tokens of the source, in source order -- the map loses nothing
   the tokenizer produced as a comment *)
Lemma build_map_frags toks : forall grp,
  flat_map snd (build_map toks grp) = map frag grp ++ map frag (filter is_comment_tok toks).
Proof.
  induction toks as [|t r IH]; intros grp; cbn [build_map filter].
  - rewrite close_group_frags. cbn. now rewrite app_nil_r.
  - unfold is_comment_tok at 1. destruct (typ t) eqn:Et;
      try (rewrite flat_map_app, close_group_frags, IH; reflexivity).
    rewrite IH, map_app. cbn [map]. now rewrite <- app_assoc.
Qed.

Theorem comment_map_complete : forall src toks m,
  lex_all src = Some toks -> comment_map_of src = Some m ->
  flat_map snd m = map frag (filter is_comment_tok toks).
Proof.
  intros src toks m Hl Hm. unfold comment_map_of in Hm. rewrite Hl in Hm. inversion Hm; subst.
  apply (build_map_frags toks []).
Qed.

(* A comment glued to a keyword IS in the map (source commit b648ec7: the keyword
   recognisers only look ahead; model: kw_lookahead_only = true, theorem
   lex_all_keeps_glued_comment).  This replaces keyword_swallows_comment_refuted, which
   described the tokenizer before the fix. *)
Lemma close_group_cons c g : exists k, close_group (c :: g) = [(k, map frag (c :: g))].
Proof.
  unfold close_group. destruct (rev (c :: g)) as [|t r] eqn:E.
  - apply (f_equal (@List.length _)) in E. rewrite rev_length in E. discriminate.
  - eauto.
Qed.

Lemma build_map_head l : forall c g0, exists k g m', build_map l (c :: g0) = (k, frag c :: g) :: m'.
Proof.
  induction l as [|t r IH]; intros c g0; cbn [build_map].
  - destruct (close_group_cons c g0) as (k & ->). cbn [map]. eauto.
  - destruct (typ t); try (destruct (close_group_cons c g0) as (k & ->); cbn [map app]; eauto).
    change ((c :: g0) ++ [t]) with (c :: (g0 ++ [t])). apply IH.
Qed.

Theorem glued_comment_in_map : forall ty lit body rest m,
  In (RTextWS ty lit) recognisers -> no_nl body = true ->
  comment_map_of (b lit ++ b "//" ++ body ++ [nl] ++ rest) = Some m ->
  exists k g m', m = (k, chomp_cr body :: g) :: m'.
Proof.
  intros ty lit body rest m Hin Hn H. unfold comment_map_of in H.
  destruct (lex_all (b lit ++ b "//" ++ body ++ [nl] ++ rest)) as [toks|] eqn:E; [|discriminate].
  destruct (glued_comment_is_token ty lit body rest toks Hin Hn E) as (tl & ->).
  assert (ty = BAREWORD).
  { pose proof recognisers_word_ok as W. rewrite forallb_forall in W. specialize (W _ Hin).
    cbn in W. apply andb_true_iff in W as [W _]. now apply ttype_eqb_eq in W. }
  subst ty. inversion H; subst.
  exact (build_map_head tl (mk_tok COMMENT (chomp_cr body) (advance ps0 (b lit))) []).
Qed.

Example glued_comment_example :
  comment_map_of (b "let//note" ++ [nl] ++ b "x = 1;") = Some [(1%N, [b "note"])] /\
  strip_lex (b "let//note" ++ [nl] ++ b "x = 1;") = strip_lex (b "let x = 1;").
Proof. vm_compute. auto. Qed.

(* source_comment_in_map: EVERY comment of the source that starts at a token boundary -- after a
   keyword as after anything else -- is in the comment map with its text.
   Needs exactly: the source tokenizes; the text at the offset of some token reads
   "//" body LF with no LF inside body (so it is not inside a string literal or another comment:
   those offsets are not token boundaries).  A comment closed by the end of the file instead of
   LF is covered by comment_map_complete (it is a COMMENT token of lex_all). *)
Theorem source_comment_in_map : forall src toks m t pre body rest,
  lex_all src = Some toks -> comment_map_of src = Some m -> In t toks ->
  src = pre ++ b "//" ++ body ++ nl :: rest -> no_nl body = true ->
  N.to_nat (off t) = List.length pre ->
  In (chomp_cr body) (flat_map snd m).
Proof.
  intros src toks m t pre body rest Hl Hm Hin Hsrc Hn Hoff.
  destruct (comment_at_boundary_is_token src toks t pre body rest Hl Hin Hsrc Hn Hoff) as [Hty Hf].
  rewrite (comment_map_complete src toks m Hl Hm), <- Hf. apply in_map.
  apply filter_In. split; [exact Hin|]. unfold is_comment_tok. now rewrite Hty.
Qed.

(* token lines never decrease along lex_all (from positions_exact_all); the keys
   of the map are lines of a subsequence of the tokens *)
Lemma count_nl_firstn_mono s : forall o1 o2, o1 <= o2 ->
  count_nl (firstn o1 s) <= count_nl (firstn o2 s).
Proof.
  unfold count_nl. induction s as [|c s IH]; intros o1 o2 H.
  - rewrite !firstn_nil. auto.
  - destruct o1 as [|o1]; [cbn; lia|]. destruct o2 as [|o2]; [lia|]. cbn [firstn filter].
    specialize (IH o1 o2 ltac:(lia)). destruct (is_nl c); cbn [List.length]; lia.
Qed.

Theorem lex_lines_sorted : forall src toks, lex_all src = Some toks ->
  StronglySorted (fun t1 t2 => (line t1 <= line t2)%N) toks.
Proof.
  intros src toks H. destruct (positions_exact_all src toks H) as [Hok Hs]. clear H.
  induction Hs as [|t l Hs IH Hall]; constructor.
  - apply IH. now inversion Hok.
  - inversion Hok as [|? ? Ht Hl]; subst. rewrite Forall_forall in *. intros t2 Hin.
    specialize (Hall t2 Hin). specialize (Hl t2 Hin). unfold off_lt in Hall.
    destruct Ht as (_ & L1 & _). destruct Hl as (_ & L2 & _). rewrite L1, L2.
    pose proof (count_nl_firstn_mono src (N.to_nat (off t)) (N.to_nat (off t2)) ltac:(lia)). lia.
Qed.

(* ---- the full statement, closing the loop tokenizer -> scheduler ---- *)
Definition line_le (t1 t2 : token) : Prop := (line t1 <= line t2)%N.
Definition key_le (a c : N * comment_group) : Prop := (fst a <= fst c)%N.

Lemma ss_app_inv {A} (R : A -> A -> Prop) l1 : forall l2,
  StronglySorted R (l1 ++ l2) ->
  StronglySorted R l1 /\ StronglySorted R l2 /\ (forall x y, In x l1 -> In y l2 -> R x y).
Proof.
  induction l1 as [|a l1 IH]; intros l2 H.
  - cbn in H. repeat split; [constructor|exact H|intros ? ? []].
  - cbn in H. inversion H as [|? ? Hs Hall]; subst. destruct (IH l2 Hs) as (S1 & S2 & C).
    rewrite Forall_forall in Hall. repeat split; [|exact S2|].
    + constructor; [exact S1|]. apply Forall_forall. intros x Hx. apply Hall, in_or_app. auto.
    + intros x y [<-|Hx] Hy; [apply Hall, in_or_app; auto|now apply C].
Qed.

Lemma ss_app {A} (R : A -> A -> Prop) l1 l2 :
  StronglySorted R l1 -> StronglySorted R l2 -> (forall x y, In x l1 -> In y l2 -> R x y) ->
  StronglySorted R (l1 ++ l2).
Proof.
  induction l1 as [|a l1 IH]; intros S1 S2 C; [exact S2|]. cbn.
  inversion S1 as [|? ? Hs Hall]; subst. constructor.
  - apply IH; auto. intros x y Hx Hy. apply C; [now right|exact Hy].
  - apply Forall_forall. intros x Hx. apply in_app_or in Hx as [Hx|Hx].
    + rewrite Forall_forall in Hall. now apply Hall.
    + apply C; [now left|exact Hx].
Qed.

Lemma close_group_keys grp kg : In kg (close_group grp) -> exists t, In t grp /\ fst kg = line t.
Proof.
  unfold close_group. destruct (rev grp) as [|t r] eqn:E; [intros []|].
  intros [<-|[]]. exists t. split; [|reflexivity]. apply in_rev. rewrite E. now left.
Qed.

Lemma close_group_sorted grp : StronglySorted key_le (close_group grp).
Proof.
  unfold close_group. destruct (rev grp); [constructor|]. constructor; [constructor|constructor].
Qed.

Lemma build_map_sorted toks : forall grp,
  StronglySorted line_le (grp ++ toks) ->
  StronglySorted key_le (build_map toks grp) /\
  (forall kg, In kg (build_map toks grp) -> exists t, In t (grp ++ toks) /\ fst kg = line t).
Proof.
  induction toks as [|t r IH]; intros grp H.
  - cbn [build_map]. rewrite app_nil_r. split; [apply close_group_sorted|apply close_group_keys].
  - assert (Other : typ t <> COMMENT ->
              StronglySorted key_le (close_group grp ++ build_map r []) /\
              (forall kg, In kg (close_group grp ++ build_map r []) ->
                 exists t0, In t0 (grp ++ t :: r) /\ fst kg = line t0)).
    { intros _. destruct (ss_app_inv _ _ _ H) as (S1 & S2 & C).
      inversion S2 as [|? ? Sr _]; subst. destruct (IH [] Sr) as [Hs Hk]. split.
      - apply ss_app; [apply close_group_sorted|exact Hs|].
        intros x y Hx Hy. apply close_group_keys in Hx as (t1 & I1 & E1).
        apply Hk in Hy as (t2 & I2 & E2). unfold key_le. rewrite E1, E2.
        apply (C t1 t2 I1). now right.
      - intros kg Hin. apply in_app_or in Hin as [Hin|Hin].
        + apply close_group_keys in Hin as (t1 & I1 & E1). exists t1. split; [apply in_or_app; now left|exact E1].
        + apply Hk in Hin as (t2 & I2 & E2). exists t2. split; [apply in_or_app; right; now right|exact E2]. }
    cbn [build_map]. destruct (typ t) eqn:Et; try (apply Other; discriminate).
    specialize (IH (grp ++ [t])). rewrite <- app_assoc in IH. cbn [app] in IH.
    exact (IH H).
Qed.

Lemma sorted_ascending m : StronglySorted key_le m -> ascending m.
Proof.
  induction m as [|[k g] m IH]; intros H; [exact I|]. inversion H as [|? ? Hs Hall]; subst.
  cbn [ascending]. split; [|exact (IH Hs)].
  destruct m as [|[k' g'] m']; [exact I|]. inversion Hall; subst. assumption.
Qed.

(* comment_map_ascending: every map the tokenizer builds satisfies the
   hypothesis of schedule_emits_all_once *)
Theorem comment_map_ascending : forall src m, comment_map_of src = Some m -> ascending m.
Proof.
  intros src m H. unfold comment_map_of in H. destruct (lex_all src) as [toks|] eqn:E; [|discriminate].
  inversion H; subst. apply sorted_ascending.
  apply (build_map_sorted toks []). cbn [app]. exact (lex_lines_sorted src toks E).
Qed.

(* END TO END for the comment clause at the level of the models: for every
   source the tokenizer accepts and every sequence of scheduler calls the AST
   walk may make, what `render` has written at the end is every COMMENT token of
   the source, exactly once, in source order. *)
Theorem comments_all_emitted_once : forall src toks m cs,
  lex_all src = Some toks -> comment_map_of src = Some m ->
  let '(_, _, st) := run_render m cs in
  flat_map snd (emitted st) = map frag (filter is_comment_tok toks) /\ pending st = [].
Proof.
  intros src toks m cs Hl Hm. pose proof (schedule_emits_all_once m cs (comment_map_ascending src m Hm)) as S.
  destruct (run_render m cs) as [[os o] st]. destruct S as [-> ->].
  split; [exact (comment_map_complete src toks m Hl Hm)|reflexivity].
Qed.

(* ... and therefore, with NO exception for comments glued to keywords: every comment of the
   source that starts at a token boundary is among the fragments `render` has written.
   Hypotheses, exactly: the source tokenizes (lex_all), m is the map built from it, the comment
   "//" body LF sits at the offset of a token; the call sequence is arbitrary. *)
Theorem source_comments_all_emitted : forall src toks m cs t pre body rest,
  lex_all src = Some toks -> comment_map_of src = Some m -> In t toks ->
  src = pre ++ b "//" ++ body ++ nl :: rest -> no_nl body = true ->
  N.to_nat (off t) = List.length pre ->
  let '(_, _, st) := run_render m cs in
  In (chomp_cr body) (flat_map snd (emitted st)) /\ pending st = [].
Proof.
  intros src toks m cs t pre body rest Hl Hm Hin Hsrc Hn Hoff.
  pose proof (schedule_emits_all_once m cs (comment_map_ascending src m Hm)) as S.
  destruct (run_render m cs) as [[os o] st]. destruct S as [-> ->].
  split; [eapply source_comment_in_map; eauto|reflexivity].
Qed.

(* ================================================================== *)
(** * 6. Positions are irrelevant without comments; open statements    *)
(* ================================================================== *)

(* with an empty stack every scheduler operation writes nothing, whatever the line *)
Lemma no_comments_no_output st c : pending st = [] ->
  fst (step st c) = [] /\ pending (snd (step st c)) = [].
Proof.
  intros H. destruct c; cbn [step]; unfold render_comment_if_needed, render_missed_comments;
    rewrite ?H; cbn; rewrite ?H; auto.
Qed.

Lemma has_comment_empty st ln : pending st = [] -> has_comment st ln = false.
Proof. unfold has_comment. now intros ->. Qed.

Lemma if_needed_empty cur ln st : pending st = [] ->
  render_comment_if_needed cur ln st =
  ([], {| pending := []; last_line := ln; emitted := emitted st ++ [] |}).
Proof. intros H. unfold render_comment_if_needed, render_missed_comments. rewrite H. reflexivity. Qed.

Lemma render_top_no_comments stmts : forall first st, pending st = [] ->
  fst (render_top first st stmts) =
  (match stmts with [] => [] | _ => if first then [] else [nl] end) ++ join_with [nl] (map snd stmts)
  /\ pending (snd (render_top first st stmts)) = [].
Proof.
  induction stmts as [|[ln txt] rest IH]; intros first st H; [cbn; auto|].
  cbn [render_top]. rewrite (if_needed_empty 0 ln st H).
  set (st1 := {| pending := []; last_line := ln; emitted := emitted st ++ [] |}).
  destruct (IH false st1 eq_refl) as [Ho Hp].
  destruct (render_top false st1 rest) as [o st2]. cbn [fst snd] in *. split; [|exact Hp].
  rewrite Ho. cbn [map join_with snd app]. destruct rest as [|[ln' txt'] rest']; cbn; rewrite ?app_nil_r; reflexivity.
Qed.

(* the top-level walk of a comment-free program does not look at the lines *)
Theorem positions_irrelevant_without_comments : forall stmts,
  render_with_comments [] stmts = join_with [nl] (map snd stmts).
Proof.
  intros stmts. unfold render_with_comments.
  destruct (render_top_no_comments stmts true (sched_init []) eq_refl) as [Ho Hp].
  destruct (render_top true (sched_init []) stmts) as [o st]. cbn [fst snd] in *.
  unfold final_flush. rewrite Hp. cbn. rewrite app_nil_r, Ho. destruct stmts; reflexivity.
Qed.

(* fmt_fixed_point_partial.
   FULL STATEMENT (not proved; needs a model of the parser to re-read the text):
     for every program p and comment map m whose groups lie on lines of their
     own between the statements of the formatted text T = fmt(p, m):
       fmt(parse T, comment_map_of T) = T.
   PROVED HERE, the two model-level ingredients:
     (a) EVERY comment (blank ones included, since commit a7f1c11) is printed in a form the
         tokenizer reads back as a body that prints to the same line (comment_text_fixed,
         comment_print_lex_print);
     (b) the placement machinery writes nothing and ignores every position when
         there is no comment.
   CHECKED differentially on the real printer (see STATUS.md). *)
Theorem fmt_fixed_point_partial :
  (forall frag, relex_body (relex_body frag) = relex_body frag) /\
  (forall cur frag, comment_line cur (relex_body frag) = comment_line cur frag) /\
  (forall stmts, render_with_comments [] stmts = join_with [nl] (map snd stmts)).
Proof.
  split; [exact comment_text_fixed|]. split; [exact comment_line_fixed|exact positions_irrelevant_without_comments].
Qed.

(* fmt_preserves_ast_partial.
   FULL STATEMENT (not proved; needs a model of src/parse): for every p the
   parser can produce, parse (pp_stmts n p) = p up to positions and field
   quoting.
   PROVED: the token-level core for the fragment of [frag_ok] -- the printed
   text lexes to the token list determined by the AST alone (so two programs
   with the same [toks] are indistinguishable to the parser), for every
   indentation; plus the literal lemmas of section 2 for all expression kinds.
   Floats: finite_float_literal_ok for every float the parser can produce. *)
Theorem fmt_preserves_ast_partial : forall ind cur e, frag_ok e = true ->
  strip_lex (pp_expr ind cur e) = Some (toks e ++ [tk_end]).
Proof. exact pp_tokens_roundtrip. Qed.
