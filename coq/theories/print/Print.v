(* MODEL of src/ast/printer/mod.rs (AstPrinter) -- `ucg fmt`.
   Executable definitions only; proofs are in Print_Lemmas.v.

   Part A  byte-exact printer for COMMENT-FREE programs over the position-free
           AST of sem/Ast.v  (pp_expr / pp_stmt / pp_stmts).
           Without comments positions are irrelevant: every use of a position in
           the printer is an argument of has_comment / render_missed_comments /
           render_comment_if_needed, which are no-ops when comment_group_lines is
           empty (`ucg fmt` always passes a map, but an empty map gives an empty
           stack), plus the write-only field last_line.
   Part B  the comment scheduler (comment_group_lines stack, print_comment_group,
           render_missed_comments, render_comment_if_needed, has_comment, the
           final flush of `render`) as a state machine independent of the AST.
   Part C  token-level view of the printer for a small expression fragment. *)
From Ucg Require Import base.Bytes prec.Climb sem.Ast lex.Lex_Types lex.Lex.
Local Open Scope string_scope.
Local Open Scope list_scope.

(* ================================================================== *)
(** * A.1 text helpers                                                 *)
(* ================================================================== *)

(* make_indent: curr_indent blanks *)
Definition spaces (n : nat) : bytes := repeat sp n.

(* escape_quotes: `"` -> `\"`, `\` -> `\\`, everything else copied.  The Rust
   code walks chars; both special characters are ASCII so walking the UTF-8
   bytes gives the same text. *)
Definition esc_byte (c : ascii) : bytes :=
  if Ascii.eqb c dq then [bsl; dq]
  else if Ascii.eqb c bsl then [bsl; bsl]
  else [c].
Definition escape_quotes (s : bytes) : bytes := flat_map esc_byte s.

Definition quoted (s : bytes) : bytes := dq :: escape_quotes s ++ [dq].

Definition starts_with (p s : bytes) : bool :=
  match strip_prefix p s with Some _ => true | None => false end.

Definition underscore : ascii := "_"%char.

(* AstPrinter::is_bareword.  (char::is_ascii_alphabetic on chars = is_alpha on
   bytes: every byte of a non-ASCII char is >= 128 and so not alphabetic.) *)
Definition is_bareword (s : bytes) : bool :=
  match s with
  | [] => false
  | c :: _ =>
      if negb (is_alpha c) then false
      else if (negb (bytes_eqb s (b "true")) && negb (bytes_eqb s (b "false")) &&
               (starts_with (b "true") s || starts_with (b "false") s || starts_with (b "NULL") s))%bool
      then false
      else forallb (fun c => (is_alpha c || Ascii.eqb c underscore)%bool) s
  end.

Definition field_name (k : bytes) : bytes :=
  if is_bareword k then k else quoted k.

(* the operator texts of the Binary arm, blanks included *)
Definition op_text (o : op) : bytes :=
  b match o with
    | AND => " && " | OR => " || " | DOT => "."
    | Equal => " == " | NotEqual => " != " | GTEqual => " >= " | LTEqual => " <= "
    | GT => " > " | LT => " < " | Add => " + " | Sub => " - " | Mul => " * " | Div => " / "
    | Mod => " %% " | IN => " in " | IS => " is " | REMatch => " ~ " | NotREMatch => " !~ "
    end.

Definition cast_text (c : cast_type) : bytes :=
  b match c with CInt => "int" | CFloat => "float" | CStr => "str" | CBool => "bool" end.

(* ---------- integers: Display for i64 ---------- *)
Definition digit_char (d : N) : ascii := ascii_of_N (48 + d).

Fixpoint dec_fuel (fuel : nat) (n : N) (acc : bytes) : bytes :=
  match fuel with
  | O => acc
  | S f =>
      let acc' := digit_char (N.modulo n 10) :: acc in
      let q := N.div n 10 in
      if N.eqb q 0 then acc' else dec_fuel f q acc'
  end.
(* a number below 2^k has at most k decimal digits *)
Definition dec_of_N (n : N) : bytes := dec_fuel (S (N.to_nat (N.log2 n))) n [].

Definition dec_of_Z (z : Z) : bytes :=
  match z with
  | Z0 => b "0"
  | Zpos p => dec_of_N (Npos p)
  | Zneg p => "-"%char :: dec_of_N (Npos p)
  end.

(* ---------- floats: Display for f64 (shortest round-trip digits, no exponent) ----------
   core::num::flt2dec: decode + strategy::dragon::format_shortest (grisu gives
   the same digits whenever it answers) + digits_to_dec_str with frac_digits = 0. *)
Section Float.
  Local Open Scope Z_scope.

  (* decode: (mant, minus, plus, exp, inclusive), value = mant * 2^exp *)
  Definition f64_decode (ebits frac : Z) : Z * Z * Z * Z * bool :=
    let m := if ebits =? 0 then 2 * frac else frac + 2 ^ 52 in
    let e := ebits - 1075 in
    let even := Z.even m in
    if ebits =? 0 then (m, 1, 1, e, even)                       (* subnormal *)
    else if m =? 2 ^ 52 then (4 * m, 1, 2, e - 2, even)
    else (2 * m, 1, 1, e - 1, even).

  (* smallest k (searched upwards from a lower estimate) with
     num/den < 10^k (inclusive) resp. <= 10^k (exclusive) *)
  Definition pow10 (k : Z) : Z := 10 ^ k.
  Definition k_ok (incl : bool) (num den k : Z) : bool :=
    let '(l, r) := if 0 <=? k then (num, den * pow10 k) else (num * pow10 (- k), den) in
    if incl then l <? r else l <=? r.
  Fixpoint find_k (fuel : nat) (incl : bool) (num den k : Z) : Z :=
    match fuel with
    | O => k
    | S f => if k_ok incl num den k then k else find_k f incl num den (k + 1)
    end.
  Definition k_estimate (num den : Z) : Z :=
    ((Z.log2 num - Z.log2 den - 1) * 30103) / 100000 - 1.

  (* the digit loop; digits are numbers 0..9, most significant first *)
  Fixpoint gen_digits (fuel : nat) (incl : bool) (M Mi P Sc : Z) (acc : list Z) : list Z * bool :=
    match fuel with
    | O => (rev acc, false)
    | S f =>
        let d := M / Sc in
        let M' := M mod Sc in
        let down := if incl then M' <=? Mi else M' <? Mi in
        let up := if incl then Sc <=? M' + P else Sc <? M' + P in
        if (down || up)%bool
        then (rev (d :: acc), (up && (negb down || (Sc <=? 2 * M')))%bool)
        else gen_digits f incl (10 * M') (10 * Mi) (10 * P) Sc (d :: acc)
    end.

  (* round_up on the digit buffer: (digits, carried out of the first digit) *)
  Fixpoint incr_rev (ds : list Z) : list Z * bool :=   (* least significant first *)
    match ds with
    | [] => ([], true)
    | d :: r => if d =? 9 then let (r', c) := incr_rev r in (0 :: r', c) else (d + 1 :: r, false)
    end.
  Definition round_up (ds : list Z) : list Z * bool :=
    let (r, c) := incr_rev (rev ds) in (rev r, c).

  Definition shortest (ebits frac : Z) : list Z * Z :=
    let '(mant, minus, plus, e, incl) := f64_decode ebits frac in
    let '(mant, minus, plus, scale) :=
      if e <? 0 then (mant, minus, plus, 2 ^ (- e)) else (mant * 2 ^ e, minus * 2 ^ e, plus * 2 ^ e, 1) in
    let k := find_k 12 incl (mant + plus) scale (k_estimate (mant + plus) scale) in
    let '(M, Mi, P, Sc) :=
      if 0 <=? k then (10 * mant, 10 * minus, 10 * plus, scale * pow10 k)
      else (10 * mant * pow10 (- k), 10 * minus * pow10 (- k), 10 * plus * pow10 (- k), scale) in
    let '(ds, up) := gen_digits 20 incl M Mi P Sc [] in
    if up then
      let (ds', carry) := round_up ds in
      if carry then (1 :: ds', k + 1) else (ds', k)
    else (ds, k).

  (* b'0' + d.  The digit loop yields 0 <= d <= 9 (validated against Rust on 20000 bit patterns);
     reducing mod 10 here is the identity on such d and makes the LEXICAL shape of the printed
     text (digits, at most one '.') independent of the correctness of the digit generation. *)
  Definition zdigit (d : Z) : ascii := digit_char (Z.to_N (d mod 10)).
  Definition zeros (n : Z) : bytes := repeat "0"%char (Z.to_nat n).

  (* digits_to_dec_str, frac_digits = 0 *)
  Definition dec_str (ds : list Z) (k : Z) : bytes :=
    let txt := map zdigit ds in
    let len := Z.of_nat (List.length ds) in
    if k <=? 0 then b "0." ++ zeros (- k) ++ txt
    else if k <? len then firstn (Z.to_nat k) txt ++ "."%char :: skipn (Z.to_nat k) txt
    else txt ++ zeros (k - len).

  (* format!("{}", f64) from the IEEE-754 bit pattern *)
  Definition f64_display (bits : Z) : bytes :=
    let neg := Z.testbit bits 63 in
    let ebits := Z.land (Z.shiftr bits 52) 2047 in
    let frac := Z.land bits (2 ^ 52 - 1) in
    if ebits =? 2047 then
      (if frac =? 0 then (if neg then b "-inf" else b "inf") else b "NaN")
    else
      (if neg then b "-" else []) ++
      (if (ebits =? 0) && (frac =? 0) then b "0"
       else let (ds, k) := shortest ebits frac in dec_str ds k).
End Float.

(* what `triple_to_number` guarantees of a parsed float literal since commit e0bc790
   ("Float literal out of range!"): digits '.' digits is never negative, and a value that is
   not finite is rejected *)
Definition f64_sign (bits : Z) : bool := Z.testbit bits 63.
Definition f64_is_finite (bits : Z) : bool := negb (Z.land (Z.shiftr bits 52) 2047 =? 2047)%Z.
Definition parser_float (bits : Z) : bool := (negb (f64_sign bits) && f64_is_finite bits)%bool.

Definition dot : ascii := "."%char.

(* render_value, Float arm: keep / add a fraction *)
Definition float_text (bits : Z) : bytes :=
  let t := f64_display bits in
  if existsb (Ascii.eqb dot) t then t else t ++ b ".0".

(* ================================================================== *)
(** * A.2 format templates                                             *)
(* ================================================================== *)

(* sem/Ast.v stores a template pre-parsed (src/build/format.rs); the printer
   writes the ORIGINAL template string (FormatDef.template).  [unparse_template]
   rebuilds a canonical template that format.rs parses back to the same parts:
   `@` and `\` of literal parts get a backslash, a list-form placeholder is `@`,
   an expression part is `@{` text `}` where text comes from the printer itself.
   LOST: redundant escapes of the original (`\a` is `a`), a trailing lone
   backslash, the split of adjacent literal parts, and the original spelling /
   layout of the expression inside `@{...}`. *)
Definition at_sign : ascii := "@"%char.
Definition tmpl_esc_byte (c : ascii) : bytes :=
  if (Ascii.eqb c at_sign || Ascii.eqb c bsl)%bool then [bsl; c] else [c].
Definition tmpl_escape (s : bytes) : bytes := flat_map tmpl_esc_byte s.

(* ================================================================== *)
(** * A.3 the printer                                                  *)
(* ================================================================== *)

Section Printer.
  Variable ind : nat.             (* indent_size; `ucg fmt` default: 4 *)

  (* shared shape of render_list_def / render_tuple_def / Call with > 1 args:
     each item on its own line at the inner indent, closing bracket at [cur] *)
  Definition block (cur : nat) (items : list bytes) : bytes :=
    match items with
    | [] => []
    | _ => [nl] ++ flat_map (fun i => spaces (cur + ind) ++ i ++ b "," ++ [nl]) items ++ spaces cur
    end.

  Definition join_with (sepr : bytes) (l : list bytes) : bytes :=
    match l with
    | [] => []
    | x :: r => x ++ flat_map (fun y => sepr ++ y) r
    end.

  (* [cur] = curr_indent at the time render_expr is entered *)
  Fixpoint pp_expr (cur : nat) (e : expr) {struct e} : bytes :=
    let fields (cur : nat) (fs : list (bytes * expr)) : bytes :=           (* render_tuple_def *)
      b "{" ++ block cur (map (fun kv => field_name (fst kv) ++ b " = " ++ pp_expr (cur + ind) (snd kv)) fs)
            ++ b "}" in
    match e with
    | ENull => b "NULL"
    | EBool v => if v then b "true" else b "false"
    | EInt z => dec_of_Z z
    | EFloat bits => float_text bits
    | EStr s => quoted s
    | ESym x => x
    | ETuple fs => fields cur fs
    | EList es => b "[" ++ block cur (map (pp_expr (cur + ind)) es) ++ b "]"     (* render_list_def *)
    | EBin o l r => pp_expr cur l ++ op_text o ++ pp_expr cur r
    | ENot e1 => b "not " ++ pp_expr cur e1
    | EGroup e1 => b "(" ++ pp_expr cur e1 ++ b ")"
    | ECopy t fs => pp_expr cur t ++ fields cur fs
    | ERange s st en =>
        pp_expr cur s ++ b ":" ++
        match st with Some x => pp_expr cur x ++ b ":" | None => [] end ++ pp_expr cur en
    | EFormatL parts args =>
        quoted (flat_map (pp_tpart cur) parts) ++ b " % " ++ b "(" ++ [nl] ++
        join_with (b "," ++ [nl]) (map (fun a => spaces (cur + ind) ++ pp_expr (cur + ind) a) args) ++ b ")"
    | EFormatS parts a =>
        quoted (flat_map (pp_tpart cur) parts) ++ b " % " ++ pp_expr cur a
    | ECall f args =>
        pp_expr cur f ++ b "(" ++
        match args with
        | _ :: _ :: _ => block cur (map (pp_expr (cur + ind)) args)
        | _ => flat_map (pp_expr (cur + ind)) args           (* 0 or 1 argument, inline *)
        end ++ b ")"
    | ECast c e1 => cast_text c ++ b "(" ++ pp_expr cur e1 ++ b ")"
    | EFunc ps body => b "func (" ++ join_with (b ", ") ps ++ b ") => " ++ pp_expr cur body
    | ESelect v d arms =>
        b "select (" ++ pp_expr cur v ++
        match d with Some x => b ", " ++ pp_expr cur x | None => [] end ++ b ") => " ++ fields cur arms
    | EMap f t => b "map(" ++ pp_expr cur f ++ b ", " ++ pp_expr cur t ++ b ")"
    | EFilter f t => b "filter(" ++ pp_expr cur f ++ b ", " ++ pp_expr cur t ++ b ")"
    | EReduce f a t => b "reduce(" ++ pp_expr cur f ++ b ", " ++ pp_expr cur a ++ b ", " ++ pp_expr cur t ++ b ")"
    | EModule ps out body =>
        b "module " ++ fields cur ps ++ b " => " ++
        match out with Some x => b "(" ++ pp_expr cur x ++ b ") " | None => [] end ++
        b "{" ++ [nl] ++
        (* for each statement: the indent is written first, then render_stmt writes its
           own prefix newline (for every statement but the first), then the statement *)
        match body with
        | [] => []
        | s :: rest =>
            spaces (cur + ind) ++ pp_stmt (cur + ind) s ++
            flat_map (fun s' => spaces (cur + ind) ++ [nl] ++ pp_stmt (cur + ind) s') rest
        end ++ b "}"
    | EFail e1 => b "fail " ++ pp_expr cur e1
    | ETrace e1 => b "TRACE " ++ pp_expr cur e1
    | EImport p => b "import " ++ quoted p
    | EInclude t p => b "include " ++ t ++ b " " ++ quoted p
    | EConvert t e1 => b "convert " ++ t ++ b " " ++ pp_expr cur e1
    end
  (* the text of one template part BEFORE escape_quotes is applied to the whole template *)
  with pp_tpart (cur : nat) (p : tpart) {struct p} : bytes :=
    match p with
    | PStr s => tmpl_escape s
    | PHole => [at_sign]
    | PExpr e => at_sign :: b "{" ++ pp_expr 0 e ++ b "}"
    end
  (* render_stmt without its prefix newline; ends with ";\n" *)
  with pp_stmt (cur : nat) (s : stmt) {struct s} : bytes :=
    match s with
    | SLet x e => b "let " ++ x ++ b " = " ++ pp_expr cur e
    | SExpr e => pp_expr cur e
    | SAssert e => b "assert " ++ pp_expr cur e
    | SOut t e => b "out " ++ t ++ b " " ++ pp_expr cur e
    end ++ b ";" ++ [nl].

  Definition unparse_template (parts : list tpart) : bytes := flat_map (pp_tpart 0) parts.

  (* AstPrinter::render on a comment-free program *)
  Definition pp_prog (p : list stmt) : bytes := join_with [nl] (map (pp_stmt 0) p).
End Printer.

(* ENTRY POINT: pp_stmts indent program = the bytes `ucg fmt --indent=<indent>` writes *)
Definition pp_stmts (indent : nat) (p : list stmt) : bytes := pp_prog indent p.
Definition pp (indent : nat) (e : expr) : bytes := pp_expr indent 0 e.

(* ================================================================== *)
(** * B. The comment scheduler                                         *)
(* ================================================================== *)

(* CommentMap = BTreeMap<line of the group's LAST comment, fragments of the group> *)
Definition comment_group := list bytes.
Definition comment_map := list (N * comment_group).      (* BTreeMap iteration order: ascending keys *)

(* tokenizer::tokenize with Some(comment_map): consecutive COMMENT tokens form a
   group; ANY other token (white space included -- so an indented comment line
   starts a new group, while a comment that directly follows another one, or a
   trailing comment followed by a comment line at column 1, continues it) closes
   the group, which is stored under the line of its last comment.  The END token
   of [lex_all] plays the role of the final insert after the loop. *)
Definition close_group (grp : list token) : comment_map :=
  match rev grp with
  | [] => []
  | t :: _ => [(line t, map frag grp)]
  end.

Fixpoint build_map (toks : list token) (grp : list token) : comment_map :=
  match toks with
  | [] => close_group grp
  | t :: r =>
      match typ t with
      | COMMENT => build_map r (grp ++ [t])
      | _ => close_group grp ++ build_map r []
      end
  end.

Definition comment_map_of (src : bytes) : option comment_map :=
  option_map (fun toks => build_map toks []) (lex_all src).

(* printer state as far as comments are concerned.
   [pending] = comment_group_lines read from its END (the Vec is the reversed key
   list and is used as a stack: last() / pop()), paired with map.get(line);
   [emitted] is a ghost log of the groups printed so far, in order. *)
Record sched := {
  pending : comment_map;
  last_line : N;                 (* written by render_comment_if_needed / render_stmt, never read *)
  emitted : comment_map;
}.

Definition sched_init (m : comment_map) : sched := {| pending := m; last_line := 0; emitted := [] |}.

(* char::is_whitespace / str::trim_end restricted to ASCII (U+0009..U+000D, U+0020);
   non-ASCII white space (U+0085, U+00A0, U+2028 ...) is NOT modelled *)
Definition is_ascii_ws (c : ascii) : bool :=
  let n := N_of_ascii c in ((N.leb 9 n && N.leb n 13) || N.eqb n 32)%bool.

Fixpoint trim_end (s : bytes) : bytes :=
  match s with
  | [] => []
  | c :: r => match trim_end r with
              | [] => if is_ascii_ws c then [] else [c]
              | r' => c :: r'
              end
  end.

(* one line of print_comment_group (with the blank-comment rule of commit a7f1c11:
   a fragment that is empty after trim_end is written as a bare `//`) *)
Definition comment_line (cur : nat) (frag : bytes) : bytes :=
  spaces cur ++ b "//" ++
  match trim_end frag with
  | [] => []
  | t =>
      match frag with
      | c :: _ => if is_ascii_ws c then [] else [sp]
      | [] => [sp]                                  (* unwrap_or('\0') is not white space *)
      end ++ t
  end ++ [nl].

Definition print_comment_group (cur : nat) (g : comment_group) : bytes :=
  flat_map (comment_line cur) g.

(* has_comment(line): next pending group strictly above [line] *)
Definition has_comment (st : sched) (ln : N) : bool :=
  match pending st with (k, _) :: _ => N.ltb k ln | [] => false end.

(* render_missed_comments(line): returns the bytes written and the new state.
   Structural recursion on the pending list plays the role of the loop. *)
Fixpoint missed (cur : nat) (ln : N) (pend : comment_map) : bytes * comment_map * comment_map :=
  match pend with
  | [] => ([], [], [])
  | (k, g) :: rest =>
      if N.leb k ln then
        let '(out, done, rest') := missed cur ln rest in
        (print_comment_group cur g ++ (if N.ltb k (ln - 1) then [nl] else []) ++ out,
         (k, g) :: done, rest')
      else ([], [], pend)
  end.

Definition render_missed_comments (cur : nat) (ln : N) (st : sched) : bytes * sched :=
  let '(out, done, rest) := missed cur ln (pending st) in
  (out, {| pending := rest; last_line := last_line st; emitted := emitted st ++ done |}).

Definition render_comment_if_needed (cur : nat) (ln : N) (st : sched) : bytes * sched :=
  let (out, st') := render_missed_comments cur ln st in
  (out, {| pending := pending st'; last_line := ln; emitted := emitted st' |}).

(* the calls the render arms make, as data *)
Inductive call :=
| CIfNeeded (cur : nat) (ln : N)      (* render_comment_if_needed(line) at curr_indent cur *)
| CMissed (cur : nat) (ln : N)        (* render_missed_comments(line) *)
| CSetLast (ln : N).                  (* self.last_line = line at the end of render_stmt *)

Definition step (st : sched) (c : call) : bytes * sched :=
  match c with
  | CIfNeeded cur ln => render_comment_if_needed cur ln st
  | CMissed cur ln => render_missed_comments cur ln st
  | CSetLast ln => ([], {| pending := pending st; last_line := ln; emitted := emitted st |})
  end.

Fixpoint run_calls (st : sched) (cs : list call) : list bytes * sched :=
  match cs with
  | [] => ([], st)
  | c :: cs' => let (o, st1) := step st c in let (os, st2) := run_calls st1 cs' in (o :: os, st2)
  end.

(* the tail of `render`: comment_group_lines.first() is the LARGEST key still
   on the stack (the bottom of the reversed Vec), if any *)
Definition final_flush (st : sched) : bytes * sched :=
  match last (map (fun kg => Some (fst kg)) (pending st)) None with
  | Some k => render_missed_comments 0 (k + 1) st
  | None => ([], st)
  end.

Definition run_render (m : comment_map) (cs : list call) : list bytes * bytes * sched :=
  let (os, st) := run_calls (sched_init m) cs in
  let (o, st') := final_flush st in (os, o, st').

(* The top-level walk of `render` for a program whose statements are all single
   line and comment free inside: statement i (text t_i, on line l_i of the
   source) is printed after the groups up to its line.  This is the fragment the
   fixed-point clause of the property talks about. *)
Fixpoint render_top (first : bool) (st : sched) (stmts : list (N * bytes)) : bytes * sched :=
  match stmts with
  | [] => ([], st)
  | (ln, txt) :: rest =>
      let (c, st1) := render_comment_if_needed 0 ln st in
      let (o, st2) := render_top false st1 rest in
      ((if first then [] else [nl]) ++ c ++ txt ++ o, st2)
  end.

Definition render_with_comments (m : comment_map) (stmts : list (N * bytes)) : bytes :=
  let (o, st) := render_top true (sched_init m) stmts in
  let (f, _) := final_flush st in o ++ f.

(* ================================================================== *)
(** * C. token view of a small fragment                                *)
(* ================================================================== *)

(* position-free tokens, as in Lex_Lemmas.tk *)
Definition ptok := (ttype * bytes)%type.

Definition op_tok (o : op) : ptok :=
  match o with
  | IN => (BAREWORD, b "in") | IS => (BAREWORD, b "is")
  | AND => (PUNCT, b "&&") | OR => (PUNCT, b "||") | DOT => (PUNCT, b ".")
  | Equal => (PUNCT, b "==") | NotEqual => (PUNCT, b "!=") | GTEqual => (PUNCT, b ">=")
  | LTEqual => (PUNCT, b "<=") | GT => (PUNCT, b ">") | LT => (PUNCT, b "<")
  | Add => (PUNCT, b "+") | Sub => (PUNCT, b "-") | Mul => (PUNCT, b "*") | Div => (PUNCT, b "/")
  | Mod => (PUNCT, b "%%") | REMatch => (PUNCT, b "~") | NotREMatch => (PUNCT, b "!~")
  end.

Definition name_tok (k : bytes) : ptok :=
  if is_bareword k then
    (if (bytes_eqb k (b "true") || bytes_eqb k (b "false"))%bool then (BOOLEAN, k) else (BAREWORD, k))
  else (QUOTED, k).

(* the fragment: NULL, booleans, non-negative integers, strings, symbols, lists,
   tuples, groups and binary chains over them (no DOT: see Print_Lemmas) *)
Fixpoint in_frag (e : expr) : bool :=
  match e with
  | ENull | EBool _ | EStr _ => true
  | EInt z => (0 <=? z)%Z
  | ESym x => true
  | EList es => forallb in_frag es
  | ETuple fs => forallb (fun kv => in_frag (snd kv)) fs
  | EGroup e1 => in_frag e1
  | EBin o l r => (in_frag l && in_frag r)%bool
  | _ => false
  end.

Fixpoint toks (e : expr) : list ptok :=
  match e with
  | ENull => [(EMPTY, b "NULL")]
  | EBool v => [(BOOLEAN, if v then b "true" else b "false")]
  | EInt z => [(DIGIT, dec_of_Z z)]
  | EStr s => [(QUOTED, s)]
  | ESym x => [(BAREWORD, x)]
  | EList es => (PUNCT, b "[") :: flat_map (fun e1 => toks e1 ++ [(PUNCT, b ",")]) es ++ [(PUNCT, b "]")]
  | ETuple fs =>
      (PUNCT, b "{") ::
      flat_map (fun kv => name_tok (fst kv) :: (PUNCT, b "=") :: toks (snd kv) ++ [(PUNCT, b ",")]) fs
      ++ [(PUNCT, b "}")]
  | EGroup e1 => (PUNCT, b "(") :: toks e1 ++ [(PUNCT, b ")")]
  | EBin o l r => toks l ++ op_tok o :: toks r
  | _ => []
  end.
