(* Infrastructure for the compile-correctness proof: fuel monotonicity of the VM, the
   "reaches"/"errs" relations between machine states, code-in-context, single-step lemmas. *)
From Ucg Require Import base.Bytes_Lemmas.
From Ucg Require Export vm.Vm.

Ltac fuel_contra :=
  exfalso; cbn in *;
  match goal with Ho : ?o <> VFuel, H : VFuel = ?o |- _ => apply Ho; symmetry; exact H end.

Section Base.
  Variable fo : float_ops.
  Variable C : ops.
  Variable strict_ : bool.
  Variable envv : list (bytes * bytes).

  Notation wval := (wval fo).
  Notation state := (state fo).
  Notation run := (vm_run fo C strict_ envv).
  Notation exec := (exec_instr fo C strict_ envv).

  Definition mk (n : nat) (s : list wval) (t : symtab fo) (ss : list wval) : state :=
    {| pc := n; stk := s; syms := t; selfs := ss |}.

  (* ---------------- monotonicity in the run function ---------------- *)
  Definition le_run (r1 r2 : state -> outcome state) : Prop :=
    forall st o, r1 st = o -> o <> VFuel -> r2 st = o.

  Section Mono.
    Variables r1 r2 : state -> outcome state.
    Hypothesis Hle : le_run r1 r2.

    Lemma fcall_impl_mono ptr bs snap s o :
      fcall_impl fo r1 ptr bs snap s = o -> o <> VFuel -> fcall_impl fo r2 ptr bs snap s = o.
    Proof.
      unfold fcall_impl. intros H Ho.
      destruct (bind_args fo bs s snap) as [[s' t]| | | |]; cbn in *; auto.
      destruct (r1 _) as [fin| | | |] eqn:E1.
      - rewrite (Hle _ _ E1) by discriminate. exact H.
      - rewrite (Hle _ _ E1) by discriminate. exact H.
      - rewrite (Hle _ _ E1) by discriminate. exact H.
      - rewrite (Hle _ _ E1) by discriminate. exact H.
      - cbn in H. congruence.
    Qed.

    Ltac loop_mono IH :=
      intros H Ho; cbn in *; unfold call_with in *;
      match type of H with
      | vbind (fcall_impl _ _ ?p ?b ?sn ?s) _ = _ =>
        destruct (fcall_impl fo r1 p b sn s) as [[r s1]| | | |] eqn:E;
        [ rewrite (fcall_impl_mono _ _ _ _ _ E) by discriminate
        | rewrite (fcall_impl_mono _ _ _ _ _ E) by discriminate; exact H
        | rewrite (fcall_impl_mono _ _ _ _ _ E) by discriminate; exact H
        | rewrite (fcall_impl_mono _ _ _ _ _ E) by discriminate; exact H
        | fuel_contra ]
      end.

    Lemma map_list_mono ptr bs snap l : forall s o,
      map_list fo r1 ptr bs snap l s = o -> o <> VFuel -> map_list fo r2 ptr bs snap l s = o.
    Proof.
      induction l as [|e l IH]; intros s o; [cbn; auto|].
      loop_mono IH. cbn in *.
      destruct (map_list fo r1 ptr bs snap l s1) as [[rs s2]| | | |] eqn:E2;
        try (rewrite (IH _ _ E2) by discriminate; exact H). fuel_contra.
    Qed.

    Lemma map_tuple_mono ptr bs snap l : forall s o,
      map_tuple fo r1 ptr bs snap l s = o -> o <> VFuel -> map_tuple fo r2 ptr bs snap l s = o.
    Proof.
      induction l as [|[k v] l IH]; intros s o; [cbn; auto|].
      loop_mono IH. cbn in *.
      destruct r; auto.
      destruct l0 as [|n [|v' [|]]]; auto. destruct n; auto.
      destruct (map_tuple fo r1 ptr bs snap l s1) as [[rs s2]| | | |] eqn:E2;
        try (rewrite (IH _ _ E2) by discriminate; exact H). fuel_contra.
    Qed.

    Lemma map_str_mono ptr bs snap l : forall s o,
      map_str fo r1 ptr bs snap l s = o -> o <> VFuel -> map_str fo r2 ptr bs snap l s = o.
    Proof.
      induction l as [|e l IH]; intros s o; [cbn; auto|].
      loop_mono IH. cbn in *.
      destruct r; auto.
      destruct (map_str fo r1 ptr bs snap l s1) as [[rs s2]| | | |] eqn:E2;
        try (rewrite (IH _ _ E2) by discriminate; exact H). fuel_contra.
    Qed.

    Lemma filter_list_mono ptr bs snap l : forall s o,
      filter_list fo r1 ptr bs snap l s = o -> o <> VFuel -> filter_list fo r2 ptr bs snap l s = o.
    Proof.
      induction l as [|e l IH]; intros s o; [cbn; auto|].
      loop_mono IH. cbn in *.
      destruct (filter_list fo r1 ptr bs snap l s1) as [[rs s2]| | | |] eqn:E2;
        try (rewrite (IH _ _ E2) by discriminate; exact H). fuel_contra.
    Qed.

    Lemma filter_tuple_mono ptr bs snap l : forall s o,
      filter_tuple fo r1 ptr bs snap l s = o -> o <> VFuel -> filter_tuple fo r2 ptr bs snap l s = o.
    Proof.
      induction l as [|[k v] l IH]; intros s o; [cbn; auto|].
      loop_mono IH. cbn in *.
      destruct (filter_tuple fo r1 ptr bs snap l s1) as [[rs s2]| | | |] eqn:E2;
        try (rewrite (IH _ _ E2) by discriminate; exact H). fuel_contra.
    Qed.

    Lemma filter_str_mono ptr bs snap l : forall s o,
      filter_str fo r1 ptr bs snap l s = o -> o <> VFuel -> filter_str fo r2 ptr bs snap l s = o.
    Proof.
      induction l as [|e l IH]; intros s o; [cbn; auto|].
      loop_mono IH. cbn in *.
      destruct (filter_str fo r1 ptr bs snap l s1) as [[rs s2]| | | |] eqn:E2;
        try (rewrite (IH _ _ E2) by discriminate; exact H). fuel_contra.
    Qed.

    Lemma reduce_list_mono ptr bs snap l : forall acc s o,
      reduce_list fo r1 ptr bs snap l acc s = o -> o <> VFuel -> reduce_list fo r2 ptr bs snap l acc s = o.
    Proof.
      induction l as [|e l IH]; intros acc s o; [cbn; auto|].
      loop_mono IH. cbn in *. apply IH; auto.
    Qed.

    Lemma reduce_tuple_mono ptr bs snap l : forall acc s o,
      reduce_tuple fo r1 ptr bs snap l acc s = o -> o <> VFuel -> reduce_tuple fo r2 ptr bs snap l acc s = o.
    Proof.
      induction l as [|[k v] l IH]; intros acc s o; [cbn; auto|].
      loop_mono IH. cbn in *. apply IH; auto.
    Qed.

    Lemma reduce_str_mono ptr bs snap l : forall acc s o,
      reduce_str fo r1 ptr bs snap l acc s = o -> o <> VFuel -> reduce_str fo r2 ptr bs snap l acc s = o.
    Proof.
      induction l as [|e l IH]; intros acc s o; [cbn; auto|].
      loop_mono IH. cbn in *. apply IH; auto.
    Qed.

    Ltac run_mono :=
      match goal with
      | H : vbind (r1 ?x) _ = _ |- _ =>
        let E := fresh "E" in
        destruct (r1 x) eqn:E;
        [ rewrite (Hle _ _ E) by discriminate
        | rewrite (Hle _ _ E) by discriminate; exact H
        | rewrite (Hle _ _ E) by discriminate; exact H
        | rewrite (Hle _ _ E) by discriminate; exact H
        | fuel_contra ]; cbn in *
      end.

    Lemma exec_mono i st o : exec r1 i st = o -> o <> VFuel -> exec r2 i st = o.
    Proof.
      intros H Ho.
      destruct i; try exact H.
      - (* INewScope *)
        cbn in *. unfold op_new_scope in *. run_mono. exact H.
      - (* ICp *)
        cbn in *. unfold op_copy in *.
        destruct (pop fo (stk st)) as [[ov s1]| | | |]; cbn in *; auto.
        destruct (pop fo s1) as [[tgt s2]| | | |]; cbn in *; auto.
        destruct ov; auto. destruct tgt; auto.
        destruct (wmerge_fields flds fs) as [f1| | | |]; cbn in *; auto.
        destruct (wmerge_field f1 _ _) as [f2| | | |]; cbn in *; auto.
        run_mono. destruct result_ptr; auto.
        match type of H with (if ?c then _ else _) = _ => destruct c end; auto. run_mono. exact H.
      - (* IFCall *)
        cbn in *. unfold op_fcall in *.
        destruct (pop fo (stk st)) as [[f s1]| | | |]; cbn in *; auto.
        destruct (pop fo s1) as [[al s2]| | | |]; cbn in *; auto.
        destruct f; auto.
        match type of H with vbind ?a _ = _ => destruct a; cbn in *; auto end.
        destruct (fcall_impl fo r1 ptr bindings snap s2) as [[v s3]| | | |] eqn:E;
          try (rewrite (fcall_impl_mono _ _ _ _ _ E) by discriminate; exact H).
        fuel_contra.
      - (* IRuntime *)
        cbn in *. unfold op_runtime in *. destruct h; try exact H.
        + unfold hook_map in *. destruct (stk st) as [|t [|fp s]]; auto.
          destruct fp; auto. destruct t; auto.
          * destruct (arity_ok bindings 1); cbn in *; auto.
            destruct (map_str fo r1 ptr bindings snap _ s) as [[rs s']| | | |] eqn:E;
              try (rewrite (map_str_mono _ _ _ _ _ _ E) by discriminate; exact H). fuel_contra.
          * destruct (arity_ok bindings 1); cbn in *; auto.
            destruct (map_list fo r1 ptr bindings snap _ s) as [[rs s']| | | |] eqn:E;
              try (rewrite (map_list_mono _ _ _ _ _ _ E) by discriminate; exact H). fuel_contra.
          * destruct (arity_ok bindings 2); cbn in *; auto.
            destruct (map_tuple fo r1 ptr bindings snap _ s) as [[rs s']| | | |] eqn:E;
              try (rewrite (map_tuple_mono _ _ _ _ _ _ E) by discriminate; exact H). fuel_contra.
        + unfold hook_filter in *. destruct (stk st) as [|t [|fp s]]; auto.
          destruct fp; auto. destruct t; auto.
          * destruct (arity_ok bindings 1); cbn in *; auto.
            destruct (filter_str fo r1 ptr bindings snap _ s) as [[rs s']| | | |] eqn:E;
              try (rewrite (filter_str_mono _ _ _ _ _ _ E) by discriminate; exact H). fuel_contra.
          * destruct (arity_ok bindings 1); cbn in *; auto.
            destruct (filter_list fo r1 ptr bindings snap _ s) as [[rs s']| | | |] eqn:E;
              try (rewrite (filter_list_mono _ _ _ _ _ _ E) by discriminate; exact H). fuel_contra.
          * destruct (arity_ok bindings 2); cbn in *; auto.
            destruct (filter_tuple fo r1 ptr bindings snap _ s) as [[rs s']| | | |] eqn:E;
              try (rewrite (filter_tuple_mono _ _ _ _ _ _ E) by discriminate; exact H). fuel_contra.
        + unfold hook_reduce in *. destruct (stk st) as [|t [|acc [|fp s]]]; auto.
          destruct fp; auto. destruct t; auto.
          * destruct (arity_ok bindings 2); cbn in *; auto.
            destruct (reduce_str fo r1 ptr bindings snap _ acc s) as [[rs s']| | | |] eqn:E;
              try (rewrite (reduce_str_mono _ _ _ _ _ _ _ E) by discriminate; exact H). fuel_contra.
          * destruct (arity_ok bindings 2); cbn in *; auto.
            destruct (reduce_list fo r1 ptr bindings snap _ acc s) as [[rs s']| | | |] eqn:E;
              try (rewrite (reduce_list_mono _ _ _ _ _ _ _ E) by discriminate; exact H). fuel_contra.
          * destruct (arity_ok bindings 3); cbn in *; auto.
            destruct (reduce_tuple fo r1 ptr bindings snap _ acc s) as [[rs s']| | | |] eqn:E;
              try (rewrite (reduce_tuple_mono _ _ _ _ _ _ _ E) by discriminate; exact H). fuel_contra.
    Qed.
  End Mono.

  Lemma run_mono_S : forall f, le_run (run f) (run (S f)).
  Proof.
    induction f as [|f IH]; intros st o H Ho.
    - fuel_contra.
    - cbn [vm_run] in H. change (vm_run fo C strict_ envv (S (S f)) st) with
        (match nth_error C (pc st) with
         | None => VOk st
         | Some IReturn => VOk st
         | Some i => vdo st' <- exec (run (S f)) i st; run (S f) st'
         end).
      destruct (nth_error C (pc st)) as [i|]; auto.
      assert (Hgen : (vdo st' <- exec (run f) i st; run f st') = o ->
                     (vdo st' <- exec (run (S f)) i st; run (S f) st') = o).
      { intros H'. destruct (exec (run f) i st) as [st'| | | |] eqn:E.
        - rewrite (exec_mono _ _ IH _ _ _ E) by discriminate. cbn in *. apply IH; auto.
        - rewrite (exec_mono _ _ IH _ _ _ E) by discriminate. exact H'.
        - rewrite (exec_mono _ _ IH _ _ _ E) by discriminate. exact H'.
        - rewrite (exec_mono _ _ IH _ _ _ E) by discriminate. exact H'.
        - fuel_contra. }
      destruct i; auto.
  Qed.

  Lemma run_mono : forall f f' st o, run f st = o -> o <> VFuel -> f <= f' -> run f' st = o.
  Proof.
    intros f f' st o H Ho Hle. induction Hle; auto. apply run_mono_S; auto.
  Qed.

  (* ---------------- reaches / errs ---------------- *)
  Definition reaches (st st' : state) : Prop :=
    forall k o, run k st' = o -> o <> VFuel -> exists k', run k' st = o.
  Definition errs (st : state) : Prop := exists k, run k st = VErr.
  (* a nested run started in [st] comes back with final state [st'] *)
  Definition returns (st st' : state) : Prop := exists k0, forall k, k0 <= k -> run k st = VOk st'.

  Lemma reaches_refl st : reaches st st.
  Proof. intros k o H _. eauto. Qed.

  Lemma reaches_trans st1 st2 st3 : reaches st1 st2 -> reaches st2 st3 -> reaches st1 st3.
  Proof.
    intros H12 H23 k o H Ho. destruct (H23 _ _ H Ho) as (k2 & H2). eapply H12; eauto.
  Qed.

  Lemma reaches_errs st1 st2 : reaches st1 st2 -> errs st2 -> errs st1.
  Proof. intros H12 (k & Hk). eapply H12; eauto. discriminate. Qed.

  Lemma reaches_eq st st1 st2 : reaches st st1 -> st1 = st2 -> reaches st st2.
  Proof. intros; subst; auto. Qed.

  Definition at_return (st : state) : Prop :=
    nth_error C (pc st) = Some IReturn \/ nth_error C (pc st) = None.

  Lemma reaches_returns st st' : reaches st st' -> at_return st' -> returns st st'.
  Proof.
    intros H Hr.
    assert (H1 : run 1 st' = VOk st').
    { cbn. destruct Hr as [-> | ->]; reflexivity. }
    destruct (H _ _ H1 ltac:(discriminate)) as (k0 & Hk0).
    exists k0. intros k Hk. eapply run_mono; eauto. discriminate.
  Qed.

  Lemma run_S st i f : nth_error C (pc st) = Some i -> i <> IReturn ->
    run (S f) st = vdo st' <- exec (run f) i st; run f st'.
  Proof. intros H Hi. cbn. rewrite H. destruct i; congruence. Qed.

  Lemma step_ok st st1 i :
    nth_error C (pc st) = Some i -> i <> IReturn ->
    (exists k0, forall k, k0 <= k -> exec (run k) i st = VOk st1) ->
    reaches st st1.
  Proof.
    intros Hf Hi (k0 & Hk0) k o H Ho.
    exists (S (Nat.max k k0)). rewrite (run_S _ _ _ Hf Hi).
    rewrite Hk0 by lia. cbn. eapply run_mono; eauto. lia.
  Qed.

  Lemma step_err st i :
    nth_error C (pc st) = Some i -> i <> IReturn ->
    (exists k, exec (run k) i st = VErr) -> errs st.
  Proof.
    intros Hf Hi (k & Hk). exists (S k). rewrite (run_S _ _ _ Hf Hi). rewrite Hk. reflexivity.
  Qed.

  (* simple ops: the handler does not look at the run function *)
  Lemma step_simple st st1 i :
    nth_error C (pc st) = Some i -> i <> IReturn ->
    (forall r, exec r i st = VOk st1) -> reaches st st1.
  Proof. intros Hf Hi H; eapply step_ok; [exact Hf|exact Hi|]. exists 0; intros; apply H. Qed.

  Lemma step_simple_err st i :
    nth_error C (pc st) = Some i -> i <> IReturn ->
    (forall r, exec r i st = VErr) -> errs st.
  Proof. intros Hf Hi H; eapply step_err; [exact Hf|exact Hi|]. exists 0; apply H. Qed.

  (* ---------------- code in context ---------------- *)
  Definition code_at (n : nat) (c : ops) : Prop :=
    forall k i, nth_error c k = Some i -> nth_error C (n + k) = Some i.

  Lemma code_at_app n a c : code_at n (a ++ c) -> code_at n a /\ code_at (n + List.length a) c.
  Proof.
    intros H; split; intros k i Hk.
    - apply H. rewrite nth_error_app1; auto. apply nth_error_Some. congruence.
    - replace (n + List.length a + k) with (n + (List.length a + k)) by lia. apply H.
      rewrite nth_error_app2 by lia. replace (List.length a + k - List.length a) with k by lia. auto.
  Qed.

  Lemma code_at_cons n i c : code_at n (i :: c) -> nth_error C n = Some i /\ code_at (S n) c.
  Proof.
    intros H; split.
    - specialize (H 0 i eq_refl). now rewrite Nat.add_0_r in H.
    - intros k j Hk. replace (S n + k) with (n + S k) by lia. apply H. exact Hk.
  Qed.

  Lemma code_at_lt n c k : code_at n c -> k < List.length c -> n + k < List.length C.
  Proof.
    intros H Hk. destruct (nth_error c k) as [i|] eqn:E.
    - apply nth_error_Some. rewrite (H _ _ E). discriminate.
    - apply nth_error_None in E. lia.
  Qed.

  Lemma code_at_eq n n' c : code_at n c -> n = n' -> code_at n' c.
  Proof. intros; subst; auto. Qed.
End Base.
