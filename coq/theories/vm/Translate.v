(* M-TRANSLATE: model of src/build/opcode/translate.rs (AST -> opcodes, relative jumps).
   Executable definitions only.  The jump operands are computed from code lengths exactly as the
   source patches its Noop placeholders:  an op at index i with operand j continues at i + j + 1. *)
From Ucg Require Export vm.Ops.

Section Helpers.
  Variable A : Type.
  Variable f : A -> ops.
  Fixpoint cat_map (l : list A) : ops :=
    match l with [] => [] | a :: l' => f a ++ cat_map l' end.
End Helpers.
Arguments cat_map {A}.

(* Select arms: [Sym k; SelectJump (|e|+1)] ++ e ++ [Jump J] ... [Pop] ++ D, every J landing on the
   last op of D *)
Fixpoint sel_arms (arms : list (bytes * ops)) (dflt : ops) : ops :=
  match arms with
  | [] => IPop :: dflt
  | (k, c) :: arms' =>
    let rest := sel_arms arms' dflt in
    ISym k :: ISelectJump (S (List.length c)) :: c ++ IJump (List.length rest) :: rest
  end.

(* template parts, already reversed: the first one alone, every later one followed by Add *)
Definition join_parts (codes : list ops) : ops :=
  match codes with
  | [] => [IVal (LStr [])]
  | c :: cs => c ++ cat_map (fun c => c ++ [IAdd]) cs
  end.

(* the list form: walk the reversed parts, taking argument codes from the reversed argument list *)
Fixpoint list_parts (parts : list tpart) (args : list ops) : list ops :=
  match parts with
  | [] => []
  | PStr s :: ps => [IVal (LStr s)] :: list_parts ps args
  | PHole :: ps => match args with
                   | a :: args' => (a ++ [IRender]) :: list_parts ps args'
                   | [] => [ITranslatorPanic] :: list_parts ps []       (* elems.next().unwrap() *)
                   end
  | PExpr _ :: ps => [ITranslatorPanic] :: list_parts ps args            (* unreachable!() *)
  end.

Definition count_holes (parts : list tpart) : nat :=
  List.length (filter (fun p => match p with PHole => true | _ => false end) parts).

Local Open Scope string_scope.
Definition fmt_count_msg (holes nargs : nat) : bytes :=
  (b "Format string has " ++ dec_Z (Z.of_nat holes) ++ b " placeholders but " ++ dec_Z (Z.of_nat nargs)
    ++ b " arguments were given")%list.
Definition no_default_msg : bytes := b "Unhandled select case with no default".
Definition user_defined_msg : bytes := b "UserDefined: ".
(* the text TRACE prints is the pretty-printed expression (ast/printer); it only reaches stderr,
   the model uses a fixed placeholder *)
Definition trace_text : bytes := b "<expr>".
Local Close Scope string_scope.

Definition copy_code (flds : ops) : ops := IPushSelf :: IInitTuple :: flds ++ [ICp; IPopSelf].

Fixpoint tr (e : expr) : ops :=
  let fields (fs : list (bytes * expr)) : ops :=
      cat_map (fun kv => let '(k, e) := kv in ISym k :: tr e ++ [IField]) fs in
  match e with
  | ENull => [IVal LEmpty]
  | EBool v => [IVal (LBool v)]
  | EInt z => [IVal (LInt z)]
  | EFloat bits => [IVal (LFloat bits)]
  | EStr s => [IVal (LStr s)]
  | ESym x => [IDeRef x]
  | ETuple fs => IInitTuple :: fields fs
  | EList es => IInitList :: cat_map (fun e => tr e ++ [IElement]) es
  | EGroup e1 => tr e1
  | ENot e1 => tr e1 ++ [INot]
  | EBin o l r =>
    match o with
    | Add => tr r ++ tr l ++ [IAdd]
    | Sub => tr r ++ tr l ++ [ISub]
    | Mul => tr r ++ tr l ++ [IMul]
    | Div => tr r ++ tr l ++ [IDiv]
    | Mod => tr r ++ tr l ++ [IMod]
    | Equal => tr r ++ tr l ++ [IEqual]
    | GT => tr r ++ tr l ++ [IGt]
    | LT => tr r ++ tr l ++ [ILt]
    | GTEqual => tr r ++ tr l ++ [IGtEq]
    | LTEqual => tr r ++ tr l ++ [ILtEq]
    | NotEqual => tr r ++ tr l ++ [IEqual; INot]
    | REMatch => tr r ++ tr l ++ [IRuntime HRegex]
    | NotREMatch => tr r ++ tr l ++ [IRuntime HRegex; INot]
    | IS => tr r ++ tr l ++ [ITyp; IEqual]
    | AND => let cr := tr r in tr l ++ IAnd (List.length cr) :: cr
    | OR => let cr := tr r in tr l ++ IOr (List.length cr) :: cr
    | IN =>
      match l with
      | ESym x =>
        (* select (r is "tuple", x) => { true = "x" }  -- r is translated a second time *)
        tr r ++ (IVal (LStr (b "tuple")) :: tr r ++
                 [ITyp; IEqual; ISym (b "true"); ISelectJump 2; IVal (LStr x); IJump 2; IPop; IDeRef x])
             ++ [IExist]
      | _ => tr r ++ tr l ++ [IExist]
      end
    | DOT =>
      match r with
      | ECopy sel fs =>
        match sel with
        | ESym k | EStr k => tr l ++ IVal (LStr k) :: IIndex :: copy_code (fields fs)
        | EInt k => tr l ++ IVal (LInt k) :: IIndex :: copy_code (fields fs)
        | _ => [ITranslatorPanic]
        end
      | ECall fn args =>
        let pre := cat_map tr args ++ IVal (LInt (Z.of_nat (List.length args))) :: tr l in
        match fn with
        | ESym k | EStr k => pre ++ [IVal (LStr k); IIndex; IFCall]
        | EInt k => pre ++ [IVal (LInt k); IIndex; IFCall]
        | _ => [ITranslatorPanic]
        end
      | ESym k => tr l ++ [IVal (LStr k); IIndex]
      | _ => tr l ++ tr r ++ [IIndex]
      end
    end
  | ECopy t fs => tr t ++ copy_code (fields fs)
  | ERange st stp en =>
    tr en ++ (match stp with Some s => tr s | None => [IVal LEmpty] end) ++ tr st ++ [IRuntime HRange]
  | EFormatL parts args =>
    if negb (Nat.eqb (count_holes parts) (List.length args))
    then [IVal (LStr (fmt_count_msg (count_holes parts) (List.length args))); IBang]
    else match parts with
         | [] => [IVal (LStr [])]
         | _ => join_parts (list_parts (rev parts) (rev (map tr args)))
         end
  | EFormatS parts arg =>
    let codes := map (fun p => match p with
                               | PStr s => [IVal (LStr s)]
                               | PHole => [ITranslatorPanic]
                               | PExpr pe => tr pe ++ [IRender]
                               end) parts in
    let body := ISym (b "item") :: tr arg ++ IBindOver :: join_parts (rev codes) ++ [IReturn] in
    INewScope (List.length body) :: body
  | ECall fn args =>
    cat_map tr args ++ IVal (LInt (Z.of_nat (List.length args))) :: tr fn ++ [IFCall]
  | ECast ct e1 => tr e1 ++ [ICast ct]
  | EFunc ps body =>
    let cb := tr body in
    IInitList :: cat_map (fun p => [ISym p; IElement]) ps ++ IFunc (S (List.length cb)) :: cb ++ [IReturn]
  | ESelect ve dflt arms =>
    let d := match dflt with
             | Some de => tr de
             | None => [IVal (LStr no_default_msg); IBang]
             end in
    tr ve ++ sel_arms (map (fun kv => let '(k, e) := kv in (k, tr e)) arms) d
  | EMap fe te => tr fe ++ tr te ++ [IRuntime HMap]
  | EFilter fe te => tr fe ++ tr te ++ [IRuntime HFilter]
  | EReduce fe ae te => tr fe ++ tr ae ++ tr te ++ [IRuntime HReduce]
  | EModule ps out body =>
    let thunk := match out with
                 | Some oe => let co := tr oe in IInitThunk (S (List.length co)) :: co ++ [IReturn]
                 | None => []
                 end in
    let cbody := IBind :: cat_map tr_stmt body ++ [IReturn] in
    IInitTuple :: fields ps ++ thunk ++ IModule (List.length cbody) :: cbody
  | EFail e1 => tr e1 ++ [IVal (LStr user_defined_msg); IAdd; IBang]
  | ETrace e1 => IVal (LStr trace_text) :: tr e1 ++ [IRuntime HTrace]
  | EImport path => [IVal (LStr path); IRuntime HImport]
  | EInclude typ path => [IVal (LStr typ); IVal (LStr path); IRuntime HInclude]
  | EConvert typ e1 => IVal (LStr typ) :: tr e1 ++ [IRuntime HConvert]
  end
with tr_stmt (s : stmt) : ops :=
  match s with
  | SLet x e => ISym x :: tr e ++ [IBind]
  | SExpr e => tr e ++ [IPop]
  | SAssert e => tr e ++ [IRuntime HAssert]
  | SOut typ e => IVal (LStr typ) :: tr e ++ [IRuntime HOut]
  end.

Definition tr_fields (fs : list (bytes * expr)) : ops :=
  cat_map (fun kv => let '(k, e) := kv in ISym k :: tr e ++ [IField]) fs.

Definition translate (p : prog) : ops := cat_map tr_stmt p.
