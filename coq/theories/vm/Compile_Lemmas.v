(* Compile correctness: the simulation between the definitional evaluator (sem/Sem.v) and the
   VM model (vm/Vm.v) running the model translator's code (vm/Translate.v), "code in context". *)
From Ucg Require Import base.Bytes_Lemmas.
From Ucg Require Export vm.Compile_Eqs vm.Symtab_Lemmas.

Section Sim.
  Variable fo : float_ops.
  Variable C : ops.
  Variable strict_ : bool.
  Variable envv : list (bytes * bytes).

  Notation wval := (wval fo).
  Notation value := (value fo).
  Notation state := (state fo).
  Notation ctx := (ctx fo).
  Notation run := (vm_run fo C strict_ envv).
  Notation exec := (exec_instr fo C strict_ envv).
  Notation reaches := (reaches fo C strict_ envv).
  Notation errs := (errs fo C strict_ envv).
  Notation code_at := (code_at C).
  Notation val_rel := (val_rel fo C).
  Notation fld_rel := (fld_rel fo C).
  Notation scope_rel := (scope_rel fo C).
  Notation self_rel := (self_rel fo C).
  Notation mk := (mk fo).

  Definition ctx_ok (c : ctx) : Prop :=
    strict fo c = strict_ /\ envt fo c = envv /\ eq_ordered fo c = true.

  (* from [st0] the machine evaluates [r]: on Ok it reaches pc [tgt] with the value on top of
     [s]; on Err it stops with an error *)
  Definition simk {A} (R : A -> wval -> Prop) (st0 : state) (r : res A) (tgt : nat) (s : list wval)
             (t : symtab fo) (ss : list wval) : Prop :=
    match r with
    | Ok V => exists w, R V w /\ reaches st0 (mk tgt (w :: s) t ss)
    | Err => errs st0
    | _ => True
    end.

  Definition sim_e (f : nat) : Prop :=
    forall e c n s t ss,
      frag e = true -> ctx_ok c -> code_at n (tr e) -> scope_rel (sc fo c) t -> self_rel (self_v fo c) ss ->
      simk val_rel (mk n s t ss) (eval fo f c e) (n + List.length (tr e)) s t ss.

  Lemma simk_bind {A} (R : A -> wval -> Prop) st0 (r : res A) (k : A -> res value) n1 s1 tgt s t ss :
    simk R st0 r n1 s1 t ss ->
    (forall V w, R V w -> reaches st0 (mk n1 (w :: s1) t ss) -> simk val_rel st0 (k V) tgt s t ss) ->
    simk val_rel st0 (bind r k) tgt s t ss.
  Proof.
    intros H Hk. destruct r as [V| | |]; cbn in *; auto.
    destruct H as (w & Hw & Hr). eapply Hk; eauto.
  Qed.

  Lemma simk_from {A} (R : A -> wval -> Prop) st0 st1 (r : res A) tgt s t ss :
    reaches st0 st1 -> simk R st1 r tgt s t ss -> simk R st0 r tgt s t ss.
  Proof.
    intros H01 H. destruct r as [V| | |]; cbn in *; auto.
    - destruct H as (w & Hw & Hr). exists w; split; auto. eapply reaches_trans; eauto.
    - eapply reaches_errs; eauto.
  Qed.

  (* evaluate a sub-expression with the induction hypothesis, then continue *)
  Lemma simk_expr f (IH : sim_e f) st0 e c n s1 t ss (k : value -> res value) tgt s :
    frag e = true -> ctx_ok c -> code_at n (tr e) -> scope_rel (sc fo c) t -> self_rel (self_v fo c) ss ->
    reaches st0 (mk n s1 t ss) ->
    (forall V w, val_rel V w -> reaches st0 (mk (n + List.length (tr e)) (w :: s1) t ss) ->
                 simk val_rel st0 (k V) tgt s t ss) ->
    simk val_rel st0 (do V <- eval fo f c e; k V) tgt s t ss.
  Proof.
    intros Hf Hc Hcode Hs Hself Hr Hk.
    eapply simk_bind; [|exact Hk].
    eapply simk_from; [exact Hr|]. apply IH; auto.
  Qed.

  (* a final primitive op whose handler is  vdo v <- o; push v *)
  Lemma simk_prim st0 (r : res value) (o : outcome wval) n s' i tgt s t ss :
    reaches st0 (mk n s' t ss) -> nth_error C n = Some i -> i <> IReturn ->
    (forall rn, exec rn i (mk n s' t ss) = vdo v <- o; VOk (mk (S n) (v :: s) t ss)) ->
    res_out val_rel r o -> tgt = S n ->
    simk val_rel st0 r tgt s t ss.
  Proof.
    intros Hr Hf Hi He Hro ->. destruct r as [V| | |]; cbn in *; auto.
    - destruct Hro as (w & -> & Hw). exists w; split; auto.
      eapply reaches_trans; [exact Hr|]. eapply step_simple; eauto.
    - subst o. eapply reaches_errs; [exact Hr|]. eapply step_simple_err; eauto.
  Qed.

  (* one simple step appended to a reach *)
  Lemma reach_step st0 n s t ss i st1 :
    reaches st0 (mk n s t ss) -> nth_error C n = Some i -> i <> IReturn ->
    (forall rn, exec rn i (mk n s t ss) = VOk st1) -> reaches st0 st1.
  Proof. intros Hr Hf Hi He. eapply reaches_trans; [exact Hr|]. eapply step_simple; eauto. Qed.

  Lemma err_step st0 n s t ss i :
    reaches st0 (mk n s t ss) -> nth_error C n = Some i -> i <> IReturn ->
    (forall rn, exec rn i (mk n s t ss) = VErr) -> errs st0.
  Proof. intros Hr Hf Hi He. eapply reaches_errs; [exact Hr|]. eapply step_simple_err; eauto. Qed.

  Lemma simk_ok {A} (R : A -> wval -> Prop) st0 V w tgt s t ss :
    R V w -> reaches st0 (mk tgt (w :: s) t ss) -> simk R st0 (Ok V) tgt s t ss.
  Proof. intros; cbn; eauto. Qed.

  Ltac split_code :=
    repeat match goal with
           | H : code_at _ (_ ++ _) |- _ => apply code_at_app in H; destruct H
           | H : code_at _ (_ :: _) |- _ => apply code_at_cons in H; destruct H
           end.
  Ltac split_frag H :=
    cbn [frag] in H; repeat (let H' := fresh "Hf" in apply andb_true_iff in H; destruct H as [H H']).
  Ltac pceq :=
    unfold Compile_Base.mk, next, with_stk, with_pc; cbn [pc stk syms selfs];
    f_equal; cbn [List.length]; repeat (rewrite app_length; cbn [List.length]);
    repeat match goal with
           | |- context [List.length (cat_map ?g ?l)] =>
             let x := fresh "len" in generalize (List.length (cat_map g l)); intro x
           end;
    try lia.

  (* ---------------- binary operators with both operands evaluated first ---------------- *)
  Lemma sim_binop f (IH : sim_e f) l r c n s t ss i (prim : value -> value -> res value)
        (wprim : wval -> wval -> outcome wval) :
    frag l = true -> frag r = true -> ctx_ok c ->
    code_at n (tr r ++ tr l ++ [i]) -> scope_rel (sc fo c) t -> self_rel (self_v fo c) ss ->
    i <> IReturn ->
    (forall lw rw s' n' rn, exec rn i (mk n' (lw :: rw :: s') t ss) =
                            vdo v <- wprim lw rw; VOk (mk (S n') (v :: s') t ss)) ->
    (forall lv rv lw rw, val_rel lv lw -> val_rel rv rw -> res_out val_rel (prim lv rv) (wprim lw rw)) ->
    simk val_rel (mk n s t ss) (do rv <- eval fo f c r; do lv <- eval fo f c l; prim lv rv)
         (n + List.length (tr r ++ tr l ++ [i])) s t ss.
  Proof.
    intros Hfl Hfr Hc Hcode Hs Hself Hi Hex Hprim. split_code.
    eapply simk_expr; eauto using reaches_refl. intros rv rw Rr Hr1.
    eapply simk_expr; eauto. intros lv lw Rl Hr2.
    eapply simk_prim; eauto. rewrite !app_length; cbn; lia.
  Qed.

  (* ---------------- tuple fields, list elements, call arguments ---------------- *)
  Lemma tuple_lit_stuck f c fs (r : res (list (bytes * value))) :
    match r with Ok _ => False | _ => True end -> tuple_lit_f fo f c fs r = r.
  Proof.
    revert r. induction fs as [|[k e] fs IHfs]; intros r Hr; cbn; auto.
    unfold tuple_lit_f in *. cbn. destruct r; try contradiction; cbn; apply IHfs; exact I.
  Qed.

  Definition tuple_res (r : list (bytes * value)) (w : wval) : Prop :=
    exists rw, w = WTuple rw /\ Forall2 fld_rel r rw.
  Definition frags (fs : list (bytes * expr)) : bool := forallb (fun kv => frag (snd kv)) fs.

  Lemma sim_fields f (IH : sim_e f) c t ss :
    ctx_ok c -> scope_rel (sc fo c) t -> self_rel (self_v fo c) ss ->
    forall fs acc accw n s st0,
      frags fs = true -> code_at n (tr_fields fs) -> Forall2 fld_rel acc accw ->
      reaches st0 (mk n (WTuple accw :: s) t ss) ->
      simk tuple_res st0 (tuple_lit_f fo f c fs (Ok acc)) (n + List.length (tr_fields fs)) s t ss.
  Proof.
    intros Hc Hs Hself. induction fs as [|[k e] fs IHfs]; intros acc accw n s st0 Hf Hcode Hacc Hr.
    - cbn. exists (WTuple accw); split; [exists accw; auto|]. eapply reaches_eq; [exact Hr|pceq].
    - cbn in Hf. apply andb_true_iff in Hf as [Hfe Hffs].
      rewrite tr_fields_cons in Hcode |- *. split_code.
      change (tuple_lit_f fo f c ((k, e) :: fs) (Ok acc)) with
        (tuple_lit_f fo f c fs (do v <- eval fo f c e; merge_field fo acc k v)).
      assert (Hr1 : reaches st0 (mk (S n) (WSym k :: WTuple accw :: s) t ss)).
      { eapply reach_step; [exact Hr|eassumption|discriminate|reflexivity]. }
      pose proof (IH e c (S n) (WSym k :: WTuple accw :: s) t ss Hfe Hc ltac:(assumption) Hs Hself) as He.
      destruct (eval fo f c e) as [v| | |]; cbn [bind].
      + destruct He as (w & Hvw & Hr2).
        pose proof (merge_field_rel fo C _ _ k _ _ Hacc Hvw) as Hm.
        destruct (merge_field fo acc k v) as [acc'| | |].
        * destruct Hm as (acc'w & Hm & Hacc').
          eapply simk_from with (st1 := mk (S n + List.length (tr e) + 1) (WTuple acc'w :: s) t ss).
          -- eapply reaches_trans; [exact Hr1|]. eapply reaches_trans; [exact Hr2|].
             eapply reaches_eq; [eapply step_simple; eauto; [discriminate|]|].
             ++ intros rn. cbn. rewrite Hm. cbn. reflexivity.
             ++ pceq.
          -- eapply simk_from; [apply reaches_refl|].
             replace (n + List.length (ISym k :: tr e ++ [IField] ++ tr_fields fs))
               with (S n + List.length (tr e) + 1 + List.length (tr_fields fs))
               by (cbn; rewrite !app_length; cbn; lia).
             eapply IHfs; [exact Hffs| |exact Hacc'|apply reaches_refl].
             eapply code_at_eq; [eassumption|cbn; lia].
        * rewrite tuple_lit_stuck by exact I. cbn.
          eapply reaches_errs; [exact Hr1|]. eapply reaches_errs; [exact Hr2|].
          eapply step_simple_err; eauto; [discriminate|]. intros rn. cbn. rewrite Hm. reflexivity.
        * rewrite tuple_lit_stuck by exact I. exact I.
        * rewrite tuple_lit_stuck by exact I. exact I.
      + rewrite tuple_lit_stuck by exact I. cbn. eapply reaches_errs; eauto.
      + rewrite tuple_lit_stuck by exact I. exact I.
      + rewrite tuple_lit_stuck by exact I. exact I.
  Qed.

  Definition list_res (accw : list wval) (r : list value) (w : wval) : Prop :=
    exists rw, w = WList (accw ++ rw) /\ Forall2 val_rel r rw.

  Lemma sim_elems f (IH : sim_e f) c t ss :
    ctx_ok c -> scope_rel (sc fo c) t -> self_rel (self_v fo c) ss ->
    forall es accw n s st0,
      forallb frag es = true -> code_at n (cat_map (fun e => tr e ++ [IElement]) es) ->
      reaches st0 (mk n (WList accw :: s) t ss) ->
      simk (list_res accw) st0 (mapM (eval fo f c) es)
           (n + List.length (cat_map (fun e => tr e ++ [IElement]) es)) s t ss.
  Proof.
    intros Hc Hs Hself. induction es as [|e es IHes]; intros accw n s st0 Hf Hcode Hr.
    - cbn. exists (WList accw); split.
      + exists []; split; [now rewrite app_nil_r|constructor].
      + eapply reaches_eq; [exact Hr|pceq].
    - cbn in Hf. apply andb_true_iff in Hf as [Hfe Hfes].
      cbn [cat_map mapM] in *. rewrite <- app_assoc in Hcode. split_code.
      pose proof (IH e c n (WList accw :: s) t ss Hfe Hc ltac:(assumption) Hs Hself) as He.
      destruct (eval fo f c e) as [v| | |]; cbn [bind]; try exact I.
      + destruct He as (w & Hvw & Hr2).
        assert (Hr3 : reaches st0 (mk (n + List.length (tr e) + 1) (WList (accw ++ [w]) :: s) t ss)).
        { eapply reaches_trans; [exact Hr|]. eapply reaches_trans; [exact Hr2|].
          eapply reaches_eq; [eapply step_simple; [eassumption|discriminate|reflexivity]|pceq]. }
        specialize (IHes (accw ++ [w]) (n + List.length (tr e) + 1) s st0 Hfes
                         ltac:(eapply code_at_eq; [eassumption|cbn; lia]) Hr3).
        destruct (mapM (eval fo f c) es) as [r| | |]; cbn in *; auto.
        destruct IHes as (w' & (rw & -> & Hrw) & Hr4).
        exists (WList (accw ++ w :: rw)); split.
        * exists (w :: rw); split; auto.
        * eapply reaches_eq; [exact Hr4|]. rewrite <- app_assoc. cbn. pceq.
      + cbn. eapply reaches_errs; eauto.
  Qed.

  (* call arguments: pushed left to right, so the last one ends on top *)
  Lemma sim_args f (IH : sim_e f) c t ss :
    ctx_ok c -> scope_rel (sc fo c) t -> self_rel (self_v fo c) ss ->
    forall args n s st0,
      forallb frag args = true -> code_at n (cat_map tr args) ->
      reaches st0 (mk n s t ss) ->
      match mapM (eval fo f c) args with
      | Ok avs => exists avw, Forall2 val_rel avs avw /\
                              reaches st0 (mk (n + List.length (cat_map tr args)) (rev avw ++ s) t ss)
      | Err => errs st0
      | _ => True
      end.
  Proof.
    intros Hc Hs Hself. induction args as [|e es IHes]; intros n s st0 Hf Hcode Hr.
    - cbn. exists []; split; [constructor|]. eapply reaches_eq; [exact Hr|pceq].
    - cbn in Hf. apply andb_true_iff in Hf as [Hfe Hfes].
      cbn [cat_map mapM] in *. split_code.
      pose proof (IH e c n s t ss Hfe Hc ltac:(assumption) Hs Hself) as He.
      destruct (eval fo f c e) as [v| | |]; cbn [bind]; try exact I.
      + destruct He as (w & Hvw & Hr2).
        assert (Hr3 : reaches st0 (mk (n + List.length (tr e)) (w :: s) t ss)).
        { eapply reaches_trans; eauto. }
        specialize (IHes (n + List.length (tr e)) (w :: s) st0 Hfes ltac:(assumption) Hr3).
        destruct (mapM (eval fo f c) es) as [r| | |]; cbn in *; auto.
        destruct IHes as (rw & Hrw & Hr4).
        exists (w :: rw); split; [constructor; auto|].
        eapply reaches_eq; [exact Hr4|]. cbn [rev]. rewrite <- app_assoc. cbn. pceq.
      + cbn. eapply reaches_errs; eauto.
  Qed.

  Lemma mapM_length {A B} (g : A -> res B) l r : mapM g l = Ok r -> List.length r = List.length l.
  Proof.
    revert r; induction l as [|a l IHl]; intros r H; cbn in *.
    - inversion H; reflexivity.
    - destruct (g a); cbn in H; try discriminate. destruct (mapM g l); cbn in H; try discriminate.
      inversion H; subst. cbn. f_equal. apply IHl; reflexivity.
  Qed.

  Lemma simk_tgt {A} (R : A -> wval -> Prop) st0 (r : res A) tgt tgt' s t ss :
    simk R st0 r tgt s t ss -> tgt = tgt' -> simk R st0 r tgt' s t ss.
  Proof. intros; subst; auto. Qed.

  Lemma jump_ok n s t ss j :
    n + j < List.length C -> jump fo C (mk n s t ss) j = VOk (mk (S (n + j)) s t ss).
  Proof.
    intros H. unfold jump. cbn [pc Compile_Base.mk]. apply Nat.ltb_lt in H. rewrite H. reflexivity.
  Qed.

  Lemma exec_seljump rn n k w s t ss j :
    exec rn (ISelectJump j) (mk n (WSym k :: w :: s) t ss) =
    if select_matches fo (WSym k) w then VOk (mk (S n) s t ss) else jump fo C (mk n (w :: s) t ss) j.
  Proof. reflexivity. Qed.

  (* ---------------- select arms ---------------- *)
  Definition arm_codes (arms : list (bytes * expr)) : list (bytes * ops) :=
    map (fun kv => (fst kv, tr (snd kv))) arms.

  Lemma sim_arms f (IH : sim_e f) c t ss v w dflt :
    ctx_ok c -> scope_rel (sc fo c) t -> self_rel (self_v fo c) ss -> val_rel v w ->
    match dflt with Some d => frag d = true | None => True end ->
    let dcode := match dflt with Some de => tr de | None => [IVal (LStr no_default_msg); IBang] end in
    forall arms n s st0,
      frags arms = true -> code_at n (sel_arms (arm_codes arms) dcode) ->
      reaches st0 (mk n (w :: s) t ss) ->
      simk val_rel st0
           (match (match sel_key fo v with Some k => find_arm k arms | None => None end) with
            | Some ae => eval fo f c ae
            | None => match dflt with Some d => eval fo f c d | None => Err end
            end)
           (n + List.length (sel_arms (arm_codes arms) dcode)) s t ss.
  Proof.
    intros Hc Hs Hself Hvw Hfd dcode.
    induction arms as [|[k ae] arms IHarms]; intros n s st0 Hf Hcode Hr.
    - (* no arm matched: Pop, then the default *)
      replace (match sel_key fo v with Some k => find_arm k [] | None => None end) with (@None expr)
        by (destruct (sel_key fo v); reflexivity).
      cbn [arm_codes map sel_arms] in *. split_code.
      assert (Hr1 : reaches st0 (mk (S n) s t ss)).
      { eapply reach_step; [exact Hr|eassumption|discriminate|reflexivity]. }
      subst dcode. destruct dflt as [d|].
      + eapply simk_tgt.
        * eapply simk_from; [exact Hr1|]. apply IH; auto.
        * cbn; lia.
      + cbn. split_code.
        eapply err_step with (n := S (S n)) (s := WStr no_default_msg :: s).
        * eapply reach_step; [exact Hr1|eassumption|discriminate|reflexivity].
        * eassumption.
        * discriminate.
        * reflexivity.
    - cbn in Hf. apply andb_true_iff in Hf as [Hfa Hfarms].
      cbn [arm_codes map sel_arms fst snd] in *. fold (arm_codes arms) in *.
      set (rest := sel_arms (arm_codes arms) dcode) in *.
      assert (Hb1 : S n + S (List.length (tr ae)) < List.length C).
      { replace (S n + S (List.length (tr ae))) with (n + (2 + List.length (tr ae))) by lia.
        eapply code_at_lt; [exact Hcode|]. cbn. rewrite app_length. cbn. lia. }
      assert (Hb2 : S (S n) + List.length (tr ae) + List.length rest < List.length C).
      { replace (S (S n) + List.length (tr ae) + List.length rest)
          with (n + (2 + List.length (tr ae) + List.length rest)) by lia.
        eapply code_at_lt; [exact Hcode|]. cbn. rewrite app_length. cbn. lia. }
      split_code.
      assert (Hr1 : reaches st0 (mk (S n) (WSym k :: w :: s) t ss)).
      { eapply reach_step; [exact Hr|eassumption|discriminate|reflexivity]. }
      pose proof (select_matches_rel fo C v w k Hvw) as Hsm.
      destruct (match sel_key fo v with Some kk => bytes_eqb kk k | None => false end) eqn:Ehit.
      + (* this arm *)
        assert (Hfind : match sel_key fo v with Some k0 => find_arm k0 ((k, ae) :: arms) | None => None end = Some ae).
        { destruct (sel_key fo v); [|discriminate]. cbn. rewrite Ehit. reflexivity. }
        rewrite Hfind.
        assert (Hr2 : reaches st0 (mk (S (S n)) s t ss)).
        { eapply reach_step; [exact Hr1|eassumption|discriminate|].
          intros rn. rewrite exec_seljump, Hsm. reflexivity. }
        pose proof (IH ae c (S (S n)) s t ss Hfa Hc ltac:(assumption) Hs Hself) as Ha.
        destruct (eval fo f c ae) as [va| | |]; cbn in *; auto.
        * destruct Ha as (wa & Hva & Hr3). exists wa; split; auto.
          eapply reaches_trans; [exact Hr2|]. eapply reaches_trans; [exact Hr3|].
          eapply reaches_eq; [eapply step_simple; [eassumption|discriminate|]|].
          -- intros rn. cbn. apply jump_ok. exact Hb2.
          -- pceq.
        * eapply reaches_errs; eauto.
      + (* next arm *)
        assert (Hfind : match sel_key fo v with Some k0 => find_arm k0 ((k, ae) :: arms) | None => None end =
                        match sel_key fo v with Some k0 => find_arm k0 arms | None => None end).
        { destruct (sel_key fo v); [|reflexivity]. cbn. rewrite Ehit. reflexivity. }
        rewrite Hfind.
        eapply simk_tgt.
        * eapply IHarms with (n := S (S n + S (List.length (tr ae)))); [exact Hfarms| |].
          -- eapply code_at_eq; [eassumption|lia].
          -- eapply reach_step; [exact Hr1|eassumption|discriminate|].
             intros rn. rewrite exec_seljump, Hsm. apply jump_ok. exact Hb1.
        * cbn. rewrite app_length. cbn. lia.
  Qed.

  (* ---------------- the cases of the simulation, one lemma each ---------------- *)
  Definition sim_at (f : nat) (e : expr) : Prop :=
    forall c n s t ss,
      frag e = true -> ctx_ok c -> code_at n (tr e) -> scope_rel (sc fo c) t -> self_rel (self_v fo c) ss ->
      simk val_rel (mk n s t ss) (eval fo f c e) (n + List.length (tr e)) s t ss.

  Lemma sim_lit f e l v :
    tr e = [IVal l] -> (forall c, eval fo (S f) c e = Ok v) -> val_rel v (lit_val fo l) -> sim_at (S f) e.
  Proof.
    intros Htr Hev Hv c n s t ss _ _ Hcode _ _. rewrite Htr in *. rewrite Hev. split_code.
    eapply simk_ok; [exact Hv|]. eapply reaches_eq; [eapply step_simple; [eassumption|discriminate|reflexivity]|pceq].
  Qed.

  Lemma env_tuple_rel c : envt fo c = envv -> val_rel (env_tuple fo c) (env_tuple_w fo envv).
  Proof.
    intros <-. unfold env_tuple, env_tuple_w. constructor.
    induction (envt fo c) as [|[k v] l IHl]; cbn; constructor; auto. split; cbn; auto. constructor.
  Qed.

  Lemma exec_deref rn x n s t ss :
    exec rn (IDeRef x) (mk n s t ss) =
    match get_binding fo envv (mk n s t ss) x with Some v => VOk (mk (S n) (v :: s) t ss) | None => VErr end.
  Proof. reflexivity. Qed.

  Lemma sim_sym f x : sim_at (S f) (ESym x).
  Proof.
    intros c n s t ss _ (Hst & Henv & Hord) Hcode Hs Hself.
    change (tr (ESym x)) with [IDeRef x] in *. split_code. rewrite eval_sym.
    assert (Hstep : forall v w, val_rel v w -> get_binding fo envv (mk n s t ss) x = Some w ->
                                simk val_rel (mk n s t ss) (Ok v) (n + 1) s t ss).
    { intros v w Hvw Hg. eapply simk_ok; [exact Hvw|].
      eapply reaches_eq;
        [eapply step_simple; [eassumption|discriminate|intros rn; rewrite exec_deref, Hg; reflexivity]|pceq]. }
    assert (Herr : get_binding fo envv (mk n s t ss) x = None -> errs (mk n s t ss)).
    { intros Hg. eapply step_simple_err; [eassumption|discriminate|].
      intros rn. rewrite exec_deref, Hg. reflexivity. }
    unfold get_binding in *. cbn [selfs syms Compile_Base.mk] in *.
    destruct (bytes_eqb x (b "self")).
    - unfold Compile_Rel.self_rel in Hself.
      destruct (self_v fo c) as [v|]; destruct (hd_error ss) as [w|]; inversion Hself; subst.
      + eapply Hstep; eauto.
      + cbn. apply Herr. auto.
    - pose proof (Hs x) as Hx.
      destruct (lookup fo x (sc fo c)) as [v|]; destruct (sym_get x t) as [w|]; inversion Hx; subst.
      + eapply Hstep; eauto. destruct (bytes_eqb x (b "env")); reflexivity.
      + destruct (bytes_eqb x (b "env")).
        * eapply Hstep; [apply env_tuple_rel; exact Henv|reflexivity].
        * cbn. apply Herr. reflexivity.
  Qed.

  Lemma sim_tuple f (IH : sim_e f) fs : sim_at (S f) (ETuple fs).
  Proof.
    intros c n s t ss Hf Hc Hcode Hs Hself. rewrite tr_tuple in *. rewrite eval_tuple. split_code.
    cbn [frag] in Hf.
    pose proof (sim_fields f IH c t ss Hc Hs Hself fs [] [] (S n) s (mk n s t ss) Hf ltac:(assumption)
                           ltac:(constructor)
                           ltac:(eapply step_simple; [eassumption|discriminate|reflexivity])) as H1.
    destruct (tuple_lit_f fo f c fs (Ok [])) as [r| | |]; cbn in *; auto.
    destruct H1 as (w & (rw & -> & Hrw) & Hr). exists (WTuple rw); split; [apply VR_tuple; exact Hrw|eapply reaches_eq; [exact Hr|pceq]].
  Qed.

  Lemma sim_list f (IH : sim_e f) es : sim_at (S f) (EList es).
  Proof.
    intros c n s t ss Hf Hc Hcode Hs Hself. rewrite tr_list in *. rewrite eval_list. split_code.
    cbn [frag] in Hf.
    pose proof (sim_elems f IH c t ss Hc Hs Hself es [] (S n) s (mk n s t ss) Hf ltac:(assumption)
                          ltac:(eapply step_simple; [eassumption|discriminate|reflexivity])) as H1.
    destruct (mapM (eval fo f c) es) as [r| | |]; cbn in *; auto.
    destruct H1 as (w & (rw & -> & Hrw) & Hr). exists (WList rw); split; [apply VR_list; exact Hrw|eapply reaches_eq; [exact Hr|pceq]].
  Qed.

  Lemma sim_group f (IH : sim_e f) e : sim_at (S f) (EGroup e).
  Proof. intros c n s t ss Hf Hc Hcode Hs Hself. rewrite eval_group. exact (IH e c n s t ss Hf Hc Hcode Hs Hself). Qed.

  Lemma sim_not f (IH : sim_e f) e : sim_at (S f) (ENot e).
  Proof.
    intros c n s t ss Hf Hc Hcode Hs Hself. rewrite eval_not.
    change (tr (ENot e)) with (tr e ++ [INot]) in *. split_code. cbn [frag] in Hf.
    eapply simk_expr; eauto using reaches_refl. intros v w Hvw Hr.
    eapply simk_prim with (o := match w with WBool x => VOk (WBool (negb x)) | _ => VErr end);
      [exact Hr|eassumption|discriminate| | |rewrite app_length; cbn; lia].
    - intros rn. destruct w; reflexivity.
    - destruct Hvw; cbn; eauto using Compile_Rel.val_rel.
  Qed.

  Lemma sim_cast f (IH : sim_e f) ct e : sim_at (S f) (ECast ct e).
  Proof.
    intros c n s t ss Hf Hc Hcode Hs Hself. rewrite eval_cast.
    change (tr (ECast ct e)) with (tr e ++ [ICast ct]) in *. split_code. cbn [frag] in Hf.
    eapply simk_expr; eauto using reaches_refl. intros v w Hvw Hr.
    eapply simk_prim with (o := vm_cast fo ct w);
      [exact Hr|eassumption|discriminate| |apply cast_rel; exact Hvw|rewrite app_length; cbn; lia].
    intros rn. cbn. destruct (vm_cast fo ct w); reflexivity.
  Qed.

  Lemma sim_fail f (IH : sim_e f) e : sim_at (S f) (EFail e).
  Proof.
    intros c n s t ss Hf Hc Hcode Hs Hself. rewrite eval_fail.
    change (tr (EFail e)) with (tr e ++ [IVal (LStr user_defined_msg); IAdd; IBang]) in *.
    split_code. cbn [frag] in Hf.
    eapply simk_expr; eauto using reaches_refl. intros v w Hvw Hr. cbn.
    assert (Hr1 : reaches (mk n s t ss)
                          (mk (S (n + List.length (tr e))) (WStr user_defined_msg :: w :: s) t ss)).
    { eapply reach_step; [exact Hr|eassumption|discriminate|reflexivity]. }
    destruct w; try (eapply err_step; [exact Hr1|eassumption|discriminate|reflexivity]).
    eapply err_step.
    - eapply reach_step; [exact Hr1|eassumption|discriminate|reflexivity].
    - eassumption.
    - discriminate.
    - reflexivity.
  Qed.

  Lemma sim_trace f (IH : sim_e f) e : sim_at (S f) (ETrace e).
  Proof.
    intros c n s t ss Hf Hc Hcode Hs Hself. rewrite eval_trace.
    change (tr (ETrace e)) with (IVal (LStr trace_text) :: tr e ++ [IRuntime HTrace]) in *.
    split_code. cbn [frag] in Hf.
    pose proof (IH e c (S n) (WStr trace_text :: s) t ss Hf Hc ltac:(assumption) Hs Hself) as He.
    assert (Hr0 : reaches (mk n s t ss) (mk (S n) (WStr trace_text :: s) t ss)).
    { eapply step_simple; [eassumption|discriminate|reflexivity]. }
    destruct (eval fo f c e) as [v| | |]; cbn in *; auto.
    - destruct He as (w & Hvw & Hr). exists w; split; auto.
      eapply reaches_trans; [exact Hr0|]. eapply reaches_trans; [exact Hr|].
      eapply reaches_eq; [eapply step_simple; [eassumption|discriminate|reflexivity]|pceq].
    - eapply reaches_errs; eauto.
  Qed.

  (* ---------------- binary operators ---------------- *)
  Lemma sim_arith f (IH : sim_e f) o l r : is_arith o = true -> sim_at (S f) (EBin o l r).
  Proof.
    intros Ho c n s t ss Hf Hc Hcode Hs Hself.
    rewrite (tr_arith o l r Ho) in *. rewrite (eval_arith fo f c o l r Ho).
    assert (Hf' : frag l && frag r = true) by (destruct o; try discriminate; exact Hf).
    apply andb_true_iff in Hf' as [Hfl Hfr].
    eapply sim_binop with (wprim := vm_arith fo (arith_instr o)); eauto.
    - destruct o; discriminate.
    - intros. destruct o; try discriminate; reflexivity.
    - intros. apply arith_rel; auto.
  Qed.

  Lemma sim_cmp f (IH : sim_e f) o l r : is_cmp o = true -> sim_at (S f) (EBin o l r).
  Proof.
    intros Ho c n s t ss Hf Hc Hcode Hs Hself.
    rewrite (tr_cmp o l r Ho) in *. rewrite (eval_cmp fo f c o l r Ho).
    assert (Hf' : frag l && frag r = true) by (destruct o; try discriminate; exact Hf).
    apply andb_true_iff in Hf' as [Hfl Hfr].
    eapply sim_binop with (wprim := vm_compare fo (cmp_instr o)); eauto.
    - destruct o; discriminate.
    - intros. destruct o; try discriminate; reflexivity.
    - intros. apply compare_rel; auto.
  Qed.

  Lemma exec_equal rn n lw rw s t ss :
    exec rn IEqual (mk n (lw :: rw :: s) t ss) = vdo v <- weq_prim fo lw rw; VOk (mk (S n) (v :: s) t ss).
  Proof.
    unfold weq_prim. cbn -[wcompatible weq]. destruct (wcompatible lw rw); [|reflexivity].
    destruct (weq lw rw); reflexivity.
  Qed.

  Lemma sim_equal f (IH : sim_e f) l r : sim_at (S f) (EBin Equal l r).
  Proof.
    intros c n s t ss Hf Hc Hcode Hs Hself.
    change (tr (EBin Equal l r)) with (tr r ++ tr l ++ [IEqual]) in *. rewrite eval_equal.
    pose proof Hc as (Hst & Henv & Hord). rewrite Hord.
    cbn [frag] in Hf. apply andb_true_iff in Hf as [Hfl Hfr].
    eapply sim_binop with (wprim := weq_prim fo); eauto.
    - discriminate.
    - intros. apply exec_equal.
    - intros lv rv lw rw Hl Hr. pose proof (equal_rel fo C f lv rv lw rw false Hl Hr) as He.
      cbn in He. destruct (compatible fo lv rv); [|exact He].
      destruct (veq fo true f lv rv); cbn in He |- *; auto.
      destruct He as (w & -> & q & E1 & ->). inversion E1; subst. eexists; split; [reflexivity|constructor].
  Qed.

  Lemma sim_notequal f (IH : sim_e f) l r : sim_at (S f) (EBin NotEqual l r).
  Proof.
    intros c n s t ss Hf Hc Hcode Hs Hself.
    change (tr (EBin NotEqual l r)) with (tr r ++ tr l ++ [IEqual; INot]) in *. rewrite eval_notequal.
    pose proof Hc as (Hst & Henv & Hord). rewrite Hord.
    cbn [frag] in Hf. apply andb_true_iff in Hf as [Hfl Hfr]. split_code.
    eapply simk_expr; eauto using reaches_refl. intros rv rw Rr Hr1.
    eapply simk_expr; eauto. intros lv lw Rl Hr2.
    pose proof (equal_rel fo C f lv rv lw rw true Rl Rr) as He. cbn in He.
    destruct (compatible fo lv rv).
    - destruct (veq fo true f lv rv) as [q| | |]; cbn in He |- *; auto.
      + destruct He as (w & Hw & q' & E1 & ->). inversion E1 as [E2]. rewrite E2.
        exists (WBool (negb q')); split; [constructor|].
        eapply reaches_eq; [eapply reach_step; [eapply reach_step; [exact Hr2|eassumption|discriminate|]|eassumption|discriminate|]|].
        * intros rn. rewrite exec_equal, Hw. reflexivity.
        * intros rn. reflexivity.
        * pceq.
      + eapply err_step; [exact Hr2|eassumption|discriminate|]. intros rn. rewrite exec_equal, He. reflexivity.
    - cbn in He |- *. eapply err_step; [exact Hr2|eassumption|discriminate|]. intros rn. rewrite exec_equal, He. reflexivity.
  Qed.

  Lemma sim_is f (IH : sim_e f) l r : sim_at (S f) (EBin IS l r).
  Proof.
    intros c n s t ss Hf Hc Hcode Hs Hself.
    change (tr (EBin IS l r)) with (tr r ++ tr l ++ [ITyp; IEqual]) in *. rewrite eval_is.
    cbn [frag] in Hf. apply andb_true_iff in Hf as [Hfl Hfr]. split_code.
    eapply simk_expr; eauto using reaches_refl. intros tv tw Rt Hr1.
    eapply simk_expr; eauto. intros lv lw Rl Hr2.
    assert (Hr3 : reaches (mk n s t ss)
                    (mk (S (n + List.length (tr r) + List.length (tr l))) (WStr (wtyp lw) :: tw :: s) t ss)).
    { eapply reach_step; [exact Hr2|eassumption|discriminate|reflexivity]. }
    eapply simk_prim with (o := weq_prim fo (WStr (wtyp lw)) tw);
      [exact Hr3|eassumption|discriminate|intros; apply exec_equal| |rewrite !app_length; cbn; lia].
    rewrite (is_name_rel fo C lv lw Rl).
    destruct Rt; cbn; try reflexivity; eexists; split; try reflexivity; constructor.
  Qed.

  Definition regex_prim (l r : wval) : outcome wval :=
    match l with WStr _ => match r with WStr _ => VUnsup | _ => VErr end | _ => VErr end.

  Lemma simk_never {A} (R : A -> wval -> Prop) st0 (r : res A) tgt tgt' s t ss :
    (forall V, r <> Ok V) -> simk R st0 r tgt s t ss -> simk R st0 r tgt' s t ss.
  Proof. intros Hn H. destruct r; auto. exfalso; eapply Hn; eauto. Qed.

  Lemma code_at_prefix n a i rest : code_at n (a ++ i :: rest) -> code_at n (a ++ [i]).
  Proof.
    intros H k j Hk. apply H. destruct (Nat.lt_ge_cases k (List.length a)).
    - rewrite nth_error_app1 in * by lia. exact Hk.
    - rewrite nth_error_app2 in * by lia. destruct (k - List.length a) as [|m]; cbn in *; auto.
      destruct m; discriminate.
  Qed.

  Lemma sim_rematch_gen f (IH : sim_e f) l r rest c n s t ss tgt :
    frag l = true -> frag r = true -> ctx_ok c ->
    code_at n (tr r ++ tr l ++ IRuntime HRegex :: rest) -> scope_rel (sc fo c) t -> self_rel (self_v fo c) ss ->
    simk val_rel (mk n s t ss)
         (do rv <- eval fo f c r; do lv <- eval fo f c l; regex_sem fo lv rv) tgt s t ss.
  Proof.
    intros Hfl Hfr Hc Hcode Hs Hself.
    assert (Hcode' : code_at n (tr r ++ tr l ++ [IRuntime HRegex])).
    { rewrite app_assoc in *. eapply code_at_prefix; eauto. }
    eapply simk_never; [|eapply sim_binop with (wprim := regex_prim) (prim := regex_sem fo); eauto].
    - intros V. destruct (eval fo f c r); cbn; try discriminate.
      destruct (eval fo f c l); cbn; try discriminate. destruct a0, a; discriminate.
    - discriminate.
    - intros. destruct lw; try reflexivity. destruct rw; reflexivity.
    - intros lv rv lw rw Hl Hr. destruct Hl; cbn; auto; destruct Hr; cbn; auto.
  Qed.

  Lemma sim_rematch f (IH : sim_e f) l r : sim_at (S f) (EBin REMatch l r).
  Proof.
    intros c n s t ss Hf Hc Hcode Hs Hself. rewrite eval_rematch.
    cbn [frag] in Hf. apply andb_true_iff in Hf as [Hfl Hfr].
    eapply sim_rematch_gen; eauto.
  Qed.

  Lemma sim_notrematch f (IH : sim_e f) l r : sim_at (S f) (EBin NotREMatch l r).
  Proof.
    intros c n s t ss Hf Hc Hcode Hs Hself. rewrite eval_notrematch.
    cbn [frag] in Hf. apply andb_true_iff in Hf as [Hfl Hfr].
    eapply sim_rematch_gen; eauto.
  Qed.

  (* short-circuit operators *)
  Lemma sim_andor f (IH : sim_e f) (is_and : bool) l r :
    sim_at (S f) (EBin (if is_and then AND else OR) l r).
  Proof.
    intros c n s t ss Hf Hc Hcode Hs Hself.
    assert (Htr : tr (EBin (if is_and then AND else OR) l r) =
                  tr l ++ (if is_and then IAnd (List.length (tr r)) else IOr (List.length (tr r))) :: tr r)
      by (destruct is_and; reflexivity).
    assert (Hev : eval fo (S f) c (EBin (if is_and then AND else OR) l r) =
                  do lv <- eval fo f c l;
                  match lv with
                  | VBool x => if Bool.eqb x is_and then eval fo f c r else Ok (VBool x)
                  | _ => Err
                  end).
    { destruct is_and; [rewrite eval_and|rewrite eval_or]; destruct (eval fo f c l) as [lv| | |]; cbn; auto;
        destruct lv; auto; destruct v; reflexivity. }
    rewrite Htr in *. rewrite Hev. clear Htr Hev.
    assert (Hf' : frag l && frag r = true) by (destruct is_and; exact Hf).
    apply andb_true_iff in Hf' as [Hfl Hfr].
    assert (Hb : n + List.length (tr l) + List.length (tr r) < List.length C).
    { rewrite <- Nat.add_assoc. eapply code_at_lt; [exact Hcode|]. rewrite app_length. cbn. lia. }
    split_code.
    eapply simk_expr; eauto using reaches_refl. intros lv lw Rl Hr1.
    set (i := if is_and then IAnd (List.length (tr r)) else IOr (List.length (tr r))) in *.
    assert (Hi : i <> IReturn) by (subst i; destruct is_and; discriminate).
    destruct Rl; try (cbn; eapply err_step; [exact Hr1|eassumption|exact Hi|];
                      intros rn; subst i; destruct is_and; reflexivity).
    destruct (Bool.eqb v is_and) eqn:Ev.
    - (* fall through to the right operand *)
      eapply simk_tgt.
      + eapply simk_from with (st1 := mk (S (n + List.length (tr l))) s t ss).
        * eapply reach_step; [exact Hr1|eassumption|exact Hi|].
          intros rn. subst i. destruct is_and, v; try discriminate; reflexivity.
        * apply IH; auto.
      + rewrite app_length. cbn. lia.
    - (* short circuit: the operand stays, the right operand is skipped *)
      eapply simk_ok; [constructor|].
      eapply reaches_eq; [eapply reach_step; [exact Hr1|eassumption|exact Hi|]|].
      + intros rn. subst i. destruct is_and, v; try discriminate; cbn; apply jump_ok; exact Hb.
      + pceq.
  Qed.

  (* ---------------- in ---------------- *)
  Lemma exist_rel f hay needle hw nw :
    val_rel hay hw -> val_rel needle nw ->
    res_out val_rel (in_result fo f hay needle) (vm_exist fo hw nw).
  Proof.
    intros Hh Hn. destruct Hh; try (cbn; reflexivity).
    - (* string haystack *)
      destruct Hn; cbn; eexists; split; try reflexivity; constructor.
    - (* list *) apply in_list_rel; auto.
    - (* tuple *)
      destruct Hn; try (cbn; reflexivity).
      pose proof (lookup_fld_get fo C s _ _ H) as Hl. cbn.
      eexists; split; [reflexivity|]. inversion Hl; constructor.
  Qed.

  Lemma sim_in_gen f (IH : sim_e f) l r :
    match l with ESym _ => False | _ => True end -> sim_at (S f) (EBin IN l r).
  Proof.
    intros Hl c n s t ss Hf Hc Hcode Hs Hself.
    pose proof Hc as (Hst & Henv & Hord).
    rewrite (tr_in l r Hl) in *. rewrite (eval_in fo f c l r Hord Hl).
    cbn [frag] in Hf. apply andb_true_iff in Hf as [Hfl Hfr].
    eapply sim_binop with (wprim := fun lw rw => vm_exist fo rw lw)
                          (prim := fun lv rv => in_result fo f rv lv); eauto.
    - discriminate.
    - intros. apply exist_rel; auto.
  Qed.

  Lemma wtyp_tuple v w : val_rel v w ->
    bytes_eqb (wtyp w) (b "tuple") = match v with VTuple _ => true | _ => false end.
  Proof. destruct 1; reflexivity. Qed.

  Lemma sim_in_sym f (IH : sim_e f) x r : sim_at (S f) (EBin IN (ESym x) r).
  Proof.
    intros c n s t ss Hf Hc Hcode Hs Hself.
    pose proof Hc as (Hst & Henv & Hord).
    rewrite (eval_in_sym fo f c x r Hord).
    change (tr (EBin IN (ESym x) r)) with
      (tr r ++ (IVal (LStr (b "tuple")) :: tr r ++
                [ITyp; IEqual; ISym (b "true"); ISelectJump 2; IVal (LStr x); IJump 2; IPop; IDeRef x])
            ++ [IExist]) in *.
    cbn [frag] in Hf. apply andb_true_iff in Hf as [_ Hfr].
    assert (Hb1 : S (n + List.length (tr r)) + List.length (tr r) + 3 + 2 < List.length C).
    { replace (S (n + List.length (tr r)) + List.length (tr r) + 3 + 2)
        with (n + (List.length (tr r) + (1 + List.length (tr r) + 5))) by lia.
      eapply code_at_lt; [exact Hcode|]. rewrite !app_length. cbn. rewrite !app_length. cbn. lia. }
    assert (Htgt : n + List.length (tr r ++ (IVal (LStr (b "tuple")) :: tr r ++
                [ITyp; IEqual; ISym (b "true"); ISelectJump 2; IVal (LStr x); IJump 2; IPop; IDeRef x])
            ++ [IExist]) = S (S (n + List.length (tr r)) + List.length (tr r) + 8)).
    { rewrite !app_length. cbn. rewrite !app_length. cbn. lia. }
    rewrite Htgt. clear Htgt.
    cbn [app] in Hcode. rewrite <- app_assoc in Hcode. cbn [app] in Hcode.
    split_code.
    set (p := n + List.length (tr r)) in *.
    set (q := S p + List.length (tr r)) in *.
    pose proof (IH r c n s t ss Hfr Hc ltac:(assumption) Hs Hself) as Hev1.
    destruct (eval fo f c r) as [hay| | |] eqn:Er; cbn [bind]; try exact I; [|exact Hev1].
    destruct Hev1 as (hw & Rh & Hr1).
    (* second evaluation of the haystack, for the type test *)
    assert (Hr2 : reaches (mk n s t ss) (mk (S p) (WStr (b "tuple") :: hw :: s) t ss)).
    { eapply reach_step; [exact Hr1|eassumption|discriminate|reflexivity]. }
    pose proof (IH r c (S p) (WStr (b "tuple") :: hw :: s) t ss Hfr Hc ltac:(assumption) Hs Hself) as Hev2.
    rewrite Er in Hev2. destruct Hev2 as (hw' & Rh' & Hr3).
    assert (Hr4 : reaches (mk n s t ss)
                          (mk (q + 2) (WBool (bytes_eqb (wtyp hw') (b "tuple")) :: hw :: s) t ss)).
    { eapply reach_step with (n := S q) (s := WStr (wtyp hw') :: WStr (b "tuple") :: hw :: s).
      - eapply reach_step; [eapply reaches_trans; [exact Hr2|exact Hr3]|eassumption|discriminate|reflexivity].
      - eassumption.
      - discriminate.
      - intros rn. rewrite exec_equal. unfold weq_prim. cbn. f_equal. pceq. }
    rewrite (wtyp_tuple _ _ Rh') in Hr4.
    assert (Hq2 : nth_error C (q + 2) = Some (ISym (b "true")))
      by (replace (q + 2) with (S (S q)) by lia; assumption).
    assert (Hq3 : nth_error C (q + 3) = Some (ISelectJump 2))
      by (replace (q + 3) with (S (S (S q))) by lia; assumption).
    assert (Hq4 : nth_error C (q + 4) = Some (IVal (LStr x)))
      by (replace (q + 4) with (S (S (S (S q)))) by lia; assumption).
    assert (Hq5 : nth_error C (q + 5) = Some (IJump 2))
      by (replace (q + 5) with (S (S (S (S (S q))))) by lia; assumption).
    assert (Hq6 : nth_error C (q + 6) = Some IPop)
      by (replace (q + 6) with (S (S (S (S (S (S q)))))) by lia; assumption).
    assert (Hq7 : code_at (q + 7) (tr (ESym x))).
    { intros k i Hk. destruct k as [|[|k]]; cbn in Hk; try discriminate. inversion Hk; subst.
      replace (q + 7 + 0) with (S (S (S (S (S (S (S q))))))) by lia. assumption. }
    assert (Hq8 : nth_error C (q + 8) = Some IExist)
      by (replace (q + 8) with (S (S (S (S (S (S (S (S q)))))))) by lia; assumption).
    assert (Hfin : forall needle nw,
               val_rel needle nw -> reaches (mk n s t ss) (mk (q + 8) (nw :: hw :: s) t ss) ->
               simk val_rel (mk n s t ss) (in_result fo f hay needle) (S (q + 8)) s t ss).
    { intros needle nw Rn Hr5.
      eapply simk_prim with (o := vm_exist fo hw nw);
        [exact Hr5|exact Hq8|discriminate|reflexivity|apply exist_rel; auto|reflexivity]. }
    assert (Hr5 : reaches (mk n s t ss)
                          (mk (S (q + 2)) (WSym (b "true") ::
                                       WBool (match hay with VTuple _ => true | _ => false end) :: hw :: s) t ss)).
    { eapply reach_step; [exact Hr4|exact Hq2|discriminate|reflexivity]. }
    replace (S (q + 2)) with (q + 3) in Hr5 by lia.
    destruct hay; cbn [bind];
      try (
        (* not a tuple: jump to Pop, then look the symbol up *)
        assert (Hr6 : reaches (mk n s t ss) (mk (S (q + 3 + 2)) (WBool false :: hw :: s) t ss));
        [ eapply reach_step; [exact Hr5|exact Hq3|discriminate|];
          intros rn; rewrite exec_seljump; cbn [select_matches]; apply jump_ok; lia
        | replace (S (q + 3 + 2)) with (q + 6) in Hr6 by lia;
          assert (Hr7 : reaches (mk n s t ss) (mk (S (q + 6)) (hw :: s) t ss));
          [ eapply reach_step; [exact Hr6|exact Hq6|discriminate|reflexivity]
          | replace (S (q + 6)) with (q + 7) in Hr7 by lia;
            pose proof (IH (ESym x) c (q + 7) (hw :: s) t ss eq_refl Hc Hq7 Hs Hself) as Hev3;
            destruct (eval fo f c (ESym x)) as [needle| | |]; cbn [bind]; try exact I;
            [ destruct Hev3 as (nw & Rn & Hr8); change (tr (ESym x)) with [IDeRef x] in Hr8;
              eapply Hfin; [exact Rn|];
              eapply reaches_trans; [exact Hr7|]; eapply reaches_eq; [exact Hr8|pceq]
            | eapply reaches_errs; [exact Hr7|exact Hev3] ] ] ]).
    (* a tuple: the name itself is the needle *)
    eapply Hfin with (nw := WStr x); [constructor|].
    assert (Hr6 : reaches (mk n s t ss) (mk (S (q + 3)) (hw :: s) t ss)).
    { eapply reach_step; [exact Hr5|exact Hq3|discriminate|].
      intros rn. rewrite exec_seljump. reflexivity. }
    replace (S (q + 3)) with (q + 4) in Hr6 by lia.
    assert (Hr7 : reaches (mk n s t ss) (mk (S (q + 4)) (WStr x :: hw :: s) t ss)).
    { eapply reach_step; [exact Hr6|exact Hq4|discriminate|reflexivity]. }
    replace (S (q + 4)) with (q + 5) in Hr7 by lia.
    eapply reaches_eq; [eapply reach_step; [exact Hr7|exact Hq5|discriminate|]|].
    - intros rn. cbn. apply jump_ok.
      assert (q + 8 < List.length C) by (apply nth_error_Some; rewrite Hq8; discriminate). lia.
    - pceq.
  Qed.

  (* ---------------- selection ---------------- *)
  Lemma exec_index rn n lw kw s t ss :
    exec rn IIndex (mk n (kw :: lw :: s) t ss) =
    vdo v <- vm_index fo (negb strict_) lw kw; VOk (mk (S n) (v :: s) t ss).
  Proof. cbn -[vm_index]. destruct (vm_index fo (negb strict_) lw kw); reflexivity. Qed.

  Lemma index_rel' c lv kv lw kw :
    ctx_ok c -> val_rel lv lw -> val_rel kv kw ->
    res_out val_rel (index fo c lv kv) (vm_index fo (negb strict_) lw kw).
  Proof. intros (<- & _ & _) Hl Hk. apply index_rel; auto. Qed.

  Lemma sim_dot_gen f (IH : sim_e f) l r : dot_general r = true -> sim_at (S f) (EBin DOT l r).
  Proof.
    intros Hg c n s t ss Hf Hc Hcode Hs Hself.
    rewrite (tr_dot_gen l r Hg) in *. rewrite (eval_dot_gen fo f c l r Hg).
    assert (Hf' : frag l && frag r = true) by (destruct r; try discriminate; exact Hf).
    apply andb_true_iff in Hf' as [Hfl Hfr].
    eapply sim_binop with (l := r) (r := l) (wprim := fun kw lw => vm_index fo (negb strict_) lw kw)
                          (prim := fun kv lv => index fo c lv kv); eauto.
    - discriminate.
    - intros. apply index_rel'; auto.
  Qed.

  Lemma sim_dot_sym f (IH : sim_e f) l k : sim_at (S f) (EBin DOT l (ESym k)).
  Proof.
    intros c n s t ss Hf Hc Hcode Hs Hself. rewrite eval_dot_sym.
    change (tr (EBin DOT l (ESym k))) with (tr l ++ [IVal (LStr k); IIndex]) in *.
    cbn [frag] in Hf. apply andb_true_iff in Hf as [Hfl _]. split_code.
    eapply simk_expr; eauto using reaches_refl. intros lv lw Rl Hr1.
    eapply simk_prim with (o := vm_index fo (negb strict_) lw (WStr k)) (s' := WStr k :: lw :: s).
    - eapply reach_step; [exact Hr1|eassumption|discriminate|reflexivity].
    - eassumption.
    - discriminate.
    - intros. apply exec_index.
    - apply index_rel'; auto. constructor.
    - rewrite app_length. cbn. lia.
  Qed.

  (* ---------------- statements ---------------- *)
  Definition sim_ss (F : nat) : Prop :=
    forall ss c n s t sst,
      forallb frag_stmt ss = true -> ctx_ok c -> code_at n (translate ss) ->
      scope_rel (sc fo c) t -> self_rel (self_v fo c) sst ->
      match exec_list fo F c ss with
      | Ok s' => exists t', scope_rel s' t' /\ (sorted t -> sorted t') /\
                            reaches (mk n s t sst) (mk (n + List.length (translate ss)) s t' sst)
      | Err => errs (mk n s t sst)
      | _ => True
      end.

  Lemma translate_cons s ss : translate (s :: ss) = tr_stmt s ++ translate ss.
  Proof. reflexivity. Qed.

  Lemma exec_bind rn n w x s t ss :
    exec rn IBind (mk n (w :: WSym x :: s) t ss) =
    vdo t' <- binding_push fo t x w true; VOk (mk (S n) s t' ss).
  Proof. cbn -[binding_push]. destruct (binding_push fo t x w true); reflexivity. Qed.

  Lemma sim_ss_S F (IH : sim_e F) (IHF : sim_ss F) : sim_ss (S F).
  Proof.
    intros ss c n s t sst Hf Hc Hcode Hs Hself.
    destruct ss as [|st ss].
    - rewrite exec_list_nil. exists t; split; [|split]; auto.
      eapply reaches_eq; [apply reaches_refl|]. cbn. unfold Compile_Base.mk. f_equal. lia.
    - rewrite exec_list_cons. rewrite translate_cons in *.
      cbn [forallb] in Hf. apply andb_true_iff in Hf as [Hfs Hfss].
      apply code_at_app in Hcode as [Hc1 Hc2].
      assert (Hk : forall s1 t1,
                 scope_rel s1 t1 -> (sorted t -> sorted t1) ->
                 reaches (mk n s t sst) (mk (n + List.length (tr_stmt st)) s t1 sst) ->
                 match exec_list fo F (with_scope fo c s1) ss with
                 | Ok s' => exists t', scope_rel s' t' /\ (sorted t -> sorted t') /\
                      reaches (mk n s t sst) (mk (n + List.length (tr_stmt st ++ translate ss)) s t' sst)
                 | Err => errs (mk n s t sst)
                 | _ => True
                 end).
      { intros s1 t1 Hs1 Hso1 Hr1.
        pose proof (IHF ss (with_scope fo c s1) (n + List.length (tr_stmt st)) s t1 sst Hfss Hc Hc2 Hs1 Hself) as H.
        destruct (exec_list fo F (with_scope fo c s1) ss) as [s'| | |]; auto.
        - destruct H as (t' & Hs' & Hso' & Hr2). exists t'; split; [|split]; auto.
          eapply reaches_trans; [exact Hr1|]. eapply reaches_eq; [exact Hr2|].
          unfold Compile_Base.mk. f_equal. rewrite app_length. lia.
        - eapply reaches_errs; eauto. }
      destruct st as [x e|e|e|ty e]; try discriminate.
      + (* let *)
        cbn [frag_stmt] in Hfs.
        cbn [tr_stmt] in *. apply code_at_cons in Hc1 as [Hi1 Hc1]. apply code_at_app in Hc1 as [Hc1 Hi2].
        apply code_at_cons in Hi2 as [Hi2 _].
        assert (Hr0 : reaches (mk n s t sst) (mk (S n) (WSym x :: s) t sst)).
        { eapply step_simple; [exact Hi1|discriminate|reflexivity]. }
        pose proof (IH e c (S n) (WSym x :: s) t sst Hfs Hc Hc1 Hs Hself) as He.
        destruct (eval fo F c e) as [v| | |]; cbn [bind]; try exact I.
        2: { eapply reaches_errs; eauto. }
        destruct He as (w & Hvw & Hr1).
        pose proof (Hs x) as Hlx.
        assert (Hbp : binding_push fo t x w true =
                      if is_reserved x then VErr
                      else match lookup fo x (sc fo c) with Some _ => VErr | None => VOk (sym_add x w t) end).
        { unfold binding_push. rewrite reserved_agree. destruct (is_reserved x); auto.
          unfold sym_bound. inversion Hlx; reflexivity. }
        destruct (is_reserved x).
        * cbn [bind]. eapply reaches_errs; [exact Hr0|]. eapply reaches_errs; [exact Hr1|].
          eapply step_simple_err; [exact Hi2|discriminate|]. intros rn. rewrite exec_bind, Hbp. reflexivity.
        * destruct (lookup fo x (sc fo c)) eqn:El.
          -- cbn [bind]. eapply reaches_errs; [exact Hr0|]. eapply reaches_errs; [exact Hr1|].
             eapply step_simple_err; [exact Hi2|discriminate|]. intros rn. rewrite exec_bind, Hbp. reflexivity.
          -- cbn [bind]. apply Hk with (t1 := sym_add x w t).
             ++ apply scope_rel_add; auto.
             ++ apply sorted_sym_add.
             ++ eapply reaches_trans; [exact Hr0|]. eapply reaches_trans; [exact Hr1|].
                eapply reaches_eq; [eapply step_simple; [exact Hi2|discriminate|]|].
                ** intros rn. rewrite exec_bind, Hbp. reflexivity.
                ** unfold Compile_Base.mk. f_equal. cbn. rewrite app_length. cbn. lia.
      + (* expression statement *)
        cbn [frag_stmt] in Hfs. cbn [tr_stmt] in *.
        apply code_at_app in Hc1 as [Hc1 Hi2]. apply code_at_cons in Hi2 as [Hi2 _].
        pose proof (IH e c n s t sst Hfs Hc Hc1 Hs Hself) as He.
        destruct (eval fo F c e) as [v| | |]; cbn [bind]; try exact I; [|exact He].
        destruct He as (w & Hvw & Hr1).
        apply Hk with (t1 := t); auto.
        eapply reaches_trans; [exact Hr1|].
        eapply reaches_eq; [eapply step_simple; [exact Hi2|discriminate|reflexivity]|].
        unfold Compile_Base.mk, next, with_stk, with_pc. cbn. f_equal. rewrite app_length. cbn. lia.
  Qed.

  (* ---------------- copy ---------------- *)
  Definition sim_copy (f : nat) : Prop :=
    forall tv tw fs c n s t ss,
      val_rel tv tw -> frags fs = true -> ctx_ok c -> code_at n (copy_code (tr_fields fs)) ->
      scope_rel (sc fo c) t -> self_rel (self_v fo c) ss ->
      simk val_rel (mk n (tw :: s) t ss) (copy_into fo f c tv fs)
           (n + List.length (copy_code (tr_fields fs))) s t ss.

  Lemma exec_cp_tuple rn n ovw basew s t ss :
    exec rn ICp (mk n (WTuple ovw :: WTuple basew :: s) t ss) =
    vdo r <- wmerge_fields basew ovw; VOk (mk (S n) (WTuple r :: s) t ss).
  Proof. cbn. destruct (wmerge_fields basew ovw); reflexivity. Qed.

  Lemma exec_cp_mod rn n ovw ptr rp flds s t ss :
    exec rn ICp (mk n (WTuple ovw :: WMod ptr rp flds :: s) t ss) =
    vdo flds1 <- wmerge_fields flds ovw;
    vdo flds2 <- wmerge_field flds1 (b "this") (WMod ptr rp flds);
    vdo fin <- rn {| pc := S ptr; stk := [WTuple flds2; WSym (b "mod")]; syms := []; selfs := ss |};
    match rp with
    | Some tp =>
      if Nat.ltb tp (List.length C) then
        vdo fin2 <- rn (with_pc fo fin (S tp));
        vdo p <- pop fo (stk fin2);
        VOk (mk (S n) (fst p :: s) t ss)
      else VBug
    | None => VOk (mk (S n) (symbols_to_tuple fo (syms fin) false :: s) t ss)
    end.
  Proof.
    cbn -[wmerge_fields wmerge_field Nat.ltb symbols_to_tuple].
    destruct (wmerge_fields flds ovw) as [f1| | | |]; cbn -[wmerge_field Nat.ltb symbols_to_tuple]; auto.
    destruct (wmerge_field f1 _ _) as [f2| | | |]; cbn -[Nat.ltb symbols_to_tuple]; auto.
    destruct (rn _) as [fin| | | |]; cbn -[Nat.ltb symbols_to_tuple]; auto.
    destruct rp; auto. destruct (Nat.ltb _ _); auto.
    destruct (rn _) as [fin2| | | |]; cbn; auto.
    destruct (pop fo (stk fin2)) as [[v r]| | | |]; reflexivity.
  Qed.

  Lemma sim_copy_S f (IH : sim_e f) (IHs : sim_ss f) : sim_copy (S f).
  Proof.
    intros tv tw fs c n s t ss Hvw Hf Hc Hcode Hs Hself. rewrite copy_into_eq.
    unfold copy_code in *. cbn [app] in Hcode. split_code.
    assert (Hc' : ctx_ok (with_self fo c (Some tv))) by exact Hc.
    assert (Hself' : self_rel (self_v fo (with_self fo c (Some tv))) (tw :: ss)).
    { cbn. constructor. exact Hvw. }
    assert (Hr0 : reaches (mk n (tw :: s) t ss) (mk (S (S n)) (WTuple [] :: tw :: s) t (tw :: ss))).
    { eapply reach_step; [eapply step_simple; [eassumption|discriminate|reflexivity]
                         |eassumption|discriminate|reflexivity]. }
    pose proof (sim_fields f IH (with_self fo c (Some tv)) t (tw :: ss) Hc' Hs Hself' fs [] [] (S (S n))
                           (tw :: s) (mk n (tw :: s) t ss) Hf ltac:(assumption) ltac:(constructor) Hr0) as Hfl.
    destruct (tuple_lit_f fo f (with_self fo c (Some tv)) fs (Ok [])) as [ovs| | |]; cbn [bind]; try exact I.
    2: { cbn in Hfl |- *. exact Hfl. }
    destruct Hfl as (w & (ovw & -> & Hov) & Hr1).
    set (p := S (S n) + List.length (tr_fields fs)) in *.
    assert (Hp : nth_error C p = Some ICp) by assumption.
    assert (Hp1 : nth_error C (S p) = Some IPopSelf) by assumption.
    assert (Herr : forall w0, (forall ov, w0 <> WTuple ov) -> (forall a c' d, w0 <> WMod a c' d) ->
                              val_rel tv w0 -> tw = w0 -> errs (mk n (tw :: s) t ss)).
    { intros w0 Hn1 Hn2 _ ->. eapply err_step; [exact Hr1|exact Hp|discriminate|].
      intros rn. cbn. destruct w0; try reflexivity.
      - exfalso; eapply Hn1; eauto.
      - exfalso; eapply Hn2; eauto. }
    (* the PopSelf step that ends every successful copy *)
    assert (Hfin : forall v w, val_rel v w ->
                     reaches (mk n (tw :: s) t ss) (mk (S p) (w :: s) t (tw :: ss)) ->
                     simk val_rel (mk n (tw :: s) t ss) (Ok v)
                          (n + List.length (IPushSelf :: IInitTuple :: tr_fields fs ++ [ICp; IPopSelf])) s t ss).
    { intros v w Rv Hr2. exists w; split; auto.
      eapply reaches_eq; [eapply reach_step; [exact Hr2|exact Hp1|discriminate|reflexivity]|subst p; pceq]. }
    pose proof Hvw as Hvw0.
    destruct Hvw; try (cbn; eapply Herr; [| |econstructor; eauto|reflexivity]; intros; discriminate).
    - (* tuple *)
      match goal with Hff : Forall2 _ fs0 fs' |- _ => pose proof (merge_fields_rel fo C _ _ Hov _ _ Hff) as Hm end.
      destruct (merge_fields fo fs0 ovs) as [r| | |]; cbn in Hm |- *; auto.
      + destruct Hm as (rw & Hm & Hrw). apply Hfin with (w := WTuple rw); [apply VR_tuple; exact Hrw|].
        eapply reach_step; [exact Hr1|exact Hp|discriminate|].
        intros rn. rewrite exec_cp_tuple, Hm. reflexivity.
      + eapply err_step; [exact Hr1|exact Hp|discriminate|].
        intros rn. rewrite exec_cp_tuple, Hm. reflexivity.
    - (* module *)
      match goal with
      | A : Forall2 _ ps flds, B : forallb frag_stmt body = true, D : code_at ptr _,
        E : match out with Some _ => _ | None => _ end |- _ =>
        rename A into Hps, B into Hfb, D into Hmc, E into Hout
      end.
      set (tw := WMod ptr rp flds) in *.
      pose proof (merge_fields_rel fo C _ _ Hov _ _ Hps) as Hm1.
      destruct (merge_fields fo ps ovs) as [flds1| | |]; cbn [bind]; try exact I.
      2: { unfold res_out in Hm1. eapply err_step; [exact Hr1|exact Hp|discriminate|].
           intros rn. subst tw. rewrite exec_cp_mod, Hm1. reflexivity. }
      destruct Hm1 as (flds1w & Hm1 & Hf1).
      pose proof (merge_field_rel fo C _ _ (b "this") _ _ Hf1 Hvw0) as Hm2.
      destruct (merge_field fo flds1 (b "this") (VModule ps out body)) as [flds2| | |]; cbn [bind]; try exact I.
      2: { unfold res_out in Hm2. eapply err_step; [exact Hr1|exact Hp|discriminate|].
           intros rn. subst tw. rewrite exec_cp_mod, Hm1. cbn [vbind]. rewrite Hm2. reflexivity. }
      destruct Hm2 as (flds2w & Hm2 & Hf2).
      cbv zeta.
      set (c0 := {| sc := [(b "mod", VTuple flds2)]; self_v := Some (VModule ps out body); envt := envt fo c;
                    strict := strict fo c; eq_ordered := eq_ordered fo c |}).
      assert (Hc0 : ctx_ok c0) by exact Hc.
      (* the nested run of the module body *)
      apply code_at_cons in Hmc as [Hmi Hmb]. apply code_at_cons in Hmb as [Hbi Hmb].
      apply code_at_app in Hmb as [Hmb Hmr]. apply code_at_cons in Hmr as [Hmr _].
      set (stb := mk (S ptr) [WTuple flds2w; WSym (b "mod")] [] (tw :: ss)).
      set (t0 := sym_add (b "mod") (WTuple flds2w) ([] : symtab fo)).
      assert (Hrb0 : reaches stb (mk (S (S ptr)) [] t0 (tw :: ss))).
      { eapply step_simple; [exact Hbi|discriminate|]. intros rn. subst stb. rewrite exec_bind. reflexivity. }
      assert (Hs0 : scope_rel (sc fo c0) t0).
      { subst t0 c0. cbn [sc]. apply scope_rel_add; [apply scope_rel_nil|]. apply VR_tuple; exact Hf2. }
      assert (Hself0 : self_rel (self_v fo c0) (tw :: ss)) by (constructor; exact Hvw0).
      pose proof (IHs body c0 (S (S ptr)) [] t0 (tw :: ss) Hfb Hc0 Hmb Hs0 Hself0) as Hb.
      assert (Hexec : forall rn, exec rn ICp (mk p (WTuple ovw :: tw :: s) t (tw :: ss)) =
                vdo fin <- rn {| pc := S ptr; stk := [WTuple flds2w; WSym (b "mod")]; syms := []; selfs := tw :: ss |};
                match rp with
                | Some tp =>
                  if Nat.ltb tp (List.length C) then
                    vdo fin2 <- rn (with_pc fo fin (S tp));
                    vdo p0 <- pop fo (stk fin2);
                    VOk (mk (S p) (fst p0 :: s) t (tw :: ss))
                  else VBug
                | None => VOk (mk (S p) (symbols_to_tuple fo (syms fin) false :: s) t (tw :: ss))
                end).
      { intros rn. subst tw. rewrite exec_cp_mod, Hm1. cbn [vbind]. rewrite Hm2. reflexivity. }
      destruct (exec_list fo f c0 body) as [s'| | |]; cbn [bind]; try exact I.
      2: { (* the body fails *)
           assert (Hbe : errs stb) by (eapply reaches_errs; [exact Hrb0|exact Hb]).
           destruct Hbe as (k & Hk). eapply reaches_errs; [exact Hr1|].
           eapply step_err; [exact Hp|discriminate|]. exists k. rewrite Hexec.
           unfold stb, Compile_Base.mk in Hk. rewrite Hk. reflexivity. }
      destruct Hb as (t' & Hs' & Hso' & Hrb1).
      set (pe := S (S ptr) + List.length (translate body)) in *.
      assert (Hret : returns fo C strict_ envv stb (mk pe [] t' (tw :: ss))).
      { eapply reaches_returns; [eapply reaches_trans; [exact Hrb0|exact Hrb1]|]. left. exact Hmr. }
      destruct Hret as (k1 & Hk1).
      assert (Hso : sorted t') by (apply Hso'; subst t0; cbn; auto).
      destruct out as [oe|].
      + (* out expression: a second nested run at the thunk *)
        destruct Hout as (Hfo & tp & -> & Htc).
        apply code_at_cons in Htc as [Hti Hto]. apply code_at_app in Hto as [Hto Htr].
        apply code_at_cons in Htr as [Htr _].
        assert (Hlt : Nat.ltb tp (List.length C) = true).
        { apply Nat.ltb_lt. apply nth_error_Some. rewrite Hti. discriminate. }
        assert (Hco : ctx_ok (with_scope fo c0 s')) by exact Hc.
        pose proof (IH oe (with_scope fo c0 s') (S tp) [] t' (tw :: ss) Hfo Hco Hto Hs' Hself0) as Ho.
        destruct (eval fo f (with_scope fo c0 s') oe) as [v| | |]; try exact I.
        * destruct Ho as (w & Rv & Hro).
          destruct (reaches_returns fo C strict_ envv _ _ Hro) as (k2 & Hk2); [left; exact Htr|].
          apply Hfin with (w := w); auto.
          eapply reaches_trans; [exact Hr1|]. eapply step_ok; [exact Hp|discriminate|].
          exists (Nat.max k1 k2). intros k Hk. rewrite Hexec.
          pose proof (Hk1 k ltac:(lia)) as E1. unfold stb, Compile_Base.mk in E1. rewrite E1. cbn [vbind].
          rewrite Hlt.
          pose proof (Hk2 k ltac:(lia)) as E2. unfold Compile_Base.mk in E2 at 1.
          unfold with_pc, Compile_Base.mk. cbn [stk syms selfs]. rewrite E2. reflexivity.
        * destruct Ho as (k2 & Hk2). eapply reaches_errs; [exact Hr1|].
          eapply step_err; [exact Hp|discriminate|]. exists (Nat.max k1 k2). rewrite Hexec.
          pose proof (Hk1 (Nat.max k1 k2) ltac:(lia)) as E1. unfold stb, Compile_Base.mk in E1. rewrite E1.
          cbn [vbind]. rewrite Hlt.
          pose proof (run_mono fo C strict_ envv _ (Nat.max k1 k2) _ _ Hk2 ltac:(discriminate) ltac:(lia)) as E2.
          unfold Compile_Base.mk in E2 at 1.
          unfold with_pc, Compile_Base.mk. cbn [stk syms selfs]. rewrite E2. reflexivity.
      + (* no out expression: the bindings of the body, without `mod` *)
        subst rp.
        apply Hfin with (w := symbols_to_tuple fo t' false).
        * unfold symbols_to_tuple. apply VR_tuple. apply module_export_rel; auto.
        * eapply reaches_trans; [exact Hr1|]. eapply step_ok; [exact Hp|discriminate|].
          exists k1. intros k Hk. rewrite Hexec.
          pose proof (Hk1 k Hk) as E1. unfold stb, Compile_Base.mk in E1. rewrite E1. reflexivity.
  Qed.

  Lemma sim_copy_expr f (IH : sim_e f) (IHc : sim_copy f) tg fs : sim_at (S f) (ECopy tg fs).
  Proof.
    intros c n s t ss Hf Hc Hcode Hs Hself. rewrite eval_copy. rewrite tr_copy in *.
    cbn [frag] in Hf. apply andb_true_iff in Hf as [Hft Hffs]. apply code_at_app in Hcode as [Hc1 Hc2].
    eapply simk_expr; eauto using reaches_refl. intros tv tw Rt Hr1.
    eapply simk_tgt.
    - eapply simk_from; [exact Hr1|]. apply IHc; auto.
    - rewrite app_length. lia.
  Qed.

  Lemma sel_key_rel sel : is_sel sel = true -> val_rel (sel_key_val fo sel) (lit_val fo (sel_lit sel)).
  Proof. destruct sel; try discriminate; constructor. Qed.

  Lemma sim_dot_copy f (IH : sim_e f) (IHc : sim_copy f) l sel fs :
    sim_at (S f) (EBin DOT l (ECopy sel fs)).
  Proof.
    intros c n s t ss Hf Hc Hcode Hs Hself.
    cbn [frag] in Hf. apply andb_true_iff in Hf as [Hf Hffs]. apply andb_true_iff in Hf as [Hfl Hsel].
    rewrite (eval_dot_copy fo f c l sel fs Hsel). rewrite (tr_dot_copy l sel fs Hsel) in *.
    apply code_at_app in Hcode as [Hc1 Hc2]. apply code_at_cons in Hc2 as [Hi1 Hc2].
    apply code_at_cons in Hc2 as [Hi2 Hc2].
    eapply simk_expr; eauto using reaches_refl. intros lv lw Rl Hr1.
    assert (Hr2 : reaches (mk n s t ss)
                          (mk (S (n + List.length (tr l))) (lit_val fo (sel_lit sel) :: lw :: s) t ss)).
    { eapply reach_step; [exact Hr1|exact Hi1|discriminate|reflexivity]. }
    pose proof (index_rel' c lv _ lw _ Hc Rl (sel_key_rel sel Hsel)) as Hix.
    destruct (index fo c lv (sel_key_val fo sel)) as [tv| | |]; cbn [bind]; try exact I.
    - destruct Hix as (tw & Hix & Rt).
      eapply simk_tgt.
      + eapply simk_from with (st1 := mk (S (S (n + List.length (tr l)))) (tw :: s) t ss).
        * eapply reach_step; [exact Hr2|exact Hi2|discriminate|].
          intros rn. rewrite exec_index, Hix. reflexivity.
        * apply IHc; auto.
      + rewrite app_length. cbn. lia.
    - cbn in Hix |- *. eapply err_step; [exact Hr2|exact Hi2|discriminate|].
      intros rn. rewrite exec_index, Hix. reflexivity.
  Qed.

  (* ---------------- range ---------------- *)
  Lemma range_rel sv stv ev sw stw ew :
    val_rel sv sw -> val_rel stv stw -> val_rel ev ew ->
    res_out val_rel (range_sem fo sv stv ev) (vm_range fo sw stw ew).
  Proof.
    intros H1 H2 H3.
    destruct H1; try (destruct H2; reflexivity).
    destruct H2; try reflexivity.
    - (* no step *)
      destruct H3; try reflexivity. cbn.
      destruct (Z.ltb range_limit (range_len z 1 z0)); cbn; auto.
      eexists; split; [reflexivity|]. apply VR_list. apply range_from_rel.
    - destruct H3; try reflexivity. cbn.
      destruct (Z.leb z0 0); cbn; auto.
      destruct (Z.ltb range_limit (range_len z z0 z1)); cbn; auto.
      eexists; split; [reflexivity|]. apply VR_list. apply range_from_rel.
  Qed.

  Lemma sim_range f (IH : sim_e f) st stp en : sim_at (S f) (ERange st stp en).
  Proof.
    intros c n s t ss Hf Hc Hcode Hs Hself. rewrite eval_range.
    change (tr (ERange st stp en)) with
      (tr en ++ (match stp with Some s => tr s | None => [IVal LEmpty] end) ++ tr st ++ [IRuntime HRange]) in *.
    cbn [frag] in Hf. apply andb_true_iff in Hf as [Hf Hfen]. apply andb_true_iff in Hf as [Hfst Hfstp].
    apply code_at_app in Hcode as [Hc1 Hc2]. apply code_at_app in Hc2 as [Hc2 Hc3].
    apply code_at_app in Hc3 as [Hc3 Hc4]. apply code_at_cons in Hc4 as [Hc4 _].
    eapply simk_expr; eauto using reaches_refl. intros env_ enw Re Hr1.
    set (cs := match stp with Some s => tr s | None => [IVal LEmpty] end) in *.
    assert (Hstep : forall stv stw,
               val_rel stv stw ->
               reaches (mk n s t ss) (mk (n + List.length (tr en) + List.length cs) (stw :: enw :: s) t ss) ->
               simk val_rel (mk n s t ss) (do sv <- eval fo f c st; range_sem fo sv stv env_)
                    (n + List.length (tr en ++ cs ++ tr st ++ [IRuntime HRange])) s t ss).
    { intros stv stw Rs Hr2.
      eapply simk_expr; eauto. intros sv sw Rsv Hr3.
      eapply simk_prim with (o := vm_range fo sw stw enw);
        [exact Hr3|exact Hc4|discriminate| |apply range_rel; auto|subst cs; destruct stp; rewrite !app_length; cbn [List.length]; lia].
      intros rn. cbn -[vm_range]. destruct (vm_range fo sw stw enw); reflexivity. }
    destruct stp as [se|].
    - eapply simk_expr; eauto.
    - cbn [bind]. eapply Hstep; [constructor|].
      apply code_at_cons in Hc2 as [Hc2 _].
      eapply reaches_eq; [eapply reach_step; [exact Hr1|exact Hc2|discriminate|reflexivity]|subst cs; pceq].
  Qed.

  (* ---------------- function values and calls ---------------- *)
  Lemma exec_fcall_func rn n ptr bs snap (m : Z) rest t ss :
    exec rn IFCall (mk n (WFunc ptr bs snap :: WInt m :: rest) t ss) =
    if Z.ltb (Z.of_nat (List.length bs)) m then VErr
    else if Z.ltb m (Z.of_nat (List.length bs)) then VErr
    else vdo p <- fcall_impl fo rn ptr bs snap rest; VOk (mk (S n) (fst p :: snd p) t ss).
  Proof.
    cbn -[fcall_impl Z.ltb Z.of_nat]. destruct (Z.ltb (Z.of_nat (List.length bs)) m); [reflexivity|].
    destruct (Z.ltb m (Z.of_nat (List.length bs))); [reflexivity|]. cbn -[fcall_impl].
    destruct (fcall_impl fo rn ptr bs snap rest) as [[v s3]| | | |]; reflexivity.
  Qed.

  Lemma sim_fcall f (IH : sim_e f) c fv fw avs avw n s t ss st0 :
    ctx_ok c -> val_rel fv fw -> Forall2 val_rel avs avw -> nth_error C n = Some IFCall ->
    reaches st0 (mk n (fw :: WInt (Z.of_nat (List.length avs)) :: rev avw ++ s) t ss) ->
    simk val_rel st0 (call_f fo f c fv avs) (S n) s t ss.
  Proof.
    intros Hc Hfw Hav Hn Hr.
    destruct Hfw; try (cbn; eapply err_step; [exact Hr|exact Hn|discriminate|reflexivity]).
    (* a function *)
    cbn [call_f].
    assert (Hlen : List.length (rev ps) = List.length ps) by apply rev_length.
    destruct (Nat.eqb (List.length ps) (List.length avs)) eqn:El; cbn [negb].
    2: { apply Nat.eqb_neq in El. cbn. eapply err_step; [exact Hr|exact Hn|discriminate|].
         intros rn. rewrite exec_fcall_func, Hlen.
         destruct (Z.ltb_spec (Z.of_nat (List.length ps)) (Z.of_nat (List.length avs))); [reflexivity|].
         destruct (Z.ltb_spec (Z.of_nat (List.length avs)) (Z.of_nat (List.length ps))); [reflexivity|]. lia. }
    apply Nat.eqb_eq in El.
    assert (Hex : forall rn, exec rn IFCall (mk n (WFunc ptr (rev ps) snap :: WInt (Z.of_nat (List.length avs)) :: rev avw ++ s) t ss) =
                             vdo p <- fcall_impl fo rn ptr (rev ps) snap (rev avw ++ s); VOk (mk (S n) (fst p :: snd p) t ss)).
    { intros rn. rewrite exec_fcall_func, Hlen, El. rewrite !Z.ltb_irrefl. reflexivity. }
    pose proof (bind_rel fo C ps avs avw clo snap s H0 Hav El H2) as Hb.
    destruct (bind_params fo ps avs clo) as [sc'| | |]; cbn [bind]; try exact I.
    2: { cbn. eapply err_step; [exact Hr|exact Hn|discriminate|].
         intros rn. rewrite Hex. unfold fcall_impl. rewrite Hb. reflexivity. }
    destruct Hb as (t' & Hb & Hsc).
    apply code_at_cons in H1 as [Hfn Hbody]. apply code_at_app in Hbody as [Hbody Hret].
    apply code_at_cons in Hret as [Hret _].
    assert (Hc' : ctx_ok (fn_ctx fo c sc')) by exact Hc.
    pose proof (IH body (fn_ctx fo c sc') (S ptr) [] t' [] H Hc' Hbody Hsc ltac:(constructor)) as Hb1.
    destruct (eval fo f (fn_ctx fo c sc') body) as [v| | |]; cbn in Hb1 |- *; auto.
    - destruct Hb1 as (w & Hvw & Hrb). exists w; split; auto.
      eapply reaches_trans; [exact Hr|].
      destruct (reaches_returns fo C strict_ envv _ _ Hrb) as (k0 & Hk0).
      { left. exact Hret. }
      eapply step_ok; [exact Hn|discriminate|].
      exists k0. intros k Hk. rewrite Hex. unfold fcall_impl. rewrite Hb. cbn [vbind].
      pose proof (Hk0 k Hk) as Hk1. unfold Compile_Base.mk in Hk1 at 1. rewrite Hk1. reflexivity.
    - eapply reaches_errs; [exact Hr|]. destruct Hb1 as (k & Hk).
      eapply step_err; [exact Hn|discriminate|]. exists k.
      rewrite Hex. unfold fcall_impl. rewrite Hb. cbn [vbind]. unfold Compile_Base.mk in Hk at 1. rewrite Hk. reflexivity.
  Qed.

  Lemma sim_call f (IH : sim_e f) fn args : sim_at (S f) (ECall fn args).
  Proof.
    intros c n s t ss Hf Hc Hcode Hs Hself. rewrite eval_call.
    change (tr (ECall fn args)) with
      (cat_map tr args ++ IVal (LInt (Z.of_nat (List.length args))) :: tr fn ++ [IFCall]) in *.
    cbn [frag] in Hf. apply andb_true_iff in Hf as [Hffn Hfargs].
    apply code_at_app in Hcode as [Hc1 Hc2]. apply code_at_cons in Hc2 as [Hc2 Hc3].
    apply code_at_app in Hc3 as [Hc3 Hc4]. apply code_at_cons in Hc4 as [Hc4 _].
    pose proof (sim_args f IH c t ss Hc Hs Hself args n s (mk n s t ss) Hfargs Hc1
                         (reaches_refl fo C strict_ envv _)) as Ha.
    destruct (mapM (eval fo f c) args) as [avs| | |] eqn:Em; cbn [bind]; try exact I; [|exact Ha].
    destruct Ha as (avw & Hav & Hr1).
    eapply simk_expr with (s1 := WInt (Z.of_nat (List.length args)) :: rev avw ++ s); eauto.
    { eapply reach_step; [exact Hr1|exact Hc2|discriminate|reflexivity]. }
    intros fv fw Rf Hr2.
    eapply simk_tgt.
    - eapply sim_fcall; eauto. rewrite (mapM_length _ _ _ Em). exact Hr2.
    - rewrite !app_length. cbn. rewrite app_length. cbn. lia.
  Qed.

  Lemma sim_dot_call f (IH : sim_e f) l sel args : sim_at (S f) (EBin DOT l (ECall sel args)).
  Proof.
    intros c n s t ss Hf Hc Hcode Hs Hself.
    cbn [frag] in Hf. apply andb_true_iff in Hf as [Hf Hfargs]. apply andb_true_iff in Hf as [Hfl Hsel].
    rewrite (eval_dot_call fo f c l sel args Hsel). rewrite (tr_dot_call l sel args Hsel) in *.
    apply code_at_app in Hcode as [Hc1 Hc2]. apply code_at_cons in Hc2 as [Hc2 Hc3].
    apply code_at_app in Hc3 as [Hc3 Hc4]. apply code_at_cons in Hc4 as [Hc4 Hc5].
    apply code_at_cons in Hc5 as [Hc5 Hc6]. apply code_at_cons in Hc6 as [Hc6 _].
    pose proof (sim_args f IH c t ss Hc Hs Hself args n s (mk n s t ss) Hfargs Hc1
                         (reaches_refl fo C strict_ envv _)) as Ha.
    destruct (mapM (eval fo f c) args) as [avs| | |] eqn:Em; cbn [bind]; try exact I; [|exact Ha].
    destruct Ha as (avw & Hav & Hr1).
    eapply simk_expr with (s1 := WInt (Z.of_nat (List.length args)) :: rev avw ++ s); eauto.
    { eapply reach_step; [exact Hr1|exact Hc2|discriminate|reflexivity]. }
    intros lv lw Rl Hr2.
    set (p := S (n + List.length (cat_map tr args)) + List.length (tr l)) in *.
    assert (Hr3 : reaches (mk n s t ss)
                    (mk (S p) (lit_val fo (sel_lit sel) :: lw :: WInt (Z.of_nat (List.length args)) :: rev avw ++ s) t ss)).
    { eapply reach_step; [exact Hr2|exact Hc4|discriminate|reflexivity]. }
    pose proof (index_rel' c lv _ lw _ Hc Rl (sel_key_rel sel Hsel)) as Hix.
    destruct (index fo c lv (sel_key_val fo sel)) as [fv| | |]; cbn [bind]; try exact I.
    - destruct Hix as (fw & Hix & Rf).
      eapply simk_tgt.
      + eapply sim_fcall with (n := S (S p)); eauto. rewrite (mapM_length _ _ _ Em).
        eapply reach_step; [exact Hr3|exact Hc5|discriminate|].
        intros rn. rewrite exec_index, Hix. reflexivity.
      + subst p. rewrite !app_length. cbn. rewrite app_length. cbn. lia.
    - cbn in Hix |- *. eapply err_step; [exact Hr3|exact Hc5|discriminate|].
      intros rn. rewrite exec_index, Hix. reflexivity.
  Qed.

  Lemma sim_params ps : forall accw n s t ss st0,
    code_at n (cat_map (fun p => [ISym p; IElement]) ps) ->
    reaches st0 (mk n (WList accw :: s) t ss) ->
    reaches st0 (mk (n + List.length (cat_map (fun p => [ISym p; IElement]) ps))
                    (WList (accw ++ map (fun p => WSym p) ps) :: s) t ss).
  Proof.
    induction ps as [|p ps IHp]; intros accw n s t ss st0 Hcode Hr.
    - cbn. rewrite app_nil_r. eapply reaches_eq; [exact Hr|pceq].
    - cbn [cat_map app map] in *. split_code.
      eapply reaches_eq.
      + eapply IHp with (accw := accw ++ [WSym p]) (n := S (S n)); [assumption|].
        eapply reach_step; [eapply reach_step; [exact Hr|eassumption|discriminate|reflexivity]
                           |eassumption|discriminate|reflexivity].
      + rewrite <- app_assoc. cbn. pceq.
  Qed.

  Lemma func_names ps :
    (fix go (l : list wval) : outcome (list bytes) :=
       match l with
       | [] => VOk []
       | WSym nm :: l' => vdo r <- go l'; VOk (nm :: r)
       | _ :: _ => VErr
       end) (map (fun p => WSym p) ps) = VOk ps.
  Proof. induction ps as [|p ps IHp]; cbn; auto. rewrite IHp. reflexivity. Qed.

  Lemma sim_func f ps body : sim_at (S f) (EFunc ps body).
  Proof.
    intros c n s t ss Hf Hc Hcode Hs Hself. rewrite eval_func.
    change (tr (EFunc ps body)) with
      (IInitList :: cat_map (fun p => [ISym p; IElement]) ps ++
                 IFunc (S (List.length (tr body))) :: tr body ++ [IReturn]) in *.
    cbn [frag] in Hf. apply andb_true_iff in Hf as [Hps Hfb].
    apply code_at_cons in Hcode as [Hc1 Hc2]. apply code_at_app in Hc2 as [Hc2 Hc3].
    set (p := S n + List.length (cat_map (fun p => [ISym p; IElement]) ps)) in *.
    assert (Hb : p + S (List.length (tr body)) < List.length C).
    { eapply code_at_lt; [exact Hc3|]. cbn. rewrite app_length. cbn. lia. }
    pose proof Hc3 as Hclo. apply code_at_cons in Hc3 as [Hc3 _].
    exists (WFunc p (rev ps) t); split.
    - constructor; auto.
    - assert (Hr1 : reaches (mk n s t ss) (mk p (WList (map (fun p => WSym p) ps) :: s) t ss)).
      { apply (sim_params ps [] (S n) s t ss); [exact Hc2|].
        eapply step_simple; [exact Hc1|discriminate|reflexivity]. }
      eapply reaches_eq; [eapply reach_step; [exact Hr1|exact Hc3|discriminate|]|].
      + intros rn. cbn -[jump]. rewrite func_names. cbn -[jump]. apply jump_ok. exact Hb.
      + subst p. pceq.
  Qed.

  Lemma sim_select f (IH : sim_e f) ve dflt arms : sim_at (S f) (ESelect ve dflt arms).
  Proof.
    intros c n s t ss Hf Hc Hcode Hs Hself. rewrite eval_select. rewrite tr_select in *.
    cbn [frag] in Hf. apply andb_true_iff in Hf as [Hf Hfarms]. apply andb_true_iff in Hf as [Hfv Hfd].
    apply code_at_app in Hcode as [Hc1 Hc2].
    eapply simk_expr; eauto using reaches_refl. intros v w Rv Hr1.
    eapply simk_tgt.
    - eapply sim_arms with (dflt := dflt); eauto.
      destruct dflt; auto.
    - rewrite app_length. unfold arm_codes. lia.
  Qed.


  (* ---------------- map / filter / reduce ---------------- *)
  (* one callback invocation: the callee pops its arguments and returns one value *)
  Lemma call_sim f (IH : sim_e f) c fv ptr bs snap avs avw s :
    ctx_ok c -> val_rel fv (WFunc ptr bs snap) -> Forall2 val_rel avs avw ->
    List.length bs = List.length avs ->
    match call_f fo f c fv avs with
    | Ok v => exists w, val_rel v w /\
                        exists k0, forall k, k0 <= k ->
                                             fcall_impl fo (run k) ptr bs snap (rev avw ++ s) = VOk (w, s)
    | Err => exists k0, forall k, k0 <= k -> fcall_impl fo (run k) ptr bs snap (rev avw ++ s) = VErr
    | _ => True
    end.
  Proof.
    intros Hc Hfw Hav Hlen. inversion Hfw as [| | | | | | |ps body clo ptr' snap' Hfb Hps Hcode Hclo|]; subst.
    cbn [call_f]. rewrite rev_length in Hlen. rewrite Hlen, Nat.eqb_refl. cbn [negb].
    pose proof (bind_rel fo C ps avs avw clo snap s Hps Hav Hlen Hclo) as Hb.
    destruct (bind_params fo ps avs clo) as [sc'| | |]; cbn [bind]; try exact I.
    2: { exists 0. intros k _. unfold fcall_impl. rewrite Hb. reflexivity. }
    destruct Hb as (t' & Hb & Hsc).
    apply code_at_cons in Hcode as [Hfn Hbody]. apply code_at_app in Hbody as [Hbody Hret].
    apply code_at_cons in Hret as [Hret _].
    assert (Hc' : ctx_ok (fn_ctx fo c sc')) by exact Hc.
    pose proof (IH body (fn_ctx fo c sc') (S ptr) [] t' [] Hfb Hc' Hbody Hsc ltac:(constructor)) as Hb1.
    destruct (eval fo f (fn_ctx fo c sc') body) as [v| | |]; cbn in Hb1 |- *; auto.
    - destruct Hb1 as (w & Hvw & Hrb). exists w; split; auto.
      destruct (reaches_returns fo C strict_ envv _ _ Hrb) as (k0 & Hk0).
      { left. exact Hret. }
      exists k0. intros k Hk. unfold fcall_impl. rewrite Hb. cbn [vbind].
      pose proof (Hk0 k Hk) as Hk1. unfold Compile_Base.mk in Hk1 at 1. rewrite Hk1. reflexivity.
    - destruct Hb1 as (k0 & Hk0). exists k0. intros k Hk. unfold fcall_impl. rewrite Hb. cbn [vbind].
      unfold Compile_Base.mk in Hk0 at 1.
      rewrite (run_mono fo C strict_ envv _ _ _ _ Hk0 ltac:(discriminate) Hk). reflexivity.
  Qed.

  Definition keeps_rel v w : val_rel v w -> keeps fo w = keep_sem fo v.
  Proof. destruct 1; try reflexivity; destruct v; reflexivity. Qed.

  Section Loops.
    Variables (f : nat) (IH : sim_e f) (c : ctx) (fv : value) (ptr : nat) (bs : list bytes) (snap : symtab fo).
    Hypothesis Hc : ctx_ok c.
    Hypothesis Hfw : val_rel fv (WFunc ptr bs snap).

    (* outcome of a VM loop that returns a result together with the (restored) stack *)
    Definition loop_ok {A W} (R : A -> W -> Prop) (r : res A) (g : nat -> outcome (W * list wval)) (s : list wval) : Prop :=
      match r with
      | Ok a => exists w, R a w /\ exists k0, forall k, k0 <= k -> g k = VOk (w, s)
      | Err => exists k0, forall k, k0 <= k -> g k = VErr
      | _ => True
      end.

    Lemma map_list_sim l lw s : List.length bs = 1 -> Forall2 val_rel l lw ->
      loop_ok (Forall2 val_rel) (mapM (fun v => call_f fo f c fv [v]) l)
              (fun k => map_list fo (run k) ptr bs snap lw s) s.
    Proof.
      intros Hb Hl. induction Hl as [|v w l lw Hvw Hl IHl]; cbn [mapM map_list].
      - exists []; split; [constructor|]. exists 0; auto.
      - pose proof (call_sim f IH c fv ptr bs snap [v] [w] s Hc Hfw ltac:(repeat constructor; auto) Hb) as H1.
        unfold call_with. cbn [rev app] in H1.
        destruct (call_f fo f c fv [v]) as [r| | |]; cbn [bind]; try exact I.
        + destruct H1 as (rw & Hr & k1 & Hk1). unfold loop_ok in IHl.
          destruct (mapM (fun v0 => call_f fo f c fv [v0]) l) as [rs| | |]; cbn [bind]; try exact I.
          * destruct IHl as (rsw & Hrs & k2 & Hk2). exists (rw :: rsw); split; [constructor; auto|].
            exists (Nat.max k1 k2). intros k Hk. cbn [app]. rewrite Hk1 by lia. cbn [vbind].
            rewrite Hk2 by lia. reflexivity.
          * destruct IHl as (k2 & Hk2). exists (Nat.max k1 k2). intros k Hk. cbn [app].
            rewrite Hk1 by lia. cbn [vbind]. rewrite Hk2 by lia. reflexivity.
        + destruct H1 as (k1 & Hk1). exists k1. intros k Hk. cbn [app]. rewrite Hk1 by lia. reflexivity.
    Qed.

    Lemma map_tuple_sim l lw s : List.length bs = 2 -> Forall2 fld_rel l lw ->
      loop_ok (Forall2 fld_rel) (map_tuple_sem fo f c fv l)
              (fun k => map_tuple fo (run k) ptr bs snap lw s) s.
    Proof.
      intros Hb Hl. induction Hl as [|[k0 v] [k0' w] l lw [Hk Hvw] Hl IHl]; cbn [map_tuple_sem map_tuple].
      - exists []; split; [constructor|]. exists 0; auto.
      - cbn in Hk, Hvw. subst k0'.
        pose proof (call_sim f IH c fv ptr bs snap [VStr k0; v] [WStr k0; w] s Hc Hfw
                             ltac:(repeat constructor; auto) Hb) as H1.
        unfold call_with. cbn [rev app] in H1.
        destruct (call_f fo f c fv [VStr k0; v]) as [r| | |]; cbn [bind]; try exact I.
        2: { destruct H1 as (k1 & Hk1). exists k1. intros k Hk. cbn [app]. rewrite Hk1 by lia. reflexivity. }
        destruct H1 as (rw & Hr & k1 & Hk1). unfold loop_ok in IHl.
        assert (Hskip : loop_ok (Forall2 fld_rel) (map_tuple_sem fo f c fv l)
                                (fun k => vdo p <- VOk (rw, s);
                                          (let '(r0, s1) := p in map_tuple fo (run k) ptr bs snap lw s1)) s).
        { exact IHl. }
        assert (Hgo : forall (body : nat -> outcome (list (bytes * wval) * list wval)) res0,
                   loop_ok (Forall2 fld_rel) res0 body s ->
                   (forall k, k1 <= k ->
                              (vdo p <- fcall_impl fo (run k) ptr bs snap ([w; WStr k0] ++ s);
                               (let '(r0, s1) := p in
                                match r0 with
                                | WList fval =>
                                  match fval with
                                  | [n; v'] =>
                                    match n with
                                    | WStr name =>
                                      vdo p0 <- map_tuple fo (run k) ptr bs snap lw s1;
                                      (let '(rs, s2) := p0 in VOk ((name, v') :: rs, s2))
                                    | _ => VErr
                                    end
                                  | _ => VErr
                                  end
                                | _ => map_tuple fo (run k) ptr bs snap lw s1
                                end)) = body k) ->
                   loop_ok (Forall2 fld_rel) res0
                           (fun k => vdo p <- fcall_impl fo (run k) ptr bs snap ([w; WStr k0] ++ s);
                               (let '(r0, s1) := p in
                                match r0 with
                                | WList fval =>
                                  match fval with
                                  | [n; v'] =>
                                    match n with
                                    | WStr name =>
                                      vdo p0 <- map_tuple fo (run k) ptr bs snap lw s1;
                                      (let '(rs, s2) := p0 in VOk ((name, v') :: rs, s2))
                                    | _ => VErr
                                    end
                                  | _ => VErr
                                  end
                                | _ => map_tuple fo (run k) ptr bs snap lw s1
                                end)) s).
        { intros body res0 Hbody Heq. unfold loop_ok in *. destruct res0 as [a| | |]; auto.
          - destruct Hbody as (aw & Ha & k2 & Hk2). exists aw; split; auto.
            exists (Nat.max k1 k2). intros k Hk. rewrite Heq by lia. apply Hk2. lia.
          - destruct Hbody as (k2 & Hk2). exists (Nat.max k1 k2). intros k Hk. rewrite Heq by lia. apply Hk2. lia. }
        destruct Hr.
        + (* NULL *) eapply Hgo; [exact IHl|]. intros k Hk. cbn [app]. rewrite Hk1 by lia. reflexivity.
        + eapply Hgo; [exact IHl|]. intros k Hk. cbn [app]. rewrite Hk1 by lia. reflexivity.
        + eapply Hgo; [exact IHl|]. intros k Hk. cbn [app]. rewrite Hk1 by lia. reflexivity.
        + eapply Hgo; [exact IHl|]. intros k Hk. cbn [app]. rewrite Hk1 by lia. reflexivity.
        + eapply Hgo; [exact IHl|]. intros k Hk. cbn [app]. rewrite Hk1 by lia. reflexivity.
        + (* a list: must be [name; value] *)
          destruct H as [|n nw l0 l0' Hn Hl0].
          { eapply Hgo with (body := fun _ => VErr); [exists 0; auto|].
            intros k Hk. cbn [app]. rewrite Hk1 by lia. reflexivity. }
          destruct Hl0 as [|v' v'w l1 l1' Hv' Hl1].
          { assert (E : match n with VStr _ => (Err : res (list (bytes * value))) | _ => Err end = Err)
              by (destruct n; reflexivity).
            destruct n; (eapply Hgo with (body := fun _ => VErr); [exists 0; auto|];
              intros k Hk; cbn [app]; rewrite Hk1 by lia; inversion Hn; subst; reflexivity). }
          destruct Hl1 as [|x xw l2 l2' Hx Hl2].
          2: { destruct n; (eapply Hgo with (body := fun _ => VErr); [exists 0; auto|];
                 intros k Hk; cbn [app]; rewrite Hk1 by lia; inversion Hn; subst; reflexivity). }
          destruct Hn; try (eapply Hgo with (body := fun _ => VErr); [exists 0; auto|];
                            intros k Hk; cbn [app]; rewrite Hk1 by lia; reflexivity).
          (* the name is a string *)
          destruct (map_tuple_sem fo f c fv l) as [rs| | |]; cbn [bind]; try exact I.
          * destruct IHl as (rsw & Hrs & k2 & Hk2). exists ((s0, v'w) :: rsw); split.
            { constructor; auto. split; auto. }
            exists (Nat.max k1 k2). intros k Hk. cbn [app]. rewrite Hk1 by lia. cbn [vbind].
            rewrite Hk2 by lia. reflexivity.
          * destruct IHl as (k2 & Hk2). exists (Nat.max k1 k2). intros k Hk. cbn [app].
            rewrite Hk1 by lia. cbn [vbind]. rewrite Hk2 by lia. reflexivity.
        + eapply Hgo; [exact IHl|]. intros k Hk. cbn [app]. rewrite Hk1 by lia. reflexivity.
        + eapply Hgo; [exact IHl|]. intros k Hk. cbn [app]. rewrite Hk1 by lia. reflexivity.
        + eapply Hgo; [exact IHl|]. intros k Hk. cbn [app]. rewrite Hk1 by lia. reflexivity.
    Qed.

    Lemma map_str_sim chars s : List.length bs = 1 ->
      loop_ok (fun (r : list bytes) (w : bytes) => w = concat r)
              (mapM (fun ch => do o <- call_f fo f c fv [VStr ch]; match o with VStr t => Ok t | _ => Err end) chars)
              (fun k => map_str fo (run k) ptr bs snap chars s) s.
    Proof.
      intros Hb. induction chars as [|ch chars IHl]; cbn [mapM map_str].
      - exists []; split; [reflexivity|]. exists 0; auto.
      - pose proof (call_sim f IH c fv ptr bs snap [VStr ch] [WStr ch] s Hc Hfw ltac:(repeat constructor; auto) Hb) as H1.
        unfold call_with. cbn [rev app] in H1.
        destruct (call_f fo f c fv [VStr ch]) as [r| | |]; cbn [bind]; try exact I.
        2: { destruct H1 as (k1 & Hk1). exists k1. intros k Hk. cbn [app]. rewrite Hk1 by lia. reflexivity. }
        destruct H1 as (rw & Hr & k1 & Hk1). unfold loop_ok in IHl.
        destruct Hr; try (cbn [bind]; exists k1; intros k Hk; cbn [app]; rewrite Hk1 by lia; reflexivity).
        cbn [bind].
        destruct (mapM _ chars) as [rs| | |]; cbn [bind]; try exact I.
        + destruct IHl as (rsw & -> & k2 & Hk2). exists (s0 ++ concat rs); split; [reflexivity|].
          exists (Nat.max k1 k2). intros k Hk. cbn [app]. rewrite Hk1 by lia. cbn [vbind].
          rewrite Hk2 by lia. reflexivity.
        + destruct IHl as (k2 & Hk2). exists (Nat.max k1 k2). intros k Hk. cbn [app].
          rewrite Hk1 by lia. cbn [vbind]. rewrite Hk2 by lia. reflexivity.
    Qed.

    Lemma filter_list_sim l lw s : List.length bs = 1 -> Forall2 val_rel l lw ->
      loop_ok (fun (r : list (bool * value)) w => Forall2 val_rel (map snd (filter fst r)) w)
              (mapM (fun v => do o <- call_f fo f c fv [v]; Ok (keep_sem fo o, v)) l)
              (fun k => filter_list fo (run k) ptr bs snap lw s) s.
    Proof.
      intros Hb Hl. induction Hl as [|v w l lw Hvw Hl IHl]; cbn [mapM filter_list].
      - exists []; split; [constructor|]. exists 0; auto.
      - pose proof (call_sim f IH c fv ptr bs snap [v] [w] s Hc Hfw ltac:(repeat constructor; auto) Hb) as H1.
        unfold call_with. cbn [rev app] in H1.
        destruct (call_f fo f c fv [v]) as [r| | |]; cbn [bind]; try exact I.
        2: { destruct H1 as (k1 & Hk1). exists k1. intros k Hk. cbn [app]. rewrite Hk1 by lia. reflexivity. }
        destruct H1 as (rw & Hr & k1 & Hk1). unfold loop_ok in IHl.
        destruct (mapM _ l) as [rs| | |]; cbn [bind]; try exact I.
        + destruct IHl as (rsw & Hrs & k2 & Hk2).
          exists (if keeps fo rw then w :: rsw else rsw); split.
          * cbn [filter fst]. rewrite (keeps_rel _ _ Hr). destruct (keep_sem fo r); cbn; auto.
          * exists (Nat.max k1 k2). intros k Hk. cbn [app]. rewrite Hk1 by lia. cbn [vbind].
            rewrite Hk2 by lia. reflexivity.
        + destruct IHl as (k2 & Hk2). exists (Nat.max k1 k2). intros k Hk. cbn [app].
          rewrite Hk1 by lia. cbn [vbind]. rewrite Hk2 by lia. reflexivity.
    Qed.

    Lemma filter_tuple_sim l lw s : List.length bs = 2 -> Forall2 fld_rel l lw ->
      loop_ok (fun (r : list (bool * (bytes * value))) w => Forall2 fld_rel (map snd (filter fst r)) w)
              (mapM (fun '(k, v) => do o <- call_f fo f c fv [VStr k; v]; Ok (keep_sem fo o, (k, v))) l)
              (fun k => filter_tuple fo (run k) ptr bs snap lw s) s.
    Proof.
      intros Hb Hl. induction Hl as [|[k0 v] [k0' w] l lw [Hk Hvw] Hl IHl]; cbn [mapM filter_tuple].
      - exists []; split; [constructor|]. exists 0; auto.
      - cbn in Hk, Hvw. subst k0'.
        pose proof (call_sim f IH c fv ptr bs snap [VStr k0; v] [WStr k0; w] s Hc Hfw
                             ltac:(repeat constructor; auto) Hb) as H1.
        unfold call_with. cbn [rev app] in H1.
        destruct (call_f fo f c fv [VStr k0; v]) as [r| | |]; cbn [bind]; try exact I.
        2: { destruct H1 as (k1 & Hk1). exists k1. intros k Hk. cbn [app]. rewrite Hk1 by lia. reflexivity. }
        destruct H1 as (rw & Hr & k1 & Hk1). unfold loop_ok in IHl.
        destruct (mapM _ l) as [rs| | |]; cbn [bind]; try exact I.
        + destruct IHl as (rsw & Hrs & k2 & Hk2).
          exists (if keeps fo rw then (k0, w) :: rsw else rsw); split.
          * cbn [filter fst]. rewrite (keeps_rel _ _ Hr). destruct (keep_sem fo r); cbn; auto.
            constructor; auto. split; auto.
          * exists (Nat.max k1 k2). intros k Hk. cbn [app]. rewrite Hk1 by lia. cbn [vbind].
            rewrite Hk2 by lia. reflexivity.
        + destruct IHl as (k2 & Hk2). exists (Nat.max k1 k2). intros k Hk. cbn [app].
          rewrite Hk1 by lia. cbn [vbind]. rewrite Hk2 by lia. reflexivity.
    Qed.

    Lemma filter_str_sim chars s : List.length bs = 1 ->
      loop_ok (fun (r : list (bool * bytes)) (w : bytes) => w = concat (map snd (filter fst r)))
              (mapM (fun ch => do o <- call_f fo f c fv [VStr ch]; Ok (keep_sem fo o, ch)) chars)
              (fun k => filter_str fo (run k) ptr bs snap chars s) s.
    Proof.
      intros Hb. induction chars as [|ch chars IHl]; cbn [mapM filter_str].
      - exists []; split; [reflexivity|]. exists 0; auto.
      - pose proof (call_sim f IH c fv ptr bs snap [VStr ch] [WStr ch] s Hc Hfw ltac:(repeat constructor; auto) Hb) as H1.
        unfold call_with. cbn [rev app] in H1.
        destruct (call_f fo f c fv [VStr ch]) as [r| | |]; cbn [bind]; try exact I.
        2: { destruct H1 as (k1 & Hk1). exists k1. intros k Hk. cbn [app]. rewrite Hk1 by lia. reflexivity. }
        destruct H1 as (rw & Hr & k1 & Hk1). unfold loop_ok in IHl.
        destruct (mapM _ chars) as [rs| | |]; cbn [bind]; try exact I.
        + destruct IHl as (rsw & -> & k2 & Hk2).
          exists (if keeps fo rw then ch ++ concat (map snd (filter fst rs)) else concat (map snd (filter fst rs))); split.
          * cbn [filter fst]. rewrite (keeps_rel _ _ Hr). destruct (keep_sem fo r); reflexivity.
          * exists (Nat.max k1 k2). intros k Hk. cbn [app]. rewrite Hk1 by lia. cbn [vbind].
            rewrite Hk2 by lia. reflexivity.
        + destruct IHl as (k2 & Hk2). exists (Nat.max k1 k2). intros k Hk. cbn [app].
          rewrite Hk1 by lia. cbn [vbind]. rewrite Hk2 by lia. reflexivity.
    Qed.

    Lemma fold_stuck {A} (g : res value -> A -> res value) (Hg : forall a r, match r with Ok _ => False | _ => True end -> g r a = r)
          l r : match r with Ok _ => False | _ => True end -> fold_left g l r = r.
    Proof. revert r. induction l as [|a l IHl]; intros r Hr; cbn; auto. rewrite Hg by auto. apply IHl; auto. Qed.

    Lemma reduce_list_sim l lw s : List.length bs = 2 -> Forall2 val_rel l lw ->
      forall acc accw, val_rel acc accw ->
      loop_ok val_rel (fold_left (fun a v => do a' <- a; call_f fo f c fv [a'; v]) l (Ok acc))
              (fun k => reduce_list fo (run k) ptr bs snap lw accw s) s.
    Proof.
      intros Hb Hl. induction Hl as [|v w l lw Hvw Hl IHl]; intros acc accw Hacc; cbn [fold_left reduce_list].
      - exists accw; split; auto. exists 0; auto.
      - cbn [bind].
        pose proof (call_sim f IH c fv ptr bs snap [acc; v] [accw; w] s Hc Hfw ltac:(repeat constructor; auto) Hb) as H1.
        unfold call_with. cbn [rev app] in H1.
        destruct (call_f fo f c fv [acc; v]) as [r| | |].
        + destruct H1 as (rw & Hr & k1 & Hk1). specialize (IHl r rw Hr). unfold loop_ok in *.
          destruct (fold_left _ l (Ok r)) as [a| | |]; auto.
          * destruct IHl as (aw & Ha & k2 & Hk2). exists aw; split; auto.
            exists (Nat.max k1 k2). intros k Hk. cbn [app]. rewrite Hk1 by lia. cbn [vbind]. apply Hk2. lia.
          * destruct IHl as (k2 & Hk2). exists (Nat.max k1 k2). intros k Hk. cbn [app].
            rewrite Hk1 by lia. cbn [vbind]. apply Hk2. lia.
        + rewrite fold_stuck; [|intros a r Hr; destruct r; try contradiction; reflexivity|exact I].
          destruct H1 as (k1 & Hk1). exists k1. intros k Hk. cbn [app]. rewrite Hk1 by lia. reflexivity.
        + rewrite fold_stuck; [exact I|intros a r Hr; destruct r; try contradiction; reflexivity|exact I].
        + rewrite fold_stuck; [exact I|intros a r Hr; destruct r; try contradiction; reflexivity|exact I].
    Qed.

    Lemma reduce_tuple_sim l lw s : List.length bs = 3 -> Forall2 fld_rel l lw ->
      forall acc accw, val_rel acc accw ->
      loop_ok val_rel (fold_left (fun a '(k, v) => do a' <- a; call_f fo f c fv [a'; VStr k; v]) l (Ok acc))
              (fun k => reduce_tuple fo (run k) ptr bs snap lw accw s) s.
    Proof.
      intros Hb Hl. induction Hl as [|[k0 v] [k0' w] l lw [Hk Hvw] Hl IHl]; intros acc accw Hacc;
        cbn [fold_left reduce_tuple].
      - exists accw; split; auto. exists 0; auto.
      - cbn [bind]. cbn in Hk, Hvw. subst k0'.
        pose proof (call_sim f IH c fv ptr bs snap [acc; VStr k0; v] [accw; WStr k0; w] s Hc Hfw
                             ltac:(repeat constructor; auto) Hb) as H1.
        unfold call_with. cbn [rev app] in H1.
        destruct (call_f fo f c fv [acc; VStr k0; v]) as [r| | |].
        + destruct H1 as (rw & Hr & k1 & Hk1). specialize (IHl r rw Hr). unfold loop_ok in *.
          destruct (fold_left _ l (Ok r)) as [a| | |]; auto.
          * destruct IHl as (aw & Ha & k2 & Hk2). exists aw; split; auto.
            exists (Nat.max k1 k2). intros k Hk. cbn [app]. rewrite Hk1 by lia. cbn [vbind]. apply Hk2. lia.
          * destruct IHl as (k2 & Hk2). exists (Nat.max k1 k2). intros k Hk. cbn [app].
            rewrite Hk1 by lia. cbn [vbind]. apply Hk2. lia.
        + rewrite fold_stuck; [|intros [a1 a2] r Hr; destruct r; try contradiction; reflexivity|exact I].
          destruct H1 as (k1 & Hk1). exists k1. intros k Hk. cbn [app]. rewrite Hk1 by lia. reflexivity.
        + rewrite fold_stuck; [exact I|intros [a1 a2] r Hr; destruct r; try contradiction; reflexivity|exact I].
        + rewrite fold_stuck; [exact I|intros [a1 a2] r Hr; destruct r; try contradiction; reflexivity|exact I].
    Qed.

    Lemma reduce_str_sim chars s : List.length bs = 2 ->
      forall acc accw, val_rel acc accw ->
      loop_ok val_rel (fold_left (fun a ch => do a' <- a; call_f fo f c fv [a'; VStr ch]) chars (Ok acc))
              (fun k => reduce_str fo (run k) ptr bs snap chars accw s) s.
    Proof.
      intros Hb. induction chars as [|ch chars IHl]; intros acc accw Hacc; cbn [fold_left reduce_str].
      - exists accw; split; auto. exists 0; auto.
      - cbn [bind].
        pose proof (call_sim f IH c fv ptr bs snap [acc; VStr ch] [accw; WStr ch] s Hc Hfw
                             ltac:(repeat constructor; auto) Hb) as H1.
        unfold call_with. cbn [rev app] in H1.
        destruct (call_f fo f c fv [acc; VStr ch]) as [r| | |].
        + destruct H1 as (rw & Hr & k1 & Hk1). specialize (IHl r rw Hr). unfold loop_ok in *.
          destruct (fold_left _ chars (Ok r)) as [a| | |]; auto.
          * destruct IHl as (aw & Ha & k2 & Hk2). exists aw; split; auto.
            exists (Nat.max k1 k2). intros k Hk. cbn [app]. rewrite Hk1 by lia. cbn [vbind]. apply Hk2. lia.
          * destruct IHl as (k2 & Hk2). exists (Nat.max k1 k2). intros k Hk. cbn [app].
            rewrite Hk1 by lia. cbn [vbind]. apply Hk2. lia.
        + rewrite fold_stuck; [|intros a r Hr; destruct r; try contradiction; reflexivity|exact I].
          destruct H1 as (k1 & Hk1). exists k1. intros k Hk. cbn [app]. rewrite Hk1 by lia. reflexivity.
        + rewrite fold_stuck; [exact I|intros a r Hr; destruct r; try contradiction; reflexivity|exact I].
        + rewrite fold_stuck; [exact I|intros a r Hr; destruct r; try contradiction; reflexivity|exact I].
    Qed.
  End Loops.


  Lemma loop_finish {A W} (R : A -> W -> Prop) (r : res A) g s st0 n s1 t ss i (mkv : W -> wval) (mkV : A -> value) :
    loop_ok R r g s -> reaches st0 (mk n s1 t ss) -> nth_error C n = Some i -> i <> IReturn ->
    (forall k, exec (run k) i (mk n s1 t ss) = vdo p <- g k; VOk (mk (S n) (mkv (fst p) :: snd p) t ss)) ->
    (forall a w, R a w -> val_rel (mkV a) (mkv w)) ->
    simk val_rel st0 (do a <- r; Ok (mkV a)) (S n) s t ss.
  Proof.
    intros Hl Hr Hn Hi Hex HR. unfold loop_ok in Hl. destruct r as [a| | |]; cbn; auto.
    - destruct Hl as (w & Hw & k0 & Hk0). exists (mkv w); split; auto.
      eapply reaches_trans; [exact Hr|]. eapply step_ok; [exact Hn|exact Hi|].
      exists k0. intros k Hk. rewrite Hex, Hk0 by lia. reflexivity.
    - destruct Hl as (k0 & Hk0). eapply reaches_errs; [exact Hr|].
      eapply step_err; [exact Hn|exact Hi|]. exists k0. rewrite Hex, Hk0 by lia. reflexivity.
  Qed.

  Lemma simk_bind_id st0 (r : res value) tgt s t ss :
    simk val_rel st0 (do a <- r; Ok a) tgt s t ss -> simk val_rel st0 r tgt s t ss.
  Proof. destruct r; auto. Qed.

  Lemma arity_ok_rev ps n : arity_ok (rev ps) n = if Nat.eqb (List.length ps) n then VOk tt else VErr.
  Proof. unfold arity_ok. rewrite rev_length. reflexivity. Qed.

  Lemma sim_hook_err st0 n s1 t ss h :
    reaches st0 (mk n s1 t ss) -> nth_error C n = Some (IRuntime h) ->
    (forall rn, exec rn (IRuntime h) (mk n s1 t ss) = VErr) -> errs st0.
  Proof. intros Hr Hn He. eapply err_step; [exact Hr|exact Hn|discriminate|exact He]. Qed.

  Lemma sim_map f (IH : sim_e f) fe te : sim_at (S f) (EMap fe te).
  Proof.
    intros c n s t ss Hf Hc Hcode Hs Hself. rewrite eval_map.
    change (tr (EMap fe te)) with (tr fe ++ tr te ++ [IRuntime HMap]) in *.
    cbn [frag] in Hf. apply andb_true_iff in Hf as [Hff Hft].
    apply code_at_app in Hcode as [Hc1 Hc2]. apply code_at_app in Hc2 as [Hc2 Hc3].
    apply code_at_cons in Hc3 as [Hc3 _].
    eapply simk_expr; eauto using reaches_refl. intros fv fw Rf Hr1.
    eapply simk_expr; eauto. intros tv tw Rt Hr2.
    eapply simk_tgt with (tgt := S (n + List.length (tr fe) + List.length (tr te)));
      [|rewrite !app_length; cbn [List.length]; lia].
    set (p := n + List.length (tr fe) + List.length (tr te)) in *.
    destruct Rf; try (cbn; eapply sim_hook_err; [exact Hr2|exact Hc3|]; intros; destruct tw; reflexivity).
    assert (Hfw : val_rel (VFunc ps body clo) (WFunc ptr (rev ps) snap)) by (constructor; auto).
    assert (Hlen : List.length (rev ps) = List.length ps) by apply rev_length.
    destruct Rt; try (cbn; eapply sim_hook_err; [exact Hr2|exact Hc3|]; intros; reflexivity).
    - (* string *)
      cbn [map_sem]. destruct (Nat.eqb (List.length ps) 1) eqn:El; cbn [negb].
      2: { cbn. eapply sim_hook_err; [exact Hr2|exact Hc3|]. intros rn. cbn -[arity_ok].
           rewrite arity_ok_rev, El. reflexivity. }
      apply Nat.eqb_eq in El.
      eapply loop_finish with (mkv := fun w => WStr w) (mkV := fun r => VStr (concat r));
        [eapply map_str_sim; eauto; lia|exact Hr2|exact Hc3|discriminate| |].
      + intros k. cbn -[arity_ok map_str]. rewrite arity_ok_rev, El. cbn -[map_str].
        destruct (map_str _ _ _ _ _ _ _) as [[rs s']| | | |]; reflexivity.
      + intros a w ->. constructor.
    - (* list *)
      cbn [map_sem]. destruct (Nat.eqb (List.length ps) 1) eqn:El; cbn [negb].
      2: { cbn. eapply sim_hook_err; [exact Hr2|exact Hc3|]. intros rn. cbn -[arity_ok].
           rewrite arity_ok_rev, El. reflexivity. }
      apply Nat.eqb_eq in El.
      eapply loop_finish with (mkv := fun w => WList w) (mkV := fun r => VList r);
        [eapply map_list_sim; eauto; lia|exact Hr2|exact Hc3|discriminate| |].
      + intros k. cbn -[arity_ok map_list]. rewrite arity_ok_rev, El. cbn -[map_list].
        destruct (map_list _ _ _ _ _ _ _) as [[rs s']| | | |]; reflexivity.
      + intros a w Haw. apply VR_list; auto.
    - (* tuple *)
      cbn [map_sem]. destruct (Nat.eqb (List.length ps) 2) eqn:El; cbn [negb].
      2: { cbn. eapply sim_hook_err; [exact Hr2|exact Hc3|]. intros rn. cbn -[arity_ok].
           rewrite arity_ok_rev, El. reflexivity. }
      apply Nat.eqb_eq in El.
      eapply loop_finish with (mkv := fun w => WTuple w) (mkV := fun r => VTuple r);
        [eapply map_tuple_sim; eauto; lia|exact Hr2|exact Hc3|discriminate| |].
      + intros k. cbn -[arity_ok map_tuple]. rewrite arity_ok_rev, El. cbn -[map_tuple].
        destruct (map_tuple _ _ _ _ _ _ _) as [[rs s']| | | |]; reflexivity.
      + intros a w Haw. apply VR_tuple; auto.
  Qed.

  Lemma sim_filter f (IH : sim_e f) fe te : sim_at (S f) (EFilter fe te).
  Proof.
    intros c n s t ss Hf Hc Hcode Hs Hself. rewrite eval_filter.
    change (tr (EFilter fe te)) with (tr fe ++ tr te ++ [IRuntime HFilter]) in *.
    cbn [frag] in Hf. apply andb_true_iff in Hf as [Hff Hft].
    apply code_at_app in Hcode as [Hc1 Hc2]. apply code_at_app in Hc2 as [Hc2 Hc3].
    apply code_at_cons in Hc3 as [Hc3 _].
    eapply simk_expr; eauto using reaches_refl. intros fv fw Rf Hr1.
    eapply simk_expr; eauto. intros tv tw Rt Hr2.
    eapply simk_tgt with (tgt := S (n + List.length (tr fe) + List.length (tr te)));
      [|rewrite !app_length; cbn [List.length]; lia].
    set (p := n + List.length (tr fe) + List.length (tr te)) in *.
    destruct Rf; try (cbn; eapply sim_hook_err; [exact Hr2|exact Hc3|]; intros; destruct tw; reflexivity).
    assert (Hfw : val_rel (VFunc ps body clo) (WFunc ptr (rev ps) snap)) by (constructor; auto).
    assert (Hlen : List.length (rev ps) = List.length ps) by apply rev_length.
    destruct Rt; try (cbn; eapply sim_hook_err; [exact Hr2|exact Hc3|]; intros; reflexivity).
    - cbn [filter_sem]. destruct (Nat.eqb (List.length ps) 1) eqn:El; cbn [negb].
      2: { cbn. eapply sim_hook_err; [exact Hr2|exact Hc3|]. intros rn. cbn -[arity_ok].
           rewrite arity_ok_rev, El. reflexivity. }
      apply Nat.eqb_eq in El.
      eapply loop_finish with (mkv := fun w => WStr w) (mkV := fun r => VStr (concat (map snd (filter fst r))));
        [eapply filter_str_sim; eauto; lia|exact Hr2|exact Hc3|discriminate| |].
      + intros k. cbn -[arity_ok filter_str]. rewrite arity_ok_rev, El. cbn -[filter_str].
        destruct (filter_str _ _ _ _ _ _ _) as [[rs s']| | | |]; reflexivity.
      + intros a w ->. constructor.
    - cbn [filter_sem]. destruct (Nat.eqb (List.length ps) 1) eqn:El; cbn [negb].
      2: { cbn. eapply sim_hook_err; [exact Hr2|exact Hc3|]. intros rn. cbn -[arity_ok].
           rewrite arity_ok_rev, El. reflexivity. }
      apply Nat.eqb_eq in El.
      eapply loop_finish with (mkv := fun w => WList w) (mkV := fun r => VList (map snd (filter fst r)));
        [eapply filter_list_sim; eauto; lia|exact Hr2|exact Hc3|discriminate| |].
      + intros k. cbn -[arity_ok filter_list]. rewrite arity_ok_rev, El. cbn -[filter_list].
        destruct (filter_list _ _ _ _ _ _ _) as [[rs s']| | | |]; reflexivity.
      + intros a w Haw. apply VR_list; auto.
    - cbn [filter_sem]. destruct (Nat.eqb (List.length ps) 2) eqn:El; cbn [negb].
      2: { cbn. eapply sim_hook_err; [exact Hr2|exact Hc3|]. intros rn. cbn -[arity_ok].
           rewrite arity_ok_rev, El. reflexivity. }
      apply Nat.eqb_eq in El.
      eapply loop_finish with (mkv := fun w => WTuple w) (mkV := fun r => VTuple (map snd (filter fst r)));
        [eapply filter_tuple_sim; eauto; lia|exact Hr2|exact Hc3|discriminate| |].
      + intros k. cbn -[arity_ok filter_tuple]. rewrite arity_ok_rev, El. cbn -[filter_tuple].
        destruct (filter_tuple _ _ _ _ _ _ _) as [[rs s']| | | |]; reflexivity.
      + intros a w Haw. apply VR_tuple; auto.
  Qed.

  Lemma sim_reduce f (IH : sim_e f) fe ae te : sim_at (S f) (EReduce fe ae te).
  Proof.
    intros c n s t ss Hf Hc Hcode Hs Hself. rewrite eval_reduce.
    change (tr (EReduce fe ae te)) with (tr fe ++ tr ae ++ tr te ++ [IRuntime HReduce]) in *.
    cbn [frag] in Hf. apply andb_true_iff in Hf as [Hf Hft]. apply andb_true_iff in Hf as [Hff Hfa].
    apply code_at_app in Hcode as [Hc1 Hc2]. apply code_at_app in Hc2 as [Hc2 Hc3].
    apply code_at_app in Hc3 as [Hc3 Hc4]. apply code_at_cons in Hc4 as [Hc4 _].
    eapply simk_expr; eauto using reaches_refl. intros fv fw Rf Hr1.
    eapply simk_expr; eauto. intros acc accw Ra Hr2.
    eapply simk_expr; eauto. intros tv tw Rt Hr3.
    eapply simk_tgt with (tgt := S (n + List.length (tr fe) + List.length (tr ae) + List.length (tr te)));
      [|rewrite !app_length; cbn [List.length]; lia].
    set (p := n + List.length (tr fe) + List.length (tr ae) + List.length (tr te)) in *.
    destruct Rf; try (cbn; eapply sim_hook_err; [exact Hr3|exact Hc4|]; intros; destruct tw; reflexivity).
    assert (Hfw : val_rel (VFunc ps body clo) (WFunc ptr (rev ps) snap)) by (constructor; auto).
    assert (Hlen : List.length (rev ps) = List.length ps) by apply rev_length.
    destruct Rt; try (cbn; eapply sim_hook_err; [exact Hr3|exact Hc4|]; intros; reflexivity).
    - cbn [reduce_sem]. destruct (Nat.eqb (List.length ps) 2) eqn:El; cbn [negb].
      2: { cbn. eapply sim_hook_err; [exact Hr3|exact Hc4|]. intros rn. cbn -[arity_ok].
           rewrite arity_ok_rev, El. reflexivity. }
      apply Nat.eqb_eq in El. apply simk_bind_id.
      eapply loop_finish with (mkv := fun w => w) (mkV := fun r => r);
        [eapply reduce_str_sim; eauto; lia|exact Hr3|exact Hc4|discriminate| |auto].
      intros k. cbn -[arity_ok reduce_str]. rewrite arity_ok_rev, El. cbn -[reduce_str].
      destruct (reduce_str _ _ _ _ _ _ _ _) as [[rs s']| | | |]; reflexivity.
    - cbn [reduce_sem]. destruct (Nat.eqb (List.length ps) 2) eqn:El; cbn [negb].
      2: { cbn. eapply sim_hook_err; [exact Hr3|exact Hc4|]. intros rn. cbn -[arity_ok].
           rewrite arity_ok_rev, El. reflexivity. }
      apply Nat.eqb_eq in El. apply simk_bind_id.
      eapply loop_finish with (mkv := fun w => w) (mkV := fun r => r);
        [eapply reduce_list_sim; eauto; lia|exact Hr3|exact Hc4|discriminate| |auto].
      intros k. cbn -[arity_ok reduce_list]. rewrite arity_ok_rev, El. cbn -[reduce_list].
      destruct (reduce_list _ _ _ _ _ _ _ _) as [[rs s']| | | |]; reflexivity.
    - cbn [reduce_sem]. destruct (Nat.eqb (List.length ps) 3) eqn:El; cbn [negb].
      2: { cbn. eapply sim_hook_err; [exact Hr3|exact Hc4|]. intros rn. cbn -[arity_ok].
           rewrite arity_ok_rev, El. reflexivity. }
      apply Nat.eqb_eq in El. apply simk_bind_id.
      eapply loop_finish with (mkv := fun w => w) (mkV := fun r => r);
        [eapply reduce_tuple_sim; eauto; lia|exact Hr3|exact Hc4|discriminate| |auto].
      intros k. cbn -[arity_ok reduce_tuple]. rewrite arity_ok_rev, El. cbn -[reduce_tuple].
      destruct (reduce_tuple _ _ _ _ _ _ _ _) as [[rs s']| | | |]; reflexivity.
  Qed.


  (* ---------------- format strings ---------------- *)
  Lemma cat_map_app {A} (g : A -> ops) l1 l2 : cat_map g (l1 ++ l2) = cat_map g l1 ++ cat_map g l2.
  Proof. induction l1 as [|a l1 IHl]; cbn; auto. rewrite IHl, app_assoc. reflexivity. Qed.

  Lemma join_parts_snoc l c : l <> [] -> join_parts (l ++ [c]) = join_parts l ++ c ++ [IAdd].
  Proof.
    destruct l as [|c0 cs]; [congruence|]. intros _. cbn. rewrite cat_map_app. cbn.
    rewrite app_nil_r, <- !app_assoc. reflexivity.
  Qed.

  Definition str_res (v : value) (w : wval) : Prop := exists x, v = VStr x /\ w = WStr x.
  Definition text_res (x : bytes) (w : wval) : Prop := w = WStr x.

  (* one piece of a template: its code and the text it stands for *)
  Definition item_ok (t : symtab fo) (ss : list wval) (it : ops * res bytes) : Prop :=
    forall n s st0, code_at n (fst it) -> reaches st0 (mk n s t ss) ->
                    simk text_res st0 (snd it) (n + List.length (fst it)) s t ss.

  Fixpoint sem_join (items : list (ops * res bytes)) : res value :=
    match items with
    | [] => Ok (VStr [])
    | it :: rest =>
      do acc <- sem_join rest; do x <- snd it;
      match acc with VStr x' => Ok (VStr (x ++ x')) | _ => Err end
    end.

  Lemma app_cons_not_nil_sym' {A} (l : list A) a : l ++ [a] <> [].
  Proof. destruct l; discriminate. Qed.

  Lemma sim_join t ss items : Forall (item_ok t ss) items -> forall n s st0,
    code_at n (join_parts (rev (map fst items))) -> reaches st0 (mk n s t ss) ->
    simk str_res st0 (sem_join items) (n + List.length (join_parts (rev (map fst items)))) s t ss.
  Proof.
    induction 1 as [|it rest Hit Hrest IHr]; intros n s st0 Hcode Hr.
    - cbn in *. split_code. exists (WStr []); split; [exists []; auto|].
      eapply reaches_eq; [eapply reach_step; [exact Hr|eassumption|discriminate|reflexivity]|pceq].
    - cbn [map rev sem_join] in *. destruct rest as [|it2 rest'].
      + cbn in Hcode |- *. rewrite app_nil_r in *.
        pose proof (Hit n s st0 Hcode Hr) as H1.
        destruct (snd it) as [x| | |]; cbn in H1 |- *; auto.
        destruct H1 as (w & -> & Hr1). exists (WStr x); split; [|exact Hr1].
        exists x. rewrite app_nil_r. auto.
      + set (l := rev (map fst (it2 :: rest'))) in *.
        assert (Hl : l <> []) by (subst l; cbn [map rev]; apply app_cons_not_nil_sym').
        rewrite (join_parts_snoc l (fst it) Hl) in *.
        apply code_at_app in Hcode as [Hc1 Hc2]. apply code_at_app in Hc2 as [Hc2 Hc3].
        apply code_at_cons in Hc3 as [Hc3 _].
        pose proof (IHr n s st0 Hc1 Hr) as H1.
        destruct (sem_join (it2 :: rest')) as [acc| | |]; cbn [bind]; try exact I; [|exact H1].
        destruct H1 as (w & (x' & -> & ->) & Hr1).
        pose proof (Hit _ (WStr x' :: s) st0 Hc2 Hr1) as H2.
        destruct (snd it) as [x| | |]; cbn [bind]; try exact I; [|exact H2].
        destruct H2 as (w2 & -> & Hr2). exists (WStr (x ++ x')); split; [exists (x ++ x'); auto|].
        eapply reaches_eq; [eapply reach_step; [exact Hr2|exact Hc3|discriminate|reflexivity]|pceq].
  Qed.

  Lemma exec_render rn n w s t ss :
    exec rn IRender (mk n (w :: s) t ss) =
    match wrender w with Some x => VOk (mk (S n) (WStr x :: s) t ss) | None => VUnsup end.
  Proof. cbn -[wrender]. destruct (wrender w); reflexivity. Qed.

  Lemma item_render f (IH : sim_e f) c t ss e :
    frag e = true -> ctx_ok c -> scope_rel (sc fo c) t -> self_rel (self_v fo c) ss ->
    item_ok t ss (tr e ++ [IRender], do v <- eval fo f c e; render fo f v).
  Proof.
    intros Hf Hc Hs Hself n s st0 Hcode Hr. cbn [fst snd] in *.
    apply code_at_app in Hcode as [Hc1 Hc2]. apply code_at_cons in Hc2 as [Hc2 _].
    pose proof (IH e c n s t ss Hf Hc Hc1 Hs Hself) as He.
    destruct (eval fo f c e) as [v| | |]; cbn [bind]; try exact I.
    - destruct He as (w & Rv & Hr1).
      destruct (render fo f v) as [x| | |] eqn:Er; try exact I.
      + exists (WStr x); split; [reflexivity|].
        eapply reaches_trans; [exact Hr|]. eapply reaches_eq;
          [eapply reach_step; [exact Hr1|exact Hc2|discriminate|
             intros rn; rewrite exec_render, (render_rel fo C _ _ _ _ Rv Er); reflexivity]|pceq].
      + exfalso. eapply render_no_err; eauto.
    - cbn. eapply reaches_errs; eauto.
  Qed.

  Lemma item_str t ss x : item_ok t ss ([IVal (LStr x)], Ok x).
  Proof.
    intros n s st0 Hcode Hr. cbn [fst snd] in *. apply code_at_cons in Hcode as [Hc1 _].
    exists (WStr x); split; [reflexivity|].
    eapply reaches_eq; [eapply reach_step; [exact Hr|exact Hc1|discriminate|reflexivity]|pceq].
  Qed.

  Lemma bind_assoc {A B D} (a : res A) (k : A -> res B) (h : B -> res D) :
    (do x <- (do v <- a; k v); h x) = (do v <- a; do x <- k v; h x).
  Proof. destruct a; reflexivity. Qed.

  (* --- single form --- *)
  Definition item_s (f : nat) (c' : ctx) (p : tpart) : ops * res bytes :=
    match p with
    | PStr x => ([IVal (LStr x)], Ok x)
    | PExpr pe => (tr pe ++ [IRender], do v <- eval fo f c' pe; render fo f v)
    | PHole => ([ITranslatorPanic], Err)
    end.
  Definition sparts_ok (ps : list tpart) : bool :=
    forallb (fun p => match p with PStr _ => true | PHole => false | PExpr pe => frag pe end) ps.

  Lemma item_s_codes f c' ps : map fst (map (item_s f c') ps) = map part_code ps.
  Proof. induction ps as [|[x| |pe] ps IHp]; cbn; f_equal; auto. Qed.

  Lemma fmts_go_join f c' ps : sparts_ok ps = true -> fmts_go fo f c' ps = sem_join (map (item_s f c') ps).
  Proof.
    induction ps as [|[x| |pe] ps IHp]; cbn [sparts_ok forallb]; intros H; try discriminate.
    - reflexivity.
    - cbn. rewrite <- IHp by exact H. reflexivity.
    - apply andb_true_iff in H as [_ H]. cbn [map sem_join item_s snd fmts_go]. rewrite <- IHp by exact H.
      destruct (fmts_go fo f c' ps); cbn [bind]; auto. rewrite bind_assoc. reflexivity.
  Qed.

  Lemma items_s_ok f (IH : sim_e f) c' t ss ps :
    sparts_ok ps = true -> ctx_ok c' -> scope_rel (sc fo c') t -> self_rel (self_v fo c') ss ->
    Forall (item_ok t ss) (map (item_s f c') ps).
  Proof.
    intros H Hc Hs Hself. induction ps as [|[x| |pe] ps IHp]; cbn [sparts_ok forallb map] in *; try discriminate.
    - constructor.
    - constructor; [apply item_str|auto].
    - apply andb_true_iff in H as [H1 H2]. constructor; [apply item_render; auto|auto].
  Qed.

  Lemma exec_newscope rn n j s t ss :
    exec rn (INewScope j) (mk n s t ss) =
    vdo fin <- rn (mk (S n) [] t ss); vdo p <- pop fo (stk fin); jump fo C (mk n (fst p :: s) t ss) j.
  Proof.
    cbn -[jump]. unfold op_new_scope. cbn -[jump].
    destruct (rn _) as [fin| | | |]; cbn -[jump]; auto.
    destruct (pop fo (stk fin)) as [[v r]| | | |]; reflexivity.
  Qed.

  Lemma exec_bindover rn n w x s t ss :
    exec rn IBindOver (mk n (w :: WSym x :: s) t ss) =
    vdo t' <- binding_push fo t x w false; VOk (mk (S n) s t' ss).
  Proof. cbn -[binding_push]. destruct (binding_push fo t x w false); reflexivity. Qed.

  Lemma sim_formats f (IH : sim_e f) parts arg : sim_at (S f) (EFormatS parts arg).
  Proof.
    intros c n s t ss Hf Hc Hcode Hs Hself. rewrite eval_formats. rewrite tr_formats in *.
    cbn [frag] in Hf. apply andb_true_iff in Hf as [Hfp Hfa]. fold (sparts_ok parts) in Hfp.
    set (jc := join_parts (rev (map part_code parts))) in *.
    set (body := ISym (b "item") :: tr arg ++ IBindOver :: jc ++ [IReturn]) in *.
    assert (Hb : n + List.length body < List.length C).
    { eapply code_at_lt; [exact Hcode|]. cbn. lia. }
    apply code_at_cons in Hcode as [Hns Hcode]. subst body.
    apply code_at_cons in Hcode as [Hi1 Hcode]. apply code_at_app in Hcode as [Hca Hcode].
    apply code_at_cons in Hcode as [Hi2 Hcode]. apply code_at_app in Hcode as [Hcj Hcr].
    apply code_at_cons in Hcr as [Hcr _].
    set (stN := mk (S n) [] t ss).
    assert (Hr0 : reaches stN (mk (S (S n)) [WSym (b "item")] t ss)).
    { eapply step_simple; [exact Hi1|discriminate|reflexivity]. }
    pose proof (IH arg c (S (S n)) [WSym (b "item")] t ss Hfa Hc Hca Hs Hself) as Ha.
    assert (Hexec : forall rn, exec rn (INewScope (List.length (ISym (b "item") :: tr arg ++ IBindOver :: jc ++ [IReturn])))
                                    (mk n s t ss) =
                               vdo fin <- rn stN; vdo p <- pop fo (stk fin);
                               jump fo C (mk n (fst p :: s) t ss)
                                    (List.length (ISym (b "item") :: tr arg ++ IBindOver :: jc ++ [IReturn])))
      by (intros; apply exec_newscope).
    destruct (eval fo f c arg) as [item| | |]; cbn [bind]; try exact I.
    2: { (* the argument fails inside the nested run *)
         assert (He : errs stN) by (eapply reaches_errs; [exact Hr0|exact Ha]).
         destruct He as (k & Hk). eapply step_err; [exact Hns|discriminate|]. exists k.
         rewrite Hexec, Hk. reflexivity. }
    destruct Ha as (wi & Ri & Hr1).
    set (t' := sym_add (b "item") wi t).
    set (c' := with_scope fo c ((b "item", item) :: sc fo c)).
    assert (Hr2 : reaches stN (mk (S (S (S n) + List.length (tr arg))) [] t' ss)).
    { eapply reaches_trans; [exact Hr0|]. eapply reach_step; [exact Hr1|exact Hi2|discriminate|].
      intros rn. rewrite exec_bindover. unfold binding_push.
      change (vm_is_reserved (b "item")) with false. cbn [vbind]. rewrite andb_false_r. reflexivity. }
    assert (Hs' : scope_rel (sc fo c') t') by (apply scope_rel_add; auto).
    assert (Hc' : ctx_ok c') by exact Hc.
    pose proof (sim_join t' ss _ (items_s_ok f IH c' t' ss parts Hfp Hc' Hs' Hself)
                         (S (S (S n) + List.length (tr arg))) [] stN) as Hj.
    rewrite item_s_codes in Hj. fold jc in Hj. specialize (Hj Hcj Hr2).
    rewrite (fmts_go_join f c' parts Hfp).
    destruct (sem_join (map (item_s f c') parts)) as [V| | |]; try exact I.
    - destruct Hj as (w & (x & -> & ->) & Hr3).
      destruct (reaches_returns fo C strict_ envv _ _ Hr3) as (k0 & Hk0); [left; exact Hcr|].
      exists (WStr x); split; [constructor|].
      eapply step_ok; [exact Hns|discriminate|]. exists k0. intros k Hk.
      rewrite Hexec, (Hk0 k Hk). cbn [vbind stk pop fst Compile_Base.mk].
      rewrite jump_ok by exact Hb. f_equal. pceq.
    - destruct Hj as (k & Hk). eapply step_err; [exact Hns|discriminate|]. exists k.
      rewrite Hexec, Hk. reflexivity.
  Qed.

  (* --- list form --- *)
  Fixpoint items_l (f : nat) (c : ctx) (ps : list tpart) (es : list expr) : list (ops * res bytes) :=
    match ps with
    | [] => []
    | PStr x :: ps' => ([IVal (LStr x)], Ok x) :: items_l f c ps' es
    | PHole :: ps' =>
      match es with
      | a :: es' => (tr a ++ [IRender], do v <- eval fo f c a; render fo f v) :: items_l f c ps' es'
      | [] => ([ITranslatorPanic], Err) :: items_l f c ps' []
      end
    | PExpr _ :: ps' => ([ITranslatorPanic], Err) :: items_l f c ps' es
    end.
  Definition lparts_ok (ps : list tpart) : bool :=
    forallb (fun p => match p with PExpr _ => false | _ => true end) ps.

  Lemma list_parts_app l1 : forall a1 l2 a2,
    count_holes l1 = List.length a1 ->
    list_parts (l1 ++ l2) (a1 ++ a2) = list_parts l1 a1 ++ list_parts l2 a2.
  Proof.
    induction l1 as [|[x| |pe] l1 IHl]; intros a1 l2 a2 Hc; unfold count_holes in *; cbn in Hc |- *.
    - destruct a1; [reflexivity|discriminate].
    - f_equal. apply IHl. exact Hc.
    - destruct a1 as [|a a1]; [discriminate|]. cbn. f_equal. apply IHl. cbn in Hc. lia.
    - f_equal. apply IHl. exact Hc.
  Qed.

  Lemma count_holes_rev ps : count_holes (rev ps) = count_holes ps.
  Proof.
    unfold count_holes. induction ps as [|p ps IHp]; cbn; auto.
    rewrite filter_app, app_length, IHp. cbn. destruct p; cbn; lia.
  Qed.

  Lemma list_parts_items f c ps : forall es,
    count_holes ps = List.length es ->
    list_parts (rev ps) (rev (map tr es)) = rev (map fst (items_l f c ps es)).
  Proof.
    induction ps as [|[x| |pe] ps IHp]; intros es Hc; cbn [rev map items_l fst].
    - reflexivity.
    - unfold count_holes in Hc. cbn in Hc.
      rewrite <- (app_nil_r (rev (map tr es))).
      rewrite list_parts_app by (rewrite count_holes_rev, rev_length, map_length; exact Hc).
      rewrite IHp by exact Hc. reflexivity.
    - unfold count_holes in Hc. cbn in Hc. destruct es as [|a es]; [discriminate|].
      cbn [map rev fst]. cbn in Hc.
      rewrite list_parts_app by (rewrite count_holes_rev, rev_length, map_length; unfold count_holes; lia).
      rewrite IHp by (unfold count_holes; lia). reflexivity.
    - unfold count_holes in Hc. cbn in Hc.
      rewrite <- (app_nil_r (rev (map tr es))).
      rewrite list_parts_app by (rewrite count_holes_rev, rev_length, map_length; exact Hc).
      rewrite IHp by exact Hc. reflexivity.
  Qed.

  Lemma fmtl_go_join f c ps : forall es,
    lparts_ok ps = true -> count_holes ps = List.length es ->
    fmtl_go fo f c ps es = sem_join (items_l f c ps es).
  Proof.
    induction ps as [|[x| |pe] ps IHp]; intros es H Hc; cbn [lparts_ok forallb] in H; try discriminate.
    - reflexivity.
    - unfold count_holes in Hc. cbn in Hc. cbn. rewrite <- IHp by auto. reflexivity.
    - unfold count_holes in Hc. cbn in Hc. destruct es as [|a es]; [discriminate|].
      cbn [items_l sem_join snd fmtl_go]. rewrite <- IHp by (auto; unfold count_holes; cbn in Hc; lia).
      destruct (fmtl_go fo f c ps es); cbn [bind]; auto. rewrite bind_assoc. reflexivity.
  Qed.

  Lemma items_l_ok f (IH : sim_e f) c t ss :
    ctx_ok c -> scope_rel (sc fo c) t -> self_rel (self_v fo c) ss ->
    forall ps es, lparts_ok ps = true -> count_holes ps = List.length es -> forallb frag es = true ->
                  Forall (item_ok t ss) (items_l f c ps es).
  Proof.
    intros Hc Hs Hself. induction ps as [|[x| |pe] ps IHp]; intros es H Hcnt Hfe;
      cbn [lparts_ok forallb items_l] in *; try discriminate.
    - constructor.
    - constructor; [apply item_str|]. apply IHp; auto.
    - unfold count_holes in Hcnt. cbn in Hcnt. destruct es as [|a es]; [discriminate|].
      cbn in Hfe. apply andb_true_iff in Hfe as [Hfa Hfe].
      constructor; [apply item_render; auto|]. apply IHp; auto; unfold count_holes; cbn in Hcnt; lia.
  Qed.

  Lemma sim_formatl f (IH : sim_e f) parts args : sim_at (S f) (EFormatL parts args).
  Proof.
    intros c n s t ss Hf Hc Hcode Hs Hself. rewrite eval_formatl. rewrite tr_formatl in *.
    cbn [frag] in Hf. apply andb_true_iff in Hf as [Hfp Hfa]. fold (lparts_ok parts) in Hfp.
    destruct (Nat.eqb (count_holes parts) (List.length args)) eqn:Ecnt; cbn [negb] in *.
    2: { (* wrong number of arguments: [Val msg; Bang] *)
         split_code. cbn.
         eapply err_step with (n := S n) (s := WStr (fmt_count_msg (count_holes parts) (List.length args)) :: s).
         - eapply step_simple; [eassumption|discriminate|reflexivity].
         - eassumption.
         - discriminate.
         - reflexivity. }
    apply Nat.eqb_eq in Ecnt.
    match type of Hcode with code_at _ ?cd0 => set (cd := cd0) in * end.
    assert (Hcd : cd = join_parts (rev (map fst (items_l f c parts args)))).
    { subst cd. rewrite <- (list_parts_items f c parts args Ecnt). destruct parts; reflexivity. }
    clearbody cd. subst cd.
    pose proof (sim_join t ss _ (items_l_ok f IH c t ss Hc Hs Hself parts args Hfp Ecnt Hfa)
                         n s (mk n s t ss) Hcode (reaches_refl fo C strict_ envv _)) as Hj.
    rewrite (fmtl_go_join f c parts args Hfp Ecnt).
    destruct (sem_join (items_l f c parts args)) as [V| | |]; auto.
    destruct Hj as (w & (x & -> & ->) & Hr). exists (WStr x); split; [constructor|exact Hr].
  Qed.

  (* ---------------- module values ---------------- *)
  Lemma exec_thunk rn n j s t ss :
    exec rn (IInitThunk j) (mk n s t ss) = jump fo C (mk n (WThunk n :: s) t ss) j.
  Proof. reflexivity. Qed.
  Lemma exec_module_thunk rn n j tp flds s t ss :
    exec rn (IModule j) (mk n (WThunk tp :: WTuple flds :: s) t ss) =
    jump fo C (mk n (WMod n (Some tp) flds :: s) t ss) j.
  Proof. reflexivity. Qed.
  Lemma exec_module_tuple rn n j flds s t ss :
    exec rn (IModule j) (mk n (WTuple flds :: s) t ss) = jump fo C (mk n (WMod n None flds :: s) t ss) j.
  Proof. reflexivity. Qed.

  Lemma sim_module f (IH : sim_e f) ps out body : sim_at (S f) (EModule ps out body).
  Proof.
    intros c n s t ss Hf Hc Hcode Hs Hself. rewrite eval_module. rewrite tr_module in *.
    cbn [frag] in Hf. apply andb_true_iff in Hf as [Hf Hfb]. apply andb_true_iff in Hf as [Hfps Hfo].
    fold (frags ps) in Hfps.
    apply code_at_cons in Hcode as [Hi0 Hcode]. apply code_at_app in Hcode as [Hcf Hcode].
    apply code_at_app in Hcode as [Hct Hcm].
    pose proof (sim_fields f IH c t ss Hc Hs Hself ps [] [] (S n) s (mk n s t ss) Hfps Hcf
                           ltac:(constructor)
                           ltac:(eapply step_simple; [exact Hi0|discriminate|reflexivity])) as H1.
    destruct (tuple_lit_f fo f c ps (Ok [])) as [pv| | |]; cbn in H1 |- *; auto.
    destruct H1 as (w & (flds & -> & Hpv) & Hr1).
    set (p1 := S n + List.length (tr_fields ps)) in *.
    set (J := S (List.length (translate body ++ [IReturn]))) in *.
    destruct out as [oe|].
    - set (th := IInitThunk (S (List.length (tr oe))) :: tr oe ++ [IReturn]) in *.
      set (pm := p1 + List.length th) in *.
      assert (Hb1 : p1 + S (List.length (tr oe)) < List.length C).
      { eapply code_at_lt; [exact Hct|]. subst th. cbn. rewrite app_length. cbn. lia. }
      assert (Hb2 : pm + J < List.length C).
      { eapply code_at_lt; [exact Hcm|]. subst J. cbn. lia. }
      pose proof Hct as Hthunk. apply code_at_cons in Hct as [Hit _].
      pose proof Hcm as Hmod. apply code_at_cons in Hcm as [Him _].
      exists (WMod pm (Some p1) flds); split.
      + constructor; auto. split; auto. exists p1; split; auto.
      + eapply reaches_eq.
        * eapply reach_step with (n := pm) (s := WThunk p1 :: WTuple flds :: s);
            [eapply reach_step; [exact Hr1|exact Hit|discriminate|]|exact Him|discriminate|].
          -- intros rn. rewrite exec_thunk, jump_ok by exact Hb1. f_equal.
             subst pm th. pceq.
          -- intros rn. rewrite exec_module_thunk. apply jump_ok. exact Hb2.
        * subst pm p1 J th. pceq.
    - cbn [app List.length] in *. rewrite Nat.add_0_r in Hcm.
      assert (Hb2 : p1 + J < List.length C).
      { eapply code_at_lt; [exact Hcm|]. subst J. cbn. lia. }
      pose proof Hcm as Hmod. apply code_at_cons in Hcm as [Him _].
      exists (WMod p1 None flds); split.
      + constructor; auto.
      + eapply reaches_eq.
        * eapply reach_step; [exact Hr1|exact Him|discriminate|].
          intros rn. rewrite exec_module_tuple. apply jump_ok. exact Hb2.
        * subst p1 J. pceq.
  Qed.

  (* ---------------- the main induction ---------------- *)
  Theorem sim_main : forall f, sim_e f /\ sim_copy f /\ sim_ss f.
  Proof.
    induction f as [|f (IH & IHc & IHs)].
    - split; [|split].
      + intros e c n s t ss _ _ _ _ _. exact I.
      + intros tv tw fs c n s t ss _ _ _ _ _ _. exact I.
      + intros ss c n s t sst _ _ _ _ _. exact I.
    - split; [|split; [apply sim_copy_S; assumption|apply sim_ss_S; assumption]].
      intros e. change (sim_at (S f) e). destruct e.
      + eapply sim_lit; [reflexivity|intros; reflexivity|constructor].
      + eapply sim_lit; [reflexivity|intros; reflexivity|constructor].
      + eapply sim_lit; [reflexivity|intros; reflexivity|constructor].
      + eapply sim_lit; [reflexivity|intros; reflexivity|constructor].
      + eapply sim_lit; [reflexivity|intros; reflexivity|constructor].
      + apply sim_sym.
      + apply sim_tuple; auto.
      + apply sim_list; auto.
      + (* binary operators *)
        destruct o.
        * apply sim_arith; auto.
        * apply sim_arith; auto.
        * apply sim_arith; auto.
        * apply sim_arith; auto.
        * apply sim_arith; auto.
        * apply (sim_andor f IH true).
        * apply (sim_andor f IH false).
        * apply sim_equal; auto.
        * apply sim_cmp; auto.
        * apply sim_cmp; auto.
        * apply sim_notequal; auto.
        * apply sim_cmp; auto.
        * apply sim_cmp; auto.
        * apply sim_rematch; auto.
        * apply sim_notrematch; auto.
        * destruct e1; try (apply sim_in_gen; [exact IH|exact I]). apply sim_in_sym; auto.
        * apply sim_is; auto.
        * destruct e2; try (apply sim_dot_gen; [exact IH|reflexivity]).
          -- apply sim_dot_sym; auto.
          -- apply sim_dot_copy; auto.
          -- apply sim_dot_call; auto.
      + apply sim_not; auto.
      + apply sim_group; auto.
      + apply sim_copy_expr; auto.
      + apply sim_range; auto.
      + apply sim_formatl; auto.
      + apply sim_formats; auto.
      + apply sim_call; auto.
      + apply sim_cast; auto.
      + apply sim_func.
      + apply sim_select; auto.
      + apply sim_map; auto.
      + apply sim_filter; auto.
      + apply sim_reduce; auto.
      + apply sim_module; auto.
      + apply sim_fail; auto.
      + apply sim_trace; auto.
      + intros c n s t ss Hf; discriminate.
      + intros c n s t ss Hf; discriminate.
      + intros c n s t ss Hf; discriminate.
  Qed.
End Sim.
