(* Statement level and program level of the compile-correctness proof, and the headline theorems. *)
From Ucg Require Import base.Bytes_Lemmas.
From Ucg Require Export vm.Compile_Lemmas vm.Symtab_Lemmas.

(* ---------------- program level ---------------- *)
Theorem translate_app p1 p2 : translate (p1 ++ p2) = translate p1 ++ translate p2.
Proof. apply cat_map_app. Qed.

Definition in_fragment (p : prog) : bool := forallb frag_stmt p.

Section Prog.
  Variable fo : float_ops.
  Variable strict_ : bool.
  Variable envv : list (bytes * bytes).

  Definition ctx0 : ctx fo :=
    {| sc := []; self_v := None; envt := envv; strict := strict_; eq_ordered := true |}.

  Lemma code_at_self c : code_at c 0 c.
  Proof. intros k i H. exact H. Qed.

  (* what the evaluator's final scope and the VM's final symbol table have to do with each other *)
  Lemma prog_sim p F :
    in_fragment p = true ->
    match exec_list fo F ctx0 p with
    | Ok s => exists fv t, vm_prog fo fv envv strict_ (translate p) = VOk t /\
                           scope_rel fo (translate p) s t /\ sorted t
    | Err => exists fv, vm_prog fo fv envv strict_ (translate p) = VErr
    | _ => True
    end.
  Proof.
    intros Hf.
    destruct (sim_main fo (translate p) strict_ envv F) as (_ & _ & Hss).
    pose proof (Hss p ctx0 0 [] [] [] Hf
                          ltac:(repeat split) (code_at_self _) (scope_rel_nil fo _) ltac:(constructor)) as H.
    destruct (exec_list fo F ctx0 p) as [s| | |]; auto.
    - destruct H as (t & Hs & Hso & Hr).
      destruct (Hr 1 (VOk (mk fo (0 + List.length (translate p)) [] t [])))
        as (k & Hk).
      + cbn. assert (E : nth_error (translate p) (List.length (translate p)) = None)
          by (apply nth_error_None; lia). rewrite E. reflexivity.
      + discriminate.
      + exists k, t. split; [|split; [auto|apply Hso; exact I]]. unfold vm_prog. fold (init_state fo) in Hk.
        change (mk fo 0 [] [] []) with (init_state fo) in Hk. rewrite Hk. reflexivity.
    - destruct H as (k & Hk). exists k. unfold vm_prog.
      change (mk fo 0 [] [] []) with (init_state fo) in Hk. rewrite Hk. reflexivity.
  Qed.
End Prog.

(* ---------------- headline theorems ---------------- *)
Section Headline.
  Variable fo : float_ops.

  (* [bs'] represents [bs]: same names in the same (sorted) order, related values.  The relation on
     values is [val_rel] for the compiled program: primitives equal, lists and tuples related
     pointwise, a semantic closure (params, body, scope) related to a VM closure whose code pointer
     points at  Func j :: tr body ++ [Return]  in the program's code and whose snapshot is related
     to the scope. *)
  Definition represents (p : prog) (bs : list (bytes * value fo)) (bs' : list (bytes * wval fo)) : Prop :=
    Forall2 (fld_rel fo (translate p)) bs bs'.

  Theorem compile_correct_ok p E strict_ fs bs :
    in_fragment p = true ->
    sem_prog fo fs E strict_ true p = Ok bs ->
    exists fv bs', vm_prog fo fv E strict_ (translate p) = VOk bs' /\ represents p bs bs'.
  Proof.
    intros Hf Hsem. unfold sem_prog in Hsem.
    pose proof (prog_sim fo strict_ E p fs Hf) as H. unfold ctx0 in H.
    destruct (exec_list fo fs _ p) as [s| | |]; cbn in Hsem; try discriminate.
    inversion Hsem; subst bs. destruct H as (fv & t & Hvm & Hs & Hso).
    exists fv, t. split; auto.
    destruct (export_scope_spec fo s) as [Hse Hle].
    apply sorted_lookup_Forall2; auto.
    intros x. rewrite <- lookup_aget, <- sym_get_aget, Hle. apply Hs.
  Qed.

  Theorem compile_correct_err p E strict_ fs :
    in_fragment p = true ->
    sem_prog fo fs E strict_ true p = Err ->
    exists fv, vm_prog fo fv E strict_ (translate p) = VErr.
  Proof.
    intros Hf Hsem. unfold sem_prog in Hsem.
    pose proof (prog_sim fo strict_ E p fs Hf) as H. unfold ctx0 in H.
    destruct (exec_list fo fs _ p) as [s| | |]; cbn in Hsem; try discriminate. exact H.
  Qed.

  (* the outcome does not depend on the fuel once there is enough of it *)
  Lemma vm_prog_mono fv fv' E strict_ c o :
    vm_prog fo fv E strict_ c = o -> o <> VFuel -> fv <= fv' -> vm_prog fo fv' E strict_ c = o.
  Proof.
    unfold vm_prog. intros H Ho Hle.
    destruct (vm_run fo c strict_ E fv (init_state fo)) as [st| | | |] eqn:Er; cbn in H; subst o;
      try (rewrite (run_mono fo c strict_ E _ _ _ _ Er ltac:(discriminate) Hle); reflexivity).
    exfalso; apply Ho; reflexivity.
  Qed.

  (* a translated program of the fragment whose evaluation is defined never drives the VM into
     unreachable!(), a panic, a stack underflow or an invalid jump, whatever the fuel *)
  Theorem translate_no_bug p E strict_ fs :
    in_fragment p = true ->
    (exists bs, sem_prog fo fs E strict_ true p = Ok bs) \/ sem_prog fo fs E strict_ true p = Err ->
    forall fv, vm_prog fo fv E strict_ (translate p) <> VBug.
  Proof.
    intros Hf Hsem fv Hbug.
    assert (Hex : exists fv' o, vm_prog fo fv' E strict_ (translate p) = o /\ o <> VBug /\ o <> VFuel).
    { destruct Hsem as [(bs & Hsem)|Hsem].
      - destruct (compile_correct_ok _ _ _ _ _ Hf Hsem) as (fv' & bs' & H1 & _).
        exists fv', (VOk bs'). repeat split; auto; discriminate.
      - destruct (compile_correct_err _ _ _ _ Hf Hsem) as (fv' & H1).
        exists fv', VErr. repeat split; auto; discriminate. }
    destruct Hex as (fv' & o & H1 & Ho1 & Ho2).
    pose proof (vm_prog_mono _ (Nat.max fv fv') _ _ _ _ Hbug ltac:(discriminate) ltac:(lia)) as H2.
    pose proof (vm_prog_mono _ (Nat.max fv fv') _ _ _ _ H1 Ho2 ltac:(lia)) as H3.
    congruence.
  Qed.
End Headline.

(* ---------------- the milestones as named theorems ---------------- *)
(* which constructs an expression mentions *)
Section Mentions.
  Variable P : expr -> bool.            (* is this node one of the constructs looked for? *)
  Fixpoint mentions (e : expr) : bool :=
    P e ||
    match e with
    | ENull | EBool _ | EInt _ | EFloat _ | EStr _ | ESym _ | EImport _ | EInclude _ _ => false
    | ETuple fs => existsb (fun kv => mentions (snd kv)) fs
    | EList es => existsb mentions es
    | EBin _ l r => mentions l || mentions r
    | ENot e1 | EGroup e1 | ECast _ e1 | EFail e1 | ETrace e1 | EConvert _ e1 => mentions e1
    | ECopy t fs => mentions t || existsb (fun kv => mentions (snd kv)) fs
    | ERange a s z => mentions a || match s with Some s' => mentions s' | None => false end || mentions z
    | EFormatL _ args => existsb mentions args
    | EFormatS ps a => mentions a || existsb (fun p => match p with PExpr pe => mentions pe | _ => false end) ps
    | ECall fn args => mentions fn || existsb mentions args
    | EFunc _ body => mentions body
    | ESelect v d arms =>
      mentions v || match d with Some d' => mentions d' | None => false end
      || existsb (fun kv => mentions (snd kv)) arms
    | EMap a c => mentions a || mentions c
    | EFilter a c => mentions a || mentions c
    | EReduce a c d => mentions a || mentions c || mentions d
    | EModule ps out body =>
      existsb (fun kv => mentions (snd kv)) ps || match out with Some o => mentions o | None => false end
      || existsb (fun s => match s with SLet _ e | SExpr e | SAssert e | SOut _ e => mentions e end) body
    end.
  Definition stmt_mentions (s : stmt) : bool :=
    match s with SLet _ e | SExpr e | SAssert e | SOut _ e => mentions e end.
End Mentions.

Definition is_copy (e : expr) : bool := match e with ECopy _ _ => true | _ => false end.
Definition is_func_or_call (e : expr) : bool := match e with EFunc _ _ | ECall _ _ => true | _ => false end.
Definition is_hof (e : expr) : bool := match e with EMap _ _ | EFilter _ _ | EReduce _ _ _ => true | _ => false end.
Definition is_format (e : expr) : bool := match e with EFormatL _ _ | EFormatS _ _ => true | _ => false end.
Definition is_module (e : expr) : bool := match e with EModule _ _ _ => true | _ => false end.

(* milestone (1): none of copy, func/call, map/filter/reduce, format, module;  (2) + copy;
   (3) + func and calls;  (4) + map/filter/reduce;  (5) + format strings;  (6) + modules = [frag] *)
Definition in_core (p : prog) : bool :=
  in_fragment p && negb (existsb (stmt_mentions (fun e => is_copy e || is_func_or_call e || is_hof e || is_format e || is_module e)) p).
Definition in_copy (p : prog) : bool :=
  in_fragment p && negb (existsb (stmt_mentions (fun e => is_func_or_call e || is_hof e || is_format e || is_module e)) p).
Definition in_func (p : prog) : bool :=
  in_fragment p && negb (existsb (stmt_mentions (fun e => is_hof e || is_format e || is_module e)) p).
Definition in_hof (p : prog) : bool :=
  in_fragment p && negb (existsb (stmt_mentions (fun e => is_format e || is_module e)) p).
Definition in_format (p : prog) : bool :=
  in_fragment p && negb (existsb (stmt_mentions is_module) p).
Definition in_module (p : prog) : bool := in_fragment p.

Section Milestones.
  Variable fo : float_ops.

  Definition compile_correct_for (frag_p : prog -> bool) : Prop :=
    forall p E strict_ fs,
      frag_p p = true ->
      (forall bs, sem_prog fo fs E strict_ true p = Ok bs ->
                  exists fv bs', vm_prog fo fv E strict_ (translate p) = VOk bs' /\ represents fo p bs bs') /\
      (sem_prog fo fs E strict_ true p = Err ->
       exists fv, vm_prog fo fv E strict_ (translate p) = VErr).

  Theorem compile_correct_module : compile_correct_for in_module.
  Proof.
    intros p E strict_ fs Hf. split.
    - intros bs. apply compile_correct_ok; auto.
    - apply compile_correct_err; auto.
  Qed.

  Theorem compile_correct_format : compile_correct_for in_format.
  Proof.
    intros p E strict_ fs Hf. apply andb_true_iff in Hf as [Hf _]. apply compile_correct_module; auto.
  Qed.

  Theorem compile_correct_hof : compile_correct_for in_hof.
  Proof.
    intros p E strict_ fs Hf. apply andb_true_iff in Hf as [Hf _]. apply compile_correct_module; auto.
  Qed.

  Theorem compile_correct_func : compile_correct_for in_func.
  Proof.
    intros p E strict_ fs Hf. apply andb_true_iff in Hf as [Hf _]. apply compile_correct_module; auto.
  Qed.

  Theorem compile_correct_copy : compile_correct_for in_copy.
  Proof.
    intros p E strict_ fs Hf. apply andb_true_iff in Hf as [Hf _]. apply compile_correct_module; auto.
  Qed.

  Theorem compile_correct_core : compile_correct_for in_core.
  Proof.
    intros p E strict_ fs Hf. apply andb_true_iff in Hf as [Hf _]. apply compile_correct_module; auto.
  Qed.

  (* stack discipline, expression level: in any code context, from any stack, the code of an
     expression of the fragment whose evaluation is defined either pushes exactly one value
     (leaving the rest of the stack, the symbol table and the self stack as they were, and the pc
     just behind the expression's code) or stops with an error *)
  Theorem stack_discipline C strict_ E fuel (c : ctx fo) e c1 c2 s t ss :
    frag e = true -> C = c1 ++ tr e ++ c2 ->
    strict fo c = strict_ -> envt fo c = E -> eq_ordered fo c = true ->
    scope_rel fo C (sc fo c) t -> self_rel fo C (self_v fo c) ss ->
    match eval fo fuel c e with
    | Ok V => exists w, val_rel fo C V w /\
                        reaches fo C strict_ E (mk fo (List.length c1) s t ss)
                                (mk fo (List.length c1 + List.length (tr e)) (w :: s) t ss)
    | Err => errs fo C strict_ E (mk fo (List.length c1) s t ss)
    | _ => True
    end.
  Proof.
    intros Hf HC Hst Hen Hord Hs Hself.
    destruct (sim_main fo C strict_ E fuel) as (IH & _ & _).
    apply IH; auto.
    - repeat split; auto.
    - subst C. intros k i Hk. rewrite nth_error_app2 by lia.
      replace (List.length c1 + k - List.length c1) with k by lia.
      rewrite nth_error_app1; auto. apply nth_error_Some. congruence.
  Qed.
End Milestones.

