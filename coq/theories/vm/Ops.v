(* M-OPS: opcodes, VM values and machine state of src/build/opcode/{mod.rs,vm.rs,scope.rs,pointer.rs}.
   Model only: executable definitions, no proofs.  Positions are dropped everywhere (they only
   decorate diagnostics).  The constraint opcodes (CheckConstraint, BuildConstraint) are not
   modelled: the AST of sem/Ast.v has no constraint syntax, so the translator never emits them. *)
From Ucg Require Export sem.Sem.

(* Primitive operands of [Op::Val] (a float literal keeps its bit pattern, as in the AST) *)
Inductive lit := LInt (z : Z) | LFloat (bits : Z) | LStr (s : bytes) | LBool (v : bool) | LEmpty.

(* enum Hook (the position carried by Trace is dropped) *)
Inductive hook :=
| HMap | HInclude | HFilter | HReduce | HImport | HOut | HAssert | HConvert | HRegex | HRange | HTrace.

(* enum Op.  Jump distances are i32 in the source; the translator only produces non-negative
   ones, so they are [nat] here.  [ITranslatorPanic] is NOT an opcode of the implementation:
   it stands for "translate.rs hit unreachable!() / unwrap() on this expression" so that the
   model translator stays a total function; executing it is a Bug outcome. *)
Inductive instr :=
| IBind | IBindOver | IPop | INewScope (j : nat)
| IAdd | ISub | IDiv | IMul | IMod
| IEqual | IGt | ILt | IGtEq | ILtEq
| INot
| IVal (l : lit)
| ICast (t : cast_type)
| ISym (s : bytes)
| IDeRef (s : bytes)
| IInitTuple | IField | IInitList | IElement
| ICp
| IBang | IJump (j : nat) | IJumpIfTrue (j : nat) | IJumpIfFalse (j : nat) | ISelectJump (j : nat)
| IAnd (j : nat) | IOr (j : nat)
| IIndex | ISafeIndex | IExist | INoop
| IInitThunk (j : nat) | IModule (j : nat) | IFunc (j : nat) | IReturn
| IFCall
| ITyp
| IRuntime (h : hook)
| IRender
| IPushSelf | IPopSelf
| ITranslatorPanic.

Definition ops := list instr.

(* outcome of a VM run / of one handler *)
Inductive outcome (A : Type) :=
| VOk (a : A)
| VErr            (* Err(Error): a build error *)
| VBug            (* unreachable!(), panic!(), unwrap() on None, "FAULT!!! Invalid Jump" *)
| VUnsup          (* a hook or a float/function-comparison primitive this model does not cover *)
| VFuel.          (* out of fuel *)
Arguments VOk {A}. Arguments VErr {A}. Arguments VBug {A}. Arguments VUnsup {A}. Arguments VFuel {A}.

Definition vbind {A B} (r : outcome A) (k : A -> outcome B) : outcome B :=
  match r with VOk a => k a | VErr => VErr | VBug => VBug | VUnsup => VUnsup | VFuel => VFuel end.
Notation "'vdo' x <- r ; k" := (vbind r (fun x => k)) (at level 200, x pattern, r at level 100, k at level 200).

Section Ops.
  Variable fo : float_ops.

  (* enum Value (S, P, C, T, F, M).  All closures of one run point into the same code (imports
     are outside the model), so an OpPointer is just its index. *)
  Inductive wval :=
  | WSym (s : bytes)
  | WInt (z : Z) | WFloat (f : F fo) | WStr (s : bytes) | WBool (v : bool) | WEmpty
  | WList (l : list wval)
  | WTuple (fs : list (bytes * wval))
  | WThunk (idx : nat)
  | WFunc (ptr : nat) (bindings : list bytes) (snap : list (bytes * wval))
  | WMod (ptr : nat) (result_ptr : option nat) (flds : list (bytes * wval)).

  (* scope.rs: a BTreeMap from names to values = a list sorted by key without duplicates *)
  Definition symtab := list (bytes * wval).
  Fixpoint sym_get (x : bytes) (t : symtab) : option wval :=
    match t with
    | [] => None
    | (k, v) :: t' => if bytes_eqb x k then Some v else sym_get x t'
    end.
  Fixpoint sym_add (k : bytes) (v : wval) (t : symtab) : symtab :=
    match t with
    | [] => [(k, v)]
    | (k', w) :: t' => if bytes_ltb k k' then (k, v) :: t
                       else if bytes_eqb k k' then (k, v) :: t'
                       else (k', w) :: sym_add k v t'
    end.
  Definition sym_bound (x : bytes) (t : symtab) : bool :=
    match sym_get x t with Some _ => true | None => false end.

  (* struct VM minus the immutable parts; [pc] is the index of the op that next() will yield
     (ptr = None is pc = 0, ptr = Some i is pc = i + 1).  Stacks have their top at the head. *)
  Record state := { pc : nat; stk : list wval; syms : symtab; selfs : list wval }.

  Definition lit_val (l : lit) : wval :=
    match l with
    | LInt z => WInt z | LFloat bits => WFloat (f_of_bits fo bits) | LStr s => WStr s
    | LBool v => WBool v | LEmpty => WEmpty
    end.

  (* Value::type_name *)
  Inductive wtn := NInt | NFloat | NString | NBool | NNull | NList | NTuple | NFunc | NExpression | NSymbol.
  Definition wtn_eqb (a c : wtn) : bool :=
    match a, c with
    | NInt, NInt | NFloat, NFloat | NString, NString | NBool, NBool | NNull, NNull | NList, NList
    | NTuple, NTuple | NFunc, NFunc | NExpression, NExpression | NSymbol, NSymbol => true
    | _, _ => false
    end.
  Definition wtype_name (v : wval) : wtn :=
    match v with
    | WSym _ => NSymbol | WInt _ => NInt | WFloat _ => NFloat | WStr _ => NString | WBool _ => NBool
    | WEmpty => NNull | WList _ => NList | WTuple _ => NTuple | WThunk _ => NExpression
    | WFunc _ _ _ => NFunc | WMod _ _ _ => NFunc
    end.
  (* the test used by op_equal and merge_field_into_tuple *)
  Definition wcompatible (a c : wval) : bool :=
    wtn_eqb (wtype_name a) (wtype_name c) || wtn_eqb (wtype_name a) NNull || wtn_eqb (wtype_name c) NNull.

  (* op_typ *)
  Local Open Scope string_scope.
  Definition wtyp (v : wval) : bytes :=
    match v with
    | WInt _ => b "int" | WFloat _ => b "float" | WBool _ => b "bool" | WStr _ => b "str"
    | WEmpty => b "null" | WTuple _ => b "tuple" | WList _ => b "list" | WFunc _ _ _ => b "func"
    | WMod _ _ _ => b "module" | WSym _ => b "sym" | WThunk _ => b "thunk"
    end.

  (* reserved_words() of vm.rs (with env/true/false as of commit 7535552) *)
  Definition vm_reserved : list bytes :=
    map b ["let"; "module"; "func"; "out"; "assert"; "self"; "import"; "include"; "as"; "map";
           "filter"; "reduce"; "select"; "not"; "constraint"; "convert"; "fail"; "NULL"; "in";
           "is"; "TRACE"; "env"; "true"; "false"].
  Local Close Scope string_scope.
  Definition vm_is_reserved (x : bytes) : bool := existsb (bytes_eqb x) vm_reserved.

  (* impl PartialEq for Value (after commit 8991b90: tuples compare in order).  Comparing two
     functions or two modules compares code pointers and snapshots; that is not modelled: None. *)
  Fixpoint weq (a c : wval) {struct a} : option bool :=
    match a, c with
    | WInt x, WInt y => Some (Z.eqb x y)
    | WFloat x, WFloat y => Some (feqb fo x y)
    | WStr x, WStr y => Some (bytes_eqb x y)
    | WBool x, WBool y => Some (Bool.eqb x y)
    | WEmpty, WEmpty => Some true
    | WList x, WList y =>
      if negb (Nat.eqb (List.length x) (List.length y)) then Some false
      else (fix go (x y : list wval) : option bool :=
              match x, y with
              | [], [] => Some true
              | v :: x', w :: y' => match weq v w with Some true => go x' y' | r => r end
              | _, _ => Some false
              end) x y
    | WTuple x, WTuple y =>
      if negb (Nat.eqb (List.length x) (List.length y)) then Some false
      else (fix go (x y : list (bytes * wval)) : option bool :=
              match x, y with
              | [], [] => Some true
              | (k, v) :: x', (k', w) :: y' =>
                if bytes_eqb k k' then match weq v w with Some true => go x' y' | r => r end
                else Some false
              | _, _ => Some false
              end) x y
    | WFunc _ _ _, WFunc _ _ _ => None
    | WMod _ _ _, WMod _ _ _ => None
    | _, _ => Some false
    end.

  (* convert.rs  impl From<&Value> for Rc<str>  (what Op::Render produces).  None: the text of a
     float is not modelled by the float interface. *)
  Fixpoint wrender (v : wval) : option bytes :=
    match v with
    | WSym s => Some s
    | WInt z => Some (dec_Z z)
    | WFloat x => f_text fo x
    | WStr s => Some s
    | WBool true => Some (b "true")
    | WBool false => Some (b "false")
    | WEmpty => Some (b "NULL")
    | WList l =>
      match (fix go (l : list wval) : option bytes :=
               match l with
               | [] => Some []
               | v :: l' => match wrender v, go l' with
                            | Some t, Some r => Some (t ++ ","%char :: r)
                            | _, _ => None end
               end) l with
      | Some body => Some ("["%char :: body ++ b "]")
      | None => None
      end
    | WTuple fs =>
      match (fix go (fs : list (bytes * wval)) : option bytes :=
               match fs with
               | [] => Some []
               | (k, v) :: fs' => match wrender v, go fs' with
                                  | Some t, Some r => Some (k ++ b " = " ++ t ++ ","%char :: r)
                                  | _, _ => None end
               end) fs with
      | Some body => Some ("{"%char :: body ++ b "}")
      | None => None
      end
    | WThunk _ => Some (b "<Thunk>")
    | WFunc _ _ _ => Some (b "<Func>")
    | WMod _ _ _ => Some (b "<Module>")
    end.

  (* merge_field_into_tuple *)
  Fixpoint wmerge_field (fs : list (bytes * wval)) (k : bytes) (v : wval) : outcome (list (bytes * wval)) :=
    match fs with
    | [] => VOk [(k, v)]
    | (k', w) :: fs' =>
      if bytes_eqb k' k then (if wcompatible w v then VOk ((k', v) :: fs') else VErr)
      else vdo r <- wmerge_field fs' k v; VOk ((k', w) :: r)
    end.
  Fixpoint wmerge_fields (base ov : list (bytes * wval)) : outcome (list (bytes * wval)) :=
    match ov with
    | [] => VOk base
    | (k, v) :: ov' => vdo base' <- wmerge_field base k v; wmerge_fields base' ov'
    end.
End Ops.

Arguments WSym {fo}. Arguments WInt {fo}. Arguments WStr {fo}. Arguments WBool {fo}. Arguments WEmpty {fo}.
Arguments WThunk {fo}. Arguments WFloat {fo}. Arguments WList {fo}. Arguments WTuple {fo}.
Arguments WFunc {fo}. Arguments WMod {fo}.
Arguments Build_state {fo}. Arguments pc {fo}. Arguments stk {fo}. Arguments syms {fo}. Arguments selfs {fo}.
Arguments sym_get {fo}. Arguments sym_add {fo}. Arguments sym_bound {fo}.
Arguments wtype_name {fo}. Arguments wcompatible {fo}. Arguments wtyp {fo}.
Arguments weq {fo}. Arguments wrender {fo}. Arguments wmerge_field {fo}. Arguments wmerge_fields {fo}.
