(* Running programs through BOTH the definitional semantics (sem_prog) and the compiled code
   (vm_prog after translate), by vm_compute, with a trivial concrete float instance that is
   defined here only (floats as integers; the arithmetic is a stand-in). *)
From Ucg Require Import vm.Compile_Correct.

Definition toy_floats : float_ops := {|
  F := Z;
  f_of_bits := fun z => z; f_to_bits := fun z => z;
  fadd := Z.add; fsub := Z.sub; fmul := Z.mul; fdiv := fun x y => Z.quot x y;
  feqb := Z.eqb; fltb := Z.ltb; fleb := Z.leb;
  f_of_int := fun z => z; f_to_int := fun z => Some z; f_text := fun z => Some (dec_Z z)
|}.

(* both results, rendered (closures render as <Func>, modules as <Module>) *)
Definition show_sem (r : res (list (bytes * value toy_floats))) : option (list (bytes * option bytes)) :=
  match r with
  | Ok bs => Some (map (fun '(k, v) => (k, match render toy_floats 100 v with Ok t => Some t | _ => None end)) bs)
  | _ => None
  end.
Definition show_vm (r : outcome (list (bytes * wval toy_floats))) : option (list (bytes * option bytes)) :=
  match r with
  | VOk bs => Some (map (fun '(k, w) => (k, wrender w)) bs)
  | _ => None
  end.
Definition agree (p : prog) : bool :=
  match show_sem (sem_prog toy_floats 200 [(b "HOME", b "/root")] true true p),
        show_vm (vm_prog toy_floats 5000 [(b "HOME", b "/root")] true (translate p)) with
  | Some x, Some y =>
    Nat.eqb (List.length x) (List.length y) &&
    forallb (fun '((k1, t1), (k2, t2)) =>
               bytes_eqb k1 k2 && match t1, t2 with Some a, Some c => bytes_eqb a c | _, _ => false end)
            (combine x y)
  | _, _ => false
  end.

Local Open Scope string_scope.

(* every construct of milestones 1-4 *)
Definition p_frag : prog :=
  [ SLet (b "a") (EBin Add (EInt 1) (EBin Mul (EInt 2) (EInt 3)));
    SLet (b "a2") (EBin Sub (EBin Div (EInt 17) (EInt 5)) (EBin Mod (EInt 17) (EInt 5)));
    SLet (b "fl") (EBin Add (EFloat 3) (ECast CFloat (EInt 4)));
    SLet (b "st") (EBin Add (EStr (b "ab")) (EStr (b "cd")));
    SLet (b "ls") (EBin Add (EList [EInt 1]) (EList [ENull; EBool true]));
    SLet (b "t") (ETuple [(b "x", ESym (b "a")); (b "y", EList [EInt 1; EStr (b "s")]); (b "x", EInt 9)]);
    SLet (b "c") (EBin AND (EBin LT (ESym (b "a")) (EInt 10)) (EBin OR (EBool false) (ENot (EBool false))));
    SLet (b "cmp") (EList [EBin GT (EInt 1) (EInt 2); EBin GTEqual (EInt 2) (EInt 2); EBin LTEqual (EInt 3) (EInt 2)]);
    SLet (b "eq") (EList [EBin Equal (ESym (b "t")) (ESym (b "t")); EBin NotEqual (ESym (b "t")) ENull;
                          EBin Equal (ETuple [(b "p", EInt 1); (b "q", EInt 2)]) (ETuple [(b "q", EInt 2); (b "p", EInt 1)])]);
    SLet (b "d") (EBin DOT (EBin DOT (ESym (b "t")) (ESym (b "y"))) (EInt 1));
    SLet (b "d2") (EBin DOT (ESym (b "t")) (EGroup (EStr (b "x"))));
    SLet (b "e") (ESelect (EBin DOT (ESym (b "t")) (ESym (b "x"))) (Some (EStr (b "dflt"))) [(b "k", EInt 1)]);
    SLet (b "f") (ESelect (EStr (b "k")) None [(b "j", EInt 0); (b "k", EBin IN (ESym (b "x")) (ESym (b "t")))]);
    SLet (b "f2") (ESelect (EBin IN (EInt 3) (EList [EInt 1; EInt 3])) None [(b "true", EStr (b "yes")); (b "false", EStr (b "no"))]);
    SLet (b "f3") (EList [EBin IN (EStr (b "bc")) (EStr (b "abcd")); EBin IN (ESym (b "a")) (EList [EInt 7])]);
    SLet (b "g") (ERange (EInt 1) (Some (EInt 2)) (EInt 7));
    SLet (b "g2") (ERange (EInt 3) None (EInt 5));
    SLet (b "h") (EBin IS (ESym (b "g")) (EStr (b "list")));
    SLet (b "i") (EList [ECast CStr (EInt 42); ECast CInt (EStr (b "-7")); ECast CBool (EStr (b "true")); ECast CStr (EStr (b "q"))]);
    SLet (b "home") (EBin DOT (ESym (b "env")) (ESym (b "HOME")));
    SExpr (ETrace (EGroup (ESym (b "a"))));
    (* milestone 2: copies with self *)
    SLet (b "u") (ECopy (ESym (b "t")) [(b "x", EBin Add (EBin DOT (ESym (b "self")) (ESym (b "x"))) (EInt 1)); (b "z", EStr (b "new"))]);
    SLet (b "nest") (ETuple [(b "inner", ETuple [(b "v", EInt 1)])]);
    SLet (b "u2") (EBin DOT (ESym (b "nest")) (ECopy (ESym (b "inner")) [(b "v", EInt 2); (b "w", EBin DOT (ESym (b "self")) (ESym (b "v")))]));
    (* milestone 3: closures and calls *)
    SLet (b "k") (EInt 10);
    SLet (b "add") (EFunc [b "x"; b "y"] (EBin Add (EBin Add (ESym (b "x")) (ESym (b "y"))) (ESym (b "k"))));
    SLet (b "r") (ECall (ESym (b "add")) [EInt 1; EInt 2]);
    SLet (b "adder") (EFunc [b "n"] (EFunc [b "m"] (EBin Add (ESym (b "n")) (ESym (b "m")))));
    SLet (b "add5") (ECall (ESym (b "adder")) [EInt 5]);
    SLet (b "r3") (ECall (ESym (b "add5")) [EInt 6]);
    SLet (b "ft") (ETuple [(b "f", ESym (b "add")); (b "n", EInt 1)]);
    SLet (b "r2") (EBin DOT (ESym (b "ft")) (ECall (ESym (b "f")) [EInt 5; EInt 6]));
    SLet (b "sel") (EFunc [b "v"] (ESelect (ESym (b "v")) (Some (EInt 0)) [(b "one", EInt 1); (b "two", EInt 2)]));
    SLet (b "r4") (EList [ECall (ESym (b "sel")) [EStr (b "two")]; ECall (ESym (b "sel")) [EStr (b "x")]]);
    (* milestone 4: map / filter / reduce over lists, tuples, strings *)
    SLet (b "m1") (EMap (EFunc [b "x"] (EBin Mul (ESym (b "x")) (ESym (b "x")))) (EList [EInt 1; EInt 2; EInt 3]));
    SLet (b "m2") (EMap (EFunc [b "k"; b "v"] (EList [EBin Add (ESym (b "k")) (EStr (b "_")); ESym (b "v")])) (ESym (b "ft")));
    SLet (b "m3") (EMap (EFunc [b "ch"] (EBin Add (ESym (b "ch")) (EStr (b ".")))) (EStr (b "abc")));
    SLet (b "f1") (EFilter (EFunc [b "x"] (EBin GT (ESym (b "x")) (EInt 1))) (EList [EInt 1; EInt 2; EInt 3]));
    SLet (b "f2b") (EFilter (EFunc [b "k"; b "v"] (EBin IS (ESym (b "v")) (EStr (b "int")))) (ESym (b "ft")));
    SLet (b "f3b") (EFilter (EFunc [b "ch"] (EBin NotEqual (ESym (b "ch")) (EStr (b "b")))) (EStr (b "abc")));
    SLet (b "rd1") (EReduce (EFunc [b "acc"; b "x"] (EBin Add (ESym (b "acc")) (ESym (b "x")))) (EInt 0) (EList [EInt 1; EInt 2; EInt 3]));
    SLet (b "rd2") (EReduce (EFunc [b "acc"; b "k"; b "v"] (EBin Add (ESym (b "acc")) (ESym (b "k")))) (EStr (b "")) (ESym (b "ft")));
    SLet (b "rd3") (EReduce (EFunc [b "acc"; b "c"] (EBin Add (ESym (b "c")) (ESym (b "acc")))) (EStr (b "")) (EStr (b "abc")))
  ].

Example p_frag_in_fragment : in_fragment p_frag = true.
Proof. vm_compute. reflexivity. Qed.
Example p_frag_agrees : agree p_frag = true.
Proof. vm_compute. reflexivity. Qed.

(* errors are errors on both sides: division by zero, a missing field in strict mode, fail, an arity error *)
Definition both_err (p : prog) : bool :=
  match sem_prog toy_floats 200 [] true true p, vm_prog toy_floats 5000 [] true (translate p) with
  | Err, VErr => true
  | _, _ => false
  end.
Example err_div0 : both_err [SLet (b "x") (EBin Div (EInt 1) (EInt 0))] = true.
Proof. vm_compute. reflexivity. Qed.
Example err_overflow : both_err [SLet (b "x") (EBin Add (EInt 9223372036854775807) (EInt 1))] = true.
Proof. vm_compute. reflexivity. Qed.
Example err_field : both_err [SLet (b "x") (EBin DOT (ETuple []) (ESym (b "nope")))] = true.
Proof. vm_compute. reflexivity. Qed.
Example err_fail : both_err [SExpr (EFail (EStr (b "boom")))] = true.
Proof. vm_compute. reflexivity. Qed.
Example err_arity : both_err [SLet (b "f") (EFunc [b "x"] (ESym (b "x"))); SExpr (ECall (ESym (b "f")) [])] = true.
Proof. vm_compute. reflexivity. Qed.
Example err_rebind : both_err [SLet (b "x") (EInt 1); SLet (b "x") (EInt 2)] = true.
Proof. vm_compute. reflexivity. Qed.
Example err_types : both_err [SExpr (EBin Equal (EInt 1) (EStr (b "1")))] = true.
Proof. vm_compute. reflexivity. Qed.
Example err_hof_arity : both_err [SExpr (EMap (EFunc [b "x"; b "y"] (ESym (b "x"))) (EList [EInt 1]))] = true.
Proof. vm_compute. reflexivity. Qed.
Example err_select : both_err [SExpr (ESelect (EStr (b "z")) None [(b "a", EInt 1)])] = true.
Proof. vm_compute. reflexivity. Qed.

(* milestones 5 and 6: format strings (both forms) and modules (parameters, out expression, mod.this) *)
Definition modn : expr := EBin DOT (ESym (b "mod")) (ESym (b "n")).
Definition p_more : prog :=
  [ SLet (b "t") (ETuple [(b "f", EInt 1); (b "n", EStr (b "s"))]);
    SLet (b "s0") (EFormatL [] []);
    SLet (b "s1") (EFormatL [PStr (b "a="); PHole; PStr (b " b="); PHole] [EInt 1; EList [EBool true]]);
    SLet (b "s1b") (EFormatL [PHole; PHole; PStr (b "!")] [ESym (b "t"); ENull]);
    SLet (b "s2") (EFormatS [PStr (b "n="); PExpr (EBin DOT (ESym (b "item")) (ESym (b "n"))); PStr (b " f=");
                             PExpr (EBin Add (EBin DOT (ESym (b "item")) (ESym (b "f"))) (EInt 1))] (ESym (b "t")));
    SLet (b "s3") (EFormatS [] (EInt 1));
    SLet (b "md") (EModule [(b "p", EInt 1)] None [SLet (b "q") (EBin Add (EBin DOT (ESym (b "mod")) (ESym (b "p"))) (EInt 1))]);
    SLet (b "mi") (ECopy (ESym (b "md")) [(b "p", EInt 41)]);
    SLet (b "mo") (EModule [(b "p", EInt 1)] (Some (ESym (b "q"))) [SLet (b "q") (EBin Mul (EBin DOT (ESym (b "mod")) (ESym (b "p"))) (EInt 2))]);
    SLet (b "mj") (ECopy (ESym (b "mo")) [(b "p", EInt 21)]);
    (* recursion through mod.this *)
    SLet (b "cnt") (EModule [(b "n", EInt 0)] (Some (ESym (b "r")))
      [SLet (b "r") (ESelect (EBin Equal modn (EInt 0)) None
         [(b "true", EInt 0);
          (b "false", EBin Add (EBin DOT (ESym (b "mod")) (ECopy (ESym (b "this")) [(b "n", EBin Sub modn (EInt 1))])) (EInt 1))])]);
    SLet (b "c3") (ECopy (ESym (b "cnt")) [(b "n", EInt 3)]);
    SLet (b "slf") (ECopy (EModule [] (Some (EBin IS (ESym (b "s")) (EStr (b "module")))) [SLet (b "s") (ESym (b "self"))]) [])
  ].
Example p_more_in_fragment : in_fragment p_more = true.
Proof. vm_compute. reflexivity. Qed.
Example p_more_agrees : agree p_more = true.
Proof. vm_compute. reflexivity. Qed.
Example err_format_count : both_err [SExpr (EFormatL [PHole] [])] = true.
Proof. vm_compute. reflexivity. Qed.
Example err_format_arg : both_err [SExpr (EFormatL [PHole; PHole] [EBin Div (EInt 1) (EInt 0); EInt 2])] = true.
Proof. vm_compute. reflexivity. Qed.
Example err_module_type : both_err [SLet (b "m") (EModule [(b "p", EInt 1)] None []); SExpr (ECopy (ESym (b "m")) [(b "p", EStr (b "x"))])] = true.
Proof. vm_compute. reflexivity. Qed.
