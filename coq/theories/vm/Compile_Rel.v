(* The fragment predicate, the relation between semantic values and VM values (a logical relation
   for closures: same parameters, body compiled in the running code, snapshots related pointwise),
   and the correspondence of every primitive of the evaluator with the VM handler's primitive. *)
From Ucg Require Import base.Bytes_Lemmas.
From Ucg Require Export vm.Compile_Base.

Arguments VNull {fo}. Arguments VBool {fo}. Arguments VInt {fo}. Arguments VFloat {fo}.
Arguments VStr {fo}. Arguments VList {fo}. Arguments VTuple {fo}. Arguments VFunc {fo}.
Arguments VModule {fo}.

(* ---------------- the fragment ---------------- *)
Fixpoint nodupb (l : list bytes) : bool :=
  match l with [] => true | x :: l' => negb (existsb (bytes_eqb x) l') && nodupb l' end.
Definition params_ok (ps : list bytes) : bool := nodupb ps.
Definition is_sel (e : expr) : bool :=
  match e with ESym _ | EStr _ | EInt _ => true | _ => false end.

Fixpoint frag (e : expr) : bool :=
  match e with
  | ENull | EBool _ | EInt _ | EFloat _ | EStr _ | ESym _ => true
  | ETuple fs => forallb (fun kv => frag (snd kv)) fs
  | EList es => forallb frag es
  | EBin o l r =>
    match o with
    | DOT =>
      match r with
      | ECopy sel fs => frag l && is_sel sel && forallb (fun kv => frag (snd kv)) fs
      | ECall fn args => frag l && is_sel fn && forallb frag args
      | _ => frag l && frag r
      end
    | _ => frag l && frag r
    end
  | ENot e1 | EGroup e1 | ECast _ e1 | EFail e1 | ETrace e1 => frag e1
  | ECopy t fs => frag t && forallb (fun kv => frag (snd kv)) fs
  | ERange a s z => frag a && match s with Some s' => frag s' | None => true end && frag z
  | ECall fn args => frag fn && forallb frag args
  | EFunc ps body => params_ok ps && frag body
  | ESelect v d arms =>
    frag v && match d with Some d' => frag d' | None => true end && forallb (fun kv => frag (snd kv)) arms
  | EMap fe te | EFilter fe te => frag fe && frag te
  | EReduce fe ae te => frag fe && frag ae && frag te
  | EFormatL parts args =>
    forallb (fun p => match p with PExpr _ => false | _ => true end) parts && forallb frag args
  | EFormatS parts arg =>
    forallb (fun p => match p with PStr _ => true | PHole => false | PExpr pe => frag pe end) parts && frag arg
  | EModule ps out body =>
    forallb (fun kv => frag (snd kv)) ps && match out with Some o => frag o | None => true end
    && forallb frag_stmt body
  | EImport _ | EInclude _ _ | EConvert _ _ => false
  end
with frag_stmt (s : stmt) : bool :=
  match s with
  | SLet x e => frag e
  | SExpr e => frag e
  | SAssert _ | SOut _ _ => false
  end.

Lemma reserved_agree x : vm_is_reserved x = is_reserved x.
Proof. reflexivity. Qed.

Inductive orel {A B} (R : A -> B -> Prop) : option A -> option B -> Prop :=
| orel_none : orel R None None
| orel_some a c : R a c -> orel R (Some a) (Some c).

Definition res_out {A B} (R : A -> B -> Prop) (r : res A) (o : outcome B) : Prop :=
  match r with
  | Ok a => exists c, o = VOk c /\ R a c
  | Err => o = VErr
  | _ => True
  end.

Section Rel.
  Variable fo : float_ops.
  Variable C : ops.

  Notation wval := (wval fo).
  Notation value := (value fo).

  Inductive val_rel : value -> wval -> Prop :=
  | VR_null : val_rel VNull WEmpty
  | VR_bool v : val_rel (VBool v) (WBool v)
  | VR_int z : val_rel (VInt z) (WInt z)
  | VR_float x : val_rel (VFloat x) (WFloat x)
  | VR_str s : val_rel (VStr s) (WStr s)
  | VR_list l l' : Forall2 val_rel l l' -> val_rel (VList l) (WList l')
  | VR_tuple fs fs' :
      Forall2 (fun a c => fst a = fst c /\ val_rel (snd a) (snd c)) fs fs' ->
      val_rel (VTuple fs) (WTuple fs')
  | VR_func ps body clo ptr snap :
      frag body = true -> params_ok ps = true ->
      code_at C ptr (IFunc (S (List.length (tr body))) :: tr body ++ [IReturn]) ->
      (forall x, orel val_rel (lookup fo x clo) (sym_get x snap)) ->
      val_rel (VFunc ps body clo) (WFunc ptr (rev ps) snap)
  | VR_mod ps out body ptr rp flds :
      Forall2 (fun a c => fst a = fst c /\ val_rel (snd a) (snd c)) ps flds ->
      forallb frag_stmt body = true ->
      code_at C ptr (IModule (S (List.length (translate body ++ [IReturn]))) :: IBind :: translate body ++ [IReturn]) ->
      match out with
      | Some oe => frag oe = true /\
                   exists tp, rp = Some tp /\
                              code_at C tp (IInitThunk (S (List.length (tr oe))) :: tr oe ++ [IReturn])
      | None => rp = None
      end ->
      val_rel (VModule ps out body) (WMod ptr rp flds).

  Definition fld_rel (a : bytes * value) (c : bytes * wval) : Prop :=
    fst a = fst c /\ val_rel (snd a) (snd c).
  Definition scope_rel (rho : scope fo) (t : symtab fo) : Prop :=
    forall x, orel val_rel (lookup fo x rho) (sym_get x t).
  Definition self_rel (sv : option value) (ss : list wval) : Prop := orel val_rel sv (hd_error ss).

  (* ---------------- symbol table ---------------- *)
  Lemma sym_get_add x k (v : wval) t :
    sym_get x (sym_add k v t) = if bytes_eqb x k then Some v else sym_get x t.
  Proof.
    induction t as [|[k' w] t IH]; cbn.
    - reflexivity.
    - destruct (bytes_ltb k k') eqn:Elt; cbn.
      + reflexivity.
      + destruct (bytes_eqb k k') eqn:Ekk; cbn.
        * apply bytes_eqb_spec in Ekk; subst k'. destruct (bytes_eqb x k); reflexivity.
        * destruct (bytes_eqb x k') eqn:Exk'.
          -- apply bytes_eqb_spec in Exk'; subst k'.
             destruct (bytes_eqb x k) eqn:Exk; auto.
             apply bytes_eqb_spec in Exk; subst. rewrite bytes_eqb_refl in Ekk; discriminate.
          -- exact IH.
  Qed.

  Lemma scope_rel_add rho t x v w :
    scope_rel rho t -> val_rel v w -> scope_rel ((x, v) :: rho) (sym_add x w t).
  Proof.
    intros H Hv y. cbn. rewrite sym_get_add. destruct (bytes_eqb y x).
    - constructor; auto.
    - apply H.
  Qed.

  Lemma scope_rel_nil : scope_rel [] [].
  Proof. intros x; constructor. Qed.

  (* ---------------- type names ---------------- *)
  Definition tn_conv (t : tname) : wtn :=
    match t with
    | TInt => NInt | TFloat => NFloat | TString => NString | TBool => NBool | TNull => NNull
    | TList => NList | TTuple => NTuple | TFunc => NFunc
    end.

  Lemma type_of_rel v w : val_rel v w -> wtype_name w = tn_conv (type_of fo v).
  Proof. destruct 1; reflexivity. Qed.

  Lemma tname_eqb_conv a c : wtn_eqb (tn_conv a) (tn_conv c) = tname_eqb a c.
  Proof. destruct a, c; reflexivity. Qed.

  Lemma compatible_rel v1 w1 v2 w2 :
    val_rel v1 w1 -> val_rel v2 w2 -> wcompatible w1 w2 = compatible fo v1 v2.
  Proof.
    intros H1 H2. unfold wcompatible, compatible.
    rewrite (type_of_rel _ _ H1), (type_of_rel _ _ H2).
    change NNull with (tn_conv TNull). rewrite !tname_eqb_conv. reflexivity.
  Qed.

  Lemma is_name_rel v w : val_rel v w -> wtyp w = is_name fo v.
  Proof. destruct 1; reflexivity. Qed.

  (* ---------------- arithmetic / comparison / cast ---------------- *)
  Definition arith_instr (o : op) : instr :=
    match o with Add => IAdd | Sub => ISub | Mul => IMul | Div => IDiv | _ => IMod end.
  Definition is_arith (o : op) : bool :=
    match o with Add | Sub | Mul | Div | Mod => true | _ => false end.

  Lemma chk_checked z : res_out val_rel (chk fo z) (checked fo z).
  Proof.
    unfold chk, checked. destruct (in_i64 z); cbn; eauto using val_rel.
  Qed.


  Ltac ro :=
    cbn; try reflexivity; try apply chk_checked; try exact I;
    try (eexists; split; [reflexivity | constructor; auto]).

  Lemma arith_rel o l r lw rw :
    is_arith o = true -> val_rel l lw -> val_rel r rw ->
    res_out val_rel (arith' fo o l r) (vm_arith fo (arith_instr o) lw rw).
  Proof.
    intros Ho Hl Hr.
    destruct o; try discriminate; destruct Hl; destruct Hr; ro.
    - (* list ++ list *) apply Forall2_app; auto.
    - destruct (Z.eqb z0 0); ro.
    - destruct (Z.eqb z0 0); ro. destruct (Z.eqb z i64_min && Z.eqb z0 (-1)); ro.
  Qed.

  Definition cmp_instr (o : op) : instr :=
    match o with GT => IGt | LT => ILt | GTEqual => IGtEq | _ => ILtEq end.
  Definition is_cmp (o : op) : bool :=
    match o with GT | LT | GTEqual | LTEqual => true | _ => false end.

  Lemma compare_rel o l r lw rw :
    is_cmp o = true -> val_rel l lw -> val_rel r rw ->
    res_out val_rel (compare_num fo o l r) (vm_compare fo (cmp_instr o) lw rw).
  Proof.
    intros Ho Hl Hr.
    destruct o; try discriminate; destruct Hl; destruct Hr; ro.
  Qed.

  Lemma cast_rel c v w : val_rel v w -> res_out val_rel (cast fo c v) (vm_cast fo c w).
  Proof.
    intros Hv. destruct Hv; destruct c; cbn;
      repeat (match goal with |- context [match ?c with _ => _ end] => destruct c end; cbn); ro.
  Qed.

  (* ---------------- indexing ---------------- *)
  Lemma bytes_eqb_sym x y : bytes_eqb x y = bytes_eqb y x.
  Proof.
    destruct (bytes_eqb x y) eqn:E.
    - apply bytes_eqb_spec in E; subst. now rewrite bytes_eqb_refl.
    - destruct (bytes_eqb y x) eqn:E'; auto. apply bytes_eqb_spec in E'; subst.
      rewrite bytes_eqb_refl in E; discriminate.
  Qed.

  Lemma lookup_fld_get k fs fs' :
    Forall2 fld_rel fs fs' -> orel val_rel (lookup fo k fs) (fld_get fo k fs').
  Proof.
    induction 1 as [|[k1 v1] [k2 w2] fs fs' [Hk Hv] _ IH]; cbn in *.
    - constructor.
    - subst k2. rewrite (bytes_eqb_sym k1 k). destruct (bytes_eqb k k1); auto. constructor; auto.
  Qed.

  Lemma Forall2_length {A B} {R : A -> B -> Prop} {l l'} :
    Forall2 R l l' -> List.length l = List.length l'.
  Proof. induction 1; cbn; auto. Qed.

  Lemma Forall2_nth_error {A B} (R : A -> B -> Prop) l l' n :
    Forall2 R l l' -> orel R (nth_error l n) (nth_error l' n).
  Proof.
    intros H; revert n; induction H; intros [|n]; cbn; try constructor; auto.
  Qed.

  Lemma index_rel (c : ctx fo) t k tw kw :
    val_rel t tw -> val_rel k kw ->
    res_out val_rel (index fo c t k) (vm_index fo (negb (strict fo c)) tw kw).
  Proof.
    intros Ht Hk. unfold index, vm_index.
    assert (Hmiss : res_out val_rel (if strict fo c then Err else Ok VNull)
                            (if negb (strict fo c) then VOk WEmpty else VErr)).
    { destruct (strict fo c); ro. }
    destruct Hk; try exact Hmiss.
    - (* int key *)
      destruct Ht; try exact Hmiss.
      pose proof (Forall2_length H) as Hlen.
      pose proof (Forall2_nth_error _ _ _ (Z.to_nat z) H) as Hn.
      destruct (Z.leb 0 z) eqn:E0; [|rewrite andb_false_r; exact Hmiss].
      rewrite andb_true_r.
      destruct (Z.ltb z (Z.of_nat (List.length l'))) eqn:El.
      + apply Z.ltb_lt in El. apply Z.leb_le in E0.
        inversion Hn as [Hn1 Hn2|a c' Hac Hn1 Hn2].
        * symmetry in Hn2. apply nth_error_None in Hn2. lia.
        * ro. eexists; split; [reflexivity|auto].
      + apply Z.ltb_ge in El. apply Z.leb_le in E0.
        inversion Hn as [Hn1 Hn2|a c' Hac Hn1 Hn2]; try exact Hmiss.
        assert (Z.to_nat z < List.length l').
        { apply nth_error_Some. congruence. } lia.
    - (* string key *)
      destruct Ht; try exact Hmiss.
      pose proof (lookup_fld_get s _ _ H) as Hl.
      inversion Hl; try exact Hmiss. ro. eexists; split; [reflexivity|auto].
  Qed.

  (* ---------------- equality ---------------- *)
  Definition veq_list (f : nat) := fix go (x y : list value) : res bool :=
    match x, y with
    | [], [] => Ok true
    | v :: x', w :: y' => do r <- veq fo true f v w; if r then go x' y' else Ok false
    | _, _ => Ok false
    end.
  Definition veq_tuple (f : nat) := fix go (x y : list (bytes * value)) : res bool :=
    match x, y with
    | [], [] => Ok true
    | (k, v) :: x', (k', w) :: y' =>
      if bytes_eqb k k' then (do r <- veq fo true f v w; if r then go x' y' else Ok false)
      else Ok false
    | _, _ => Ok false
    end.
  Definition weq_list := fix go (x y : list wval) : option bool :=
    match x, y with
    | [], [] => Some true
    | v :: x', w :: y' => match weq v w with Some true => go x' y' | r => r end
    | _, _ => Some false
    end.
  Definition weq_tuple := fix go (x y : list (bytes * wval)) : option bool :=
    match x, y with
    | [], [] => Some true
    | (k, v) :: x', (k', w) :: y' =>
      if bytes_eqb k k' then match weq v w with Some true => go x' y' | r => r end
      else Some false
    | _, _ => Some false
    end.

  Lemma veq_list_len f x : forall y q,
    veq_list f x y = Ok q -> List.length x <> List.length y -> q = false.
  Proof.
    induction x as [|v x IH]; intros [|w y] q H Hl; cbn in *; try congruence.
    destruct (veq fo true f v w) as [r| | |]; cbn in H; try discriminate.
    destruct r; [eapply IH; eauto | congruence].
  Qed.

  Lemma veq_weq : forall f a c wa wc q,
    val_rel a wa -> val_rel c wc -> veq fo true f a c = Ok q -> weq wa wc = Some q.
  Proof.
    induction f as [|f IH]; intros a c wa wc q Ha Hc H; [discriminate|].
    destruct Ha; destruct Hc; cbn in H; try discriminate; try (inversion H; subst; reflexivity).
    - (* lists *)
      change (veq_list f l l0 = Ok q) in H.
      change (weq (WList l') (WList l'0)) with
        (if negb (Nat.eqb (List.length l') (List.length l'0)) then Some false else weq_list l' l'0).
      rewrite <- (Forall2_length H0), <- (Forall2_length H1).
      destruct (Nat.eqb (List.length l) (List.length l0)) eqn:El; cbn.
      + clear El. revert l0 l'0 H1 H. induction H0 as [|v w x x' Hvw _ IHx]; intros y y' Hy H.
        * destruct Hy; cbn in *; congruence.
        * destruct Hy as [|v2 w2 y y' Hvw2 Hy]; cbn in *; [congruence|].
          destruct (veq fo true f v v2) as [r| | |] eqn:E; cbn in H; try discriminate.
          rewrite (IH _ _ _ _ _ Hvw Hvw2 E). destruct r; [eapply IHx; eauto | congruence].
      + apply Nat.eqb_neq in El. f_equal. symmetry. eapply veq_list_len; eauto.
    - (* tuples *)
      change (weq (WTuple fs') (WTuple fs'0)) with
        (if negb (Nat.eqb (List.length fs') (List.length fs'0)) then Some false else weq_tuple fs' fs'0).
      rewrite <- (Forall2_length H0), <- (Forall2_length H1).
      destruct (Nat.eqb (List.length fs) (List.length fs0)) eqn:El; cbn in *; [|congruence].
      change (veq_tuple f fs fs0 = Ok q) in H.
      clear El. revert fs0 fs'0 H1 H.
      induction H0 as [|[k v] [k' w] x x' [Hk Hvw] _ IHx]; intros y y' Hy H.
      * destruct Hy; cbn in *; congruence.
      * destruct Hy as [|[k2 v2] [k2' w2] y y' [Hk2 Hvw2] Hy]; cbn in *; [congruence|].
        subst k' k2'. destruct (bytes_eqb k k2); [|congruence].
        destruct (veq fo true f v v2) as [r| | |] eqn:E; cbn in H; try discriminate.
        rewrite (IH _ _ _ _ _ Hvw Hvw2 E). destruct r; [eapply IHx; eauto | congruence].
  Qed.

  Lemma veq_no_err : forall f a c, veq fo true f a c <> Err.
  Proof.
    induction f as [|f IHf]; intros v n E; [discriminate|].
    destruct v, n; cbn in E; try discriminate.
    - revert l0 E. induction l as [|a l IHl]; intros [|c l0] E; try discriminate.
      destruct (veq fo true f a c) eqn:E1; cbn in E; try discriminate.
      + destruct a0; [eapply IHl; eauto | discriminate].
      + eapply IHf; eauto.
    - destruct (negb _); [discriminate|].
      revert fs0 E. induction fs as [|[k a] l IHl]; intros [|[k' c] l0] E; try discriminate.
      destruct (bytes_eqb k k'); [|discriminate].
      destruct (veq fo true f a c) eqn:E1; cbn in E; try discriminate.
      + destruct a0; [eapply IHl; eauto | discriminate].
      + eapply IHf; eauto.
  Qed.

  Definition weq_prim (l r : wval) : outcome wval :=
    if wcompatible l r then match weq l r with Some q => VOk (WBool q) | None => VUnsup end else VErr.

  Lemma equal_rel f lv rv lw rw (neg : bool) :
    val_rel lv lw -> val_rel rv rw ->
    res_out (fun (v : value) (w : wval) => exists q, v = VBool (if neg then negb q else q) /\ w = WBool q)
            (if compatible fo lv rv then do q <- veq fo true f lv rv; Ok (VBool (if neg then negb q else q)) else Err)
            (weq_prim lw rw).
  Proof.
    intros Hl Hr. unfold weq_prim. rewrite (compatible_rel _ _ _ _ Hl Hr).
    destruct (compatible fo lv rv); cbn; auto.
    destruct (veq fo true f lv rv) as [q| | |] eqn:E; cbn; auto.
    - rewrite (veq_weq _ _ _ _ _ _ Hl Hr E). eauto.
    - exfalso. eapply veq_no_err; eauto.
  Qed.

  (* the loop of the `in` operator over a list *)
  Definition in_list (f : nat) (needle : value) := fix go (items : list value) : res value :=
    match items with
    | [] => Ok (VBool false)
    | v :: rest => do r <- veq fo true f v needle; if r then Ok (VBool true) else go rest
    end.

  Lemma in_list_rel f needle nw items iw :
    Forall2 val_rel items iw -> val_rel needle nw ->
    res_out val_rel (in_list f needle items) (vdo r <- list_has fo iw nw; VOk (WBool r)).
  Proof.
    intros Hi Hn. induction Hi as [|v w x x' Hvw _ IH]; cbn.
    - eexists; split; [reflexivity|constructor].
    - destruct (veq fo true f v needle) as [r| | |] eqn:E; cbn; auto.
      + rewrite (veq_weq _ _ _ _ _ _ Hvw Hn E). destruct r; cbn.
        * eexists; split; [reflexivity|constructor].
        * exact IH.
      + (* veq never errs *)
        exfalso. clear -E. revert v needle E. induction f as [|f IHf]; intros v n E; [discriminate|].
        destruct v, n; cbn in E; try discriminate.
        * revert l0 E. induction l as [|a l IHl]; intros [|c l0] E; try discriminate.
          destruct (veq fo true f a c) eqn:E1; cbn in E; try discriminate.
          -- destruct a0; [eapply IHl; eauto | discriminate].
          -- eapply IHf; eauto.
        * destruct (negb _); [discriminate|].
          revert fs0 E. induction fs as [|[k a] l IHl]; intros [|[k' c] l0] E; try discriminate.
          destruct (bytes_eqb k k'); [|discriminate].
          destruct (veq fo true f a c) eqn:E1; cbn in E; try discriminate.
          -- destruct a0; [eapply IHl; eauto | discriminate].
          -- eapply IHf; eauto.
  Qed.

  (* ---------------- tuple fields ---------------- *)
  Lemma merge_field_rel fs fs' k v w :
    Forall2 fld_rel fs fs' -> val_rel v w ->
    res_out (Forall2 fld_rel) (merge_field fo fs k v) (wmerge_field fs' k w).
  Proof.
    intros Hf Hv. induction Hf as [|[k1 v1] [k2 w2] fs fs' [Hk Hvw] Hf IH]; cbn in *.
    - eexists; split; [reflexivity|]. constructor; [split; auto|constructor].
    - subst k2. rewrite (bytes_eqb_sym k1 k). destruct (bytes_eqb k k1).
      + rewrite (compatible_rel _ _ _ _ Hvw Hv). destruct (compatible fo v1 v); cbn; auto.
        eexists; split; [reflexivity|]. constructor; [split; auto|auto].
      + destruct (merge_field fo fs k v) as [r| | |]; cbn in *; auto.
        * destruct IH as (r' & -> & Hr). cbn. eexists; split; [reflexivity|].
          constructor; [split; auto|auto].
        * rewrite IH. reflexivity.
  Qed.

  Lemma merge_fields_rel ov ov' : Forall2 fld_rel ov ov' -> forall base base',
    Forall2 fld_rel base base' ->
    res_out (Forall2 fld_rel) (merge_fields fo base ov) (wmerge_fields base' ov').
  Proof.
    induction 1 as [|[k v] [k' w] ov ov' [Hk Hvw] _ IH]; intros base base' Hb; cbn in *.
    - eexists; split; [reflexivity|auto].
    - subst k'. pose proof (merge_field_rel _ _ k _ _ Hb Hvw) as Hm.
      destruct (merge_field fo base k v) as [r| | |]; cbn in *; auto.
      + destruct Hm as (r' & -> & Hr). cbn. apply IH; auto.
      + rewrite Hm. reflexivity.
  Qed.

  (* ---------------- range ---------------- *)
  Definition int_conv (v : value) : wval := match v with VInt n => WInt n | _ => WEmpty end.
  Lemma range_from_rel n : forall a s z,
    Forall2 val_rel (range_from fo n a s z) (map int_conv (range_from fo n a s z)).
  Proof.
    induction n as [|n IH]; intros a s z; cbn; [constructor|].
    destruct (Z.ltb z a); [constructor|]. cbn. constructor; [constructor|].
    destruct (in_i64 (a + s)); [apply IH|constructor].
  Qed.

  (* ---------------- select ---------------- *)
  Definition sel_key (v : value) : option bytes :=
    match v with
    | VStr s => Some s
    | VBool true => Some (b "true")
    | VBool false => Some (b "false")
    | _ => None
    end.
  Lemma select_matches_rel v w k :
    val_rel v w ->
    select_matches fo (WSym k) w = match sel_key v with Some kk => bytes_eqb kk k | None => false end.
  Proof.
    destruct 1; unfold select_matches, sel_key; auto.
    - destruct v; cbn [negb].
      + rewrite andb_true_r, andb_false_r. rewrite (bytes_eqb_sym k).
        destruct (bytes_eqb _ k); reflexivity.
      + rewrite andb_false_r, andb_true_r. apply bytes_eqb_sym.
    - apply bytes_eqb_sym.
  Qed.

  (* ---------------- rendering (groundwork for format strings, milestone 5) ---------------- *)
  Definition render_list (f : nat) := fix go (l : list value) : res bytes :=
    match l with
    | [] => Ok []
    | v :: l' => do t <- render fo f v; do r <- go l'; Ok (t ++ ","%char :: r)
    end.
  Definition render_flds (f : nat) := fix go (fs : list (bytes * value)) : res bytes :=
    match fs with
    | [] => Ok []
    | (k, v) :: fs' => do t <- render fo f v; do r <- go fs'; Ok (k ++ b " = " ++ t ++ ","%char :: r)
    end.
  Definition wrender_list := fix go (l : list wval) : option bytes :=
    match l with
    | [] => Some []
    | v :: l' => match wrender v, go l' with
                 | Some t, Some r => Some (t ++ ","%char :: r)
                 | _, _ => None end
    end.
  Definition wrender_flds := fix go (fs : list (bytes * wval)) : option bytes :=
    match fs with
    | [] => Some []
    | (k, v) :: fs' => match wrender v, go fs' with
                       | Some t, Some r => Some (k ++ b " = " ++ t ++ ","%char :: r)
                       | _, _ => None end
    end.

  (* Op::Render produces the text the evaluator's [render] produces *)
  Lemma render_rel : forall f v w t, val_rel v w -> render fo f v = Ok t -> wrender w = Some t.
  Proof.
    induction f as [|f IH]; intros v w t Hvw H; [discriminate|].
    destruct Hvw; cbn in H; try (inversion H; subst; reflexivity).
    - destruct v; inversion H; reflexivity.
    - cbn. destruct (f_text fo x); inversion H; subst; reflexivity.
    - (* list *)
      change ((do body <- render_list f l; Ok ("["%char :: body ++ b "]")) = Ok t) in H.
      change (wrender (WList l')) with
        (match wrender_list l' with Some body => Some ("["%char :: body ++ b "]") | None => None end).
      destruct (render_list f l) as [body| | |] eqn:E; cbn in H; try discriminate.
      inversion H; subst t. clear H.
      assert (Hb : wrender_list l' = Some body).
      { revert body E. induction H0 as [|v w l l' Hvw _ IHl]; intros body E; cbn in *.
        - inversion E; reflexivity.
        - destruct (render fo f v) as [tv| | |] eqn:Ev; cbn in E; try discriminate.
          destruct (render_list f l) as [r| | |]; cbn in E; try discriminate.
          inversion E; subst. rewrite (IH _ _ _ Hvw Ev), (IHl _ eq_refl). reflexivity. }
      rewrite Hb. reflexivity.
    - (* tuple *)
      change ((do body <- render_flds f fs; Ok ("{"%char :: body ++ b "}")) = Ok t) in H.
      change (wrender (WTuple fs')) with
        (match wrender_flds fs' with Some body => Some ("{"%char :: body ++ b "}") | None => None end).
      destruct (render_flds f fs) as [body| | |] eqn:E; cbn in H; try discriminate.
      inversion H; subst t. clear H.
      assert (Hb : wrender_flds fs' = Some body).
      { revert body E. induction H0 as [|[k v] [k' w] l l' [Hk Hvw] _ IHl]; intros body E; cbn in *.
        - inversion E; reflexivity.
        - subst k'. destruct (render fo f v) as [tv| | |] eqn:Ev; cbn in E; try discriminate.
          destruct (render_flds f l) as [r| | |]; cbn in E; try discriminate.
          inversion E; subst. rewrite (IH _ _ _ Hvw Ev), (IHl _ eq_refl). reflexivity. }
      rewrite Hb. reflexivity.
  Qed.

  Lemma render_no_err : forall f v, render fo f v <> Err.
  Proof.
    induction f as [|f IH]; intros v E; [discriminate|].
    destruct v; cbn in E; try discriminate.
    - destruct v; discriminate.
    - destruct (f_text fo f0); discriminate.
    - change ((do body <- render_list f l; Ok ("["%char :: body ++ b "]")) = Err) in E.
      assert (Hl : render_list f l <> Err).
      { clear E. induction l as [|a l IHl]; cbn; [discriminate|].
        destruct (render fo f a) eqn:Ea; cbn; try discriminate; [|exfalso; eapply IH; eauto].
        destruct (render_list f l); cbn; try discriminate. exfalso; apply IHl; reflexivity. }
      destruct (render_list f l); cbn in E; try discriminate. apply Hl; reflexivity.
    - change ((do body <- render_flds f fs; Ok ("{"%char :: body ++ b "}")) = Err) in E.
      assert (Hl : render_flds f fs <> Err).
      { clear E. induction fs as [|[k a] l IHl]; cbn; [discriminate|].
        destruct (render fo f a) eqn:Ea; cbn; try discriminate; [|exfalso; eapply IH; eauto].
        destruct (render_flds f l); cbn; try discriminate. exfalso; apply IHl; reflexivity. }
      destruct (render_flds f fs); cbn in E; try discriminate. apply Hl; reflexivity.
  Qed.

  (* ---------------- binding the parameters of a call ---------------- *)
  Definition bind_list (l : list (bytes * wval)) (t : symtab fo) : symtab fo :=
    fold_left (fun t kv => sym_add (fst kv) (snd kv) t) l t.

  Fixpoint assoc_last {V} (x : bytes) (l : list (bytes * V)) : option V :=
    match l with
    | [] => None
    | (k, v) :: l' => match assoc_last x l' with
                      | Some v' => Some v'
                      | None => if bytes_eqb x k then Some v else None
                      end
    end.

  Lemma sym_get_bind_list x l : forall t,
    sym_get x (bind_list l t) = match assoc_last x l with Some v => Some v | None => sym_get x t end.
  Proof.
    induction l as [|[k v] l IH]; intros t; cbn; auto.
    unfold bind_list in *. cbn. rewrite IH. destruct (assoc_last x l); auto.
    rewrite sym_get_add. destruct (bytes_eqb x k); reflexivity.
  Qed.

  Lemma assoc_last_notin {V} p (l : list (bytes * V)) :
    existsb (bytes_eqb p) (map fst l) = false -> assoc_last p l = None.
  Proof.
    induction l as [|[k v] l IH]; cbn; auto. intros H. apply orb_false_iff in H as [H1 H2].
    rewrite IH by auto. rewrite H1. reflexivity.
  Qed.

  Lemma bind_list_app l1 l2 t : bind_list (l1 ++ l2) t = bind_list l2 (bind_list l1 t).
  Proof. unfold bind_list. apply fold_left_app. Qed.

  Lemma bind_params_char ps : forall avs clo,
    List.length ps = List.length avs ->
    bind_params fo ps avs clo = if existsb is_reserved ps then Err else Ok (rev (combine ps avs) ++ clo).
  Proof.
    induction ps as [|p ps IH]; intros [|a avs] clo Hl;
      cbn [bind_params existsb List.length combine rev app] in *; try discriminate; auto.
    destruct (is_reserved p); cbn [orb]; auto. rewrite IH by lia.
    destruct (existsb is_reserved ps); auto. rewrite <- app_assoc. reflexivity.
  Qed.

  Lemma bind_args_char names : forall vals s t,
    List.length names = List.length vals ->
    bind_args fo names (vals ++ s) t =
    if existsb vm_is_reserved names then VErr else VOk (s, bind_list (combine names vals) t).
  Proof.
    induction names as [|nm names IH]; intros [|v vals] s t Hl;
      cbn [bind_args existsb List.length combine app] in *; try discriminate; auto.
    unfold binding_push. destruct (vm_is_reserved nm); cbn [orb vbind]; auto.
    rewrite andb_false_r. cbn [vbind]. rewrite IH by lia. reflexivity.
  Qed.

  Lemma existsb_rev {A} (g : A -> bool) l : existsb g (rev l) = existsb g l.
  Proof.
    induction l as [|a l IH]; cbn; auto. rewrite existsb_app, IH. cbn.
    rewrite orb_false_r. apply orb_comm.
  Qed.

  Lemma combine_rev {A B} (l1 : list A) : forall (l2 : list B),
    List.length l1 = List.length l2 -> combine (rev l1) (rev l2) = rev (combine l1 l2).
  Proof.
    induction l1 as [|a l1 IH]; intros [|c l2] Hl; cbn in *; try discriminate; auto.
    rewrite <- IH by lia. clear IH.
    assert (Hr : List.length (rev l1) = List.length (rev l2)) by (rewrite !rev_length; lia).
    revert Hr. generalize (rev l1) (rev l2). induction l as [|x l IHl]; intros [|y l0] Hr; cbn in *;
      try discriminate; auto. f_equal. apply IHl. lia.
  Qed.

  Lemma existsb_reserved_ok ps : existsb vm_is_reserved ps = existsb is_reserved ps.
  Proof. reflexivity. Qed.

  Lemma bind_scope_rel ps : forall avs avw clo snap,
    nodupb ps = true -> Forall2 val_rel avs avw -> List.length ps = List.length avs ->
    scope_rel clo snap ->
    scope_rel (rev (combine ps avs) ++ clo) (bind_list (rev (combine ps avw)) snap).
  Proof.
    induction ps as [|p ps IH]; intros avs avw clo snap Hnd Hav Hl Hs.
    - cbn. exact Hs.
    - destruct Hav as [|a aw avs avw Ha Hav]; [discriminate|]. cbn in Hl, Hnd.
      apply andb_true_iff in Hnd as [Hp Hnd]. apply negb_true_iff in Hp.
      cbn [combine rev]. rewrite <- app_assoc. cbn [app].
      intros x. rewrite bind_list_app. cbn [bind_list fold_left fst snd]. rewrite sym_get_add.
      pose proof (IH avs avw ((p, a) :: clo) (sym_add p aw snap) Hnd Hav ltac:(lia)
                     (scope_rel_add _ _ p _ _ Hs Ha) x) as Hx.
      fold (bind_list (rev (combine ps avw)) (sym_add p aw snap)) in Hx.
      rewrite sym_get_bind_list in Hx. rewrite sym_get_add in Hx.
      rewrite sym_get_bind_list.
      destruct (bytes_eqb x p) eqn:Exp.
      + apply bytes_eqb_spec in Exp; subst x.
        rewrite assoc_last_notin in Hx; auto.
        rewrite map_rev. rewrite existsb_rev.
        assert (Hm : map fst (combine ps avw) = ps).
        { clear -Hl Hav. apply Forall2_length in Hav. revert avw Hav Hl. revert avs.
          induction ps as [|q ps IHp]; intros avs avw Hav Hl; destruct avw; cbn in *; auto; try lia.
          destruct avs; cbn in *; try lia. f_equal. eapply IHp with (avs := avs); lia. }
        rewrite Hm. exact Hp.
      + exact Hx.
  Qed.

  Lemma bind_rel ps avs avw clo snap s :
    params_ok ps = true -> Forall2 val_rel avs avw -> List.length ps = List.length avs ->
    scope_rel clo snap ->
    match bind_params fo ps avs clo with
    | Ok sc' => exists t, bind_args fo (rev ps) (rev avw ++ s) snap = VOk (s, t) /\ scope_rel sc' t
    | Err => bind_args fo (rev ps) (rev avw ++ s) snap = VErr
    | _ => True
    end.
  Proof.
    intros Hnd Hav Hl Hs. unfold params_ok in Hnd.
    pose proof (Forall2_length Hav) as Hl2.
    rewrite bind_params_char by auto.
    rewrite bind_args_char by (rewrite !rev_length; lia).
    rewrite existsb_rev. change (existsb vm_is_reserved ps) with (existsb is_reserved ps).
    destruct (existsb is_reserved ps); auto.
    eexists; split; [reflexivity|].
    rewrite combine_rev by lia. apply bind_scope_rel; auto.
  Qed.
End Rel.
