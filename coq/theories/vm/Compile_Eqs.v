(* Unfolding equations of the definitional evaluator and of the model translator, one per
   expression form, so that the simulation proof never has to unfold the big fixpoints. *)
From Ucg Require Export vm.Compile_Rel.

Section Eqs.
  Variable fo : float_ops.
  Notation value := (value fo).
  Notation ctx := (ctx fo).

  Definition fn_ctx (c : ctx) (s : scope fo) : ctx :=
    {| sc := s; self_v := None; envt := envt fo c; strict := strict fo c; eq_ordered := eq_ordered fo c |}.

  Definition call_f (f : nat) (c : ctx) (fv : value) (args : list value) : res value :=
    match fv with
    | VFunc ps body clo =>
      if negb (Nat.eqb (List.length ps) (List.length args)) then Err
      else do s <- bind_params fo ps args clo; eval fo f (fn_ctx c s) body
    | _ => Err
    end.

  Definition tuple_lit_f (f : nat) (c : ctx) (fs : list (bytes * expr)) (acc : res (list (bytes * value)))
    : res (list (bytes * value)) :=
    fold_left (fun acc '(k, e) => do a <- acc; do v <- eval fo f c e; merge_field fo a k v) fs acc.

  Definition regex_sem (lv rv : value) : res value :=
    match lv, rv with VStr _, VStr _ => Unsup | _, _ => Err end.

  Definition range_sem (sv stv env_ : value) : res value :=
    match sv, stv, env_ with
    | VInt a, VNull, VInt z =>
      if Z.ltb range_limit (range_len a 1 z) then Unsup else Ok (VList (range_from fo (Z.to_nat (range_len a 1 z)) a 1 z))
    | VInt a, VInt s, VInt z =>
      if Z.leb s 0 then Err
      else if Z.ltb range_limit (range_len a s z) then Unsup
      else Ok (VList (range_from fo (Z.to_nat (range_len a s z)) a s z))
    | _, _, _ => Err
    end.

  Definition find_arm (k : bytes) := fix find (arms : list (bytes * expr)) : option expr :=
    match arms with
    | [] => None
    | (k', ae) :: arms' => if bytes_eqb k k' then Some ae else find arms'
    end.

  Definition fmtl_go (f : nat) (c : ctx) := fix go (ps : list tpart) (es : list expr) : res value :=
    match ps with
    | [] => Ok (VStr [])
    | PStr s :: ps' => do r <- go ps' es; match r with VStr t => Ok (VStr (s ++ t)) | _ => Err end
    | PHole :: ps' =>
      match es with
      | a :: es' => do r <- go ps' es'; do v <- eval fo f c a; do t <- render fo f v;
                    match r with VStr t' => Ok (VStr (t ++ t')) | _ => Err end
      | [] => Err
      end
    | PExpr _ :: _ => Err
    end.
  Definition fmts_go (f : nat) (c' : ctx) := fix go (ps : list tpart) : res value :=
    match ps with
    | [] => Ok (VStr [])
    | PStr s :: ps' => do r <- go ps'; match r with VStr t => Ok (VStr (s ++ t)) | _ => Err end
    | PExpr pe :: ps' =>
      do r <- go ps'; do v <- eval fo f c' pe; do t <- render fo f v;
      match r with VStr t' => Ok (VStr (t ++ t')) | _ => Err end
    | PHole :: _ => Err
    end.

  Definition keep_sem (o : value) : bool := match o with VNull | VBool false => false | _ => true end.

  Definition map_tuple_sem (f : nat) (c : ctx) (fv : value) :=
    fix go (fs : list (bytes * value)) : res (list (bytes * value)) :=
      match fs with
      | [] => Ok []
      | (k, v) :: fs' =>
        do out <- call_f f c fv [VStr k; v];
        match out with
        | VList [VStr k'; v'] => do r <- go fs'; Ok ((k', v') :: r)
        | VList _ => Err
        | _ => go fs'
        end
      end.

  Definition map_sem (f : nat) (c : ctx) (fv tv : value) : res value :=
    match fv with
    | VFunc ps _ _ =>
      match tv with
      | VList l => if negb (Nat.eqb (List.length ps) 1) then Err
                   else do r <- mapM (fun v => call_f f c fv [v]) l; Ok (VList r)
      | VTuple fs =>
        if negb (Nat.eqb (List.length ps) 2) then Err
        else do r <- map_tuple_sem f c fv fs; Ok (VTuple r)
      | VStr s => if negb (Nat.eqb (List.length ps) 1) then Err
                  else do r <- mapM (fun ch => do o <- call_f f c fv [VStr ch];
                                                match o with VStr t => Ok t | _ => Err end) (utf8_chars s);
                       Ok (VStr (concat r))
      | _ => Err
      end
    | _ => Err
    end.

  Definition filter_sem (f : nat) (c : ctx) (fv tv : value) : res value :=
    match fv with
    | VFunc ps _ _ =>
      match tv with
      | VList l => if negb (Nat.eqb (List.length ps) 1) then Err
                   else do r <- mapM (fun v => do o <- call_f f c fv [v]; Ok (keep_sem o, v)) l;
                        Ok (VList (map snd (filter fst r)))
      | VTuple fs => if negb (Nat.eqb (List.length ps) 2) then Err
                     else do r <- mapM (fun '(k, v) => do o <- call_f f c fv [VStr k; v]; Ok (keep_sem o, (k, v))) fs;
                          Ok (VTuple (map snd (filter fst r)))
      | VStr s => if negb (Nat.eqb (List.length ps) 1) then Err
                  else do r <- mapM (fun ch => do o <- call_f f c fv [VStr ch]; Ok (keep_sem o, ch)) (utf8_chars s);
                       Ok (VStr (concat (map snd (filter fst r))))
      | _ => Err
      end
    | _ => Err
    end.

  Definition reduce_sem (f : nat) (c : ctx) (fv acc tv : value) : res value :=
    match fv with
    | VFunc ps _ _ =>
      match tv with
      | VList l => if negb (Nat.eqb (List.length ps) 2) then Err
                   else fold_left (fun a v => do a' <- a; call_f f c fv [a'; v]) l (Ok acc)
      | VTuple fs => if negb (Nat.eqb (List.length ps) 3) then Err
                     else fold_left (fun a '(k, v) => do a' <- a; call_f f c fv [a'; VStr k; v]) fs (Ok acc)
      | VStr s => if negb (Nat.eqb (List.length ps) 2) then Err
                  else fold_left (fun a ch => do a' <- a; call_f f c fv [a'; VStr ch]) (utf8_chars s) (Ok acc)
      | _ => Err
      end
    | _ => Err
    end.

  Section E.
    Variables (f : nat) (c : ctx).
    Notation ev := (eval fo f c).

    Lemma eval_null : eval fo (S f) c ENull = Ok VNull. Proof. reflexivity. Qed.
    Lemma eval_bool v : eval fo (S f) c (EBool v) = Ok (VBool v). Proof. reflexivity. Qed.
    Lemma eval_int z : eval fo (S f) c (EInt z) = Ok (VInt z). Proof. reflexivity. Qed.
    Lemma eval_float z : eval fo (S f) c (EFloat z) = Ok (VFloat (f_of_bits fo z)). Proof. reflexivity. Qed.
    Lemma eval_str s : eval fo (S f) c (EStr s) = Ok (VStr s). Proof. reflexivity. Qed.
    Lemma eval_sym x : eval fo (S f) c (ESym x) =
      if bytes_eqb x (b "self") then match self_v fo c with Some v => Ok v | None => Err end
      else match lookup fo x (sc fo c) with
           | Some v => Ok v
           | None => if bytes_eqb x (b "env") then Ok (env_tuple fo c) else Err
           end.
    Proof. reflexivity. Qed.
    Lemma eval_tuple fs : eval fo (S f) c (ETuple fs) = do r <- tuple_lit_f f c fs (Ok []); Ok (VTuple r).
    Proof. reflexivity. Qed.
    Lemma eval_list es : eval fo (S f) c (EList es) = do r <- mapM ev es; Ok (VList r).
    Proof. reflexivity. Qed.
    Lemma eval_group e : eval fo (S f) c (EGroup e) = ev e. Proof. reflexivity. Qed.
    Lemma eval_not e : eval fo (S f) c (ENot e) =
      do v <- ev e; match v with VBool x => Ok (VBool (negb x)) | _ => Err end.
    Proof. reflexivity. Qed.
    Lemma eval_and l r : eval fo (S f) c (EBin AND l r) =
      do lv <- ev l; match lv with VBool false => Ok (VBool false) | VBool true => ev r | _ => Err end.
    Proof. reflexivity. Qed.
    Lemma eval_or l r : eval fo (S f) c (EBin OR l r) =
      do lv <- ev l; match lv with VBool true => Ok (VBool true) | VBool false => ev r | _ => Err end.
    Proof. reflexivity. Qed.
    Lemma eval_arith o l r : is_arith o = true ->
      eval fo (S f) c (EBin o l r) = do rv <- ev r; do lv <- ev l; arith' fo o lv rv.
    Proof. destruct o; try discriminate; reflexivity. Qed.
    Lemma eval_cmp o l r : is_cmp o = true ->
      eval fo (S f) c (EBin o l r) = do rv <- ev r; do lv <- ev l; compare_num fo o lv rv.
    Proof. destruct o; try discriminate; reflexivity. Qed.
    Lemma eval_equal l r : eval fo (S f) c (EBin Equal l r) =
      do rv <- ev r; do lv <- ev l;
      if compatible fo lv rv then do q <- veq fo (eq_ordered fo c) f lv rv; Ok (VBool q) else Err.
    Proof. reflexivity. Qed.
    Lemma eval_notequal l r : eval fo (S f) c (EBin NotEqual l r) =
      do rv <- ev r; do lv <- ev l;
      if compatible fo lv rv then do q <- veq fo (eq_ordered fo c) f lv rv; Ok (VBool (negb q)) else Err.
    Proof. reflexivity. Qed.
    Lemma eval_rematch l r : eval fo (S f) c (EBin REMatch l r) =
      do rv <- ev r; do lv <- ev l; regex_sem lv rv.
    Proof. reflexivity. Qed.
    Lemma eval_notrematch l r : eval fo (S f) c (EBin NotREMatch l r) =
      do rv <- ev r; do lv <- ev l; regex_sem lv rv.
    Proof. reflexivity. Qed.
    Lemma eval_is l r : eval fo (S f) c (EBin IS l r) =
      do tv <- ev r; do lv <- ev l;
      match tv with
      | VStr t => Ok (VBool (bytes_eqb (is_name fo lv) t))
      | VNull => Ok (VBool false)
      | _ => Err
      end.
    Proof. reflexivity. Qed.

    Definition in_result (hay needle : value) : res value :=
      match hay with
      | VTuple fs => match needle with
                     | VStr k => Ok (VBool (match lookup fo k fs with Some _ => true | None => false end))
                     | _ => Err end
      | VList items => in_list fo f needle items
      | VStr s => match needle with VStr part => Ok (VBool (contains_sub s part)) | _ => Ok (VBool false) end
      | _ => Err
      end.
    Lemma eval_in_sym x r : eq_ordered fo c = true -> eval fo (S f) c (EBin IN (ESym x) r) =
      do hay <- ev r;
      do needle <- match hay with VTuple _ => Ok (VStr x) | _ => ev (ESym x) end;
      in_result hay needle.
    Proof. intros E. cbn. rewrite E. reflexivity. Qed.
    Lemma eval_in l r : eq_ordered fo c = true -> match l with ESym _ => False | _ => True end ->
      eval fo (S f) c (EBin IN l r) = do hay <- ev r; do needle <- ev l; in_result hay needle.
    Proof. intros E H. destruct l; try contradiction; cbn; rewrite E; reflexivity. Qed.

    (* DOT *)
    Definition dot_general (r : expr) : bool :=
      match r with
      | ECopy _ _ | ECall _ _ | ESym _ => false
      | _ => true
      end.
    Lemma eval_dot_gen l r : dot_general r = true ->
      eval fo (S f) c (EBin DOT l r) = do lv <- ev l; do kv <- ev r; index fo c lv kv.
    Proof.
      destruct r; try discriminate; reflexivity.
    Qed.
    Lemma eval_dot_sym l k : eval fo (S f) c (EBin DOT l (ESym k)) = do lv <- ev l; index fo c lv (VStr k).
    Proof. reflexivity. Qed.
    Definition sel_key_val (sel : expr) : value :=
      match sel with EInt k => VInt k | ESym k | EStr k => VStr k | _ => VNull end.
    Lemma eval_dot_copy l sel fs : is_sel sel = true ->
      eval fo (S f) c (EBin DOT l (ECopy sel fs)) =
      do lv <- ev l; do tv <- index fo c lv (sel_key_val sel); copy_into fo f c tv fs.
    Proof. destruct sel; try discriminate; reflexivity. Qed.
    Lemma eval_dot_call l sel args : is_sel sel = true ->
      eval fo (S f) c (EBin DOT l (ECall sel args)) =
      do avs <- mapM ev args; do lv <- ev l; do fv <- index fo c lv (sel_key_val sel); call_f f c fv avs.
    Proof. destruct sel; try discriminate; reflexivity. Qed.

    Lemma eval_copy t fs : eval fo (S f) c (ECopy t fs) = do tv <- ev t; copy_into fo f c tv fs.
    Proof. reflexivity. Qed.
    Lemma eval_range st stp en : eval fo (S f) c (ERange st stp en) =
      do env_ <- ev en;
      do stv <- match stp with Some s => ev s | None => Ok VNull end;
      do sv <- ev st; range_sem sv stv env_.
    Proof. reflexivity. Qed.
    Lemma eval_call fe args : eval fo (S f) c (ECall fe args) =
      do avs <- mapM ev args; do fv <- ev fe; call_f f c fv avs.
    Proof. reflexivity. Qed.
    Lemma eval_cast ct e : eval fo (S f) c (ECast ct e) = do v <- ev e; cast fo ct v.
    Proof. reflexivity. Qed.
    Lemma eval_func ps body : eval fo (S f) c (EFunc ps body) = Ok (VFunc ps body (sc fo c)).
    Proof. reflexivity. Qed.
    Lemma eval_select ve dflt arms : eval fo (S f) c (ESelect ve dflt arms) =
      do v <- ev ve;
      match (match sel_key fo v with Some k => find_arm k arms | None => None end) with
      | Some ae => ev ae
      | None => match dflt with Some d => ev d | None => Err end
      end.
    Proof.
      cbn. destruct (ev ve) as [v| | |]; cbn; try reflexivity.
    Qed.
    Lemma eval_map fe te : eval fo (S f) c (EMap fe te) = do fv <- ev fe; do tv <- ev te; map_sem f c fv tv.
    Proof. reflexivity. Qed.
    Lemma eval_filter fe te : eval fo (S f) c (EFilter fe te) = do fv <- ev fe; do tv <- ev te; filter_sem f c fv tv.
    Proof. reflexivity. Qed.
    Lemma eval_reduce fe ae te : eval fo (S f) c (EReduce fe ae te) =
      do fv <- ev fe; do acc <- ev ae; do tv <- ev te; reduce_sem f c fv acc tv.
    Proof. reflexivity. Qed.
    Lemma eval_formatl parts args : eval fo (S f) c (EFormatL parts args) =
      if negb (Nat.eqb (count_holes parts) (List.length args)) then Err else fmtl_go f c parts args.
    Proof. reflexivity. Qed.
    Lemma eval_formats parts arg : eval fo (S f) c (EFormatS parts arg) =
      do item <- ev arg; fmts_go f (with_scope fo c ((b "item", item) :: sc fo c)) parts.
    Proof. reflexivity. Qed.
    Lemma eval_module ps out body : eval fo (S f) c (EModule ps out body) =
      do pv <- tuple_lit_f f c ps (Ok []); Ok (VModule pv out body).
    Proof. reflexivity. Qed.
    Lemma eval_fail e : eval fo (S f) c (EFail e) = do _ <- ev e; Err. Proof. reflexivity. Qed.
    Lemma eval_trace e : eval fo (S f) c (ETrace e) = ev e. Proof. reflexivity. Qed.
  End E.

  Lemma copy_into_eq f c tv fs : copy_into fo (S f) c tv fs =
    do ovs <- tuple_lit_f f (with_self fo c (Some tv)) fs (Ok []);
    match tv with
    | VTuple base => do r <- merge_fields fo base ovs; Ok (VTuple r)
    | VModule ps out body =>
      do flds <- merge_fields fo ps ovs;
      do flds <- merge_field fo flds (b "this") tv;
      let c0 := {| sc := [(b "mod", VTuple flds)]; self_v := Some tv; envt := envt fo c;
                   strict := strict fo c; eq_ordered := eq_ordered fo c |} in
      do s <- exec_list fo f c0 body;
      match out with
      | Some oe => eval fo f (with_scope fo c0 s) oe
      | None => Ok (VTuple (export_scope fo s true))
      end
    | _ => Err
    end.
  Proof. reflexivity. Qed.

  Lemma exec_list_nil f c : exec_list fo (S f) c [] = Ok (sc fo c). Proof. reflexivity. Qed.
  Lemma exec_list_cons f c s ss : exec_list fo (S f) c (s :: ss) =
    do s1 <- match s with
             | SLet x e =>
               do v <- eval fo f c e;
               if is_reserved x then Err
               else match lookup fo x (sc fo c) with Some _ => Err | None => Ok ((x, v) :: sc fo c) end
             | SExpr e => do _ <- eval fo f c e; Ok (sc fo c)
             | SAssert _ | SOut _ _ => Unsup
             end;
    exec_list fo f (with_scope fo c s1) ss.
  Proof. reflexivity. Qed.
End Eqs.

(* ---- translator equations ---- *)
Lemma tr_tuple fs : tr (ETuple fs) = IInitTuple :: tr_fields fs. Proof. reflexivity. Qed.
Lemma tr_fields_cons k e fs : tr_fields ((k, e) :: fs) = ISym k :: tr e ++ [IField] ++ tr_fields fs.
Proof. unfold tr_fields. cbn. rewrite <- !app_assoc. reflexivity. Qed.
Lemma tr_list es : tr (EList es) = IInitList :: cat_map (fun e => tr e ++ [IElement]) es.
Proof. reflexivity. Qed.
Lemma tr_arith o l r : is_arith o = true -> tr (EBin o l r) = tr r ++ tr l ++ [arith_instr o].
Proof. destruct o; try discriminate; reflexivity. Qed.
Lemma tr_cmp o l r : is_cmp o = true -> tr (EBin o l r) = tr r ++ tr l ++ [cmp_instr o].
Proof. destruct o; try discriminate; reflexivity. Qed.
Lemma tr_in l r : match l with ESym _ => False | _ => True end ->
  tr (EBin IN l r) = tr r ++ tr l ++ [IExist].
Proof. destruct l; try contradiction; reflexivity. Qed.
Definition sel_lit (sel : expr) : lit :=
  match sel with EInt k => LInt k | ESym k | EStr k => LStr k | _ => LEmpty end.
Lemma tr_dot_gen l r : dot_general r = true -> tr (EBin DOT l r) = tr l ++ tr r ++ [IIndex].
Proof.
  destruct r; try discriminate; reflexivity.
Qed.
Lemma tr_dot_copy l sel fs : is_sel sel = true ->
  tr (EBin DOT l (ECopy sel fs)) = tr l ++ IVal (sel_lit sel) :: IIndex :: copy_code (tr_fields fs).
Proof. destruct sel; try discriminate; reflexivity. Qed.
Lemma tr_dot_call l sel args : is_sel sel = true ->
  tr (EBin DOT l (ECall sel args)) =
  cat_map tr args ++ IVal (LInt (Z.of_nat (List.length args))) :: tr l ++ [IVal (sel_lit sel); IIndex; IFCall].
Proof. destruct sel; try discriminate; cbn; rewrite <- ?app_assoc; reflexivity. Qed.
Lemma tr_copy t fs : tr (ECopy t fs) = tr t ++ copy_code (tr_fields fs). Proof. reflexivity. Qed.
Lemma tr_select ve dflt arms : tr (ESelect ve dflt arms) =
  tr ve ++ sel_arms (map (fun kv => (fst kv, tr (snd kv))) arms)
                    (match dflt with Some de => tr de | None => [IVal (LStr no_default_msg); IBang] end).
Proof.
  cbn. f_equal. f_equal. apply map_ext. intros [k e]; reflexivity.
Qed.

Definition part_code (p : tpart) : ops :=
  match p with PStr s => [IVal (LStr s)] | PHole => [ITranslatorPanic] | PExpr pe => tr pe ++ [IRender] end.
Lemma tr_formats parts arg : tr (EFormatS parts arg) =
  INewScope (List.length (ISym (b "item") :: tr arg ++ IBindOver :: join_parts (rev (map part_code parts)) ++ [IReturn]))
            :: ISym (b "item") :: tr arg ++ IBindOver :: join_parts (rev (map part_code parts)) ++ [IReturn].
Proof. reflexivity. Qed.
Lemma tr_formatl parts args : tr (EFormatL parts args) =
  if negb (Nat.eqb (count_holes parts) (List.length args))
  then [IVal (LStr (fmt_count_msg (count_holes parts) (List.length args))); IBang]
  else match parts with
       | [] => [IVal (LStr [])]
       | _ => join_parts (list_parts (rev parts) (rev (map tr args)))
       end.
Proof. reflexivity. Qed.
Lemma tr_module ps out body : tr (EModule ps out body) =
  IInitTuple :: tr_fields ps ++
  (match out with
   | Some oe => IInitThunk (S (List.length (tr oe))) :: tr oe ++ [IReturn]
   | None => []
   end) ++ IModule (S (List.length (translate body ++ [IReturn]))) :: IBind :: translate body ++ [IReturn].
Proof. reflexivity. Qed.
