From Ucg Require Import vm.Compile_Correct.
Print Assumptions compile_correct_core.
Print Assumptions compile_correct_copy.
Print Assumptions compile_correct_func.
Print Assumptions compile_correct_hof.
Print Assumptions compile_correct_format.
Print Assumptions compile_correct_module.
Print Assumptions compile_correct_ok.
Print Assumptions compile_correct_err.
Print Assumptions translate_no_bug.
Print Assumptions stack_discipline.
Print Assumptions translate_app.
Print Assumptions sim_main.
Print Assumptions run_mono.
