(* The order on names, sorted association lists, and the two facts the program-level theorem needs:
   the evaluator's export of a scope has the same bindings as the scope, and two sorted tables with
   related lookups are related entry by entry. *)
From Ucg Require Import base.Bytes_Lemmas.
From Ucg Require Export vm.Compile_Rel.

Lemma N_of_ascii_inj a c : N_of_ascii a = N_of_ascii c -> a = c.
Proof. intros H. rewrite <- (ascii_N_embedding a), <- (ascii_N_embedding c), H. reflexivity. Qed.

Lemma bytes_ltb_irrefl x : bytes_ltb x x = false.
Proof. induction x as [|c x IH]; cbn; auto. rewrite N.ltb_irrefl. exact IH. Qed.

Lemma bytes_ltb_trans x : forall y z, bytes_ltb x y = true -> bytes_ltb y z = true -> bytes_ltb x z = true.
Proof.
  induction x as [|c x IH]; intros [|d y] [|e z] H1 H2; cbn in *; try discriminate; auto.
  destruct (N.ltb_spec (N_of_ascii c) (N_of_ascii d)), (N.ltb_spec (N_of_ascii d) (N_of_ascii c)),
           (N.ltb_spec (N_of_ascii d) (N_of_ascii e)), (N.ltb_spec (N_of_ascii e) (N_of_ascii d)),
           (N.ltb_spec (N_of_ascii c) (N_of_ascii e)), (N.ltb_spec (N_of_ascii e) (N_of_ascii c));
    try discriminate; try lia; auto.
  eapply IH; eauto.
Qed.

Lemma bytes_ltb_total x : forall y, bytes_ltb x y = false -> bytes_eqb x y = false -> bytes_ltb y x = true.
Proof.
  induction x as [|c x IH]; intros [|d y] H1 H2; cbn in *; try discriminate; auto.
  destruct (N.ltb_spec (N_of_ascii c) (N_of_ascii d)), (N.ltb_spec (N_of_ascii d) (N_of_ascii c));
    try discriminate; try lia; auto.
  assert (c = d) by (apply N_of_ascii_inj; lia). subst d. rewrite Ascii.eqb_refl in H2. cbn in H2.
  apply IH; auto.
Qed.

Lemma bytes_ltb_neq x y : bytes_ltb x y = true -> bytes_eqb x y = false.
Proof.
  intros H. destruct (bytes_eqb x y) eqn:E; auto. apply bytes_eqb_spec in E; subst.
  rewrite bytes_ltb_irrefl in H. discriminate.
Qed.

Section Sorted.
  Variable V : Type.
  Notation alist := (list (bytes * V)).

  Fixpoint all_gt (k : bytes) (l : alist) : Prop :=
    match l with [] => True | (k', _) :: l' => bytes_ltb k k' = true /\ all_gt k l' end.
  Fixpoint sorted (l : alist) : Prop :=
    match l with [] => True | (k, _) :: l' => all_gt k l' /\ sorted l' end.

  Fixpoint aget (x : bytes) (l : alist) : option V :=
    match l with [] => None | (k, v) :: l' => if bytes_eqb x k then Some v else aget x l' end.

  Lemma all_gt_trans k k' l : bytes_ltb k k' = true -> all_gt k' l -> all_gt k l.
  Proof.
    induction l as [|[k2 v2] l IH]; cbn; auto. intros H [H1 H2]. split; auto.
    eapply bytes_ltb_trans; eauto.
  Qed.

  Lemma all_gt_aget k l : all_gt k l -> aget k l = None.
  Proof.
    induction l as [|[k2 v2] l IH]; cbn; auto. intros [H1 H2].
    rewrite (bytes_ltb_neq _ _ H1). auto.
  Qed.

  (* insertion as done by scope.rs (replace) *)
  Fixpoint ains (k : bytes) (v : V) (l : alist) : alist :=
    match l with
    | [] => [(k, v)]
    | (k', w) :: l' => if bytes_ltb k k' then (k, v) :: l
                       else if bytes_eqb k k' then (k, v) :: l'
                       else (k', w) :: ains k v l'
    end.

  Lemma all_gt_ains k0 k v l : bytes_ltb k0 k = true -> all_gt k0 l -> all_gt k0 (ains k v l).
  Proof.
    induction l as [|[k2 v2] l IH]; cbn; auto. intros H [H1 H2].
    destruct (bytes_ltb k k2); cbn; auto.
    destruct (bytes_eqb k k2); cbn; auto.
  Qed.

  Lemma sorted_ains k v l : sorted l -> sorted (ains k v l).
  Proof.
    induction l as [|[k2 v2] l IH]; cbn; auto. intros [H1 H2].
    destruct (bytes_ltb k k2) eqn:E1; cbn.
    - repeat split; auto. eapply all_gt_trans; eauto.
    - destruct (bytes_eqb k k2) eqn:E2; cbn.
      + apply bytes_eqb_spec in E2; subst. auto.
      + split; auto. apply all_gt_ains; auto; apply bytes_ltb_total; auto;
        rewrite Compile_Rel.bytes_eqb_sym; exact E2.
  Qed.

  (* insertion as done by export_scope (keep the existing entry) *)
  Fixpoint akeep (k : bytes) (v : V) (l : alist) : alist :=
    match l with
    | [] => [(k, v)]
    | (k', w) :: l' => if bytes_ltb k k' then (k, v) :: l
                       else if bytes_eqb k k' then l
                       else (k', w) :: akeep k v l'
    end.

  Lemma all_gt_akeep k0 k v l : bytes_ltb k0 k = true -> all_gt k0 l -> all_gt k0 (akeep k v l).
  Proof.
    induction l as [|[k2 v2] l IH]; cbn; auto. intros H [H1 H2].
    destruct (bytes_ltb k k2); cbn; auto.
    destruct (bytes_eqb k k2); cbn; auto.
  Qed.

  Lemma sorted_akeep k v l : sorted l -> sorted (akeep k v l).
  Proof.
    induction l as [|[k2 v2] l IH]; cbn; auto. intros [H1 H2].
    destruct (bytes_ltb k k2) eqn:E1; cbn.
    - repeat split; auto. eapply all_gt_trans; eauto.
    - destruct (bytes_eqb k k2) eqn:E2; cbn; auto.
      split; auto. apply all_gt_akeep; auto; apply bytes_ltb_total; auto;
      rewrite Compile_Rel.bytes_eqb_sym; exact E2.
  Qed.

  Lemma aget_akeep x k v l : sorted l ->
    aget x (akeep k v l) = match aget x l with Some v' => Some v' | None => if bytes_eqb x k then Some v else None end.
  Proof.
    induction l as [|[k2 v2] l IH]; cbn; auto.
    intros [H1 H2]. destruct (bytes_ltb k k2) eqn:E1; cbn.
    - destruct (bytes_eqb x k) eqn:Exk.
      + apply bytes_eqb_spec in Exk; subst x. rewrite (bytes_ltb_neq _ _ E1).
        rewrite (all_gt_aget k l); auto. eapply all_gt_trans; eauto.
      + destruct (bytes_eqb x k2); auto. destruct (aget x l); auto.
    - destruct (bytes_eqb k k2) eqn:E2; cbn.
      + apply bytes_eqb_spec in E2; subst k2. destruct (bytes_eqb x k); auto. destruct (aget x l); auto.
      + destruct (bytes_eqb x k2); auto.
  Qed.
End Sorted.
Arguments all_gt {V}. Arguments sorted {V}. Arguments aget {V}. Arguments ains {V}. Arguments akeep {V}.

Section Export.
  Variable fo : float_ops.
  Variable C : ops.

  Lemma sym_add_ains k (v : wval fo) t : sym_add k v t = ains k v t.
  Proof. induction t as [|[k2 v2] t IH]; cbn; auto; rewrite IH; reflexivity. Qed.
  Lemma sym_get_aget x (t : symtab fo) : sym_get x t = aget x t.
  Proof. induction t as [|[k2 v2] t IH]; cbn; auto; rewrite IH; reflexivity. Qed.
  Lemma lookup_aget x (s : scope fo) : lookup fo x s = aget x s.
  Proof. induction s as [|[k2 v2] s IH]; cbn; auto; rewrite IH; reflexivity. Qed.
  Lemma insert_sorted_akeep k v (l : list (bytes * value fo)) : insert_sorted fo k v l = akeep k v l.
  Proof. induction l as [|[k2 v2] l IH]; cbn; auto; rewrite IH; reflexivity. Qed.

  Lemma sorted_sym_add k (v : wval fo) t : sorted t -> sorted (sym_add k v t).
  Proof. rewrite sym_add_ains. apply sorted_ains. Qed.

  Lemma export_scope_gen (drop : bool) (s : scope fo) :
    sorted (export_scope fo s drop) /\
    forall x, lookup fo x (export_scope fo s drop) =
              if drop && bytes_eqb x (b "mod") then None else lookup fo x s.
  Proof.
    unfold export_scope.
    assert (H : forall (s : scope fo) acc, sorted acc ->
              sorted (fold_left (fun acc '(k, v) => if drop && bytes_eqb k (b "mod") then acc
                                                    else insert_sorted fo k v acc) s acc) /\
              forall x, aget x (fold_left (fun acc '(k, v) => if drop && bytes_eqb k (b "mod") then acc
                                                              else insert_sorted fo k v acc) s acc) =
                        match aget x acc with
                        | Some v => Some v
                        | None => if drop && bytes_eqb x (b "mod") then None else aget x s
                        end).
    { clear s. induction s as [|[k v] s IH]; intros acc Hacc; cbn [fold_left].
      - split; auto. intros x. cbn. destruct (aget x acc); auto. destruct (drop && _); reflexivity.
      - destruct (drop && bytes_eqb k (b "mod")) eqn:Ed.
        + destruct (IH acc Hacc) as [H1 H2]. split; auto. intros x. rewrite H2.
          destruct (aget x acc); auto. cbn [aget].
          destruct (bytes_eqb x k) eqn:Exk; auto.
          apply bytes_eqb_spec in Exk; subst x. rewrite Ed. reflexivity.
        + rewrite insert_sorted_akeep.
          destruct (IH (akeep k v acc) (sorted_akeep _ k v acc Hacc)) as [H1 H2]. split; auto.
          intros x. rewrite H2, aget_akeep by auto. cbn [aget]. destruct (aget x acc); auto.
          destruct (bytes_eqb x k) eqn:Exk; auto.
          apply bytes_eqb_spec in Exk; subst x. rewrite Ed. reflexivity. }
    destruct (H s [] I) as [H1 H2]. split; auto; intros x; rewrite !lookup_aget; apply H2.
  Qed.

  Lemma export_scope_spec (s : scope fo) :
    sorted (export_scope fo s false) /\ forall x, lookup fo x (export_scope fo s false) = lookup fo x s.
  Proof. apply (export_scope_gen false). Qed.

  Lemma all_gt_filter {V} (g : bytes * V -> bool) k l : all_gt k l -> all_gt k (filter g l).
  Proof.
    induction l as [|[k2 v2] l IH]; cbn; auto. intros [H1 H2].
    destruct (g (k2, v2)); cbn; auto.
  Qed.
  Lemma sorted_filter {V} (g : bytes * V -> bool) l : sorted l -> sorted (filter g l).
  Proof.
    induction l as [|[k2 v2] l IH]; cbn; auto. intros [H1 H2].
    destruct (g (k2, v2)); cbn; auto. split; auto. apply all_gt_filter; auto.
  Qed.
  Lemma aget_filter_key {V} (g : bytes -> bool) x (l : list (bytes * V)) :
    aget x (filter (fun kv => g (fst kv)) l) = if g x then aget x l else None.
  Proof.
    induction l as [|[k2 v2] l IH]; cbn; [destruct (g x); reflexivity|].
    destruct (g k2) eqn:Eg; cbn; rewrite IH.
    - destruct (bytes_eqb x k2) eqn:E; auto. apply bytes_eqb_spec in E; subst. rewrite Eg. reflexivity.
    - destruct (bytes_eqb x k2) eqn:E; auto. apply bytes_eqb_spec in E; subst. rewrite Eg. reflexivity.
  Qed.

  (* two sorted tables with related lookups are related entry by entry *)
  Lemma sorted_lookup_Forall2 (l : list (bytes * value fo)) : forall (l' : symtab fo),
    sorted l -> sorted l' ->
    (forall x, orel (val_rel fo C) (aget x l) (aget x l')) ->
    Forall2 (fld_rel fo C) l l'.
  Proof.
    induction l as [|[k v] l IH]; intros [|[k' w] l'] Hs Hs' Hx.
    - constructor.
    - specialize (Hx k'). cbn in Hx. rewrite bytes_eqb_refl in Hx. inversion Hx.
    - specialize (Hx k). cbn in Hx. rewrite bytes_eqb_refl in Hx. inversion Hx.
    - destruct Hs as [Hg Hs], Hs' as [Hg' Hs'].
      destruct (bytes_ltb k k') eqn:E1.
      { specialize (Hx k). cbn in Hx. rewrite bytes_eqb_refl, (bytes_ltb_neq _ _ E1) in Hx.
        rewrite (all_gt_aget _ k l') in Hx by (eapply all_gt_trans; eauto). inversion Hx. }
      destruct (bytes_eqb k k') eqn:E2.
      2: { assert (E3 : bytes_ltb k' k = true) by (apply bytes_ltb_total; auto).
           specialize (Hx k'). cbn in Hx. rewrite bytes_eqb_refl, (bytes_ltb_neq _ _ E3) in Hx.
           rewrite (all_gt_aget _ k' l) in Hx by (eapply all_gt_trans; eauto). inversion Hx. }
      apply bytes_eqb_spec in E2; subst k'. constructor.
      + pose proof (Hx k) as Hk. cbn in Hk. rewrite bytes_eqb_refl in Hk. inversion Hk; subst.
        split; auto.
      + apply IH; auto. intros x. pose proof (Hx x) as Hxx. cbn in Hxx.
        destruct (bytes_eqb x k) eqn:E.
        * apply bytes_eqb_spec in E; subst x.
          rewrite (all_gt_aget _ k l), (all_gt_aget _ k l'); auto. constructor.
        * exact Hxx.
  Qed.
  (* the result of instantiating a module without an out expression *)
  Lemma module_export_rel (s : scope fo) (t : symtab fo) :
    sorted t -> (forall x, orel (val_rel fo C) (lookup fo x s) (sym_get x t)) ->
    Forall2 (fld_rel fo C) (export_scope fo s true)
            (filter (fun '(k, _) => false || negb (bytes_eqb k (b "mod"))) t).
  Proof.
    intros Hso Hs. destruct (export_scope_gen true s) as [H1 H2].
    assert (Hf : filter (fun '(k, _) => false || negb (bytes_eqb k (b "mod"))) t =
                 filter (fun kv : bytes * wval fo => negb (bytes_eqb (fst kv) (b "mod"))) t).
    { apply filter_ext. intros [k v]. reflexivity. }
    rewrite Hf. apply sorted_lookup_Forall2; auto.
    - apply sorted_filter; auto.
    - intros x. rewrite <- lookup_aget, H2.
      rewrite (aget_filter_key (fun k => negb (bytes_eqb k (b "mod")))). cbn [andb].
      destruct (bytes_eqb x (b "mod")); cbn [negb]; [constructor|].
      rewrite <- sym_get_aget. apply Hs.
  Qed.

End Export.
