(* M-VM: model of src/build/opcode/vm.rs (dispatch loop [run] and every op_* handler) and of the
   hooks range/map/filter/reduce/trace of runtime.rs.  Executable definitions only.
   Nested runs (function call, NewScope, module instantiation) are recursive calls of the run
   function with the remaining fuel.  import/include/out/assert/convert/regex answer [VUnsup]. *)
From Ucg Require Export vm.Translate.

Section Vm.
  Variable fo : float_ops.
  Variable C : ops.                        (* the code all pointers of this run refer to *)
  Variable strict_ : bool.                 (* runtime.strict *)
  Variable envv : list (bytes * bytes).    (* env.get_env_vars_tuple() *)

  Notation wval := (wval fo).
  Notation state := (state fo).

  Definition with_pc (st : state) (n : nat) : state :=
    {| pc := n; stk := stk st; syms := syms st; selfs := selfs st |}.
  Definition with_stk (st : state) (s : list wval) : state :=
    {| pc := pc st; stk := s; syms := syms st; selfs := selfs st |}.
  Definition next (st : state) : state := with_pc st (S (pc st)).
  (* push and fall through to the next op *)
  Definition push_next (st : state) (s : list wval) : outcome state := VOk (next (with_stk st s)).

  (* op_jump at the op with index [pc st]: ptr := ptr + j after the bounds check of
     OpPointer::jump, then next() moves on by one.  The failed check is an Err in the source
     ("FAULT!!! Invalid Jump!"); it can only come from a wrong jump operand, so it is a Bug here. *)
  Definition jump (st : state) (j : nat) : outcome state :=
    if Nat.ltb (pc st + j) (List.length C) then VOk (with_pc st (S (pc st + j))) else VBug.

  (* VM::pop: unreachable!() on an empty stack *)
  Definition pop (s : list wval) : outcome (wval * list wval) :=
    match s with v :: s' => VOk (v, s') | [] => VBug end.

  (* checked i64 arithmetic *)
  Definition checked (z : Z) : outcome wval := if in_i64 z then VOk (WInt z) else VErr.

  (* add/sub/mul/div/modulus of vm.rs; [l] was popped first *)
  Definition vm_arith (o : instr) (l r : wval) : outcome wval :=
    match o, l, r with
    | IAdd, WInt x, WInt y => checked (x + y)
    | ISub, WInt x, WInt y => checked (x - y)
    | IMul, WInt x, WInt y => checked (x * y)
    | IDiv, WInt x, WInt y =>
      (* checked_div: None on a zero divisor (reported earlier as "Division by zero") or when the
         exact quotient is not an i64 (i64::MIN / -1) *)
      if Z.eqb y 0 then VErr else checked (Z.quot x y)
    | IMod, WInt x, WInt y =>
      (* checked_rem: also None for i64::MIN % -1, although the exact remainder 0 fits *)
      if Z.eqb y 0 then VErr
      else if Z.eqb x i64_min && Z.eqb y (-1) then VErr
      else checked (Z.rem x y)
    | IAdd, WFloat x, WFloat y => VOk (WFloat (fadd fo x y))
    | ISub, WFloat x, WFloat y => VOk (WFloat (fsub fo x y))
    | IMul, WFloat x, WFloat y => VOk (WFloat (fmul fo x y))
    | IDiv, WFloat x, WFloat y => VOk (WFloat (fdiv fo x y))
    | IMod, WFloat _, WFloat _ => VUnsup                      (* f64 %: not in the float interface *)
    | IAdd, WStr x, WStr y => VOk (WStr (x ++ y))
    | IAdd, WList x, WList y => VOk (WList (x ++ y))
    | _, _, _ => VErr
    end.

  (* op_gt / op_lt / op_gteq / op_lteq *)
  Definition vm_compare (o : instr) (l r : wval) : outcome wval :=
    match l, r with
    | WInt x, WInt y =>
      VOk (WBool (match o with IGt => Z.ltb y x | ILt => Z.ltb x y | IGtEq => Z.leb y x | _ => Z.leb x y end))
    | WFloat x, WFloat y =>
      VOk (WBool (match o with IGt => fltb fo y x | ILt => fltb fo x y | IGtEq => fleb fo y x | _ => fleb fo x y end))
    | _, _ => VErr
    end.

  (* do_cast with the conversions of convert.rs and Display for Primitive *)
  Definition vm_cast (t : cast_type) (v : wval) : outcome wval :=
    match v with
    | WInt z =>
      match t with
      | CStr => VOk (WStr (dec_Z z)) | CInt => VOk (WInt z) | CFloat => VOk (WFloat (f_of_int fo z))
      | CBool => VErr
      end
    | WFloat x =>
      match t with
      | CStr => match f_text fo x with Some s => VOk (WStr s) | None => VUnsup end
      | CInt => match f_to_int fo x with Some z => VOk (WInt z) | None => VUnsup end
      | CFloat => VOk (WFloat x)
      | CBool => VErr
      end
    | WStr s =>
      match t with
      | CStr => VOk (WStr (""""%char :: esc_quotes s ++ [""""%char]))
      | CInt => match parse_int s with Some z => VOk (WInt z) | None => VErr end
      | CFloat => VUnsup                                       (* str::parse::<f64> *)
      | CBool => if bytes_eqb s (b "true") then VOk (WBool true)
                 else if bytes_eqb s (b "false") then VOk (WBool false) else VErr
      end
    | WBool v =>
      match t with
      | CStr => VOk (WStr (if v then b "true" else b "false"))
      | CBool => VOk (WBool v)
      | _ => VErr
      end
    | WEmpty =>
      match t with CStr => VOk (WStr (b "NULL")) | _ => VErr end
    | _ => VErr
    end.

  Definition env_tuple_w : wval := WTuple (map (fun '(k, v) => (k, WStr v)) envv).

  (* get_binding *)
  Definition get_binding (st : state) (name : bytes) : option wval :=
    if bytes_eqb name (b "self") then hd_error (selfs st)
    else if bytes_eqb name (b "env") then
      match sym_get name (syms st) with Some v => Some v | None => Some env_tuple_w end
    else sym_get name (syms st).

  (* binding_push *)
  Definition binding_push (t : symtab fo) (name : bytes) (v : wval) (strict_bind : bool) : outcome (symtab fo) :=
    if vm_is_reserved name then VErr
    else if sym_bound name t && strict_bind then VErr
    else VOk (sym_add name v t).

  (* the lookup loops of op_index *)
  Fixpoint fld_get (k : bytes) (fs : list (bytes * wval)) : option wval :=
    match fs with
    | [] => None
    | (k', v) :: fs' => if bytes_eqb k' k then Some v else fld_get k fs'
    end.

  Definition vm_index (safe : bool) (left right : wval) : outcome wval :=
    let miss := if safe then VOk WEmpty else VErr in
    match right with
    | WInt i =>
      match left with
      | WList elems =>
        if Z.ltb i (Z.of_nat (List.length elems)) && Z.leb 0 i
        then match nth_error elems (Z.to_nat i) with Some v => VOk v | None => VBug end
        else miss
      | _ => miss
      end
    | WStr s =>
      match left with
      | WTuple flds => match fld_get s flds with Some v => VOk v | None => miss end
      | _ => miss
      end
    | _ => miss
    end.

  (* op_exist: [left] is the container *)
  Fixpoint list_has (elems : list wval) (x : wval) : outcome bool :=
    match elems with
    | [] => VOk false
    | e :: rest => match weq e x with
                   | Some true => VOk true
                   | Some false => list_has rest x
                   | None => VUnsup
                   end
    end.
  Definition vm_exist (left right : wval) : outcome wval :=
    match left with
    | WTuple flds =>
      match right with
      | WStr name => VOk (WBool (match fld_get name flds with Some _ => true | None => false end))
      | _ => VErr
      end
    | WList elems => vdo r <- list_has elems right; VOk (WBool r)
    | WStr s =>
      match right with
      | WStr part => VOk (WBool (contains_sub s part))
      | _ => VOk (WBool false)
      end
    | _ => VErr
    end.

  (* op_select_jump's comparison *)
  Definition select_matches (field_name search : wval) : bool :=
    match field_name, search with
    | WSym f, WStr s | WSym f, WSym s => bytes_eqb f s
    | WSym f, WBool v => if bytes_eqb f (b "true") && v then true else bytes_eqb f (b "false") && negb v
    | _, _ => false
    end.

  (* Builtins::range *)
  Definition vm_range (start step stop : wval) : outcome wval :=
    let step := match step with WEmpty => WInt 1 | s => s end in
    match start, step, stop with
    | WInt a, WInt s, WInt z =>
      if Z.leb s 0 then VErr
      else VOk (WList (map (fun v => match v with VInt _ n => WInt n | _ => WEmpty end)
                           (range_from fo (Z.to_nat (range_len a s z)) a s z)))
    | _, _, _ => VErr
    end.

  (* ---------------- handlers that start nested runs; [run] is the run function with the
     remaining fuel ---------------- *)
  Section Nested.
    Variable run : state -> outcome state.

    (* fcall_impl: fresh VM at the Func op, the closure's snapshot, empty self stack; parameters
       are taken from the caller's stack (bindings are stored reversed) *)
    Fixpoint bind_args (names : list bytes) (s : list wval) (t : symtab fo) : outcome (list wval * symtab fo) :=
      match names with
      | [] => VOk (s, t)
      | nm :: names' =>
        match s with
        | [] => VBug                                           (* stack.pop().unwrap() *)
        | v :: s' => vdo t' <- binding_push t nm v false; bind_args names' s' t'
        end
      end.

    Definition fcall_impl (ptr : nat) (bindings : list bytes) (snap : symtab fo) (s : list wval)
      : outcome (wval * list wval) :=
      vdo (s', t) <- bind_args bindings s snap;
      vdo fin <- run {| pc := S ptr; stk := []; syms := t; selfs := [] |};
      vdo (v, _) <- pop (stk fin);
      VOk (v, s').

    Definition op_fcall (st : state) : outcome state :=
      vdo (f, s1) <- pop (stk st);
      vdo (arg_length, s2) <- pop s1;
      match f with
      | WFunc ptr bindings snap =>
        vdo _ <- match arg_length with
                 | WInt n => let arity := Z.of_nat (List.length bindings) in
                             if Z.ltb arity n then VErr else if Z.ltb n arity then VErr else VOk tt
                 | _ => VOk tt
                 end;
        vdo (v, s3) <- fcall_impl ptr bindings snap s2;
        push_next st (v :: s3)
      | _ => VErr
      end.

    (* op_new_scope: clean_copy keeps the self stack; the symbols are a snapshot *)
    Definition op_new_scope (st : state) (j : nat) : outcome state :=
      vdo fin <- run {| pc := S (pc st); stk := []; syms := syms st; selfs := selfs st |};
      vdo (v, _) <- pop (stk fin);
      jump (with_stk st (v :: stk st)) j.

    (* symbols_to_tuple *)
    Definition symbols_to_tuple (t : symtab fo) (include_mod : bool) : wval :=
      WTuple (filter (fun '(k, _) => include_mod || negb (bytes_eqb k (b "mod"))) t).

    (* op_copy.  ops.path is None in this model, so a module gets no `pkg` field. *)
    Definition op_copy (st : state) : outcome state :=
      vdo (override_val, s1) <- pop (stk st);
      vdo (tgt, s2) <- pop s1;
      match override_val with
      | WTuple overrides =>
        match tgt with
        | WTuple flds =>
          vdo flds' <- wmerge_fields flds overrides;
          push_next st (WTuple flds' :: s2)
        | WMod ptr result_ptr flds =>
          vdo flds1 <- wmerge_fields flds overrides;
          vdo flds2 <- wmerge_field flds1 (b "this") tgt;
          vdo fin <- run {| pc := S ptr; stk := [WTuple flds2; WSym (b "mod")]; syms := []; selfs := selfs st |};
          match result_ptr with
          | Some rp =>
            if Nat.ltb rp (List.length C) then
              vdo fin2 <- run (with_pc fin (S rp));
              vdo (v, _) <- pop (stk fin2);
              push_next st (v :: s2)
            else VBug
          | None => push_next st (symbols_to_tuple (syms fin) false :: s2)
          end
        | _ => VErr
        end
      | _ => VBug                                              (* unreachable!() *)
      end.

    (* check_callback_arity + the loops of Builtins::map *)
    Definition arity_ok (bindings : list bytes) (n : nat) : outcome unit :=
      if Nat.eqb (List.length bindings) n then VOk tt else VErr.

    Section Callback.
      Variables (ptr : nat) (bindings : list bytes) (snap : symtab fo).
      (* every call pops its arguments from [s] and must leave [s] as it was *)
      Definition call_with (args_rev : list wval) (s : list wval) : outcome (wval * list wval) :=
        fcall_impl ptr bindings snap (args_rev ++ s).

      Fixpoint map_list (elems : list wval) (s : list wval) : outcome (list wval * list wval) :=
        match elems with
        | [] => VOk ([], s)
        | e :: rest =>
          vdo (r, s1) <- call_with [e] s;
          vdo (rs, s2) <- map_list rest s1;
          VOk (r :: rs, s2)
        end.
      Fixpoint map_tuple (flds : list (bytes * wval)) (s : list wval) : outcome (list (bytes * wval) * list wval) :=
        match flds with
        | [] => VOk ([], s)
        | (k, v) :: rest =>
          vdo (r, s1) <- call_with [v; WStr k] s;
          match r with
          | WList fval =>
            match fval with
            | [n; v'] =>
              match n with
              | WStr name => vdo (rs, s2) <- map_tuple rest s1; VOk ((name, v') :: rs, s2)
              | _ => VErr
              end
            | _ => VErr
            end
          | _ => map_tuple rest s1
          end
        end.
      Fixpoint map_str (chars : list bytes) (s : list wval) : outcome (bytes * list wval) :=
        match chars with
        | [] => VOk ([], s)
        | c :: rest =>
          vdo (r, s1) <- call_with [WStr c] s;
          match r with
          | WStr t => vdo (rs, s2) <- map_str rest s1; VOk (t ++ rs, s2)
          | _ => VErr
          end
        end.

      Definition keeps (cond : wval) : bool :=
        match cond with WEmpty | WBool false => false | _ => true end.
      Fixpoint filter_list (elems : list wval) (s : list wval) : outcome (list wval * list wval) :=
        match elems with
        | [] => VOk ([], s)
        | e :: rest =>
          vdo (r, s1) <- call_with [e] s;
          vdo (rs, s2) <- filter_list rest s1;
          VOk (if keeps r then e :: rs else rs, s2)
        end.
      Fixpoint filter_tuple (flds : list (bytes * wval)) (s : list wval) : outcome (list (bytes * wval) * list wval) :=
        match flds with
        | [] => VOk ([], s)
        | (k, v) :: rest =>
          vdo (r, s1) <- call_with [v; WStr k] s;
          vdo (rs, s2) <- filter_tuple rest s1;
          VOk (if keeps r then (k, v) :: rs else rs, s2)
        end.
      Fixpoint filter_str (chars : list bytes) (s : list wval) : outcome (bytes * list wval) :=
        match chars with
        | [] => VOk ([], s)
        | c :: rest =>
          vdo (r, s1) <- call_with [WStr c] s;
          vdo (rs, s2) <- filter_str rest s1;
          VOk (if keeps r then c ++ rs else rs, s2)
        end.

      Fixpoint reduce_list (elems : list wval) (acc : wval) (s : list wval) : outcome (wval * list wval) :=
        match elems with
        | [] => VOk (acc, s)
        | e :: rest => vdo (acc', s1) <- call_with [e; acc] s; reduce_list rest acc' s1
        end.
      Fixpoint reduce_tuple (flds : list (bytes * wval)) (acc : wval) (s : list wval) : outcome (wval * list wval) :=
        match flds with
        | [] => VOk (acc, s)
        | (k, v) :: rest => vdo (acc', s1) <- call_with [v; WStr k; acc] s; reduce_tuple rest acc' s1
        end.
      Fixpoint reduce_str (chars : list bytes) (acc : wval) (s : list wval) : outcome (wval * list wval) :=
        match chars with
        | [] => VOk (acc, s)
        | c :: rest => vdo (acc', s1) <- call_with [WStr c; acc] s; reduce_str rest acc' s1
        end.
    End Callback.

    Definition hook_map (st : state) : outcome state :=
      match stk st with
      | target :: fptr :: s =>
        match fptr with
        | WFunc ptr bindings snap =>
          match target with
          | WList elems =>
            vdo _ <- arity_ok bindings 1;
            vdo (rs, s') <- map_list ptr bindings snap elems s; push_next st (WList rs :: s')
          | WTuple flds =>
            vdo _ <- arity_ok bindings 2;
            vdo (rs, s') <- map_tuple ptr bindings snap flds s; push_next st (WTuple rs :: s')
          | WStr str =>
            vdo _ <- arity_ok bindings 1;
            vdo (rs, s') <- map_str ptr bindings snap (utf8_chars str) s; push_next st (WStr rs :: s')
          | _ => VErr
          end
        | _ => VErr
        end
      | _ => VBug                                              (* panic!("BUG: stack underflow ...") *)
      end.

    Definition hook_filter (st : state) : outcome state :=
      match stk st with
      | target :: fptr :: s =>
        match fptr with
        | WFunc ptr bindings snap =>
          match target with
          | WList elems =>
            vdo _ <- arity_ok bindings 1;
            vdo (rs, s') <- filter_list ptr bindings snap elems s; push_next st (WList rs :: s')
          | WTuple flds =>
            vdo _ <- arity_ok bindings 2;
            vdo (rs, s') <- filter_tuple ptr bindings snap flds s; push_next st (WTuple rs :: s')
          | WStr str =>
            vdo _ <- arity_ok bindings 1;
            vdo (rs, s') <- filter_str ptr bindings snap (utf8_chars str) s; push_next st (WStr rs :: s')
          | _ => VErr
          end
        | _ => VErr
        end
      | _ => VBug
      end.

    Definition hook_reduce (st : state) : outcome state :=
      match stk st with
      | target :: acc :: fptr :: s =>
        match fptr with
        | WFunc ptr bindings snap =>
          match target with
          | WList elems =>
            vdo _ <- arity_ok bindings 2;
            vdo (r, s') <- reduce_list ptr bindings snap elems acc s; push_next st (r :: s')
          | WTuple flds =>
            vdo _ <- arity_ok bindings 3;
            vdo (r, s') <- reduce_tuple ptr bindings snap flds acc s; push_next st (r :: s')
          | WStr str =>
            vdo _ <- arity_ok bindings 2;
            vdo (r, s') <- reduce_str ptr bindings snap (utf8_chars str) acc s; push_next st (r :: s')
          | _ => VErr
          end
        | _ => VErr
        end
      | _ => VBug
      end.

    Definition op_runtime (h : hook) (st : state) : outcome state :=
      match h with
      | HRange =>
        match stk st with
        | start :: step :: stop :: s => vdo v <- vm_range start step stop; push_next st (v :: s)
        | _ => VBug
        end
      | HTrace =>
        match stk st with
        | v :: e :: s => match e with WStr _ => push_next st (v :: s) | _ => VBug end
        | _ => VBug
        end
      | HMap => hook_map st
      | HFilter => hook_filter st
      | HReduce => hook_reduce st
      | HRegex =>
        (* both operands must be strings; the regex engine itself is not modelled *)
        match stk st with
        | [] => VBug
        | l :: s1 =>
          match l with
          | WStr _ => match s1 with
                      | [] => VBug
                      | r :: _ => match r with WStr _ => VUnsup | _ => VErr end
                      end
          | _ => VErr
          end
        end
      | HInclude | HImport | HOut | HAssert | HConvert => VUnsup
      end.

    (* one iteration of the dispatch loop for the op [i] at index [pc st] (not Return) *)
    Definition exec_instr (i : instr) (st : state) : outcome state :=
      let s := stk st in
      match i with
      | IVal l => push_next st (lit_val fo l :: s)
      | ICast t => vdo (v, s1) <- pop s; vdo r <- vm_cast t v; push_next st (r :: s1)
      | ISym name => push_next st (WSym name :: s)
      | IDeRef name =>
        match get_binding st name with Some v => push_next st (v :: s) | None => VErr end
      | IAdd | ISub | IMul | IDiv | IMod =>
        vdo (l, s1) <- pop s; vdo (r, s2) <- pop s1; vdo v <- vm_arith i l r; push_next st (v :: s2)
      | IBind | IBindOver =>
        vdo (v, s1) <- pop s; vdo (name, s2) <- pop s1;
        match name with
        | WSym nm =>
          vdo t <- binding_push (syms st) nm v (match i with IBind => true | _ => false end);
          VOk {| pc := S (pc st); stk := s2; syms := t; selfs := selfs st |}
        | _ => VBug
        end
      | IEqual =>
        vdo (l, s1) <- pop s; vdo (r, s2) <- pop s1;
        if wcompatible l r then
          match weq l r with Some q => push_next st (WBool q :: s2) | None => VUnsup end
        else VErr
      | INot =>
        vdo (v, s1) <- pop s;
        match v with WBool x => push_next st (WBool (negb x) :: s1) | _ => VErr end
      | IGt | ILt | IGtEq | ILtEq =>
        vdo (l, s1) <- pop s; vdo (r, s2) <- pop s1; vdo v <- vm_compare i l r; push_next st (v :: s2)
      | IInitList => push_next st (WList [] :: s)
      | IInitTuple => push_next st (WTuple [] :: s)
      | IField =>
        vdo (v, s1) <- pop s; vdo (name_val, s2) <- pop s1;
        match name_val with
        | WSym name | WStr name =>
          vdo (tpl, s3) <- pop s2;
          match tpl with
          | WTuple flds => vdo flds' <- wmerge_field flds name v; push_next st (WTuple flds' :: s3)
          | _ => VBug
          end
        | _ => VBug
        end
      | IElement =>
        vdo (v, s1) <- pop s; vdo (l, s2) <- pop s1;
        match l with WList elems => push_next st (WList (elems ++ [v]) :: s2) | _ => VBug end
      | IIndex =>
        vdo (r, s1) <- pop s; vdo (l, s2) <- pop s1;
        vdo v <- vm_index (negb strict_) l r; push_next st (v :: s2)
      | ISafeIndex =>
        vdo (r, s1) <- pop s; vdo (l, s2) <- pop s1;
        vdo v <- vm_index true l r; push_next st (v :: s2)
      | IExist =>
        vdo (r, s1) <- pop s; vdo (l, s2) <- pop s1; vdo v <- vm_exist l r; push_next st (v :: s2)
      | ICp => op_copy st
      | IBang => vdo (v, _) <- pop s; match v with WStr _ => VErr | _ => VBug end
      | IInitThunk j => jump (with_stk st (WThunk (pc st) :: s)) j
      | INoop => VOk (next st)
      | IJump j => jump st j
      | IJumpIfTrue j =>
        vdo (v, s1) <- pop s;
        match v with
        | WBool c => if c then jump (with_stk st s1) j else VOk (next (with_stk st s1))
        | _ => VErr
        end
      | IJumpIfFalse j =>
        vdo (v, s1) <- pop s;
        match v with
        | WBool c => if c then VOk (next (with_stk st s1)) else jump (with_stk st s1) j
        | _ => VErr
        end
      | ISelectJump j =>
        vdo (field_name, s1) <- pop s; vdo (search, s2) <- pop s1;
        if select_matches field_name search then VOk (next (with_stk st s2))
        else jump (with_stk st (search :: s2)) j
      | IAnd j =>
        vdo (v, s1) <- pop s;
        match v with
        | WBool c => if c then VOk (next (with_stk st s1)) else jump (with_stk st (v :: s1)) j
        | _ => VErr
        end
      | IOr j =>
        vdo (v, s1) <- pop s;
        match v with
        | WBool c => if c then jump (with_stk st (v :: s1)) j else VOk (next (with_stk st s1))
        | _ => VErr
        end
      | IModule j =>
        vdo (mod_val, s1) <- pop s;
        match mod_val with
        | WTuple flds => jump (with_stk st (WMod (pc st) None flds :: s1)) j
        | WThunk tp =>
          vdo (tpl, s2) <- pop s1;
          match tpl with
          | WTuple flds => jump (with_stk st (WMod (pc st) (Some tp) flds :: s2)) j
          | _ => VErr
          end
        | _ => VErr
        end
      | IFunc j =>
        vdo (list_val, s1) <- pop s;
        match list_val with
        | WList elems =>
          vdo names <- (fix go (l : list wval) : outcome (list bytes) :=
                          match l with
                          | [] => VOk []
                          | WSym nm :: l' => vdo r <- go l'; VOk (nm :: r)
                          | _ :: _ => VErr
                          end) elems;
          jump (with_stk st (WFunc (pc st) (rev names) (syms st) :: s1)) j
        | _ => VErr
        end
      | IFCall => op_fcall st
      | INewScope j => op_new_scope st j
      | IReturn => VOk st                                      (* handled by the loop; not used *)
      | IPop => vdo (_, s1) <- pop s; VOk (next (with_stk st s1))
      | ITyp => vdo (v, s1) <- pop s; push_next st (WStr (wtyp v) :: s1)
      | IRuntime h => op_runtime h st
      | IRender =>
        vdo (v, s1) <- pop s;
        match wrender v with Some t => push_next st (WStr t :: s1) | None => VUnsup end
      | IPushSelf =>
        vdo (v, s1) <- pop s;
        VOk {| pc := S (pc st); stk := v :: s1; syms := syms st; selfs := v :: selfs st |}
      | IPopSelf =>
        VOk {| pc := S (pc st); stk := s; syms := syms st; selfs := tl (selfs st) |}
      | ITranslatorPanic => VBug
      end.
  End Nested.

  (* VM::run: next() ends the run past the last op; Return ends it where it stands *)
  Fixpoint vm_run (fuel : nat) (st : state) : outcome state :=
    match fuel with
    | O => VFuel
    | S f =>
      match nth_error C (pc st) with
      | None => VOk st
      | Some IReturn => VOk st
      | Some i => vdo st' <- exec_instr (vm_run f) i st; vm_run f st'
      end
    end.

  Definition init_state : state := {| pc := 0; stk := []; syms := []; selfs := [] |}.
End Vm.

(* a whole program: the symbol table after the run (eval_ops then applies symbols_to_tuple(false),
   which hides a top-level binding called `mod`) *)
Definition vm_prog (fo : float_ops) (fuel : nat) (envv : list (bytes * bytes)) (strict_ : bool) (c : ops)
  : outcome (list (bytes * wval fo)) :=
  vdo st <- vm_run fo c strict_ envv fuel (init_state fo); VOk (syms st).
