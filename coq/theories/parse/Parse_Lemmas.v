(* PROOFS about the parser model (Parse.v) and the print/parse round trip (Parse_Toks.v).
   Sections:
     1  sizes, closing tokens, token tests
     2  the list combinators on printed lists
     3  operands (non_op_expression) on the tokens of one operand
     4  binary chains, the climber, `expression`
     5  parse_tokens_of: expressions, statements, programs *)
From Ucg Require Import base.Bytes base.Bytes_Lemmas prec.Climb prec.Climb_Lemmas sem.Ast lex.Lex_Types lex.Lex
  print.Print lex.Lex_Lemmas print.Print_Lemmas parse.Parse parse.Parse_Toks.
From UcgGen Require Import PrecTable.
Local Open Scope string_scope.
Local Open Scope list_scope.

(* ================================================================== *)
(** * 1. sizes, closing tokens, token tests                            *)
(* ================================================================== *)

Fixpoint esize (e : expr) {struct e} : nat :=
  let fs_size (fs : list (bytes * expr)) := list_sum (map (fun kv => esize (snd kv)) fs) in
  match e with
  | ENull | EBool _ | EInt _ | EFloat _ | EStr _ | ESym _ | EImport _ | EInclude _ _ => 1
  | ETuple fs => S (fs_size fs)
  | EList es => S (list_sum (map esize es))
  | EBin _ l r => S (esize l + esize r)
  | ENot e1 | EGroup e1 | EFail e1 | ETrace e1 | EConvert _ e1 | ECast _ e1 | EFunc _ e1 => S (esize e1)
  | ECopy t fs => S (esize t + fs_size fs)
  | ERange s st en => S (esize s + match st with Some x => esize x | None => 0 end + esize en)
  | EFormatL _ args => S (list_sum (map esize args))
  | EFormatS _ a => S (esize a)
  | ECall f args => S (esize f + list_sum (map esize args))
  | ESelect v d arms => S (esize v + match d with Some x => esize x | None => 0 end + fs_size arms)
  | EMap f t | EFilter f t => S (esize f + esize t)
  | EReduce f a t => S (esize f + esize a + esize t)
  | EModule ps out body =>
      S (fs_size ps + match out with Some x => esize x | None => 0 end + list_sum (map ssize body))
  end
with ssize (s : stmt) {struct s} : nat :=
  match s with SLet _ e | SExpr e | SAssert e | SOut _ e => S (esize e) end.

Lemma esize_pos e : 1 <= esize e.
Proof. destruct e; cbn; lia. Qed.

Lemma list_sum_in {A} (f : A -> nat) x l : In x l -> f x <= list_sum (map f l).
Proof.
  induction l as [|y l IH]; [intros []|].
  change (list_sum (map f (y :: l))) with (f y + list_sum (map f l)).
  intros [->|H]; [lia|]. specialize (IH H). lia.
Qed.

(* tokens that may follow a complete expression in printed text *)
Definition stop (t : ptok) : bool :=
  (is_tok PUNCT "," t || is_tok PUNCT ";" t || is_tok PUNCT ")" t || is_tok PUNCT "]" t || is_tok PUNCT "}" t)%bool.
(* tokens on which `expression` / `statement` / field_value fail at once *)
Definition closer (t : ptok) : bool :=
  (is_tok PUNCT ")" t || is_tok PUNCT "]" t || is_tok PUNCT "}" t)%bool.

Lemma ty_eqb_eq x y : ty_eqb x y = true -> x = y.
Proof. destruct x, y; cbn; congruence. Qed.

Lemma is_tok_eq ty s t : is_tok ty s t = true -> t = (ty, b s).
Proof.
  destruct t as [ty' f]. unfold is_tok. cbn [fst snd]. intros H. apply andb_true_iff in H as [H1 H2].
  apply ty_eqb_eq in H1. apply bytes_eqb_spec in H2. now subst.
Qed.

Lemma stop_cases t : stop t = true -> t = P "," \/ t = P ";" \/ t = P ")" \/ t = P "]" \/ t = P "}".
Proof.
  unfold stop. intros H. repeat (apply orb_true_iff in H as [H|H]); apply is_tok_eq in H; auto 6.
Qed.

Lemma binop_cases t o : binop_of t = Some o -> t = op_tok o.
Proof.
  unfold binop_of, binop_table, lookup_op.
  repeat match goal with
         | |- (if is_tok ?ty ?s t then _ else _) = _ -> _ =>
           let E := fresh "E" in destruct (is_tok ty s t) eqn:E;
           [apply is_tok_eq in E; subst t; intros H; inversion H; reflexivity|]
         end.
  discriminate.
Qed.

Lemma binop_op_tok o : binop_of (op_tok o) = Some o.
Proof. destruct o; reflexivity. Qed.

Lemma binop_stop t : stop t = true -> binop_of t = None.
Proof. intros H. destruct (stop_cases t H) as [-> | [-> | [-> | [-> | -> ]]]]; reflexivity. Qed.

(* what may follow a closed operand: a binary operator or a stop token *)
Definition follow (t : ptok) : bool := (match binop_of t with Some _ => true | None => false end || stop t)%bool.

Lemma follow_cases t : follow t = true -> (exists o, t = op_tok o) \/ stop t = true.
Proof.
  unfold follow. destruct (binop_of t) eqn:E; cbn.
  - intros _. left. exists o. now apply binop_cases.
  - intros H. now right.
Qed.

(* the facts about a follow token that the operand parsers look at *)
Lemma follow_facts t : follow t = true ->
  is_tok PUNCT "{" t = false /\ is_tok PUNCT "[" t = false /\ is_tok PUNCT "(" t = false /\
  is_tok PUNCT ":" t = false /\ is_tok PUNCT "%" t = false /\ is_tok PUNCT "::" t = false.
Proof.
  intros H. destruct (follow_cases t H) as [[o ->]|Hs].
  - destruct o; repeat split; reflexivity.
  - destruct (stop_cases t Hs) as [-> | [-> | [-> | [-> | -> ]]]]; repeat split; reflexivity.
Qed.

Lemma stop_follow t : stop t = true -> follow t = true.
Proof. intros H. unfold follow. rewrite H. apply orb_true_r. Qed.

Lemma follow_not_dot_stop t : stop t = true -> is_tok PUNCT "." t = false.
Proof. intros H. destruct (stop_cases t H) as [-> | [-> | [-> | [-> | -> ]]]]; reflexivity. Qed.

(* keyword heads *)
Definition kwtok (t : ptok) : bool :=
  match t with (BAREWORD, x) => mem x expr_keywords | _ => false end.

Lemma word_not_kw s t ts : kwtok t = false -> In (b s) expr_keywords -> word s (t :: ts) = Fail.
Proof.
  intros Hk Hin. unfold word, tok. destruct (is_tok BAREWORD s t) eqn:E; [|reflexivity].
  apply is_tok_eq in E. subst t. cbn [kwtok] in Hk. exfalso.
  assert (mem (b s) expr_keywords = true).
  { unfold mem. apply existsb_exists. exists (b s). split; [exact Hin|apply bytes_eqb_refl]. }
  congruence.
Qed.

(* non_op_expression on a head token that is no keyword: only range, grouped and unprefixed remain *)
Lemma non_op_not_kw pe ps t ts : kwtok t = false ->
  non_op_expression pe ps (t :: ts) =
  (range_expression pe (t :: ts) <|> grouped_expression pe (t :: ts) <|> unprefixed_expression pe (t :: ts)).
Proof.
  intros Hk.
  unfold non_op_expression, func_op_expression, reduce_expression, map_filter, func_expression,
    import_expression, prefix_expression, convert_expression, module_expression, select_expression,
    include_expression.
  rewrite !(word_not_kw _ t ts Hk) by (cbn; auto 20).
  destruct (range_expression pe (t :: ts)); try reflexivity.
  destruct (grouped_expression pe (t :: ts)); reflexivity.
Qed.

Lemma kwtok_sym x : sym_free x = true -> kwtok (BAREWORD, x) = false.
Proof. unfold sym_free, kwtok. now intros H%negb_true_iff. Qed.

(* ================================================================== *)
(** * 2. the list combinators on printed lists                          *)
(* ================================================================== *)

Section Lists.
  Context {A X : Type}.
  Variable item : list ptok -> res A.
  Variable tk : X -> list ptok.
  Variable nm : X -> A.

  (* shape 1: every item is followed by a comma (lists, tuples, calls with several arguments) *)
  Definition commas1 (xs : list X) : list ptok := flat_map (fun x => tk x ++ [P ","]) xs.

  Lemma commas1_cons x xs z : commas1 (x :: xs) ++ z = tk x ++ P "," :: (commas1 xs ++ z).
  Proof. unfold commas1. cbn [flat_map]. now rewrite <- !app_assoc. Qed.

  Lemma commas1_length xs : List.length xs <= List.length (commas1 xs).
  Proof.
    induction xs as [|x xs IH]; [cbn; lia|]. unfold commas1 in *. cbn [flat_map].
    rewrite !app_length. cbn [List.length]. lia.
  Qed.

  Lemma sep_tail_S1 c rest : forall xs n,
    List.length xs < n ->
    (forall x r, In x xs -> item (tk x ++ P "," :: r) = Ok (nm x) (P "," :: r)) ->
    item (c :: rest) = Fail ->
    sep_tail item n (P "," :: commas1 xs ++ c :: rest) = Ok (map nm xs) (P "," :: c :: rest).
  Proof.
    induction xs as [|x xs IH]; intros n Hn Hit Hc; (destruct n as [|n]; [cbn in Hn; lia|]).
    - cbn [sep_tail]. change (punct "," (P "," :: commas1 [] ++ c :: rest)) with (@Ok unit tt (commas1 [] ++ c :: rest)).
      cbn [commas1 flat_map app]. rewrite Hc. reflexivity.
    - cbn [sep_tail]. change (punct "," (P "," :: commas1 (x :: xs) ++ c :: rest))
        with (@Ok unit tt (commas1 (x :: xs) ++ c :: rest)).
      cbv iota beta. rewrite commas1_cons. rewrite (Hit x _ (or_introl eq_refl)).
      rewrite (IH n); [reflexivity|cbn in Hn; lia| |exact Hc].
      intros y r Hy. apply Hit. now right.
  Qed.

  Lemma separated_S1 c rest x xs :
    (forall y r, In y (x :: xs) -> item (tk y ++ P "," :: r) = Ok (nm y) (P "," :: r)) ->
    item (c :: rest) = Fail ->
    separated item (commas1 (x :: xs) ++ c :: rest) = Ok (map nm (x :: xs)) (P "," :: c :: rest).
  Proof.
    intros Hit Hc. unfold separated. rewrite commas1_cons. rewrite (Hit x _ (or_introl eq_refl)).
    rewrite sep_tail_S1; [reflexivity| | |exact Hc].
    - cbn [List.length]. rewrite app_length. pose proof (commas1_length xs). lia.
    - intros y r Hy. apply Hit. now right.
  Qed.

  (* shape 2: items joined by commas (format arguments, parameters, a single call argument) *)
  Definition commas2 (xs : list X) : list ptok := flat_map (fun x => P "," :: tk x) xs.

  Lemma join_toks_cons x xs : join_toks (map tk (x :: xs)) = tk x ++ commas2 xs.
  Proof.
    revert x. induction xs as [|y xs IH]; intros x.
    - cbn. now rewrite app_nil_r.
    - change (join_toks (map tk (x :: y :: xs))) with (tk x ++ P "," :: join_toks (map tk (y :: xs))).
      rewrite IH. reflexivity.
  Qed.

  Lemma commas2_length xs : List.length xs <= List.length (commas2 xs).
  Proof.
    induction xs as [|x xs IH]; [cbn; lia|]. unfold commas2 in *. cbn [flat_map].
    rewrite app_length. cbn [List.length]. lia.
  Qed.

  Lemma sep_tail_comma n ts :
    sep_tail item (S n) (P "," :: ts) =
    match item ts with
    | Ok a rest => match sep_tail item n rest with
                   | Ok l rest' => Ok (a :: l) rest'
                   | Fail => Fail | Abort => Abort | Unsup => Unsup | NoFuel => NoFuel
                   end
    | Fail => Ok [] (P "," :: ts)
    | Abort => Abort | Unsup => Unsup | NoFuel => NoFuel
    end.
  Proof. reflexivity. Qed.

  Lemma sep_tail_nocomma n c ts : is_tok PUNCT "," c = false -> sep_tail item (S n) (c :: ts) = Ok [] (c :: ts).
  Proof. intros H. cbn [sep_tail]. unfold punct, tok. now rewrite H. Qed.

  Lemma commas2_cons x xs z : commas2 (x :: xs) ++ z = P "," :: tk x ++ (commas2 xs ++ z).
  Proof. unfold commas2. cbn [flat_map]. now rewrite <- app_assoc. Qed.

  Lemma sep_tail_S2 c rest : forall xs n,
    List.length xs < n ->
    (forall x r, In x xs -> item (tk x ++ P "," :: r) = Ok (nm x) (P "," :: r)) ->
    (forall x, In x xs -> item (tk x ++ c :: rest) = Ok (nm x) (c :: rest)) ->
    is_tok PUNCT "," c = false ->
    sep_tail item n (commas2 xs ++ c :: rest) = Ok (map nm xs) (c :: rest).
  Proof.
    induction xs as [|x xs IH]; intros n Hn Hit Hlast Hc; (destruct n as [|n]; [cbn in Hn; lia|]).
    - cbn [commas2 flat_map app]. now apply sep_tail_nocomma.
    - rewrite commas2_cons, sep_tail_comma.
      assert (Hx : item (tk x ++ commas2 xs ++ c :: rest) = Ok (nm x) (commas2 xs ++ c :: rest)).
      { destruct xs as [|y xs].
        - cbn [commas2 flat_map app]. apply Hlast. now left.
        - rewrite commas2_cons. apply Hit. now left. }
      rewrite Hx. rewrite (IH n); [reflexivity|cbn in Hn; lia| |  |exact Hc].
      + intros z r Hz. apply Hit. now right.
      + intros z Hz. apply Hlast. now right.
  Qed.

  Lemma separated_S2 c rest x xs :
    (forall y r, In y (x :: xs) -> item (tk y ++ P "," :: r) = Ok (nm y) (P "," :: r)) ->
    (forall y, In y (x :: xs) -> item (tk y ++ c :: rest) = Ok (nm y) (c :: rest)) ->
    is_tok PUNCT "," c = false ->
    separated item (join_toks (map tk (x :: xs)) ++ c :: rest) = Ok (map nm (x :: xs)) (c :: rest).
  Proof.
    intros Hit Hlast Hc. unfold separated. rewrite join_toks_cons, <- app_assoc.
    assert (Hx : item (tk x ++ commas2 xs ++ c :: rest) = Ok (nm x) (commas2 xs ++ c :: rest)).
    { destruct xs as [|y xs].
      - cbn [commas2 flat_map app]. apply Hlast. now left.
      - rewrite commas2_cons. apply Hit. now left. }
    rewrite Hx. rewrite sep_tail_S2; [reflexivity| | | |exact Hc].
    - rewrite app_length. pose proof (commas2_length xs). cbn [List.length]. lia.
    - intros z r Hz. apply Hit. now right.
    - intros z Hz. apply Hlast. now right.
  Qed.
End Lists.

(* ================================================================== *)
(** * 3. operands                                                       *)
(* ================================================================== *)

(* ---- integer literals read back ---- *)
Lemma digits_val_app s : forall a t,
  digits_val a (s ++ t) = match digits_val a s with Some v => digits_val v t | None => None end.
Proof.
  induction s as [|c s IH]; intros a t; [reflexivity|]. cbn [app digits_val].
  destruct (digit_val c); [apply IH|reflexivity].
Qed.

Lemma digit_val_char d : (d < 10)%N -> digit_val (digit_char d) = Some (Z.of_N d).
Proof.
  intros H. unfold digit_val, digit_char. rewrite N_ascii_embedding by lia.
  replace (N.leb 48 (48 + d)) with true by (symmetry; apply N.leb_le; lia).
  replace (N.leb (48 + d) 57) with true by (symmetry; apply N.leb_le; lia).
  cbn [andb]. f_equal. lia.
Qed.

Lemma dec_fuel_acc f : forall n acc, dec_fuel f n acc = dec_fuel f n [] ++ acc.
Proof.
  induction f as [|f IH]; intros n acc; [reflexivity|]. cbn [dec_fuel].
  destruct (N.eqb (N.div n 10) 0); [reflexivity|].
  rewrite (IH _ (_ :: acc)), (IH _ [_]). now rewrite <- app_assoc.
Qed.

Lemma dec_fuel_val f : forall n, (n < 10 ^ N.of_nat f)%N ->
  digits_val 0 (dec_fuel f n []) = Some (Z.of_N n).
Proof.
  induction f as [|f IH]; intros n Hn.
  - cbn in Hn. assert (n = 0%N) by lia. subst. reflexivity.
  - cbn [dec_fuel]. pose proof (N.div_mod n 10 ltac:(lia)) as Hdm.
    pose proof (N.mod_lt n 10 ltac:(lia)) as Hm.
    destruct (N.eqb (N.div n 10) 0) eqn:E.
    + apply N.eqb_eq in E. cbn [digits_val]. rewrite digit_val_char by exact Hm.
      cbn [digits_val]. f_equal. lia.
    + rewrite dec_fuel_acc, digits_val_app. rewrite IH.
      * cbn [digits_val]. rewrite digit_val_char by exact Hm. cbn [digits_val]. f_equal. lia.
      * rewrite Nat2N.inj_succ, N.pow_succ_r' in Hn. apply N.div_lt_upper_bound; lia.
Qed.

Lemma dec_of_N_val n : digits_val 0 (dec_of_N n) = Some (Z.of_N n).
Proof.
  unfold dec_of_N. apply dec_fuel_val.
  rewrite Nat2N.inj_succ, N2Nat.id.
  destruct n as [|p]; [reflexivity|].
  pose proof (N.log2_spec (N.pos p) ltac:(lia)) as [_ H].
  eapply N.lt_le_trans; [exact H|]. apply N.pow_le_mono_l. lia.
Qed.

Lemma int_of_digits_dec z : int_rt z = true -> int_of_digits (dec_of_Z z) = Some z.
Proof.
  unfold int_rt. intros H. apply andb_true_iff in H as [H0 H1]. apply Z.leb_le in H0.
  destruct (dec_of_Z_digits z H0) as [Hne _]. unfold int_of_digits.
  destruct (dec_of_Z z) as [|c r] eqn:E; [congruence|]. rewrite <- E.
  assert (Hv : digits_val 0 (dec_of_Z z) = Some z).
  { destruct z as [|p|p]; [reflexivity| |lia]. cbn [dec_of_Z]. now rewrite dec_of_N_val. }
  rewrite Hv, H1. reflexivity.
Qed.

Lemma punct_P s r : punct s (P s :: r) = Ok tt r.
Proof. unfold punct, tok, is_tok, P. cbn [fst snd ty_eqb andb]. now rewrite bytes_eqb_refl. Qed.

Lemma must_punct_P s r : must (punct s (P s :: r)) = Ok tt r.
Proof. now rewrite punct_P. Qed.

Lemma punct_comma_rparen r : punct "," (P ")" :: r) = Fail.
Proof. reflexivity. Qed.

Ltac adv := repeat (progress (rewrite ?must_punct_P, ?punct_P, ?punct_comma_rparen; cbn [must optional])).

Section Operands.
  Variable ind : nat.
  Variable pe : list ptok -> res expr.
  Variable ps : list ptok -> res stmt.

  Definition pe_spec (n : nat) : Prop :=
    forall e, esize e < n -> pp_ok ind e = true ->
    forall t r, stop t = true -> pe (etoks ind e ++ t :: r) = Ok (norm ind e) (t :: r).
  Definition ps_spec (n : nat) : Prop :=
    forall s, ssize s < n -> stmt_ok ind s = true ->
    forall r, ps (stoks ind s ++ r) = Ok (snorm ind s) r.
  Hypothesis pe_closer : forall t r, closer t = true -> pe (t :: r) = Fail.
  Hypothesis ps_closer : forall r, ps (P "}" :: r) = Fail.

  Lemma pe_spec_mono n m : m <= n -> pe_spec n -> pe_spec m.
  Proof. intros H S e He. apply S. lia. Qed.
  Lemma ps_spec_mono n m : m <= n -> ps_spec n -> ps_spec m.
  Proof. intros H S e He. apply S. lia. Qed.

  (* ---- fields ---- *)
  Definition ftoks (kv : bytes * expr) : list ptok := name_tok (fst kv) :: P "=" :: etoks ind (snd kv).
  Definition fnorm (kv : bytes * expr) : bytes * expr := (fst kv, norm ind (snd kv)).

  Lemma field_name_tok k r : field_name (name_tok k :: r) = Ok k r.
  Proof.
    unfold name_tok, Print.name_tok. destruct (is_bareword k); [|reflexivity].
    destruct (bytes_eqb k (b "true") || bytes_eqb k (b "false"))%bool; reflexivity.
  Qed.

  Lemma field_value_spec n kv t r : pe_spec n -> esize (snd kv) < n -> pp_ok ind (snd kv) = true ->
    stop t = true -> field_value pe (ftoks kv ++ t :: r) = Ok (fnorm kv) (t :: r).
  Proof.
    intros S Hs Hok Ht. unfold field_value, ftoks. cbn [app]. rewrite field_name_tok.
    unfold no_shape_suffix. change (punct "::" (P "=" :: etoks ind (snd kv) ++ t :: r)) with (@Fail unit).
    cbv iota. rewrite punct_P. cbn [must]. rewrite (S _ Hs Hok t r Ht). reflexivity.
  Qed.

  Lemma fields_size_in (fs : list (bytes * expr)) kv :
    In kv fs -> esize (snd kv) <= list_sum (map (fun kv => esize (snd kv)) fs).
  Proof. apply (list_sum_in (fun kv => esize (snd kv))). Qed.

  Lemma forallb_in {A} (f : A -> bool) l x : forallb f l = true -> In x l -> f x = true.
  Proof. intros H. now apply forallb_forall. Qed.

  Lemma braced_fields_spec n (fs : list (bytes * expr)) rest : pe_spec n ->
    list_sum (map (fun kv => esize (snd kv)) fs) < n ->
    forallb (fun kv => pp_ok ind (snd kv)) fs = true ->
    braced_fields pe (commas1 ftoks fs ++ P "}" :: rest) = Ok (map fnorm fs) rest.
  Proof.
    intros S Hn Hok. unfold braced_fields, field_list. destruct fs as [|kv fs].
    - cbn [commas1 flat_map app map]. reflexivity.
    - rewrite (separated_S1 (field_value pe) ftoks fnorm (P "}") rest kv fs); [| |reflexivity].
      + cbn [optional]. rewrite punct_P. cbn [optional]. rewrite punct_P. reflexivity.
      + intros y r Hy. apply (field_value_spec n); [exact S| |now apply (forallb_in _ _ y Hok)|reflexivity].
        pose proof (fields_size_in _ _ Hy). lia.
  Qed.

  (* the way etoks writes fields *)
  Lemma fields_toks (fs : list (bytes * expr)) z :
    (P "{" :: flat_map (fun kv => name_tok (fst kv) :: P "=" :: etoks ind (snd kv) ++ [P ","]) fs ++ [P "}"]) ++ z
    = P "{" :: commas1 ftoks fs ++ P "}" :: z.
  Proof. cbn [app]. rewrite <- app_assoc. reflexivity. Qed.

  Lemma fields_commas1 (fs : list (bytes * expr)) :
    flat_map (fun kv => name_tok (fst kv) :: P "=" :: etoks ind (snd kv) ++ [P ","]) fs = commas1 ftoks fs.
  Proof. reflexivity. Qed.

  (* ---- lists ---- *)
  Lemma list_items_spec n es rest : pe_spec n -> list_sum (map esize es) < n -> forallb (pp_ok ind) es = true ->
    list_value pe (P "[" :: commas1 (etoks ind) es ++ P "]" :: rest) = Ok (EList (map (norm ind) es)) rest.
  Proof.
    intros S Hn Hok. unfold list_value. rewrite punct_P. destruct es as [|e es].
    - cbn [commas1 flat_map app map]. unfold separated. rewrite pe_closer by reflexivity. reflexivity.
    - rewrite (separated_S1 pe (etoks ind) (norm ind) (P "]") rest e es).
      + cbn [optional]. rewrite punct_P. cbn [optional]. rewrite punct_P. reflexivity.
      + intros y r Hy. apply S; [|now apply (forallb_in _ _ y Hok)|reflexivity].
        pose proof (list_sum_in esize y _ Hy). lia.
      + now apply pe_closer.
  Qed.

  (* ---- what may follow an operand ---- *)
  Definition after_ok (a : expr) (after : list ptok) : Prop :=
    match after with
    | t :: r => follow t = true /\
                (ends_digit a = true -> is_tok PUNCT "." t = true -> starts_digit r = false)
    | [] => False
    end.

  (* the weaker condition the value parsers need *)
  Definition after_ok0 (a : expr) (after : list ptok) : Prop :=
    match after with
    | t :: r => opens (t :: r) = false /\
                (ends_digit a = true -> is_tok PUNCT "." t = true -> starts_digit r = false)
    | [] => False
    end.

  Lemma after_ok_stop a t r : stop t = true -> after_ok a (t :: r).
  Proof.
    intros H. split; [now apply stop_follow|]. intros _ Hd. rewrite (follow_not_dot_stop t H) in Hd. discriminate.
  Qed.

  Lemma opens_follow t r : follow t = true -> opens (t :: r) = false.
  Proof. intros H. destruct (follow_facts t H) as (H1 & H2 & H3 & _). unfold opens. now rewrite H1, H2, H3. Qed.

  Lemma punct_follow s t r : follow t = true -> In s [":"; "%"; "("; "{"; "["; "::"] -> punct s (t :: r) = Fail.
  Proof.
    intros H Hin. destruct (follow_facts t H) as (H1 & H2 & H3 & H4 & H5 & H6).
    unfold punct, tok. cbn in Hin.
    destruct Hin as [<-|[<-|[<-|[<-|[<-|[<-|[]]]]]]]; now rewrite ?H1, ?H2, ?H3, ?H4, ?H5, ?H6.
  Qed.

  Lemma after_ok_0 a after : after_ok a after -> after_ok0 a after.
  Proof. destruct after as [|t r]; [intros []|]. intros [Hf Hd]. split; [now apply opens_follow|exact Hd]. Qed.

  Lemma after_ok0_colon a r : after_ok0 a (P ":" :: r).
  Proof. split; [reflexivity|]. intros _ H. discriminate H. Qed.

  Lemma starts_digit_false r : starts_digit r = false -> match_type DIGIT r = Fail.
  Proof. destruct r as [|[ty f] r]; [reflexivity|]. destruct ty; cbn; congruence. Qed.

  (* ---- values ---- *)
  Definition is_value (e : expr) : bool :=
    match e with
    | ENull | EBool _ | EInt _ | EFloat _ | EStr _ | ESym _ | ETuple _ | EList _ => true
    | _ => false
    end.

  Lemma number_int d after : after_ok0 (EInt 0) after ->
    number_triple ((DIGIT, d) :: after) = Ok (NInt d) after.
  Proof.
    destruct after as [|t r]; [intros []|]. intros [_ Hd]. unfold number_triple.
    cbn [match_type fst snd ty_eqb]. unfold punct at 1, tok.
    destruct (is_tok PUNCT "." t) eqn:E.
    - rewrite (starts_digit_false r (Hd eq_refl eq_refl)). reflexivity.
    - reflexivity.
  Qed.

  Lemma value_spec n a after : pe_spec n -> esize a <= n -> is_value a = true -> pp_ok ind a = true ->
    after_ok0 a after -> value pe (etoks ind a ++ after) = Ok (norm ind a) after.
  Proof.
    intros S Hn Hv Hok Haf. destruct a; try discriminate Hv.
    - reflexivity.
    - destruct v; reflexivity.
    - cbn [etoks app]. unfold value, symbol, compound_value, list_value, tuple, boolean_value, empty_value.
      cbn [match_type punct tok is_tok fst snd ty_eqb andb]. unfold number.
      rewrite number_int by exact Haf. cbn [pp_ok] in Hok. rewrite (int_of_digits_dec z Hok). reflexivity.
    - cbn [etoks pp_ok] in *. unfold float_toks, float_rt in *. destruct (split_dot (float_text bits)) as [p s].
      cbn [app]. unfold value, symbol, compound_value, list_value, tuple, boolean_value, empty_value, number, number_triple.
      cbn [match_type punct tok is_tok fst snd ty_eqb andb P bytes_eqb b list_ascii_of_string Ascii.eqb Bool.eqb].
      destruct (f64_of_decimal p s) as [b'|]; [|discriminate]. apply Z.eqb_eq in Hok. now subst.
    - reflexivity.
    - reflexivity.
    - cbn [etoks pp_ok norm esize] in *. rewrite fields_toks.
      unfold value, symbol, compound_value, list_value.
      cbn [match_type punct tok is_tok fst snd ty_eqb andb P bytes_eqb b list_ascii_of_string Ascii.eqb Bool.eqb].
      unfold tuple. rewrite punct_P. rewrite (braced_fields_spec n); [reflexivity|exact S|lia|exact Hok].
    - cbn [etoks pp_ok norm esize] in *. cbn [app]. rewrite <- app_assoc. cbn [app].
      unfold value, symbol, compound_value.
      cbn [match_type fst snd ty_eqb P].
      change (flat_map (fun e1 => etoks ind e1 ++ [P ","]) es) with (commas1 (etoks ind) es).
      rewrite (list_items_spec n); [reflexivity|exact S|lia|exact Hok].
  Qed.

  Lemma simple_spec n a after : pe_spec n -> esize a <= n -> is_value a = true -> pp_ok ind a = true ->
    after_ok0 a after -> simple_expression pe (etoks ind a ++ after) = Ok (norm ind a) after.
  Proof.
    intros S Hn Hv Hok Haf. unfold simple_expression. rewrite (value_spec n) by assumption.
    destruct after as [|t r]; [destruct Haf|]. destruct Haf as [Hf _]. now rewrite Hf.
  Qed.

  Lemma value_group_fail r : value pe (P "(" :: r) = Fail.
  Proof. reflexivity. Qed.

  Lemma grouped_spec n e after : pe_spec n -> esize (EGroup e) <= n -> pp_ok ind (EGroup e) = true ->
    grouped_expression pe (etoks ind (EGroup e) ++ after) = Ok (norm ind (EGroup e)) after.
  Proof.
    intros S Hn Hok. cbn [etoks app norm pp_ok esize] in *. rewrite <- app_assoc. cbn [app].
    unfold grouped_expression. rewrite punct_P. rewrite (S e) by (try reflexivity; try assumption; lia).
    rewrite punct_P. reflexivity.
  Qed.

  Lemma bound_spec n a after : pe_spec n -> esize a <= n -> is_bound a = true -> pp_ok ind a = true ->
    after_ok0 a after -> range_bound pe (etoks ind a ++ after) = Ok (norm ind a) after.
  Proof.
    intros S Hn Hb Hok Haf. unfold range_bound. destruct (is_value a) eqn:Hv.
    - now rewrite (simple_spec n).
    - destruct a; try discriminate Hb; try discriminate Hv.
      rewrite (grouped_spec n) by assumption.
      cbn [etoks app]. unfold simple_expression. rewrite value_group_fail. reflexivity.
  Qed.

  (* the first token of a range bound is no keyword *)
  Lemma bound_head a : is_bound a = true -> pp_ok ind a = true ->
    exists t ts, etoks ind a = t :: ts /\ kwtok t = false.
  Proof.
    intros Hb Hok. destruct a; try discriminate Hb; cbn [etoks]; try (eexists _, _; split; reflexivity).
    - unfold float_toks. destruct (split_dot (float_text bits)). eexists _, _; split; reflexivity.
    - eexists _, _; split; [reflexivity|]. now apply kwtok_sym.
  Qed.

  Lemma value_not_grouped a after : is_value a = true -> grouped_expression pe (etoks ind a ++ after) = Fail.
  Proof.
    intros Hv. destruct a; try discriminate Hv; cbn [etoks app]; try reflexivity.
    unfold float_toks. destruct (split_dot (float_text bits)). reflexivity.
  Qed.

  Lemma value_not_format a t r : is_value a = true -> follow t = true ->
    format_expression pe (etoks ind a ++ t :: r) = Fail.
  Proof.
    intros Hv Hf. destruct a; try discriminate Hv; cbn [etoks app]; try reflexivity.
    - unfold float_toks. destruct (split_dot (float_text bits)). reflexivity.
    - unfold format_expression. cbn [match_type fst snd ty_eqb]. rewrite (punct_follow "%" t r Hf) by (cbn; auto).
      reflexivity.
  Qed.

  (* an operand that is a value or a group, followed by an operator or a closing token *)
  Lemma leaf_bound n a after : pe_spec n -> esize a <= n -> is_bound a = true -> pp_ok ind a = true ->
    after_ok a after -> non_op_expression pe ps (etoks ind a ++ after) = Ok (norm ind a) after.
  Proof.
    intros S Hn Hb Hok Haf. destruct (bound_head a Hb Hok) as (t & ts & E & K).
    pose proof (bound_spec n a after S Hn Hb Hok (after_ok_0 _ _ Haf)) as HB.
    destruct after as [|t' r]; [destruct Haf|]. pose proof Haf as [Hf _].
    rewrite E in *. cbn [app] in *. rewrite (non_op_not_kw pe ps t _ K).
    unfold range_expression. rewrite HB. rewrite (punct_follow ":" t' r Hf) by (cbn; auto).
    change (t :: ts ++ t' :: r) with ((t :: ts) ++ t' :: r). rewrite <- E.
    destruct (is_value a) eqn:Hv.
    - rewrite value_not_grouped by exact Hv. unfold unprefixed_expression.
      rewrite value_not_format by assumption. rewrite (simple_spec n); auto using after_ok_0.
    - destruct a; try discriminate Hb; try discriminate Hv. now rewrite (grouped_spec n).
  Qed.

  (* ---- operands that start with a symbol followed by an opening bracket: copy, call, cast ---- *)
  Lemma sym_open_range x t r : opens (t :: r) = true -> range_expression pe ((BAREWORD, x) :: t :: r) = Fail.
  Proof.
    intros Ho. unfold range_expression, range_bound, simple_expression, value, symbol.
    cbn [match_type fst snd ty_eqb]. rewrite Ho. reflexivity.
  Qed.
  Lemma sym_open_simple x t r : opens (t :: r) = true -> simple_expression pe ((BAREWORD, x) :: t :: r) = Fail.
  Proof.
    intros Ho. unfold simple_expression, value, symbol. cbn [match_type fst snd ty_eqb]. rewrite Ho. reflexivity.
  Qed.

  Lemma cast_word_cases x r :
    cast_word ((BAREWORD, x) :: r) = Fail \/ exists c, cast_word ((BAREWORD, x) :: r) = Ok c r.
  Proof.
    unfold cast_word, word, tok.
    destruct (is_tok BAREWORD "int" (BAREWORD, x)); [right; eexists; reflexivity|].
    destruct (is_tok BAREWORD "float" (BAREWORD, x)); [right; eexists; reflexivity|].
    destruct (is_tok BAREWORD "str" (BAREWORD, x)); [right; eexists; reflexivity|].
    destruct (is_tok BAREWORD "bool" (BAREWORD, x)); [right; eexists; reflexivity|].
    now left.
  Qed.

  Lemma cast_not_paren x t r : is_tok PUNCT "(" t = false -> cast_expression pe ((BAREWORD, x) :: t :: r) = Fail.
  Proof.
    intros H. unfold cast_expression. destruct (cast_word_cases x (t :: r)) as [->|[c ->]]; [reflexivity|].
    unfold punct, tok. now rewrite H.
  Qed.

  Lemma cast_word_fail x r : mem x cast_words = false -> cast_word ((BAREWORD, x) :: r) = Fail.
  Proof.
    intros H. unfold mem, cast_words in H. cbn [map existsb] in H.
    repeat (apply orb_false_iff in H as [? H]).
    unfold cast_word, word, tok, is_tok. cbn [fst snd ty_eqb andb].
    repeat match goal with E : bytes_eqb x _ = false |- _ => rewrite E; clear E end. reflexivity.
  Qed.

  Lemma leaf_copy n x fs after : pe_spec n -> esize (ECopy (ESym x) fs) <= n ->
    pp_ok ind (ECopy (ESym x) fs) = true ->
    non_op_expression pe ps (etoks ind (ECopy (ESym x) fs) ++ after) = Ok (norm ind (ECopy (ESym x) fs)) after.
  Proof.
    intros S Hn Hok. cbn [pp_ok esize norm] in *. apply andb_true_iff in Hok as [Hx Hfs].
    cbn [etoks]. rewrite <- app_assoc, fields_toks. cbn [app].
    rewrite (non_op_not_kw pe ps _ _ (kwtok_sym x Hx)).
    rewrite sym_open_range by reflexivity.
    unfold unprefixed_expression. rewrite sym_open_simple by reflexivity.
    rewrite cast_not_paren by reflexivity.
    unfold copy_expression. cbn [match_type fst snd ty_eqb]. rewrite punct_P.
    rewrite (braced_fields_spec n); [reflexivity|exact S|lia|exact Hfs].
  Qed.

  Lemma call_args_spec n args rest : pe_spec n -> list_sum (map esize args) < n ->
    forallb (pp_ok ind) args = true ->
    call_expression pe ((BAREWORD, b "f") :: P "(" ::
      match args with _ :: _ :: _ => flat_map (fun a => etoks ind a ++ [P ","]) args | _ => flat_map (etoks ind) args end
      ++ P ")" :: rest) = Ok (ECall (ESym (b "f")) (map (norm ind) args)) rest.
  Proof.
    intros S Hn Hok. unfold call_expression. cbn [match_type fst snd ty_eqb]. rewrite punct_P.
    destruct args as [|a [|a2 args]].
    - cbn [flat_map app map]. unfold separated. rewrite pe_closer by reflexivity. reflexivity.
    - cbn [flat_map]. rewrite app_nil_r.
      pose proof (separated_S2 pe (etoks ind) (norm ind) (P ")") rest a []) as HS2.
      cbn [join_toks map] in HS2. rewrite HS2; [reflexivity| | |reflexivity].
      + intros y r [<-|[]]. cbn [forallb] in Hok. apply andb_true_iff in Hok as [Hok _].
        apply S; [cbn in Hn; lia|exact Hok|reflexivity].
      + intros y [<-|[]]. cbn [forallb] in Hok. apply andb_true_iff in Hok as [Hok _].
        apply S; [cbn in Hn; lia|exact Hok|reflexivity].
    - change (flat_map (fun a => etoks ind a ++ [P ","]) (a :: a2 :: args)) with (commas1 (etoks ind) (a :: a2 :: args)).
      rewrite (separated_S1 pe (etoks ind) (norm ind) (P ")") rest a (a2 :: args)).
      + cbn [optional]. rewrite punct_P. cbn [optional]. rewrite punct_P. reflexivity.
      + intros y r Hy. apply S; [|now apply (forallb_in _ _ y Hok)|reflexivity].
        pose proof (list_sum_in esize y _ Hy). lia.
      + now apply pe_closer.
  Qed.

  Lemma call_name_irrelevant f g ts :
    call_expression pe ((BAREWORD, f) :: ts) =
    match call_expression pe ((BAREWORD, g) :: ts) with
    | Ok (ECall _ args) r => Ok (ECall (ESym f) args) r
    | Ok e r => Ok e r
    | Fail => Fail | Abort => Abort | Unsup => Unsup | NoFuel => NoFuel
    end.
  Proof.
    unfold call_expression. cbn [match_type fst snd ty_eqb].
    destruct (punct "(" ts) as [u r2| | | |]; try reflexivity.
    destruct (optional (separated pe r2) r2) as [oargs r3| | | |]; try reflexivity.
    destruct (optional (punct "," r3) r3) as [u2 r4| | | |]; try reflexivity.
    destruct (must (punct ")" r4)); reflexivity.
  Qed.

  Lemma leaf_call n f args after : pe_spec n -> esize (ECall (ESym f) args) <= n ->
    pp_ok ind (ECall (ESym f) args) = true ->
    non_op_expression pe ps (etoks ind (ECall (ESym f) args) ++ after) = Ok (norm ind (ECall (ESym f) args)) after.
  Proof.
    intros S Hn Hok. cbn [pp_ok esize norm] in *. apply andb_true_iff in Hok as [Hx Hargs].
    apply andb_true_iff in Hx as [Hx Hc]. apply negb_true_iff in Hc.
    cbn [etoks]. rewrite <- app_assoc. cbn [app]. rewrite <- app_assoc. cbn [app].
    rewrite (non_op_not_kw pe ps _ _ (kwtok_sym f Hx)).
    rewrite sym_open_range by reflexivity.
    unfold unprefixed_expression. rewrite sym_open_simple by reflexivity.
    unfold cast_expression. rewrite cast_word_fail by exact Hc.
    rewrite (call_name_irrelevant f (b "f")). rewrite (call_args_spec n); [reflexivity|exact S|lia|exact Hargs].
  Qed.

  Lemma leaf_cast n c e after : pe_spec n -> esize (ECast c e) <= n -> pp_ok ind (ECast c e) = true ->
    non_op_expression pe ps (etoks ind (ECast c e) ++ after) = Ok (norm ind (ECast c e)) after.
  Proof.
    intros S Hn Hok. cbn [pp_ok esize norm] in *.
    cbn [etoks app]. rewrite <- app_assoc. cbn [app].
    rewrite non_op_not_kw by (destruct c; reflexivity).
    rewrite sym_open_range by reflexivity.
    unfold unprefixed_expression. rewrite sym_open_simple by reflexivity.
    unfold cast_expression.
    assert (Hw : forall r, cast_word ((BAREWORD, cast_text c) :: r) = Ok c r) by (intros r; destruct c; reflexivity).
    rewrite Hw, punct_P. rewrite (S e) by (try reflexivity; try assumption; lia). rewrite punct_P. reflexivity.
  Qed.

  (* ---- ranges ---- *)
  Lemma leaf_range n s st en after : pe_spec n -> esize (ERange s st en) <= n ->
    pp_ok ind (ERange s st en) = true -> after_ok (ERange s st en) after ->
    non_op_expression pe ps (etoks ind (ERange s st en) ++ after) = Ok (norm ind (ERange s st en)) after.
  Proof.
    intros S Hn Hok Haf. cbn [pp_ok esize norm] in *.
    apply andb_true_iff in Hok as [Hok Hst]. apply andb_true_iff in Hok as [Hok Hen].
    apply andb_true_iff in Hok as [Hok Hben]. apply andb_true_iff in Hok as [Hbs Hs].
    assert (Hst' : match st with Some x => is_bound x = true /\ pp_ok ind x = true | None => True end).
    { destruct st; [now apply andb_true_iff in Hst|exact I]. }
    destruct (bound_head s) as (t0 & ts0 & E0 & K0); [assumption|assumption|].
    cbn [etoks]. rewrite <- !app_assoc. cbn [app].
    assert (Hgoal : range_expression pe (etoks ind s ++ P ":" :: (match st with Some x => etoks ind x ++ [P ":"] | None => [] end ++ etoks ind en) ++ after)
                    = Ok (ERange (norm ind s) (option_map (norm ind) st) (norm ind en)) after).
    { unfold range_expression. rewrite (bound_spec n s) by (try assumption; try lia; apply after_ok0_colon).
      rewrite punct_P.
      assert (Haf_en : after_ok0 en after).
      { destruct after as [|t r]; [destruct Haf|]. destruct Haf as [Hf Hd]. split; [now apply opens_follow|].
        intros He. apply Hd. cbn [ends_digit]. destruct en; try discriminate He; try discriminate Hben. reflexivity. }
      destruct st as [x|].
      - destruct Hst' as [Hbx Hx]. rewrite <- !app_assoc. cbn [app]. unfold range_step at 1.
        rewrite (bound_spec n x) by (try assumption; try lia; apply after_ok0_colon).
        rewrite punct_P. cbn [optional]. rewrite (bound_spec n en) by (try assumption; lia). reflexivity.
      - cbn [app]. unfold range_step at 1. rewrite (bound_spec n en) by (try assumption; lia).
        destruct after as [|t r]; [destruct Haf|]. destruct Haf as [Hf _].
        rewrite (punct_follow ":" t r Hf) by (cbn; auto). cbn [optional].
        rewrite (bound_spec n en) by (try assumption; lia). reflexivity. }
    rewrite E0 in *. cbn [app] in *. rewrite (non_op_not_kw pe ps t0 _ K0). rewrite Hgoal. reflexivity.
  Qed.

  (* ---- format with an argument list ---- *)
  Lemma quoted_pct_range tpl r : range_expression pe ((QUOTED, tpl) :: P "%" :: r) = Fail.
  Proof. reflexivity. Qed.

  Lemma leaf_formatl n parts args after : pe_spec n -> esize (EFormatL parts args) <= n ->
    pp_ok ind (EFormatL parts args) = true ->
    non_op_expression pe ps (etoks ind (EFormatL parts args) ++ after) = Ok (norm ind (EFormatL parts args)) after.
  Proof.
    intros S Hn Hok. cbn [pp_ok esize norm] in *. apply andb_true_iff in Hok as [Hne Hargs].
    destruct args as [|a args]; [discriminate Hne|].
    cbn [etoks app]. rewrite <- app_assoc. cbn [app].
    rewrite non_op_not_kw by reflexivity. rewrite quoted_pct_range.
    unfold unprefixed_expression, format_expression. cbn [match_type fst snd ty_eqb grouped_expression].
    change (grouped_expression pe ((QUOTED, unparse_template ind parts) :: P "%" :: P "(" :: join_toks (map (etoks ind) (a :: args)) ++ P ")" :: after)) with (@Fail expr).
    cbv iota. rewrite punct_P. unfold simple_format_args. rewrite punct_P.
    rewrite (separated_S2 pe (etoks ind) (norm ind) (P ")") after a args); [|  | |reflexivity].
    - rewrite punct_P. reflexivity.
    - intros y r Hy. apply S; [|now apply (forallb_in _ _ y Hargs)|reflexivity].
      pose proof (list_sum_in esize y _ Hy). lia.
    - intros y Hy. apply S; [|now apply (forallb_in _ _ y Hargs)|reflexivity].
      pose proof (list_sum_in esize y _ Hy). lia.
  Qed.

  (* ---- keyword operands ---- *)
  Ltac kw_eval :=
    unfold non_op_expression, func_op_expression, reduce_expression, map_filter, func_expression,
      import_expression, prefix_expression, convert_expression, module_expression, select_expression,
      include_expression;
    cbn [word tok is_tok fst snd ty_eqb andb W P b list_ascii_of_string bytes_eqb Ascii.eqb Bool.eqb].

  Lemma leaf_select n v d arms after : pe_spec n -> esize (ESelect v d arms) <= n ->
    pp_ok ind (ESelect v d arms) = true ->
    non_op_expression pe ps (etoks ind (ESelect v d arms) ++ after) = Ok (norm ind (ESelect v d arms)) after.
  Proof.
    intros S Hn Hok. cbn [pp_ok esize norm] in *.
    apply andb_true_iff in Hok as [Hok Harms]. apply andb_true_iff in Hok as [Hok Hne].
    apply andb_true_iff in Hok as [Hv Hd].
    destruct arms as [|kv arms]; [discriminate Hne|].
    cbn [etoks app]. rewrite <- !app_assoc. cbn [app]. rewrite <- !app_assoc. cbn [app].
    rewrite fields_commas1.
    kw_eval. rewrite punct_P. cbn [must].
    destruct d as [x|].
    - cbn [app]. rewrite (S v) by (try reflexivity; try assumption; lia). cbn [must app].
      unfold select_default. rewrite punct_P. rewrite (S x) by (try reflexivity; try assumption; lia).
      cbn [must optional]. rewrite !punct_comma_rparen. cbn [optional]. adv.
      unfold field_list.
      rewrite (separated_S1 (field_value pe) ftoks fnorm (P "}") after kv arms); [| |reflexivity].
      + cbn [must optional]. rewrite punct_P. cbn [optional]. rewrite punct_P. reflexivity.
      + intros y r Hy. apply (field_value_spec n); [exact S| |now apply (forallb_in _ _ y Harms)|reflexivity].
        pose proof (fields_size_in _ _ Hy). lia.
    - cbn [app]. rewrite (S v) by (try reflexivity; try assumption; lia). cbn [must].
      unfold select_default. rewrite !punct_comma_rparen. cbn [optional]. adv.
      unfold field_list.
      rewrite (separated_S1 (field_value pe) ftoks fnorm (P "}") after kv arms); [| |reflexivity].
      + cbn [must optional]. rewrite punct_P. cbn [optional]. rewrite punct_P. reflexivity.
      + intros y r Hy. apply (field_value_spec n); [exact S| |now apply (forallb_in _ _ y Harms)|reflexivity].
        pose proof (fields_size_in _ _ Hy). lia.
  Qed.

  Lemma leaf_map n f t after : pe_spec n -> esize (EMap f t) <= n -> pp_ok ind (EMap f t) = true ->
    non_op_expression pe ps (etoks ind (EMap f t) ++ after) = Ok (norm ind (EMap f t)) after.
  Proof.
    intros S Hn Hok. cbn [pp_ok esize norm] in *. apply andb_true_iff in Hok as [Hf Ht].
    cbn [etoks app]. rewrite <- !app_assoc. cbn [app]. rewrite <- !app_assoc. cbn [app].
    kw_eval. adv. rewrite (S f) by (try reflexivity; try assumption; lia). adv.
    rewrite (S t) by (try reflexivity; try assumption; lia). adv. reflexivity.
  Qed.

  Lemma leaf_filter n f t after : pe_spec n -> esize (EFilter f t) <= n -> pp_ok ind (EFilter f t) = true ->
    non_op_expression pe ps (etoks ind (EFilter f t) ++ after) = Ok (norm ind (EFilter f t)) after.
  Proof.
    intros S Hn Hok. cbn [pp_ok esize norm] in *. apply andb_true_iff in Hok as [Hf Ht].
    cbn [etoks app]. rewrite <- !app_assoc. cbn [app]. rewrite <- !app_assoc. cbn [app].
    kw_eval. adv. rewrite (S f) by (try reflexivity; try assumption; lia). adv.
    rewrite (S t) by (try reflexivity; try assumption; lia). adv. reflexivity.
  Qed.

  Lemma leaf_reduce n f a t after : pe_spec n -> esize (EReduce f a t) <= n -> pp_ok ind (EReduce f a t) = true ->
    non_op_expression pe ps (etoks ind (EReduce f a t) ++ after) = Ok (norm ind (EReduce f a t)) after.
  Proof.
    intros S Hn Hok. cbn [pp_ok esize norm] in *. apply andb_true_iff in Hok as [Hok Ht].
    apply andb_true_iff in Hok as [Hf Ha].
    cbn [etoks app]. rewrite <- !app_assoc. cbn [app]. rewrite <- !app_assoc. cbn [app].
    rewrite <- !app_assoc. cbn [app].
    kw_eval. adv. rewrite (S f) by (try reflexivity; try assumption; lia). adv.
    rewrite (S a) by (try reflexivity; try assumption; lia). adv.
    rewrite (S t) by (try reflexivity; try assumption; lia). adv. reflexivity.
  Qed.

  Lemma leaf_import p after :
    non_op_expression pe ps (etoks ind (EImport p) ++ after) = Ok (norm ind (EImport p)) after.
  Proof. reflexivity. Qed.

  Lemma leaf_include t p after :
    non_op_expression pe ps (etoks ind (EInclude t p) ++ after) = Ok (norm ind (EInclude t p)) after.
  Proof. reflexivity. Qed.

  (* ---- module ---- *)
  Lemma stoks_length s : 1 <= List.length (stoks ind s).
  Proof. destruct s; cbn [stoks List.length]; try rewrite app_length; cbn [List.length]; lia. Qed.

  Lemma flat_stoks_length body : List.length body <= List.length (flat_map (stoks ind) body).
  Proof.
    induction body as [|s body IH]; [cbn; lia|]. cbn [flat_map List.length]. rewrite app_length.
    pose proof (stoks_length s). lia.
  Qed.

  Lemma repeat_stmt_spec n rest : ps_spec n -> forall body k,
    list_sum (map ssize body) < n -> forallb (stmt_ok ind) body = true -> List.length body < k ->
    repeat_stmt ps k (flat_map (stoks ind) body ++ P "}" :: rest) = Ok (map (snorm ind) body) (P "}" :: rest).
  Proof.
    intros S. induction body as [|s body IH]; intros k Hn Hok Hk; (destruct k as [|k]; [cbn in Hk; lia|]).
    - cbn [flat_map app repeat_stmt]. rewrite ps_closer. reflexivity.
    - cbn [flat_map repeat_stmt]. rewrite <- app_assoc. cbn [forallb] in Hok. apply andb_true_iff in Hok as [Hs Hb].
      change (list_sum (map ssize (s :: body))) with (ssize s + list_sum (map ssize body)) in Hn.
      rewrite (S s) by (try assumption; lia). rewrite (IH k); [reflexivity|lia|exact Hb|cbn in Hk; lia].
  Qed.

  Lemma etoks_module pms out body :
    etoks ind (EModule pms out body) =
    W "module" :: (P "{" :: commas1 ftoks pms ++ [P "}"]) ++ P "=>" ::
    match out with Some x => P "(" :: etoks ind x ++ [P ")"] | None => [] end ++
    P "{" :: flat_map (stoks ind) body ++ [P "}"].
  Proof. reflexivity. Qed.
  Lemma pp_ok_module pms out body :
    pp_ok ind (EModule pms out body) =
    (forallb (fun kv => pp_ok ind (snd kv)) pms && match out with Some x => pp_ok ind x | None => true end &&
     forallb (stmt_ok ind) body)%bool.
  Proof. reflexivity. Qed.
  Lemma norm_module pms out body :
    norm ind (EModule pms out body) = EModule (map fnorm pms) (option_map (norm ind) out) (map (snorm ind) body).
  Proof. reflexivity. Qed.
  Lemma esize_module pms out body :
    esize (EModule pms out body) =
    Datatypes.S (list_sum (map (fun kv => esize (snd kv)) pms) + match out with Some x => esize x | None => 0 end +
                 list_sum (map ssize body)).
  Proof. reflexivity. Qed.

  Lemma leaf_module n pms out body after : pe_spec n -> ps_spec n -> esize (EModule pms out body) <= n ->
    pp_ok ind (EModule pms out body) = true ->
    non_op_expression pe ps (etoks ind (EModule pms out body) ++ after) = Ok (norm ind (EModule pms out body)) after.
  Proof.
    intros S SS Hn Hok. rewrite pp_ok_module in Hok. rewrite esize_module in Hn. rewrite norm_module, etoks_module.
    apply andb_true_iff in Hok as [Hok Hbody].
    apply andb_true_iff in Hok as [Hps Hout].
    cbn [app]. rewrite <- !app_assoc. cbn [app]. rewrite <- !app_assoc. cbn [app].
    kw_eval. adv. rewrite (braced_fields_spec n) by (try assumption; lia). adv.
    assert (Hbody' : forall r, repeat_stmt ps (Datatypes.S (List.length (flat_map (stoks ind) body ++ P "}" :: r)))
                        (flat_map (stoks ind) body ++ P "}" :: r) = Ok (map (snorm ind) body) (P "}" :: r)).
    { intros r. apply (repeat_stmt_spec n); [exact SS|lia|exact Hbody|].
      rewrite app_length. pose proof (flat_stoks_length body). lia. }
    destruct out as [x|].
    - cbn [app]. rewrite <- ?app_assoc. cbn [app]. rewrite <- ?app_assoc. cbn [app].
      unfold module_out. adv.
      rewrite (S x) by (try reflexivity; try assumption; lia). adv.
      unfold no_shape_suffix. change (punct "::" (P ")" :: P "{" :: flat_map (stoks ind) body ++ P "}" :: after)) with (@Fail unit).
      cbv iota. adv. rewrite Hbody'. adv. reflexivity.
    - cbn [app]. rewrite <- ?app_assoc. cbn [app]. unfold module_out.
      change (punct "(" (P "{" :: flat_map (stoks ind) body ++ P "}" :: after)) with (@Fail unit).
      cbn [optional]. adv. rewrite Hbody'. adv. reflexivity.
  Qed.

  (* ---- open operands: their last component is an expression ---- *)
  Lemma leaf_not n e t r : pe_spec n -> esize (ENot e) <= n -> pp_ok ind (ENot e) = true -> stop t = true ->
    non_op_expression pe ps (etoks ind (ENot e) ++ t :: r) = Ok (norm ind (ENot e)) (t :: r).
  Proof.
    intros S Hn Hok Ht. cbn [pp_ok esize norm etoks app] in *. kw_eval.
    rewrite (S e) by (try assumption; lia). reflexivity.
  Qed.
  Lemma leaf_fail n e t r : pe_spec n -> esize (EFail e) <= n -> pp_ok ind (EFail e) = true -> stop t = true ->
    non_op_expression pe ps (etoks ind (EFail e) ++ t :: r) = Ok (norm ind (EFail e)) (t :: r).
  Proof.
    intros S Hn Hok Ht. cbn [pp_ok esize norm etoks app] in *. kw_eval.
    rewrite (S e) by (try assumption; lia). reflexivity.
  Qed.
  Lemma leaf_trace n e t r : pe_spec n -> esize (ETrace e) <= n -> pp_ok ind (ETrace e) = true -> stop t = true ->
    non_op_expression pe ps (etoks ind (ETrace e) ++ t :: r) = Ok (norm ind (ETrace e)) (t :: r).
  Proof.
    intros S Hn Hok Ht. cbn [pp_ok esize norm etoks app] in *. kw_eval.
    rewrite (S e) by (try assumption; lia). reflexivity.
  Qed.
  Lemma leaf_convert n c e t r : pe_spec n -> esize (EConvert c e) <= n -> pp_ok ind (EConvert c e) = true ->
    stop t = true ->
    non_op_expression pe ps (etoks ind (EConvert c e) ++ t :: r) = Ok (norm ind (EConvert c e)) (t :: r).
  Proof.
    intros S Hn Hok Ht. cbn [pp_ok esize norm etoks app] in *. kw_eval.
    cbn [match_type must fst snd ty_eqb]. rewrite (S e) by (try assumption; lia). reflexivity.
  Qed.

  Lemma arg_spec x t r : is_tok PUNCT "::" t = false -> arg ((BAREWORD, x) :: t :: r) = Ok x (t :: r).
  Proof.
    intros H. unfold arg, no_shape_suffix, punct, tok. cbn [match_type fst snd ty_eqb]. now rewrite H.
  Qed.

  Lemma leaf_func n prm body t r : pe_spec n -> esize (EFunc prm body) <= n -> pp_ok ind (EFunc prm body) = true ->
    stop t = true ->
    non_op_expression pe ps (etoks ind (EFunc prm body) ++ t :: r) = Ok (norm ind (EFunc prm body)) (t :: r).
  Proof.
    intros S Hn Hok Ht. cbn [pp_ok esize norm etoks app] in *. rewrite <- !app_assoc. cbn [app].
    kw_eval. adv.
    assert (Hargs : forall z, optional (arglist (join_toks (map sym_toks prm) ++ P ")" :: z))
                                 (join_toks (map sym_toks prm) ++ P ")" :: z)
                              = Ok (match prm with [] => None | _ => Some prm end) (P ")" :: z)).
    { intros z. destruct prm as [|x prm]; [reflexivity|]. unfold arglist.
      rewrite (separated_S2 arg sym_toks (fun x => x) (P ")") z x prm).
      - now rewrite map_id.
      - intros y r0 _. now apply arg_spec.
      - intros y _. now apply arg_spec.
      - reflexivity. }
    rewrite Hargs. adv. rewrite (S body) by (try assumption; lia).
    destruct prm; reflexivity.
  Qed.

  Lemma not_paren_punct l t r : starts_paren l = false -> stop t = true -> punct "(" (l ++ t :: r) = Fail.
  Proof.
    intros Hl Ht. destruct l as [|t0 l]; cbn [app]; unfold punct, tok.
    - destruct (stop_cases t Ht) as [-> | [-> | [-> | [-> | -> ]]]]; reflexivity.
    - cbn [starts_paren] in Hl. now rewrite Hl.
  Qed.

  Lemma leaf_formats n parts a t r : pe_spec n -> esize (EFormatS parts a) <= n ->
    pp_ok ind (EFormatS parts a) = true -> stop t = true ->
    non_op_expression pe ps (etoks ind (EFormatS parts a) ++ t :: r) = Ok (norm ind (EFormatS parts a)) (t :: r).
  Proof.
    intros S Hn Hok Ht. cbn [pp_ok esize norm] in *. apply andb_true_iff in Hok as [Hp Ha].
    apply negb_true_iff in Hp. cbn [etoks app].
    rewrite non_op_not_kw by reflexivity. rewrite quoted_pct_range.
    unfold unprefixed_expression, format_expression. cbn [match_type fst snd ty_eqb].
    change (grouped_expression pe ((QUOTED, unparse_template ind parts) :: P "%" :: etoks ind a ++ t :: r)) with (@Fail expr).
    cbv iota. rewrite punct_P. unfold simple_format_args. rewrite (not_paren_punct _ t r Hp Ht).
    unfold expression_format_args. rewrite (S a) by (try assumption; lia). reflexivity.
  Qed.

  (* ---- every operand ---- *)
  Definition leaf_after (a : expr) (after : list ptok) : Prop :=
    if is_open a then exists t r, after = t :: r /\ stop t = true else after_ok a after.

  Lemma leaf_after_stop a t r : stop t = true -> leaf_after a (t :: r).
  Proof. intros H. unfold leaf_after. destruct (is_open a); [now exists t, r|now apply after_ok_stop]. Qed.

  Lemma leaf_spec n a after : pe_spec n -> ps_spec n -> esize a <= n -> is_bin a = false ->
    pp_ok ind a = true -> leaf_after a after ->
    non_op_expression pe ps (etoks ind a ++ after) = Ok (norm ind a) after.
  Proof.
    intros S SS Hn Hb Hok Haf. unfold leaf_after in Haf.
    destruct a; try discriminate Hb; cbn [is_open] in Haf;
      try (apply (leaf_bound n); [assumption|assumption|reflexivity|assumption|assumption]).
    - destruct Haf as (t & r & -> & Ht). now apply (leaf_not n).
    - destruct a; try (cbn [pp_ok] in Hok; discriminate Hok). now apply (leaf_copy n).
    - now apply (leaf_range n).
    - now apply (leaf_formatl n).
    - destruct Haf as (t & r & -> & Ht). now apply (leaf_formats n).
    - destruct a; try (cbn [pp_ok] in Hok; discriminate Hok). now apply (leaf_call n).
    - now apply (leaf_cast n).
    - destruct Haf as (t & r & -> & Ht). now apply (leaf_func n).
    - now apply (leaf_select n).
    - now apply (leaf_map n).
    - now apply (leaf_filter n).
    - now apply (leaf_reduce n).
    - now apply (leaf_module n).
    - destruct Haf as (t & r & -> & Ht). now apply (leaf_fail n).
    - destruct Haf as (t & r & -> & Ht). now apply (leaf_trace n).
    - apply leaf_import.
    - apply leaf_include.
    - destruct Haf as (t & r & -> & Ht). now apply (leaf_convert n).
  Qed.

  (* ================================================================ *)
  (** * 4. binary chains                                              *)
  (* ================================================================ *)
  Definition ctoks (c : list (op * expr)) : list ptok :=
    flat_map (fun oa => op_tok (fst oa) :: etoks ind (snd oa)) c.
  Definition cnorm (c : list (op * expr)) : list (op * expr) := map (fun oa => (fst oa, norm ind (snd oa))) c.

  Lemma etoks_nonempty e : etoks ind e <> [].
  Proof.
    destruct e; cbn [etoks]; try discriminate; try (apply not_eq_sym, app_cons_not_nil).
    unfold float_toks. destruct (split_dot (float_text bits)). discriminate.
  Qed.

  Lemma starts_digit_app l z : l <> [] -> starts_digit (l ++ z) = starts_digit l.
  Proof. destruct l; [congruence|reflexivity]. Qed.

  Lemma is_dot_tok o : is_tok PUNCT "." (op_tok o) = true -> o = DOT.
  Proof. destruct o; cbn; congruence. Qed.

  Lemma follow_op_tok o : follow (op_tok o) = true.
  Proof. unfold follow. now rewrite binop_op_tok. Qed.

  Lemma operands_chain n : pe_spec n -> ps_spec n -> forall c a k first t r,
    List.length c < k -> esize a <= n -> is_bin a = false -> pp_ok ind a = true ->
    (forall oa, In oa c -> esize (snd oa) <= n /\ is_bin (snd oa) = false /\ pp_ok ind (snd oa) = true) ->
    chain_ok ind a c = true -> stop t = true -> (first = true -> c <> []) ->
    operands pe ps k first (etoks ind a ++ ctoks c ++ t :: r) = Ok (norm ind a, cnorm c) (t :: r).
  Proof.
    intros S SS. induction c as [|[o a'] c IH]; intros a k first t r Hk Hn Hb Hok Hc Hch Ht Hf;
      (destruct k as [|k]; [cbn in Hk; lia|]).
    - cbn [ctoks flat_map app operands cnorm map].
      rewrite (leaf_spec n) by (try assumption; now apply leaf_after_stop).
      rewrite (binop_stop t Ht). destruct first; [now specialize (Hf eq_refl)|reflexivity].
    - cbn [ctoks flat_map operands cnorm map fst snd]. fold (ctoks c). fold (cnorm c).
      cbn [chain_ok] in Hch. apply andb_true_iff in Hch as [Hch Hch3]. apply andb_true_iff in Hch as [Hch1 Hch2].
      apply negb_true_iff in Hch1. apply negb_true_iff in Hch2.
      destruct (Hc (o, a') (or_introl eq_refl)) as (Hn' & Hb' & Hok'). cbn [snd] in *.
      rewrite <- app_assoc. cbn [app].
      rewrite (leaf_spec n); try assumption.
      + rewrite binop_op_tok.
        rewrite (IH a' k false t r); [reflexivity|cbn in Hk; lia|assumption|assumption|assumption| |assumption|assumption|discriminate].
        intros oa Hoa. apply Hc. now right.
      + unfold leaf_after. rewrite Hch1. split; [apply follow_op_tok|].
        intros Hd Hdot. apply is_dot_tok in Hdot. subst o. rewrite Hd in Hch2. cbn [andb] in Hch2.
        rewrite starts_digit_app by apply etoks_nonempty. exact Hch2.
  Qed.

  (* ---- trees ---- *)
  Fixpoint tmap (f : expr -> expr) (t : tree expr) : tree expr :=
    match t with Leaf a => Leaf (f a) | Node o l r => Node o (tmap f l) (tmap f r) end.
  Fixpoint tleaves (t : tree expr) : list expr :=
    match t with Leaf a => [a] | Node _ l r => tleaves l ++ tleaves r end.

  Lemma yield_tmap f t :
    yield (tmap f t) = (f (fst (yield t)), map (fun oa => (fst oa, f (snd oa))) (snd (yield t))).
  Proof.
    induction t as [a|o l IHl r IHr]; [reflexivity|]. cbn [tmap]. rewrite !yield_node, IHl, IHr. cbn [fst snd].
    rewrite map_app. reflexivity.
  Qed.

  Lemma all_ops_tmap f t : all_ops_of (tmap f t) = all_ops_of t.
  Proof. induction t as [a|o l IHl r IHr]; [reflexivity|]. cbn. now rewrite IHl, IHr. Qed.

  Lemma WF_tmap f t : WF code_prec t -> WF code_prec (tmap f t).
  Proof.
    induction t as [a|o l IHl r IHr]; [trivial|]. cbn [WF tmap]. intros (Wl & Wr & Hl & Hr).
    rewrite !all_ops_tmap. auto.
  Qed.

  Lemma wfb_WF t : wfb t = true -> WF code_prec t.
  Proof.
    induction t as [a|o l IHl r IHr]; [intros; exact I|]. cbn [wfb WF]. intros H.
    apply andb_true_iff in H as [H Hr]. apply andb_true_iff in H as [H Hl]. apply andb_true_iff in H as [Wl Wr].
    split; [auto|]. split; [auto|]. split.
    - intros o' Ho. apply Nat.leb_le. apply (forallb_in _ _ o' Hl Ho).
    - intros o' Ho. apply Nat.ltb_lt. apply (forallb_in _ _ o' Hr Ho).
  Qed.

  Lemma climb_of_wf (t : tree expr) : WF code_prec t ->
    climb code_prec (fst (yield t)) (snd (yield t)) = Some t.
  Proof.
    intros W. destruct (climb_total_lemma expr code_prec (fst (yield t)) (snd (yield t))) as [t' Ht'].
    rewrite Ht'. f_equal. destruct (climb_sound_lemma expr code_prec _ _ _ Ht') as [Hy W'].
    apply (wf_unique_lemma expr code_prec); [exact W'|exact W|]. rewrite Hy. now destruct (yield t).
  Qed.

  Lemma yield_leaves t : tleaves t = fst (yield t) :: map snd (snd (yield t)).
  Proof.
    induction t as [a|o l IHl r IHr]; [reflexivity|]. cbn [tleaves]. rewrite yield_node, IHl, IHr. cbn [fst snd].
    rewrite map_app. reflexivity.
  Qed.

  Lemma norm_not_bin e : is_bin e = false -> is_bin (norm ind e) = false.
  Proof. destruct e; cbn; congruence. Qed.

  Lemma tree_of_leaf e : is_bin e = false -> tree_of e = Leaf e.
  Proof. destruct e; cbn; congruence. Qed.

  Lemma tree_of_norm e : tree_of (norm ind e) = tmap (norm ind) (tree_of e).
  Proof.
    induction e; try reflexivity. cbn [norm tree_of tmap]. now rewrite IHe1, IHe2.
  Qed.

  Lemma expr_of_tree_of e : expr_of_tree (tree_of e) = e.
  Proof. induction e; try reflexivity. cbn [tree_of expr_of_tree]. now rewrite IHe1, IHe2. Qed.

  Lemma etoks_yield e :
    etoks ind e = etoks ind (fst (yield (tree_of e))) ++ ctoks (snd (yield (tree_of e))).
  Proof.
    induction e; try (cbn [tree_of yield fst snd ctoks flat_map]; now rewrite app_nil_r).
    cbn [tree_of]. rewrite yield_node. cbn [fst snd etoks]. rewrite IHe1, IHe2 at 1.
    unfold ctoks. rewrite flat_map_app. cbn [flat_map fst snd]. now rewrite <- !app_assoc.
  Qed.

  Lemma leaves_ok e : pp_ok ind e = true ->
    forall x, In x (tleaves (tree_of e)) -> esize x <= esize e /\ is_bin x = false /\ pp_ok ind x = true.
  Proof.
    induction e; intros Hok y Hx;
      try (cbn [tree_of tleaves In] in Hx; destruct Hx as [<-|[]]; repeat split; auto; fail).
    cbn [tree_of tleaves] in Hx. cbn [pp_ok] in Hok.
    apply andb_true_iff in Hok as [Hok _]. apply andb_true_iff in Hok as [Hok _].
    apply andb_true_iff in Hok as [Hl Hr]. cbn [esize].
    apply in_app_or in Hx as [Hx|Hx].
    - destruct (IHe1 Hl y Hx) as (? & ? & ?). repeat split; auto; lia.
    - destruct (IHe2 Hr y Hx) as (? & ? & ?). repeat split; auto; lia.
  Qed.

  Lemma ctoks_length c : List.length c <= List.length (ctoks c).
  Proof.
    induction c as [|oa c IH]; [cbn; lia|]. unfold ctoks in *. cbn [flat_map].
    rewrite app_length. cbn [List.length]. lia.
  Qed.

  (* ---- expression ---- *)
  Lemma expression_spec n e t r : pe_spec n -> ps_spec n -> esize e <= n -> pp_ok ind e = true ->
    stop t = true -> expression pe ps (etoks ind e ++ t :: r) = Ok (norm ind e) (t :: r).
  Proof.
    intros S SS Hn Hok Ht. unfold expression, op_expression.
    destruct (is_bin e) eqn:Hb.
    - (* a chain *)
      pose proof (leaves_ok e Hok) as HL. rewrite yield_leaves in HL.
      assert (Hwf : wfb (tree_of e) = true /\ chain_ok ind (fst (yield (tree_of e))) (snd (yield (tree_of e))) = true).
      { destruct e; try discriminate Hb. cbn [pp_ok] in Hok.
        apply andb_true_iff in Hok as [Hok H2]. apply andb_true_iff in Hok as [_ H1]. auto. }
      destruct Hwf as [Hwf Hch].
      assert (Hne : snd (yield (tree_of e)) <> []).
      { destruct e; try discriminate Hb. cbn [tree_of]. rewrite yield_node. cbn [snd]. apply not_eq_sym, app_cons_not_nil. }
      rewrite etoks_yield, <- app_assoc.
      set (a := fst (yield (tree_of e))) in *. set (c := snd (yield (tree_of e))) in *.
      destruct (HL a (or_introl eq_refl)) as (Ha1 & Ha2 & Ha3).
      rewrite (operands_chain n S SS c a _ true t r); try assumption; try lia.
      + cbn [fst snd].
        assert (E : climb code_prec (norm ind a) (cnorm c) = Some (tmap (norm ind) (tree_of e))).
        { pose proof (climb_of_wf (tmap (norm ind) (tree_of e)) (WF_tmap _ _ (wfb_WF _ Hwf))) as Hc.
          rewrite yield_tmap in Hc. exact Hc. }
        rewrite E. rewrite <- tree_of_norm, expr_of_tree_of. reflexivity.
      + rewrite !app_length. cbn [List.length].
        pose proof (ctoks_length c). lia.
      + intros oa Hoa. destruct (HL (snd oa)) as (? & ? & ?); [right; now apply in_map|]. repeat split; auto; lia.
      + intros _. exact Hne.
    - (* a single operand: op_expression fails, non_op_expression is run again *)
      assert (HN : non_op_expression pe ps (etoks ind e ++ t :: r) = Ok (norm ind e) (t :: r)).
      { apply (leaf_spec n); try assumption. now apply leaf_after_stop. }
      destruct (Datatypes.S (List.length (etoks ind e ++ t :: r))) as [|k] eqn:Ek; [discriminate Ek|].
      cbn [operands]. rewrite HN, (binop_stop t Ht). reflexivity.
  Qed.
End Operands.

(* ================================================================== *)
(** * 5. parse_tokens_of                                                *)
(* ================================================================== *)

Section Statements.
  Variable ind : nat.
  Variable pe : list ptok -> res expr.

  Lemma stmt_kw_head l z s : starts_stmt_kw l = false -> l <> [] -> In (b s) stmt_keywords -> word s (l ++ z) = Fail.
  Proof.
    intros H Hne Hin. destruct l as [|t l]; [congruence|]. cbn [app]. unfold word, tok.
    destruct (is_tok BAREWORD s t) eqn:E; [|reflexivity]. apply is_tok_eq in E. subst t.
    cbn [starts_stmt_kw] in H. exfalso.
    assert (mem (b s) stmt_keywords = true).
    { unfold mem. apply existsb_exists. exists (b s). split; [exact Hin|apply bytes_eqb_refl]. }
    congruence.
  Qed.

  Lemma stoks_eq s :
    stoks ind s = match s with
                  | SLet x e => W "let" :: (BAREWORD, x) :: P "=" :: etoks ind e ++ [P ";"]
                  | SExpr e => etoks ind e ++ [P ";"]
                  | SAssert e => W "assert" :: etoks ind e ++ [P ";"]
                  | SOut t e => W "out" :: (BAREWORD, t) :: etoks ind e ++ [P ";"]
                  end.
  Proof. destruct s; reflexivity. Qed.
  Lemma stmt_ok_eq s :
    stmt_ok ind s = match s with
                    | SLet x e => (negb (bytes_eqb x (b "env")) && pp_ok ind e)%bool
                    | SExpr e => (negb (starts_stmt_kw (etoks ind e)) && pp_ok ind e)%bool
                    | SAssert e | SOut _ e => pp_ok ind e
                    end.
  Proof. destruct s; reflexivity. Qed.
  Lemma snorm_eq s :
    snorm ind s = match s with
                  | SLet x e => SLet x (norm ind e)
                  | SExpr e => SExpr (norm ind e)
                  | SAssert e => SAssert (norm ind e)
                  | SOut t e => SOut t (norm ind e)
                  end.
  Proof. destruct s; reflexivity. Qed.
  Lemma ssize_eq s : ssize s = match s with SLet _ e | SExpr e | SAssert e | SOut _ e => Datatypes.S (esize e) end.
  Proof. destruct s; reflexivity. Qed.

  Lemma statement_spec n s r : pe_spec ind pe n -> ssize s <= n -> stmt_ok ind s = true ->
    statement pe (stoks ind s ++ r) = Ok (snorm ind s) r.
  Proof.
    intros S Hn Hok. rewrite stoks_eq, snorm_eq. rewrite stmt_ok_eq in Hok. rewrite ssize_eq in Hn. destruct s.
    - apply andb_true_iff in Hok as [Hx Hok]. apply negb_true_iff in Hx.
      cbn [app]. rewrite <- app_assoc. cbn [app].
      unfold statement, assert_statement, constraint_statement, let_statement, binding_name.
      cbn [word tok is_tok fst snd ty_eqb andb W P b list_ascii_of_string bytes_eqb Ascii.eqb Bool.eqb match_type].
      change (bytes_eqb x ["e"%char; "n"%char; "v"%char]) with (bytes_eqb x (b "env")). rewrite Hx.
      unfold no_shape_suffix. change (punct "::" (P "=" :: etoks ind e ++ P ";" :: r)) with (@Fail unit).
      cbv iota. rewrite punct_P. rewrite (S e) by (try reflexivity; try assumption; lia). rewrite punct_P. reflexivity.
    - apply andb_true_iff in Hok as [Hk Hok]. apply negb_true_iff in Hk.
      rewrite <- app_assoc. cbn [app].
      unfold statement, assert_statement, constraint_statement, let_statement, out_statement.
      rewrite !(stmt_kw_head _ _ _ Hk (etoks_nonempty ind e)) by (cbn; auto).
      unfold expression_statement. rewrite (S e) by (try reflexivity; try assumption; lia). rewrite punct_P. reflexivity.
    - cbn [app]. rewrite <- app_assoc. cbn [app].
      unfold statement, assert_statement.
      cbn [word tok is_tok fst snd ty_eqb andb W P b list_ascii_of_string bytes_eqb Ascii.eqb Bool.eqb].
      rewrite (S e) by (try reflexivity; try assumption; lia). cbn [must]. rewrite punct_P. reflexivity.
    - cbn [app]. rewrite <- app_assoc. cbn [app].
      unfold statement, assert_statement, constraint_statement, let_statement, out_statement.
      cbn [word tok is_tok fst snd ty_eqb andb W P b list_ascii_of_string bytes_eqb Ascii.eqb Bool.eqb match_type must].
      rewrite (S e) by (try reflexivity; try assumption; lia). cbn [must]. rewrite punct_P. reflexivity.
  Qed.
End Statements.

Lemma p_expr_closer f t r : closer t = true -> p_expr (S f) (t :: r) = Fail.
Proof.
  intros H. unfold closer in H.
  repeat (apply orb_true_iff in H as [H|H]); apply is_tok_eq in H; subst t; reflexivity.
Qed.

Lemma p_stmt_closer f r : p_stmt (S (S f)) (P "}" :: r) = Fail.
Proof. reflexivity. Qed.

(* the token round trip at every sufficient fuel *)
Theorem parse_tokens_fuel ind : forall f,
  (forall e, esize e <= f -> pp_ok ind e = true -> forall t r, stop t = true ->
     p_expr (S (S f)) (etoks ind e ++ t :: r) = Ok (norm ind e) (t :: r)) /\
  (forall s, ssize s <= f -> stmt_ok ind s = true -> forall r,
     p_stmt (S (S f)) (stoks ind s ++ r) = Ok (snorm ind s) r).
Proof.
  induction f as [|f [IHe IHs]].
  - split.
    + intros e He. pose proof (esize_pos e). lia.
    + intros s Hs. destruct s; cbn in Hs; lia.
  - assert (PE : pe_spec ind (p_expr (S (S f))) (S f)).
    { intros e He Hok t r Ht. apply IHe; [lia|exact Hok|exact Ht]. }
    assert (PS : ps_spec ind (p_stmt (S (S f))) (S f)).
    { intros s Hs Hok r. apply IHs; [lia|exact Hok]. }
    split.
    + intros e He Hok t r Ht.
      change (p_expr (S (S (S f))) (etoks ind e ++ t :: r))
        with (expression (p_expr (S (S f))) (p_stmt (S (S f))) (etoks ind e ++ t :: r)).
      apply (expression_spec ind _ _ (p_expr_closer (S f)) (p_stmt_closer f) (S f)); assumption.
    + intros s Hs Hok r.
      change (p_stmt (S (S (S f))) (stoks ind s ++ r)) with (statement (p_expr (S (S f))) (stoks ind s ++ r)).
      apply (statement_spec ind _ (S f)); assumption.
Qed.

(* ---- the size of an AST is bounded by the number of tokens it prints to ---- *)
Lemma sum_le_flat {X} (f : X -> nat) (g : X -> list ptok) l :
  (forall x, In x l -> f x <= List.length (g x)) -> list_sum (map f l) <= List.length (flat_map g l).
Proof.
  induction l as [|x l IH]; intros H; [cbn; lia|].
  change (list_sum (map f (x :: l))) with (f x + list_sum (map f l)). cbn [flat_map]. rewrite app_length.
  pose proof (H x (or_introl eq_refl)). specialize (IH (fun y Hy => H y (or_intror Hy))). lia.
Qed.

Lemma sum_le_join {X} (f : X -> nat) (g : X -> list ptok) l :
  (forall x, In x l -> f x <= List.length (g x)) -> list_sum (map f l) <= List.length (join_toks (map g l)).
Proof.
  induction l as [|x l IH]; intros H; [cbn; lia|].
  rewrite join_toks_cons. change (list_sum (map f (x :: l))) with (f x + list_sum (map f l)).
  rewrite app_length. pose proof (H x (or_introl eq_refl)).
  assert (list_sum (map f l) <= List.length (commas2 g l)).
  { unfold commas2. apply sum_le_flat. intros y Hy. cbn [List.length]. pose proof (H y (or_intror Hy)). lia. }
  lia.
Qed.

Lemma size_le_toks ind : forall n,
  (forall e, esize e <= n -> esize e <= List.length (etoks ind e)) /\
  (forall s, ssize s <= n -> ssize s <= List.length (stoks ind s)).
Proof.
  induction n as [|n [IHe IHs]].
  - split; [intros e He; pose proof (esize_pos e); lia|intros s Hs; destruct s; cbn in Hs; lia].
  - assert (Hfields : forall (fs : list (bytes * expr)), list_sum (map (fun kv => esize (snd kv)) fs) <= n ->
              list_sum (map (fun kv => esize (snd kv)) fs) <= List.length (commas1 (ftoks ind) fs)).
    { intros fs Hfs. unfold commas1. apply sum_le_flat. intros kv Hkv. unfold ftoks. rewrite app_length.
      cbn [List.length]. pose proof (fields_size_in fs kv Hkv). pose proof (IHe (snd kv) ltac:(lia)). lia. }
    assert (Hlist : forall es, list_sum (map esize es) <= n ->
              list_sum (map esize es) <= List.length (commas1 (etoks ind) es)).
    { intros es Hes. unfold commas1. apply sum_le_flat. intros x Hx. rewrite app_length.
      pose proof (list_sum_in esize x es Hx). pose proof (IHe x ltac:(lia)). lia. }
    split.
    + intros e He. destruct e;
        try (cbn [esize etoks List.length]; lia).
      * cbn [etoks]. unfold float_toks. destruct (split_dot (float_text bits)). cbn; lia.
      * cbn [esize etoks] in *. rewrite fields_commas1. cbn [List.length]. rewrite app_length. cbn [List.length].
        pose proof (Hfields fs ltac:(lia)). lia.
      * cbn [esize etoks] in *. cbn [List.length]. rewrite app_length. cbn [List.length].
        pose proof (Hlist es ltac:(lia)). unfold commas1 in *. lia.
      * cbn [esize etoks] in *. rewrite app_length. cbn [List.length].
        pose proof (IHe e1 ltac:(lia)). pose proof (IHe e2 ltac:(lia)). lia.
      * cbn [esize etoks] in *. cbn [List.length]. pose proof (IHe e ltac:(lia)). lia.
      * cbn [esize etoks] in *. cbn [List.length]. rewrite app_length. cbn [List.length]. pose proof (IHe e ltac:(lia)). lia.
      * cbn [esize etoks] in *. rewrite fields_commas1. rewrite app_length. cbn [List.length]. rewrite app_length. cbn [List.length].
        pose proof (IHe e ltac:(lia)). pose proof (Hfields fs ltac:(lia)). lia.
      * cbn [esize etoks] in *. rewrite !app_length. cbn [List.length]. rewrite !app_length.
        pose proof (IHe e1 ltac:(lia)). pose proof (IHe e2 ltac:(lia)).
        destruct step as [x|]; [rewrite app_length; pose proof (IHe x ltac:(lia))|]; cbn [List.length]; lia.
      * cbn [esize etoks] in *. cbn [List.length]. rewrite app_length. cbn [List.length].
        pose proof (sum_le_join esize (etoks ind) args (fun x Hx => IHe x ltac:(pose proof (list_sum_in esize x args Hx); lia))). lia.
      * cbn [esize etoks] in *. cbn [List.length]. pose proof (IHe e ltac:(lia)). lia.
      * cbn [esize etoks] in *. rewrite app_length. cbn [List.length]. rewrite app_length. cbn [List.length].
        pose proof (IHe e ltac:(lia)).
        assert (list_sum (map esize args) <= List.length (match args with _ :: _ :: _ => flat_map (fun a => etoks ind a ++ [P ","]) args | _ => flat_map (etoks ind) args end)).
        { destruct args as [|a [|a2 args]].
          - cbn; lia.
          - cbn [flat_map map list_sum fold_right]. rewrite app_nil_r. pose proof (IHe a ltac:(cbn in He; lia)). lia.
          - apply (Hlist (a :: a2 :: args)). lia. }
        lia.
      * cbn [esize etoks] in *. cbn [List.length]. rewrite app_length. cbn [List.length]. pose proof (IHe e ltac:(lia)). lia.
      * cbn [esize etoks] in *. cbn [List.length]. rewrite app_length. cbn [List.length]. pose proof (IHe e ltac:(lia)). lia.
      * cbn [esize etoks] in *. rewrite fields_commas1. cbn [List.length]. rewrite !app_length. cbn [List.length].
        rewrite !app_length. cbn [List.length].
        pose proof (IHe e ltac:(lia)). pose proof (Hfields arms ltac:(lia)).
        destruct dflt as [x|]; [pose proof (IHe x ltac:(lia))|]; cbn [List.length]; lia.
      * cbn [esize etoks] in *. cbn [List.length]. rewrite !app_length. cbn [List.length]. rewrite !app_length. cbn [List.length].
        pose proof (IHe e1 ltac:(lia)). pose proof (IHe e2 ltac:(lia)). lia.
      * cbn [esize etoks] in *. cbn [List.length]. rewrite !app_length. cbn [List.length]. rewrite !app_length. cbn [List.length].
        pose proof (IHe e1 ltac:(lia)). pose proof (IHe e2 ltac:(lia)). lia.
      * cbn [esize etoks] in *. cbn [List.length]. rewrite !app_length. cbn [List.length]. rewrite !app_length. cbn [List.length].
        rewrite !app_length. cbn [List.length].
        pose proof (IHe e1 ltac:(lia)). pose proof (IHe e2 ltac:(lia)). pose proof (IHe e3 ltac:(lia)). lia.
      * rewrite esize_module in *. rewrite etoks_module. cbn [List.length]. rewrite !app_length. cbn [List.length].
        rewrite !app_length. cbn [List.length]. rewrite !app_length. cbn [List.length].
        pose proof (Hfields params ltac:(lia)).
        assert (list_sum (map ssize body) <= List.length (flat_map (stoks ind) body)).
        { apply sum_le_flat. intros x Hx. apply IHs. pose proof (list_sum_in ssize x body Hx). lia. }
        destruct out as [x|]; [pose proof (IHe x ltac:(lia)); cbn [List.length]; rewrite app_length|]; cbn [List.length]; lia.
      * cbn [esize etoks] in *. cbn [List.length]. pose proof (IHe e ltac:(lia)). lia.
      * cbn [esize etoks] in *. cbn [List.length]. pose proof (IHe e ltac:(lia)). lia.
      * cbn [esize etoks] in *. cbn [List.length]. pose proof (IHe e ltac:(lia)). lia.
    + intros s Hs. rewrite stoks_eq, ssize_eq in *. destruct s; cbn [List.length]; rewrite app_length; cbn [List.length];
        pose proof (IHe e ltac:(lia)); lia.
Qed.

Lemma etoks_head ind e : exists t l, etoks ind e = t :: l /\ is_end t = false.
Proof.
  induction e; cbn [etoks]; try (eexists _, _; split; reflexivity).
  - unfold float_toks. destruct (split_dot (float_text bits)). eexists _, _; split; reflexivity.
  - destruct IHe1 as (t & l & -> & H). eexists _, _; split; [reflexivity|exact H].
  - destruct IHe as (t & l & -> & H). eexists _, _; split; [reflexivity|exact H].
  - destruct IHe1 as (t & l & -> & H). eexists _, _; split; [reflexivity|exact H].
  - destruct IHe as (t & l & -> & H). eexists _, _; split; [reflexivity|exact H].
Qed.

Lemma stoks_head ind s : exists t l, stoks ind s = t :: l /\ is_end t = false.
Proof.
  rewrite stoks_eq. destruct s; try (eexists _, _; split; reflexivity).
  destruct (etoks_head ind e) as (t & l & -> & H). eexists _, _; split; [reflexivity|exact H].
Qed.

(* (b) parse_tokens_of: the tokens the printer writes for an expression of the class [pp_ok], followed by
   anything that starts with a closing token, parse back to the expression (templates in raw form) *)
Theorem parse_tokens_of : forall ind e t r, pp_ok ind e = true -> stop t = true ->
  parse_expr (etoks ind e ++ t :: r) = Ok (norm ind e) (t :: r).
Proof.
  intros ind e t r Hok Ht. unfold parse_expr.
  pose proof (proj1 (size_le_toks ind (esize e)) e (le_n _)) as Hs.
  rewrite app_length. cbn [List.length].
  replace (S (List.length (etoks ind e) + S (List.length r)))
    with (S (S (List.length (etoks ind e) + List.length r))) by lia.
  apply (proj1 (parse_tokens_fuel ind _)); [lia|exact Hok|exact Ht].
Qed.

Lemma parse_loop_spec ind f : forall p k,
  (forall s, In s p -> ssize s <= f) -> List.length p < k -> prog_ok ind p = true ->
  parse_loop (S (S f)) k (ptoks ind p ++ [(END, [])]) = Parsed (pnorm ind p).
Proof.
  induction p as [|s p IH]; intros k Hs Hk Hok; (destruct k as [|k]; [cbn in Hk; lia|]).
  - reflexivity.
  - unfold ptoks, pnorm, prog_ok in *. cbn [flat_map map forallb] in *. apply andb_true_iff in Hok as [Hok1 Hok2].
    rewrite <- app_assoc.
    destruct (stoks_head ind s) as (t & l & E & He).
    pose proof (proj2 (parse_tokens_fuel ind f) s (Hs s (or_introl eq_refl)) Hok1
                  (flat_map (stoks ind) p ++ [(END, [])])) as HP.
    rewrite E in *. cbn [app parse_loop] in *. rewrite He, HP.
    rewrite (IH k); [reflexivity| |cbn in Hk; lia|exact Hok2].
    intros s' Hs'. apply Hs. now right.
Qed.

Lemma ptoks_length_ge ind p s : In s p -> ssize s <= List.length (ptoks ind p).
Proof.
  intros H. unfold ptoks. induction p as [|s' p IH]; [destruct H|]. cbn [flat_map]. rewrite app_length.
  destruct H as [->|H].
  - pose proof (proj2 (size_le_toks ind (ssize s)) s (le_n _)). lia.
  - specialize (IH H). lia.
Qed.

(* the same for whole programs, at the fuel [parse] uses *)
Theorem parse_tokens_of_prog : forall ind p, prog_ok ind p = true ->
  parse (ptoks ind p ++ [(END, [])]) = Parsed (pnorm ind p).
Proof.
  intros ind p Hok. unfold parse, parse_fuel_of.
  apply parse_loop_spec; [|  |exact Hok].
  - intros s Hs. rewrite app_length. pose proof (ptoks_length_ge ind p s Hs). lia.
  - rewrite app_length. cbn [List.length]. unfold ptoks.
    pose proof (flat_stoks_length ind p). lia.
Qed.

(* ================================================================== *)
(** * 6. the parser only builds well-formed binary trees               *)
(* ================================================================== *)

Ltac nb H :=
  repeat (match type of H with
          | context [match ?x with _ => _ end] =>
            lazymatch x with
            | context [match _ with _ => _ end] => fail
            | _ => destruct x; cbv iota beta in H; try discriminate H
            end
          end);
  inversion H; subst; reflexivity.

Section NotBin.
  Variable pe : list ptok -> res expr.
  Variable ps : list ptok -> res stmt.

  Lemma non_op_not_bin ts e r : non_op_expression pe ps ts = Ok e r -> is_bin e = false.
  Proof.
    unfold non_op_expression. intros H.
    destruct (func_op_expression pe ts) eqn:E1; try discriminate H.
    { inversion H; subst. clear H. unfold func_op_expression, reduce_expression, map_filter, must, optional in E1. nb E1. }
    destruct (func_expression pe ts) eqn:E2; try discriminate H.
    { inversion H; subst. clear H. unfold func_expression, must, optional in E2. nb E2. }
    destruct (import_expression ts) eqn:E3; try discriminate H.
    { inversion H; subst. clear H. unfold import_expression, must in E3. nb E3. }
    destruct (prefix_expression pe "TRACE" ETrace ts) eqn:E4; try discriminate H.
    { inversion H; subst. clear H. unfold prefix_expression, must in E4. nb E4. }
    destruct (prefix_expression pe "not" ENot ts) eqn:E5; try discriminate H.
    { inversion H; subst. clear H. unfold prefix_expression, must in E5. nb E5. }
    destruct (prefix_expression pe "fail" EFail ts) eqn:E6; try discriminate H.
    { inversion H; subst. clear H. unfold prefix_expression, must in E6. nb E6. }
    destruct (convert_expression pe ts) eqn:E7; try discriminate H.
    { inversion H; subst. clear H. unfold convert_expression, must in E7. nb E7. }
    destruct (module_expression pe ps ts) eqn:E8; try discriminate H.
    { inversion H; subst. clear H. unfold module_expression, must, optional in E8. nb E8. }
    destruct (select_expression pe ts) eqn:E9; try discriminate H.
    { inversion H; subst. clear H. unfold select_expression, must, optional in E9. nb E9. }
    destruct (range_expression pe ts) eqn:E10; try discriminate H.
    { inversion H; subst. clear H. unfold range_expression, must, optional in E10. nb E10. }
    destruct (grouped_expression pe ts) eqn:E11; try discriminate H.
    { inversion H; subst. clear H. unfold grouped_expression, must in E11. nb E11. }
    destruct (include_expression ts) eqn:E12; try discriminate H.
    { inversion H; subst. clear H. unfold include_expression, must in E12. nb E12. }
    unfold unprefixed_expression in H.
    destruct (format_expression pe ts) eqn:F1; try discriminate H.
    { inversion H; subst. clear H. unfold format_expression, must in F1. nb F1. }
    destruct (simple_expression pe ts) eqn:F2; try discriminate H.
    { inversion H; subst. clear H. unfold simple_expression, value, symbol, compound_value, list_value, tuple,
        boolean_value, empty_value, number, quoted_value, must, optional in F2. nb F2. }
    destruct (cast_expression pe ts) eqn:F3; try discriminate H.
    { inversion H; subst. clear H. unfold cast_expression in F3. nb F3. }
    destruct (call_expression pe ts) eqn:F4; try discriminate H.
    { inversion H; subst. clear H. unfold call_expression, must, optional in F4. nb F4. }
    unfold copy_expression in H. nb H.
  Qed.

  Lemma operands_not_bin : forall n first ts a c r, operands pe ps n first ts = Ok (a, c) r ->
    is_bin a = false /\ forall oa, In oa c -> is_bin (snd oa) = false.
  Proof.
    induction n as [|n IH]; intros first ts a c r H; [discriminate H|]. cbn [operands] in H.
    destruct (non_op_expression pe ps ts) as [e rest| | | |] eqn:E; try discriminate H; try (destruct first; discriminate H).
    apply non_op_not_bin in E.
    destruct rest as [|t rest1].
    - destruct first; [discriminate H|]. inversion H; subst. split; [exact E|intros oa []].
    - destruct (binop_of t) as [o|].
      + destruct (operands pe ps n false rest1) as [[a' c'] r'| | | |] eqn:E2; try discriminate H.
        inversion H; subst. destruct (IH _ _ _ _ _ E2) as [Ha' Hc']. split; [exact E|].
        intros oa [<-|Hoa]; [exact Ha'|now apply Hc'].
      + destruct first; [discriminate H|]. inversion H; subst. split; [exact E|intros oa []].
  Qed.

  Lemma tree_of_expr_of_tree t : (forall x, In x (tleaves t) -> is_bin x = false) -> tree_of (expr_of_tree t) = t.
  Proof.
    induction t as [a|o l IHl r IHr]; intros H.
    - cbn [expr_of_tree]. apply tree_of_leaf. apply H. now left.
    - cbn [expr_of_tree tree_of]. rewrite IHl, IHr; [reflexivity| |]; intros x Hx; apply H; cbn [tleaves];
        apply in_or_app; auto.
  Qed.

  Lemma expression_wf ts e r : expression pe ps ts = Ok e r -> WF code_prec (tree_of e).
  Proof.
    unfold expression, op_expression. intros H.
    destruct (operands pe ps (S (List.length ts)) true ts) as [[a c] rest| | | |] eqn:E; try discriminate H.
    - cbn [fst snd] in H. destruct (climb code_prec a c) as [t|] eqn:Ec; [|discriminate H].
      inversion H; subst. destruct (climb_sound_lemma expr code_prec _ _ _ Ec) as [Hy W].
      destruct (operands_not_bin _ _ _ _ _ _ E) as [Ha Hc].
      rewrite tree_of_expr_of_tree; [exact W|].
      rewrite yield_leaves, Hy. cbn [fst snd]. intros x [<-|Hx]; [exact Ha|].
      apply in_map_iff in Hx as (oa & <- & Hoa). now apply Hc.
    - apply non_op_not_bin in H. rewrite (tree_of_leaf e H). exact I.
  Qed.
End NotBin.

(* parse_produces_wf: whatever `expression` returns is, at its root, the tree the climber builds for its own
   in-order chain (WF w.r.t. the generated table) *)
Theorem parse_produces_wf : forall fuel ts e r, p_expr fuel ts = Ok e r -> WF code_prec (tree_of e).
Proof.
  intros [|f] ts e r H; [discriminate H|]. exact (expression_wf _ _ _ _ _ H).
Qed.

(* binary_roundtrip_needs_wf_refuted: a binary tree that is NOT the climber's tree and has no EGroup node does
   not survive printing and re-parsing: (a + b) * c as a bare tree prints `a + b * c`, which is a + (b * c) *)
Theorem binary_roundtrip_needs_wf_refuted :
  let e := EBin Mul (EBin Add (ESym (b "a")) (ESym (b "b"))) (ESym (b "c")) in
  let e' := EBin Add (ESym (b "a")) (EBin Mul (ESym (b "b")) (ESym (b "c"))) in
  wfb (tree_of e) = false /\
  pp 2 e = b "a + b * c" /\
  parse_expr (etoks 2 e ++ [P ";"]) = Ok e' [P ";"] /\
  parse_src (pp_stmts 2 [SExpr e]) = Parsed [SExpr e'] /\
  e <> e'.
Proof. repeat split; try (vm_compute; reflexivity). discriminate. Qed.

(* ================================================================== *)
(** * 7. print, lex, parse                                              *)
(* ================================================================== *)

(* (c), composition: IF the printed text lexes to the token list [ptoks] (the lexer-side obligation
   [lex_of_print]), a program of the class [prog_ok] is re-parsed from its own formatted text *)
Definition lex_of_print (ind : nat) (p : prog) : Prop :=
  strip_lex (pp_stmts ind p) = Some (ptoks ind p ++ [tk_end]).

Theorem fmt_preserves_ast_of_tokens : forall ind p,
  lex_of_print ind p -> prog_ok ind p = true -> parse_src (pp_stmts ind p) = Parsed (pnorm ind p).
Proof.
  intros ind p HL Hok. unfold lex_of_print, strip_lex in HL. unfold parse_src.
  destruct (lex (pp_stmts ind p)) as [l|]; [|discriminate HL]. cbn [option_map] in HL.
  inversion HL as [HL']. change (map strip l) with (map strip_tok l) in HL'. rewrite HL'.
  apply parse_tokens_of_prog. exact Hok.
Qed.

(* [norm] is the identity on programs whose templates need no re-escaping *)
Lemma tmpl_escape_plain s :
  forallb (fun c => negb (Ascii.eqb c at_sign || Ascii.eqb c bsl)) s = true -> tmpl_escape s = s.
Proof.
  induction s as [|c s IH]; [reflexivity|]. cbn [forallb]. intros H. apply andb_true_iff in H as [Hc Hs].
  unfold tmpl_escape in *. cbn [flat_map]. rewrite (IH Hs). unfold tmpl_esc_byte.
  apply negb_true_iff in Hc. now rewrite Hc.
Qed.

Lemma map_id_in {A} (f : A -> A) l : (forall x, In x l -> f x = x) -> map f l = l.
Proof.
  induction l as [|x l IH]; intros H; [reflexivity|]. cbn [map]. rewrite (H x (or_introl eq_refl)), IH; [reflexivity|].
  intros y Hy. apply H. now right.
Qed.

Lemma norm_raw ind : forall n,
  (forall e, esize e <= n -> raw_tpl e = true -> norm ind e = e) /\
  (forall s, ssize s <= n -> raw_tpl_stmt s = true -> snorm ind s = s).
Proof.
  induction n as [|n [IHe IHs]].
  - split; [intros e He; pose proof (esize_pos e); lia|intros s Hs; destruct s; cbn in Hs; lia].
  - assert (Hfields : forall (fs : list (bytes * expr)), list_sum (map (fun kv => esize (snd kv)) fs) <= n ->
              forallb (fun kv => raw_tpl (snd kv)) fs = true -> map (fun kv => (fst kv, norm ind (snd kv))) fs = fs).
    { intros fs Hn Hr. apply map_id_in. intros [k v] Hkv. cbn [fst snd]. f_equal.
      pose proof (fields_size_in fs _ Hkv). apply IHe; [cbn [snd] in *; lia|]. exact (forallb_in _ _ _ Hr Hkv). }
    assert (Hlist : forall es, list_sum (map esize es) <= n -> forallb raw_tpl es = true -> map (norm ind) es = es).
    { intros es Hn Hr. apply map_id_in. intros x Hx. pose proof (list_sum_in esize x es Hx).
      apply IHe; [lia|]. exact (forallb_in _ _ _ Hr Hx). }
    assert (Hplain : forall parts, match parts with
                                   | [PStr s] => forallb (fun c => negb (Ascii.eqb c at_sign || Ascii.eqb c bsl)) s
                                   | _ => false end = true -> [PStr (unparse_template ind parts)] = parts).
    { intros parts H. destruct parts as [|[s| |x] [|? ?]]; try discriminate H.
      unfold unparse_template. cbn [flat_map pp_tpart]. now rewrite app_nil_r, tmpl_escape_plain. }
    split.
    + intros e He Hr. destruct e; try reflexivity.
      * cbn [esize raw_tpl norm] in *. f_equal. apply Hfields; [lia|exact Hr].
      * cbn [esize raw_tpl norm] in *. f_equal. apply Hlist; [lia|exact Hr].
      * cbn [esize raw_tpl norm] in *. apply andb_true_iff in Hr as [H1 H2]. rewrite !IHe by (try assumption; lia). reflexivity.
      * cbn [esize raw_tpl norm] in *. rewrite IHe by (try assumption; lia). reflexivity.
      * cbn [esize raw_tpl norm] in *. rewrite IHe by (try assumption; lia). reflexivity.
      * cbn [esize raw_tpl norm] in *. apply andb_true_iff in Hr as [H1 H2].
        rewrite IHe by (try assumption; lia). f_equal. apply Hfields; [lia|exact H2].
      * cbn [esize raw_tpl norm] in *. apply andb_true_iff in Hr as [Hr H3]. apply andb_true_iff in Hr as [H1 H2].
        rewrite !IHe by (try assumption; lia). f_equal.
        destruct step as [x|]; [|reflexivity]. cbn [option_map]. f_equal. apply IHe; [lia|exact H2].
      * cbn [esize raw_tpl norm] in *. apply andb_true_iff in Hr as [H1 H2].
        rewrite (Hplain _ H1). f_equal. apply Hlist; [lia|exact H2].
      * cbn [esize raw_tpl norm] in *. apply andb_true_iff in Hr as [H1 H2].
        rewrite (Hplain _ H1). rewrite IHe by (try assumption; lia). reflexivity.
      * cbn [esize raw_tpl norm] in *. apply andb_true_iff in Hr as [H1 H2].
        rewrite IHe by (try assumption; lia). f_equal. apply Hlist; [lia|exact H2].
      * cbn [esize raw_tpl norm] in *. rewrite IHe by (try assumption; lia). reflexivity.
      * cbn [esize raw_tpl norm] in *. rewrite IHe by (try assumption; lia). reflexivity.
      * cbn [esize raw_tpl norm] in *. apply andb_true_iff in Hr as [Hr H3]. apply andb_true_iff in Hr as [H1 H2].
        rewrite IHe by (try assumption; lia). rewrite Hfields by (try assumption; lia). f_equal.
        destruct dflt as [x|]; [|reflexivity]. cbn [option_map]. f_equal. apply IHe; [lia|exact H2].
      * cbn [esize raw_tpl norm] in *. apply andb_true_iff in Hr as [H1 H2]. rewrite !IHe by (try assumption; lia). reflexivity.
      * cbn [esize raw_tpl norm] in *. apply andb_true_iff in Hr as [H1 H2]. rewrite !IHe by (try assumption; lia). reflexivity.
      * cbn [esize raw_tpl norm] in *. apply andb_true_iff in Hr as [Hr H3]. apply andb_true_iff in Hr as [H1 H2].
        rewrite !IHe by (try assumption; lia). reflexivity.
      * rewrite esize_module in He. rewrite norm_module.
        assert (Hr' : (forallb (fun kv => raw_tpl (snd kv)) params && match out with Some x => raw_tpl x | None => true end &&
                       forallb raw_tpl_stmt body)%bool = true) by exact Hr.
        apply andb_true_iff in Hr' as [Hr' H3]. apply andb_true_iff in Hr' as [H1 H2].
        unfold fnorm. rewrite Hfields by (try assumption; lia). f_equal.
        -- destruct out as [x|]; [|reflexivity]. cbn [option_map]. f_equal. apply IHe; [lia|exact H2].
        -- apply map_id_in. intros x Hx. pose proof (list_sum_in ssize x body Hx). apply IHs; [lia|].
           exact (forallb_in _ _ _ H3 Hx).
      * cbn [esize raw_tpl norm] in *. rewrite IHe by (try assumption; lia). reflexivity.
      * cbn [esize raw_tpl norm] in *. rewrite IHe by (try assumption; lia). reflexivity.
      * cbn [esize raw_tpl norm] in *. rewrite IHe by (try assumption; lia). reflexivity.
    + intros s Hs Hr. rewrite snorm_eq. rewrite ssize_eq in Hs.
      destruct s; (assert (Hr' : raw_tpl e = true) by exact Hr); rewrite IHe by (try assumption; lia); reflexivity.
Qed.

Lemma pnorm_raw ind p : raw_tpl_prog p = true -> pnorm ind p = p.
Proof.
  intros H. unfold pnorm. apply map_id_in. intros s Hs.
  apply (proj2 (norm_raw ind (ssize s))); [lia|]. exact (forallb_in _ _ _ H Hs).
Qed.

(* (c) for programs without re-escaped templates: the formatted text parses to the SAME program *)
Theorem fmt_preserves_ast_raw : forall ind p,
  lex_of_print ind p -> prog_ok ind p = true -> raw_tpl_prog p = true ->
  parse_src (pp_stmts ind p) = Parsed p.
Proof.
  intros ind p HL Hok Hr. rewrite (fmt_preserves_ast_of_tokens ind p HL Hok). now rewrite pnorm_raw.
Qed.

(* (d) formatting is a fixed point on such programs: format, parse, format again gives the same text *)
Corollary fmt_fixed_point_of_tokens : forall ind p p',
  lex_of_print ind p -> prog_ok ind p = true -> raw_tpl_prog p = true ->
  parse_src (pp_stmts ind p) = Parsed p' -> pp_stmts ind p' = pp_stmts ind p.
Proof.
  intros ind p p' HL Hok Hr H. rewrite (fmt_preserves_ast_raw ind p HL Hok Hr) in H. now inversion H.
Qed.

(* ---- the lexer-side obligation for the fragment of Print_Lemmas.frag_ok ---- *)
Lemma flat_map_ext_in {A B} (f g : A -> list B) l : (forall x, In x l -> f x = g x) -> flat_map f l = flat_map g l.
Proof.
  induction l as [|x l IH]; intros H; [reflexivity|]. cbn [flat_map]. rewrite (H x (or_introl eq_refl)), IH; [reflexivity|].
  intros y Hy. apply H. now right.
Qed.

Lemma etoks_frag ind : forall n e, esize e <= n -> frag_ok e = true -> etoks ind e = toks e.
Proof.
  induction n as [|n IH]; intros e He Hf; [pose proof (esize_pos e); lia|].
  destruct e; try discriminate Hf; try reflexivity.
  - cbn [etoks toks esize frag_ok] in *. f_equal. f_equal. apply flat_map_ext_in. intros [k v] Hkv. cbn [fst snd].
    pose proof (fields_size_in fs _ Hkv). cbn [snd] in *. rewrite (IH v) by (try lia; exact (forallb_in _ _ _ Hf Hkv)).
    reflexivity.
  - cbn [etoks toks esize frag_ok] in *. f_equal. f_equal. apply flat_map_ext_in. intros x Hx.
    pose proof (list_sum_in esize x es Hx). rewrite (IH x) by (try lia; exact (forallb_in _ _ _ Hf Hx)). reflexivity.
  - cbn [etoks toks esize frag_ok] in *. apply andb_true_iff in Hf as [H1 H2].
    rewrite (IH e1), (IH e2) by (try assumption; lia). reflexivity.
  - cbn [etoks toks esize frag_ok] in *. rewrite (IH e) by (try assumption; lia). reflexivity.
Qed.

Definition frag_stmt (s : stmt) : bool :=
  match s with
  | SLet x e | SOut x e => (sym_ok x && frag_ok e)%bool
  | SExpr e | SAssert e => frag_ok e
  end.
Definition frag_prog (p : prog) : bool := forallb frag_stmt p.

Lemma lex_semicolon y : strip_lex (b ";" ++ [nl] ++ y) = option_map (cons (PUNCT, b ";")) (strip_lex y).
Proof.
  change (b ";" ++ [nl] ++ y) with (src_of (PUNCT, b ";") ++ [nl] ++ y).
  rewrite tok_then by reflexivity. rewrite strip_lex_ws_any by reflexivity. reflexivity.
Qed.

Lemma expr_then_semicolon ind e y : frag_ok e = true ->
  strip_lex (pp_expr ind 0 e ++ b ";" ++ [nl] ++ y) = option_map (app (etoks ind e ++ [P ";"])) (strip_lex y).
Proof.
  intros He. rewrite (pp_toks ind e He 0) by reflexivity. rewrite lex_semicolon.
  rewrite (etoks_frag ind (esize e) e (le_n _) He).
  destruct (strip_lex y); cbn [option_map]; [|reflexivity]. f_equal. rewrite <- app_assoc. reflexivity.
Qed.

Lemma stmt_lex ind s y : frag_stmt s = true ->
  strip_lex (pp_stmt ind 0 s ++ y) = option_map (app (stoks ind s)) (strip_lex y).
Proof.
  intros Hs. rewrite stoks_eq. destruct s; cbn [frag_stmt] in Hs.
  - apply andb_true_iff in Hs as [Hx He].
    change (pp_stmt ind 0 (SLet x e) ++ y)
      with (((b "let " ++ x ++ b " = " ++ pp_expr ind 0 e) ++ b ";" ++ [nl]) ++ y).
    rewrite <- !app_assoc.
    change (b "let " ++ x ++ b " = " ++ pp_expr ind 0 e ++ b ";" ++ [nl] ++ y)
      with (b "let" ++ sp :: src_of (BAREWORD, x) ++ sp :: src_of (PUNCT, b "=") ++ sp :: pp_expr ind 0 e ++ b ";" ++ [nl] ++ y).
    rewrite (keyword_then_blank "let") by (cbn; auto).
    change (sp :: src_of (BAREWORD, x) ++ sp :: src_of (PUNCT, b "=") ++ sp :: pp_expr ind 0 e ++ b ";" ++ [nl] ++ y)
      with ([sp] ++ src_of (BAREWORD, x) ++ sp :: src_of (PUNCT, b "=") ++ sp :: pp_expr ind 0 e ++ b ";" ++ [nl] ++ y).
    rewrite strip_lex_ws_any by reflexivity.
    rewrite tok_then; [|exact Hx|].
    2:{ cbn [follow_ok]. rewrite (blank_follows_any _ sp Hx); [reflexivity|cbn; auto]. }
    rewrite lex_spaced_op by reflexivity. rewrite expr_then_semicolon by exact He.
    destruct (strip_lex y); reflexivity.
  - change (pp_stmt ind 0 (SExpr e) ++ y) with ((pp_expr ind 0 e ++ b ";" ++ [nl]) ++ y).
    rewrite <- !app_assoc. now apply expr_then_semicolon.
  - change (pp_stmt ind 0 (SAssert e) ++ y) with (((b "assert " ++ pp_expr ind 0 e) ++ b ";" ++ [nl]) ++ y).
    rewrite <- !app_assoc.
    change (b "assert " ++ pp_expr ind 0 e ++ b ";" ++ [nl] ++ y)
      with (b "assert" ++ sp :: pp_expr ind 0 e ++ b ";" ++ [nl] ++ y).
    rewrite (keyword_then_blank "assert") by (cbn; auto).
    change (sp :: pp_expr ind 0 e ++ b ";" ++ [nl] ++ y) with ([sp] ++ pp_expr ind 0 e ++ b ";" ++ [nl] ++ y).
    rewrite strip_lex_ws_any by reflexivity. rewrite expr_then_semicolon by exact Hs.
    destruct (strip_lex y); reflexivity.
  - apply andb_true_iff in Hs as [Hx He].
    change (pp_stmt ind 0 (SOut typ e) ++ y)
      with (((b "out " ++ typ ++ b " " ++ pp_expr ind 0 e) ++ b ";" ++ [nl]) ++ y).
    rewrite <- !app_assoc.
    change (b "out " ++ typ ++ b " " ++ pp_expr ind 0 e ++ b ";" ++ [nl] ++ y)
      with (b "out" ++ sp :: src_of (BAREWORD, typ) ++ sp :: pp_expr ind 0 e ++ b ";" ++ [nl] ++ y).
    rewrite (keyword_then_blank "out") by (cbn; auto).
    change (sp :: src_of (BAREWORD, typ) ++ sp :: pp_expr ind 0 e ++ b ";" ++ [nl] ++ y)
      with ([sp] ++ src_of (BAREWORD, typ) ++ sp :: pp_expr ind 0 e ++ b ";" ++ [nl] ++ y).
    rewrite strip_lex_ws_any by reflexivity.
    rewrite tok_then; [|exact Hx|].
    2:{ cbn [follow_ok]. rewrite (blank_follows_any _ sp Hx); [reflexivity|cbn; auto]. }
    change (sp :: pp_expr ind 0 e ++ b ";" ++ [nl] ++ y) with ([sp] ++ pp_expr ind 0 e ++ b ";" ++ [nl] ++ y).
    rewrite strip_lex_ws_any by reflexivity. rewrite expr_then_semicolon by exact He.
    destruct (strip_lex y); reflexivity.
Qed.

Lemma lex_of_print_frag : forall ind p, frag_prog p = true -> lex_of_print ind p.
Proof.
  intros ind p Hp. unfold lex_of_print, pp_stmts, pp_prog, ptoks.
  assert (Htail : forall r, frag_prog r = true ->
            strip_lex (flat_map (fun y => [nl] ++ y) (map (pp_stmt ind 0) r)) = Some (flat_map (stoks ind) r ++ [tk_end])).
  { induction r as [|s r IH]; intros Hr; [exact strip_lex_nil|].
    cbn [frag_prog forallb] in Hr. apply andb_true_iff in Hr as [Hs Hr].
    cbn [map flat_map]. rewrite <- !app_assoc. rewrite strip_lex_ws_any by reflexivity.
    rewrite (stmt_lex ind s _ Hs). rewrite (IH Hr). cbn [option_map]. rewrite <- ?app_assoc. reflexivity. }
  destruct p as [|s p]; [exact strip_lex_nil|].
  cbn [frag_prog forallb] in Hp. apply andb_true_iff in Hp as [Hs Hp].
  cbn [map join_with flat_map]. rewrite (stmt_lex ind s _ Hs).
  change (flat_map (fun y => [nl] ++ y) (map (pp_stmt ind 0) p)) with (flat_map (fun y => [nl] ++ y) (map (pp_stmt ind 0) p)).
  rewrite (Htail p Hp). cbn [option_map]. rewrite <- ?app_assoc. reflexivity.
Qed.

(* (c) HEADLINE for the fragment: literals without floats, symbols, lists, tuples, groups, binary chains over
   all 18 operators; let / expression / assert / out statements *)
Theorem fmt_preserves_ast : forall ind p,
  frag_prog p = true -> prog_ok ind p = true -> parse_src (pp_stmts ind p) = Parsed p.
Proof.
  intros ind p Hf Hok.
  assert (Hr : raw_tpl_prog p = true).
  { unfold raw_tpl_prog, frag_prog in *. apply forallb_forall. intros s Hs.
    pose proof (forallb_in _ _ _ Hf Hs) as Hfs. clear - Hfs.
    assert (H : forall n e, esize e <= n -> frag_ok e = true -> raw_tpl e = true).
    { induction n as [|n IH]; intros e He Hfe; [pose proof (esize_pos e); lia|].
      destruct e; try discriminate Hfe; try reflexivity; cbn [raw_tpl frag_ok esize] in *.
      - apply forallb_forall. intros [k v] Hkv. pose proof (fields_size_in fs _ Hkv). cbn [snd] in *.
        apply IH; [lia|exact (forallb_in _ _ _ Hfe Hkv)].
      - apply forallb_forall. intros x Hx. pose proof (list_sum_in esize x es Hx).
        apply IH; [lia|exact (forallb_in _ _ _ Hfe Hx)].
      - apply andb_true_iff in Hfe as [H1 H2]. rewrite (IH e1), (IH e2) by (try assumption; lia). reflexivity.
      - apply IH; [lia|exact Hfe]. }
    destruct s; cbn [frag_stmt raw_tpl_stmt] in *;
      try (apply andb_true_iff in Hfs as [_ Hfs]); apply (H (esize e) e (le_n _) Hfs). }
  apply fmt_preserves_ast_raw; [now apply lex_of_print_frag|exact Hok|exact Hr].
Qed.

(* (d) and the fixed point: formatting the re-parsed program gives the same text *)
Corollary fmt_fixed_point : forall ind p p',
  frag_prog p = true -> prog_ok ind p = true ->
  parse_src (pp_stmts ind p) = Parsed p' -> pp_stmts ind p' = pp_stmts ind p.
Proof.
  intros ind p p' Hf Hok H. rewrite (fmt_preserves_ast ind p Hf Hok) in H. now inversion H.
Qed.

(* ================================================================== *)
(** * 8. what is NOT proved (precise statements)                        *)
(* ================================================================== *)

(* lex_of_print_partial.  NOW PROVED for every construct in Parse_Lex.v:
     lex_of_print_ok : lex_ok_prog p = true -> prog_ok ind p = true -> lex_of_print ind p
   (lex_ok_prog: every symbol / parameter / converter, include and binding name is a well-formed BAREWORD,
   floats are parser floats), hence fmt_preserves_ast_all and fmt_fixed_point_all there.

   fmt_preserves_ast_templates_partial.
   The parser keeps a template as raw text; sem/Ast.v stores it pre-parsed.  So for a program with format
   expressions the re-parsed program is [pnorm ind p] (raw templates), not p, and [raw_tpl_prog] excludes
   every template that contains `@` or a backslash.
   FULL STATEMENT (not proved): with a model tpl_parse of src/build/format.rs (SimpleTemplate /
   ExpressionTemplate) and elab : expr -> option expr that applies it to every [PStr raw] node,
     elab_prog (pnorm ind p) = Some p   for programs whose parts lists are in the canonical form of format.rs.
   MISSING: the model of format.rs (its `@{...}` parts need lex + parse_expr on the text between the braces).

   parse_fuel_partial.
   FULL STATEMENT (not proved):  forall ts, parse ts <> ParseNoFuel.
   PROVED: on every printed program of the class prog_ok the budget suffices (parse_tokens_of_prog computes
   with exactly the fuel of [parse]); parse_tokens_fuel gives the result at every fuel >= size + 2.
   MISSING: for each of the ~40 parser functions "Ok _ rest -> length rest <= length ts" and
   "pe never answers NoFuel on shorter inputs -> neither does the function".
   CHECKED: the answer "fuel" never occurred in the differential runs (cmp/compare.py counts it as a mismatch).

   parse_produces_wf_deep_partial.
   PROVED: parse_produces_wf (the ROOT of every expression `expression` returns is WF) and non_op_not_bin.
   NOT PROVED: the same for every nested sub-expression (needs one traversal lemma per parser function), and
   parse ts = Parsed p -> prog_ok ind p = true (false as stated: pp_ok is conservative, e.g. it rejects
   `1.5.x` chains and calls named like casts with two arguments; see STATUS.md). *)
