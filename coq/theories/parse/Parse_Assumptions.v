(* Print Assumptions for the headline theorems of theories/parse: every answer must be
   "Closed under the global context" *)
From Ucg Require Import parse.Parse parse.Parse_Toks parse.Parse_Lemmas.
Print Assumptions parse_tokens_fuel.
Print Assumptions parse_tokens_of.
Print Assumptions parse_tokens_of_prog.
Print Assumptions parse_produces_wf.
Print Assumptions non_op_not_bin.
Print Assumptions binary_roundtrip_needs_wf_refuted.
Print Assumptions fmt_preserves_ast_of_tokens.
Print Assumptions fmt_preserves_ast_raw.
Print Assumptions fmt_fixed_point_of_tokens.
Print Assumptions lex_of_print_frag.
Print Assumptions fmt_preserves_ast.
Print Assumptions fmt_fixed_point.
From Ucg Require Import parse.Parse_Lex.
Print Assumptions pp_lex.
Print Assumptions lex_of_print_ok.
Print Assumptions fmt_preserves_ast_all.
Print Assumptions pp_stmts_raw_norm.
Print Assumptions fmt_fixed_point_all.
Print Assumptions fmt_fixed_point_all_raw.
Print Assumptions fmt_fixed_point_pp_refuted.
