(* The token list the printer model (print/Print.v) writes for EVERY construct ([etoks] / [stoks] extend
   Print.toks to the whole language), the normal form [norm] the parser returns for it, and the EXECUTABLE side
   condition [pp_ok] under which  parse (tokens e) = norm e  (Parse_Lemmas.parse_tokens_of).
   Definitions only (all extractable). *)
From Ucg Require Import base.Bytes prec.Climb sem.Ast lex.Lex_Types lex.Lex print.Print parse.Parse.
From UcgGen Require Import PrecTable.
Local Open Scope string_scope.
Local Open Scope list_scope.

(* Print.ptok and Parse.ptok are the same type; these wrappers keep every token list at type Parse.ptok *)
Definition name_tok (k : bytes) : ptok := Print.name_tok k.
Definition op_tok (o : op) : ptok := Print.op_tok o.

Definition sym_toks (x : bytes) : list ptok := [(BAREWORD, x)].

Definition P (s : string) : ptok := (PUNCT, b s).
Definition W (s : string) : ptok := (BAREWORD, b s).

(* text of a float literal `digits.digits`, split at the first dot *)
Fixpoint split_dot (t : bytes) : bytes * bytes :=
  match t with
  | [] => ([], [])
  | c :: r => if Ascii.eqb c dot then ([], r) else let (p, s) := split_dot r in (c :: p, s)
  end.
Definition float_toks (bits : Z) : list ptok :=
  let (p, s) := split_dot (float_text bits) in [(DIGIT, p); P "."; (DIGIT, s)].

Fixpoint join_toks (l : list (list ptok)) : list ptok :=
  match l with
  | [] => []
  | [x] => x
  | x :: r => x ++ P "," :: join_toks r
  end.

Section Toks.
  Variable ind : nat.      (* only used for the text of `@{...}` template parts *)

  Fixpoint etoks (e : expr) {struct e} : list ptok :=
    let fields (fs : list (bytes * expr)) : list ptok :=
      P "{" :: flat_map (fun kv => name_tok (fst kv) :: P "=" :: etoks (snd kv) ++ [P ","]) fs ++ [P "}"] in
    match e with
    | ENull => [(EMPTY, b "NULL")]
    | EBool v => [(BOOLEAN, if v then b "true" else b "false")]
    | EInt z => [(DIGIT, dec_of_Z z)]
    | EFloat bits => float_toks bits
    | EStr s => [(QUOTED, s)]
    | ESym x => [(BAREWORD, x)]
    | ETuple fs => fields fs
    | EList es => P "[" :: flat_map (fun e1 => etoks e1 ++ [P ","]) es ++ [P "]"]
    | EBin o l r => etoks l ++ op_tok o :: etoks r
    | ENot e1 => W "not" :: etoks e1
    | EGroup e1 => P "(" :: etoks e1 ++ [P ")"]
    | ECopy t fs => etoks t ++ fields fs
    | ERange s st en =>
        etoks s ++ P ":" :: match st with Some x => etoks x ++ [P ":"] | None => [] end ++ etoks en
    | EFormatL parts args =>
        (QUOTED, unparse_template ind parts) :: P "%" :: P "(" :: join_toks (map etoks args) ++ [P ")"]
    | EFormatS parts a => (QUOTED, unparse_template ind parts) :: P "%" :: etoks a
    | ECall f args =>
        etoks f ++ P "(" ::
        match args with
        | _ :: _ :: _ => flat_map (fun a => etoks a ++ [P ","]) args
        | _ => flat_map etoks args
        end ++ [P ")"]
    | ECast c e1 => (BAREWORD, cast_text c) :: P "(" :: etoks e1 ++ [P ")"]
    | EFunc ps body => W "func" :: P "(" :: join_toks (map sym_toks ps) ++ P ")" :: P "=>" :: etoks body
    | ESelect v d arms =>
        W "select" :: P "(" :: etoks v ++ match d with Some x => P "," :: etoks x | None => [] end ++
        P ")" :: P "=>" :: fields arms
    | EMap f t => W "map" :: P "(" :: etoks f ++ P "," :: etoks t ++ [P ")"]
    | EFilter f t => W "filter" :: P "(" :: etoks f ++ P "," :: etoks t ++ [P ")"]
    | EReduce f a t => W "reduce" :: P "(" :: etoks f ++ P "," :: etoks a ++ P "," :: etoks t ++ [P ")"]
    | EModule ps out body =>
        W "module" :: fields ps ++ P "=>" ::
        match out with Some x => P "(" :: etoks x ++ [P ")"] | None => [] end ++
        P "{" :: flat_map stoks body ++ [P "}"]
    | EFail e1 => W "fail" :: etoks e1
    | ETrace e1 => W "TRACE" :: etoks e1
    | EImport p => [W "import"; (QUOTED, p)]
    | EInclude t p => [W "include"; (BAREWORD, t); (QUOTED, p)]
    | EConvert t e1 => W "convert" :: (BAREWORD, t) :: etoks e1
    end
  with stoks (s : stmt) {struct s} : list ptok :=
    match s with
    | SLet x e => W "let" :: (BAREWORD, x) :: P "=" :: etoks e ++ [P ";"]
    | SExpr e => etoks e ++ [P ";"]
    | SAssert e => W "assert" :: etoks e ++ [P ";"]
    | SOut t e => W "out" :: (BAREWORD, t) :: etoks e ++ [P ";"]
    end.

  Definition ptoks (p : prog) : list ptok := flat_map stoks p.

  (* what the parser returns: the template of a format expression is the raw text (see Parse.v, ENCODINGS) *)
  Fixpoint norm (e : expr) {struct e} : expr :=
    let nf (fs : list (bytes * expr)) := map (fun kv => (fst kv, norm (snd kv))) fs in
    match e with
    | ENull | EBool _ | EInt _ | EFloat _ | EStr _ | ESym _ | EImport _ | EInclude _ _ => e
    | ETuple fs => ETuple (nf fs)
    | EList es => EList (map norm es)
    | EBin o l r => EBin o (norm l) (norm r)
    | ENot e1 => ENot (norm e1)
    | EGroup e1 => EGroup (norm e1)
    | ECopy t fs => ECopy (norm t) (nf fs)
    | ERange s st en => ERange (norm s) (option_map norm st) (norm en)
    | EFormatL parts args => EFormatL [PStr (unparse_template ind parts)] (map norm args)
    | EFormatS parts a => EFormatS [PStr (unparse_template ind parts)] (norm a)
    | ECall f args => ECall (norm f) (map norm args)
    | ECast c e1 => ECast c (norm e1)
    | EFunc ps body => EFunc ps (norm body)
    | ESelect v d arms => ESelect (norm v) (option_map norm d) (nf arms)
    | EMap f t => EMap (norm f) (norm t)
    | EFilter f t => EFilter (norm f) (norm t)
    | EReduce f a t => EReduce (norm f) (norm a) (norm t)
    | EModule ps out body => EModule (nf ps) (option_map norm out) (map snorm body)
    | EFail e1 => EFail (norm e1)
    | ETrace e1 => ETrace (norm e1)
    | EConvert t e1 => EConvert t (norm e1)
    end
  with snorm (s : stmt) {struct s} : stmt :=
    match s with
    | SLet x e => SLet x (norm e)
    | SExpr e => SExpr (norm e)
    | SAssert e => SAssert (norm e)
    | SOut t e => SOut t (norm e)
    end.
  Definition pnorm (p : prog) : prog := map snorm p.
End Toks.

(* ------------------------------------------------------------------ *)
(** * the executable side condition                                    *)
(* ------------------------------------------------------------------ *)

(* words that commit non_op_expression to one alternative (or, for `func`, that it tries first) *)
Definition expr_keywords : list bytes :=
  map b ["reduce"; "map"; "filter"; "func"; "import"; "TRACE"; "not"; "fail"; "convert"; "module"; "select"; "include"].
Definition stmt_keywords : list bytes := map b ["assert"; "constraint"; "let"; "out"].
Definition cast_words : list bytes := map b ["int"; "float"; "str"; "bool"].
Definition mem (x : bytes) (l : list bytes) : bool := existsb (bytes_eqb x) l.

(* a symbol that parses as a symbol wherever an operand may start *)
Definition sym_free (x : bytes) : bool := negb (mem x expr_keywords).

(* operands of binary chains *)
Definition is_bin (e : expr) : bool := match e with EBin _ _ _ => true | _ => false end.
(* operands whose last component is an `expression`: they swallow everything up to the next closing token *)
Definition is_open (e : expr) : bool :=
  match e with ENot _ | EFunc _ _ | EFail _ | ETrace _ | EConvert _ _ | EFormatS _ _ => true | _ => false end.
(* range bounds: simple_expression (a value) or grouped_expression *)
Definition is_bound (e : expr) : bool :=
  match e with
  | ENull | EBool _ | EInt _ | EFloat _ | EStr _ | ESym _ | ETuple _ | EList _ | EGroup _ => true
  | _ => false
  end.
(* an operand whose last token is a DIGIT that a following `. DIGIT` would turn into a float *)
Definition ends_digit (e : expr) : bool :=
  match e with
  | EInt _ | ERange _ _ (EInt _) => true
  | _ => false
  end.
Definition starts_digit (l : list ptok) : bool :=
  match l with (DIGIT, _) :: _ => true | _ => false end.
Definition starts_paren (l : list ptok) : bool :=
  match l with t :: _ => is_tok PUNCT "(" t | [] => false end.
Definition starts_stmt_kw (l : list ptok) : bool :=
  match l with (BAREWORD, x) :: _ => mem x stmt_keywords | _ => false end.

Definition tree_of : expr -> tree expr :=
  fix go (e : expr) : tree expr :=
    match e with
    | EBin o l r => Node o (go l) (go r)
    | _ => Leaf e
    end.

(* WF of prec/Climb.v as a boolean *)
Fixpoint wfb (t : tree expr) : bool :=
  match t with
  | Leaf _ => true
  | Node o l r =>
    (wfb l && wfb r &&
     forallb (fun o' => Nat.leb (code_prec o) (code_prec o')) (all_ops_of l) &&
     forallb (fun o' => Nat.ltb (code_prec o) (code_prec o')) (all_ops_of r))%bool
  end.

(* the literal reads back as the same number *)
Definition int_rt (z : Z) : bool := ((0 <=? z) && (z <=? i64_max))%Z.
Definition float_rt (bits : Z) : bool :=
  let (p, s) := split_dot (float_text bits) in
  match f64_of_decimal p s with Some b' => (b' =? bits)%Z | None => false end.

Section Ok.
  Variable ind : nat.

  (* the chain conditions on the in-order operand list of a binary tree:
     every operand but the last is closed; `x . y` with x ending in a DIGIT and y starting with one would
     re-lex as a float *)
  Fixpoint chain_ok (a : expr) (c : list (op * expr)) : bool :=
    match c with
    | [] => true
    | (o, a') :: c' =>
      (negb (is_open a) &&
       negb (match o with DOT => ends_digit a && starts_digit (etoks ind a') | _ => false end) &&
       chain_ok a' c')%bool
    end.

  Fixpoint pp_ok (e : expr) {struct e} : bool :=
    let fields_ok (fs : list (bytes * expr)) := forallb (fun kv => pp_ok (snd kv)) fs in
    match e with
    | ENull | EBool _ | EStr _ | EImport _ | EInclude _ _ => true
    | EInt z => int_rt z
    | EFloat bits => float_rt bits
    | ESym x => sym_free x
    | ETuple fs => fields_ok fs
    | EList es => forallb pp_ok es
    | EBin o l r =>
        (pp_ok l && pp_ok r && wfb (tree_of e) &&
         let y := yield (tree_of e) in chain_ok (fst y) (snd y))%bool
    | ENot e1 | EGroup e1 | EFail e1 | ETrace e1 | EConvert _ e1 | ECast _ e1 | EFunc _ e1 => pp_ok e1
    | ECopy t fs => (match t with ESym x => sym_free x | _ => false end && fields_ok fs)%bool
    | ERange s st en =>
        (is_bound s && pp_ok s && is_bound en && pp_ok en &&
         match st with Some x => is_bound x && pp_ok x | None => true end)%bool
    | EFormatL _ args => (negb (match args with [] => true | _ => false end) && forallb pp_ok args)%bool
    | EFormatS _ a => (negb (starts_paren (etoks ind a)) && pp_ok a)%bool
    | ECall f args =>
        (match f with ESym x => sym_free x && negb (mem x cast_words) | _ => false end && forallb pp_ok args)%bool
    | ESelect v d arms =>
        (pp_ok v && match d with Some x => pp_ok x | None => true end &&
         negb (match arms with [] => true | _ => false end) && fields_ok arms)%bool
    | EMap f t | EFilter f t => (pp_ok f && pp_ok t)%bool
    | EReduce f a t => (pp_ok f && pp_ok a && pp_ok t)%bool
    | EModule ps out body =>
        (fields_ok ps && match out with Some x => pp_ok x | None => true end && forallb stmt_ok body)%bool
    end
  with stmt_ok (s : stmt) {struct s} : bool :=
    match s with
    | SLet x e => (negb (bytes_eqb x (b "env")) && pp_ok e)%bool
    | SExpr e => (negb (starts_stmt_kw (etoks ind e)) && pp_ok e)%bool
    | SAssert e | SOut _ e => pp_ok e
    end.

  Definition prog_ok (p : prog) : bool := forallb stmt_ok p.
End Ok.

(* the programs on which [norm] is the identity: no format expression whose template the printer would
   re-escape (see Parse.v, ENCODINGS) *)
Fixpoint raw_tpl (e : expr) {struct e} : bool :=
  let ff (fs : list (bytes * expr)) := forallb (fun kv => raw_tpl (snd kv)) fs in
  let plain (parts : list tpart) :=
    match parts with
    | [PStr s] => forallb (fun c => negb (Ascii.eqb c at_sign || Ascii.eqb c bsl)) s
    | _ => false
    end in
  match e with
  | ENull | EBool _ | EInt _ | EFloat _ | EStr _ | ESym _ | EImport _ | EInclude _ _ => true
  | ETuple fs => ff fs
  | EList es => forallb raw_tpl es
  | EBin _ l r => (raw_tpl l && raw_tpl r)%bool
  | ENot e1 | EGroup e1 | EFail e1 | ETrace e1 | EConvert _ e1 | ECast _ e1 | EFunc _ e1 => raw_tpl e1
  | ECopy t fs => (raw_tpl t && ff fs)%bool
  | ERange s st en => (raw_tpl s && match st with Some x => raw_tpl x | None => true end && raw_tpl en)%bool
  | EFormatL parts args => (plain parts && forallb raw_tpl args)%bool
  | EFormatS parts a => (plain parts && raw_tpl a)%bool
  | ECall f args => (raw_tpl f && forallb raw_tpl args)%bool
  | ESelect v d arms => (raw_tpl v && match d with Some x => raw_tpl x | None => true end && ff arms)%bool
  | EMap f t | EFilter f t => (raw_tpl f && raw_tpl t)%bool
  | EReduce f a t => (raw_tpl f && raw_tpl a && raw_tpl t)%bool
  | EModule ps out body =>
      (ff ps && match out with Some x => raw_tpl x | None => true end && forallb raw_tpl_stmt body)%bool
  end
with raw_tpl_stmt (s : stmt) {struct s} : bool :=
  match s with SLet _ e | SExpr e | SAssert e | SOut _ e => raw_tpl e end.
Definition raw_tpl_prog (p : prog) : bool := forallb raw_tpl_stmt p.

(* executable checks used by the differential tests *)
Definition outcome_is (o : outcome) (p : prog) (eqb : prog -> prog -> bool) : bool :=
  match o with Parsed q => eqb q p | _ => false end.
