(* M-PARSE: MODEL of the parser, src/parse/mod.rs + src/parse/precedence.rs, over the token lists of the
   tokenizer model (lex/Lex.v), producing the position-free AST of sem/Ast.v.
   Executable definitions only; proofs are in Parse_Lemmas.v.

   The real parser is written with the combinators of abortable_parser 0.2.3.  A combinator answers
     Complete(rest, value) | Fail | Abort | Incomplete
   and the combinators used are
     do_each!  sequence; the first non-Complete answer is the answer
     either!   ordered choice: the next alternative is tried on Fail ONLY (Abort is final)
     must!     Fail becomes Abort
     optional! Fail becomes Complete(None) at the ORIGINAL input; Abort stays
     repeat!   zero or more; stops (keeping the input before the failed item) on Fail, Abort stays
     separated!(sep, item)  item (repeat!(sep item)): a separator that is not followed by an item is NOT consumed
     not!(p)   succeeds, consuming nothing, iff p does not match
     wrap_err! / trace_parse! / complete!  only change messages.
   Incomplete never arises at token level: the token vector always ends with an END token which no matcher
   consumes (match_type! / match_token! answer Fail at the end of the slice).

   Here: [res A] = Ok a rest | Fail | Abort, plus two answers of the MODEL only:
     Unsup   the input uses syntax that sem/Ast.v has no node for (`constraint` statements, `::` shape
             suffixes); the model stops there instead of misparsing.  It propagates like Abort.
     NoFuel  the recursion budget was too small (never happens with the budget of [parse], see
             Parse_Lemmas.parse_fuel).
   The recursion on the nesting depth is by [fuel]; the loops (separated!, repeat!, the operand list) run on a
   counter initialised to the number of remaining tokens.

   ENCODINGS (where sem/Ast.v differs from src/ast/mod.rs):
   * FormatDef.template is the raw template string; Ast.v stores templates pre-parsed.  The parser does not
     parse templates (src/build/format.rs does, at translation time), so the model returns the raw text as the
     single literal part:  EFormatL [PStr raw] args  /  EFormatS [PStr raw] arg.
   * CopyDef.selector and CallDef.funcref are Values that the grammar only ever fills with a Symbol:
     ECopy (ESym x) fs, ECall (ESym f) args.
   * Int is the i64 value, Float the IEEE-754 bit pattern of f64::from_str (correctly rounded, [f64_of_decimal]).
   * field names, converter / include types, import paths are the token fragments. *)
From Ucg Require Import base.Bytes prec.Climb sem.Ast lex.Lex_Types lex.Lex.
From UcgGen Require Import PrecTable.
Local Open Scope string_scope.
Local Open Scope list_scope.

(* a token without its position, as in Lex_Lemmas.strip_lex *)
Definition ptok := (ttype * bytes)%type.

Inductive res (A : Type) :=
| Ok (a : A) (rest : list ptok)
| Fail
| Abort
| Unsup
| NoFuel.
Arguments Ok {A}. Arguments Fail {A}. Arguments Abort {A}. Arguments Unsup {A}. Arguments NoFuel {A}.

(* do_each! *)
Notation "'do' a , r <- e ; f" :=
  (match e with Ok a r => f | Fail => Fail | Abort => Abort | Unsup => Unsup | NoFuel => NoFuel end)
  (at level 200, a pattern, r pattern, e at level 100, f at level 200, right associativity).
(* either! (binary; lazily evaluated because it is a notation) *)
Notation "x <|> y" := (match x with Fail => y | Ok a r => Ok a r | Abort => Abort | Unsup => Unsup | NoFuel => NoFuel end)
  (at level 61, left associativity).

Definition must {A} (r : res A) : res A := match r with Fail => Abort | _ => r end.
(* optional!(p) at input ts *)
Definition optional {A} (r : res A) (ts : list ptok) : res (option A) :=
  match r with
  | Ok a rest => Ok (Some a) rest
  | Fail => Ok None ts
  | Abort => Abort | Unsup => Unsup | NoFuel => NoFuel
  end.

Definition ty_eqb (x y : ttype) : bool :=
  match x, y with
  | EMPTY, EMPTY | BOOLEAN, BOOLEAN | END, END | WS, WS | COMMENT, COMMENT | QUOTED, QUOTED
  | PIPEQUOTE, PIPEQUOTE | DIGIT, DIGIT | BAREWORD, BAREWORD | PUNCT, PUNCT => true
  | _, _ => false
  end.

Definition is_tok (ty : ttype) (s : string) (t : ptok) : bool := (ty_eqb (fst t) ty && bytes_eqb (snd t) (b s))%bool.

(* match_token!: punct!(s) / word!(s) *)
Definition tok (ty : ttype) (s : string) (ts : list ptok) : res unit :=
  match ts with
  | t :: r => if is_tok ty s t then Ok tt r else Fail
  | [] => Fail
  end.
Definition punct := tok PUNCT.
Definition word := tok BAREWORD.
(* match_type!(TYPE): the fragment of the token *)
Definition match_type (ty : ttype) (ts : list ptok) : res bytes :=
  match ts with
  | t :: r => if ty_eqb (fst t) ty then Ok (snd t) r else Fail
  | [] => Fail
  end.

(* ------------------------------------------------------------------ *)
(** * numbers: i64::from_str and f64::from_str on digit strings         *)
(* ------------------------------------------------------------------ *)
Definition digit_val (c : ascii) : option Z :=
  let n := N_of_ascii c in
  if (N.leb 48 n && N.leb n 57)%bool then Some (Z.of_N n - 48)%Z else None.
Fixpoint digits_val (acc : Z) (s : bytes) : option Z :=
  match s with
  | [] => Some acc
  | c :: r => match digit_val c with Some d => digits_val (10 * acc + d)%Z r | None => None end
  end.
Definition i64_max : Z := 9223372036854775807%Z.
(* i64::from_str on a DIGIT fragment: Err on overflow *)
Definition int_of_digits (s : bytes) : option Z :=
  match s with
  | [] => None
  | _ => match digits_val 0 s with
         | Some z => if (z <=? i64_max)%Z then Some z else None
         | None => None
         end
  end.

Section Float.
  Local Open Scope Z_scope.
  Definition round_half_even (n d : Z) : Z :=
    let q := n / d in let r := n mod d in
    if 2 * r <? d then q else if d <? 2 * r then q + 1 else if Z.even q then q else q + 1.
  (* the binary64 nearest to num/den (ties to even) as a bit pattern; None = not finite.  num >= 0, den > 0 *)
  Definition f64_of_ratio (num den : Z) : option Z :=
    if num =? 0 then Some 0 else
    let l := Z.log2 num - Z.log2 den in                    (* floor(log2 x) is l or l - 1 *)
    let ge := if 0 <=? l then den * 2 ^ l <=? num else den <=? num * 2 ^ (- l) in
    let e0 := Z.max (if ge then l else l - 1) (-1022) in
    let q := e0 - 52 in
    let m0 := if 0 <=? q then round_half_even num (den * 2 ^ q) else round_half_even (num * 2 ^ (- q)) den in
    let m := if m0 =? 2 ^ 53 then 2 ^ 52 else m0 in
    let e := if m0 =? 2 ^ 53 then e0 + 1 else e0 in
    if m <? 2 ^ 52 then Some m                               (* subnormal *)
    else if 1023 <? e then None
    else Some ((e + 1023) * 2 ^ 52 + (m - 2 ^ 52)).
  (* f64::from_str (prefix ++ "." ++ suffix), rejected when the result is not finite (triple_to_number) *)
  Definition f64_of_decimal (p s : bytes) : option Z :=
    match digits_val 0 (p ++ s) with
    | Some n => f64_of_ratio n (10 ^ Z.of_nat (List.length s))
    | None => None
    end.
End Float.

(* ------------------------------------------------------------------ *)
(** * operators (dot_op_type, math_op_type, compare_op_type, bool_op_type) *)
(* ------------------------------------------------------------------ *)
(* the alternatives test pairwise different tokens, so their order is immaterial *)
Definition binop_table : list (ttype * string * op) :=
  [ (PUNCT, ".", DOT);
    (PUNCT, "+", Add); (PUNCT, "-", Sub); (PUNCT, "*", Mul); (PUNCT, "/", Div); (PUNCT, "%%", Mod);
    (PUNCT, "==", Equal); (PUNCT, "!=", NotEqual); (PUNCT, "~", REMatch); (PUNCT, "!~", NotREMatch);
    (PUNCT, "<=", LTEqual); (PUNCT, ">=", GTEqual); (PUNCT, "<", LT); (PUNCT, ">", GT);
    (BAREWORD, "in", IN); (BAREWORD, "is", IS);
    (PUNCT, "&&", AND); (PUNCT, "||", OR) ].
Fixpoint lookup_op (tbl : list (ttype * string * op)) (t : ptok) : option op :=
  match tbl with
  | [] => None
  | (ty, s, o) :: r => if is_tok ty s t then Some o else lookup_op r t
  end.
Definition binop_of (t : ptok) : option op := lookup_op binop_table t.

Fixpoint expr_of_tree (t : tree expr) : expr :=
  match t with
  | Leaf a => a
  | Node o l r => EBin o (expr_of_tree l) (expr_of_tree r)
  end.

Inductive numlit := NInt (p : bytes) | NFloat (p s : bytes).
Inductive fargs := FL (l : list expr) | FS (e : expr).

Definition opt_list {A} (o : option (list A)) : list A := match o with Some l => l | None => [] end.

(* ------------------------------------------------------------------ *)
(** * one level of the grammar, over the parsers of the level below     *)
(* ------------------------------------------------------------------ *)
Section Step.
  Variable pe : list ptok -> res expr.          (* `expression`, one nesting level down *)
  Variable pstmt : list ptok -> res stmt.       (* `statement`, one nesting level down (module bodies) *)

  (* the tail of separated!: repeat!(do_each!(_ => punct!(","), item => item, (item))) *)
  Fixpoint sep_tail {A} (item : list ptok -> res A) (n : nat) (ts : list ptok) : res (list A) :=
    match n with
    | O => NoFuel
    | S n' =>
      match punct "," ts with
      | Ok _ ts1 =>
        match item ts1 with
        | Ok a rest => do l, rest' <- sep_tail item n' rest; Ok (a :: l) rest'
        | Fail => Ok [] ts                               (* the comma is given back *)
        | Abort => Abort | Unsup => Unsup | NoFuel => NoFuel
        end
      | _ => Ok [] ts
      end
    end.
  Definition separated {A} (item : list ptok -> res A) (ts : list ptok) : res (list A) :=
    do a, rest <- item ts;
    do l, rest' <- sep_tail item (S (List.length rest)) rest;
    Ok (a :: l) rest'.

  (* optional!(shape_suffix): `::` constraint -- NOT MODELLED *)
  Definition no_shape_suffix (ts : list ptok) : res unit :=
    match punct "::" ts with Ok _ _ => Unsup | _ => Ok tt ts end.

  (* field_value *)
  Definition field_name (ts : list ptok) : res bytes :=
    match_type BOOLEAN ts <|> match_type BAREWORD ts <|> match_type QUOTED ts.
  Definition field_value (ts : list ptok) : res (bytes * expr) :=
    do k, r1 <- field_name ts;
    do _, r2 <- no_shape_suffix r1;
    do _, r3 <- must (punct "=" r2);
    do v, r4 <- must (pe r3);
    Ok (k, v) r4.
  Definition field_list : list ptok -> res (list (bytes * expr)) := separated field_value.

  (* optional!(field_list) optional!(punct!(",")) must!(punct!("}")) : the inside of tuple, copy and module
     parameter braces.  QUIRK: `{,}` is the empty tuple. *)
  Definition braced_fields (ts : list ptok) : res (list (bytes * expr)) :=
    do ofs, r1 <- optional (field_list ts) ts;
    do _, r2 <- optional (punct "," r1) r1;
    do _, r3 <- must (punct "}" r2);
    Ok (opt_list ofs) r3.

  Definition tuple (ts : list ptok) : res expr :=
    do _, r1 <- punct "{" ts;
    do fs, r2 <- braced_fields r1;
    Ok (ETuple fs) r2.

  (* QUIRK: `[,]` is the empty list. *)
  Definition list_value (ts : list ptok) : res expr :=
    do _, r1 <- punct "[" ts;
    do oes, r2 <- optional (separated pe r1) r1;
    do _, r3 <- optional (punct "," r2) r2;
    do _, r4 <- must (punct "]" r3);
    Ok (EList (opt_list oes)) r4.

  (* number: DIGIT . DIGIT  |  . DIGIT  |  DIGIT, then triple_to_number (Fail when out of range) *)
  Definition number_triple (ts : list ptok) : res numlit :=
    (do p, r1 <- match_type DIGIT ts; do _, r2 <- punct "." r1; do s, r3 <- match_type DIGIT r2; Ok (NFloat p s) r3)
    <|> (do _, r1 <- punct "." ts; do s, r2 <- match_type DIGIT r1; Ok (NFloat [] s) r2)
    <|> (do p, r1 <- match_type DIGIT ts; Ok (NInt p) r1).
  Definition number (ts : list ptok) : res expr :=
    do t, rest <- number_triple ts;
    match t with
    | NInt p => match int_of_digits p with Some z => Ok (EInt z) rest | None => Fail end
    | NFloat p s => match f64_of_decimal p s with Some bits => Ok (EFloat bits) rest | None => Fail end
    end.

  Definition symbol (ts : list ptok) : res expr := do x, r <- match_type BAREWORD ts; Ok (ESym x) r.
  Definition boolean_value (ts : list ptok) : res expr :=
    do f, r <- match_type BOOLEAN ts; Ok (EBool (bytes_eqb f (b "true"))) r.
  Definition empty_value (ts : list ptok) : res expr := do _, r <- match_type EMPTY ts; Ok ENull r.
  Definition quoted_value (ts : list ptok) : res expr := do s, r <- match_type QUOTED ts; Ok (EStr s) r.
  Definition compound_value (ts : list ptok) : res expr := list_value ts <|> tuple ts.

  (* value: QUIRK a BAREWORD that is a keyword (`let`, `in`, ...) is a symbol here *)
  Definition value (ts : list ptok) : res expr :=
    symbol ts <|> compound_value ts <|> boolean_value ts <|> empty_value ts <|> number ts <|> quoted_value ts.

  (* simple_expression: value, not!(either!(punct!("{"), punct!("["), punct!("("))) *)
  Definition opens (ts : list ptok) : bool :=
    match ts with
    | t :: _ => (is_tok PUNCT "{" t || is_tok PUNCT "[" t || is_tok PUNCT "(" t)%bool
    | [] => false
    end.
  Definition simple_expression (ts : list ptok) : res expr :=
    do v, rest <- value ts; if opens rest then Fail else Ok v rest.

  Definition grouped_expression (ts : list ptok) : res expr :=
    do _, r1 <- punct "(" ts;
    do e, r2 <- pe r1;
    do _, r3 <- must (punct ")" r2);
    Ok (EGroup e) r3.

  Definition copy_expression (ts : list ptok) : res expr :=
    do x, r1 <- match_type BAREWORD ts;
    do _, r2 <- punct "{" r1;
    do fs, r3 <- braced_fields r2;
    Ok (ECopy (ESym x) fs) r3.

  Definition arg (ts : list ptok) : res bytes :=
    do x, r1 <- match_type BAREWORD ts; do _, r2 <- no_shape_suffix r1; Ok x r2.
  Definition arglist : list ptok -> res (list bytes) := separated arg.

  (* func_expression: the body is NOT under must! -- a failing body lets the later alternatives see `func` *)
  Definition func_expression (ts : list ptok) : res expr :=
    do _, r1 <- word "func" ts;
    do _, r2 <- must (punct "(" r1);
    do oargs, r3 <- optional (arglist r2) r2;
    do _, r4 <- must (punct ")" r3);
    do _, r5 <- must (punct "=>" r4);
    do body, r6 <- pe r5;
    Ok (EFunc (opt_list oargs) body) r6.

  Fixpoint repeat_stmt (n : nat) (ts : list ptok) : res (list stmt) :=
    match n with
    | O => NoFuel
    | S n' =>
      match pstmt ts with
      | Ok s rest => do l, rest' <- repeat_stmt n' rest; Ok (s :: l) rest'
      | Fail => Ok [] ts
      | Abort => Abort | Unsup => Unsup | NoFuel => NoFuel
      end
    end.

  Definition module_out (ts : list ptok) : res expr :=
    do _, r1 <- punct "(" ts;
    do e, r2 <- must (pe r1);
    do _, r3 <- no_shape_suffix r2;
    do _, r4 <- must (punct ")" r3);
    Ok e r4.
  Definition module_expression (ts : list ptok) : res expr :=
    do _, r1 <- word "module" ts;
    do _, r2 <- must (punct "{" r1);
    do ps, r3 <- braced_fields r2;
    do _, r4 <- must (punct "=>" r3);
    do out, r5 <- optional (module_out r4) r4;
    do _, r6 <- must (punct "{" r5);
    do body, r7 <- repeat_stmt (S (List.length r6)) r6;
    do _, r8 <- must (punct "}" r7);
    Ok (EModule ps out body) r8.

  (* alt_select_expression.  QUIRK: `select (v,) => ...` aborts: a comma after the value commits to a default *)
  Definition select_default (ts : list ptok) : res expr :=
    do _, r1 <- punct "," ts; do d, r2 <- must (pe r1); Ok d r2.
  Definition select_expression (ts : list ptok) : res expr :=
    do _, r1 <- word "select" ts;
    do _, r2 <- must (punct "(" r1);
    do v, r3 <- must (pe r2);
    do d, r4 <- optional (select_default r3) r3;
    do _, r5 <- optional (punct "," r4) r4;
    do _, r6 <- must (punct ")" r5);
    do _, r7 <- must (punct "=>" r6);
    do _, r8 <- must (punct "{" r7);
    do arms, r9 <- must (field_list r8);
    do _, r10 <- optional (punct "," r9) r9;
    do _, r11 <- must (punct "}" r10);
    Ok (ESelect v d arms) r11.

  (* format_expression.  QUIRK: `"t" % ()` aborts (an empty argument list is neither alternative) *)
  Definition simple_format_args (ts : list ptok) : res fargs :=
    do _, r1 <- punct "(" ts;
    do args, r2 <- separated pe r1;
    do _, r3 <- must (punct ")" r2);
    Ok (FL args) r3.
  Definition expression_format_args (ts : list ptok) : res fargs :=
    do e, r <- must (pe ts); Ok (FS e) r.
  Definition format_expression (ts : list ptok) : res expr :=
    do tpl, r1 <- match_type QUOTED ts;
    do _, r2 <- punct "%" r1;
    do args, r3 <- must (simple_format_args r2 <|> expression_format_args r2);
    match args with
    | FL l => Ok (EFormatL [PStr tpl] l) r3
    | FS e => Ok (EFormatS [PStr tpl] e) r3
    end.

  Definition include_expression (ts : list ptok) : res expr :=
    do _, r1 <- word "include" ts;
    do t, r2 <- must (match_type BAREWORD r1);
    do p, r3 <- must (match_type QUOTED r2);
    Ok (EInclude t p) r3.

  (* cast_expression: nothing is under must!, so `int(1` falls through to call_expression *)
  Definition cast_word (ts : list ptok) : res cast_type :=
    (do _, r <- word "int" ts; Ok CInt r) <|> (do _, r <- word "float" ts; Ok CFloat r)
    <|> (do _, r <- word "str" ts; Ok CStr r) <|> (do _, r <- word "bool" ts; Ok CBool r).
  Definition cast_expression (ts : list ptok) : res expr :=
    do c, r1 <- cast_word ts;
    do _, r2 <- punct "(" r1;
    do e, r3 <- pe r2;
    do _, r4 <- punct ")" r3;
    Ok (ECast c e) r4.

  Definition call_expression (ts : list ptok) : res expr :=
    do f, r1 <- match_type BAREWORD ts;
    do _, r2 <- punct "(" r1;
    do oargs, r3 <- optional (separated pe r2) r2;
    do _, r4 <- optional (punct "," r3) r3;
    do _, r5 <- must (punct ")" r4);
    Ok (ECall (ESym f) (opt_list oargs)) r5.

  Definition reduce_expression (ts : list ptok) : res expr :=
    do _, r1 <- word "reduce" ts;
    do _, r2 <- must (punct "(" r1);
    do f, r3 <- must (pe r2);
    do _, r4 <- must (punct "," r3);
    do acc, r5 <- must (pe r4);
    do _, r6 <- must (punct "," r5);
    do t, r7 <- must (pe r6);
    do _, r8 <- optional (punct "," r7) r7;
    do _, r9 <- must (punct ")" r8);
    Ok (EReduce f acc t) r9.
  Definition map_filter (kw : string) (mk : expr -> expr -> expr) (ts : list ptok) : res expr :=
    do _, r1 <- word kw ts;
    do _, r2 <- must (punct "(" r1);
    do f, r3 <- must (pe r2);
    do _, r4 <- must (punct "," r3);
    do t, r5 <- must (pe r4);
    do _, r6 <- optional (punct "," r5) r5;
    do _, r7 <- must (punct ")" r6);
    Ok (mk f t) r7.
  Definition func_op_expression (ts : list ptok) : res expr :=
    reduce_expression ts <|> map_filter "map" EMap ts <|> map_filter "filter" EFilter ts.

  (* range_expression: bounds are simple or grouped expressions only *)
  Definition range_bound (ts : list ptok) : res expr := simple_expression ts <|> grouped_expression ts.
  Definition range_step (ts : list ptok) : res expr :=
    do s, r1 <- range_bound ts; do _, r2 <- punct ":" r1; Ok s r2.
  Definition range_expression (ts : list ptok) : res expr :=
    do start, r1 <- range_bound ts;
    do _, r2 <- punct ":" r1;
    do step, r3 <- optional (range_step r2) r2;
    do stop, r4 <- must (range_bound r3);
    Ok (ERange start step stop) r4.

  Definition import_expression (ts : list ptok) : res expr :=
    do _, r1 <- word "import" ts; do p, r2 <- must (match_type QUOTED r1); Ok (EImport p) r2.
  Definition prefix_expression (kw : string) (mk : expr -> expr) (ts : list ptok) : res expr :=
    do _, r1 <- word kw ts; do e, r2 <- must (pe r1); Ok (mk e) r2.
  Definition convert_expression (ts : list ptok) : res expr :=
    do _, r1 <- word "convert" ts;
    do t, r2 <- must (match_type BAREWORD r1);
    do e, r3 <- must (pe r2);
    Ok (EConvert t e) r3.

  Definition unprefixed_expression (ts : list ptok) : res expr :=
    format_expression ts <|> simple_expression ts <|> cast_expression ts <|> call_expression ts
    <|> copy_expression ts.

  Definition non_op_expression (ts : list ptok) : res expr :=
    func_op_expression ts <|> func_expression ts <|> import_expression ts
    <|> prefix_expression "TRACE" ETrace ts <|> prefix_expression "not" ENot ts
    <|> prefix_expression "fail" EFail ts <|> convert_expression ts <|> module_expression ts
    <|> select_expression ts <|> range_expression ts <|> grouped_expression ts
    <|> include_expression ts <|> unprefixed_expression ts.

  (* parse_operand_list: operand (operator operand)*; a chain needs at least one operator (else Fail);
     after an operator a missing operand is an Abort *)
  Fixpoint operands (n : nat) (first : bool) (ts : list ptok) : res (expr * list (op * expr)) :=
    match n with
    | O => NoFuel
    | S n' =>
      match non_op_expression ts with
      | Ok e rest =>
        match rest with
        | t :: rest1 =>
          match binop_of t with
          | Some o => do ec, r <- operands n' false rest1; Ok (e, (o, fst ec) :: snd ec) r
          | None => if first then Fail else Ok (e, []) rest
          end
        | [] => if first then Fail else Ok (e, []) rest
        end
      | Fail => if first then Fail else Abort
      | Abort => Abort | Unsup => Unsup | NoFuel => NoFuel
      end
    end.

  (* op_expression: the chain is climbed with the generated table (prec/Climb.v is the model of parse_op).
     [climb] is total (Climb_Lemmas.climb_total_lemma); its None stands for the panic
     "premature abort parsing Operator expression!" and is unreachable. *)
  Definition op_expression (ts : list ptok) : res expr :=
    do ec, rest <- operands (S (List.length ts)) true ts;
    match climb code_prec (fst ec) (snd ec) with
    | Some t => Ok (expr_of_tree t) rest
    | None => Abort
    end.

  (* expression: op_expression, and on Fail (no operator after the first operand) non_op_expression AGAIN *)
  Definition expression (ts : list ptok) : res expr :=
    match op_expression ts with
    | Fail => non_op_expression ts
    | r => r
    end.
End Step.

(* statements, over `expression` *)
Section Stmt.
  Variable pe : list ptok -> res expr.

  Definition expression_statement (ts : list ptok) : res stmt :=
    do e, r1 <- pe ts; do _, r2 <- must (punct ";" r1); Ok (SExpr e) r2.

  (* match_binding_name!: `env` is a hard error *)
  Definition binding_name (ts : list ptok) : res bytes :=
    do x, r <- match_type BAREWORD ts; if bytes_eqb x (b "env") then Abort else Ok x r.

  (* let_statement = word!("let") must!(let_stmt_body): everything after `let` is committed.
     QUIRK: any BAREWORD but `env` is a name: `let let = 1;` parses. *)
  Definition let_statement (ts : list ptok) : res stmt :=
    do _, r1 <- word "let" ts;
    must (do x, r2 <- binding_name r1;
          do _, r3 <- no_shape_suffix r2;
          do _, r4 <- punct "=" r3;
          do e, r5 <- pe r4;
          do _, r6 <- punct ";" r5;
          Ok (SLet x e) r6).

  Definition assert_statement (ts : list ptok) : res stmt :=
    do _, r1 <- word "assert" ts;
    do e, r2 <- must (pe r1);
    do _, r3 <- must (punct ";" r2);
    Ok (SAssert e) r3.

  (* constraint_statement -- NOT MODELLED *)
  Definition constraint_statement (ts : list ptok) : res stmt :=
    do _, r1 <- word "constraint" ts; Unsup.

  Definition out_statement (ts : list ptok) : res stmt :=
    do _, r1 <- word "out" ts;
    do t, r2 <- must (match_type BAREWORD r1);
    do e, r3 <- must (pe r2);
    do _, r4 <- must (punct ";" r3);
    Ok (SOut t e) r4.

  Definition statement (ts : list ptok) : res stmt :=
    assert_statement ts <|> constraint_statement ts <|> let_statement ts <|> out_statement ts
    <|> expression_statement ts.
End Stmt.

(* the recursion over the nesting depth *)
Fixpoint p_expr (fuel : nat) (ts : list ptok) : res expr :=
  match fuel with
  | O => NoFuel
  | S f => expression (p_expr f) (p_stmt f) ts
  end
with p_stmt (fuel : nat) (ts : list ptok) : res stmt :=
  match fuel with
  | O => NoFuel
  | S f => statement (p_expr f) ts
  end.

(* ------------------------------------------------------------------ *)
(** * parse: the statement loop                                        *)
(* ------------------------------------------------------------------ *)
Inductive outcome :=
| Parsed (p : prog)
| Rejected          (* Err(BuildError): tokenizer error, Fail or Abort of a statement *)
| Unsupported       (* constraint syntax: outside the model *)
| ParseNoFuel.

Definition is_end (t : ptok) : bool := ty_eqb (fst t) END.

(* loop { if peek is END { break }  match statement(i) { Complete => push, continue; _ => Err } }
   (the `eoi` test of the loop never fires: the END token is never consumed).
   An EMPTY token slice cannot come from the tokenizer (the real code would panic in `pos`); it is Rejected. *)
Fixpoint parse_loop (fuel n : nat) (ts : list ptok) : outcome :=
  match n with
  | O => ParseNoFuel
  | S n' =>
    match ts with
    | [] => Rejected
    | t :: _ =>
      if is_end t then Parsed []
      else match p_stmt fuel ts with
           | Ok s rest =>
             match parse_loop fuel n' rest with
             | Parsed p => Parsed (s :: p)
             | o => o
             end
           | Fail | Abort => Rejected
           | Unsup => Unsupported
           | NoFuel => ParseNoFuel
           end
    end
  end.

Definition parse_fuel_of (ts : list ptok) : nat := S (S (List.length ts)).
(* ENTRY POINT on token lists *)
Definition parse (ts : list ptok) : outcome := parse_loop (parse_fuel_of ts) (S (List.length ts)) ts.

Definition strip_tok (t : token) : ptok := (typ t, frag t).
(* ENTRY POINT on source text: ucglib::parse::parse(OffsetStrIter::new(src), None) *)
Definition parse_src (src : bytes) : outcome :=
  match lex src with
  | Some l => parse (map strip_tok l)
  | None => Rejected
  end.

(* expression-level entry points *)
Definition parse_expr (ts : list ptok) : res expr := p_expr (S (List.length ts)) ts.
