(* lex_of_print for the WHOLE language: the text the printer model writes (print/Print.v) lexes to the token
   list of Parse_Toks.ptoks, extending Print_Lemmas.pp_toks from the fragment frag_ok to every construct.
   With Parse_Lemmas.parse_tokens_of_prog this makes the text-level round trip unconditional
   (fmt_preserves_ast_all, fmt_fixed_point_all at the end). *)
From Ucg Require Import base.Bytes base.Bytes_Lemmas prec.Climb sem.Ast lex.Lex_Types lex.Lex lex.Lex_Lemmas
  print.Print print.Print_Lemmas parse.Parse parse.Parse_Toks parse.Parse_Lemmas.
From UcgGen Require Import PrecTable.
Local Open Scope string_scope.
Local Open Scope list_scope.

(* ================================================================== *)
(** * 1. the executable side condition on names and floats             *)
(* ================================================================== *)
(* every symbol, parameter, converter / include type and bound name is a well-formed BAREWORD
   (Print_Lemmas.sym_ok), every float is one the parser can produce (Print.parser_float) *)
Fixpoint lex_ok (e : expr) {struct e} : bool :=
  let ff (fs : list (bytes * expr)) := forallb (fun kv => lex_ok (snd kv)) fs in
  match e with
  | ENull | EBool _ | EInt _ | EStr _ | EImport _ => true
  | EFloat bits => parser_float bits
  | ESym x => sym_ok x
  | EInclude t _ => sym_ok t
  | ETuple fs => ff fs
  | EList es => forallb lex_ok es
  | EBin _ l r => (lex_ok l && lex_ok r)%bool
  | ENot e1 | EGroup e1 | EFail e1 | ETrace e1 | ECast _ e1 => lex_ok e1
  | EConvert t e1 => (sym_ok t && lex_ok e1)%bool
  | EFunc ps e1 => (forallb sym_ok ps && lex_ok e1)%bool
  | ECopy t fs => (lex_ok t && ff fs)%bool
  | ERange s st en => (lex_ok s && match st with Some x => lex_ok x | None => true end && lex_ok en)%bool
  | EFormatL _ args => forallb lex_ok args
  | EFormatS _ a => lex_ok a
  | ECall f args => (lex_ok f && forallb lex_ok args)%bool
  | ESelect v d arms => (lex_ok v && match d with Some x => lex_ok x | None => true end && ff arms)%bool
  | EMap f t | EFilter f t => (lex_ok f && lex_ok t)%bool
  | EReduce f a t => (lex_ok f && lex_ok a && lex_ok t)%bool
  | EModule ps out body =>
      (ff ps && match out with Some x => lex_ok x | None => true end && forallb lex_ok_stmt body)%bool
  end
with lex_ok_stmt (s : stmt) {struct s} : bool :=
  match s with
  | SLet x e | SOut x e => (sym_ok x && lex_ok e)%bool
  | SExpr e | SAssert e => lex_ok e
  end.
Definition lex_ok_prog (p : prog) : bool := forallb lex_ok_stmt p.

(* ================================================================== *)
(** * 2. what may follow an expression: the delimiters and ':'          *)
(* ================================================================== *)
Definition colon : ascii := ":"%char.
Definition is_delim2 (c : ascii) : bool := (is_delim c || Ascii.eqb c colon)%bool.
Definition dfollow (y : bytes) : bool := match y with [] => true | c :: _ => is_delim2 c end.
Definition ispec (t : bytes) (ts : list ptok) : Prop :=
  forall y, dfollow y = true -> strip_lex (t ++ y) = option_map (app ts) (strip_lex y).

Lemma delim_dfollow y : delim_follow y = true -> dfollow y = true.
Proof. destruct y as [|c y]; [reflexivity|]. cbn [delim_follow dfollow]. unfold is_delim2. now intros ->. Qed.

Lemma ispec_item t ts : ispec t ts -> item_spec t ts.
Proof. intros H y Hy. apply H. now apply delim_dfollow. Qed.

Lemma delim2_facts c : is_delim2 c = true ->
  is_symbol_char c = false /\ is_digit c = false /\
  needs_sep_byte (PUNCT, b "]") c = false /\ needs_sep_byte (PUNCT, b "}") c = false /\
  needs_sep_byte (PUNCT, b ")") c = false.
Proof.
  pose proof (forall_bytes (fun c => implb (is_delim2 c)
    (negb (is_symbol_char c) && negb (is_digit c) && negb (needs_sep_byte (PUNCT, b "]") c)
     && negb (needs_sep_byte (PUNCT, b "}") c) && negb (needs_sep_byte (PUNCT, b ")") c))) eq_refl c) as H.
  cbn beta in H. intros Hc. rewrite Hc in H. cbn [implb] in H.
  repeat (apply andb_true_iff in H as [H ?]).
  repeat match goal with X : negb _ = true |- _ => apply negb_true_iff in X end. auto.
Qed.

Lemma end_tok_follow2 (a : tk) y : end_tok a = true -> dfollow y = true -> follow_ok a y = true.
Proof.
  intros Ha Hy. destruct y as [|c y]; [reflexivity|]. cbn [dfollow follow_ok] in *.
  destruct (delim2_facts c Hy) as (F1 & F2 & F3 & F4 & F5).
  destruct a as [ty f]. unfold end_tok in Ha. cbn [fst snd] in Ha.
  destruct ty; try discriminate; unfold needs_sep_byte; cbn [fst snd]; try reflexivity.
  - now rewrite F2.
  - now rewrite F1.
  - cbn [existsb] in Ha. repeat (apply orb_true_iff in Ha as [Ha|Ha]); try discriminate;
      apply bytes_eqb_spec in Ha; subst f.
    + unfold needs_sep_byte in F3. cbn [fst snd] in F3. now rewrite F3.
    + unfold needs_sep_byte in F4. cbn [fst snd] in F4. now rewrite F4.
    + unfold needs_sep_byte in F5. cbn [fst snd] in F5. now rewrite F5.
Qed.

(* ---- single steps, all of the form  strip_lex (text ++ y) = option_map (cons token) (strip_lex y) ---- *)
Lemma lex_sp y : strip_lex (sp :: y) = strip_lex y.
Proof. change (sp :: y) with ([sp] ++ y). now rewrite strip_lex_ws_any. Qed.
Lemma lex_nl y : strip_lex (nl :: y) = strip_lex y.
Proof. change (nl :: y) with ([nl] ++ y). now rewrite strip_lex_ws_any. Qed.
Lemma lex_spaces n y : strip_lex (spaces n ++ y) = strip_lex y.
Proof. apply strip_lex_ws_any, spaces_ws. Qed.

(* a keyword and the blank the printer writes after it *)
Lemma lex_kw k y : In k printer_keywords ->
  strip_lex (b k ++ sp :: y) = option_map (cons (BAREWORD, b k)) (strip_lex y).
Proof. intros Hk. rewrite (keyword_then_blank k y Hk). now rewrite lex_sp. Qed.

(* a well-formed token followed by a blank *)
Lemma lex_tok_sp (a : tk) y : wf_tk a = true ->
  strip_lex (src_of a ++ sp :: y) = option_map (cons a) (strip_lex y).
Proof.
  intros Hwf. rewrite tok_then; [now rewrite lex_sp|exact Hwf|].
  cbn [follow_ok]. rewrite (blank_follows_any a sp Hwf); [reflexivity|cbn; auto].
Qed.

(* a bareword followed by a byte that is not a symbol character *)
Lemma lex_word x c y : wf_tk (BAREWORD, x) = true -> is_symbol_char c = false ->
  strip_lex (x ++ c :: y) = option_map (cons (BAREWORD, x)) (strip_lex (c :: y)).
Proof.
  intros Hwf Hc. change x with (src_of (BAREWORD, x)) at 1. apply tok_then; [exact Hwf|].
  cbn [follow_ok]. unfold needs_sep_byte. cbn [fst]. now rewrite Hc.
Qed.

(* opening brackets may be followed by anything *)
Lemma lex_open (o : bytes) y : In o [b "("; b "["; b "{"] ->
  strip_lex (o ++ y) = option_map (cons (PUNCT, o)) (strip_lex y).
Proof.
  intros Ho. change o with (src_of (PUNCT, o)) at 1. apply tok_then.
  - cbn in Ho. destruct Ho as [<-|[<-|[<-|[]]]]; reflexivity.
  - destruct y as [|ch y]; [reflexivity|]. cbn [follow_ok].
    destruct (open_follows_any ch) as (H1 & H2 & H3).
    cbn in Ho. destruct Ho as [<-|[<-|[<-|[]]]]; now rewrite ?H1, ?H2, ?H3.
Qed.

(* closing brackets before a delimiter *)
Lemma lex_close (c : bytes) y : In c [b ")"; b "]"; b "}"] -> dfollow y = true ->
  strip_lex (c ++ y) = option_map (cons (PUNCT, c)) (strip_lex y).
Proof.
  intros Hc Hy. change c with (src_of (PUNCT, c)) at 1. apply tok_then.
  - cbn in Hc. destruct Hc as [<-|[<-|[<-|[]]]]; reflexivity.
  - apply end_tok_follow2; [|exact Hy]. cbn in Hc. destruct Hc as [<-|[<-|[<-|[]]]]; reflexivity.
Qed.

Lemma lex_comma_sp y : strip_lex (b ", " ++ y) = option_map (cons (PUNCT, b ",")) (strip_lex y).
Proof. change (b ", " ++ y) with (src_of (PUNCT, b ",") ++ sp :: y). now apply lex_tok_sp. Qed.
Lemma lex_comma_nl y : strip_lex (b "," ++ [nl] ++ y) = option_map (cons (PUNCT, b ",")) (strip_lex y).
Proof.
  change (b "," ++ [nl] ++ y) with (src_of (PUNCT, b ",") ++ nl :: y).
  rewrite tok_then by reflexivity. now rewrite lex_nl.
Qed.

(* bytes an expression can start with: after '.', ':' and the opening brackets no separator is needed *)
Lemma starter_colon c : is_starter c = true -> needs_sep_byte (PUNCT, b ":") c = false.
Proof.
  pose proof (forall_bytes (fun c => implb (is_starter c) (negb (needs_sep_byte (PUNCT, b ":") c))) eq_refl c) as H.
  cbn beta in H. intros Hc. rewrite Hc in H. now apply negb_true_iff in H.
Qed.
Lemma starter_alpha c : is_alpha c = true -> is_starter c = true.
Proof. intros H. unfold is_starter. now rewrite H. Qed.

Ltac norm_app := repeat (progress (rewrite <- ?app_assoc; cbn [app])).
Ltac fin_lists := repeat (progress (cbn [app]; rewrite <- ?app_assoc)); reflexivity.
Ltac fin y := destruct (strip_lex y); cbn [option_map]; [f_equal; fin_lists|reflexivity].

Lemma option_map_app_cons {A} (a : A) l o : option_map (app l) (option_map (cons a) o) = option_map (app (l ++ [a])) o.
Proof. destruct o; cbn; [now rewrite <- app_assoc|reflexivity]. Qed.

(* ================================================================== *)
(** * 3. the printer, construct by construct                           *)
(* ================================================================== *)
Section LexPrint.
  Variable ind : nat.

  Definition pp_field (cur : nat) (kv : bytes * expr) : bytes :=
    Print.field_name (fst kv) ++ b " = " ++ pp_expr ind (cur + ind) (snd kv).
  Definition pp_fields (cur : nat) (fs : list (bytes * expr)) : bytes :=
    b "{" ++ block ind cur (map (pp_field cur) fs) ++ b "}".
  Definition pp_tpl (parts : list tpart) : bytes := quoted (unparse_template ind parts).

  Lemma pp_tpart_cur cur p : pp_tpart ind cur p = pp_tpart ind 0 p.
  Proof. destruct p; reflexivity. Qed.
  Lemma pp_parts_cur cur parts : flat_map (pp_tpart ind cur) parts = unparse_template ind parts.
  Proof. unfold unparse_template. induction parts as [|p parts IH]; [reflexivity|]. cbn [flat_map]. now rewrite IH, pp_tpart_cur. Qed.

  (* unfolding equations of pp_expr (each by computation) *)
  Lemma pp_tuple cur fs : pp_expr ind cur (ETuple fs) = pp_fields cur fs.
  Proof. reflexivity. Qed.
  Lemma pp_list cur es : pp_expr ind cur (EList es) = b "[" ++ block ind cur (map (pp_expr ind (cur + ind)) es) ++ b "]".
  Proof. reflexivity. Qed.
  Lemma pp_bin cur o l r : pp_expr ind cur (EBin o l r) = pp_expr ind cur l ++ op_text o ++ pp_expr ind cur r.
  Proof. reflexivity. Qed.
  Lemma pp_not cur e : pp_expr ind cur (ENot e) = b "not" ++ sp :: pp_expr ind cur e.
  Proof. reflexivity. Qed.
  Lemma pp_fail cur e : pp_expr ind cur (EFail e) = b "fail" ++ sp :: pp_expr ind cur e.
  Proof. reflexivity. Qed.
  Lemma pp_trace cur e : pp_expr ind cur (ETrace e) = b "TRACE" ++ sp :: pp_expr ind cur e.
  Proof. reflexivity. Qed.
  Lemma pp_group cur e : pp_expr ind cur (EGroup e) = b "(" ++ pp_expr ind cur e ++ b ")".
  Proof. reflexivity. Qed.
  Lemma pp_copy cur t fs : pp_expr ind cur (ECopy t fs) = pp_expr ind cur t ++ pp_fields cur fs.
  Proof. reflexivity. Qed.
  Lemma pp_range cur s st en : pp_expr ind cur (ERange s st en) =
    pp_expr ind cur s ++ b ":" ++ match st with Some x => pp_expr ind cur x ++ b ":" | None => [] end ++ pp_expr ind cur en.
  Proof. reflexivity. Qed.
  Lemma pp_formatl cur parts args : pp_expr ind cur (EFormatL parts args) =
    quoted (flat_map (pp_tpart ind cur) parts) ++ b " % " ++ b "(" ++ [nl] ++
    join_with (b "," ++ [nl]) (map (fun a => spaces (cur + ind) ++ pp_expr ind (cur + ind) a) args) ++ b ")".
  Proof. reflexivity. Qed.
  Lemma pp_formats cur parts a : pp_expr ind cur (EFormatS parts a) =
    quoted (flat_map (pp_tpart ind cur) parts) ++ b " % " ++ pp_expr ind cur a.
  Proof. reflexivity. Qed.
  Lemma pp_call cur f args : pp_expr ind cur (ECall f args) =
    pp_expr ind cur f ++ b "(" ++
    match args with
    | _ :: _ :: _ => block ind cur (map (pp_expr ind (cur + ind)) args)
    | _ => flat_map (pp_expr ind (cur + ind)) args
    end ++ b ")".
  Proof. reflexivity. Qed.
  Lemma pp_cast cur c e : pp_expr ind cur (ECast c e) = cast_text c ++ b "(" ++ pp_expr ind cur e ++ b ")".
  Proof. reflexivity. Qed.
  Lemma pp_func cur ps body : pp_expr ind cur (EFunc ps body) =
    b "func" ++ sp :: b "(" ++ join_with (b ", ") ps ++ b ")" ++ sp :: b "=>" ++ sp :: pp_expr ind cur body.
  Proof. reflexivity. Qed.
  Lemma pp_select cur v d arms : pp_expr ind cur (ESelect v d arms) =
    b "select" ++ sp :: b "(" ++ pp_expr ind cur v ++
    match d with Some x => b ", " ++ pp_expr ind cur x | None => [] end ++ b ")" ++ sp :: b "=>" ++ sp :: pp_fields cur arms.
  Proof. reflexivity. Qed.
  Lemma pp_map cur f t : pp_expr ind cur (EMap f t) = b "map" ++ b "(" ++ pp_expr ind cur f ++ b ", " ++ pp_expr ind cur t ++ b ")".
  Proof. reflexivity. Qed.
  Lemma pp_filter cur f t : pp_expr ind cur (EFilter f t) = b "filter" ++ b "(" ++ pp_expr ind cur f ++ b ", " ++ pp_expr ind cur t ++ b ")".
  Proof. reflexivity. Qed.
  Lemma pp_reduce cur f a t : pp_expr ind cur (EReduce f a t) =
    b "reduce" ++ b "(" ++ pp_expr ind cur f ++ b ", " ++ pp_expr ind cur a ++ b ", " ++ pp_expr ind cur t ++ b ")".
  Proof. reflexivity. Qed.
  Definition pp_body (cur : nat) (body : list stmt) : bytes :=
    match body with
    | [] => []
    | s :: rest =>
        spaces (cur + ind) ++ pp_stmt ind (cur + ind) s ++
        flat_map (fun s' => spaces (cur + ind) ++ [nl] ++ pp_stmt ind (cur + ind) s') rest
    end.
  Lemma pp_module cur ps out body : pp_expr ind cur (EModule ps out body) =
    b "module" ++ sp :: pp_fields cur ps ++ sp :: b "=>" ++ sp ::
    match out with Some x => b "(" ++ pp_expr ind cur x ++ b ")" ++ [sp] | None => [] end ++
    b "{" ++ [nl] ++ pp_body cur body ++ b "}".
  Proof. reflexivity. Qed.
  Lemma pp_import cur p : pp_expr ind cur (EImport p) = b "import" ++ sp :: quoted p.
  Proof. reflexivity. Qed.
  Lemma pp_include cur t p : pp_expr ind cur (EInclude t p) = b "include" ++ sp :: t ++ sp :: quoted p.
  Proof. reflexivity. Qed.
  Lemma pp_convert cur t e : pp_expr ind cur (EConvert t e) = b "convert" ++ sp :: t ++ sp :: pp_expr ind cur e.
  Proof. reflexivity. Qed.
  Lemma pp_stmt_eq cur s : pp_stmt ind cur s =
    match s with
    | SLet x e => b "let" ++ sp :: x ++ sp :: b "=" ++ sp :: pp_expr ind cur e
    | SExpr e => pp_expr ind cur e
    | SAssert e => b "assert" ++ sp :: pp_expr ind cur e
    | SOut t e => b "out" ++ sp :: t ++ sp :: pp_expr ind cur e
    end ++ b ";" ++ [nl].
  Proof. destruct s; reflexivity. Qed.

  (* ---- first byte of the text of an expression ---- *)
  Lemma sym_starts x : sym_ok x = true -> exists c r, x = c :: r /\ is_starter c = true.
  Proof.
    unfold sym_ok, wf_tk. cbn [fst snd]. intros H. apply andb_true_iff in H as [Hw _].
    destruct x as [|c r]; [discriminate|]. exists c, r. split; [reflexivity|].
    cbn in Hw. apply andb_true_iff in Hw as [Hc _]. now apply starter_alpha.
  Qed.

  Lemma float_shape bits : parser_float bits = true ->
    exists d1 d2, digit_string d1 /\ digit_string d2 /\ float_text bits = d1 ++ dot :: d2 /\
                  split_dot (float_text bits) = (d1, d2).
  Proof.
    intros H. destruct (finite_float_literal_ok bits H) as (d1 & d2 & H1 & H2 & E & _).
    exists d1, d2. split; [exact H1|]. split; [exact H2|]. split; [exact E|]. rewrite E. destruct H1 as [_ D1]. clear - D1.
    induction d1 as [|c d1 IH]; cbn [app split_dot].
    - now rewrite Ascii.eqb_refl.
    - cbn [forallb] in D1. apply andb_true_iff in D1 as [Hc D1].
      destruct (Ascii.eqb c dot) eqn:E; [apply Ascii.eqb_eq in E; subst c; discriminate Hc|].
      now rewrite (IH D1).
  Qed.

  Lemma digit_starter c : is_digit c = true -> is_starter c = true.
  Proof. intros H. unfold is_starter. rewrite H. now rewrite orb_true_r. Qed.

  Lemma pp_starts2 e : lex_ok e = true -> pp_ok ind e = true -> forall cur,
    exists c r, pp_expr ind cur e = c :: r /\ is_starter c = true.
  Proof.
    induction e; intros Hl Hok cur; try (eexists _, _; split; reflexivity).
    - destruct v; eexists _, _; split; reflexivity.
    - cbn [pp_ok] in Hok. unfold int_rt in Hok. apply andb_true_iff in Hok as [Hz _]. apply Z.leb_le in Hz.
      destruct (dec_of_Z_digits z Hz) as [Hn Hd]. change (pp_expr ind cur (EInt z)) with (dec_of_Z z).
      destruct (dec_of_Z z) as [|c r]; [congruence|]. exists c, r. split; [reflexivity|].
      cbn [forallb] in Hd. apply andb_true_iff in Hd as [Hc _]. now apply digit_starter.
    - cbn [lex_ok] in Hl. destruct (float_shape bits Hl) as (d1 & d2 & [N1 D1] & _ & E & _).
      change (pp_expr ind cur (EFloat bits)) with (float_text bits). rewrite E.
      destruct d1 as [|c r]; [congruence|]. exists c, (r ++ dot :: d2). split; [reflexivity|].
      cbn [forallb] in D1. apply andb_true_iff in D1 as [Hc _]. now apply digit_starter.
    - cbn [lex_ok] in Hl. destruct (sym_starts x Hl) as (c & r & -> & Hc). now exists c, r.
    - rewrite pp_bin. cbn [lex_ok pp_ok] in *. apply andb_true_iff in Hl as [Hl1 _].
      apply andb_true_iff in Hok as [Hok _]. apply andb_true_iff in Hok as [Hok _]. apply andb_true_iff in Hok as [Hok1 _].
      destruct (IHe1 Hl1 Hok1 cur) as (c & r & -> & Hc). eexists _, _; split; [reflexivity|exact Hc].
    - rewrite pp_copy. cbn [lex_ok pp_ok] in *. apply andb_true_iff in Hl as [Hl1 _].
      apply andb_true_iff in Hok as [Hok1 _]. destruct e; try discriminate Hok1.
      cbn [lex_ok] in Hl1. destruct (sym_starts x Hl1) as (c & r & -> & Hc). eexists _, _; split; [reflexivity|exact Hc].
    - rewrite pp_range. cbn [lex_ok pp_ok] in *. apply andb_true_iff in Hl as [Hl _]. apply andb_true_iff in Hl as [Hl1 _].
      apply andb_true_iff in Hok as [Hok _]. apply andb_true_iff in Hok as [Hok _].
      apply andb_true_iff in Hok as [Hok _]. apply andb_true_iff in Hok as [_ Hok].
      destruct (IHe1 Hl1 Hok cur) as (c & r & -> & Hc). eexists _, _; split; [reflexivity|exact Hc].
    - rewrite pp_call. cbn [lex_ok pp_ok] in *. apply andb_true_iff in Hl as [Hl1 _].
      apply andb_true_iff in Hok as [Hok1 _]. destruct e; try discriminate Hok1.
      cbn [lex_ok] in Hl1. destruct (sym_starts x Hl1) as (c0 & r & -> & Hc). eexists _, _; split; [reflexivity|exact Hc].
    - destruct c; eexists _, _; split; reflexivity.
  Qed.

  (* ---- brackets with a block of items (lists, tuples, multi-argument calls) ---- *)
  Lemma lex_bracket2 {A} (o c : bytes) cur (f : A -> bytes) (g : A -> list tk) (l : list A) y :
    In o [b "("; b "["; b "{"] -> In c [b ")"; b "]"; b "}"] -> dfollow y = true ->
    Forall (fun a => item_spec (f a) (g a)) l ->
    strip_lex (o ++ block ind cur (map f l) ++ c ++ y)
    = option_map (app ((PUNCT, o) :: flat_map (fun a => g a ++ [(PUNCT, b ",")]) l ++ [(PUNCT, c)])) (strip_lex y).
  Proof.
    intros Ho Hc Hy HF. rewrite lex_open by exact Ho. unfold block. destruct (map f l) as [|i0 items] eqn:El.
    - destruct l; [|discriminate]. cbn [app flat_map]. rewrite lex_close by assumption.
      destruct (strip_lex y); reflexivity.
    - rewrite <- El. rewrite <- !app_assoc. cbn [app]. rewrite lex_nl.
      rewrite (lex_block (cur + ind) f g l _ HF). rewrite lex_spaces. rewrite lex_close by assumption.
      destruct (strip_lex y); cbn [option_map]; [|reflexivity]. f_equal. cbn [app]. now rewrite <- app_assoc.
  Qed.

  Lemma Forall_in {A} (Q : A -> Prop) l : (forall x, In x l -> Q x) -> Forall Q l.
  Proof. intros H. apply Forall_forall. exact H. Qed.

  (* one `name = value` field *)
  Lemma field_item cur kv :
    (forall cur', ispec (pp_expr ind cur' (snd kv)) (etoks ind (snd kv))) ->
    item_spec (pp_field cur kv) (ftoks ind kv).
  Proof.
    intros IH y Hy. unfold pp_field, ftoks. rewrite <- !app_assoc.
    change (b " = " ++ pp_expr ind (cur + ind) (snd kv) ++ y)
      with (sp :: src_of (PUNCT, b "=") ++ sp :: pp_expr ind (cur + ind) (snd kv) ++ y).
    rewrite field_name_roundtrip, lex_spaced_op by reflexivity.
    rewrite (IH (cur + ind) y (delim_dfollow y Hy)).
    destruct (strip_lex y); reflexivity.
  Qed.

  Lemma fields_spec cur (fs : list (bytes * expr)) :
    (forall kv, In kv fs -> forall cur', ispec (pp_expr ind cur' (snd kv)) (etoks ind (snd kv))) ->
    ispec (pp_fields cur fs) (P "{" :: commas1 (ftoks ind) fs ++ [P "}"]).
  Proof.
    intros IH y Hy. unfold pp_fields. rewrite <- !app_assoc.
    rewrite (lex_bracket2 (b "{") (b "}") cur (pp_field cur) (ftoks ind) fs y); [reflexivity|cbn; auto|cbn; auto|exact Hy|].
    apply Forall_in. intros kv Hkv. apply field_item. now apply IH.
  Qed.

  (* ---- literals ---- *)
  Lemma lex_null cur : ispec (pp_expr ind cur ENull) (etoks ind ENull).
  Proof.
    intros y Hy. change (pp_expr ind cur ENull) with (src_of (EMPTY, b "NULL")).
    rewrite tok_then; [destruct (strip_lex y); reflexivity|reflexivity|now apply end_tok_follow2].
  Qed.
  Lemma lex_bool cur v : ispec (pp_expr ind cur (EBool v)) (etoks ind (EBool v)).
  Proof.
    intros y Hy. destruct v.
    - change (pp_expr ind cur (EBool true)) with (src_of (BOOLEAN, b "true")).
      rewrite tok_then; [destruct (strip_lex y); reflexivity|reflexivity|now apply end_tok_follow2].
    - change (pp_expr ind cur (EBool false)) with (src_of (BOOLEAN, b "false")).
      rewrite tok_then; [destruct (strip_lex y); reflexivity|reflexivity|now apply end_tok_follow2].
  Qed.
  Lemma lex_int cur z : int_rt z = true -> ispec (pp_expr ind cur (EInt z)) (etoks ind (EInt z)).
  Proof.
    intros Hz y Hy. unfold int_rt in Hz. apply andb_true_iff in Hz as [Hz _]. apply Z.leb_le in Hz.
    destruct (dec_of_Z_digits z Hz) as [Hn Hd].
    change (pp_expr ind cur (EInt z)) with (src_of (DIGIT, dec_of_Z z)).
    rewrite tok_then; [destruct (strip_lex y); reflexivity|now apply digits_wf|now apply end_tok_follow2].
  Qed.
  Lemma lex_float cur bits : parser_float bits = true -> ispec (pp_expr ind cur (EFloat bits)) (etoks ind (EFloat bits)).
  Proof.
    intros Hb y Hy. destruct (float_shape bits Hb) as (d1 & d2 & [N1 D1] & [N2 D2] & E & Es).
    change (pp_expr ind cur (EFloat bits)) with (float_text bits). cbn [etoks]. unfold float_toks. rewrite Es, E.
    rewrite <- app_assoc. cbn [app]. rewrite digits_dot_digits_ok; try assumption.
    - destruct (strip_lex y); reflexivity.
    - apply end_tok_follow2; [reflexivity|exact Hy].
  Qed.
  Lemma lex_str cur s : ispec (pp_expr ind cur (EStr s)) (etoks ind (EStr s)).
  Proof.
    intros y Hy. change (pp_expr ind cur (EStr s)) with (quoted s). rewrite strip_lex_quoted.
    destruct (strip_lex y); reflexivity.
  Qed.
  Lemma lex_sym cur x : sym_ok x = true -> ispec (pp_expr ind cur (ESym x)) (etoks ind (ESym x)).
  Proof.
    intros Hx y Hy. change (pp_expr ind cur (ESym x)) with (src_of (BAREWORD, x)).
    rewrite tok_then; [destruct (strip_lex y); reflexivity|exact Hx|now apply end_tok_follow2].
  Qed.

  (* ---- compound constructs, from the specifications of their parts ---- *)
  Notation SP e := (forall cur', ispec (pp_expr ind cur' e) (etoks ind e)).

  Lemma lex_tuple cur fs : (forall kv, In kv fs -> SP (snd kv)) -> ispec (pp_expr ind cur (ETuple fs)) (etoks ind (ETuple fs)).
  Proof. intros IH. rewrite pp_tuple. cbn [etoks]. rewrite fields_commas1. now apply fields_spec. Qed.

  Lemma lex_list cur es : (forall x, In x es -> SP x) -> ispec (pp_expr ind cur (EList es)) (etoks ind (EList es)).
  Proof.
    intros IH y Hy. rewrite pp_list. rewrite <- !app_assoc.
    rewrite (lex_bracket2 (b "[") (b "]") cur (pp_expr ind (cur + ind)) (etoks ind) es y); [reflexivity|cbn; auto|cbn; auto|exact Hy|].
    apply Forall_in. intros x Hx. apply ispec_item. now apply IH.
  Qed.

  Lemma lex_kw_prefix k (pp_e : bytes) (ts : list ptok) :
    In k printer_keywords -> ispec pp_e ts -> ispec (b k ++ sp :: pp_e) ((BAREWORD, b k) :: ts).
  Proof.
    intros Hk IH y Hy. rewrite <- app_assoc. cbn [app]. rewrite lex_kw by exact Hk. rewrite (IH y Hy).
    destruct (strip_lex y); reflexivity.
  Qed.

  Lemma lex_not cur e : SP e -> ispec (pp_expr ind cur (ENot e)) (etoks ind (ENot e)).
  Proof. intros IH. rewrite pp_not. apply (lex_kw_prefix "not"); [cbn; auto 20|apply IH]. Qed.
  Lemma lex_fail cur e : SP e -> ispec (pp_expr ind cur (EFail e)) (etoks ind (EFail e)).
  Proof. intros IH. rewrite pp_fail. apply (lex_kw_prefix "fail"); [cbn; auto 20|apply IH]. Qed.
  Lemma lex_trace cur e : SP e -> ispec (pp_expr ind cur (ETrace e)) (etoks ind (ETrace e)).
  Proof. intros IH. rewrite pp_trace. apply (lex_kw_prefix "TRACE"); [cbn; auto 20|apply IH]. Qed.

  Lemma lex_group cur e : SP e -> ispec (pp_expr ind cur (EGroup e)) (etoks ind (EGroup e)).
  Proof.
    intros IH y Hy. rewrite pp_group. rewrite <- !app_assoc. rewrite lex_open by (cbn; auto).
    rewrite (IH cur) by reflexivity. rewrite lex_close by (cbn; auto).
    destruct (strip_lex y); cbn [option_map]; [|reflexivity]. f_equal. cbn [etoks app]. now rewrite <- app_assoc.
  Qed.

  Notation ST e cur := (exists c r, pp_expr ind cur e = c :: r /\ is_starter c = true).

  Lemma lex_bin cur o l r : SP l -> SP r -> ST r cur -> ispec (pp_expr ind cur (EBin o l r)) (etoks ind (EBin o l r)).
  Proof.
    intros IHl IHr (c & r' & E & Hc) y Hy. rewrite pp_bin. cbn [etoks]. rewrite <- !app_assoc.
    assert (D : o = DOT \/ o <> DOT) by (destruct o; auto; right; discriminate).
    destruct D as [->|Hno].
    - rewrite (IHl cur) by reflexivity.
      change (op_text DOT ++ pp_expr ind cur r ++ y) with (src_of (PUNCT, b ".") ++ pp_expr ind cur r ++ y).
      rewrite tok_then; [|reflexivity|].
      + rewrite (IHr cur y Hy). destruct (strip_lex y); cbn [option_map]; [|reflexivity]. f_equal.
        now rewrite <- app_assoc.
      + rewrite E. cbn [app follow_ok]. now rewrite (starter_facts c Hc).
    - rewrite (op_text_spaced o Hno). rewrite (IHl cur) by reflexivity.
      cbn [app]. rewrite <- app_assoc. cbn [app].
      rewrite (lex_spaced_op _ _ (op_tok_wf o)). rewrite (IHr cur y Hy).
      destruct (strip_lex y); cbn [option_map]; [|reflexivity]. f_equal. now rewrite <- app_assoc.
  Qed.

  Lemma brace_not_symbol : is_symbol_char "{"%char = false /\ is_symbol_char "("%char = false.
  Proof. split; reflexivity. Qed.

  Lemma ispec_word_prefix x (t : bytes) (ts : list ptok) c t' :
    wf_tk (BAREWORD, x) = true -> t = c :: t' -> is_symbol_char c = false -> ispec t ts ->
    ispec (x ++ t) ((BAREWORD, x) :: ts).
  Proof.
    intros Hx -> Hc IH y Hy. rewrite <- app_assoc. cbn [app]. rewrite lex_word by assumption.
    change (c :: t' ++ y) with ((c :: t') ++ y). rewrite (IH y Hy). destruct (strip_lex y); reflexivity.
  Qed.

  Lemma lex_copy cur x fs : sym_ok x = true -> (forall kv, In kv fs -> SP (snd kv)) ->
    ispec (pp_expr ind cur (ECopy (ESym x) fs)) (etoks ind (ECopy (ESym x) fs)).
  Proof.
    intros Hx IH. rewrite pp_copy. cbn [etoks]. rewrite fields_commas1.
    change (pp_expr ind cur (ESym x)) with x.
    apply (ispec_word_prefix x _ _ "{"%char (block ind cur (map (pp_field cur) fs) ++ b "}")); [exact Hx|reflexivity|reflexivity|].
    now apply fields_spec.
  Qed.

  Lemma lex_colon (t : bytes) y : (exists c r, t = c :: r /\ is_starter c = true) ->
    strip_lex (b ":" ++ t ++ y) = option_map (cons (PUNCT, b ":")) (strip_lex (t ++ y)).
  Proof.
    intros (c & r & -> & Hc). change (b ":" ++ (c :: r) ++ y) with (src_of (PUNCT, b ":") ++ (c :: r) ++ y).
    apply tok_then; [reflexivity|]. cbn [app follow_ok]. now rewrite (starter_colon c Hc).
  Qed.

  Lemma lex_range cur s st en : SP s -> SP en -> ST en cur ->
    match st with Some x => SP x /\ ST x cur | None => True end ->
    ispec (pp_expr ind cur (ERange s st en)) (etoks ind (ERange s st en)).
  Proof.
    intros IHs IHe Se Hst y Hy. rewrite pp_range. cbn [etoks]. rewrite <- !app_assoc.
    rewrite (IHs cur) by reflexivity. destruct st as [x|].
    - destruct Hst as [IHx Sx]. rewrite <- !app_assoc. rewrite (lex_colon _ _ Sx).
      rewrite (IHx cur) by reflexivity. rewrite (lex_colon _ _ Se). rewrite (IHe cur y Hy).
      fin y.
    - cbn [app]. rewrite (lex_colon _ _ Se). rewrite (IHe cur y Hy). fin y.
  Qed.

  (* the template literal and the ` % ` after it *)
  Lemma lex_tpl_pct cur parts y :
    strip_lex (quoted (flat_map (pp_tpart ind cur) parts) ++ b " % " ++ y) =
    option_map (fun r => (QUOTED, unparse_template ind parts) :: P "%" :: r) (strip_lex y).
  Proof.
    rewrite pp_parts_cur, strip_lex_quoted.
    change (b " % " ++ y) with (sp :: src_of (PUNCT, b "%") ++ sp :: y).
    rewrite lex_spaced_op by reflexivity. destruct (strip_lex y); reflexivity.
  Qed.

  Lemma lex_formats cur parts a : SP a -> ispec (pp_expr ind cur (EFormatS parts a)) (etoks ind (EFormatS parts a)).
  Proof.
    intros IH y Hy. rewrite pp_formats. rewrite <- !app_assoc. rewrite lex_tpl_pct. rewrite (IH cur y Hy).
    destruct (strip_lex y); reflexivity.
  Qed.

  Lemma lex_args_tail n xs y : (forall x, In x xs -> SP x) -> dfollow y = true ->
    strip_lex (flat_map (fun t => (b "," ++ [nl]) ++ t) (map (fun a => spaces n ++ pp_expr ind n a) xs) ++ b ")" ++ y)
    = option_map (app (commas2 (etoks ind) xs ++ [P ")"])) (strip_lex y).
  Proof.
    intros IH Hy. induction xs as [|x xs IHxs].
    - cbn [map flat_map app commas2]. rewrite lex_close by (cbn; auto). destruct (strip_lex y); reflexivity.
    - cbn [map flat_map]. rewrite <- !app_assoc. rewrite lex_comma_nl, lex_spaces.
      rewrite (IH x (or_introl eq_refl) n).
      2:{ destruct xs; reflexivity. }
      rewrite IHxs by (intros z Hz; apply IH; now right).
      destruct (strip_lex y); cbn [option_map]; [|reflexivity]. f_equal.
      unfold commas2. cbn [flat_map app]. now rewrite <- !app_assoc.
  Qed.

  Lemma lex_formatl cur parts a args : (forall x, In x (a :: args) -> SP x) ->
    ispec (pp_expr ind cur (EFormatL parts (a :: args))) (etoks ind (EFormatL parts (a :: args))).
  Proof.
    intros IH y Hy. rewrite pp_formatl. rewrite <- !app_assoc. rewrite lex_tpl_pct.
    rewrite lex_open by (cbn; auto). cbn [app]. rewrite lex_nl.
    cbn [map join_with]. rewrite <- !app_assoc. rewrite lex_spaces.
    rewrite (IH a (or_introl eq_refl) (cur + ind)).
    2:{ destruct args; reflexivity. }
    rewrite lex_args_tail by (try assumption; intros z Hz; apply IH; now right).
    destruct (strip_lex y); cbn [option_map]; [|reflexivity]. f_equal.
    cbn [etoks]. rewrite (join_toks_cons (etoks ind) a args). cbn [app]. now rewrite <- !app_assoc.
  Qed.

  Lemma lex_call cur f args : sym_ok f = true -> (forall x, In x args -> SP x) ->
    ispec (pp_expr ind cur (ECall (ESym f) args)) (etoks ind (ECall (ESym f) args)).
  Proof.
    intros Hf IH. rewrite pp_call. change (pp_expr ind cur (ESym f)) with f. cbn [etoks].
    eapply (ispec_word_prefix f _ _ "("%char); [exact Hf|reflexivity|reflexivity|].
    intros y Hy. destruct args as [|a [|a2 args]].
    - cbn [flat_map app]. rewrite <- ?app_assoc.
      rewrite lex_open by (cbn; auto). rewrite lex_close by (cbn; auto). destruct (strip_lex y); reflexivity.
    - cbn [flat_map]. rewrite !app_nil_r. rewrite <- ?app_assoc.
      rewrite lex_open by (cbn; auto). rewrite (IH a (or_introl eq_refl) (cur + ind)) by reflexivity.
      rewrite lex_close by (cbn; auto). fin y.
    - rewrite <- ?app_assoc.
      rewrite (lex_bracket2 (b "(") (b ")") cur (pp_expr ind (cur + ind)) (etoks ind) (a :: a2 :: args) y); [reflexivity|cbn; auto|cbn; auto|exact Hy|].
      apply Forall_in. intros x Hx. apply ispec_item. now apply IH.
  Qed.

  Lemma lex_cast cur c e : SP e -> ispec (pp_expr ind cur (ECast c e)) (etoks ind (ECast c e)).
  Proof.
    intros IH. rewrite pp_cast. cbn [etoks].
    eapply (ispec_word_prefix (cast_text c) _ _ "("%char); [destruct c; reflexivity|reflexivity|reflexivity|].
    intros y Hy. rewrite <- ?app_assoc.
    rewrite lex_open by (cbn; auto). rewrite (IH cur) by reflexivity.
    rewrite lex_close by (cbn; auto). fin y.
  Qed.

  (* `) => ` *)
  Lemma lex_rparen_arrow y :
    strip_lex (b ")" ++ sp :: b "=>" ++ sp :: y) = option_map (fun r => P ")" :: P "=>" :: r) (strip_lex y).
  Proof.
    change (b ")" ++ sp :: b "=>" ++ sp :: y) with (src_of (PUNCT, b ")") ++ sp :: src_of (PUNCT, b "=>") ++ sp :: y).
    rewrite lex_tok_sp by reflexivity. rewrite lex_tok_sp by reflexivity. destruct (strip_lex y); reflexivity.
  Qed.

  Lemma lex_params_tail xs y : forallb sym_ok xs = true ->
    strip_lex (flat_map (fun t => b ", " ++ t) xs ++ b ")" ++ y)
    = option_map (app (commas2 sym_toks xs)) (strip_lex (b ")" ++ y)).
  Proof.
    intros Hs. induction xs as [|x xs IH].
    - cbn [flat_map app commas2]. destruct (strip_lex (b ")" ++ y)); reflexivity.
    - cbn [forallb] in Hs. apply andb_true_iff in Hs as [Hx Hs]. cbn [flat_map]. rewrite <- !app_assoc.
      rewrite lex_comma_sp. change x with (src_of (BAREWORD, x)) at 1.
      rewrite tok_then; [|exact Hx|].
      2:{ apply end_tok_follow2; [reflexivity|]. destruct xs; reflexivity. }
      rewrite (IH Hs). destruct (strip_lex (b ")" ++ y)); reflexivity.
  Qed.

  Lemma lex_func cur prm body : forallb sym_ok prm = true -> SP body ->
    ispec (pp_expr ind cur (EFunc prm body)) (etoks ind (EFunc prm body)).
  Proof.
    intros Hs IH y Hy. rewrite pp_func. norm_app. rewrite lex_kw by (cbn; auto 20).
    rewrite lex_open by (cbn; auto). cbn [etoks].
    assert (Hp : strip_lex (join_with (b ", ") prm ++ b ")" ++ sp :: b "=>" ++ sp :: pp_expr ind cur body ++ y)
                 = option_map (app (join_toks (map sym_toks prm))) (strip_lex (b ")" ++ sp :: b "=>" ++ sp :: pp_expr ind cur body ++ y))).
    { destruct prm as [|x prm].
      - cbn [join_with map join_toks app]. destruct (strip_lex _); reflexivity.
      - cbn [forallb] in Hs. apply andb_true_iff in Hs as [Hx Hs]. cbn [join_with]. rewrite <- app_assoc.
        change x with (src_of (BAREWORD, x)) at 1. rewrite tok_then; [|exact Hx|].
        2:{ apply end_tok_follow2; [reflexivity|]. destruct prm; reflexivity. }
        rewrite (lex_params_tail prm _ Hs). rewrite (join_toks_cons sym_toks x prm).
        destruct (strip_lex _); reflexivity. }
    rewrite Hp. rewrite lex_rparen_arrow. rewrite (IH cur y Hy).
    fin y.
  Qed.

  Lemma lex_select cur v d arms : SP v -> match d with Some x => SP x | None => True end ->
    (forall kv, In kv arms -> SP (snd kv)) ->
    ispec (pp_expr ind cur (ESelect v d arms)) (etoks ind (ESelect v d arms)).
  Proof.
    intros IHv IHd IHa y Hy. rewrite pp_select. norm_app.
    rewrite lex_kw by (cbn; auto 20). rewrite lex_open by (cbn; auto). cbn [etoks]. rewrite fields_commas1.
    destruct d as [x|].
    - rewrite <- !app_assoc. rewrite (IHv cur) by reflexivity. rewrite lex_comma_sp. rewrite (IHd cur) by reflexivity.
      rewrite lex_rparen_arrow. rewrite (fields_spec cur arms IHa y Hy).
      fin y.
    - cbn [app]. rewrite (IHv cur) by reflexivity.
      rewrite lex_rparen_arrow. rewrite (fields_spec cur arms IHa y Hy).
      fin y.
  Qed.

  Lemma lex_call2 (k : string) (t1 t2 : bytes) (ts1 ts2 : list ptok) :
    wf_tk (BAREWORD, b k) = true -> ispec t1 ts1 -> ispec t2 ts2 ->
    ispec (b k ++ b "(" ++ t1 ++ b ", " ++ t2 ++ b ")") ((BAREWORD, b k) :: P "(" :: ts1 ++ P "," :: ts2 ++ [P ")"]).
  Proof.
    intros Hk H1 H2.
    eapply (ispec_word_prefix (b k) _ _ "("%char); [exact Hk|reflexivity|reflexivity|].
    intros y Hy. rewrite <- ?app_assoc.
    rewrite lex_open by (cbn; auto). rewrite H1 by reflexivity. rewrite lex_comma_sp.
    rewrite H2 by reflexivity. rewrite lex_close by (cbn; auto).
    fin y.
  Qed.

  Lemma lex_map cur f t : SP f -> SP t -> ispec (pp_expr ind cur (EMap f t)) (etoks ind (EMap f t)).
  Proof. intros Hf Ht. rewrite pp_map. apply (lex_call2 "map"); [reflexivity|apply Hf|apply Ht]. Qed.
  Lemma lex_filter cur f t : SP f -> SP t -> ispec (pp_expr ind cur (EFilter f t)) (etoks ind (EFilter f t)).
  Proof. intros Hf Ht. rewrite pp_filter. apply (lex_call2 "filter"); [reflexivity|apply Hf|apply Ht]. Qed.

  Lemma lex_reduce cur f a t : SP f -> SP a -> SP t -> ispec (pp_expr ind cur (EReduce f a t)) (etoks ind (EReduce f a t)).
  Proof.
    intros Hf Ha Ht. rewrite pp_reduce. cbn [etoks].
    eapply (ispec_word_prefix (b "reduce") _ _ "("%char); [reflexivity|reflexivity|reflexivity|].
    intros y Hy.
    rewrite <- ?app_assoc.
    rewrite lex_open by (cbn; auto). rewrite (Hf cur) by reflexivity. rewrite lex_comma_sp.
    rewrite (Ha cur) by reflexivity. rewrite lex_comma_sp. rewrite (Ht cur) by reflexivity.
    rewrite lex_close by (cbn; auto).
    fin y.
  Qed.

  Lemma lex_import cur p : ispec (pp_expr ind cur (EImport p)) (etoks ind (EImport p)).
  Proof.
    intros y Hy. rewrite pp_import. rewrite <- app_assoc. cbn [app]. rewrite lex_kw by (cbn; auto 20).
    rewrite strip_lex_quoted. destruct (strip_lex y); reflexivity.
  Qed.
  Lemma lex_include cur t p : sym_ok t = true -> ispec (pp_expr ind cur (EInclude t p)) (etoks ind (EInclude t p)).
  Proof.
    intros Ht y Hy. rewrite pp_include. rewrite <- app_assoc. cbn [app]. rewrite lex_kw by (cbn; auto 20).
    rewrite <- app_assoc. cbn [app]. change t with (src_of (BAREWORD, t)) at 1. rewrite lex_tok_sp by exact Ht.
    rewrite strip_lex_quoted. destruct (strip_lex y); reflexivity.
  Qed.
  Lemma lex_convert cur t e : sym_ok t = true -> SP e -> ispec (pp_expr ind cur (EConvert t e)) (etoks ind (EConvert t e)).
  Proof.
    intros Ht IH y Hy. rewrite pp_convert. rewrite <- app_assoc. cbn [app]. rewrite lex_kw by (cbn; auto 20).
    rewrite <- app_assoc. cbn [app]. change t with (src_of (BAREWORD, t)) at 1. rewrite lex_tok_sp by exact Ht.
    rewrite (IH cur y Hy). destruct (strip_lex y); reflexivity.
  Qed.

  (* ---- statements and module bodies ---- *)
  Notation SS s := (forall cur y, strip_lex (pp_stmt ind cur s ++ y) = option_map (app (stoks ind s)) (strip_lex y)).

  Lemma lex_stmt s :
    match s with
    | SLet x e | SOut x e => sym_ok x = true /\ SP e
    | SExpr e | SAssert e => SP e
    end -> SS s.
  Proof.
    intros H cur y. rewrite pp_stmt_eq, stoks_eq. destruct s.
    - destruct H as [Hx IH]. norm_app. rewrite lex_kw by (cbn; auto 20).
      change x with (src_of (BAREWORD, x)) at 1. rewrite lex_tok_sp by exact Hx.
      change (b "=" ++ sp :: pp_expr ind cur e ++ b ";" ++ nl :: y)
        with (src_of (PUNCT, b "=") ++ sp :: pp_expr ind cur e ++ b ";" ++ nl :: y).
      rewrite lex_tok_sp by reflexivity. rewrite (IH cur) by reflexivity.
      change (b ";" ++ nl :: y) with (b ";" ++ [nl] ++ y). rewrite lex_semicolon. fin y.
    - norm_app. rewrite (H cur) by reflexivity.
      change (b ";" ++ nl :: y) with (b ";" ++ [nl] ++ y). rewrite lex_semicolon. fin y.
    - norm_app. rewrite lex_kw by (cbn; auto 20). rewrite (H cur) by reflexivity.
      change (b ";" ++ nl :: y) with (b ";" ++ [nl] ++ y). rewrite lex_semicolon. fin y.
    - destruct H as [Hx IH]. norm_app. rewrite lex_kw by (cbn; auto 20).
      change typ with (src_of (BAREWORD, typ)) at 1. rewrite lex_tok_sp by exact Hx.
      rewrite (IH cur) by reflexivity.
      change (b ";" ++ nl :: y) with (b ";" ++ [nl] ++ y). rewrite lex_semicolon. fin y.
  Qed.

  Lemma lex_body cur body y : (forall s, In s body -> SS s) -> dfollow y = true ->
    strip_lex (pp_body cur body ++ b "}" ++ y) = option_map (app (flat_map (stoks ind) body ++ [P "}"])) (strip_lex y).
  Proof.
    intros IH Hy. destruct body as [|s rest].
    - cbn [pp_body flat_map app]. rewrite lex_close by (cbn; auto). destruct (strip_lex y); reflexivity.
    - cbn [pp_body]. rewrite <- !app_assoc. rewrite lex_spaces. rewrite (IH s (or_introl eq_refl)).
      assert (Hr : strip_lex (flat_map (fun s' => spaces (cur + ind) ++ [nl] ++ pp_stmt ind (cur + ind) s') rest ++ b "}" ++ y)
                   = option_map (app (flat_map (stoks ind) rest ++ [P "}"])) (strip_lex y)).
      { assert (IHr : forall s', In s' rest -> SS s') by (intros s' Hs'; apply IH; now right). clear IH.
        induction rest as [|s' rest IHrest].
        - cbn [flat_map app]. rewrite lex_close by (cbn; auto). destruct (strip_lex y); reflexivity.
        - cbn [flat_map]. rewrite <- !app_assoc. rewrite lex_spaces. rewrite (strip_lex_ws_any [nl]) by reflexivity.
          rewrite (IHr s' (or_introl eq_refl)). rewrite IHrest by (intros z Hz; apply IHr; now right).
          fin y. }
      rewrite Hr. cbn [flat_map]. fin y.
  Qed.

  Lemma lex_module cur pms out body :
    (forall kv, In kv pms -> SP (snd kv)) -> match out with Some x => SP x | None => True end ->
    (forall s, In s body -> SS s) ->
    ispec (pp_expr ind cur (EModule pms out body)) (etoks ind (EModule pms out body)).
  Proof.
    intros IHp IHo IHb y Hy. rewrite pp_module, etoks_module. norm_app. rewrite lex_kw by (cbn; auto 20).
    rewrite (fields_spec cur pms IHp) by reflexivity. rewrite lex_sp.
    assert (Harrow : forall z, strip_lex (b "=>" ++ sp :: z) = option_map (cons (P "=>")) (strip_lex z)).
    { intros z. change (b "=>" ++ sp :: z) with (src_of (PUNCT, b "=>") ++ sp :: z). now apply lex_tok_sp. }
    rewrite Harrow.
    destruct out as [x|].
    - norm_app. rewrite lex_open by (cbn; auto). rewrite (IHo cur) by reflexivity.
      change (b ")" ++ sp :: b "{" ++ nl :: pp_body cur body ++ b "}" ++ y)
        with (src_of (PUNCT, b ")") ++ sp :: b "{" ++ nl :: pp_body cur body ++ b "}" ++ y).
      rewrite lex_tok_sp by reflexivity. rewrite lex_open by (cbn; auto). rewrite lex_nl.
      rewrite (lex_body cur body y IHb Hy). fin y.
    - norm_app. rewrite lex_open by (cbn; auto). rewrite lex_nl.
      rewrite (lex_body cur body y IHb Hy). fin y.
  Qed.

  (* ================================================================ *)
  (** * 4. every expression, every statement                           *)
  (* ================================================================ *)
  Lemma pp_lex : forall n,
    (forall e, esize e <= n -> lex_ok e = true -> pp_ok ind e = true -> SP e) /\
    (forall s, ssize s <= n -> lex_ok_stmt s = true -> stmt_ok ind s = true -> SS s).
  Proof.
    induction n as [|n [IHe IHs]].
    - split; [intros e He; pose proof (esize_pos e); lia|intros s Hs; destruct s; cbn in Hs; lia].
    - assert (Hfields : forall (fs : list (bytes * expr)), list_sum (map (fun kv => esize (snd kv)) fs) <= n ->
                forallb (fun kv => lex_ok (snd kv)) fs = true -> forallb (fun kv => pp_ok ind (snd kv)) fs = true ->
                forall kv, In kv fs -> SP (snd kv)).
      { intros fs Hn Hl Hok kv Hkv. pose proof (fields_size_in fs kv Hkv).
        apply IHe; [lia|exact (forallb_in _ _ _ Hl Hkv)|exact (forallb_in _ _ _ Hok Hkv)]. }
      assert (Hlist : forall es, list_sum (map esize es) <= n -> forallb lex_ok es = true ->
                forallb (pp_ok ind) es = true -> forall x, In x es -> SP x).
      { intros es Hn Hl Hok x Hx. pose proof (list_sum_in esize x es Hx).
        apply IHe; [lia|exact (forallb_in _ _ _ Hl Hx)|exact (forallb_in _ _ _ Hok Hx)]. }
      split.
      + intros e He Hl Hok cur. destruct e.
        * apply lex_null.
        * apply lex_bool.
        * apply lex_int. exact Hok.
        * apply lex_float. exact Hl.
        * apply lex_str.
        * apply lex_sym. exact Hl.
        * cbn [esize lex_ok pp_ok] in *. apply lex_tuple. apply Hfields; [lia|exact Hl|exact Hok].
        * cbn [esize lex_ok pp_ok] in *. apply lex_list. apply Hlist; [lia|exact Hl|exact Hok].
        * cbn [esize lex_ok pp_ok] in *. apply andb_true_iff in Hl as [Hl1 Hl2].
          apply andb_true_iff in Hok as [Hok _]. apply andb_true_iff in Hok as [Hok _]. apply andb_true_iff in Hok as [Hok1 Hok2].
          apply lex_bin; [apply IHe; [lia|assumption|assumption]|apply IHe; [lia|assumption|assumption]|].
          now apply pp_starts2.
        * cbn [esize lex_ok pp_ok] in *. apply lex_not. apply IHe; [lia|assumption|assumption].
        * cbn [esize lex_ok pp_ok] in *. apply lex_group. apply IHe; [lia|assumption|assumption].
        * cbn [esize lex_ok pp_ok] in *. apply andb_true_iff in Hl as [Hl1 Hl2]. apply andb_true_iff in Hok as [Hok1 Hok2].
          destruct e; try discriminate Hok1. cbn [lex_ok] in Hl1. apply lex_copy; [exact Hl1|].
          apply Hfields; [cbn [esize] in He; lia|exact Hl2|exact Hok2].
        * cbn [esize lex_ok pp_ok] in *. apply andb_true_iff in Hl as [Hl Hl3]. apply andb_true_iff in Hl as [Hl1 Hl2].
          apply andb_true_iff in Hok as [Hok Hst]. apply andb_true_iff in Hok as [Hok Hen].
          apply andb_true_iff in Hok as [Hok _]. apply andb_true_iff in Hok as [_ Hs].
          apply lex_range.
          -- apply IHe; [lia|assumption|assumption].
          -- apply IHe; [lia|assumption|assumption].
          -- now apply pp_starts2.
          -- destruct step as [x|]; [|exact I]. apply andb_true_iff in Hst as [_ Hx]. split.
             ++ apply IHe; [lia|assumption|assumption].
             ++ now apply pp_starts2.
        * cbn [esize lex_ok pp_ok] in *. apply andb_true_iff in Hok as [Hne Hok].
          destruct args as [|a args]; [discriminate Hne|]. apply lex_formatl. apply Hlist; [lia|exact Hl|exact Hok].
        * cbn [esize lex_ok pp_ok] in *. apply andb_true_iff in Hok as [_ Hok]. apply lex_formats.
          apply IHe; [lia|assumption|assumption].
        * cbn [esize lex_ok pp_ok] in *. apply andb_true_iff in Hl as [Hl1 Hl2]. apply andb_true_iff in Hok as [Hok1 Hok2].
          destruct e; try discriminate Hok1. cbn [lex_ok] in Hl1. apply lex_call; [exact Hl1|].
          apply Hlist; [cbn [esize] in He; lia|exact Hl2|exact Hok2].
        * cbn [esize lex_ok pp_ok] in *. apply lex_cast. apply IHe; [lia|assumption|assumption].
        * cbn [esize lex_ok pp_ok] in *. apply andb_true_iff in Hl as [Hl1 Hl2]. apply lex_func; [exact Hl1|].
          apply IHe; [lia|assumption|assumption].
        * cbn [esize lex_ok pp_ok] in *. apply andb_true_iff in Hl as [Hl Hl3]. apply andb_true_iff in Hl as [Hl1 Hl2].
          apply andb_true_iff in Hok as [Hok Hok3]. apply andb_true_iff in Hok as [Hok _]. apply andb_true_iff in Hok as [Hok1 Hok2].
          apply lex_select.
          -- apply IHe; [lia|assumption|assumption].
          -- destruct dflt as [x|]; [|exact I]. apply IHe; [lia|assumption|assumption].
          -- apply Hfields; [lia|exact Hl3|exact Hok3].
        * cbn [esize lex_ok pp_ok] in *. apply andb_true_iff in Hl as [Hl1 Hl2]. apply andb_true_iff in Hok as [Hok1 Hok2].
          apply lex_map; apply IHe; try assumption; lia.
        * cbn [esize lex_ok pp_ok] in *. apply andb_true_iff in Hl as [Hl1 Hl2]. apply andb_true_iff in Hok as [Hok1 Hok2].
          apply lex_filter; apply IHe; try assumption; lia.
        * cbn [esize lex_ok pp_ok] in *. apply andb_true_iff in Hl as [Hl Hl3]. apply andb_true_iff in Hl as [Hl1 Hl2].
          apply andb_true_iff in Hok as [Hok Hok3]. apply andb_true_iff in Hok as [Hok1 Hok2].
          apply lex_reduce; apply IHe; try assumption; lia.
        * rewrite esize_module in He. rewrite pp_ok_module in Hok.
          assert (Hl' : (forallb (fun kv => lex_ok (snd kv)) params && match out with Some x => lex_ok x | None => true end &&
                         forallb lex_ok_stmt body)%bool = true) by exact Hl.
          apply andb_true_iff in Hl' as [Hl' Hl3]. apply andb_true_iff in Hl' as [Hl1 Hl2].
          apply andb_true_iff in Hok as [Hok Hok3]. apply andb_true_iff in Hok as [Hok1 Hok2].
          apply lex_module.
          -- apply Hfields; [lia|exact Hl1|exact Hok1].
          -- destruct out as [x|]; [|exact I]. apply IHe; [lia|assumption|assumption].
          -- intros s Hs. pose proof (list_sum_in ssize s body Hs).
             apply IHs; [lia|exact (forallb_in _ _ _ Hl3 Hs)|exact (forallb_in _ _ _ Hok3 Hs)].
        * cbn [esize lex_ok pp_ok] in *. apply lex_fail. apply IHe; [lia|assumption|assumption].
        * cbn [esize lex_ok pp_ok] in *. apply lex_trace. apply IHe; [lia|assumption|assumption].
        * apply lex_import.
        * apply lex_include. exact Hl.
        * cbn [esize lex_ok pp_ok] in *. apply andb_true_iff in Hl as [Hl1 Hl2]. apply lex_convert; [exact Hl1|].
          apply IHe; [lia|assumption|assumption].
      + intros s Hs Hl Hok. rewrite ssize_eq in Hs. rewrite stmt_ok_eq in Hok.
        assert (Hl' : match s with
                      | SLet x e | SOut x e => (sym_ok x && lex_ok e)%bool
                      | SExpr e | SAssert e => lex_ok e
                      end = true) by (destruct s; exact Hl).
        apply lex_stmt. destruct s.
        * apply andb_true_iff in Hl' as [Hx Hle]. apply andb_true_iff in Hok as [_ Hok]. split; [exact Hx|].
          apply IHe; [lia|assumption|assumption].
        * apply andb_true_iff in Hok as [_ Hok]. apply IHe; [lia|assumption|assumption].
        * apply IHe; [lia|assumption|assumption].
        * apply andb_true_iff in Hl' as [Hx Hle]. split; [exact Hx|]. apply IHe; [lia|assumption|assumption].
  Qed.
End LexPrint.

(* ================================================================== *)
(** * 5. programs; the unconditional text-level theorems                *)
(* ================================================================== *)
(* lex_of_print_ok (was lex_of_print_partial): the formatted text of a program lexes to [ptoks] *)
Theorem lex_of_print_ok : forall ind p, lex_ok_prog p = true -> prog_ok ind p = true -> lex_of_print ind p.
Proof.
  intros ind p Hl Hok. unfold lex_of_print, pp_stmts, pp_prog, ptoks.
  assert (HS : forall s, In s p -> forall cur y,
            strip_lex (pp_stmt ind cur s ++ y) = option_map (app (stoks ind s)) (strip_lex y)).
  { intros s Hs. apply (proj2 (pp_lex ind (ssize s))); [lia| |].
    - exact (forallb_in _ _ _ Hl Hs).
    - exact (forallb_in _ _ _ Hok Hs). }
  clear Hl Hok.
  assert (Htail : forall r, (forall s, In s r -> In s p) ->
            strip_lex (flat_map (fun y => [nl] ++ y) (map (pp_stmt ind 0) r)) = Some (flat_map (stoks ind) r ++ [tk_end])).
  { induction r as [|s r IH]; intros Hr; [exact strip_lex_nil|].
    cbn [map flat_map]. rewrite <- !app_assoc. rewrite (strip_lex_ws_any [nl]) by reflexivity.
    rewrite (HS s (Hr s (or_introl eq_refl))). rewrite IH by (intros z Hz; apply Hr; now right).
    cbn [option_map]. rewrite <- ?app_assoc. reflexivity. }
  destruct p as [|s p]; [exact strip_lex_nil|].
  cbn [map join_with flat_map]. rewrite (HS s (or_introl eq_refl)).
  rewrite Htail by (intros z Hz; now right). cbn [option_map]. rewrite <- ?app_assoc. reflexivity.
Qed.

(* fmt_preserves_ast_all: the text `ucg fmt` writes for a program of the class prog_ok (names lexable) parses back
   to the program, templates in the raw form the parser keeps *)
Theorem fmt_preserves_ast_all : forall ind p, lex_ok_prog p = true -> prog_ok ind p = true ->
  parse_src (pp_stmts ind p) = Parsed (pnorm ind p).
Proof. intros ind p Hl Hok. apply fmt_preserves_ast_of_tokens; [now apply lex_of_print_ok|exact Hok]. Qed.

(* ================================================================== *)
(** * 6. the fixed point                                                *)
(* ================================================================== *)
(* The re-parsed program is [pnorm ind p]: its templates are RAW text ([PStr raw], see Parse.v ENCODINGS).
   Print.pp_expr is the printer over PRE-PARSED templates: on a [PStr s] part it escapes `@` and the backslash
   (tmpl_escape), which is right for a literal part but wrong for a raw template.  The real AstPrinter
   (src/ast/printer/mod.rs, Format arm) writes FormatDef.template verbatim (only escape_quotes).  [pp_expr_raw]
   is that printer on the parser's own ASTs: identical to Print.pp_expr except that a template of the shape
   [PStr raw] is written verbatim. *)
Definition raw_of (ind : nat) (parts : list tpart) : bytes :=
  match parts with [PStr s] => s | _ => unparse_template ind parts end.

Section RawPrinter.
  Variable ind : nat.

  Fixpoint pp_expr_raw (cur : nat) (e : expr) {struct e} : bytes :=
    let fields (cur : nat) (fs : list (bytes * expr)) : bytes :=
      b "{" ++ block ind cur (map (fun kv => Print.field_name (fst kv) ++ b " = " ++ pp_expr_raw (cur + ind) (snd kv)) fs)
            ++ b "}" in
    match e with
    | ENull => b "NULL"
    | EBool v => if v then b "true" else b "false"
    | EInt z => dec_of_Z z
    | EFloat bits => float_text bits
    | EStr s => quoted s
    | ESym x => x
    | ETuple fs => fields cur fs
    | EList es => b "[" ++ block ind cur (map (pp_expr_raw (cur + ind)) es) ++ b "]"
    | EBin o l r => pp_expr_raw cur l ++ op_text o ++ pp_expr_raw cur r
    | ENot e1 => b "not " ++ pp_expr_raw cur e1
    | EGroup e1 => b "(" ++ pp_expr_raw cur e1 ++ b ")"
    | ECopy t fs => pp_expr_raw cur t ++ fields cur fs
    | ERange s st en =>
        pp_expr_raw cur s ++ b ":" ++
        match st with Some x => pp_expr_raw cur x ++ b ":" | None => [] end ++ pp_expr_raw cur en
    | EFormatL parts args =>
        quoted (raw_of ind parts) ++ b " % " ++ b "(" ++ [nl] ++
        join_with (b "," ++ [nl]) (map (fun a => spaces (cur + ind) ++ pp_expr_raw (cur + ind) a) args) ++ b ")"
    | EFormatS parts a => quoted (raw_of ind parts) ++ b " % " ++ pp_expr_raw cur a
    | ECall f args =>
        pp_expr_raw cur f ++ b "(" ++
        match args with
        | _ :: _ :: _ => block ind cur (map (pp_expr_raw (cur + ind)) args)
        | _ => flat_map (pp_expr_raw (cur + ind)) args
        end ++ b ")"
    | ECast c e1 => cast_text c ++ b "(" ++ pp_expr_raw cur e1 ++ b ")"
    | EFunc ps body => b "func (" ++ join_with (b ", ") ps ++ b ") => " ++ pp_expr_raw cur body
    | ESelect v d arms =>
        b "select (" ++ pp_expr_raw cur v ++
        match d with Some x => b ", " ++ pp_expr_raw cur x | None => [] end ++ b ") => " ++ fields cur arms
    | EMap f t => b "map(" ++ pp_expr_raw cur f ++ b ", " ++ pp_expr_raw cur t ++ b ")"
    | EFilter f t => b "filter(" ++ pp_expr_raw cur f ++ b ", " ++ pp_expr_raw cur t ++ b ")"
    | EReduce f a t =>
        b "reduce(" ++ pp_expr_raw cur f ++ b ", " ++ pp_expr_raw cur a ++ b ", " ++ pp_expr_raw cur t ++ b ")"
    | EModule ps out body =>
        b "module " ++ fields cur ps ++ b " => " ++
        match out with Some x => b "(" ++ pp_expr_raw cur x ++ b ") " | None => [] end ++
        b "{" ++ [nl] ++
        match body with
        | [] => []
        | s :: rest =>
            spaces (cur + ind) ++ pp_stmt_raw (cur + ind) s ++
            flat_map (fun s' => spaces (cur + ind) ++ [nl] ++ pp_stmt_raw (cur + ind) s') rest
        end ++ b "}"
    | EFail e1 => b "fail " ++ pp_expr_raw cur e1
    | ETrace e1 => b "TRACE " ++ pp_expr_raw cur e1
    | EImport p => b "import " ++ quoted p
    | EInclude t p => b "include " ++ t ++ b " " ++ quoted p
    | EConvert t e1 => b "convert " ++ t ++ b " " ++ pp_expr_raw cur e1
    end
  with pp_stmt_raw (cur : nat) (s : stmt) {struct s} : bytes :=
    match s with
    | SLet x e => b "let " ++ x ++ b " = " ++ pp_expr_raw cur e
    | SExpr e => pp_expr_raw cur e
    | SAssert e => b "assert " ++ pp_expr_raw cur e
    | SOut t e => b "out " ++ t ++ b " " ++ pp_expr_raw cur e
    end ++ b ";" ++ [nl].

  Definition pp_stmts_raw (p : list stmt) : bytes := join_with [nl] (map (pp_stmt_raw 0) p).

  Definition ppr_fields (cur : nat) (fs : list (bytes * expr)) : bytes :=
    b "{" ++ block ind cur (map (fun kv => Print.field_name (fst kv) ++ b " = " ++ pp_expr_raw (cur + ind) (snd kv)) fs) ++ b "}".
  Definition ppr_body (cur : nat) (body : list stmt) : bytes :=
    match body with
    | [] => []
    | s :: rest =>
        spaces (cur + ind) ++ pp_stmt_raw (cur + ind) s ++
        flat_map (fun s' => spaces (cur + ind) ++ [nl] ++ pp_stmt_raw (cur + ind) s') rest
    end.
  Lemma ppr_module cur ps out body : pp_expr_raw cur (EModule ps out body) =
    b "module " ++ ppr_fields cur ps ++ b " => " ++
    match out with Some x => b "(" ++ pp_expr_raw cur x ++ b ") " | None => [] end ++
    b "{" ++ [nl] ++ ppr_body cur body ++ b "}".
  Proof. reflexivity. Qed.
  Lemma pp_module' cur ps out body : pp_expr ind cur (EModule ps out body) =
    b "module " ++ pp_fields ind cur ps ++ b " => " ++
    match out with Some x => b "(" ++ pp_expr ind cur x ++ b ") " | None => [] end ++
    b "{" ++ [nl] ++ pp_body ind cur body ++ b "}".
  Proof. reflexivity. Qed.
  Lemma ppr_stmt_eq cur s : pp_stmt_raw cur s =
    match s with
    | SLet x e => b "let " ++ x ++ b " = " ++ pp_expr_raw cur e
    | SExpr e => pp_expr_raw cur e
    | SAssert e => b "assert " ++ pp_expr_raw cur e
    | SOut t e => b "out " ++ t ++ b " " ++ pp_expr_raw cur e
    end ++ b ";" ++ [nl].
  Proof. destruct s; reflexivity. Qed.
  Lemma pp_stmt_eq' cur s : pp_stmt ind cur s =
    match s with
    | SLet x e => b "let " ++ x ++ b " = " ++ pp_expr ind cur e
    | SExpr e => pp_expr ind cur e
    | SAssert e => b "assert " ++ pp_expr ind cur e
    | SOut t e => b "out " ++ t ++ b " " ++ pp_expr ind cur e
    end ++ b ";" ++ [nl].
  Proof. destruct s; reflexivity. Qed.

  (* printing the parser's form of a program (raw templates) = printing the program *)
  Lemma pp_raw_norm : forall n,
    (forall e, esize e <= n -> forall cur, pp_expr_raw cur (norm ind e) = pp_expr ind cur e) /\
    (forall s, ssize s <= n -> forall cur, pp_stmt_raw cur (snorm ind s) = pp_stmt ind cur s).
  Proof.
    induction n as [|n [IHe IHs]].
    - split; [intros e He; pose proof (esize_pos e); lia|intros s Hs; destruct s; cbn in Hs; lia].
    - assert (Hfields : forall (fs : list (bytes * expr)) cur, list_sum (map (fun kv => esize (snd kv)) fs) <= n ->
                ppr_fields cur (map (fun kv => (fst kv, norm ind (snd kv))) fs) = pp_fields ind cur fs).
      { intros fs cur Hn. unfold ppr_fields, pp_fields. do 2 f_equal. f_equal. rewrite map_map. apply map_ext_in.
        intros kv Hkv. cbn [fst snd]. unfold pp_field. do 2 f_equal. apply IHe.
        pose proof (fields_size_in fs kv Hkv). lia. }
      assert (Hlist : forall es cur, list_sum (map esize es) <= n ->
                map (pp_expr_raw cur) (map (norm ind) es) = map (pp_expr ind cur) es).
      { intros es cur Hn. rewrite map_map. apply map_ext_in. intros x Hx. apply IHe.
        pose proof (list_sum_in esize x es Hx). lia. }
      split.
      + intros e He cur. destruct e; try reflexivity.
        * cbn [norm esize] in *. change (pp_expr_raw cur (ETuple (map (fun kv => (fst kv, norm ind (snd kv))) fs)))
            with (ppr_fields cur (map (fun kv => (fst kv, norm ind (snd kv))) fs)).
          rewrite pp_tuple. apply Hfields. lia.
        * cbn [norm esize] in *. rewrite pp_list.
          change (pp_expr_raw cur (EList (map (norm ind) es)))
            with (b "[" ++ block ind cur (map (pp_expr_raw (cur + ind)) (map (norm ind) es)) ++ b "]").
          rewrite Hlist by lia. reflexivity.
        * cbn [norm esize] in *. rewrite pp_bin.
          change (pp_expr_raw cur (EBin o (norm ind e1) (norm ind e2)))
            with (pp_expr_raw cur (norm ind e1) ++ op_text o ++ pp_expr_raw cur (norm ind e2)).
          rewrite !IHe by lia. reflexivity.
        * cbn [norm esize] in *. change (pp_expr_raw cur (ENot (norm ind e))) with (b "not " ++ pp_expr_raw cur (norm ind e)).
          rewrite IHe by lia. reflexivity.
        * cbn [norm esize] in *. change (pp_expr_raw cur (EGroup (norm ind e))) with (b "(" ++ pp_expr_raw cur (norm ind e) ++ b ")").
          rewrite IHe by lia. reflexivity.
        * cbn [norm esize] in *. rewrite pp_copy.
          change (pp_expr_raw cur (ECopy (norm ind e) (map (fun kv => (fst kv, norm ind (snd kv))) fs)))
            with (pp_expr_raw cur (norm ind e) ++ ppr_fields cur (map (fun kv => (fst kv, norm ind (snd kv))) fs)).
          rewrite IHe by lia. rewrite Hfields by lia. reflexivity.
        * cbn [norm esize] in *. rewrite pp_range.
          change (pp_expr_raw cur (ERange (norm ind e1) (option_map (norm ind) step) (norm ind e2)))
            with (pp_expr_raw cur (norm ind e1) ++ b ":" ++
                  match option_map (norm ind) step with Some x => pp_expr_raw cur x ++ b ":" | None => [] end ++
                  pp_expr_raw cur (norm ind e2)).
          rewrite !IHe by lia. destruct step as [x|]; cbn [option_map]; [rewrite IHe by lia|]; reflexivity.
        * cbn [norm esize] in *. rewrite pp_formatl, pp_parts_cur.
          change (pp_expr_raw cur (EFormatL [PStr (unparse_template ind parts)] (map (norm ind) args)))
            with (quoted (unparse_template ind parts) ++ b " % " ++ b "(" ++ [nl] ++
                  join_with (b "," ++ [nl]) (map (fun a => spaces (cur + ind) ++ pp_expr_raw (cur + ind) a) (map (norm ind) args)) ++ b ")").
          do 5 f_equal. rewrite map_map. f_equal. apply map_ext_in. intros x Hx. f_equal. apply IHe.
          pose proof (list_sum_in esize x args Hx). lia.
        * cbn [norm esize] in *. rewrite pp_formats, pp_parts_cur.
          change (pp_expr_raw cur (EFormatS [PStr (unparse_template ind parts)] (norm ind e)))
            with (quoted (unparse_template ind parts) ++ b " % " ++ pp_expr_raw cur (norm ind e)).
          rewrite IHe by lia. reflexivity.
        * cbn [norm esize] in *. rewrite pp_call.
          change (pp_expr_raw cur (ECall (norm ind e) (map (norm ind) args)))
            with (pp_expr_raw cur (norm ind e) ++ b "(" ++
                  match map (norm ind) args with
                  | _ :: _ :: _ => block ind cur (map (pp_expr_raw (cur + ind)) (map (norm ind) args))
                  | _ => flat_map (pp_expr_raw (cur + ind)) (map (norm ind) args)
                  end ++ b ")").
          rewrite IHe by lia. do 2 f_equal. f_equal.
          destruct args as [|a [|a2 args]].
          -- reflexivity.
          -- cbn [map flat_map]. rewrite IHe by (cbn in He; lia). reflexivity.
          -- change (map (norm ind) (a :: a2 :: args)) with (norm ind a :: norm ind a2 :: map (norm ind) args).
             cbv iota. change (norm ind a :: norm ind a2 :: map (norm ind) args) with (map (norm ind) (a :: a2 :: args)).
             rewrite Hlist by lia. reflexivity.
        * cbn [norm esize] in *. rewrite pp_cast.
          change (pp_expr_raw cur (ECast c (norm ind e))) with (cast_text c ++ b "(" ++ pp_expr_raw cur (norm ind e) ++ b ")").
          rewrite IHe by lia. reflexivity.
        * cbn [norm esize] in *.
          change (pp_expr_raw cur (EFunc params (norm ind e)))
            with (b "func (" ++ join_with (b ", ") params ++ b ") => " ++ pp_expr_raw cur (norm ind e)).
          rewrite IHe by lia. reflexivity.
        * cbn [norm esize] in *.
          change (pp_expr_raw cur (ESelect (norm ind e) (option_map (norm ind) dflt) (map (fun kv => (fst kv, norm ind (snd kv))) arms)))
            with (b "select (" ++ pp_expr_raw cur (norm ind e) ++
                  match option_map (norm ind) dflt with Some x => b ", " ++ pp_expr_raw cur x | None => [] end ++ b ") => " ++
                  ppr_fields cur (map (fun kv => (fst kv, norm ind (snd kv))) arms)).
          change (pp_expr ind cur (ESelect e dflt arms))
            with (b "select (" ++ pp_expr ind cur e ++
                  match dflt with Some x => b ", " ++ pp_expr ind cur x | None => [] end ++ b ") => " ++ pp_fields ind cur arms).
          rewrite IHe by lia. rewrite Hfields by lia.
          destruct dflt as [x|]; cbn [option_map]; [rewrite IHe by lia|]; reflexivity.
        * cbn [norm esize] in *. rewrite pp_map.
          change (pp_expr_raw cur (EMap (norm ind e1) (norm ind e2)))
            with (b "map(" ++ pp_expr_raw cur (norm ind e1) ++ b ", " ++ pp_expr_raw cur (norm ind e2) ++ b ")").
          rewrite !IHe by lia. reflexivity.
        * cbn [norm esize] in *. rewrite pp_filter.
          change (pp_expr_raw cur (EFilter (norm ind e1) (norm ind e2)))
            with (b "filter(" ++ pp_expr_raw cur (norm ind e1) ++ b ", " ++ pp_expr_raw cur (norm ind e2) ++ b ")").
          rewrite !IHe by lia. reflexivity.
        * cbn [norm esize] in *. rewrite pp_reduce.
          change (pp_expr_raw cur (EReduce (norm ind e1) (norm ind e2) (norm ind e3)))
            with (b "reduce(" ++ pp_expr_raw cur (norm ind e1) ++ b ", " ++ pp_expr_raw cur (norm ind e2) ++ b ", " ++
                  pp_expr_raw cur (norm ind e3) ++ b ")").
          rewrite !IHe by lia. reflexivity.
        * rewrite esize_module in He. rewrite norm_module, ppr_module, pp_module'. unfold fnorm.
          rewrite Hfields by lia. do 3 f_equal. f_equal.
          -- destruct out as [x|]; cbn [option_map]; [rewrite IHe by lia|]; reflexivity.
          -- do 2 f_equal. f_equal. destruct body as [|s rest]; [reflexivity|]. cbn [map ppr_body pp_body].
             change (list_sum (map ssize (s :: rest))) with (ssize s + list_sum (map ssize rest)) in He.
             rewrite IHs by lia. do 2 f_equal. rewrite flat_map_concat_map, map_map, <- flat_map_concat_map.
             apply flat_map_ext_in. intros s' Hs'. pose proof (list_sum_in ssize s' rest Hs').
             rewrite IHs by lia. reflexivity.
        * cbn [norm esize] in *. change (pp_expr_raw cur (EFail (norm ind e))) with (b "fail " ++ pp_expr_raw cur (norm ind e)).
          rewrite IHe by lia. reflexivity.
        * cbn [norm esize] in *. change (pp_expr_raw cur (ETrace (norm ind e))) with (b "TRACE " ++ pp_expr_raw cur (norm ind e)).
          rewrite IHe by lia. reflexivity.
        * cbn [norm esize] in *.
          change (pp_expr_raw cur (EConvert typ (norm ind e))) with (b "convert " ++ typ ++ b " " ++ pp_expr_raw cur (norm ind e)).
          rewrite IHe by lia. reflexivity.
      + intros s Hs cur. rewrite snorm_eq, pp_stmt_eq', ppr_stmt_eq. rewrite ssize_eq in Hs.
        destruct s; rewrite IHe by lia; reflexivity.
  Qed.

  Lemma pp_stmts_raw_norm p : pp_stmts_raw (pnorm ind p) = pp_stmts ind p.
  Proof.
    unfold pp_stmts_raw, pp_stmts, pp_prog, pnorm. f_equal. rewrite map_map. apply map_ext.
    intros s. apply (proj2 (pp_raw_norm (ssize s))). lia.
  Qed.
End RawPrinter.

(* fmt_fixed_point_all: format, parse, format again (the printer acting on what the parser returned,
   templates verbatim) gives the same text *)
Theorem fmt_fixed_point_all : forall ind p p', lex_ok_prog p = true -> prog_ok ind p = true ->
  parse_src (pp_stmts ind p) = Parsed p' -> pp_stmts_raw ind p' = pp_stmts ind p.
Proof.
  intros ind p p' Hl Hok H. rewrite (fmt_preserves_ast_all ind p Hl Hok) in H. inversion H. apply pp_stmts_raw_norm.
Qed.

(* on programs without re-escaped templates the two printers agree on the re-parsed program, so the statement
   with Print.pp_stmts on both sides holds there *)
Corollary fmt_fixed_point_all_raw : forall ind p p', lex_ok_prog p = true -> prog_ok ind p = true ->
  raw_tpl_prog p = true -> parse_src (pp_stmts ind p) = Parsed p' -> pp_stmts ind p' = pp_stmts ind p.
Proof.
  intros ind p p' Hl Hok Hr H. rewrite (fmt_preserves_ast_all ind p Hl Hok) in H. inversion H.
  now rewrite pnorm_raw.
Qed.

(* fmt_fixed_point_pp_refuted: with Print.pp_stmts (the printer over PRE-PARSED templates) on the re-parsed
   program the statement is FALSE as soon as a template has a placeholder: the raw text `@` stored as the
   literal part [PStr "@"] is printed as `\@`.  This is an artefact of representing the parser's raw template
   in sem/Ast.v, not a behaviour of ucg fmt (whose printer writes the template verbatim = pp_stmts_raw). *)
Theorem fmt_fixed_point_pp_refuted :
  let p := [SExpr (EFormatL [PHole] [EInt 1])] in
  lex_ok_prog p = true /\ prog_ok 2 p = true /\
  parse_src (pp_stmts 2 p) = Parsed (pnorm 2 p) /\
  pp_stmts 2 (pnorm 2 p) <> pp_stmts 2 p /\
  pp_stmts_raw 2 (pnorm 2 p) = pp_stmts 2 p.
Proof. repeat split; try (vm_compute; reflexivity). vm_compute. discriminate. Qed.
