(* C20 -- the language server answers from the current text only.
   The document store of the server (lsp/Docs.v) with the analysis abstract: for EVERY analysis function that sees the
   workspace through lookups only, every disk and every message sequence.  That the real analysis is such a function, that the
   server survives and that ranges are inside the document is decided against the running server by props/c20.py. *)
From Coq Require Import List.
From Ucg Require Import base.Bytes lsp.Docs lsp.Docs_Lemmas.
Import ListNotations.

Section C20.
  Variable D : Type.
  Variable analyze : store -> uri -> text -> D.
  Variable none : D.
  Variable disk : store.
  Hypothesis analyze_ext : forall w1 w2 u t, same_view w1 w2 -> analyze w1 u t = analyze w2 u t.

  (* after any session the open documents are exactly the current texts ... *)
  Theorem docs_are_current : forall ms u,
      lookup (docs (fst (run D analyze none disk (init disk) ms))) u = current_text ms u.
  Proof. exact (docs_are_current_lemma D analyze none disk). Qed.

  (* ... and the workspace view is the disk overlaid by them: no trace of earlier texts *)
  Theorem workspace_is_overlay : forall ms u,
      lookup (ws (fst (run D analyze none disk (init disk) ms))) u = overlay disk ms u.
  Proof. exact (ws_is_overlay_lemma D analyze none disk). Qed.

  (* what a change publishes is the analysis of the text it carries against that view *)
  Theorem publish_is_analysis_of_current_text : forall ms u t,
      snd (step D analyze none disk (fst (run D analyze none disk (init disk) ms)) (Change u t)) =
      Some (u, analyze (ws (fst (run D analyze none disk (init disk) (ms ++ [Change u t])))) u t).
  Proof. exact (publish_is_analysis_lemma D analyze none disk). Qed.

  (* the server after a session and a fresh server given the current texts publish the same for the same notification *)
  Theorem session_equals_fresh_server : forall ms ms' m,
      (forall u, current_text ms u = current_text ms' u) ->
      snd (step D analyze none disk (fst (run D analyze none disk (init disk) ms)) m) =
      snd (step D analyze none disk (fst (run D analyze none disk (init disk) ms')) m).
  Proof. exact (session_vs_fresh_lemma D analyze none disk analyze_ext). Qed.

  Theorem close_clears_diagnostics : forall s u, snd (step D analyze none disk s (Close u)) = Some (u, none).
  Proof. exact (close_publishes_none_lemma D analyze none disk). Qed.

  Theorem requests_do_not_change_the_store : forall s u, step D analyze none disk s (Request u) = (s, None).
  Proof. exact (request_no_effect_lemma D analyze none disk). Qed.
End C20.

(* non-vacuity: a session with an edit, a close and a re-open *)
Example session_example :
  let a := b "file:///a" in let c := b "file:///c" in
  current_text [Open a (b "1"); Open c (b "x"); Change a (b "2"); Close c; Request a] a = Some (b "2") /\
  current_text [Open a (b "1"); Open c (b "x"); Change a (b "2"); Close c; Request a] c = None /\
  overlay [(c, b "disk")] [Open a (b "1"); Open c (b "x"); Change a (b "2"); Close c] c = Some (b "disk").
Proof. vm_compute. repeat split. Qed.

(* ---- ranges: every position the server reports is the position of a token (ucg_pos_to_range of a token position); in the
   tokenizer's units (lines end at LF, columns count bytes) such a position lies inside the document.  This is the boundary of
   the listed finding C20-position-units: outside it only in the protocol's units (UTF-16, CR as line end). ---- *)
From Ucg Require Import lex.Lex_Types lex.Lex lex.Lex_Doc.

Theorem token_positions_lie_in_the_document : forall src toks t,
  lex src = Some toks -> In t toks ->
  N.to_nat (line t) - 1 < List.length (lines_of src) /\
  N.to_nat (col t) - 1 <= List.length (nth (N.to_nat (line t) - 1) (lines_of src) []).
Proof. exact token_position_lsp_lex. Qed.

(* a token that cannot span lines ends on its line too (semantic tokens of keywords, names, numbers, operators) *)
Theorem single_line_token_ranges_lie_in_the_document : forall src toks t,
  lex_all src = Some toks -> In t toks ->
  typ t <> END -> typ t <> QUOTED -> typ t <> WS -> typ t <> COMMENT ->
  N.to_nat (col t) - 1 + List.length (frag t) <= List.length (nth (N.to_nat (line t) - 1) (lines_of src) []).
Proof. exact token_range_lsp. Qed.
