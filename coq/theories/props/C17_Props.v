(* C17 -- diagnostics point at the statement that causes them.
   Proved here for every source text: the positions the tokenizer attaches to tokens (which are the positions every
   parse error and every opcode carries) are the true line and column of the token, lie inside the line span of any
   byte span that contains the token, move by exactly the number of lines put in front, and do not depend on what follows;
   and the opcodes of a statement do not depend on the neighbouring statements.  That the evaluator reports the position of
   the failing operand is checked against the implementation by props/c17.py (see DESIGN.md). *)
From Coq Require Import Sorting.Sorted.
From Ucg Require Import base.Bytes lex.Lex_Types lex.Lex lex.Lex_Lemmas lex.Lex_Shift lex.Lex_Span.
From Ucg Require Import sem.Ast vm.Ops vm.Translate vm.Compile_Correct.

(* line, column and offset of every token are those of its first byte *)
Theorem token_positions_exact : forall src toks, lex src = Some toks ->
  Forall (token_ok src) toks /\ StronglySorted off_lt toks.
Proof. exact positions_exact. Qed.

(* a token that starts inside bytes [a, b] of the source is reported on a line of that span *)
Theorem token_line_in_span : forall src toks t a b,
  lex src = Some toks -> In t toks -> a <= N.to_nat (off t) <= b ->
  (line_of src a <= line t <= line_of src b)%N.
Proof. exact token_line_in_span_lemma. Qed.

(* text put in front (ending with a line feed): same tokens, line + lines added, same column *)
Theorem positions_move_by_lines_added_before : forall pre src tp e ts,
  ends_with_newline pre -> lex pre = Some (tp ++ [e]) -> lex src = Some ts ->
  lex (pre ++ src) =
  Some (tp ++ map (shift_tok (N.of_nat (count_nl pre)) (N.of_nat (List.length pre))) ts).
Proof. exact lex_prefix_shift. Qed.

(* a lexical error after the added text is still an error *)
Theorem lexical_error_survives_prefix : forall pre src tpre,
  ends_with_newline pre -> lex pre = Some tpre -> lex src = None -> lex (pre ++ src) = None.
Proof. exact lex_prefix_error. Qed.

(* text put behind does not change any earlier token *)
Theorem positions_unaffected_by_text_after : forall src post ts e l,
  ends_with_newline src -> lex src = Some (ts ++ [e]) -> lex (src ++ post) = Some l ->
  exists rest, l = ts ++ rest.
Proof. exact lex_suffix_prefix_of_any. Qed.

(* without the line feed the statement is false (two words merge): the hypothesis is needed *)
Theorem newline_hypothesis_needed :
  exists pre src tp e ts, lex pre = Some (tp ++ [e]) /\ lex src = Some ts /\
    lex (pre ++ src) <>
    Some (tp ++ map (shift_tok (N.of_nat (count_nl pre)) (N.of_nat (List.length pre))) ts).
Proof. exact lex_prefix_shift_needs_newline_refuted. Qed.

(* the opcodes of a statement are the same whatever statements stand before or after it *)
Theorem statement_ops_independent : forall p1 p2, translate (p1 ++ p2) = translate p1 ++ translate p2.
Proof. exact translate_app. Qed.

(* ---- every opcode is paired with the position of the AST node it came from (pos/PTranslate.v: translate.rs with its
   positions; pos/PTemplate.v: the position tracking of the template parser for @{...} expressions).  The model's
   (op, line, column) list is compared with the real translator's on every generated program by props/c17.py. ---- *)
From Ucg Require Import pos.PAst pos.PTranslate pos.PTranslate_Lemmas pos.PTemplate pos.PTemplate_Lemmas.

(* the positioned translator emits exactly the opcodes of the translator model the compile-correctness proofs are about *)
Theorem positioned_translator_same_ops : forall p : pprog, map fst (ptranslate p) = translate (map erase_stmt p).
Proof. exact ptranslate_erase. Qed.

(* every opcode of a statement carries the position of a node of THAT statement ... *)
Theorem ops_carry_positions_of_their_statement : forall s : pstmt,
  Forall (fun x => In (snd x) (positions_of_stmt s)) (ptranslate_stmt s).
Proof. exact ptranslate_positions_from_statement. Qed.

(* ... hence a line inside the statement's span, whatever surrounds it *)
Theorem ops_point_into_the_statement : forall s lo hi,
  stmt_in_span s lo hi -> Forall (fun x => (lo <= line (snd x) <= hi)%N) (ptranslate_stmt s).
Proof. exact ops_point_into_their_statement. Qed.

(* the same with the span stated on what the FILE's parser produced: nodes inside @{...} lie on the lines of their string *)
Theorem ops_point_into_the_statement_of_the_file : forall s lo hi,
  tpl_placed_stmt s -> src_in_span s lo hi -> Forall (fun x => (lo <= line (snd x) <= hi)%N) (ptranslate_stmt s).
Proof. exact ops_point_into_their_statement_src. Qed.

(* k lines added before a program move every opcode position by exactly k lines and no column *)
Theorem op_positions_move_with_the_text : forall k p,
  ptranslate (map (shift_stmt k) p) = map (fun x => (fst x, shift_pos k (snd x))) (ptranslate p).
Proof. exact ptranslate_shift. Qed.

(* the opcodes of a function body carry positions of the statement that DEFINES the function: a fault in the body is
   reported there, the call site as VIA *)
Theorem function_body_ops_belong_to_the_definition : forall p np name fp ps body,
  let s := PSLet p np name (PEFunc fp ps body) in
  Forall (fun x => In (snd x) (positions_of_stmt s)) (ptranslate_expr body) /\
  (forall lo hi, stmt_in_span s lo hi -> Forall (fun x => (lo <= line (snd x) <= hi)%N) (ptranslate_expr body)).
Proof. intros p np name fp ps body. destruct (func_body_ops_carry_positions_of_the_defining_statement p np name fp ps body) as (_ & H1 & H2). split; assumption. Qed.

(* the template scanner never leaves the lines of its string *)
Theorem template_expressions_stay_on_the_lines_of_their_string : forall p tpl,
  Forall (fun '(_, st, text) => (line p <= line st)%N /\ (line st + count_lf text <= line p + count_lf tpl)%N) (tpl_scan p tpl).
Proof. exact tpl_scan_lines. Qed.

(* ---- errors carry the position of the failing op / operand; call sites are appended as VIA (pos/PVm.v: vm.rs and the runtime
   hooks with the positions the real VM keeps next to every op, stack entry, binding, list element and tuple field).  The model's
   outcome, primary position and whole VIA list equal the real evaluator's on every fault-injected program (props/c17.py). ---- *)
From Ucg Require Import sem.Sem vm.Vm pos.PVm pos.PVm_Erase pos.PVm_Map pos.PVm_Lemmas pos.PVm_Inv pos.PVm_Locality pos.PVm_Scoped.

Section C17_vm.
  Variable fo : float_ops.

  (* forgetting positions, the positioned machine is the machine the compile-correctness theorems (C01) are about *)
  Theorem positioned_vm_is_the_vm : forall fuel envv strict_ (p : pprog),
      erase_out erase_bindings (pvm_prog fo fuel envv strict_ (ptranslate p)) = vm_prog fo fuel envv strict_ (translate (map erase_stmt p)).
  Proof. exact (pvm_erase_translated fo). Qed.

  (* every position an error reports - the primary one and every VIA entry - is the position of a node of some statement of
     the program (never a made-up position; with a process environment the env tuple's dummy 0:0 is the one exception) *)
  Theorem error_positions_come_from_the_program : forall fuel envv strict_ prog e p via,
      pvm_prog fo fuel envv strict_ (ptranslate prog) = PErr e p via ->
      forall q, In q (p :: via) -> (exists s, In s prog /\ In q (positions_of_stmt s)) \/ (q = pos0 /\ envv <> []).
  Proof. exact (pvm_positions_from_program fo). Qed.

  (* hence every reported line lies in the line span of some statement *)
  Theorem error_lines_lie_in_a_statement : forall fuel strict_ prog (span : pstmt -> N * N) e p via,
      (forall s, In s prog -> stmt_in_span s (fst (span s)) (snd (span s))) ->
      pvm_prog fo fuel [] strict_ (ptranslate prog) = PErr e p via ->
      forall q, In q (p :: via) -> exists s, In s prog /\ (fst (span s) <= line q <= snd (span s))%N.
  Proof. exact (pvm_error_lines_in_some_statement fo). Qed.

  (* an error handed to its caller by a function defined in statement d is local to d (its primary position is a node of d) *)
  Theorem function_errors_belong_to_the_defining_statement : forall envv strict_ p1 p2 d f ptr j pf bs snap s e q via,
      let code := ptranslate (p1 ++ [d] ++ p2) in
      let lo := List.length (ptranslate p1) in
      let hi := lo + List.length (ptranslate_stmt d) in
      lo <= ptr < hi -> nth_error code ptr = Some (IFunc j, pf) ->
      Forall (eok fo (Ncode code envv pos0) (Ncode code envv pos0)) s -> Forall (bok fo (Ncode code envv pos0)) snap ->
      p_fcall_impl fo (pvm_run fo code strict_ envv pos0 f) ptr bs snap s = PErr e q via -> stmt_err d e q via.
  Proof. exact (function_body_local_program fo). Qed.

  (* locality: an error of the program [p1 ++ [s] ++ p2] either surfaced before s, or - when the value stack is empty as s starts -
     is an error OF s ([stmt_err]: without VIA its primary position is a node of s, with VIA the outermost call site is), or s
     finished and it surfaced later *)
  Theorem errors_are_local_to_the_executing_statement : forall fuel envv strict_ p1 p2 s e q via,
      let code := ptranslate (p1 ++ [s] ++ p2) in
      let lo := List.length (ptranslate p1) in
      let hi := lo + List.length (ptranslate_stmt s) in
      pvm_prog fo fuel envv strict_ code = PErr e q via ->
      pvm_run_until fo code strict_ envv pos0 lo fuel (pinit_state fo) = PErr e q via \/
      (exists st0 fuel0,
          pvm_run_until fo code strict_ envv pos0 lo fuel (pinit_state fo) = POk st0 /\ ppc st0 = lo /\
          pvm_run fo code strict_ envv pos0 fuel0 st0 = PErr e q via /\
          (pstk st0 = [] ->
           stmt_err s e q via \/
           (exists st1 fuel1,
              pvm_run_until fo code strict_ envv pos0 hi fuel0 st0 = POk st1 /\ ppc st1 = hi /\
              pvm_run fo code strict_ envv pos0 fuel1 st1 = PErr e q via))).
  Proof. exact (pvm_locality_program fo). Qed.

  (* k lines added before the program move the primary position and every VIA entry by exactly k lines *)
  Theorem error_positions_move_with_the_text : forall k fuel strict_ p e q via,
      pvm_prog fo fuel [] strict_ (ptranslate p) = PErr e q via ->
      pvm_prog fo fuel [] strict_ (ptranslate (map (shift_stmt k) p)) =
      PErr e ((fst q + k)%N, snd q) (map (fun v => ((fst v + k)%N, snd v)) via).
  Proof. exact (pvm_shift_error fo). Qed.
End C17_vm.
