(* C04 -- no input makes the compiler crash or hang: the parts that are theorems.
   Totality of the modelled stages (the runtime behaviour of the unmodelled stages is exercised by
   the crash stream of props/c04.py only; see DESIGN). *)
From Ucg Require Import prec.Climb prec.Climb_Lemmas sem.Sem vm.Ops vm.Translate vm.Vm vm.Compile_Correct lex.Lex lex.Lex_Lemmas.
From UcgGen Require Import PrecTable.

(* the precedence climber returns a tree for every chain: the parser's
   `panic!("premature abort parsing Operator expression!")` (precedence.rs) is unreachable *)
Theorem climb_total : forall (A : Type) (a : A) (c : list (op * A)),
    exists t, climb code_prec a c = Some t.
Proof. exact (fun A => climb_total_lemma A code_prec). Qed.

(* integer arithmetic of the definitional semantics never leaves the i64 range:
   every result is either in range or the error outcome *)
Theorem arith_in_range : forall (fo : float_ops) o (x y z : Z),
    arith' fo o (@VInt fo x) (@VInt fo y) = Ok (@VInt fo z) -> in_i64 z = true.
Proof.
  intros fo o x y z H. unfold arith', arith, chk in H.
  destruct o; cbn in H;
    repeat match type of H with
           | context [if ?b then _ else _] => destruct b eqn:?
           end; try discriminate; inversion H; subst; assumption.
Qed.

(* ranges of the definitional semantics stop at the last element that fits an i64 *)
Theorem range_elements_in_range : forall (fo : float_ops) fuel start step stop,
    in_i64 start = true -> Forall (fun v => exists z, v = @VInt fo z /\ in_i64 z = true) (range_from fo fuel start step stop).
Proof.
  intros fo fuel. induction fuel as [|f IH]; intros start step stop Hs; cbn [range_from]; [constructor|].
  destruct (Z.ltb stop start); [constructor|].
  constructor; [exists start; auto|].
  destruct (in_i64 (start + step)) eqn:E; [apply IH, E|constructor].
Qed.

(* the compiled form of a program whose meaning is defined never reaches unreachable!(), a stack
   underflow, an unwrap on None or an invalid jump in the VM model *)
Theorem translate_no_bug :
  forall (fo : float_ops) p E strict_ fs, in_fragment p = true ->
    (exists bs, sem_prog fo fs E strict_ true p = Ok bs) \/ sem_prog fo fs E strict_ true p = Err ->
    forall fv, vm_prog fo fv E strict_ (translate p) <> VBug.
Proof. exact Compile_Correct.translate_no_bug. Qed.

(* the tokenizer model never runs out of fuel: it returns tokens or a diagnostic for every input *)
Theorem lex_total : forall s, lex_fuel (List.length s + 1) s <> OutOfFuel.
Proof. exact Lex_Lemmas.lex_total. Qed.
