(* C08 -- shell-facing output delivers every value as one unaltered word. *)
From Ucg Require Import data.Val shell.Shell shell.Shell_Lemmas.
From UcgGen Require Import ShellChains.

(* the replacement chains read from src/convert/mod.rs TODAY compute the character-wise escapers
   the theorems below are about (all_ascii enumerates all 256 bytes) *)
Lemma all_ascii_complete : forall c, In c all_ascii.
Proof. intros [[] [] [] [] [] [] [] []]; vm_compute; tauto. Qed.

Theorem source_chains_are_escapers :
  chain_ok gen_sq_chain = true /\ chain_ok gen_dq_chain = true /\
  forallb (fun c => bytes_eqb (subst1 gen_sq_chain c) (esc_sq_char c)) all_ascii = true /\
  forallb (fun c => bytes_eqb (subst1 gen_dq_chain c) (esc_dq_char c)) all_ascii = true.
Proof. vm_compute. repeat split. Qed.

Theorem source_sq_is_esc_sq : forall s, apply_chain gen_sq_chain s = esc_sq s.
Proof.
  intros s. destruct source_chains_are_escapers as (H1 & _ & H3 & _).
  rewrite (chain_is_charwise _ H1). unfold charwise, esc_sq.
  induction s as [|c s IH]; [reflexivity|]. cbn [flat_map]. rewrite IH.
  replace (subst1 gen_sq_chain c) with (esc_sq_char c); [reflexivity|].
  symmetry. rewrite forallb_forall in H3. apply Bytes_Lemmas.bytes_eqb_spec, H3, all_ascii_complete.
Qed.

Theorem source_dq_is_esc_dq : forall s, apply_chain gen_dq_chain s = esc_dq s.
Proof.
  intros s. destruct source_chains_are_escapers as (_ & H2 & _ & H4).
  rewrite (chain_is_charwise _ H2). unfold charwise, esc_dq.
  induction s as [|c s IH]; [reflexivity|]. cbn [flat_map]. rewrite IH.
  replace (subst1 gen_dq_chain c) with (esc_dq_char c); [reflexivity|].
  symmetry. rewrite forallb_forall in H4. apply Bytes_Lemmas.bytes_eqb_spec, H4, all_ascii_complete.
Qed.

(* every string, whatever it contains, arrives as exactly one word; nothing is expanded *)
Theorem sq_word : forall s, sh_words (b "'" ++ esc_sq s ++ b "' ") = Words [s].
Proof. exact Shell_Lemmas.sq_word. Qed.

Theorem sq_words : forall ss, sh_words (List.concat (map sq_piece ss)) = Words ss.
Proof. exact Shell_Lemmas.sq_words. Qed.

Theorem dq_value : forall name s, name_ok name = true ->
  sh_words (name ++ b "=""" ++ esc_dq s ++ b """") = Words [name ++ b "=" ++ s].
Proof. exact Shell_Lemmas.dq_value. Qed.

(* env: every scalar field exactly once, in order; skipped fields swallow nothing *)
Theorem env_fields : forall flds, env_fields_ok flds = true ->
  sh_env (env_emit Fixed (VTuple flds)) = Some (scalar_fields flds).
Proof. exact Shell_Lemmas.env_fields_env. Qed.

Theorem flags_words : forall flds out, flags_emit (VTuple flds) = Some out -> flags_ok flds = true ->
  sh_words out = Words (flags_spec flds).
Proof. exact Shell_Lemmas.flags_words. Qed.

Theorem exec_script : forall t out, exec_emit t = Some out ->
  exists flds st cmd envs,
    t = VTuple flds /\ exec_scan flds (mk_exec_parts None None None) = Some st /\
    ep_cmd st = Some cmd /\ exec_env_spec (opt_list (ep_env st)) = Some envs /\
    (exec_ok st = true ->
     exists argws, exec_args_spec (opt_list (ep_args st)) = Some argws /\
       sh_items out = Some (set_cmd :: map assign_of envs ++ [Cmd (b "exec" :: cmd :: argws)])).
Proof. exact Shell_Lemmas.exec_script. Qed.

(* the env converter as first found loses / glues fields *)
Theorem env_legacy_refuted :
  sh_env (env_emit Legacy (VTuple env_lost)) <> Some (scalar_fields env_lost).
Proof. exact (proj2 (proj2 (proj2 (proj2 Shell_Lemmas.env_fields_refuted)))). Qed.
