(* C10 -- bindings are immutable and lexically scoped (stated on the definitional semantics;
   C01's compile-correctness theorems carry them over to the compiled form). *)
From Ucg Require Import sem.Sem sem.Scope_Lemmas.
From Ucg Require bind.Bind bind.Bind_Lemmas bind.Bind_Mutants.
From Ucg Require Import vm.Ops sem.Reserved_Lemmas.
From UcgGen Require Import Reserved.

Section C10.
  Variable fo : float_ops.

  (* every binding that exists keeps its value through any further statements *)
  Theorem bindings_immutable : forall fuel (c : ctx fo) ss s',
      exec_list fo fuel c ss = Ok s' -> extends fo (sc fo c) s'.
  Proof. exact (bindings_immutable_lemma fo). Qed.

  (* a program is its prefix followed by the rest, run in the scope the prefix produced:
     so every binding made by a prefix has the same value in the whole program *)
  Theorem prefix_stable : forall fuel (c : ctx fo) p1 p2 s',
      exec_list fo fuel c (p1 ++ p2) = Ok s' ->
      exists s1, exec_list fo fuel c p1 = Ok s1 /\ extends fo s1 s'.
  Proof.
    intros fuel c p1 p2 s' H. destruct (exec_app_lemma fo _ _ _ _ _ H) as (s1 & H1 & H2).
    exists s1. split; [exact H1|]. apply (bindings_immutable_lemma fo) in H2. exact H2.
  Qed.

  Theorem prefix_failure_propagates : forall fuel (c : ctx fo) p1 p2,
      exec_list fo fuel c p1 = Err -> exec_list fo fuel c (p1 ++ p2) = Err.
  Proof. exact (prefix_failure_propagates_lemma fo). Qed.

  Theorem rebind_is_error : forall fuel (c : ctx fo) x e ss v0,
      lookup fo x (sc fo c) = Some v0 -> forall s', exec_list fo fuel c (SLet x e :: ss) <> Ok s'.
  Proof. exact (rebind_is_error_lemma fo). Qed.

  Theorem reserved_is_error : forall fuel (c : ctx fo) x e ss,
      is_reserved x = true -> forall s', exec_list fo fuel c (SLet x e :: ss) <> Ok s'.
  Proof. exact (reserved_is_error_lemma fo). Qed.

  (* a function body sees its closure and its arguments, nothing of the caller *)
  Theorem func_depends_on_snapshot_and_args : forall fuel (c1 c2 : ctx fo) ps body clo,
      envt fo c1 = envt fo c2 -> strict fo c1 = strict fo c2 -> eq_ordered fo c1 = eq_ordered fo c2 ->
      forall avs s,
        bind_params fo ps avs clo = Ok s ->
        eval fo fuel {| sc := s; self_v := None; envt := envt fo c1; strict := strict fo c1; eq_ordered := eq_ordered fo c1 |} body =
        eval fo fuel {| sc := s; self_v := None; envt := envt fo c2; strict := strict fo c2; eq_ordered := eq_ordered fo c2 |} body.
  Proof. exact (call_ignores_caller_scope fo). Qed.
End C10.

(* the documented reserved words are all rejected as binding names (finite) *)
Theorem documented_reserved_words_rejected :
  forallb is_reserved (map b ["self"; "assert"; "true"; "false"; "let"; "import"; "as"; "in"; "is"; "not"; "fail";
                              "select"; "func"; "module"; "env"; "map"; "filter"; "reduce"; "NULL"; "out";
                              "constraint"; "convert"; "TRACE"]%string) = true.
Proof. vm_compute. reflexivity. Qed.

(* the reserved words of the models are, as a set, the list the real VM consults (gen/Reserved.v is regenerated from
   `fn reserved_words` of vm.rs on every run); every documented reserved word is in that list *)
Theorem reserved_words_are_the_sources :
  (forall x, is_reserved x = existsb (bytes_eqb x) gen_reserved) /\
  (forall x, vm_is_reserved x = existsb (bytes_eqb x) gen_reserved).
Proof. exact (conj reserved_is_generated vm_reserved_is_generated). Qed.

Theorem documented_reserved_words_in_the_sources :
  forallb (fun x => existsb (bytes_eqb x) gen_reserved)
          (map b ["self"; "assert"; "true"; "false"; "let"; "import"; "as"; "in"; "is"; "not"; "fail";
                  "select"; "func"; "module"; "env"; "map"; "filter"; "reduce"; "NULL"; "out";
                  "constraint"; "convert"; "TRACE"]%string) = true.
Proof. vm_compute. reflexivity. Qed.

(* ---- the statement layer of the compiled form: every statement form that binds a name (let, let with a constraint, the
   constraint statement), run through the opcode sequences that translate/t_stmt.py reads off translate_stmt
   (gen/StmtOps.v) and the Bind / BindOver strictness read off vm.rs.  Sub-expressions, the constraint verdict, the empty
   constraint value and the converters are arbitrary (universally quantified). ---- *)
Module Stmt.
  Import bind.Bind bind.Bind_Lemmas bind.Bind_Mutants.
  Section S.
    Variable fo : float_ops.
    Variable sub_expression : Type.
    Variable eval_code : symtab fo -> sub_expression -> outcome (wval fo).
    Variable conforms : wval fo -> wval fo -> bool.
    Variable k_empty : wval fo.
    Variable out_ok : bytes -> wval fo -> bool.
    Notation exec_stmt := (exec_stmt fo sub_expression eval_code conforms k_empty out_ok).
    Notation exec_prog := (exec_prog fo sub_expression eval_code conforms k_empty out_ok).

    Theorem statement_keeps_bindings : forall (s : bstmt sub_expression) (st st' : bstate fo),
        exec_stmt s st = VOk st' ->
        forall x v, sym_get x (bsyms st) = Some v -> sym_get x (bsyms st') = Some v.
    Proof. exact (stmt_keeps_bindings fo sub_expression eval_code conforms k_empty out_ok). Qed.

    Theorem statement_binds_only_its_name : forall (s : bstmt sub_expression) (st st' : bstate fo),
        exec_stmt s st = VOk st' ->
        forall y, stmt_name s <> Some y -> sym_get y (bsyms st') = sym_get y (bsyms st).
    Proof. exact (stmt_binds_only_its_name fo sub_expression eval_code conforms k_empty out_ok). Qed.

    Theorem rebinding_is_error_in_every_form : forall (st : bstate fo) x v0,
        sym_get x (bsyms st) = Some v0 ->
        (forall e st', exec_stmt (BLet x e) st <> VOk st') /\
        (forall e c st', exec_stmt (BLetC x e c) st <> VOk st') /\
        (forall c st', exec_stmt (BConstraint x c) st <> VOk st').
    Proof. exact (rebind_is_error_every_form fo sub_expression eval_code conforms k_empty out_ok). Qed.

    Theorem reserved_word_is_error_in_every_form : forall (st : bstate fo) x,
        vm_is_reserved x = true ->
        (forall e st', exec_stmt (BLet x e) st <> VOk st') /\
        (forall e c st', exec_stmt (BLetC x e c) st <> VOk st') /\
        (forall c st', exec_stmt (BConstraint x c) st <> VOk st').
    Proof. exact (reserved_is_error_every_form fo sub_expression eval_code conforms k_empty out_ok). Qed.

    (* no program with two binding statements of one name, of any two forms at any two places, runs *)
    Theorem program_with_two_bindings_of_a_name_fails : forall p1 (s1 : bstmt sub_expression) p2 s2 p3 x (st : bstate fo),
        stmt_name s1 = Some x -> stmt_name s2 = Some x ->
        forall st', exec_prog (p1 ++ s1 :: p2 ++ s2 :: p3) st <> VOk st'.
    Proof. exact (prog_rebind_is_error fo sub_expression eval_code conforms k_empty out_ok). Qed.

    Theorem program_prefix_stable : forall (p1 p2 : list (bstmt sub_expression)) (st st2 : bstate fo),
        exec_prog (p1 ++ p2) st = VOk st2 ->
        exists st1, exec_prog p1 st = VOk st1 /\ exec_prog p2 st1 = VOk st2 /\
                    forall x v, sym_get x (bsyms st1) = Some v -> sym_get x (bsyms st2) = Some v.
    Proof. exact (prog_prefix_stable fo sub_expression eval_code conforms k_empty out_ok). Qed.

    (* the constraint statement: the value is computed with the name pre-bound to the empty constraint (recursive
       constraints); afterwards the name holds the value and nothing else changed *)
    Theorem constraint_statement_result : forall x (c : sub_expression) (st st' : bstate fo),
        exec_stmt (BConstraint x c) st = VOk st' ->
        vm_is_reserved x = false /\ sym_get x (bsyms st) = None /\
        exists v, eval_code (sym_add x k_empty (bsyms st)) c = VOk v /\
                  st' = {| bstk := bstk st; bsyms := sym_add x v (bsyms st); bout := bout st |} /\
                  sym_get x (bsyms st') = Some v /\
                  (forall y, y <> x -> sym_get y (bsyms st') = sym_get y (bsyms st)).
    Proof. exact (constraint_stmt_result fo sub_expression eval_code conforms k_empty out_ok). Qed.

    Theorem statement_leaves_stack_balanced : forall (s : bstmt sub_expression) (st st' : bstate fo),
        exec_stmt s st = VOk st' -> bstk st' = bstk st.
    Proof. exact (stack_balanced fo sub_expression eval_code conforms k_empty out_ok). Qed.
  End S.
End Stmt.
