(* C10 -- bindings are immutable and lexically scoped (stated on the definitional semantics;
   C01's compile-correctness theorems carry them over to the compiled form). *)
From Ucg Require Import sem.Sem sem.Scope_Lemmas.

Section C10.
  Variable fo : float_ops.

  (* every binding that exists keeps its value through any further statements *)
  Theorem bindings_immutable : forall fuel (c : ctx fo) ss s',
      exec_list fo fuel c ss = Ok s' -> extends fo (sc fo c) s'.
  Proof. exact (bindings_immutable_lemma fo). Qed.

  (* a program is its prefix followed by the rest, run in the scope the prefix produced:
     so every binding made by a prefix has the same value in the whole program *)
  Theorem prefix_stable : forall fuel (c : ctx fo) p1 p2 s',
      exec_list fo fuel c (p1 ++ p2) = Ok s' ->
      exists s1, exec_list fo fuel c p1 = Ok s1 /\ extends fo s1 s'.
  Proof.
    intros fuel c p1 p2 s' H. destruct (exec_app_lemma fo _ _ _ _ _ H) as (s1 & H1 & H2).
    exists s1. split; [exact H1|]. apply (bindings_immutable_lemma fo) in H2. exact H2.
  Qed.

  Theorem prefix_failure_propagates : forall fuel (c : ctx fo) p1 p2,
      exec_list fo fuel c p1 = Err -> exec_list fo fuel c (p1 ++ p2) = Err.
  Proof. exact (prefix_failure_propagates_lemma fo). Qed.

  Theorem rebind_is_error : forall fuel (c : ctx fo) x e ss v0,
      lookup fo x (sc fo c) = Some v0 -> forall s', exec_list fo fuel c (SLet x e :: ss) <> Ok s'.
  Proof. exact (rebind_is_error_lemma fo). Qed.

  Theorem reserved_is_error : forall fuel (c : ctx fo) x e ss,
      is_reserved x = true -> forall s', exec_list fo fuel c (SLet x e :: ss) <> Ok s'.
  Proof. exact (reserved_is_error_lemma fo). Qed.

  (* a function body sees its closure and its arguments, nothing of the caller *)
  Theorem func_depends_on_snapshot_and_args : forall fuel (c1 c2 : ctx fo) ps body clo,
      envt fo c1 = envt fo c2 -> strict fo c1 = strict fo c2 -> eq_ordered fo c1 = eq_ordered fo c2 ->
      forall avs s,
        bind_params fo ps avs clo = Ok s ->
        eval fo fuel {| sc := s; self_v := None; envt := envt fo c1; strict := strict fo c1; eq_ordered := eq_ordered fo c1 |} body =
        eval fo fuel {| sc := s; self_v := None; envt := envt fo c2; strict := strict fo c2; eq_ordered := eq_ordered fo c2 |} body.
  Proof. exact (call_ignores_caller_scope fo). Qed.
End C10.

(* the documented reserved words are all rejected as binding names (finite) *)
Theorem documented_reserved_words_rejected :
  forallb is_reserved (map b ["self"; "assert"; "true"; "false"; "let"; "import"; "as"; "in"; "is"; "not"; "fail";
                              "select"; "func"; "module"; "env"; "map"; "filter"; "reduce"; "NULL"; "out";
                              "constraint"; "convert"; "TRACE"]%string) = true.
Proof. vm_compute. reflexivity. Qed.
