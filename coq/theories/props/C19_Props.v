(* C19 -- the standard-library helpers compute their documented functions.
   Every statement is about the terms of gen/StdLib.v, regenerated from std/*.ucg by the real parser on every run,
   evaluated by the definitional semantics (sem/Sem.v); [lists_scope] etc. are what running a library file leaves bound.
   The helpers that go through import / mod.pkg (zip, slice, has_fields, strings.*, schema.shaped/any/all) are outside
   the semantics and are decided by the reference-function comparison of props/c19.py only. *)
From Ucg Require Import base.Bytes sem.Sem std.Std_Lemmas.
From UcgGen Require Import StdLib.

Section C19.
  Variable fo : float_ops.
  Notation value := (value fo).

  (* the library files themselves evaluate, whatever the environment and mode *)
  Theorem lists_library_loads : forall E st ord, exec_list fo std_fuel (ctx_gen fo E st ord []) std_lists = Ok (lists_scope fo).
  Proof. exact (lists_scope_ok fo). Qed.
  Theorem tuples_library_loads : forall E st ord, exec_list fo std_fuel (ctx_gen fo E st ord []) std_tuples = Ok (tuples_scope fo).
  Proof. exact (tuples_scope_ok fo). Qed.

  Theorem len_is_length : forall E st ord l, fits (Z.of_nat (List.length l)) ->
      exists f, eval fo f (ctx_gen fo E st ord ((b "arg", VList fo l) :: lists_scope fo)) (call1 "len")
                = Ok (VInt fo (Z.of_nat (List.length l))).
  Proof. exact (std_len fo). Qed.

  Theorem reverse_is_rev : forall E st ord l,
      exists f, eval fo f (ctx_gen fo E st ord ((b "arg", VList fo l) :: lists_scope fo)) (call1 "reverse") = Ok (VList fo (rev l)).
  Proof. exact (std_reverse fo). Qed.

  Theorem reverse_involutive : forall E st ord (l : list value),
      exists f, eval fo f (ctx_gen fo E st ord ((b "arg", VList fo l) :: lists_scope fo))
                     (ECall (ESym (b "reverse")) [call1 "reverse"]) = Ok (VList fo l).
  Proof. exact (std_reverse_involutive fo). Qed.

  Theorem head_is_first : forall E st ord l, fits (Z.of_nat (List.length l)) ->
      exists f, eval fo f (ctx_gen fo E st ord ((b "arg", VList fo l) :: lists_scope fo)) (call1 "head")
                = Ok (VList fo (match l with [] => [] | x :: _ => [x] end)).
  Proof. exact (std_head fo). Qed.

  Theorem tail_is_rest : forall E st ord l, fits (Z.of_nat (List.length l)) ->
      exists f, eval fo f (ctx_gen fo E st ord ((b "arg", VList fo l) :: lists_scope fo)) (call1 "tail") = Ok (VList fo (tl l)).
  Proof. exact (std_tail fo). Qed.

  Theorem head_plus_tail : forall E st ord (l : list value), fits (Z.of_nat (List.length l)) ->
      exists f, eval fo f (ctx_gen fo E st ord ((b "arg", VList fo l) :: lists_scope fo))
                     (EBin Add (call1 "head") (call1 "tail")) = Ok (VList fo l).
  Proof. exact (std_head_tail fo). Qed.

  Theorem enumerate_is_indexed : forall E st ord start step l,
      (forall i, (i <= List.length l)%nat -> fits (start + Z.of_nat i * step)) ->
      exists f, eval fo f (ctx_gen fo E st ord ((b "arg3", VList fo l) :: (b "arg2", VInt fo step) :: (b "arg1", VInt fo start)
                                                 :: lists_scope fo)) enumerate_call
                = Ok (ref_enumerate fo start step l).
  Proof. exact (std_enumerate fo). Qed.

  (* separators between the rendered elements, none before the first or after the last - leading empty strings included *)
  Theorem str_join_is_join : forall E st ord sep l ts, Forall2 (renders fo) l ts ->
      exists f, eval fo f (ctx_gen fo E st ord ((b "arg2", VList fo l) :: (b "arg1", VStr fo sep) :: lists_scope fo)) str_join_call
                = Ok (VStr fo (join sep ts)).
  Proof. exact (std_str_join fo). Qed.

  Theorem fields_are_names : forall E st ord fs,
      exists f, eval fo f (ctx_gen fo E st ord ((b "arg", VTuple fo fs) :: tuples_scope fo)) (inst1 "fields" "tpl")
                = Ok (VList fo (map (fun kv => VStr fo (fst kv)) fs)).
  Proof. exact (std_fields fo). Qed.

  Theorem values_are_values : forall E st ord fs,
      exists f, eval fo f (ctx_gen fo E st ord ((b "arg", VTuple fo fs) :: tuples_scope fo)) (inst1 "values" "tpl")
                = Ok (VList fo (map snd fs)).
  Proof. exact (std_values fo). Qed.

  Theorem iter_is_pairs : forall E st ord fs,
      exists f, eval fo f (ctx_gen fo E st ord ((b "arg", VTuple fo fs) :: tuples_scope fo)) (inst1 "iter" "tpl")
                = Ok (VList fo (map (fun kv => VList fo [VStr fo (fst kv); snd kv]) fs)).
  Proof. exact (std_iter fo). Qed.

  Theorem strip_nulls_filters : forall E st ord fs,
      Forall (fun kv => is_closure fo (snd kv) = false) fs ->
      exists f, eval fo f (ctx_gen fo E st ord ((b "arg", VTuple fo fs) :: tuples_scope fo)) (inst1 "strip_nulls" "tpl")
                = Ok (VTuple fo (filter (fun kv => negb (is_null fo (snd kv))) fs)).
  Proof. exact (std_strip_nulls fo). Qed.

  Theorem base_type_of_is_type_name : forall E st ord (v : value),
      exists f, eval fo f (ctx_gen fo E st ord ((b "arg", v) :: schema_scope fo)) (call1 "base_type_of") = Ok (VStr fo (is_name fo v)).
  Proof. exact (std_base_type_of fo). Qed.

  (* finding: the index after the LAST element is computed too, so enumerate fails when only that unused index overflows *)
  Theorem enumerate_last_index_overflow_refuted : forall E st ord (x : value),
      eval fo 12 (ctx_gen fo E st ord ((b "arg3", VList fo [x]) :: (b "arg2", VInt fo 1) :: (b "arg1", VInt fo i64_max)
                                         :: lists_scope fo)) enumerate_call = Err.
  Proof. exact (std_enumerate_overflow_err fo). Qed.
End C19.

(* ---- the helpers that go through `import "std/..."` and `mod.pkg()`: stated on [eval_imp] (std/Sem_Import.v), the definitional
   evaluator extended with an import table (the five library files of gen/StdLib.v, linked) - a copy of sem/Sem.v's fixpoints
   in which only the import case differs, conservative over it. ---- *)
From Ucg Require Import std.Sem_Import std.Sem_Import_Lemmas std.StdSpec_Imp std.Imp_Lists std.Imp_Slice std.Imp_Tuples
     std.Imp_Functional std.Imp_Strings std.Imp_ParseInt std.Imp_Schema std.Imp_SplitOn std.Imp_Ops.

Section C19_imports.
  Variable fo : float_ops.

  (* the extended evaluator agrees with the definitional semantics wherever that gives a verdict *)
  Theorem import_evaluator_is_conservative : forall imports f stk c e r,
      eval fo f c e = r -> r <> Unsup -> eval_imp fo imports f stk c e = r.
  Proof. exact (eval_imp_conservative fo). Qed.

  (* zip: the pairs [x_i, y_i] in order, truncated to the shorter list *)
  Theorem zip_is_pairs : forall E st ord l1 l2,
      fits (Z.of_nat (List.length l1)) -> fits (Z.of_nat (List.length l2)) ->
      (Z.of_nat (Nat.min (List.length l1) (List.length l2)) <= range_limit)%Z ->
      exists f, eval_imp fo std_imports f [] (ctx_gen fo E st ord [(b "arg2", VList fo l2); (b "arg1", VList fo l1)]) zip_call
                = Ok (ref_zip fo l1 l2).
  Proof. exact (std_zip fo). Qed.

  (* slice: inclusive on both ends; the three guards *)
  Theorem slice_is_inclusive_sublist : forall E st ord s e l,
      fits (Z.of_nat (List.length l)) -> (0 <= s <= Z.of_nat (List.length l))%Z -> (e < Z.of_nat (List.length l))%Z ->
      (e - s + 1 <= range_limit)%Z ->
      exists f, eval_imp fo std_imports f [] (ctx_gen fo E st ord [(b "arg3", VList fo l); (b "arg2", VInt fo e); (b "arg1", VInt fo s)]) slice_call
                = Ok (ref_slice fo s e l).
  Proof. exact (std_slice fo). Qed.

  Theorem slice_default_end_is_last_index : forall E st ord s l,
      fits (Z.of_nat (List.length l)) -> (0 <= s <= Z.of_nat (List.length l))%Z -> (Z.of_nat (List.length l) - s <= range_limit)%Z ->
      exists f, eval_imp fo std_imports f [] (ctx_gen fo E st ord [(b "arg3", VList fo l); (b "arg1", VInt fo s)]) slice_call_default
                = Ok (ref_slice fo s (Z.of_nat (List.length l) - 1) l).
  Proof. exact (std_slice_default fo). Qed.

  Theorem has_fields_is_membership : forall E st ord fs fields,
      Forall (fun v => is_closure fo v = false) fields ->
      exists f, eval_imp fo std_imports f [] (ctx_gen fo E st ord [(b "arg2", VList fo fields); (b "arg1", VTuple fo fs)]) has_fields_call
                = Ok (ref_has_fields fo fs fields).
  Proof. exact (std_has_fields fo). Qed.

  Theorem field_type_is_type_of_field : forall E st ord fs field typ,
      NoDup (map fst fs) ->
      exists f, eval_imp fo std_imports f [] (ctx_gen fo E st ord [(b "arg3", VStr fo typ); (b "arg2", VStr fo field); (b "arg1", VTuple fo fs)])
                         field_type_call = Ok (VBool fo (ref_field_type fo fs field typ)).
  Proof. exact (std_field_type_nodup fo). Qed.

  (* functional.maybe: unwrap gives the value back; do skips NULL *)
  Theorem maybe_unwrap_is_value : forall E st ord v,
      exists f, eval_imp fo std_imports f [] (ctx_gen fo E st ord [(b "arg", v)]) (meth maybe_of_arg "unwrap" []) = Ok v.
  Proof. exact (std_maybe_unwrap fo). Qed.

  Theorem maybe_do_skips_null : forall E st ord opv,
      exists f, eval_imp fo std_imports f [] (ctx_gen fo E st ord [(b "op", opv); (b "arg", VNull fo)])
                         (meth (meth maybe_of_arg "do" [ESym (b "op")]) "unwrap" []) = Ok (VNull fo).
  Proof. exact (std_maybe_do_null fo). Qed.

  (* strings count UTF-8 characters, not bytes *)
  Theorem strings_len_counts_characters : forall E st ord s, fits (N s) ->
      exists f, eval_imp fo std_imports f [] (ctx_gen fo E st ord [(b "arg", VStr fo s)]) (EBin DOT wrap_arg (ESym (b "len")))
                = Ok (VInt fo (Z.of_nat (List.length (utf8_chars s)))).
  Proof. exact (std_strings_len fo). Qed.

  Theorem strings_chars_are_characters : forall E st ord s, fits (N s) ->
      exists f, eval_imp fo std_imports f [] (ctx_gen fo E st ord [(b "arg", VStr fo s)]) (EBin DOT wrap_arg (ESym (b "chars")))
                = Ok (VList fo (map (VStr fo) (utf8_chars s))).
  Proof. exact (std_strings_chars fo). Qed.

  Theorem split_at_splits_at_character : forall E st ord s idx, fits (N s) ->
      exists f, eval_imp fo std_imports f [] (ctx_gen fo E st ord [(b "arg2", VInt fo idx); (b "arg", VStr fo s)])
                         (EBin DOT wrap_arg (ECall (ESym (b "split_at")) [ESym (b "arg2")]))
                = Ok (VTuple fo [(b "left", VStr fo (concat (firstn (Z.to_nat idx) (utf8_chars s))));
                                 (b "right", VStr fo (concat (skipn (Z.to_nat idx) (utf8_chars s))))]).
  Proof. exact (std_strings_split_at fo). Qed.

  (* substr{start, end}: the characters (not bytes) whose index lies in the inclusive range start..end *)
  Theorem substr_is_inclusive_character_range : forall E st ord s a b', fits (Z.of_nat (List.length s)) ->
      exists f, eval_imp fo std_imports f []
                  (ctx_gen fo E st ord [(b "arg3", VInt fo b'); (b "arg2", VInt fo a); (b "arg", VStr fo s)])
                  (EBin DOT (EBin DOT wrap_arg (ECopy (ESym (b "substr")) [(b "start", ESym (b "arg2")); (b "end", ESym (b "arg3"))]))
                            (ESym (b "str")))
                = Ok (VStr fo (pick a b' 0 (utf8_chars s))).
  Proof. exact (std_strings_substr fo). Qed.

  (* split_on: the pieces between leftmost, non-overlapping occurrences of the separator (UTF-8 characters) ... *)
  Theorem split_on_is_split : forall E st ord s sep,
      fits (Z.of_nat (List.length s)) -> fits (Z.of_nat (List.length sep)) ->
      exists f, eval_imp fo std_imports f [] (ctx_gen fo E st ord [(b "arg2", VStr fo sep); (b "arg", VStr fo s)]) split_on_call
                = Ok (ref_split_on fo sep s).
  Proof. exact (std_strings_split_on fo). Qed.

  (* parse_int: the value of the leading digits, NULL when there are none *)
  Theorem parse_int_reads_leading_digits : forall E st ord s z,
      fits (Imp_Strings.N s) -> leading_digits (utf8_chars s) <> [] -> parse_int (leading_digits (utf8_chars s)) = Some z ->
      exists f, eval_imp fo std_imports f [] (ctx_gen fo E st ord [(b "arg", VStr fo s)]) parse_int_unwrap = Ok (VInt fo z).
  Proof. exact (std_strings_parse_int fo). Qed.

  Theorem parse_int_without_digits_is_null : forall E st ord s,
      fits (Imp_Strings.N s) -> leading_digits (utf8_chars s) = [] ->
      exists f, eval_imp fo std_imports f [] (ctx_gen fo E st ord [(b "arg", VStr fo s)]) parse_int_unwrap = Ok (VNull fo).
  Proof. exact (std_strings_parse_int_none fo). Qed.

  (* schema.shaped / any / all compute their reference predicates for ALL values (partial matching at every tuple depth) *)
  Theorem shaped_is_reference : forall E st ord v sh p n, vdepth fo v < n ->
      exists f, eval_imp fo std_imports f [] (ctx_gen fo E st ord [(b "arg3", VBool fo p); (b "arg2", sh); (b "arg1", v)]) shaped_call
                = Ok (VBool fo (ref_shaped fo n p v sh)).
  Proof. exact (std_schema_shaped fo). Qed.

  Theorem any_is_reference : forall E st ord v ts p n, vdepth fo v < n ->
      exists f, eval_imp fo std_imports f [] (ctx_gen fo E st ord [(b "arg3", VBool fo p); (b "arg2", VList fo ts); (b "arg1", v)]) any_call
                = Ok (VBool fo (ref_any fo n p v ts)).
  Proof. exact (std_schema_any fo). Qed.

  Theorem all_is_reference : forall E st ord v ts n, vdepth fo v < n ->
      exists f, eval_imp fo std_imports f [] (ctx_gen fo E st ord [(b "arg2", VList fo ts); (b "arg1", v)]) all_call
                = Ok (VBool fo (ref_all fo n v ts)).
  Proof. exact (std_schema_all fo). Qed.

  (* ---- schema.must, tuples.assert_tuple and the `ops` wrappers of std/tuples.ucg and std/lists.ucg (std/Imp_Ops.v).
     Function-parameter constraints (`m :: false`, `tpl :: {}`) are not part of the ASTs of gen/StdLib.v, so the obligations
     are stated on the arguments those constraints admit (booleans for must; every value for assert_tuple, where the
     constraint and the body reject the same values). ---- *)
  Theorem must_true_is_true : forall E st ord msg,
      exists f, eval_imp fo std_imports f [] (ctx_gen fo E st ord [(b "arg2", msg); (b "arg1", VBool fo true)]) must_call = Ok (VBool fo true).
  Proof. exact (std_must_true fo). Qed.

  Theorem must_false_fails : forall E st ord msg,
      exists f, eval_imp fo std_imports f [] (ctx_gen fo E st ord [(b "arg2", msg); (b "arg1", VBool fo false)]) must_call = Err.
  Proof. exact (std_must_false fo). Qed.

  Theorem must_false_never_succeeds : forall E st ord msg f v,
      eval_imp fo std_imports f [] (ctx_gen fo E st ord [(b "arg2", msg); (b "arg1", VBool fo false)]) must_call <> Ok v.
  Proof. intros E st ord msg. exact (std_must_rejects_never_ok fo E st ord (VBool fo false) msg eq_refl). Qed.

  Theorem assert_tuple_accepts_every_tuple : forall E st ord fs,
      exists f, eval_imp fo std_imports f [] (ctx_gen fo E st ord [(b "arg", VTuple fo fs)]) assert_tuple_call = Ok (VNull fo).
  Proof. exact (std_assert_tuple_tuple fo). Qed.

  Theorem assert_tuple_never_accepts_a_non_tuple : forall E st ord v, is_tuple_v fo v = false ->
      forall f w, eval_imp fo std_imports f [] (ctx_gen fo E st ord [(b "arg", v)]) assert_tuple_call <> Ok w.
  Proof. exact (std_assert_tuple_other_never_ok fo). Qed.

  (* tuples.ops{tpl=t}: fields() / values() / iter() are the names, the values and the [name, value] pairs of t in order *)
  Theorem tuples_ops_fields_is_names : forall E st ord fs,
      exists f, eval_imp fo std_imports f [] (ctx_gen fo E st ord [(b "arg", VTuple fo fs)]) (meth0 tops_of_arg "fields")
                = Ok (VList fo (map (fun kv => VStr fo (fst kv)) fs)).
  Proof. exact (std_tuples_ops_fields fo). Qed.

  Theorem tuples_ops_values_is_values : forall E st ord fs,
      exists f, eval_imp fo std_imports f [] (ctx_gen fo E st ord [(b "arg", VTuple fo fs)]) (meth0 tops_of_arg "values")
                = Ok (VList fo (map snd fs)).
  Proof. exact (std_tuples_ops_values fo). Qed.

  Theorem tuples_ops_iter_is_pairs : forall E st ord fs,
      exists f, eval_imp fo std_imports f [] (ctx_gen fo E st ord [(b "arg", VTuple fo fs)]) (meth0 tops_of_arg "iter")
                = Ok (VList fo (map (fun kv => VList fo [VStr fo (fst kv); snd kv]) fs)).
  Proof. exact (std_tuples_ops_iter fo). Qed.

  (* lists.ops{list=l}: len, list, head(), tail().list, reverse().list *)
  Theorem lists_ops_len_is_length : forall E st ord l, fits (Z.of_nat (List.length l)) ->
      exists f, eval_imp fo std_imports f [] (ctx_gen fo E st ord [(b "arg", VList fo l)]) (fld lops_of_arg "len")
                = Ok (VInt fo (Z.of_nat (List.length l))).
  Proof. exact (std_lists_ops_len fo). Qed.

  Theorem lists_ops_list_is_the_list : forall E st ord l, fits (Z.of_nat (List.length l)) ->
      exists f, eval_imp fo std_imports f [] (ctx_gen fo E st ord [(b "arg", VList fo l)]) (fld lops_of_arg "list") = Ok (VList fo l).
  Proof. exact (std_lists_ops_list fo). Qed.

  Theorem lists_ops_head_is_first : forall E st ord l, fits (Z.of_nat (List.length l)) ->
      exists f, eval_imp fo std_imports f [] (ctx_gen fo E st ord [(b "arg", VList fo l)]) (meth0 lops_of_arg "head")
                = Ok (VList fo (match l with [] => [] | x :: _ => [x] end)).
  Proof. exact (std_lists_ops_head fo). Qed.

  Theorem lists_ops_tail_is_rest : forall E st ord l, fits (Z.of_nat (List.length l)) ->
      exists f, eval_imp fo std_imports f [] (ctx_gen fo E st ord [(b "arg", VList fo l)]) (fld (meth0 lops_of_arg "tail") "list")
                = Ok (VList fo (tl l)).
  Proof. exact (std_lists_ops_tail_list fo). Qed.

  Theorem lists_ops_reverse_is_rev : forall E st ord l, fits (Z.of_nat (List.length l)) ->
      exists f, eval_imp fo std_imports f [] (ctx_gen fo E st ord [(b "arg", VList fo l)]) (fld (meth0 lops_of_arg "reverse") "list")
                = Ok (VList fo (rev l)).
  Proof. exact (std_lists_ops_reverse_list fo). Qed.

  (* finding (documented, both builds fail or misbehave): the third guard of slice lets end = len through *)
  Theorem slice_end_equal_length_refuted : forall E ord,
      let l := [VInt fo 0; VInt fo 1; VInt fo 2; VInt fo 3] in
      eval_imp fo std_imports 60 [] (ctx_gen fo E true ord [(b "arg3", VList fo l); (b "arg2", VInt fo 4); (b "arg1", VInt fo 0)]) slice_call = Err /\
      eval_imp fo std_imports 60 [] (ctx_gen fo E false ord [(b "arg3", VList fo l); (b "arg2", VInt fo 4); (b "arg1", VInt fo 0)]) slice_call
      = Ok (VList fo [VInt fo 0; VInt fo 1; VInt fo 2; VInt fo 3; VNull fo]).
  Proof. exact (std_slice_end_is_len_refuted fo). Qed.
End C19_imports.

(* ... and joining them with the separator gives the string back *)
Theorem split_on_then_join_is_identity : forall s sep : bytes, sep <> [] ->
    join sep (split_go (S (List.length s)) sep (List.length (utf8_chars sep)) [] [] (utf8_chars s)) = s.
Proof. exact std_split_on_join. Qed.
