(* C19 -- the standard-library helpers compute their documented functions.
   Every statement is about the terms of gen/StdLib.v, regenerated from std/*.ucg by the real parser on every run,
   evaluated by the definitional semantics (sem/Sem.v); [lists_scope] etc. are what running a library file leaves bound.
   The helpers that go through import / mod.pkg (zip, slice, has_fields, strings.*, schema.shaped/any/all) are outside
   the semantics and are decided by the reference-function comparison of props/c19.py only. *)
From Ucg Require Import base.Bytes sem.Sem std.Std_Lemmas.
From UcgGen Require Import StdLib.

Section C19.
  Variable fo : float_ops.
  Notation value := (value fo).

  (* the library files themselves evaluate, whatever the environment and mode *)
  Theorem lists_library_loads : forall E st ord, exec_list fo std_fuel (ctx_gen fo E st ord []) std_lists = Ok (lists_scope fo).
  Proof. exact (lists_scope_ok fo). Qed.
  Theorem tuples_library_loads : forall E st ord, exec_list fo std_fuel (ctx_gen fo E st ord []) std_tuples = Ok (tuples_scope fo).
  Proof. exact (tuples_scope_ok fo). Qed.

  Theorem len_is_length : forall E st ord l, fits (Z.of_nat (List.length l)) ->
      exists f, eval fo f (ctx_gen fo E st ord ((b "arg", VList fo l) :: lists_scope fo)) (call1 "len")
                = Ok (VInt fo (Z.of_nat (List.length l))).
  Proof. exact (std_len fo). Qed.

  Theorem reverse_is_rev : forall E st ord l,
      exists f, eval fo f (ctx_gen fo E st ord ((b "arg", VList fo l) :: lists_scope fo)) (call1 "reverse") = Ok (VList fo (rev l)).
  Proof. exact (std_reverse fo). Qed.

  Theorem reverse_involutive : forall E st ord (l : list value),
      exists f, eval fo f (ctx_gen fo E st ord ((b "arg", VList fo l) :: lists_scope fo))
                     (ECall (ESym (b "reverse")) [call1 "reverse"]) = Ok (VList fo l).
  Proof. exact (std_reverse_involutive fo). Qed.

  Theorem head_is_first : forall E st ord l, fits (Z.of_nat (List.length l)) ->
      exists f, eval fo f (ctx_gen fo E st ord ((b "arg", VList fo l) :: lists_scope fo)) (call1 "head")
                = Ok (VList fo (match l with [] => [] | x :: _ => [x] end)).
  Proof. exact (std_head fo). Qed.

  Theorem tail_is_rest : forall E st ord l, fits (Z.of_nat (List.length l)) ->
      exists f, eval fo f (ctx_gen fo E st ord ((b "arg", VList fo l) :: lists_scope fo)) (call1 "tail") = Ok (VList fo (tl l)).
  Proof. exact (std_tail fo). Qed.

  Theorem head_plus_tail : forall E st ord (l : list value), fits (Z.of_nat (List.length l)) ->
      exists f, eval fo f (ctx_gen fo E st ord ((b "arg", VList fo l) :: lists_scope fo))
                     (EBin Add (call1 "head") (call1 "tail")) = Ok (VList fo l).
  Proof. exact (std_head_tail fo). Qed.

  Theorem enumerate_is_indexed : forall E st ord start step l,
      (forall i, (i <= List.length l)%nat -> fits (start + Z.of_nat i * step)) ->
      exists f, eval fo f (ctx_gen fo E st ord ((b "arg3", VList fo l) :: (b "arg2", VInt fo step) :: (b "arg1", VInt fo start)
                                                 :: lists_scope fo)) enumerate_call
                = Ok (ref_enumerate fo start step l).
  Proof. exact (std_enumerate fo). Qed.

  (* separators between the rendered elements, none before the first or after the last - leading empty strings included *)
  Theorem str_join_is_join : forall E st ord sep l ts, Forall2 (renders fo) l ts ->
      exists f, eval fo f (ctx_gen fo E st ord ((b "arg2", VList fo l) :: (b "arg1", VStr fo sep) :: lists_scope fo)) str_join_call
                = Ok (VStr fo (join sep ts)).
  Proof. exact (std_str_join fo). Qed.

  Theorem fields_are_names : forall E st ord fs,
      exists f, eval fo f (ctx_gen fo E st ord ((b "arg", VTuple fo fs) :: tuples_scope fo)) (inst1 "fields" "tpl")
                = Ok (VList fo (map (fun kv => VStr fo (fst kv)) fs)).
  Proof. exact (std_fields fo). Qed.

  Theorem values_are_values : forall E st ord fs,
      exists f, eval fo f (ctx_gen fo E st ord ((b "arg", VTuple fo fs) :: tuples_scope fo)) (inst1 "values" "tpl")
                = Ok (VList fo (map snd fs)).
  Proof. exact (std_values fo). Qed.

  Theorem iter_is_pairs : forall E st ord fs,
      exists f, eval fo f (ctx_gen fo E st ord ((b "arg", VTuple fo fs) :: tuples_scope fo)) (inst1 "iter" "tpl")
                = Ok (VList fo (map (fun kv => VList fo [VStr fo (fst kv); snd kv]) fs)).
  Proof. exact (std_iter fo). Qed.

  Theorem strip_nulls_filters : forall E st ord fs,
      Forall (fun kv => is_closure fo (snd kv) = false) fs ->
      exists f, eval fo f (ctx_gen fo E st ord ((b "arg", VTuple fo fs) :: tuples_scope fo)) (inst1 "strip_nulls" "tpl")
                = Ok (VTuple fo (filter (fun kv => negb (is_null fo (snd kv))) fs)).
  Proof. exact (std_strip_nulls fo). Qed.

  Theorem base_type_of_is_type_name : forall E st ord (v : value),
      exists f, eval fo f (ctx_gen fo E st ord ((b "arg", v) :: schema_scope fo)) (call1 "base_type_of") = Ok (VStr fo (is_name fo v)).
  Proof. exact (std_base_type_of fo). Qed.

  (* finding: the index after the LAST element is computed too, so enumerate fails when only that unused index overflows *)
  Theorem enumerate_last_index_overflow_refuted : forall E st ord (x : value),
      eval fo 12 (ctx_gen fo E st ord ((b "arg3", VList fo [x]) :: (b "arg2", VInt fo 1) :: (b "arg1", VInt fo i64_max)
                                         :: lists_scope fo)) enumerate_call = Err.
  Proof. exact (std_enumerate_overflow_err fo). Qed.
End C19.
