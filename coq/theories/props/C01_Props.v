(* C01 -- compiled evaluation equals the language's definitional semantics.
   sem/Sem.v        : definitional big-step evaluator written from the reference
   vm/Translate.v   : model of src/build/opcode/translate.rs
   vm/Vm.v          : model of src/build/opcode/{vm,runtime,pointer,scope}.rs
   The theorems hold for every float interface [fo] (no float laws are used). *)
From Ucg Require Import sem.Sem vm.Ops vm.Translate vm.Vm vm.Compile_Rel vm.Compile_Correct.

Section C01.
  Variable fo : float_ops.

  (* For every program of the fragment (all of: arithmetic, comparison, short-circuit booleans,
     selectors, select with default, functions closing over their definition-time scope, copy with
     self, modules with parameters, out expressions and mod.this, map/filter/reduce over lists, tuples
     and strings, both format forms, ranges, casts, in/is, fail; excluded: import/include/convert/
     out/assert/regex hooks, which the semantics answers Unsup for):
       - if the semantics binds values, the compiled program run by the VM binds related values,
       - if the semantics fails, the compiled program fails. *)
  Theorem compile_correct :
    forall p E strict_ fs, in_fragment p = true ->
      (forall bs, sem_prog fo fs E strict_ true p = Ok bs ->
         exists fv bs', vm_prog fo fv E strict_ (translate p) = VOk bs' /\ represents fo p bs bs') /\
      (sem_prog fo fs E strict_ true p = Err -> exists fv, vm_prog fo fv E strict_ (translate p) = VErr).
  Proof. exact (compile_correct_module fo). Qed.

  (* the compiled form of a well-defined program never reaches unreachable!(), a stack underflow,
     an unwrap on None or an invalid jump *)
  Theorem translate_no_bug :
    forall p E strict_ fs, in_fragment p = true ->
      (exists bs, sem_prog fo fs E strict_ true p = Ok bs) \/ sem_prog fo fs E strict_ true p = Err ->
      forall fv, vm_prog fo fv E strict_ (translate p) <> VBug.
  Proof. exact (Compile_Correct.translate_no_bug fo). Qed.

  (* the milestones, kept as separate obligations so that a regression is localised *)
  Theorem compile_correct_core : compile_correct_for fo in_core.
  Proof. exact (Compile_Correct.compile_correct_core fo). Qed.
  Theorem compile_correct_copy : compile_correct_for fo in_copy.
  Proof. exact (Compile_Correct.compile_correct_copy fo). Qed.
  Theorem compile_correct_func : compile_correct_for fo in_func.
  Proof. exact (Compile_Correct.compile_correct_func fo). Qed.
  Theorem compile_correct_hof : compile_correct_for fo in_hof.
  Proof. exact (Compile_Correct.compile_correct_hof fo). Qed.
  Theorem compile_correct_format : compile_correct_for fo in_format.
  Proof. exact (Compile_Correct.compile_correct_format fo). Qed.
End C01.

Theorem translate_app : forall p1 p2, translate (p1 ++ p2) = translate p1 ++ translate p2.
Proof. exact Compile_Correct.translate_app. Qed.
