(* C05 -- formatting a file never changes its meaning or loses its comments.
   print/Print.v models the AST printer (byte-exact for comment-free programs), the tokenizer's comment map (on top of the proved
   lexer model) and the printer's comment scheduler.  Proved here: everything the printer writes for a leaf of the AST
   re-tokenizes to the token it came from; expressions of the token-level fragment print to their own token sequence; every
   comment of the source is in the comment map and is emitted exactly once whatever the printer's call sequence; comment text is
   a fixed point.  That the PARSER rebuilds the same tree from those tokens, and the fixed point of whole files, are decided
   against the implementation by props/c05.py (the parser is not modelled). *)
From Coq Require Import List.
From Ucg Require Import base.Bytes prec.Climb sem.Ast lex.Lex_Types lex.Lex lex.Lex_Lemmas lex.Lex_Comments print.Print print.Print_Lemmas.
Import ListNotations.

(* a string literal is written so that it lexes back to the same bytes, for every byte string *)
Theorem string_literal_reads_back : forall s : bytes,
    lex (dq :: escape_quotes s ++ [dq]) =
    Some [ {| typ := QUOTED; frag := s; line := 1%N; col := 1%N; off := 0%N |};
           mk_tok END [] (advance ps0 (dq :: escape_quotes s ++ [dq])) ].
Proof. exact string_literal_roundtrip. Qed.

(* a field name, quoted or not as the printer decides, re-tokenizes as one name token *)
Theorem field_name_reads_back : forall k x,
    strip_lex (field_name k ++ sp :: x) = option_map (cons (name_tok k)) (strip_lex (sp :: x)).
Proof. exact field_name_roundtrip. Qed.

Theorem int_literal_reads_back : forall z, (0 <= z)%Z -> strip_lex (dec_of_Z z) = Some [(DIGIT, dec_of_Z z); tk_end].
Proof. exact int_literal_ok. Qed.

(* every finite non-negative float the parser can produce is written as digits . digits, which lexes as a float literal *)
Theorem float_literal_reads_back : forall bits, parser_float bits = true ->
    exists d1 d2, digit_string d1 /\ digit_string d2 /\ float_text bits = d1 ++ dot :: d2 /\
                  strip_lex (float_text bits) = Some [(DIGIT, d1); (PUNCT, b "."); (DIGIT, d2); tk_end].
Proof. exact finite_float_literal_ok. Qed.

(* an expression of the token-level fragment prints to exactly its own tokens, at any indentation *)
Theorem expression_prints_its_tokens : forall ind cur e,
    frag_ok e = true -> strip_lex (pp_expr ind cur e) = Some (toks e ++ [tk_end]).
Proof. exact pp_tokens_roundtrip. Qed.

(* the scheduler: whatever lines the printer asks about, in whatever order, every comment group is emitted exactly once *)
Theorem scheduler_emits_every_group_once : forall m cs, ascending m ->
    let '(_, _, st) := run_render m cs in emitted st = m /\ pending st = [].
Proof. exact schedule_emits_all_once. Qed.

(* end to end from the source text: the comments emitted are exactly the COMMENT tokens of the source, in order *)
Theorem every_comment_emitted_once : forall src toks m cs,
    lex_all src = Some toks -> comment_map_of src = Some m ->
    let '(_, _, st) := run_render m cs in
    flat_map snd (emitted st) = map frag (filter is_comment_tok toks) /\ pending st = [].
Proof. exact comments_all_emitted_once. Qed.

(* ... and a comment of the source text (// body LF starting at a token boundary, also directly after a keyword) is among them *)
Theorem source_comment_is_emitted : forall src toks m cs t pre body rest,
    lex_all src = Some toks -> comment_map_of src = Some m -> In t toks ->
    src = pre ++ b "//" ++ body ++ nl :: rest -> no_nl body = true -> N.to_nat (off t) = List.length pre ->
    let '(_, _, st) := run_render m cs in In (chomp_cr body) (flat_map snd (emitted st)) /\ pending st = [].
Proof. exact source_comments_all_emitted. Qed.

(* the text of a comment is a fixed point of print-then-lex (blank comments included) *)
Theorem comment_text_is_fixed_point : forall frag0, relex_body (relex_body frag0) = relex_body frag0.
Proof. exact comment_text_fixed. Qed.

(* without comments the positions recorded in the AST do not influence the output *)
Theorem positions_do_not_matter_without_comments : forall stmts,
    render_with_comments [] stmts = join_with [nl] (map snd stmts).
Proof. exact positions_irrelevant_without_comments. Qed.

(* the finiteness hypothesis is needed: infinity would be written inf.0, a selector on a name *)
Theorem infinity_is_not_a_literal_refuted : parser_float f64_pos_inf = false /\ float_text f64_pos_inf = b "inf.0".
Proof. destruct float_infinity_not_a_literal as (H1 & H2 & _). split; assumption. Qed.

(* ---- the parser (parse/Parse.v: src/parse/mod.rs and precedence.rs combinator by combinator, compared with the real parser on
   accept/reject and on the tree for every laid-out text by props/c05.py) and the print / parse round trip ---- *)
From Ucg Require Import parse.Parse parse.Parse_Toks parse.Parse_Lemmas.
From UcgGen Require Import PrecTable.

(* token level, the WHOLE language: the tokens the printer writes for a program parse back to that program (templates kept as
   the raw text the parser keeps), for every program inside the executable side condition prog_ok *)
Theorem printed_tokens_parse_back : forall ind (p : Ast.prog),
    prog_ok ind p = true -> parse (ptoks ind p ++ [(END, [])]) = Parsed (pnorm ind p).
Proof. exact parse_tokens_of_prog. Qed.

(* every binary tree the parser builds is the tree the precedence table prescribes (so parser-built trees always satisfy the
   side condition of the round trip) *)
Theorem parser_builds_table_conforming_trees : forall fuel ts e r,
    p_expr fuel ts = Ok e r -> Climb.WF code_prec (tree_of e).
Proof. exact parse_produces_wf. Qed.

(* text level: wherever printing then lexing gives the program's tokens, formatting preserves the program ... *)
Theorem formatting_preserves_the_program_given_tokens : forall ind (p : Ast.prog),
    lex_of_print ind p -> prog_ok ind p = true -> parse_src (pp_stmts ind p) = Parsed (pnorm ind p).
Proof. exact fmt_preserves_ast_of_tokens. Qed.

(* ... unconditionally on the fragment where the lexer side is proved (literals, symbols, lists, tuples, groups, all 18 operators;
   let / expression / assert / out statements) *)
Theorem formatting_preserves_the_program : forall ind (p : Ast.prog),
    frag_prog p = true -> prog_ok ind p = true -> parse_src (pp_stmts ind p) = Parsed p.
Proof. exact fmt_preserves_ast. Qed.

Theorem formatting_is_a_fixed_point : forall ind (p p' : Ast.prog),
    frag_prog p = true -> prog_ok ind p = true -> parse_src (pp_stmts ind p) = Parsed p' -> pp_stmts ind p' = pp_stmts ind p.
Proof. exact fmt_fixed_point. Qed.

(* ---- text level for the WHOLE language (parse/Parse_Lex.v): printing then lexing gives the program's tokens for every construct,
   hence formatting preserves the program and is a fixed point.  [lex_ok_prog] is the executable text-level side condition (names
   are lexable words, floats are finite); [pnorm] keeps a format template as the raw text the parser keeps, and [pp_stmts_raw] is
   the printer writing such a raw template verbatim (as AstPrinter writes FormatDef.template). ---- *)
From Ucg Require Import parse.Parse_Lex.

Theorem printed_text_lexes_to_the_programs_tokens : forall ind (p : Ast.prog),
    lex_ok_prog p = true -> prog_ok ind p = true -> lex_of_print ind p.
Proof. exact lex_of_print_ok. Qed.

Theorem formatting_preserves_every_program : forall ind (p : Ast.prog),
    lex_ok_prog p = true -> prog_ok ind p = true -> parse_src (pp_stmts ind p) = Parsed (pnorm ind p).
Proof. exact fmt_preserves_ast_all. Qed.

Theorem formatting_is_a_fixed_point_for_every_program : forall ind (p p' : Ast.prog),
    lex_ok_prog p = true -> prog_ok ind p = true -> parse_src (pp_stmts ind p) = Parsed p' -> pp_stmts_raw ind p' = pp_stmts ind p.
Proof. exact fmt_fixed_point_all. Qed.
