(* C02 -- operator chains group by the published precedence table, left to right.
   This file contains only the property theorems, each closed by [exact]. *)
From Ucg Require Import prec.Climb prec.Climb_Lemmas.
From UcgGen Require Import PrecTable DocPrecTable.

(* The table in the code is the table in the reference (both regenerated from /repo). *)
Theorem code_table_is_reference :
  forallb (fun o => Nat.eqb (code_prec o) (doc_prec o)) all_ops = true.
Proof. vm_compute. reflexivity. Qed.

Theorem all_ops_complete : forall o : op, In o all_ops.
Proof. intros o; destruct o; vm_compute; tauto. Qed.

(* the climber returns a tree for every chain ... *)
Theorem climb_total : forall (A : Type) (a : A) (c : list (op * A)),
    exists t, climb code_prec a c = Some t.
Proof. exact (fun A => climb_total_lemma A code_prec). Qed.

(* ... whose in-order reading is the chain, and which respects the table:
   right children strictly tighter, left children at least as tight *)
Theorem climb_sound : forall (A : Type) (a : A) (c : list (op * A)) (t : tree A),
    climb code_prec a c = Some t -> yield t = (a, c) /\ WF code_prec t.
Proof. exact (fun A => climb_sound_lemma A code_prec). Qed.

(* there is only one such tree, so "grouped exactly as the table says" determines it *)
Theorem wf_unique : forall (A : Type) (t1 t2 : tree A),
    WF doc_prec t1 -> WF doc_prec t2 -> yield t1 = yield t2 -> t1 = t2.
Proof. exact (fun A => wf_unique_lemma A doc_prec). Qed.

(* the grouping depends only on the operators, never on the operands *)
Theorem shape_operand_independent :
  forall (A B : Type) (a : A) (a' : B) (c : list (op * A)) (c' : list (op * B)),
    map fst c = map fst c' ->
    option_map (@shape_of A) (climb code_prec a c) = option_map (@shape_of B) (climb code_prec a' c').
Proof. exact (fun A B => shape_operand_independent_lemma A B code_prec). Qed.

(* non-vacuity: a chain that exercises every level *)
Example climb_example :
  option_map (@shape_of nat) (climb code_prec 0 [(Add, 1); (Mul, 2); (DOT, 3); (Equal, 4); (AND, 5); (Sub, 6)])
  = Some (SNode Equal
            (SNode Add SLeaf (SNode Mul SLeaf (SNode DOT SLeaf SLeaf)))
            (SNode Sub (SNode AND SLeaf SLeaf) SLeaf)).
Proof. vm_compute. reflexivity. Qed.

(* the parser model as a whole (parse/Parse.v, compared with the real parser on every laid-out text by props/c05.py) hands its
   operator chains to this climber: every binary tree it builds is the tree the table prescribes *)
From Ucg Require Import parse.Parse parse.Parse_Toks parse.Parse_Lemmas.
Theorem parser_trees_respect_the_table : forall fuel ts e r,
    p_expr fuel ts = Ok e r -> WF code_prec (tree_of e).
Proof. exact parse_produces_wf. Qed.
