(* C11 -- tokens carry their exact text and location; layout does not matter.
   All statements are about the model lex/Lex.v, whose recogniser table is regenerated from
   src/tokenizer/mod.rs on every run (gen/LexVocab.v). *)
From Coq Require Import Sorting.Sorted.
From Ucg Require Import base.Bytes lex.Lex_Types lex.Vocab lex.Lex lex.Lex_Lemmas.

Theorem lex_total : forall s, lex_fuel (List.length s + 1) s <> OutOfFuel.
Proof. exact Lex_Lemmas.lex_total. Qed.

(* every byte string -- non-ASCII included -- written as a literal comes back byte for byte *)
Theorem string_decode : forall v,
  lex (b """" ++ encode_str v ++ b """") =
  Some [ mk_tok QUOTED v ps0 ; mk_tok END [] (advance ps0 (b """" ++ encode_str v ++ b """")) ].
Proof. exact Lex_Lemmas.string_decode. Qed.

(* the value of a literal is its body with exactly the documented escapes decoded *)
Theorem decode_spec : forall body, closed_body body = true ->
  lex (dq :: body ++ [dq]) =
  Some [ mk_tok QUOTED (decode_doc body) ps0 ; mk_tok END [] (advance ps0 (dq :: body ++ [dq])) ].
Proof. exact Lex_Lemmas.decode_spec. Qed.

(* every token reports the line, column (in bytes) and byte offset where it really starts *)
Theorem positions_exact : forall src toks, lex src = Some toks ->
  Forall (token_ok src) toks /\ StronglySorted off_lt toks.
Proof. exact Lex_Lemmas.positions_exact. Qed.

(* adjacent characters always form the longest operator, whatever follows *)
Theorem longest_operator : forall o, In o multi_ops -> forall ps rest,
  first_tok ps (b o ++ rest) = Some (mk_tok PUNCT (b o) ps, rest, advance ps (b o)).
Proof. exact Lex_Lemmas.longest_operator. Qed.

(* all pairs of vocabulary tokens: glued they lex to the two tokens iff no separator is needed;
   with one blank they always do *)
Theorem pairs_exhaustive : forall a b0, In a pair_vocab -> In b0 pair_vocab ->
  (strip_lex (src_of a ++ src_of b0) = Some [a; b0; tk_end] <-> needs_sep a b0 = false) /\
  strip_lex (src_of a ++ sp :: src_of b0) = Some [a; b0; tk_end].
Proof. exact Lex_Lemmas.pairs_exhaustive. Qed.

(* inserting or removing whitespace and comments between tokens never changes the token sequence *)
Theorem layout_irrelevant : forall ts l1 l2,
  forallb wf_tk ts = true -> valid_layout ts l1 = true -> valid_layout ts l2 = true ->
  option_map (map strip) (lex (render ts l1)) = option_map (map strip) (lex (render ts l2)) /\
  option_map (map strip) (lex (render ts l1)) = Some (ts ++ [tk_end]).
Proof. exact Lex_Lemmas.layout_irrelevant. Qed.

Theorem relayout : forall src toks, lex src = Some toks ->
  forall l, valid_layout (removelast (map strip toks)) l = true ->
  strip_lex (render (removelast (map strip toks)) l) = Some (map strip toks).
Proof. exact Lex_Lemmas.relayout. Qed.

(* ---- whitespace and comments are tokens of the unfiltered stream: nothing of the source is skipped ---- *)
From Ucg Require Import lex.Lex_Shift lex.Lex_Comments lex.Lex_KwFlag.

(* the tokens of lex_all tile the source: their texts, concatenated, are the source, each token is what the recogniser
   table yields at its own offset *)
Theorem tokens_tile_the_source : forall src toks, lex_all src = Some toks ->
  exists body e ks, toks = body ++ [e] /\ e = mk_tok END [] (pos_of src) /\
                    List.concat ks = src /\ tiles src 0 body ks.
Proof. exact lex_all_tiles. Qed.

(* a comment is a COMMENT token wherever it starts at a token boundary - also directly after a keyword *)
Theorem comment_is_a_token : forall src toks t pre body rest,
  lex_all src = Some toks -> In t toks ->
  src = pre ++ b "//" ++ body ++ nl :: rest -> no_nl body = true ->
  N.to_nat (off t) = List.length pre ->
  typ t = COMMENT /\ frag t = chomp_cr body.
Proof. exact comment_at_boundary_is_token. Qed.

Theorem comment_after_keyword_kept : forall ty lit body rest toks,
  In (RTextWS ty lit) recognisers -> no_nl body = true ->
  lex_all (b lit ++ b "//" ++ body ++ [nl] ++ rest) = Some toks ->
  exists tl, toks = mk_tok ty (b lit) ps0 :: mk_tok COMMENT (chomp_cr body) (advance ps0 (b lit)) :: tl.
Proof. exact glued_comment_is_token. Qed.

(* the filtered token stream does not depend on whether keywords consume or only look at what follows them *)
Theorem filtered_stream_independent_of_keyword_lookahead : forall kw s, lex_g kw s = lex s.
Proof. exact lex_filtered_unchanged. Qed.
