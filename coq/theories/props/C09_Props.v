(* C09 -- imports resolve against the importing file, run once, and cycles are errors.
   (path normalisation and the AST walker's coverage; the import state machine is in env/Import.v) *)
From Ucg Require Import base.Bytes path.Path path.Path_Lemmas walk.Walk walk.Walk_Lemmas.
From UcgGen Require Import WalkTable.

(* every field of every Expression / Statement variant that can hold a sub-expression is descended into
   by the walker that rewrites relative import/include paths (table regenerated from the sources) *)
Theorem walker_covers_all_children : covers walk_table = true.
Proof. vm_compute. reflexivity. Qed.

(* hence the walker visits every node of every AST *)
Theorem rewrite_reaches_every_node :
  forall t, wf_rose walk_table t = true -> visit walk_table t = nodes t.
Proof. exact (walk_visits_all_lemma walk_table walker_covers_all_children). Qed.

(* a relative import joined to the importing file's directory and normalised is the file that
   path denotes from that directory *)
Theorem join_normalize : forall d r, absolute d ->
  normalize (d ++ slash :: r) = render_abs (resolve_from (resolve d) r).
Proof. exact Path_Lemmas.join_normalize. Qed.

(* any two spellings of the same file normalise to the same text (one cache key, one cycle-check entry) *)
Theorem normalize_equiv_iff : forall p q,
  absolute p -> absolute q -> (normalize p = normalize q <-> resolve p = resolve q).
Proof. exact Path_Lemmas.normalize_equiv_iff. Qed.

Theorem normalize_idem : forall p, absolute p -> normalize (normalize p) = normalize p.
Proof. exact Path_Lemmas.normalize_idem. Qed.

(* ---- the import state machine (env/Import.v): value cache, import stack, static cycle check ---- *)
From Ucg Require Import env.Import env.Import_Lemmas.

(* building a file evaluates every file it reaches at most once *)
Theorem each_file_evaluated_once : forall md fuel proj root,
    List.NoDup (evaluations (fst (build_file md fuel proj empty_state root))).
Proof. exact import_evaluates_once. Qed.

(* two imports of the same file (any spellings, any moments of the build) see the same value *)
Theorem every_importer_sees_same_value :
  forall md proj fuel1 fuel2 stack1 stack2 st1 st2 p q st1' st2' stack1' stack2' v w,
    cache_ok proj (val_cache st1) -> cache_ok proj (val_cache st2) ->
    Path.normalize p = Path.normalize q ->
    import md fuel1 proj stack1 st1 p = (st1', stack1', Ok v) ->
    import md fuel2 proj stack2 st2 q = (st2', stack2', Ok w) -> v = w.
Proof. exact import_same_value. Qed.

(* the spelling of an import path does not matter *)
Theorem import_spelling_irrelevant : forall md p q,
    Path.absolute p -> Path.absolute q -> Path.resolve p = Path.resolve q ->
    forall fuel proj stack st, import md fuel proj stack st p = import md fuel proj stack st q.
Proof. exact spelling_irrelevant. Qed.

(* a cycle through any spelling is reported as an error - nothing is evaluated, nothing written, no loop *)
Theorem import_cycle_reported : forall md proj fuel st root,
    shape_ok proj (shape_cache st) -> cyclic_from proj root -> List.length proj <= fuel ->
    snd (build_file md fuel proj st root) = Err Cycle /\
    evaluations (fst (build_file md fuel proj st root)) = evaluations st /\
    artifacts (fst (build_file md fuel proj st root)) = artifacts st.
Proof. exact import_cycle_is_error. Qed.

(* the fuel of the model is never the reason for an outcome: builds terminate *)
Theorem import_always_terminates : forall md proj fuel st root,
    List.length proj <= fuel -> snd (build_file md fuel proj st root) <> Err OutOfFuel.
Proof. exact import_terminates. Qed.

(* and a project without cycles, missing or failing files builds, to the value the files denote *)
Theorem acyclic_project_builds : forall md proj fuel root d,
    good d proj root = true -> List.length proj <= fuel ->
    exists v, snd (build_file md fuel proj empty_state root) = Ok v /\ value_of d proj root = Some v.
Proof. exact acyclic_builds. Qed.
