(* C09 -- imports resolve against the importing file, run once, and cycles are errors.
   (path normalisation and the AST walker's coverage; the import state machine is in env/Import.v) *)
From Ucg Require Import base.Bytes path.Path path.Path_Lemmas walk.Walk walk.Walk_Lemmas.
From UcgGen Require Import WalkTable.

(* every field of every Expression / Statement variant that can hold a sub-expression is descended into
   by the walker that rewrites relative import/include paths (table regenerated from the sources) *)
Theorem walker_covers_all_children : covers walk_table = true.
Proof. vm_compute. reflexivity. Qed.

(* hence the walker visits every node of every AST *)
Theorem rewrite_reaches_every_node :
  forall t, wf_rose walk_table t = true -> visit walk_table t = nodes t.
Proof. exact (walk_visits_all_lemma walk_table walker_covers_all_children). Qed.

(* a relative import joined to the importing file's directory and normalised is the file that
   path denotes from that directory *)
Theorem join_normalize : forall d r, absolute d ->
  normalize (d ++ slash :: r) = render_abs (resolve_from (resolve d) r).
Proof. exact Path_Lemmas.join_normalize. Qed.

(* any two spellings of the same file normalise to the same text (one cache key, one cycle-check entry) *)
Theorem normalize_equiv_iff : forall p q,
  absolute p -> absolute q -> (normalize p = normalize q <-> resolve p = resolve q).
Proof. exact Path_Lemmas.normalize_equiv_iff. Qed.

Theorem normalize_idem : forall p, absolute p -> normalize (normalize p) = normalize p.
Proof. exact Path_Lemmas.normalize_idem. Qed.
