(* C15 -- included data files decode to the data they contain.
   JSON: independent RFC 8259 parser + the Val mapping of src/convert/json.rs (proved to be the
   specification: ints as ints iff integral literal within i64, else float; list order; keys).
   base64: RFC 4648 encoders with a strict independent decoder.  YAML/TOML decoders are third party. *)
From Ucg Require Import data.Val data.Json data.MapJson data.Json_Lemmas data.MapJson_Lemmas data.B64 data.B64_Lemmas.

Theorem from_json_spec : forall j, from_json j = val_of_json_spec j.
Proof. exact MapJson_Lemmas.from_json_spec. Qed.

(* what is written by `out json` is read back by `include json` as the tree that was written *)
Theorem json_reimport : forall v j,
  to_json v = Ok j -> json_input (json_print j) = Some (from_json j).
Proof.
  intros v j H. unfold json_input.
  rewrite (Json_Lemmas.json_text_roundtrip j (MapJson_Lemmas.to_json_wf v j H)). reflexivity.
Qed.

Theorem b64_roundtrip : forall u bs, b64_decode u (b64_encode u bs) = Some bs.
Proof. exact B64_Lemmas.b64_roundtrip. Qed.

Theorem b64_decode_strict : forall u s bs, b64_decode u s = Some bs -> b64_encode u bs = s.
Proof. exact B64_Lemmas.b64_decode_strict. Qed.

Theorem b64_alphabet : forall u bs, Forall (in_alphabet u) (b64_encode u bs).
Proof. exact B64_Lemmas.b64_alphabet. Qed.

Theorem b64_variants_differ_only_62_63 : forall bs,
  b64_encode true bs = map swap6263 (b64_encode false bs).
Proof. exact B64_Lemmas.b64_variants_differ_only_62_63. Qed.

Theorem b64_length : forall u bs,
  List.length (b64_encode u bs) = (4 * ((List.length bs + 2) / 3))%nat.
Proof. exact B64_Lemmas.b64_length. Qed.
