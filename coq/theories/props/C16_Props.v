(* C16 -- a file builds the same alone, in any batch, in any order, any number of times.
   Stated on the model of one invocation (env/Import.v, env/Batch.v): ONE Environment - opcode cache, value cache,
   shape cache, output locks - threaded through the files in command-line order.  [in_batch fuel proj pre r] is the
   build of r after the files pre in the same Environment; [alone] is a fresh process. *)
From Coq Require Import Permutation.
From Ucg Require Import base.Bytes path.Path env.Import env.Import_Lemmas env.Import_Sim env.Batch env.Batch_Lemmas.

(* same success or failure, same value, and every artifact the stand-alone build writes holds the same
   content after the batch - for every project (cyclic, missing, failing, two-out files included) *)
Theorem batch_equals_alone : forall proj fuel pre r post,
    List.length proj <= fuel ->
    is_ok (snd (in_batch LockPerEvaluation fuel proj pre r)) = is_ok (snd (alone LockPerEvaluation fuel proj r)) /\
    (forall v w, snd (in_batch LockPerEvaluation fuel proj pre r) = Ok v ->
                 snd (alone LockPerEvaluation fuel proj r) = Ok w -> v = w) /\
    (forall k v, last_write k (artifacts (fst (alone LockPerEvaluation fuel proj r))) = Some v ->
                 last_write k (artifacts (fst (batch LockPerEvaluation fuel proj empty_state (pre ++ r :: post)))) = Some v).
Proof. exact batch_equals_alone_current. Qed.

(* the same, read off the result list of the invocation by position *)
Theorem batch_status : forall proj fuel files i r,
    List.length proj <= fuel -> List.nth_error files i = Some r ->
    exists res, List.nth_error (snd (batch LockPerEvaluation fuel proj empty_state files)) i = Some (r, res) /\
                is_ok res = is_ok (snd (alone LockPerEvaluation fuel proj r)) /\
                (forall v w, res = Ok v -> snd (alone LockPerEvaluation fuel proj r) = Ok w -> v = w).
Proof. exact batch_status_current. Qed.

(* in every order of the files *)
Theorem batch_order_independent : forall proj fuel pre r post pre' post',
    List.length proj <= fuel -> Permutation (pre ++ r :: post) (pre' ++ r :: post') ->
    is_ok (snd (in_batch LockPerEvaluation fuel proj pre r)) = is_ok (snd (in_batch LockPerEvaluation fuel proj pre' r)) /\
    (forall v w, snd (in_batch LockPerEvaluation fuel proj pre r) = Ok v ->
                 snd (in_batch LockPerEvaluation fuel proj pre' r) = Ok w -> v = w) /\
    (forall k v, last_write k (artifacts (fst (alone LockPerEvaluation fuel proj r))) = Some v ->
       last_write k (artifacts (fst (batch LockPerEvaluation fuel proj empty_state (pre ++ r :: post)))) = Some v /\
       last_write k (artifacts (fst (batch LockPerEvaluation fuel proj empty_state (pre' ++ r :: post')))) = Some v).
Proof. exact batch_order_indep_current. Qed.

(* repeating the invocation: a second process gives the same results ... *)
Theorem invocation_repeatable : forall md proj fuel files,
    fst (repeat_invocation md fuel proj files) = snd (repeat_invocation md fuel proj files).
Proof. exact batch_repeat. Qed.

(* ... and even naming every file twice in one invocation changes nothing *)
Theorem batch_files_twice : forall proj fuel files pre r post,
    List.length proj <= fuel -> (files ++ files)%list = (pre ++ r :: post)%list ->
    is_ok (snd (in_batch LockPerEvaluation fuel proj pre r)) = is_ok (snd (alone LockPerEvaluation fuel proj r)) /\
    (forall k v, last_write k (artifacts (fst (alone LockPerEvaluation fuel proj r))) = Some v ->
                 last_write k (artifacts (fst (repeat_same_env LockPerEvaluation fuel proj files))) = Some v).
Proof. exact batch_repeat_current. Qed.

(* what the caches hold is what the files denote: sharing is not observable *)
Theorem shared_caches_transparent : forall md proj fuel files st l,
    batch md fuel proj empty_state files = (st, l) ->
    (forall k v, List.In (k, v) (val_cache st) -> exists d, value_of d proj k = Some v) /\
    (forall k v, List.In (k, v) (artifacts st) -> exists d, value_of d proj k = Some v).
Proof. exact caches_transparent. Qed.

(* with the output lock of the original code (held for the whole invocation) the property is false *)
Theorem per_invocation_lock_refuted :
  ~ (forall proj fuel pre r, List.length proj <= fuel ->
       is_ok (snd (in_batch LockPerInvocation fuel proj pre r)) = is_ok (snd (alone LockPerInvocation fuel proj r))).
Proof. exact batch_lock_refuted. Qed.
