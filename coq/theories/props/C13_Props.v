(* C13 -- `ucg test` reports a file as passing exactly when all its assertions hold. *)
From Ucg Require Import env.Collector env.Collector_Lemmas.
From Coq Require Import Permutation.

Theorem verdict_exact : forall fs i f,
    nth_error fs i = Some f ->
    option_map rverdict (nth_error (test_run PerFile fs) i) = Some (file_spec f).
Proof. exact verdict_exact_lemma. Qed.

Theorem pass_iff_builds_and_all_ok : forall f,
    file_spec f = Pass <-> build_err f = false /\ forall a, In a (asserts f) -> assert_ok a = true.
Proof. exact pass_iff. Qed.

Theorem malformed_is_failure : forall f tag, In (AMal tag) (asserts f) -> file_spec f = Fail.
Proof. exact malformed_is_failure_lemma. Qed.

Theorem verdict_order_indep : forall fs fs',
    Permutation fs fs' -> forall f, In f fs ->
    (exists i, nth_error fs i = Some f /\
               option_map rverdict (nth_error (test_run PerFile fs) i) = Some (file_spec f)) /\
    (exists j, nth_error fs' j = Some f /\
               option_map rverdict (nth_error (test_run PerFile fs') j) = Some (file_spec f)).
Proof. exact verdict_order_indep_lemma. Qed.

Theorem exit_status : forall fs,
    exit_code (test_run PerFile fs) <> 0%N <-> exists f, In f fs /\ file_spec f = Fail.
Proof. exact exit_status_lemma. Qed.

Theorem log_once : forall fs i f,
    nth_error fs i = Some f ->
    option_map rlog (nth_error (test_run PerFile fs) i) = Some (log_spec f).
Proof. exact log_once_lemma. Qed.

Theorem log_lists_each_assert_once : forall n l, map (fun x => snd x) (number_from n l) = l.
Proof. exact number_from_map. Qed.

(* the collector shared by the whole invocation (the code as first found) violates the property *)
Theorem shared_collector_refuted :
  map rverdict (test_run Shared [wit_a; wit_b]) = [Fail; Fail] /\
  map rverdict (test_run Shared [wit_b; wit_a]) = [Pass; Fail] /\
  file_spec wit_b = Pass.
Proof. exact Collector_Lemmas.shared_collector_refuted. Qed.
