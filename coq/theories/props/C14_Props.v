(* C14 -- `out` writes one artifact: right name, same bytes as `convert`, all or nothing. *)
From Ucg Require Import env.Out env.Out_Lemmas.

Section C14.
  Variable fmt : Type.
  Variable value : Type.
  Variable ext_of : fmt -> option bytes.
  Variable convert_bytes : fmt -> value -> option bytes.

  Theorem out_eq_convert : forall atomic st src f v bs ext,
    locked st src = false -> ext_of f = Some ext ->
    convert_expr fmt value ext_of convert_bytes f v = Some bs ->
    let '(st', r) := out_step fmt value ext_of convert_bytes atomic st src f v in
    r = OOk /\
    fs_get (files st') (with_extension src ext) = Some bs /\
    (forall q, q <> with_extension src ext -> fs_get (files st') q = fs_get (files st) q) /\
    locked st' src = true.
  Proof. exact (out_eq_convert_lemma fmt value ext_of convert_bytes). Qed.

  Theorem second_out_err : forall atomic st src f v,
    locked st src = true ->
    out_step fmt value ext_of convert_bytes atomic st src f v = (st, OErr OneOutputPerFile).
  Proof. exact (second_out_err_lemma fmt value ext_of convert_bytes). Qed.

  Theorem two_outs_fail : forall atomic st src o1 o2 rest,
    locked st src = false ->
    snd (build_outs fmt value ext_of convert_bytes atomic st src (o1 :: o2 :: rest)) <> OOk.
  Proof. exact (build_outs_two_lemma fmt value ext_of convert_bytes). Qed.

  Theorem out_atomic : forall st src f v e,
    snd (out_step fmt value ext_of convert_bytes true st src f v) = OErr e ->
    forall q, fs_get (files (fst (out_step fmt value ext_of convert_bytes true st src f v))) q
              = fs_get (files st) q.
  Proof. exact (out_atomic_lemma fmt value ext_of convert_bytes). Qed.
End C14.

Theorem create_before_convert_refuted :
  let st := {| files := [(b "/d/a.toml", b "old")]; locks := [] |} in
  fs_get (files (fst (out_step nat nat wit_ext wit_conv false st (b "/d/a.ucg") 0 0))) (b "/d/a.toml") = Some [] /\
  fs_get (files (fst (out_step nat nat wit_ext wit_conv true st (b "/d/a.ucg") 0 0))) (b "/d/a.toml") = Some (b "old").
Proof. exact Out_Lemmas.create_before_convert_refuted. Qed.
