(* C06 -- a `::` constraint on a binding admits exactly the conforming values.
   shape/Shape.v models Shape::narrow (with its memo and symbol-table updates), the checker's statement visitor and the VM's
   constraint check; [conforms] is written from the property text and docs/typechecking.md (same_shape, in_range, equality;
   NULL conforms to every exemplar).  The model's verdicts are compared with the real build on every pair by props/c06.py. *)
From Ucg Require Import base.Bytes sem.Sem shape.Shape shape.Shape_Lemmas.

Section C06.
  Variable fo : float_ops.
  Hypothesis float_roundtrip : forall x : F fo, f_of_bits fo (f_to_bits fo x) = x.

  (* the heart: on the property's grammar (literal arms; numeric range bounds of one type) and literal values,
     checker + run-time check accept exactly the conforming values *)
  Theorem constraint_admits_exactly_conforming : forall c v,
      constraint_grammar fo c = true -> literal_value fo v = true -> build_accepts fo c v = conforms fo c v.
  Proof. exact (let_constraint_exact_lit fo). Qed.

  (* `let x :: c = v;` as a statement goes through the same two checks *)
  Theorem let_statement_is_the_two_checks : forall c v,
      constraint_grammar fo c = true -> literal_value fo v = true -> build_accepts_prog fo c v = build_accepts fo c v.
  Proof. exact (build_accepts_prog_eq fo float_roundtrip). Qed.

  (* a named constraint behaves exactly like the same constraint written inline ... *)
  Theorem named_constraint_is_transparent : forall n c v,
      name_ok n = true -> constraint_grammar fo c = true -> literal_value fo v = true ->
      build_accepts_named fo n c v = build_accepts fo c v.
  Proof. exact (named_constraint_transparent fo float_roundtrip). Qed.

  (* ... and so does a let-bound exemplar *)
  Theorem let_bound_exemplar_is_transparent : forall n ex v,
      name_ok n = true -> literal_value fo ex = true -> literal_value fo v = true ->
      build_accepts_let_named fo n ex v = build_accepts fo (VExemplar ex) v.
  Proof. exact (let_bound_exemplar_transparent fo float_roundtrip). Qed.

  (* narrowing two literal shapes succeeds exactly when the values have the same shape, in either order, and changes no state *)
  Theorem narrow_literal_shapes : forall f a c,
      shape_size (shape_of_value fo a) + shape_size (shape_of_value fo c) <= f ->
      literal_value fo a = true -> literal_value fo c = true ->
      pure_at (narrow_f f) (shape_of_value fo a) (shape_of_value fo c) (same_shape fo true a c) /\
      pure_at (narrow_f f) (shape_of_value fo c) (shape_of_value fo a) (same_shape fo true a c).
  Proof. exact (narrow_lit fo). Qed.

  (* if NULL is read as a type of its own the statement is false (let x :: 0 = NULL; builds), and exact again without NULL *)
  Theorem strict_null_reading_refuted :
      exists c v, constraint_grammar fo c = true /\ literal_value fo v = true /\ build_accepts fo c v = true /\ conforms_strict fo c v = false.
  Proof. exact (let_constraint_exact_strict_refuted fo). Qed.

  Theorem exact_without_null : forall c v,
      constraint_grammar fo c = true -> literal_value fo v = true ->
      match c with VExemplar ex => null_free fo ex | VAlt _ => true end = true -> null_free fo v = true ->
      build_accepts fo c v = conforms_strict fo c v.
  Proof. exact (let_constraint_exact_strict_null_free fo). Qed.

  (* outside the grammar: a range with bounds of two numeric types takes the whole alternation with it *)
  Theorem mixed_range_refuted :
      let c := VAlt [VRange (Some (VInt 0)) (Some (VFloat (f_of_bits fo 4612811918334230528))); VExact (VStr (b "x"))] in
      constraint_grammar fo c = false /\ build_accepts fo c (VStr (b "x")) = false /\ conforms fo c (VStr (b "x")) = true.
  Proof. exact (let_constraint_mixed_range_refuted fo). Qed.

  (* since fix 761a6c7 an exemplar is also checked against the VALUE when the binding is made: for any data value, however it was
     computed, the run-time check alone is the shape test of the specification ... *)
  Theorem runtime_check_of_an_exemplar_is_same_shape : forall ex v,
      literal_value fo ex = true -> data_value fo v = true -> runtime_ok fo (VExemplar ex) v = same_shape fo true ex v.
  Proof. exact (runtime_exemplar_exact fo). Qed.

  (* ... so `let x :: ex = e` can only bind x to a conforming value, whatever expression e is and whatever evaluates it *)
  Theorem exemplar_binding_binds_only_conforming_values : forall (ev : renv fo -> expr -> res (rval fo)) x ex e re re' v,
      literal_value fo ex = true -> data_value fo v = true -> ev re e = Ok (rv_of_value fo v) ->
      run_let_gen fo ev x (Some (CPlain (lit_expr fo ex))) e re = Ok re' ->
      same_shape fo true ex v = true /\ re' = (x, rv_of_value fo v) :: re.
  Proof. exact (let_exemplar_binds_same_shape fo float_roundtrip). Qed.

  (* the constraint's name must be a legal new binding *)
  Theorem name_clash_refuted :
      build_accepts_named fo (b "x") (VExemplar (VInt 0)) (VInt 1) = false /\ build_accepts fo (VExemplar (VInt 0)) (VInt 1) = true.
  Proof. exact (named_constraint_transparent_refuted fo). Qed.
End C06.
