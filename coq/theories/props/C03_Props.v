(* C03 -- JSON output decodes back to the value that was output (JSON is proved end to end:
   mapping layer + text layer; see DESIGN for the YAML/TOML status). *)
From Ucg Require Import data.Val data.Json data.MapJson data.Json_Lemmas data.MapJson_Lemmas.

(* text layer: the pretty printer's output is read back by an independent RFC 8259 parser *)
Theorem json_text_roundtrip : forall j, json_wf j = true -> json_parse (json_print j) = Some j.
Proof. exact Json_Lemmas.json_text_roundtrip. Qed.

(* mapping layer: the tree built from a value denotes exactly that value
   (same nesting, list order, key set, strings, booleans, nulls, numerically equal numbers) *)
Theorem to_json_lossless : forall v j, to_json v = Ok j -> json_abs j = Some (canon v).
Proof. exact MapJson_Lemmas.to_json_lossless. Qed.

(* end to end: whatever bytes the converter writes, they parse, and to the value output *)
Theorem json_output_decodes : forall v t,
    json_output v = Ok t -> exists j, json_parse t = Some j /\ json_abs j = Some (canon v).
Proof. exact MapJson_Lemmas.json_output_decodes. Qed.

(* unrepresentable values are errors, and only they are *)
Theorem to_json_error_iff : forall v, to_json v = Err <-> unrepresentable_json v = true.
Proof. exact MapJson_Lemmas.to_json_error_iff. Qed.

(* integers are written as numbers of the same value *)
Theorem int_text_value : forall z, num_value (dec_of_Z z ++ b ".0") = Some (z * 10, -1)%Z.
Proof. exact MapJson_Lemmas.num_value_int. Qed.
